(* Proof/HeaderSpecProof.v — C29: the header model (HeaderWrite.v + HeaderMap.v) refines the reference multimap of
   Spec/HeaderSpec.v.  Part A: facts about the reference multimap.  Part B: ResponseHeader.  Part C: RequestHeader. *)
From Coq Require Import Lia ZifyBool ZifyN ZifyNat.
From FH Require Import Model.Base Gen.GenC05 Gen.GenC06 Model.Ints Spec.IntsSpec Proof.IntsProof Model.ByteClassModel Model.Cookie
  Model.HeaderWrite Model.HeaderMap Spec.HeaderSpec Proof.HeaderMapProof.
Open Scope N_scope.

(* ================= Part A: the reference multimap ================= *)
Lemma mm_vals_app m l c : mm_vals (m ++ l) c = mm_vals m c ++ mm_vals l c.
Proof. unfold mm_vals. now rewrite filter_app, map_app. Qed.
Lemma mm_vals_add_same m c v : mm_vals (mm_add m c v) c = mm_vals m c ++ [v].
Proof. unfold mm_add. rewrite mm_vals_app. unfold mm_vals. cbn. now rewrite beq_refl. Qed.
Lemma mm_vals_add_other m c v c' : c' <> c -> mm_vals (mm_add m c v) c' = mm_vals m c'.
Proof. intros. unfold mm_add. rewrite mm_vals_app. unfold mm_vals at 2. cbn. rewrite (beq_ne_false c c') by congruence. apply app_nil_r. Qed.
Lemma mm_vals_del_same m c : mm_vals (mm_del m c) c = [].
Proof.
  unfold mm_vals, mm_del. induction m as [|[k v] m IH]; cbn; [reflexivity|].
  destruct (beq k c) eqn:E; cbn; [exact IH|]. rewrite E. exact IH.
Qed.
Lemma mm_vals_del_other m c c' : c' <> c -> mm_vals (mm_del m c) c' = mm_vals m c'.
Proof.
  intros Hne. unfold mm_vals, mm_del. induction m as [|[k v] m IH]; cbn; [reflexivity|].
  destruct (beq k c) eqn:E; cbn.
  - apply beq_eq in E. subst k. rewrite (beq_ne_false c c') by congruence. exact IH.
  - destruct (beq k c'); cbn; now rewrite IH.
Qed.
Lemma mm_vals_set_same m c v : mm_vals (mm_set_first m c v) c = set_first v (mm_vals m c).
Proof.
  unfold mm_vals. induction m as [|[k x] m IH]; cbn; [now rewrite beq_refl|].
  destruct (beq k c) eqn:E; cbn; rewrite E; [reflexivity|exact IH].
Qed.
Lemma mm_vals_set_other m c v c' : c' <> c -> mm_vals (mm_set_first m c v) c' = mm_vals m c'.
Proof.
  intros Hne. unfold mm_vals. induction m as [|[k x] m IH]; cbn.
  - now rewrite (beq_ne_false c c') by congruence.
  - destruct (beq k c) eqn:E; cbn.
    + apply beq_eq in E. subst k. now rewrite (beq_ne_false c c') by congruence.
    + destruct (beq k c'); cbn; now rewrite IH.
Qed.
Lemma mm_vals_single_other m c v c' : c' <> c -> mm_vals (mm_single m c v) c' = mm_vals m c'.
Proof. intros. unfold mm_single. destruct v; [apply mm_vals_del_other|apply mm_vals_set_other]; assumption. Qed.
Lemma mm_vals_single_same m c v : (length (mm_vals m c) <= 1)%nat -> mm_vals (mm_single m c v) c = opt1 v.
Proof.
  intros Hl. unfold mm_single. destruct v as [|b v]; [apply mm_vals_del_same|].
  rewrite mm_vals_set_same. destruct (mm_vals m c) as [|x [|y l]]; cbn in *; try reflexivity. lia.
Qed.
Lemma mm_vals_map_other (c c' : bytes) (l : list bytes) : c' <> c -> mm_vals (map (fun s => (c, s)) l) c' = [].
Proof. intros. unfold mm_vals. induction l; cbn; [reflexivity|]. now rewrite (beq_ne_false c c') by congruence. Qed.
Lemma mm_vals_map_same (c : bytes) (l : list bytes) : mm_vals (map (fun s => (c, s)) l) c = l.
Proof. unfold mm_vals. induction l; cbn; [reflexivity|]. rewrite beq_refl. cbn. now f_equal. Qed.

(* an operation on one name leaves the values of every other name alone (the reference model has the property) *)
Lemma put_other t nonorm add m k v c' : c' <> canon nonorm k -> mm_vals (put t nonorm add m k v) c' = mm_vals m c'.
Proof.
  intros Hne. unfold put. destruct (cls_of t (canon nonorm k)).
  - destruct add; [apply mm_vals_add_other|apply mm_vals_set_other]; assumption.
  - apply mm_vals_single_other; assumption.
  - apply mm_vals_set_other; assumption.
  - destruct (is_int _); [apply mm_vals_set_other; assumption|reflexivity].
  - rewrite mm_vals_app, mm_vals_map_other by assumption. apply app_nil_r.
  - apply mm_vals_add_other; assumption.
  - apply mm_vals_single_other; assumption.
  - reflexivity.
Qed.
Lemma sstep_other t nonorm m o c' :
  match o with SSet k _ | SAdd k _ | SDel k => c' <> canon nonorm k | SCopy => True end ->
  mm_vals (sstep t nonorm m o) c' = mm_vals m c'.
Proof. destruct o; cbn; intros H; [apply put_other| apply put_other| apply mm_vals_del_other|reflexivity]; assumption. Qed.

(* ---- trailer vocabulary ---- *)
Lemma join_acc dst l sep : appendTrailerBytes dst l sep = dst ++ join sep l.
Proof.
  revert dst; induction l as [|x l IH]; intros dst; cbn; [now rewrite app_nil_r|].
  destruct l as [|y l]; [reflexivity|]. rewrite IH. cbn [join]. now rewrite <- !app_assoc.
Qed.
Lemma jointr_join l : jointr l = join strCommaSpace l.
Proof. unfold jointr. now rewrite join_acc. Qed.

Lemma split_at_len d s : forall seg r, split_at d s = (seg, Some r) -> (length r < length s)%nat.
Proof.
  induction s as [|c s IH]; cbn; intros seg r H; [discriminate|].
  destruct (c =? d).
  - injection H as _ <-. lia.
  - destruct (split_at d s) as [a t] eqn:E. injection H as _ ->. specialize (IH a r eq_refl). lia.
Qed.
Lemma split_on_split_at d s : forall cur,
  split_on d cur s = (cur ++ fst (split_at d s)) :: match snd (split_at d s) with Some r => split_on d [] r | None => [] end.
Proof.
  induction s as [|c s IH]; intros cur; cbn; [now rewrite app_nil_r|].
  destruct (c =? d); cbn; [now rewrite app_nil_r|].
  rewrite IH. destruct (split_at d s) as [a t]. cbn. now rewrite <- app_assoc.
Qed.

Definition seg_names (nonorm : bool) (seg : bytes) : list bytes :=
  let key := trim seg in
  if isValidTrailerKey key && negb (isBadTrailer key) then [normalizeHeaderKeyValidated key nonorm] else [].
Lemma trailer_names_cons nonorm t :
  trailer_names nonorm t = seg_names nonorm (fst (split_at 44 t)) ++
    match snd (split_at 44 t) with Some r => trailer_names nonorm r | None => [] end.
Proof.
  unfold trailer_names. rewrite split_on_split_at. cbn [app map filter].
  unfold seg_names. destruct (isValidTrailerKey _ && negb _); destruct (snd (split_at 44 t)); reflexivity.
Qed.
Lemma trim_nil : trim [] = [].
Proof. reflexivity. Qed.
Lemma trailer_names_nil nonorm : trailer_names nonorm [] = [].
Proof. reflexivity. Qed.

Lemma atb_loop_names nonorm : forall fuel t tr err, (length t <= fuel)%nat -> t <> [] ->
  fst (atb_loop fuel t tr err nonorm) = tr ++ trailer_names nonorm t.
Proof.
  induction fuel as [|f IH]; intros t tr err Hl Hne.
  - destruct t; [contradiction|cbn in Hl; lia].
  - cbn [atb_loop]. rewrite (trailer_names_cons nonorm t).
    destruct (split_at 44 t) as [seg after] eqn:Es. cbn [fst snd].
    unfold seg_names.
    assert (Hb : negb (isValidTrailerKey (trim seg)) || isBadTrailer (trim seg) =
                 negb (isValidTrailerKey (trim seg) && negb (isBadTrailer (trim seg)))).
    { destruct (isValidTrailerKey _), (isBadTrailer _); reflexivity. }
    rewrite Hb.
    destruct (isValidTrailerKey (trim seg) && negb (isBadTrailer (trim seg))); cbn [negb].
    + destruct after as [[|c r]|]; cbn [fst]; rewrite ?trailer_names_nil, ?app_nil_r; try reflexivity.
      rewrite IH; [now rewrite <- app_assoc| |discriminate].
      pose proof (split_at_len _ _ _ _ Es). cbn in *. lia.
    + destruct after as [[|c r]|]; cbn [fst app]; rewrite ?trailer_names_nil, ?app_nil_r; try reflexivity.
      rewrite IH; [reflexivity| |discriminate].
      pose proof (split_at_len _ _ _ _ Es). cbn in *. lia.
Qed.

Lemma hSetTrailer_names x v :
  fst (hSetTrailerBytes x v) = with_htrailer x (trailer_names (hdisableNorm x) v).
Proof.
  unfold hSetTrailerBytes, hAddTrailerBytes. destruct v as [|b v]; [reflexivity|].
  pose proof (atb_loop_names (hdisableNorm x) (length (b :: v)) (b :: v) [] false (le_n _) ltac:(discriminate)) as H.
  cbn [htrailer with_htrailer hdisableNorm] in *.
  destruct (atb_loop _ _ _ _ _) as [tr err]. cbn [fst] in *. subst tr. reflexivity.
Qed.

(* the trailer list never holds an empty name, so a non-empty list joins to a non-empty value *)
Lemma nhk_loop_len s : forall up, length (nhk_loop up s) = length s.
Proof. induction s as [|c s IH]; intros up; cbn; [reflexivity|]. now rewrite IH. Qed.
Lemma nhkv_nonempty n d : n <> [] -> normalizeHeaderKeyValidated n d <> [].
Proof.
  intros Hn. unfold normalizeHeaderKeyValidated. destruct d; [exact Hn|].
  intros E. apply (f_equal (@length N)) in E. rewrite nhk_loop_len in E. destruct n; [contradiction|discriminate].
Qed.
Lemma trailer_names_nonempty nonorm v : Forall (fun n => n <> []) (trailer_names nonorm v).
Proof.
  unfold trailer_names. apply Forall_forall. intros x Hx. apply in_map_iff in Hx as (n & <- & Hn).
  apply filter_In in Hn as [_ Hn]. apply andb_true_iff in Hn as [Hn _].
  apply nhkv_nonempty. intros ->. discriminate.
Qed.
Lemma join_nonempty sep l : l <> [] -> Forall (fun n => n <> []) l -> join sep l <> [].
Proof.
  intros Hl Hf. destruct l as [|x l]; [contradiction|]. inversion Hf as [|? ? Hx _]; subst.
  destruct x as [|b x]; [contradiction|]. destruct l; cbn; discriminate.
Qed.
Definition tr_ok (tr : list bytes) : Prop := tr = [] \/ jointr tr <> [].
Lemma trailer_names_ok nonorm v : tr_ok (trailer_names nonorm v).
Proof.
  unfold tr_ok. destruct (trailer_names nonorm v) eqn:E; [now left|right].
  rewrite jointr_join, <- E. apply join_nonempty; [rewrite E; discriminate|apply trailer_names_nonempty].
Qed.
Lemma tr_ok_opt1 tr : tr_ok tr -> match tr with [] => [] | _ => [jointr tr] end = opt1 (jointr tr).
Proof. intros [->|H]; [reflexivity|]. destruct tr as [|t0 tr]; [reflexivity|]. destruct (jointr (t0 :: tr)); [contradiction|reflexivity]. Qed.

(* ================= Part B: ResponseHeader ================= *)
Definition sop_of (o : hop) : sop :=
  match o with HSet k v => SSet k v | HAdd k v => SAdd k v | HDel k => SDel k | HCopy => SCopy end.
Definition wf_op (o : hop) : Prop := match o with HSet _ v | HAdd _ v => wf_bytes v | _ => True end.
Definition key_ok (specials : list bytes) (nonorm : bool) (o : hop) : bool :=
  match o with HSet k _ | HAdd k _ => casefold_ok specials (canon nonorm k) | _ => true end.

Definition rflags (r : resp) : bool * bool := (hdisableNorm (rh r), hnoDefCT (rh r)).
Definition Rsim (nonorm : bool) (r : resp) (m : mm) : Prop :=
  hdisableNorm (rh r) = nonorm /\ (forall c, rvals r c = mm_vals m c) /\ (length (mm_vals m strConnection) <= 1)%nat
  /\ (forall c, cls_of HResp c = CIgnored -> mm_vals m c = []).

Lemma wf_clean v : wf_bytes v -> wf_bytes (clean v).
Proof.
  unfold wf_bytes, clean, removeNewLines. intros H. apply Forall_map. eapply Forall_impl; [|exact H].
  cbn. intros a Ha. destruct ((a =? 13) || (a =? 10)); lia.
Qed.

Lemma RSetExact_norm r c v : rflags (RSetExact r c v) = rflags r.
Proof.
  unfold RSetExact.
  repeat match goal with |- context[if beq c ?X then _ else _] => destruct (beq c X) end; try reflexivity.
  - destruct (parseContentLength v); reflexivity.
  - destruct (hasHeaderValue v strClose); [reflexivity|]. cbn. unfold hResetConnectionClose. destruct (hclose (rh r)); reflexivity.
  - unfold RSetTrailerBytes. destruct (hSetTrailer_shape (rh r) v) as [tr ->]. reflexivity.
Qed.
Lemma RAddExact_norm r c v : rflags (RAddExact r c v) = rflags r.
Proof. unfold RAddExact. destruct (existsb _ _); [apply RSetExact_norm|reflexivity]. Qed.
Lemma Rdel_norm r c : rflags (Rdel r c) = rflags r.
Proof.
  unfold Rdel. repeat match goal with |- context[if beq c ?X then _ else _] => destruct (beq c X) end; reflexivity.
Qed.

Lemma RSetExact_tr r c v : tr_ok (htrailer (rh r)) -> tr_ok (htrailer (rh (RSetExact r c v))).
Proof.
  intros H. unfold RSetExact.
  repeat match goal with |- context[if beq c ?X then _ else _] => destruct (beq c X) end; try exact H.
  - destruct (parseContentLength v); exact H.
  - destruct (hasHeaderValue v strClose); [exact H|]. cbn. unfold hResetConnectionClose. destruct (hclose (rh r)); exact H.
  - unfold RSetTrailerBytes. rewrite hSetTrailer_names. cbn. apply trailer_names_ok.
Qed.
Lemma RAddExact_tr r c v : tr_ok (htrailer (rh r)) -> tr_ok (htrailer (rh (RAddExact r c v))).
Proof. intros H. unfold RAddExact. destruct (existsb _ _); [now apply RSetExact_tr|exact H]. Qed.
Lemma Rdel_tr r c : tr_ok (htrailer (rh r)) -> tr_ok (htrailer (rh (Rdel r c))).
Proof.
  intros H. unfold Rdel.
  repeat match goal with |- context[if beq c ?X then _ else _] => destruct (beq c X) end; try exact H.
  left. reflexivity.
Qed.

Lemma opt1_len v : (length (opt1 v) <= 1)%nat.
Proof. destruct v; cbn; lia. Qed.
Lemma set_first_le1 v l : (length l <= 1)%nat -> set_first v l = [v].
Proof. destruct l as [|x [|y l]]; cbn; intros; try reflexivity; lia. Qed.

Lemma is_int_model v : wf_bytes v ->
  match parseContentLength v with Some _ => is_int v = true /\ v <> [] | None => is_int v = false end.
Proof.
  intros Hwf. unfold parseContentLength, is_int. rewrite (parse_exact 64 v (or_intror eq_refl) Hwf).
  destruct (spec_parse_uint (maxInt 64) v) eqn:E; [|reflexivity]. split; [reflexivity|].
  intros ->. discriminate.
Qed.

(* the own-name effect of Set / Add on a response header equals the reference model's *)
Lemma Rput_same nonorm (add : bool) r m c v :
  Rsim nonorm r m -> wf_bytes v ->
  let v' := clean v in
  let r' := if add then RAddExact r c v' else RSetExact r c v' in
  let m' := match cls_of HResp c with
            | COrd => if add then mm_add m c v' else mm_set_first m c v'
            | CSingle => mm_single m c v'
            | CConn => mm_set_first m c (if hasHeaderValue v' strClose then strClose else v')
            | CNum => if is_int v' then mm_set_first m c v' else m
            | CJar => m ++ map (fun s => (c, s)) (cookie_pairs v')
            | CSetCookie => mm_add m c v'
            | CTrailer => mm_single m c (trailer_value nonorm v')
            | CIgnored => m
            end in
  rvals r' c = mm_vals m' c.
Proof.
  intros (Hd & Hv & Hc & _) Hwf v' r' m'.
  assert (Hadd : existsb (beq c) rspecials = true -> r' = RSetExact r c v').
  { intros H. subst r'. destruct add; [|reflexivity]. unfold RAddExact. now rewrite H. }
  beq_case c strContentType E1.
  { subst c. rewrite Hadd by reflexivity. subst m'. change (cls_of HResp strContentType) with CSingle. cbv beta iota.
    rewrite mm_vals_single_same by (rewrite <- Hv; apply opt1_len).
    apply (rvals_set_single r strContentType v). tauto. }
  beq_case c strContentLength E2.
  { subst c. rewrite Hadd by reflexivity. subst m'. change (cls_of HResp strContentLength) with CNum. cbv beta iota.
    rewrite rvals_set_cl. pose proof (is_int_model v' (wf_clean v Hwf)) as Hi.
    destruct (parseContentLength v').
    - destruct Hi as [-> Hne]. rewrite mm_vals_set_same, <- Hv.
      rewrite set_first_le1 by apply opt1_len. destruct v'; [contradiction|reflexivity].
    - rewrite Hi. apply Hv. }
  beq_case c strContentEncoding E3.
  { subst c. rewrite Hadd by reflexivity. subst m'. change (cls_of HResp strContentEncoding) with CSingle. cbv beta iota.
    rewrite mm_vals_single_same by (rewrite <- Hv; apply opt1_len).
    apply (rvals_set_single r strContentEncoding v). tauto. }
  beq_case c strConnection E4.
  { subst c. rewrite Hadd by reflexivity. subst m'. change (cls_of HResp strConnection) with CConn. cbv beta iota.
    rewrite rvals_set_conn, mm_vals_set_same, Hv. unfold v'.
    destruct (hasHeaderValue (clean v) strClose) eqn:Ec; [|reflexivity].
    symmetry. apply set_first_le1. exact Hc. }
  beq_case c strServer E5.
  { subst c. rewrite Hadd by reflexivity. subst m'. change (cls_of HResp strServer) with CSingle. cbv beta iota.
    rewrite mm_vals_single_same by (rewrite <- Hv; apply opt1_len).
    apply (rvals_set_single r strServer v). tauto. }
  beq_case c strSetCookie E6.
  { subst c. rewrite Hadd by reflexivity. subst m'. change (cls_of HResp strSetCookie) with CSetCookie. cbv beta iota.
    rewrite rvals_set_cookie, mm_vals_add_same, Hv. reflexivity. }
  beq_case c strTransferEncoding E7.
  { subst c. rewrite Hadd by reflexivity. subst m'. change (cls_of HResp strTransferEncoding) with CIgnored. cbv beta iota.
    rewrite rvals_set_ignored by tauto. apply Hv. }
  beq_case c strTrailer E8.
  { subst c. rewrite Hadd by reflexivity. subst m'. change (cls_of HResp strTrailer) with CTrailer. cbv beta iota.
    rewrite mm_vals_single_same by (rewrite <- Hv; apply opt1_len).
    replace (RSetExact r strTrailer v') with (RSetTrailerBytes r v') by reflexivity.
    unfold RSetTrailerBytes. rewrite hSetTrailer_names, Hd.
    match goal with |- rvals ?X strTrailer = _ => change (rvals X strTrailer) with (opt1 (jointr (htrailer (rh X)))) end.
    cbn [rh with_rh htrailer with_htrailer]. rewrite jointr_join. reflexivity. }
  beq_case c strDate E9.
  { subst c. rewrite Hadd by reflexivity. subst m'. change (cls_of HResp strDate) with CIgnored. cbv beta iota.
    rewrite rvals_set_ignored by tauto. apply Hv. }
  assert (Ho : ordinary_r c = true).
  { unfold ordinary_r. cbn [existsb rspecials]. now rewrite E1, E2, E3, E4, E5, E6, E7, E8, E9. }
  assert (Hcls : cls_of HResp c = COrd).
  { unfold cls_of. now rewrite E1, E2, E3, E4, E5, E6, E7, E8, E9. }
  subst m' r'. rewrite Hcls. destruct add.
  - rewrite rvals_add_ord, mm_vals_add_same, Hv by assumption. reflexivity.
  - rewrite rvals_set_ord, mm_vals_set_same, Hv by assumption. reflexivity.
Qed.

Lemma rflags_norm r r' : rflags r' = rflags r -> hdisableNorm (rh r') = hdisableNorm (rh r).
Proof. unfold rflags. congruence. Qed.
Lemma rflags_nodef r r' : rflags r' = rflags r -> hnoDefCT (rh r') = hnoDefCT (rh r).
Proof. unfold rflags. congruence. Qed.

Lemma rstep29_exact nonorm r o : hdisableNorm (rh r) = nonorm -> key_ok rspecials nonorm o = true ->
  rstep29 r o = match o with
                | HSet k v => RSetExact r (canon nonorm k) (clean v)
                | HAdd k v => RAddExact r (canon nonorm k) (clean v)
                | HDel k => Rdel r (canon nonorm k)
                | HCopy => r
                end.
Proof.
  intros Hd Hk. destruct o as [k v|k v|k|]; cbn [rstep29 key_ok] in *.
  - unfold RSet. rewrite Hd. apply RSetCanonical_exact. exact Hk.
  - unfold RAdd. rewrite Hd. apply RAdd_exact. exact Hk.
  - unfold RDel. now rewrite Hd.
  - reflexivity.
Qed.

Lemma rstep29_flags nonorm r o : hdisableNorm (rh r) = nonorm -> key_ok rspecials nonorm o = true ->
  rflags (rstep29 r o) = rflags r.
Proof.
  intros Hd Hk. rewrite (rstep29_exact nonorm r o Hd Hk).
  destruct o; [apply RSetExact_norm|apply RAddExact_norm|apply Rdel_norm|reflexivity].
Qed.

Theorem Rstep_sim nonorm r m o :
  Rsim nonorm r m -> key_ok rspecials nonorm o = true -> wf_op o ->
  Rsim nonorm (rstep29 r o) (sstep HResp nonorm m (sop_of o)).
Proof.
  intros HS Hk Hwf. pose proof HS as (Hd & Hv & Hc & Hig).
  assert (Hte : peekAllArgs (hh (rh r)) strTransferEncoding = []).
  { change (peekAllArgs (hh (rh r)) strTransferEncoding) with (rvals r strTransferEncoding). rewrite Hv. now apply Hig. }
  split; [|split; [|split]].
  - rewrite <- Hd. apply rflags_norm. apply (rstep29_flags nonorm); assumption.
  - intros c'. rewrite (rstep29_exact nonorm r o Hd Hk).
    destruct o as [k v|k v|k|]; cbn [sop_of sstep wf_op] in *.
    + destruct (beq c' (canon nonorm k)) eqn:E.
      * apply beq_eq in E. subst c'. apply (Rput_same nonorm false r m (canon nonorm k) v HS Hwf).
      * apply beq_false_ne in E. rewrite rvals_frame_set, put_other by assumption. apply Hv.
    + destruct (beq c' (canon nonorm k)) eqn:E.
      * apply beq_eq in E. subst c'. apply (Rput_same nonorm true r m (canon nonorm k) v HS Hwf).
      * apply beq_false_ne in E. rewrite rvals_frame_add, put_other by assumption. apply Hv.
    + destruct (beq c' (canon nonorm k)) eqn:E.
      * apply beq_eq in E. subst c'. now rewrite rvals_del_same, mm_vals_del_same.
      * apply beq_false_ne in E. rewrite rvals_frame_del, mm_vals_del_other by assumption. apply Hv.
    + apply Hv.
  - destruct o as [k v|k v|k|]; cbn [sop_of sstep] in *; try exact Hc.
    + destruct (beq strConnection (canon nonorm k)) eqn:E.
      * apply beq_eq in E. unfold put. rewrite <- E. change (cls_of HResp strConnection) with CConn. cbv beta iota.
        rewrite mm_vals_set_same, set_first_le1 by exact Hc. cbn. lia.
      * apply beq_false_ne in E. now rewrite put_other.
    + destruct (beq strConnection (canon nonorm k)) eqn:E.
      * apply beq_eq in E. unfold put. rewrite <- E. change (cls_of HResp strConnection) with CConn. cbv beta iota.
        rewrite mm_vals_set_same, set_first_le1 by exact Hc. cbn. lia.
      * apply beq_false_ne in E. now rewrite put_other.
    + destruct (beq strConnection (canon nonorm k)) eqn:E.
      * apply beq_eq in E. rewrite <- E, mm_vals_del_same. cbn. lia.
      * apply beq_false_ne in E. now rewrite mm_vals_del_other.
  - intros c' Hc'. destruct o as [k v|k v|k|]; cbn [sop_of sstep] in *; try (apply Hig; exact Hc').
    + destruct (beq c' (canon nonorm k)) eqn:E.
      * apply beq_eq in E. subst c'. unfold put. rewrite Hc'. apply Hig; exact Hc'.
      * apply beq_false_ne in E. rewrite put_other by assumption. apply Hig; exact Hc'.
    + destruct (beq c' (canon nonorm k)) eqn:E.
      * apply beq_eq in E. subst c'. unfold put. rewrite Hc'. apply Hig; exact Hc'.
      * apply beq_false_ne in E. rewrite put_other by assumption. apply Hig; exact Hc'.
    + destruct (beq c' (canon nonorm k)) eqn:E.
      * apply beq_eq in E. subst c'. apply mm_vals_del_same.
      * apply beq_false_ne in E. rewrite mm_vals_del_other by assumption. apply Hig; exact Hc'.
Qed.

Lemma Rsim_init nonorm nodefct : Rsim nonorm (rinit nonorm nodefct) [].
Proof.
  split; [reflexivity|split; [|split; [cbn; lia|reflexivity]]]. intros c. unfold rvals, rinit. cbn.
  repeat match goal with |- context[if ?b then _ else _] => destruct b end; reflexivity.
Qed.

Definition ops_ok (specials : list bytes) (nonorm : bool) (ops : list hop) : Prop :=
  Forall (fun o => key_ok specials nonorm o = true /\ wf_op o) ops.

Lemma rstep29_tr nonorm r o : hdisableNorm (rh r) = nonorm -> key_ok rspecials nonorm o = true ->
  tr_ok (htrailer (rh r)) -> tr_ok (htrailer (rh (rstep29 r o))).
Proof.
  intros Hd Hk H. rewrite (rstep29_exact nonorm r o Hd Hk).
  destruct o; [now apply RSetExact_tr|now apply RAddExact_tr|now apply Rdel_tr|exact H].
Qed.

Theorem Rrun_sim nonorm nodefct ops : ops_ok rspecials nonorm ops ->
  let r := fold_left rstep29 ops (rinit nonorm nodefct) in
  Rsim nonorm r (srun HResp nonorm (map sop_of ops)) /\ hnoDefCT (rh r) = nodefct /\ tr_ok (htrailer (rh r)).
Proof.
  intros Hok. unfold srun.
  assert (G : forall ops r m, ops_ok rspecials nonorm ops -> Rsim nonorm r m -> hnoDefCT (rh r) = nodefct ->
            tr_ok (htrailer (rh r)) ->
            Rsim nonorm (fold_left rstep29 ops r) (fold_left (sstep HResp nonorm) (map sop_of ops) m)
            /\ hnoDefCT (rh (fold_left rstep29 ops r)) = nodefct /\ tr_ok (htrailer (rh (fold_left rstep29 ops r)))).
  { induction ops0 as [|o ops0 IH]; intros r m Hops HS Hn Htr; [split; [assumption|split; assumption]|].
    apply Forall_cons_iff in Hops as [[Hk Hw] Hrest]. cbn [fold_left map]. apply IH; [assumption| | |].
    - apply Rstep_sim; assumption.
    - rewrite <- Hn. apply rflags_nodef. apply (rstep29_flags nonorm); [apply HS|assumption].
    - apply (rstep29_tr nonorm); [apply HS|assumption|assumption]. }
  apply G; [assumption|apply Rsim_init|reflexivity|left; reflexivity].
Qed.

(* ---- the response getters as functions of the stored values ---- *)
Lemma resp_cookie_join cs : forall dst, appendResponseCookieBytes dst cs = dst ++ join semiSpace (map snd cs).
Proof.
  induction cs as [|[k v] cs IH]; intros dst; cbn; [now rewrite app_nil_r|].
  destruct cs as [|[k2 v2] cs]; [reflexivity|]. rewrite IH. cbn [map snd join]. now rewrite <- !app_assoc.
Qed.

Definition first_or (d : bytes) (l : list bytes) : bytes := match l with v :: _ => v | [] => d end.

Lemma opt1_first v : first_or [] (opt1 v) = v.
Proof. destruct v; reflexivity. Qed.

Lemma Rpeek_rvals r c :
  Rpeek r c = if beq c strSetCookie then join semiSpace (rvals r c)
              else first_or (default_of HResp (hnoDefCT (rh r)) c) (rvals r c).
Proof.
  unfold Rpeek, rvals, default_of.
  beq_case c strContentType E1.
  { subst c. change (beq strContentType strSetCookie) with false. cbv iota. rewrite ?beq_refl. cbn [andb].
    unfold RContentType. destruct (hct (rh r)); [destruct (hnoDefCT (rh r))|]; reflexivity. }
  cbn [andb].
  beq_case c strContentEncoding E2. { subst c. change (beq strContentEncoding strSetCookie) with false. cbv iota. now rewrite opt1_first. }
  beq_case c strServer E3. { subst c. change (beq strServer strSetCookie) with false. cbv iota. now rewrite opt1_first. }
  beq_case c strConnection E4.
  { subst c. change (beq strConnection strSetCookie) with false. cbv iota. destruct (hclose (rh r)); [reflexivity|]. apply peekArg_peekAll. }
  beq_case c strContentLength E5. { subst c. change (beq strContentLength strSetCookie) with false. cbv iota. now rewrite opt1_first. }
  beq_case c strSetCookie E6. { now rewrite resp_cookie_join. }
  beq_case c strTrailer E7. { now rewrite opt1_first. }
  apply peekArg_peekAll.
Qed.

Lemma cls_resp_cases c :
  (c = strContentType /\ cls_of HResp c = CSingle) \/ (c = strContentEncoding /\ cls_of HResp c = CSingle) \/
  (c = strServer /\ cls_of HResp c = CSingle) \/ (c = strConnection /\ cls_of HResp c = CConn) \/
  (c = strContentLength /\ cls_of HResp c = CNum) \/ (c = strSetCookie /\ cls_of HResp c = CSetCookie) \/
  (c = strTrailer /\ cls_of HResp c = CTrailer) \/
  (existsb (beq c) [strContentType; strContentEncoding; strServer; strConnection; strContentLength; strSetCookie; strTrailer] = false
   /\ (cls_of HResp c = COrd \/ cls_of HResp c = CIgnored)).
Proof.
  beq_case c strContentType E1; [subst; tauto|]. beq_case c strContentEncoding E2; [subst; tauto|].
  beq_case c strServer E3; [subst; tauto|]. beq_case c strConnection E4; [subst; tauto|].
  beq_case c strContentLength E5; [subst; tauto|]. beq_case c strSetCookie E6; [subst; tauto|].
  beq_case c strTrailer E7; [subst; tauto|].
  do 7 right. split; [cbn [existsb]; now rewrite E1, E2, E3, E4, E5, E6, E7|].
  unfold cls_of. rewrite E1, E2, E3, E4, E5, E6, E7. cbn [orb].
  destruct (beq c strTransferEncoding || beq c strDate); tauto.
Qed.

Lemma Rpeek_spec nonorm r m c : Rsim nonorm r m ->
  Rpeek r c = spec_peek HResp (hnoDefCT (rh r)) m c.
Proof.
  intros (_ & Hv & _ & _). rewrite Rpeek_rvals, Hv. unfold spec_peek, first_or.
  destruct (cls_resp_cases c) as [[-> ->]|[[-> ->]|[[-> ->]|[[-> ->]|[[-> ->]|[[-> ->]|[[-> ->]|[Hn Hcl]]]]]]]].
  1-7: reflexivity.
  cbn [existsb] in Hn. repeat (apply orb_false_iff in Hn as [?E Hn]). rewrite E4.
  destruct Hcl as [-> | ->]; reflexivity.
Qed.

Lemma RpeekAll_rvals r c : tr_ok (htrailer (rh r)) ->
  RpeekAll r c =
  if beq c strContentType then opt1 (RContentType r)
  else if beq c strSetCookie then match rvals r c with [] => [] | l => [join semiSpace l] end
  else rvals r c.
Proof.
  intros Htr. unfold RpeekAll, rvals.
  beq_case c strContentType E1; [reflexivity|].
  beq_case c strContentEncoding E2. { subst c. reflexivity. }
  beq_case c strServer E3. { subst c. reflexivity. }
  beq_case c strConnection E4. { subst c. reflexivity. }
  beq_case c strContentLength E5. { subst c. reflexivity. }
  beq_case c strSetCookie E6. { destruct (hcookies (rh r)) as [|ck cs] eqn:Ec; [reflexivity|]. now rewrite resp_cookie_join. }
  beq_case c strTrailer E7. { rewrite <- (tr_ok_opt1 _ Htr). destruct (htrailer (rh r)); reflexivity. }
  reflexivity.
Qed.

Lemma RpeekAll_spec nonorm r m c : Rsim nonorm r m -> tr_ok (htrailer (rh r)) ->
  RpeekAll r c = spec_peek_all HResp (hnoDefCT (rh r)) m c.
Proof.
  intros (_ & Hv & Hc & Hig) Htr. rewrite (RpeekAll_rvals r c Htr). unfold spec_peek_all.
  destruct (cls_resp_cases c) as [[-> ->]|[[-> ->]|[[-> ->]|[[-> ->]|[[-> ->]|[[-> ->]|[[-> ->]|[Hn Hcl]]]]]]]].
  - rewrite beq_refl. rewrite <- Hv. unfold RContentType, rvals, default_of. rewrite beq_refl. cbn [andb].
    destruct (hct (rh r)); [destruct (hnoDefCT (rh r))|]; reflexivity.
  - change (beq strContentEncoding strContentType) with false. change (beq strContentEncoding strSetCookie) with false. cbv iota.
    rewrite <- Hv. unfold rvals. cbn. destruct (rce r); reflexivity.
  - change (beq strServer strContentType) with false. change (beq strServer strSetCookie) with false. cbv iota.
    rewrite <- Hv. unfold rvals. cbn. destruct (rserver r); reflexivity.
  - change (beq strConnection strContentType) with false. change (beq strConnection strSetCookie) with false. cbv iota.
    apply Hv.
  - change (beq strContentLength strContentType) with false. change (beq strContentLength strSetCookie) with false. cbv iota.
    rewrite <- Hv. unfold rvals. cbn. destruct (hclb (rh r)); reflexivity.
  - change (beq strSetCookie strContentType) with false. rewrite beq_refl. cbv iota. now rewrite Hv.
  - change (beq strTrailer strContentType) with false. change (beq strTrailer strSetCookie) with false. cbv iota.
    rewrite <- Hv. unfold rvals. cbn. destruct (jointr (htrailer (rh r))); reflexivity.
  - cbn [existsb] in Hn. repeat (apply orb_false_iff in Hn as [?E Hn]). rewrite E, E4. rewrite Hv.
    assert (Hd : default_of HResp (hnoDefCT (rh r)) c = []) by (unfold default_of; now rewrite E).
    destruct Hcl as [Hcl | Hcl]; rewrite Hcl.
    + reflexivity.
    + rewrite Hd. rewrite (Hig c) by assumption. reflexivity.
Qed.

(* ================= Part C: RequestHeader ================= *)
Lemma ci_sym a : forall b, ci a b = ci b a.
Proof.
  unfold ci. induction a as [|x a IH]; destruct b as [|y b]; cbn; try reflexivity.
  now rewrite N.eqb_sym, IH.
Qed.

Lemma no_cookie_setArg h k v : no_cookie_hh h -> ci k strCookie = false -> no_cookie_hh (setArg h k v).
Proof.
  intros H Hk. induction H as [|[k' x] h Hk' Hr IH]; cbn.
  - constructor; [exact Hk|constructor].
  - destruct (beq k k'); constructor; assumption.
Qed.
Lemma no_cookie_appendArg h k v : no_cookie_hh h -> ci k strCookie = false -> no_cookie_hh (appendArg h k v).
Proof. intros H Hk. unfold appendArg, no_cookie_hh. apply Forall_app. split; [exact H|]. constructor; [exact Hk|constructor]. Qed.
Lemma no_cookie_del h k : no_cookie_hh h -> no_cookie_hh (delAllArgsStable h k).
Proof.
  intros H. induction H as [|[k' x] h Hk' Hr IH]; cbn; [constructor|].
  destruct (beq k k'); [exact IH|constructor; assumption].
Qed.

Lemma ordinary_not_cookie c : casefold_ok qspecials c = true -> existsb (beq c) qspecials = false -> ci c strCookie = false.
Proof.
  intros Hok Hns. rewrite ci_sym. destruct (ci strCookie c) eqn:E; [|reflexivity].
  assert (Hin : In strCookie qspecials) by (cbn; tauto).
  pose proof (casefold_ok_spec _ _ _ Hok Hin E) as ->.
  cbn in Hns. discriminate.
Qed.

Lemma prc_loop_acc fuel : forall b cs, prc_loop fuel b cs = option_map (app cs) (prc_loop fuel b []).
Proof.
  induction fuel as [|f IH]; intros b cs; cbn.
  - destruct b; cbn; [now rewrite app_nil_r|reflexivity].
  - destruct (next b) as [[[k v] rest]|]; cbn; [|now rewrite app_nil_r].
    destruct (_ && validCookieValue v).
    + rewrite IH. rewrite (IH rest [(k, v)]). destruct (prc_loop f rest []); cbn; [|reflexivity]. now rewrite <- app_assoc.
    + apply IH.
Qed.
Lemma prc_vals cs v : map cookie_str (prc cs v) = map cookie_str cs ++ cookie_pairs v.
Proof.
  unfold prc, cookie_pairs, parseRequestCookies. rewrite prc_loop_acc.
  destruct (prc_loop (length v) v []); cbn; [now rewrite map_app|now rewrite app_nil_r].
Qed.

Definition qflags (q : req) : bool * bool * bool := (hdisableNorm (qh q), hnoDefCT (qh q), qdisableSpecial q).

Definition Qsim (nonorm : bool) (q : req) (m : mm) : Prop :=
  hdisableNorm (qh q) = nonorm /\ qdisableSpecial q = false
  /\ (forall c, qvals q c = mm_vals m c) /\ (length (mm_vals m strConnection) <= 1)%nat
  /\ (forall c, cls_of HReq c = CIgnored -> mm_vals m c = [])
  /\ no_cookie_hh (hh (qh q)) /\ (qcookiesCollected q = false -> hcookies (qh q) = []).

Lemma QSetExact_flags q c v : no_cookie_hh (hh (qh q)) -> qflags (QSetExact q c v) = qflags q.
Proof.
  intros Hnc. unfold QSetExact.
  repeat match goal with |- context[if beq c ?X then _ else _] => destruct (beq c X) end; try reflexivity.
  - destruct (parseContentLength v); reflexivity.
  - destruct (hasHeaderValue v strClose); [reflexivity|]. cbn. unfold hResetConnectionClose. destruct (hclose (qh q)); reflexivity.
  - destruct (collect_fields q Hnc) as (H1 & _ & _ & H4 & _). cbv zeta. unfold qflags. cbn. now rewrite H1, H4.
  - unfold QSetTrailerBytes. destruct (hSetTrailer_shape (qh q) v) as [tr ->]. reflexivity.
Qed.
Lemma QAddExact_flags q c v : no_cookie_hh (hh (qh q)) -> qflags (QAddExact q c v) = qflags q.
Proof. intros. unfold QAddExact. destruct (existsb _ _); [now apply QSetExact_flags|reflexivity]. Qed.
Lemma Qdel_flags q c : qflags (Qdel q c) = qflags q.
Proof.
  unfold Qdel. repeat match goal with |- context[if beq c ?X then _ else _] => destruct (beq c X) end; reflexivity.
Qed.

(* h.h after an operation still holds no Cookie field; an uncollected jar stays empty *)
Lemma QSetExact_inv q c v :
  casefold_ok qspecials c = true -> no_cookie_hh (hh (qh q)) -> (qcookiesCollected q = false -> hcookies (qh q) = []) ->
  no_cookie_hh (hh (qh (QSetExact q c v)))
  /\ (qcookiesCollected (QSetExact q c v) = false -> hcookies (qh (QSetExact q c v)) = []).
Proof.
  intros Hok Hnc Hun. unfold QSetExact.
  beq_case c strContentType E1; [split; [exact Hnc|exact Hun]|].
  beq_case c strContentLength E2; [destruct (parseContentLength v); [split; [cbn; apply no_cookie_del; exact Hnc|exact Hun]|split; assumption]|].
  beq_case c strConnection E4.
  { subst c. destruct (hasHeaderValue v strClose); [split; [cbn; apply no_cookie_del; exact Hnc|exact Hun]|]. unfold hResetConnectionClose.
    destruct (hclose (qh q)); (split; [cbn; apply no_cookie_setArg; try reflexivity; try apply no_cookie_del; exact Hnc|exact Hun]). }
  beq_case c strCookie E5.
  { destruct (collect_fields q Hnc) as (H1 & _ & _ & _ & H5). cbv zeta. split.
    - cbn. rewrite H1. exact Hnc.
    - cbn. rewrite H5. discriminate. }
  beq_case c strTransferEncoding E6; [split; assumption|].
  beq_case c strTrailer E7.
  { unfold QSetTrailerBytes. destruct (hSetTrailer_shape (qh q) v) as [tr ->]. split; assumption. }
  beq_case c strHost E8; [split; assumption|].
  beq_case c strUserAgent E9; [split; assumption|].
  split; [|exact Hun]. cbn. apply no_cookie_setArg; [exact Hnc|]. apply ordinary_not_cookie; [exact Hok|].
  cbn [existsb qspecials]. now rewrite E1, E2, E4, E5, E6, E7, E8, E9.
Qed.
Lemma QAddExact_inv q c v :
  casefold_ok qspecials c = true -> no_cookie_hh (hh (qh q)) -> (qcookiesCollected q = false -> hcookies (qh q) = []) ->
  no_cookie_hh (hh (qh (QAddExact q c v)))
  /\ (qcookiesCollected (QAddExact q c v) = false -> hcookies (qh (QAddExact q c v)) = []).
Proof.
  intros Hok Hnc Hun. unfold QAddExact. destruct (existsb (beq c) qspecials) eqn:Hs; [now apply QSetExact_inv|].
  split; [|exact Hun]. cbn. apply no_cookie_appendArg; [exact Hnc|]. now apply ordinary_not_cookie.
Qed.
Lemma Qdel_inv q c :
  no_cookie_hh (hh (qh q)) -> (qcookiesCollected q = false -> hcookies (qh q) = []) ->
  no_cookie_hh (hh (qh (Qdel q c))) /\ (qcookiesCollected (Qdel q c) = false -> hcookies (qh (Qdel q c)) = []).
Proof.
  intros Hnc Hun. unfold Qdel.
  repeat match goal with |- context[if beq c ?X then _ else _] => destruct (beq c X) end;
    (split; [cbn; apply no_cookie_del; exact Hnc|cbn; try exact Hun; reflexivity]).
Qed.

Lemma QSetExact_tr q c v : no_cookie_hh (hh (qh q)) -> tr_ok (htrailer (qh q)) -> tr_ok (htrailer (qh (QSetExact q c v))).
Proof.
  intros Hnc H. unfold QSetExact.
  repeat match goal with |- context[if beq c ?X then _ else _] => destruct (beq c X) end; try exact H.
  - destruct (parseContentLength v); exact H.
  - destruct (hasHeaderValue v strClose); [exact H|]. cbn. unfold hResetConnectionClose. destruct (hclose (qh q)); exact H.
  - destruct (collect_fields q Hnc) as (H1 & _). cbv zeta. cbn. rewrite H1. exact H.
  - unfold QSetTrailerBytes. rewrite hSetTrailer_names. cbn. apply trailer_names_ok.
Qed.
Lemma QAddExact_tr q c v : no_cookie_hh (hh (qh q)) -> tr_ok (htrailer (qh q)) -> tr_ok (htrailer (qh (QAddExact q c v))).
Proof. intros Hnc H. unfold QAddExact. destruct (existsb _ _); [now apply QSetExact_tr|exact H]. Qed.
Lemma Qdel_tr q c : tr_ok (htrailer (qh q)) -> tr_ok (htrailer (qh (Qdel q c))).
Proof.
  intros H. unfold Qdel.
  repeat match goal with |- context[if beq c ?X then _ else _] => destruct (beq c X) end; try exact H.
  left. reflexivity.
Qed.

Lemma Qput_same nonorm (add : bool) q m c v :
  Qsim nonorm q m -> wf_bytes v ->
  let v' := clean v in
  let q' := if add then QAddExact q c v' else QSetExact q c v' in
  let m' := match cls_of HReq c with
            | COrd => if add then mm_add m c v' else mm_set_first m c v'
            | CSingle => mm_single m c v'
            | CConn => mm_set_first m c (if hasHeaderValue v' strClose then strClose else v')
            | CNum => if is_int v' then mm_set_first m c v' else m
            | CJar => m ++ map (fun s => (c, s)) (cookie_pairs v')
            | CSetCookie => mm_add m c v'
            | CTrailer => mm_single m c (trailer_value nonorm v')
            | CIgnored => m
            end in
  qvals q' c = mm_vals m' c.
Proof.
  intros (Hd & Hds & Hv & Hc & _ & Hnc & _) Hwf v' q' m'.
  assert (Hadd : existsb (beq c) qspecials = true -> q' = QSetExact q c v').
  { intros H. subst q'. destruct add; [|reflexivity]. unfold QAddExact. now rewrite H. }
  beq_case c strContentType E1.
  { subst c. rewrite Hadd by reflexivity. subst m'. change (cls_of HReq strContentType) with CSingle. cbv beta iota.
    rewrite mm_vals_single_same by (rewrite <- Hv; apply opt1_len).
    apply (qvals_set_single q strContentType v). tauto. }
  beq_case c strContentLength E2.
  { subst c. rewrite Hadd by reflexivity. subst m'. change (cls_of HReq strContentLength) with CNum. cbv beta iota.
    rewrite qvals_set_cl. pose proof (is_int_model v' (wf_clean v Hwf)) as Hi.
    destruct (parseContentLength v').
    - destruct Hi as [-> Hne]. rewrite mm_vals_set_same, <- Hv.
      rewrite set_first_le1 by apply opt1_len. destruct v'; [contradiction|reflexivity].
    - rewrite Hi. apply Hv. }
  beq_case c strConnection E4.
  { subst c. rewrite Hadd by reflexivity. subst m'. change (cls_of HReq strConnection) with CConn. cbv beta iota.
    rewrite qvals_set_conn, mm_vals_set_same, Hv. unfold v'.
    destruct (hasHeaderValue (clean v) strClose) eqn:Ec; [|reflexivity].
    symmetry. apply set_first_le1. exact Hc. }
  beq_case c strCookie E5.
  { subst c. rewrite Hadd by reflexivity. subst m'. change (cls_of HReq strCookie) with CJar. cbv beta iota.
    rewrite qvals_set_cookie by exact Hnc. rewrite prc_vals, mm_vals_app, mm_vals_map_same, <- Hv. reflexivity. }
  beq_case c strTransferEncoding E6.
  { subst c. rewrite Hadd by reflexivity. subst m'. change (cls_of HReq strTransferEncoding) with CIgnored. cbv beta iota.
    rewrite qvals_set_ignored. apply Hv. }
  beq_case c strTrailer E7.
  { subst c. rewrite Hadd by reflexivity. subst m'. change (cls_of HReq strTrailer) with CTrailer. cbv beta iota.
    rewrite mm_vals_single_same by (rewrite <- Hv; apply opt1_len).
    replace (QSetExact q strTrailer v') with (QSetTrailerBytes q v') by reflexivity.
    unfold QSetTrailerBytes. rewrite hSetTrailer_names, Hd.
    match goal with |- qvals ?X strTrailer = _ => change (qvals X strTrailer) with (opt1 (jointr (htrailer (qh X)))) end.
    cbn [qh with_qh htrailer with_htrailer]. rewrite jointr_join. reflexivity. }
  beq_case c strHost E8.
  { subst c. rewrite Hadd by reflexivity. subst m'. change (cls_of HReq strHost) with CSingle. cbv beta iota.
    rewrite mm_vals_single_same by (rewrite <- Hv; apply opt1_len).
    apply (qvals_set_single q strHost v). tauto. }
  beq_case c strUserAgent E9.
  { subst c. rewrite Hadd by reflexivity. subst m'. change (cls_of HReq strUserAgent) with CSingle. cbv beta iota.
    rewrite mm_vals_single_same by (rewrite <- Hv; apply opt1_len).
    apply (qvals_set_single q strUserAgent v). tauto. }
  assert (Ho : ordinary_q c = true).
  { unfold ordinary_q. cbn [existsb qspecials]. now rewrite E1, E2, E4, E5, E6, E7, E8, E9. }
  assert (Hcls : cls_of HReq c = COrd).
  { unfold cls_of. now rewrite E1, E2, E4, E5, E6, E7, E8, E9. }
  subst m' q'. rewrite Hcls. destruct add.
  - rewrite qvals_add_ord, mm_vals_add_same, Hv by assumption. reflexivity.
  - rewrite qvals_set_ord, mm_vals_set_same, Hv by assumption. reflexivity.
Qed.

Lemma qstep29_exact nonorm q o : hdisableNorm (qh q) = nonorm -> qdisableSpecial q = false ->
  key_ok qspecials nonorm o = true ->
  qstep29 q o = match o with
                | HSet k v => QSetExact q (canon nonorm k) (clean v)
                | HAdd k v => QAddExact q (canon nonorm k) (clean v)
                | HDel k => Qdel q (canon nonorm k)
                | HCopy => q
                end.
Proof.
  intros Hd Hds Hk. destruct o as [k v|k v|k|]; cbn [qstep29 key_ok] in *.
  - unfold QSet. rewrite Hd. apply QSetCanonical_exact; assumption.
  - unfold QAdd. rewrite Hd. apply QAdd_exact; assumption.
  - unfold QDel. now rewrite Hd.
  - unfold QCopyTo. rewrite <- Hds. destruct q; reflexivity.
Qed.

Lemma qstep29_flags nonorm q o : hdisableNorm (qh q) = nonorm -> qdisableSpecial q = false -> no_cookie_hh (hh (qh q)) ->
  key_ok qspecials nonorm o = true -> qflags (qstep29 q o) = qflags q.
Proof.
  intros Hd Hds Hnc Hk. rewrite (qstep29_exact nonorm q o Hd Hds Hk).
  destruct o; [now apply QSetExact_flags|now apply QAddExact_flags|apply Qdel_flags|reflexivity].
Qed.

Theorem Qstep_sim nonorm q m o :
  Qsim nonorm q m -> key_ok qspecials nonorm o = true -> wf_op o ->
  Qsim nonorm (qstep29 q o) (sstep HReq nonorm m (sop_of o)).
Proof.
  intros HS Hk Hwf. pose proof HS as (Hd & Hds & Hv & Hc & Hig & Hnc & Hun).
  assert (Hte : peekAllArgs (hh (qh q)) strTransferEncoding = []).
  { change (peekAllArgs (hh (qh q)) strTransferEncoding) with (qvals q strTransferEncoding). rewrite Hv. now apply Hig. }
  pose proof (qstep29_flags nonorm q o Hd Hds Hnc Hk) as Hfl. unfold qflags in Hfl.
  split; [congruence|split; [congruence|]].
  rewrite (qstep29_exact nonorm q o Hd Hds Hk).
  split; [|split; [|split; [|destruct o as [k v|k v|k|]; cbn [key_ok] in Hk;
                              [now apply QSetExact_inv|now apply QAddExact_inv|now apply Qdel_inv|split; assumption]]]].
  - intros c'. destruct o as [k v|k v|k|]; cbn [sop_of sstep wf_op] in *.
    + destruct (beq c' (canon nonorm k)) eqn:E.
      * apply beq_eq in E. subst c'. apply (Qput_same nonorm false q m (canon nonorm k) v HS Hwf).
      * apply beq_false_ne in E. rewrite qvals_frame_set, put_other by assumption. apply Hv.
    + destruct (beq c' (canon nonorm k)) eqn:E.
      * apply beq_eq in E. subst c'. apply (Qput_same nonorm true q m (canon nonorm k) v HS Hwf).
      * apply beq_false_ne in E. rewrite qvals_frame_add, put_other by assumption. apply Hv.
    + destruct (beq c' (canon nonorm k)) eqn:E.
      * apply beq_eq in E. subst c'. now rewrite qvals_del_same, mm_vals_del_same.
      * apply beq_false_ne in E. rewrite qvals_frame_del, mm_vals_del_other by assumption. apply Hv.
    + apply Hv.
  - destruct o as [k v|k v|k|]; cbn [sop_of sstep] in *; try exact Hc.
    + destruct (beq strConnection (canon nonorm k)) eqn:E.
      * apply beq_eq in E. unfold put. rewrite <- E. change (cls_of HReq strConnection) with CConn. cbv beta iota.
        rewrite mm_vals_set_same, set_first_le1 by exact Hc. cbn. lia.
      * apply beq_false_ne in E. now rewrite put_other.
    + destruct (beq strConnection (canon nonorm k)) eqn:E.
      * apply beq_eq in E. unfold put. rewrite <- E. change (cls_of HReq strConnection) with CConn. cbv beta iota.
        rewrite mm_vals_set_same, set_first_le1 by exact Hc. cbn. lia.
      * apply beq_false_ne in E. now rewrite put_other.
    + destruct (beq strConnection (canon nonorm k)) eqn:E.
      * apply beq_eq in E. rewrite <- E, mm_vals_del_same. cbn. lia.
      * apply beq_false_ne in E. now rewrite mm_vals_del_other.
  - intros c' Hc'. destruct o as [k v|k v|k|]; cbn [sop_of sstep] in *; try (apply Hig; exact Hc').
    + destruct (beq c' (canon nonorm k)) eqn:E.
      * apply beq_eq in E. subst c'. unfold put. rewrite Hc'. apply Hig; exact Hc'.
      * apply beq_false_ne in E. rewrite put_other by assumption. apply Hig; exact Hc'.
    + destruct (beq c' (canon nonorm k)) eqn:E.
      * apply beq_eq in E. subst c'. unfold put. rewrite Hc'. apply Hig; exact Hc'.
      * apply beq_false_ne in E. rewrite put_other by assumption. apply Hig; exact Hc'.
    + destruct (beq c' (canon nonorm k)) eqn:E.
      * apply beq_eq in E. subst c'. apply mm_vals_del_same.
      * apply beq_false_ne in E. rewrite mm_vals_del_other by assumption. apply Hig; exact Hc'.
Qed.

Lemma Qsim_init nonorm nodefct : Qsim nonorm (qinit nonorm nodefct) [].
Proof.
  split; [reflexivity|split; [reflexivity|split; [|split; [cbn; lia|split; [reflexivity|split; [constructor|reflexivity]]]]]].
  intros c. unfold qvals, qinit. cbn.
  repeat match goal with |- context[if ?b then _ else _] => destruct b end; reflexivity.
Qed.

(* iterating a request header (All / VisitAll / PeekKeys / Len) collects the cookies: a state change that keeps the relation *)
Lemma Qcollect_sim nonorm q m : Qsim nonorm q m -> Qsim nonorm (collectCookies q) m.
Proof.
  intros (Hd & Hds & Hv & Hc & Hig & Hnc & Hun).
  rewrite (collect_id q Hnc). destruct (qcookiesCollected q) eqn:E.
  - split; [exact Hd|split; [exact Hds|split; [exact Hv|split; [exact Hc|split; [exact Hig|split; [exact Hnc|rewrite E; discriminate]]]]]].
  - split; [exact Hd|split; [exact Hds|split; [exact Hv|split; [exact Hc|split; [exact Hig|split; [exact Hnc|cbn; discriminate]]]]]].
Qed.
Lemma Qcollect_flags q : no_cookie_hh (hh (qh q)) -> qflags (collectCookies q) = qflags q.
Proof. intros H. rewrite (collect_id q H). destruct (qcookiesCollected q); reflexivity. Qed.

(* events on a request header: an operation of the property, or an iteration *)
Inductive qev := QOp (o : hop) | QIter.
Definition qevstep (q : req) (e : qev) : req := match e with QOp o => qstep29 q o | QIter => fst (QAll q) end.
Definition qev_ops (l : list qev) : list hop := flat_map (fun e => match e with QOp o => [o] | QIter => [] end) l.
Definition qev_ok (nonorm : bool) (l : list qev) : Prop := ops_ok qspecials nonorm (qev_ops l).

Lemma qstep29_tr nonorm q o : hdisableNorm (qh q) = nonorm -> qdisableSpecial q = false -> no_cookie_hh (hh (qh q)) ->
  key_ok qspecials nonorm o = true -> tr_ok (htrailer (qh q)) -> tr_ok (htrailer (qh (qstep29 q o))).
Proof.
  intros Hd Hds Hnc Hk H. rewrite (qstep29_exact nonorm q o Hd Hds Hk).
  destruct o; [now apply QSetExact_tr|now apply QAddExact_tr|now apply Qdel_tr|exact H].
Qed.

Theorem Qrun_sim nonorm nodefct evs : qev_ok nonorm evs ->
  let q := fold_left qevstep evs (qinit nonorm nodefct) in
  Qsim nonorm q (srun HReq nonorm (map sop_of (qev_ops evs))) /\ hnoDefCT (qh q) = nodefct /\ tr_ok (htrailer (qh q)).
Proof.
  intros Hok. unfold srun.
  assert (G : forall evs q m, qev_ok nonorm evs -> Qsim nonorm q m -> hnoDefCT (qh q) = nodefct -> tr_ok (htrailer (qh q)) ->
            Qsim nonorm (fold_left qevstep evs q) (fold_left (sstep HReq nonorm) (map sop_of (qev_ops evs)) m)
            /\ hnoDefCT (qh (fold_left qevstep evs q)) = nodefct /\ tr_ok (htrailer (qh (fold_left qevstep evs q)))).
  { induction evs0 as [|e evs0 IH]; intros q m Hops HS Hn Htr; [split; [assumption|split; assumption]|].
    destruct e as [o|]; cbn [fold_left qev_ops flat_map map app qevstep].
    - unfold qev_ok in Hops. cbn [qev_ops flat_map app] in Hops. apply Forall_cons_iff in Hops as [[Hk Hw] Hrest].
      pose proof HS as (Hd & Hds & _ & _ & _ & Hnc & _).
      apply IH; [exact Hrest|apply Qstep_sim; assumption| |].
      + pose proof (qstep29_flags nonorm q o Hd Hds Hnc Hk) as Hf. unfold qflags in Hf. congruence.
      + apply (qstep29_tr nonorm); assumption.
    - pose proof HS as (_ & _ & _ & _ & _ & Hnc & _).
      apply IH; [exact Hops|apply Qcollect_sim; exact HS| |].
      + pose proof (Qcollect_flags q Hnc) as Hf. unfold qflags in Hf. cbn [QAll fst]. congruence.
      + cbn [QAll fst]. destruct (collect_fields q Hnc) as (H1 & _). rewrite H1. exact Htr. }
  apply G; [assumption|apply Qsim_init|reflexivity|left; reflexivity].
Qed.

(* ---- the request getters as functions of the stored values ---- *)
Lemma req_cookie_join cs : forall dst, appendRequestCookieBytes dst cs = dst ++ join semiSpace (map cookie_str cs).
Proof.
  induction cs as [|[k v] cs IH]; intros dst; [cbn; now rewrite app_nil_r|].
  assert (Hs : (match k with [] => dst | _ :: _ => dst ++ k ++ [61] end) ++ v = dst ++ cookie_str (k, v)).
  { unfold cookie_str. cbn [fst snd]. destruct k; [reflexivity|]. now rewrite <- !app_assoc. }
  destruct cs as [|[k2 v2] cs].
  - cbn [appendRequestCookieBytes map join]. exact Hs.
  - change (appendRequestCookieBytes dst ((k, v) :: (k2, v2) :: cs)) with
      (appendRequestCookieBytes (((match k with [] => dst | _ :: _ => dst ++ k ++ [61] end) ++ v) ++ semiSpace) ((k2, v2) :: cs)).
    rewrite IH, Hs. cbn [map join]. now rewrite <- !app_assoc.
Qed.

Lemma no_cookie_peekAll h : no_cookie_hh h -> peekAllArgs h strCookie = [].
Proof.
  induction 1 as [|[k v] h Hk _ IH]; cbn; [reflexivity|]. cbn in Hk.
  destruct (beq k strCookie) eqn:E; [|exact IH]. apply beq_eq in E. subst k. discriminate.
Qed.

Lemma cls_req_cases c :
  (c = strHost /\ cls_of HReq c = CSingle) \/ (c = strContentType /\ cls_of HReq c = CSingle) \/
  (c = strUserAgent /\ cls_of HReq c = CSingle) \/ (c = strConnection /\ cls_of HReq c = CConn) \/
  (c = strContentLength /\ cls_of HReq c = CNum) \/ (c = strCookie /\ cls_of HReq c = CJar) \/
  (c = strTrailer /\ cls_of HReq c = CTrailer) \/
  (existsb (beq c) [strHost; strContentType; strUserAgent; strConnection; strContentLength; strCookie; strTrailer] = false
   /\ (cls_of HReq c = COrd \/ cls_of HReq c = CIgnored)).
Proof.
  beq_case c strHost E1; [subst; tauto|]. beq_case c strContentType E2; [subst; tauto|].
  beq_case c strUserAgent E3; [subst; tauto|]. beq_case c strConnection E4; [subst; tauto|].
  beq_case c strContentLength E5; [subst; tauto|]. beq_case c strCookie E6; [subst; tauto|].
  beq_case c strTrailer E7; [subst; tauto|].
  do 7 right. split; [cbn [existsb]; now rewrite E1, E2, E3, E4, E5, E6, E7|].
  unfold cls_of. rewrite E1, E2, E3, E4, E5, E6, E7. cbn [orb].
  destruct (beq c strTransferEncoding); tauto.
Qed.

Lemma Qpeek_spec nonorm q m c nodefct : Qsim nonorm q m ->
  Qpeek q c = spec_peek HReq nodefct m c.
Proof.
  intros (_ & Hds & Hv & _ & _ & Hnc & Hun). unfold spec_peek. rewrite <- Hv.
  unfold Qpeek, QHost, QContentType, QUserAgent. rewrite Hds.
  destruct (cls_req_cases c) as [[-> ->]|[[-> ->]|[[-> ->]|[[-> ->]|[[-> ->]|[[-> ->]|[[-> ->]|[Hn Hcl]]]]]]]].
  - change (qvals q strHost) with (opt1 (qhost q)). cbn. destruct (qhost q); reflexivity.
  - change (qvals q strContentType) with (opt1 (hct (qh q))). cbn. destruct (hct (qh q)); reflexivity.
  - change (qvals q strUserAgent) with (opt1 (qua q)). cbn. destruct (qua q); reflexivity.
  - change (qvals q strConnection) with (if hclose (qh q) then [strClose] else peekAllArgs (hh (qh q)) strConnection).
    cbn -[peekArgBytes peekAllArgs]. destruct (hclose (qh q)); [reflexivity|]. apply peekArg_peekAll.
  - change (qvals q strContentLength) with (opt1 (hclb (qh q))). cbn. destruct (hclb (qh q)); reflexivity.
  - change (qvals q strCookie) with (map cookie_str (hcookies (qh q))). cbn -[peekArgBytes appendRequestCookieBytes join].
    destruct (qcookiesCollected q) eqn:Ec; [now rewrite req_cookie_join|].
    rewrite (Hun eq_refl), peekArg_peekAll, (no_cookie_peekAll _ Hnc). reflexivity.
  - change (qvals q strTrailer) with (opt1 (jointr (htrailer (qh q)))). cbn -[appendTrailerBytes jointr]. fold (jointr (htrailer (qh q))). destruct (jointr (htrailer (qh q))); reflexivity.
  - cbn [existsb] in Hn. repeat (apply orb_false_iff in Hn as [?E Hn]).
    rewrite E, E0, E1, E2, E3, E4, E5.
    assert (Hq : qvals q c = peekAllArgs (hh (qh q)) c) by (unfold qvals; now rewrite E, E0, E1, E2, E3, E4, E5).
    rewrite Hq, peekArg_peekAll. destruct Hcl as [-> | ->]; reflexivity.
Qed.

Lemma QpeekAll_spec nonorm q m c nodefct : Qsim nonorm q m -> tr_ok (htrailer (qh q)) ->
  QpeekAll q c = spec_peek_all HReq nodefct m c.
Proof.
  intros (_ & Hds & Hv & Hc & Hig & Hnc & Hun) Htr. unfold spec_peek_all. rewrite <- Hv.
  unfold QpeekAll, QHost, QContentType, QUserAgent. rewrite Hds.
  destruct (cls_req_cases c) as [[-> ->]|[[-> ->]|[[-> ->]|[[-> ->]|[[-> ->]|[[-> ->]|[[-> ->]|[Hn Hcl]]]]]]]].
  - change (qvals q strHost) with (opt1 (qhost q)). cbn. destruct (qhost q); reflexivity.
  - change (qvals q strContentType) with (opt1 (hct (qh q))). cbn. destruct (hct (qh q)); reflexivity.
  - change (qvals q strUserAgent) with (opt1 (qua q)). cbn. destruct (qua q); reflexivity.
  - change (qvals q strConnection) with (if hclose (qh q) then [strClose] else peekAllArgs (hh (qh q)) strConnection).
    cbn -[peekAllArgs]. reflexivity.
  - change (qvals q strContentLength) with (opt1 (hclb (qh q))). cbn. destruct (hclb (qh q)); reflexivity.
  - change (qvals q strCookie) with (map cookie_str (hcookies (qh q))). cbn -[peekAllArgs appendRequestCookieBytes join].
    destruct (qcookiesCollected q) eqn:Ec; cbn [negb].
    + destruct (hcookies (qh q)) as [|ck cs] eqn:Eck; [reflexivity|]. now rewrite req_cookie_join.
    + rewrite (Hun eq_refl), (no_cookie_peekAll _ Hnc). reflexivity.
  - change (qvals q strTrailer) with (opt1 (jointr (htrailer (qh q)))). cbn -[appendTrailerBytes jointr].
    rewrite <- (tr_ok_opt1 _ Htr). destruct (htrailer (qh q)); [reflexivity|]. cbn -[appendTrailerBytes jointr].
    unfold jointr. destruct (appendTrailerBytes _ _ _); reflexivity.
  - cbn [existsb] in Hn. repeat (apply orb_false_iff in Hn as [?E Hn]).
    rewrite E, E0, E1, E2, E3, E4, E5.
    assert (Hq : qvals q c = peekAllArgs (hh (qh q)) c) by (unfold qvals; now rewrite E, E0, E1, E2, E3, E4, E5).
    rewrite Hq. destruct Hcl as [Hcl | Hcl]; rewrite Hcl.
    + reflexivity.
    + rewrite <- Hq, Hv, (Hig c Hcl). reflexivity.
Qed.

(* ================= Part D: the statements of Properties/C29.v ================= *)
Lemma spec_peek_ext t nd m m' c : mm_vals m c = mm_vals m' c -> spec_peek t nd m c = spec_peek t nd m' c.
Proof. intros H. unfold spec_peek. now rewrite H. Qed.
Lemma spec_peek_all_ext t nd m m' c : mm_vals m c = mm_vals m' c -> spec_peek_all t nd m c = spec_peek_all t nd m' c.
Proof. intros H. unfold spec_peek_all. now rewrite H. Qed.

Definition op_key (nonorm : bool) (o : hop) : option bytes :=
  match o with HSet k _ | HAdd k _ | HDel k => Some (canon nonorm k) | HCopy => None end.

(* --- response --- *)
Theorem resp_refines_spec nonorm nodefct ops k : ops_ok rspecials nonorm ops ->
  let r := fold_left rstep29 ops (rinit nonorm nodefct) in
  let m := srun HResp nonorm (map sop_of ops) in
  let c := canon nonorm k in
  RPeek r k = spec_peek HResp nodefct m c
  /\ RPeekAll r k = spec_peek_all HResp nodefct m c
  /\ RContentType r = spec_peek HResp nodefct m strContentType
  /\ RContentEncoding r = spec_peek HResp nodefct m strContentEncoding
  /\ RServer r = spec_peek HResp nodefct m strServer.
Proof.
  intros Hok r m c. destruct (Rrun_sim nonorm nodefct ops Hok) as (HS & Hn & Htr). fold r m in HS, Hn, Htr.
  pose proof HS as (Hd & _). unfold RPeek, RPeekAll. rewrite Hd. fold (canon nonorm k). fold c.
  rewrite <- Hn. repeat split.
  - apply (Rpeek_spec nonorm); exact HS.
  - apply (RpeekAll_spec nonorm); assumption.
  - apply (Rpeek_spec nonorm r m strContentType HS).
  - apply (Rpeek_spec nonorm r m strContentEncoding HS).
  - apply (Rpeek_spec nonorm r m strServer HS).
Qed.

Theorem resp_other_names_untouched nonorm nodefct ops o k' : ops_ok rspecials nonorm (ops ++ [o]) ->
  let r := fold_left rstep29 ops (rinit nonorm nodefct) in
  match op_key nonorm o with Some c => canon nonorm k' <> c | None => True end ->
  RPeekAll (rstep29 r o) k' = RPeekAll r k' /\ RPeek (rstep29 r o) k' = RPeek r k'.
Proof.
  intros Hok r Hne.
  assert (Hok1 : ops_ok rspecials nonorm ops) by (apply Forall_app in Hok; tauto).
  destruct (Rrun_sim nonorm nodefct ops Hok1) as (HS & Hn & Htr). fold r in HS, Hn, Htr.
  destruct (Rrun_sim nonorm nodefct (ops ++ [o]) Hok) as (HS' & Hn' & Htr').
  rewrite fold_left_app in HS', Hn', Htr'. cbn [fold_left] in HS', Hn', Htr'. fold r in HS', Hn', Htr'.
  rewrite map_app in HS'. unfold srun in HS'. rewrite fold_left_app in HS'. cbn [map fold_left] in HS'.
  fold (srun HResp nonorm (map sop_of ops)) in HS'. set (m := srun HResp nonorm (map sop_of ops)) in *.
  pose proof HS as (Hd & _). pose proof HS' as (Hd' & _).
  unfold RPeekAll, RPeek. rewrite Hd, Hd'.
  rewrite (RpeekAll_spec nonorm _ _ _ HS' Htr'), (RpeekAll_spec nonorm _ _ _ HS Htr), (Rpeek_spec nonorm _ _ _ HS'), (Rpeek_spec nonorm _ _ _ HS).
  rewrite Hn, Hn'.
  assert (Hm : mm_vals (sstep HResp nonorm m (sop_of o)) (getHeaderKeyBytes k' nonorm) = mm_vals m (getHeaderKeyBytes k' nonorm)).
  { apply sstep_other. destruct o; cbn [sop_of op_key] in *; exact Hne. }
  rewrite (spec_peek_all_ext _ _ _ _ _ Hm), (spec_peek_ext _ _ _ _ _ Hm). split; reflexivity.
Qed.

(* --- request --- *)
Theorem req_refines_spec nonorm nodefct evs k : qev_ok nonorm evs ->
  let q := fold_left qevstep evs (qinit nonorm nodefct) in
  let m := srun HReq nonorm (map sop_of (qev_ops evs)) in
  let c := canon nonorm k in
  QPeek q k = spec_peek HReq nodefct m c
  /\ QPeekAll q k = spec_peek_all HReq nodefct m c
  /\ QContentType q = spec_peek HReq nodefct m strContentType
  /\ QHost q = spec_peek HReq nodefct m strHost
  /\ QUserAgent q = spec_peek HReq nodefct m strUserAgent.
Proof.
  intros Hok q m c. destruct (Qrun_sim nonorm nodefct evs Hok) as (HS & Hn & Htr). fold q m in HS, Hn, Htr.
  pose proof HS as (Hd & Hds & _). unfold QPeek, QPeekAll. rewrite Hd. fold (canon nonorm k). fold c.
  repeat split.
  - apply (Qpeek_spec nonorm); exact HS.
  - apply (QpeekAll_spec nonorm); assumption.
  - rewrite <- (Qpeek_spec nonorm q m strContentType nodefct HS). reflexivity.
  - rewrite <- (Qpeek_spec nonorm q m strHost nodefct HS). reflexivity.
  - rewrite <- (Qpeek_spec nonorm q m strUserAgent nodefct HS). reflexivity.
Qed.

Lemma QSetExact_collected q c v : c <> strCookie -> qcookiesCollected (QSetExact q c v) = qcookiesCollected q.
Proof.
  intros Hne. unfold QSetExact. rewrite (beq_ne_false _ _ Hne).
  repeat match goal with |- context[if beq c ?X then _ else _] => destruct (beq c X) end; try reflexivity.
  all: try (destruct (parseContentLength v); reflexivity).
  all: try (destruct (hasHeaderValue v strClose); reflexivity).
  all: unfold QSetTrailerBytes; destruct (hSetTrailer_shape (qh q) v) as [tr ->]; reflexivity.
Qed.
Lemma QAddExact_collected q c v : c <> strCookie -> qcookiesCollected (QAddExact q c v) = qcookiesCollected q.
Proof. intros. unfold QAddExact. destruct (existsb _ _); [now apply QSetExact_collected|reflexivity]. Qed.
Lemma Qdel_collected q c : qcookiesCollected (Qdel q c) = qcookiesCollected q.
Proof.
  unfold Qdel. repeat match goal with |- context[if beq c ?X then _ else _] => destruct (beq c X) end; reflexivity.
Qed.

Theorem req_other_names_untouched nonorm nodefct evs o k' : qev_ok nonorm (evs ++ [QOp o]) ->
  let q := fold_left qevstep evs (qinit nonorm nodefct) in
  match op_key nonorm o with Some c => canon nonorm k' <> c | None => True end ->
  QPeekAll (qstep29 q o) k' = QPeekAll q k' /\ QPeek (qstep29 q o) k' = QPeek q k'.
Proof.
  intros Hok q Hne.
  assert (Hok1 : qev_ok nonorm evs).
  { unfold qev_ok, qev_ops in *. rewrite flat_map_app in Hok. apply Forall_app in Hok. tauto. }
  assert (Hko : key_ok qspecials nonorm o = true).
  { unfold qev_ok, qev_ops in Hok. rewrite flat_map_app in Hok. apply Forall_app in Hok as [_ H]. cbn in H.
    apply Forall_cons_iff in H. tauto. }
  destruct (Qrun_sim nonorm nodefct evs Hok1) as (HS & Hn & Htr). fold q in HS, Hn, Htr.
  destruct (Qrun_sim nonorm nodefct (evs ++ [QOp o]) Hok) as (HS' & Hn' & Htr').
  rewrite fold_left_app in HS', Hn', Htr'. cbn [fold_left qevstep] in HS', Hn', Htr'. fold q in HS', Hn', Htr'.
  unfold qev_ops in HS'. rewrite flat_map_app, map_app in HS'. unfold srun in HS'. rewrite fold_left_app in HS'.
  cbn [flat_map app map fold_left] in HS'.
  fold (qev_ops evs) in HS'. fold (srun HReq nonorm (map sop_of (qev_ops evs))) in HS'.
  set (m := srun HReq nonorm (map sop_of (qev_ops evs))) in *.
  pose proof HS as (Hd & Hds & _). pose proof HS' as (Hd' & _).
  unfold QPeekAll, QPeek. rewrite Hd, Hd'.
  rewrite (QpeekAll_spec nonorm _ _ _ nodefct HS' Htr'), (QpeekAll_spec nonorm _ _ _ nodefct HS Htr),
          (Qpeek_spec nonorm _ _ _ nodefct HS'), (Qpeek_spec nonorm _ _ _ nodefct HS).
  assert (Hm : mm_vals (sstep HReq nonorm m (sop_of o)) (getHeaderKeyBytes k' nonorm) = mm_vals m (getHeaderKeyBytes k' nonorm)).
  { apply sstep_other. destruct o; cbn [sop_of op_key] in *; exact Hne. }
  rewrite (spec_peek_all_ext _ _ _ _ _ Hm), (spec_peek_ext _ _ _ _ _ Hm). split; reflexivity.
Qed.

(* --- All() / VisitAll / PeekKeys / Len for ordinary names --- *)
Definition vals_of (l : kvs) (c : bytes) : list bytes := map snd (filter (fun e => beq (fst e) c) l).
Lemma vals_of_app l1 l2 c : vals_of (l1 ++ l2) c = vals_of l1 c ++ vals_of l2 c.
Proof. unfold vals_of. now rewrite filter_app, map_app. Qed.
Lemma vals_of_optkv X v c : beq c X = false -> vals_of (optkv X v) c = [].
Proof. intros H. unfold optkv, vals_of. destruct v; cbn; [reflexivity|]. now rewrite beq_sym, H. Qed.
Lemma vals_of_const (X : bytes) (l : kvs) c : beq c X = false -> vals_of (map (fun kv => (X, snd kv)) l) c = [].
Proof. intros H. unfold vals_of. induction l; cbn; [reflexivity|]. now rewrite beq_sym, H. Qed.

Lemma vals_of_single (X v c : bytes) : beq c X = false -> vals_of [(X, v)] c = [].
Proof. intros H. unfold vals_of. cbn [filter fst]. now rewrite beq_sym, H. Qed.

Theorem resp_all_ordinary nonorm nodefct ops c : ops_ok rspecials nonorm ops -> ordinary_r c = true ->
  let r := fold_left rstep29 ops (rinit nonorm nodefct) in
  vals_of (RAll r) c = spec_all_vals HResp nodefct (srun HResp nonorm (map sop_of ops)) c.
Proof.
  intros Hok Ho r. destruct (Rrun_sim nonorm nodefct ops Hok) as [(_ & Hv & _ & _) _]. fold r in Hv.
  unfold ordinary_r in Ho. apply negb_true_iff in Ho. cbn [existsb rspecials] in Ho.
  repeat (apply orb_false_iff in Ho as [?E Ho]).
  assert (Hcls : cls_of HResp c = COrd) by (unfold cls_of; now rewrite E, E0, E1, E2, E3, E4, E5, E6, E7).
  unfold spec_all_vals, spec_peek_all. rewrite Hcls, <- Hv.
  unfold RAll. cbv zeta. rewrite !vals_of_app.
  rewrite !vals_of_optkv, vals_of_const by assumption. cbn [app].
  assert (Hnil : vals_of [] c = []) by reflexivity.
  destruct (htrailer (rh r)) as [|t0 tr]; destruct (hclose (rh r));
    rewrite ?(vals_of_single _ _ _ E6), ?(vals_of_single _ _ _ E2); unfold vals_of; cbn [filter map app];
    rewrite ?app_nil_r; rewrite <- peekAll_vals.
  all: unfold rvals; now rewrite E, E1, E3, E2, E0, E4, E6.
Qed.

Theorem req_all_ordinary nonorm nodefct evs c : qev_ok nonorm evs -> ordinary_q c = true ->
  let q := fold_left qevstep evs (qinit nonorm nodefct) in
  vals_of (snd (QAll q)) c = spec_all_vals HReq nodefct (srun HReq nonorm (map sop_of (qev_ops evs))) c.
Proof.
  intros Hok Ho q. destruct (Qrun_sim nonorm nodefct evs Hok) as [(_ & Hds & Hv & _ & _ & Hnc & _) _]. fold q in Hv, Hnc, Hds.
  unfold ordinary_q in Ho. apply negb_true_iff in Ho. cbn [existsb qspecials] in Ho.
  repeat (apply orb_false_iff in Ho as [?E Ho]).
  assert (Hcls : cls_of HReq c = COrd) by (unfold cls_of; now rewrite E, E0, E1, E2, E3, E4, E5, E6).
  unfold spec_all_vals, spec_peek_all. rewrite Hcls, <- Hv.
  destruct (collect_fields q Hnc) as (H1 & _).
  unfold QAll. cbv zeta. cbn [snd]. rewrite H1. rewrite !vals_of_app.
  rewrite !vals_of_optkv by assumption. cbn [app].
  assert (Hnil : vals_of [] c = []) by reflexivity.
  destruct (htrailer (qh q)) as [|t0 tr]; destruct (hcookies (qh q)) as [|ck cs]; destruct (hclose (qh q));
    rewrite ?(vals_of_single _ _ _ E4), ?(vals_of_single _ _ _ E2), ?(vals_of_single _ _ _ E1); unfold vals_of; cbn [filter map app];
    rewrite ?app_nil_r; rewrite <- peekAll_vals.
  all: unfold qvals; now rewrite E5, E, E6, E1, E0, E2, E4.
Qed.
