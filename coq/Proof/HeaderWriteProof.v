(* Proofs for C05: sanitising setters, shape of the serialised head, what a peer reads back. *)
From FH Require Import Model.Base Gen.GenC05 Gen.GenC06 Gen.GenC32 Model.Ints Model.ByteClassModel Model.Cookie Model.HeaderWrite
  Spec.ByteClass Spec.IntsSpec Spec.HeadLines Proof.ByteClassProof Proof.IntsProof.
From Coq Require Import Lia ZifyBool ZifyN ZifyNat.
Open Scope N_scope.

(* ------------------------------------------------------------------ CR/LF-freeness *)
Definition nc (s : bytes) : Prop := no_crlf s = true.

Lemma nc_app a b : nc (a ++ b) <-> nc a /\ nc b.
Proof. unfold nc, no_crlf. rewrite forallb_app, andb_true_iff. tauto. Qed.
Lemma nc_nil : nc []. Proof. reflexivity. Qed.
Lemma nc_cons c s : nc (c :: s) <-> is_crlf c = false /\ nc s.
Proof. unfold nc, no_crlf. cbn [forallb]. rewrite andb_true_iff, negb_true_iff. tauto. Qed.
Lemma nc_In s : nc s <-> forall c, In c s -> is_crlf c = false.
Proof.
  unfold nc, no_crlf. rewrite forallb_forall. split; intros H c Hc; specialize (H c Hc).
  - now apply negb_true_iff. - now apply negb_true_iff.
Qed.
Lemma nc_incl a b : (forall c, In c a -> In c b) -> nc b -> nc a.
Proof. rewrite !nc_In. auto. Qed.
Lemma nc_rev s : nc (rev s) <-> nc s.
Proof. rewrite !nc_In. split; intros H c Hc; apply H; [apply in_rev in Hc; exact Hc | apply in_rev; exact Hc]. Qed.

(* the model's removeNewLines is the specification's neutralisation *)
Lemma removeNewLines_neutralise s : removeNewLines s = neutralise s.
Proof. reflexivity. Qed.

Lemma neutralise_nc s : nc (neutralise s).
Proof.
  induction s as [|c r IH]; [reflexivity|]. cbn [neutralise map]. apply nc_cons. split; [|exact IH].
  unfold is_crlf. destruct (N.eqb_spec c 13) as [->|]; [reflexivity|]. destruct (N.eqb_spec c 10) as [->|]; [reflexivity|].
  cbn [orb]. destruct (N.eqb_spec c 13); [contradiction|]. destruct (N.eqb_spec c 10); [contradiction|]. reflexivity.
Qed.
Lemma neutralise_length s : length (neutralise s) = length s.
Proof. apply map_length. Qed.
Lemma neutralise_nth s i : nth i (neutralise s) 0 = if is_crlf (nth i s 0) then 32 else nth i s 0.
Proof.
  revert i; induction s as [|c r IH]; intros [|i]; cbn [neutralise map nth]; try reflexivity. apply IH.
Qed.
Lemma neutralise_id s : nc s -> neutralise s = s.
Proof.
  induction s as [|c r IH]; [reflexivity|]. intros H. apply nc_cons in H as [Hc Hr]. cbn [neutralise map].
  rewrite Hc. f_equal. apply IH, Hr.
Qed.
Lemma removeNewLines_nc s : nc (removeNewLines s).
Proof. apply neutralise_nc. Qed.
Lemma initHeaderValueBytes_nc s : nc (initHeaderValueBytes s).
Proof. apply neutralise_nc. Qed.

(* ------------------------------------------------------------------ key normalisation *)
Definition first128 : list N := map N.of_nat (seq 0 128).
Lemma in_first128 c : c < 128 -> In c first128.
Proof. intros H. apply in_map_iff. exists (N.to_nat c). split; [lia|]. apply in_seq. lia. Qed.

(* on header-field bytes the case tables only change the case of letters: no CR/LF, no colon, no SP/HT appears,
   and the byte is the same up to ASCII case *)
Lemma case_tables_facts :
  forallb (fun c => if validHeaderFieldByte c then
     negb (is_crlf (tbl toUpperTable c)) && negb (is_crlf (tbl toLowerTable c)) &&
     (lower (tbl toUpperTable c) =? lower c) && (lower (tbl toLowerTable c) =? lower c) &&
     validHeaderFieldByte (tbl toUpperTable c) && validHeaderFieldByte (tbl toLowerTable c) &&
     negb (is_crlf c) && negb (c =? 58) && negb (c =? 32) && negb (c =? 9)
   else true) first128 = true.
Proof. vm_compute. reflexivity. Qed.

Lemma field_byte_facts c : validHeaderFieldByte c = true ->
  is_crlf (tbl toUpperTable c) = false /\ is_crlf (tbl toLowerTable c) = false /\
  lower (tbl toUpperTable c) = lower c /\ lower (tbl toLowerTable c) = lower c /\
  validHeaderFieldByte (tbl toUpperTable c) = true /\ validHeaderFieldByte (tbl toLowerTable c) = true /\
  is_crlf c = false /\ c <> 58 /\ c <> 32 /\ c <> 9.
Proof.
  intros Hv. assert (Hc : c < 128). { unfold validHeaderFieldByte in Hv. lia. }
  pose proof case_tables_facts as H. rewrite forallb_forall in H. specialize (H c (in_first128 c Hc)).
  rewrite Hv in H. repeat (apply andb_true_iff in H as [H ?]).
  repeat match goal with h : negb _ = true |- _ => apply negb_true_iff in h end.
  repeat split; try assumption; try (apply N.eqb_eq; assumption); try (apply N.eqb_neq; assumption).
Qed.

Lemma nhk_loop_facts s : forallb validHeaderFieldByte s = true -> forall up,
  nc (nhk_loop up s) /\ map lower (nhk_loop up s) = map lower s /\ forallb validHeaderFieldByte (nhk_loop up s) = true.
Proof.
  induction s as [|c r IH]; intros Hs up; [repeat split|].
  cbn [forallb] in Hs. apply andb_true_iff in Hs as [Hc Hr].
  destruct (field_byte_facts c Hc) as (U1 & L1 & U2 & L2 & U3 & L3 & _).
  cbn [nhk_loop]. set (c' := if up then tbl toUpperTable c else tbl toLowerTable c).
  destruct (IH Hr (c' =? 45)) as (I1 & I2 & I3).
  split; [|split].
  - apply nc_cons. split; [destruct up; assumption | exact I1].
  - cbn [map]. rewrite I2. f_equal. destruct up; assumption.
  - cbn [forallb]. rewrite I3, andb_true_r. destruct up; assumption.
Qed.

Lemma field_bytes_nc s : forallb validHeaderFieldByte s = true -> nc s.
Proof.
  intros H. apply nc_In. intros c Hc. rewrite forallb_forall in H. now destruct (field_byte_facts c (H c Hc)) as (_&_&_&_&_&_&?&_).
Qed.

Lemma normalizeHeaderKey_nc k d : nc (normalizeHeaderKey k d).
Proof.
  unfold normalizeHeaderKey. destruct d; [apply removeNewLines_nc|].
  destruct (forallb validHeaderFieldByte (removeNewLines k)) eqn:E; [|apply removeNewLines_nc].
  unfold normalizeHeaderKeyValidated. now destruct (nhk_loop_facts _ E true).
Qed.
(* the stored name is the neutralised key up to ASCII case *)
Lemma normalizeHeaderKey_lower k d : map lower (normalizeHeaderKey k d) = map lower (neutralise k).
Proof.
  unfold normalizeHeaderKey. rewrite removeNewLines_neutralise. destruct d; [reflexivity|].
  destruct (forallb validHeaderFieldByte (neutralise k)) eqn:E; [|reflexivity].
  unfold normalizeHeaderKeyValidated. now destruct (nhk_loop_facts _ E true) as (_ & ? & _).
Qed.
Lemma normalizeHeaderKeyValidated_nc k d : forallb validHeaderFieldByte k = true -> nc (normalizeHeaderKeyValidated k d).
Proof.
  intros H. unfold normalizeHeaderKeyValidated. destruct d; [now apply field_bytes_nc|]. now destruct (nhk_loop_facts _ H true).
Qed.

(* ------------------------------------------------------------------ key/value lists *)
Definition kv_clean (kv : bytes * bytes) : Prop := nc (fst kv) /\ nc (snd kv).
Definition kvs_clean (h : kvs) : Prop := Forall kv_clean h.

Lemma setArg_clean h k v : kvs_clean h -> nc k -> nc v -> kvs_clean (setArg h k v).
Proof.
  intros Hh Hk Hv. induction Hh as [|[k' v'] r [Hk' Hv'] Hr IH]; cbn [setArg].
  - repeat constructor; assumption.
  - destruct (beq k k'); constructor; try assumption; split; assumption.
Qed.
Lemma appendArg_clean h k v : kvs_clean h -> nc k -> nc v -> kvs_clean (appendArg h k v).
Proof. intros. apply Forall_app. split; [assumption|]. repeat constructor; assumption. Qed.
Lemma delAllArgsStable_clean h k : kvs_clean h -> kvs_clean (delAllArgsStable h k).
Proof.
  induction 1 as [|[k' v'] r Hkv Hr IH]; cbn [delAllArgsStable]; [constructor|].
  destruct (beq k k'); [assumption|]. now constructor.
Qed.
Lemma peekArgBytes_nc h k : kvs_clean h -> nc (peekArgBytes h k).
Proof.
  induction 1 as [|[k' v'] r [Hk Hv] Hr IH]; cbn [peekArgBytes]; [reflexivity|]. destruct (beq k' k); assumption.
Qed.

(* ------------------------------------------------------------------ cookie scanner outputs are made of input bytes *)
Definition sub (a b : bytes) : Prop := forall c, In c a -> In c b.
Lemma sub_refl a : sub a a. Proof. intros c H; exact H. Qed.
Lemma sub_trans a b c : sub a b -> sub b c -> sub a c. Proof. unfold sub; auto. Qed.
Lemma sub_nc a b : sub a b -> nc b -> nc a. Proof. apply nc_incl. Qed.

Lemma dropSpaces_sub s : sub (dropSpaces s) s.
Proof.
  induction s as [|c r IH]; [apply sub_refl|]. cbn [dropSpaces]. destruct (c =? 32); [|apply sub_refl].
  intros x Hx. right. now apply IH.
Qed.
Lemma rev_sub s : sub (rev s) s. Proof. intros c H. now apply in_rev. Qed.
Lemma rev_sub' s : sub s (rev s). Proof. intros c H. now apply -> in_rev. Qed.
Lemma trimSpaces_sub s : sub (trimSpaces s) s.
Proof.
  unfold trimSpaces. eapply sub_trans; [apply rev_sub|]. eapply sub_trans; [apply dropSpaces_sub|].
  eapply sub_trans; [apply rev_sub|]. apply dropSpaces_sub.
Qed.
Lemma unquote_sub s : sub (unquote s) s.
Proof.
  unfold unquote. destruct s as [|c r]; [apply sub_refl|].
  destruct (c =? 34); [|apply sub_refl].
  destruct (rev r) as [|d m] eqn:E; [apply sub_refl|].
  destruct (d =? 34); [|apply sub_refl].
  intros x Hx. right. apply in_rev. rewrite E. right. now apply in_rev in Hx.
Qed.
Lemma trimCookieArg_sub s q : sub (trimCookieArg s q) s.
Proof.
  unfold trimCookieArg. destruct q; [|apply trimSpaces_sub]. eapply sub_trans; [apply unquote_sub | apply trimSpaces_sub].
Qed.
Lemma split_at_sub d b : sub (fst (split_at d b)) b /\ match snd (split_at d b) with Some t => sub t b | None => True end.
Proof.
  induction b as [|c r [IH1 IH2]]; cbn [split_at]; [split; [apply sub_refl|exact I]|].
  destruct (c =? d).
  - cbn. split; [intros x []|]. intros x Hx. now right.
  - destruct (split_at d r) as [a t]. cbn in *. split.
    + intros x [->|Hx]; [now left | right; now apply IH1].
    + destruct t; [|exact I]. intros x Hx. right. now apply IH2.
Qed.

Lemma scan_pair_sub b k v rest : scan_pair b = Some (k, v, rest) -> sub k b /\ sub v b /\ sub rest b /\ (length rest < length b)%nat.
Proof.
  unfold scan_pair. destruct b as [|c0 b0]; [discriminate|]. set (b := c0 :: b0).
  destruct (split_at 59 b) as [seg after] eqn:E1.
  pose proof (split_at_sub 59 b) as [S1 S2]. rewrite E1 in S1, S2. cbn [fst snd] in S1, S2.
  assert (Hlen : match after with Some t => (length t < length b)%nat | None => True end).
  { clear S1 S2. revert seg after E1. generalize b. clear. induction b as [|c r IH]; intros seg after E; cbn [split_at] in E.
    - inversion E. exact I.
    - destruct (c =? 59). + inversion E. cbn. lia.
      + destruct (split_at 59 r) as [a t] eqn:E'. inversion E; subst. specialize (IH _ _ eq_refl). destruct after; [cbn; lia|exact I]. }
  destruct (split_at 61 seg) as [x y] eqn:E2.
  pose proof (split_at_sub 61 seg) as [T1 T2]. rewrite E2 in T1, T2. cbn [fst snd] in T1, T2.
  assert (Hrest : forall r, r = match after with Some (c :: r) => if c =? 32 then r else c :: r | Some [] => [] | None => [] end ->
                  sub r b /\ (length r < length b)%nat).
  { intros r ->. destruct after as [t|]; [|split; [intros ? []| cbn; lia]].
    destruct t as [|d t']; [split; [intros ? []|cbn; lia]|].
    destruct (d =? 32); [|split; assumption].
    split; [intros z Hz; apply S2; now right | cbn in *; lia]. }
  destruct (Hrest _ eq_refl) as [R1 R2].
  assert (Kx : forall q, sub (trimCookieArg x q) b).
  { intros q. eapply sub_trans; [apply trimCookieArg_sub|]. eapply sub_trans; eassumption. }
  destruct y as [w|]; intros H; inversion H; subst; clear H.
  - repeat split; try assumption.
    + apply (Kx false).
    + eapply sub_trans; [apply (trimCookieArg_sub w true)|]. eapply sub_trans; eassumption.
  - repeat split; try assumption.
    + intros ? [].
    + apply (Kx true).
Qed.

Lemma prc_loop_clean fuel : forall b cookies r, (length b <= fuel)%nat -> nc b -> kvs_clean cookies ->
  prc_loop fuel b cookies = r -> exists c, r = Some c /\ kvs_clean c.
Proof.
  induction fuel as [|f IH]; intros b cookies r Hl Hb Hc E; cbn [prc_loop] in E.
  - destruct b; [|cbn in Hl; lia]. subst. eauto.
  - unfold next in E. destruct (scan_pair b) as [[[k v] rest]|] eqn:Es; [|subst; eauto].
    destruct (scan_pair_sub _ _ _ _ Es) as (Sk & Sv & Sr & Hlt).
    eapply IH; [ | | | exact E]; [lia | eapply sub_nc; eassumption |].
    destruct ((match k, v with [], [] => false | _, _ => true end) && validCookieValue v); [|assumption].
    apply Forall_app. split; [assumption|]. repeat constructor; cbn; eapply sub_nc; eassumption.
Qed.
Lemma prc_total cookies src : exists c, parseRequestCookies cookies src = Some c.
Proof.
  unfold parseRequestCookies. revert cookies. generalize (Nat.le_refl (length src)). generalize (length src) at 2 3.
  intros fuel. revert src. induction fuel as [|f IH]; intros b Hl cookies; cbn [prc_loop].
  - destruct b; [eauto|cbn in Hl; lia].
  - unfold next. destruct (scan_pair b) as [[[k v] rest]|] eqn:Es; [|eauto].
    destruct (scan_pair_sub _ _ _ _ Es) as (_ & _ & _ & Hlt). apply IH. lia.
Qed.
Lemma prc_clean cookies src : kvs_clean cookies -> nc src -> kvs_clean (prc cookies src).
Proof.
  intros Hc Hs. unfold prc. destruct (parseRequestCookies cookies src) as [c|] eqn:E; [|assumption].
  unfold parseRequestCookies in E. destruct (prc_loop_clean _ _ _ _ (Nat.le_refl _) Hs Hc E) as (c' & E' & Hc'). now inversion E'; subst.
Qed.
Lemma getCookieKey_nc v : nc v -> nc (getCookieKey v).
Proof.
  intros H. unfold getCookieKey. destruct (split_at 61 v) as [x y] eqn:E.
  pose proof (split_at_sub 61 v) as [S _]. rewrite E in S. cbn in S.
  eapply sub_nc; [|exact H]. eapply sub_trans; [apply trimCookieArg_sub|exact S].
Qed.

(* ------------------------------------------------------------------ the state invariant: every stored byte string is CR/LF-free *)
Definition hdr_clean (x : hdr) : Prop :=
  kvs_clean (hh x) /\ kvs_clean (hcookies x) /\ nc (hclb x) /\ nc (hct x) /\ nc (hproto x) /\ Forall nc (htrailer x).
Definition resp_clean (r : resp) : Prop := hdr_clean (rh r) /\ nc (rstatusMsg r) /\ nc (rce r) /\ nc (rserver r).
Definition req_clean (q : req) : Prop :=
  hdr_clean (qh q) /\ nc (qmethod q) /\ nc (quri q) /\ nc (qhost q) /\ nc (qua q).

Lemma emptyResp_clean : resp_clean emptyResp.
Proof. repeat split; try constructor. Qed.
Lemma emptyReq_clean : req_clean emptyReq.
Proof. repeat split; try constructor. Qed.

Ltac hc := unfold hdr_clean in *; cbn [hh hcookies hclb hct hproto htrailer hcl hdisableNorm hclose hnoDefCT
  with_hh with_hcookies with_hclb with_hct with_hproto with_htrailer with_hcl with_hdisableNorm with_hclose with_hnoDefCT] in *.

Lemma all_digits_nc s : all_digits s = true -> nc s.
Proof.
  intros H. apply nc_In. intros c Hc. unfold all_digits in H. rewrite forallb_forall in H. specialize (H c Hc).
  unfold is_digit in H. unfold is_crlf. lia.
Qed.
Lemma dec_digits_nc n : (0 <= n)%Z -> nc (dec_digits n).
Proof. intros H. apply all_digits_nc. now destruct (dec_digits_spec n H). Qed.

Lemma hResetConnectionClose_clean x : hdr_clean x -> hdr_clean (hResetConnectionClose x).
Proof.
  intros H. unfold hResetConnectionClose. destruct (hclose x); [|exact H]. hc. destruct H as (H1&H2&H3&H4&H5&H6).
  repeat split; try assumption. now apply delAllArgsStable_clean.
Qed.
Lemma hsetNonSpecial_clean x k v : hdr_clean x -> nc k -> nc v -> hdr_clean (hsetNonSpecial x k v).
Proof.
  intros H Hk Hv. unfold hsetNonSpecial. hc. destruct H as (H1&H2&H3&H4&H5&H6). repeat split; try assumption. now apply setArg_clean.
Qed.
Lemma hSetContentTypeBytes_clean x v : hdr_clean x -> hdr_clean (hSetContentTypeBytes x v).
Proof.
  intros H. unfold hSetContentTypeBytes. hc. destruct H as (H1&H2&H3&H4&H5&H6). repeat split; try assumption. apply initHeaderValueBytes_nc.
Qed.

(* trailers: only validated tokens are stored *)
Lemma rev_forallb {A} (f : A -> bool) l : forallb f (rev l) = forallb f l.
Proof. induction l as [|a l IH]; [reflexivity|]. cbn [rev]. rewrite forallb_app, IH. cbn. rewrite andb_true_r. apply andb_comm. Qed.
Lemma atb_loop_clean fuel : forall t tr err d, Forall nc tr -> Forall nc (fst (atb_loop fuel t tr err d)).
Proof.
  induction fuel as [|f IH]; intros t tr err d Htr; cbn [atb_loop]; [exact Htr|].
  destruct (split_at 44 t) as [seg after].
  set (key := trim seg).
  destruct (negb (isValidTrailerKey key) || isBadTrailer key) eqn:E.
  - destruct after as [[|c r]|]; try exact Htr. now apply IH.
  - apply orb_false_iff in E as [E _]. apply negb_false_iff in E.
    assert (Hk : nc (normalizeHeaderKeyValidated key d)).
    { apply normalizeHeaderKeyValidated_nc. unfold isValidTrailerKey in E. destruct key; [discriminate|exact E]. }
    assert (Htr' : Forall nc (tr ++ [normalizeHeaderKeyValidated key d])).
    { apply Forall_app. split; [exact Htr|]. now repeat constructor. }
    destruct after as [[|c r]|]; try exact Htr'. now apply IH.
Qed.
Lemma hAddTrailerBytes_clean x t : hdr_clean x -> hdr_clean (fst (hAddTrailerBytes x t)).
Proof.
  intros H. unfold hAddTrailerBytes. destruct t as [|c t]; [exact H|].
  pose proof (atb_loop_clean (length (c :: t)) (c :: t) (htrailer x) false (hdisableNorm x)) as K.
  destruct (atb_loop (length (c :: t)) (c :: t) (htrailer x) false (hdisableNorm x)) as [tr err]. cbn [fst] in *.
  hc. destruct H as (H1&H2&H3&H4&H5&H6). repeat split; try assumption. now apply K.
Qed.
Lemma hSetTrailerBytes_clean x t : hdr_clean x -> hdr_clean (fst (hSetTrailerBytes x t)).
Proof.
  intros H. unfold hSetTrailerBytes. apply hAddTrailerBytes_clean. hc. destruct H as (H1&H2&H3&H4&H5&H6). repeat split; try assumption. constructor.
Qed.

Ltac rc := unfold resp_clean in *; cbn [rh rstatusMsg rce rserver rstatus rnoDefDate with_rh with_rstatusMsg with_rce with_rserver with_rstatus with_rnoDefDate] in *.

Lemma with_rh_clean r x : resp_clean r -> hdr_clean x -> resp_clean (with_rh r x).
Proof. intros (H1&H2&H3&H4) Hx. rc. split; [exact Hx|]. repeat split; assumption. Qed.

Lemma RSetContentLength_clean r n : resp_clean r -> resp_clean (RSetContentLength r n).
Proof.
  intros H. unfold RSetContentLength. destruct (mustSkipContentLength r); [exact H|].
  pose proof H as (Hh&_). destruct Hh as (H1&H2&H3&H4&H5&H6).
  destruct (0 <=? n)%Z eqn:E0; [|destruct (n =? -1)%Z]; apply with_rh_clean; try exact H; hc.
  - split; [now apply delAllArgsStable_clean|]. split; [assumption|]. split; [apply dec_digits_nc; lia|]. repeat split; assumption.
  - split; [apply setArg_clean; try assumption; reflexivity|]. split; [assumption|]. split; [reflexivity|]. repeat split; assumption.
  - unfold hSetConnectionClose. hc. repeat split; assumption.
Qed.

Lemma RsetSpecialHeader_clean r k v r' : resp_clean r -> nc k -> nc v -> RsetSpecialHeader r k v = Some r' -> resp_clean r'.
Proof.
  intros H Hk Hv. unfold RsetSpecialHeader. destruct k as [|c0 k0]; [discriminate|]. set (k := c0 :: k0) in *.
  pose proof H as (Hh&Hm&He&Hs). pose proof Hh as (H1&H2&H3&H4&H5&H6).
  repeat match goal with
  | |- (if ?b then _ else _) = Some _ -> _ => destruct b
  | |- match ?o with Some _ => _ | None => _ end = Some _ -> _ => destruct o
  end; intros E; inversion E; subst; clear E; try exact H;
  first
  [ unfold RSetContentTypeBytes; apply with_rh_clean; [exact H|]; now apply hSetContentTypeBytes_clean
  | unfold RSetContentEncodingBytes; rc; split; [exact Hh|]; repeat split; try assumption; apply initHeaderValueBytes_nc
  | unfold RSetServerBytes; rc; split; [exact Hh|]; repeat split; try assumption; apply initHeaderValueBytes_nc
  | unfold RSetTrailerBytes; apply with_rh_clean; [exact H|]; now apply hSetTrailerBytes_clean
  | apply with_rh_clean; [exact H|]; apply hsetNonSpecial_clean; try assumption; now apply hResetConnectionClose_clean
  | unfold hSetConnectionClose; apply with_rh_clean; [exact H|]; hc; split; [now apply delAllArgsStable_clean|]; repeat split; assumption
  | apply with_rh_clean; [exact H|]; hc; repeat split; try assumption; apply Forall_app; split; [assumption|];
    repeat constructor; cbn; [now apply getCookieKey_nc | assumption]
  | apply with_rh_clean; [exact H|]; hc; split; [now apply delAllArgsStable_clean|]; repeat split; assumption
  | apply with_rh_clean; [exact H|]; hc; repeat split; assumption ].
Qed.

Lemma RSetCanonical_clean r k v : resp_clean r -> nc k -> resp_clean (RSetCanonical r k v).
Proof.
  intros H Hk. unfold RSetCanonical. pose proof (initHeaderValueBytes_nc v) as Hv.
  destruct (RsetSpecialHeader r k (initHeaderValueBytes v)) as [r'|] eqn:E.
  - exact (RsetSpecialHeader_clean _ _ _ _ H Hk Hv E).
  - apply with_rh_clean; [exact H|]. apply hsetNonSpecial_clean; try assumption. apply H.
Qed.

(* the precondition of an operation: only SetCanonical has one (its key is documented to be canonical already) *)
Definition rop_pre (o : rop) : Prop := match o with ROSetCanonical k _ => nc k | _ => True end.

Theorem rstep_clean r o : resp_clean r -> rop_pre o -> resp_clean (rstep r o).
Proof.
  intros H Hp. pose proof H as (Hh&Hm&He&Hs). pose proof Hh as (H1&H2&H3&H4&H5&H6).
  destruct o; cbn [rstep rop_pre] in *.
  - unfold RSet. apply RSetCanonical_clean; [exact H|apply normalizeHeaderKey_nc].
  - unfold RAdd, getHeaderKeyBytes. pose proof (normalizeHeaderKey_nc k (hdisableNorm (rh r))) as Hk. pose proof (initHeaderValueBytes_nc v) as Hv.
    destruct (RsetSpecialHeader r _ _) as [r'|] eqn:E; [exact (RsetSpecialHeader_clean _ _ _ _ H Hk Hv E)|].
    apply with_rh_clean; [exact H|]. hc. repeat split; try assumption. now apply appendArg_clean.
  - now apply RSetCanonical_clean.
  - unfold RSetStatusCode. rc. repeat split; assumption.
  - unfold RSetStatusMessage. rc. repeat split; try assumption. apply initHeaderValueBytes_nc.
  - unfold RSetProtocol. apply with_rh_clean; [exact H|]. hc. repeat split; try assumption. apply initHeaderValueBytes_nc.
  - unfold RSetContentTypeBytes. apply with_rh_clean; [exact H|]. now apply hSetContentTypeBytes_clean.
  - unfold RSetContentEncodingBytes. rc. repeat split; try assumption. apply initHeaderValueBytes_nc.
  - unfold RSetServerBytes. rc. repeat split; try assumption. apply initHeaderValueBytes_nc.
  - now apply RSetContentLength_clean.
  - unfold RSetConnectionClose, hSetConnectionClose. apply with_rh_clean; [exact H|]. hc. repeat split; assumption.
  - unfold RResetConnectionClose. apply with_rh_clean; [exact H|]. now apply hResetConnectionClose_clean.
  - unfold RSetTrailerBytes. apply with_rh_clean; [exact H|]. now apply hSetTrailerBytes_clean.
  - unfold RAddTrailerBytes. apply with_rh_clean; [exact H|]. now apply hAddTrailerBytes_clean.
  - unfold RSetCookie. apply with_rh_clean; [exact H|]. hc. repeat split; try assumption.
    apply setArg_clean; try assumption; apply initHeaderValueBytes_nc.
  - apply with_rh_clean; [exact H|]. hc. repeat split; assumption.
  - apply with_rh_clean; [exact H|]. hc. repeat split; assumption.
  - apply with_rh_clean; [exact H|]. hc. repeat split; assumption.
  - rc. repeat split; assumption.
Qed.

Theorem rrun_clean ops : Forall rop_pre ops -> resp_clean (rrun ops).
Proof.
  unfold rrun. generalize emptyResp_clean. generalize emptyResp. induction ops as [|o ops IH]; intros r Hr Hp; [exact Hr|].
  inversion Hp; subst. cbn [fold_left]. apply IH; [|assumption]. now apply rstep_clean.
Qed.

(* ---------------------------------------------------------------- RequestHeader *)
Ltac qc := unfold req_clean in *; cbn [qh qmethod quri qhost qua qdisableSpecial qcookiesCollected
  with_qh with_qmethod with_quri with_qhost with_qua with_qdisableSpecial with_qcookiesCollected] in *.

Lemma with_qh_clean q x : req_clean q -> hdr_clean x -> req_clean (with_qh q x).
Proof. intros (H1&H2&H3&H4&H5) Hx. qc. split; [exact Hx|]. repeat split; assumption. Qed.

Lemma removeSemicolons_nc s : nc s -> nc (removeSemicolons s).
Proof.
  intros H. apply nc_In. intros c Hc. unfold removeSemicolons in Hc. apply in_map_iff in Hc as (x & <- & Hx).
  rewrite nc_In in H. destruct (x =? 59); [reflexivity|]. now apply H.
Qed.

Lemma cc_loop_clean h : forall cookies, kvs_clean h -> kvs_clean cookies ->
  kvs_clean (fst (cc_loop h cookies)) /\ kvs_clean (snd (cc_loop h cookies)).
Proof.
  induction h as [|[k v] r IH]; intros cookies Hh Hc; cbn [cc_loop]; [split; [constructor|exact Hc]|].
  inversion Hh as [|? ? [Hk Hv] Hr]; subst. cbn in Hk, Hv.
  destruct (ci k strCookie).
  - apply IH; [exact Hr|]. now apply prc_clean.
  - destruct (IH cookies Hr Hc) as [I1 I2]. destruct (cc_loop r cookies) as [h' c']. cbn [fst snd] in *.
    split; [|exact I2]. constructor; [split; assumption|exact I1].
Qed.
Lemma collectCookies_clean q : req_clean q -> req_clean (collectCookies q).
Proof.
  intros H. unfold collectCookies. destruct (qcookiesCollected q); [exact H|].
  pose proof H as (Hh&Hm&Hu&Hho&Hua). pose proof Hh as (H1&H2&H3&H4&H5&H6).
  destruct (cc_loop_clean (hh (qh q)) (hcookies (qh q)) H1 H2) as [I1 I2].
  destruct (cc_loop (hh (qh q)) (hcookies (qh q))) as [h' c']. cbn [fst snd] in *.
  qc. hc. repeat split; assumption.
Qed.

Lemma QSetContentLength_clean q n : req_clean q -> req_clean (QSetContentLength q n).
Proof.
  intros H. unfold QSetContentLength. pose proof H as (Hh&_). destruct Hh as (H1&H2&H3&H4&H5&H6).
  destruct (0 <=? n)%Z eqn:E0; apply with_qh_clean; try exact H; hc.
  - split; [now apply delAllArgsStable_clean|]. split; [assumption|]. split; [apply dec_digits_nc; lia|]. repeat split; assumption.
  - split; [apply setArg_clean; try assumption; reflexivity|]. split; [assumption|]. split; [reflexivity|]. repeat split; assumption.
Qed.

Lemma QsetSpecialHeader_clean q k v q' : req_clean q -> nc k -> nc v -> QsetSpecialHeader q k v = Some q' -> req_clean q'.
Proof.
  intros H Hk Hv. unfold QsetSpecialHeader. destruct k as [|c0 k0]; [discriminate|]. set (k := c0 :: k0) in *.
  pose proof H as (Hh&Hm&Hu&Hho&Hua). pose proof Hh as (H1&H2&H3&H4&H5&H6).
  pose proof (collectCookies_clean q H) as Hcc.
  repeat match goal with
  | |- (if ?b then _ else _) = Some _ -> _ => destruct b
  | |- match ?o with Some _ => _ | None => _ end = Some _ -> _ => destruct o
  end; intros E; inversion E; subst; clear E; try exact H;
  first
  [ unfold QSetContentTypeBytes; apply with_qh_clean; [exact H|]; now apply hSetContentTypeBytes_clean
  | unfold QSetHostBytes; qc; split; [exact Hh|]; repeat split; try assumption; apply initHeaderValueBytes_nc
  | unfold QSetUserAgentBytes; qc; split; [exact Hh|]; repeat split; try assumption; apply initHeaderValueBytes_nc
  | unfold QSetTrailerBytes; apply with_qh_clean; [exact H|]; now apply hSetTrailerBytes_clean
  | apply with_qh_clean; [exact H|]; apply hsetNonSpecial_clean; try assumption; now apply hResetConnectionClose_clean
  | unfold hSetConnectionClose; apply with_qh_clean; [exact H|]; hc; split; [now apply delAllArgsStable_clean|]; repeat split; assumption
  | apply with_qh_clean; [exact Hcc|]; destruct Hcc as ((C1&C2&C3&C4&C5&C6)&_); hc; repeat split; try assumption; now apply prc_clean
  | apply with_qh_clean; [exact H|]; hc; split; [now apply delAllArgsStable_clean|]; repeat split; assumption
  | apply with_qh_clean; [exact H|]; hc; repeat split; assumption ].
Qed.

Lemma QSetCanonical_clean q k v : req_clean q -> nc k -> req_clean (QSetCanonical q k v).
Proof.
  intros H Hk. unfold QSetCanonical. pose proof (initHeaderValueBytes_nc v) as Hv.
  destruct (QsetSpecialHeader q k (initHeaderValueBytes v)) as [q'|] eqn:E.
  - exact (QsetSpecialHeader_clean _ _ _ _ H Hk Hv E).
  - apply with_qh_clean; [exact H|]. apply hsetNonSpecial_clean; try assumption. apply H.
Qed.
Lemma QSet_clean q k v : req_clean q -> req_clean (QSet q k v).
Proof. intros H. unfold QSet. apply QSetCanonical_clean; [exact H|apply normalizeHeaderKey_nc]. Qed.

Definition qop_pre (o : qop) : Prop := match o with QOSetCanonical k _ => nc k | _ => True end.

Lemma strs_nc : nc strReferer /\ nc strContentEncoding /\ nc strAuthorization /\ nc strMultipartFormData /\ nc strBoundary /\ nc strBasicSpace.
Proof. repeat split; reflexivity. Qed.

Theorem qstep_clean q o : req_clean q -> qop_pre o -> req_clean (qstep q o).
Proof.
  intros H Hp. pose proof H as (Hh&Hm&Hu&Hho&Hua). pose proof Hh as (H1&H2&H3&H4&H5&H6).
  destruct o; cbn [qstep qop_pre] in *.
  - now apply QSet_clean.
  - unfold QAdd, getHeaderKeyBytes. pose proof (normalizeHeaderKey_nc k (hdisableNorm (qh q))) as Hk. pose proof (initHeaderValueBytes_nc v) as Hv.
    destruct (QsetSpecialHeader q _ _) as [q'|] eqn:E; [exact (QsetSpecialHeader_clean _ _ _ _ H Hk Hv E)|].
    apply with_qh_clean; [exact H|]. hc. repeat split; try assumption. now apply appendArg_clean.
  - now apply QSetCanonical_clean.
  - unfold QSetMethodBytes. qc. split; [exact Hh|]. repeat split; try assumption. apply initHeaderValueBytes_nc.
  - unfold QSetRequestURIBytes. qc. split; [exact Hh|]. repeat split; try assumption. apply initHeaderValueBytes_nc.
  - unfold QSetProtocolBytes. apply with_qh_clean; [exact H|]. hc. repeat split; try assumption. apply initHeaderValueBytes_nc.
  - unfold QSetHostBytes. qc. split; [exact Hh|]. repeat split; try assumption. apply initHeaderValueBytes_nc.
  - unfold QSetUserAgentBytes. qc. split; [exact Hh|]. repeat split; try assumption. apply initHeaderValueBytes_nc.
  - unfold QSetReferer. now apply QSet_clean.
  - unfold QSetRefererBytes. apply with_qh_clean; [exact H|]. apply hsetNonSpecial_clean; [exact Hh|reflexivity|apply initHeaderValueBytes_nc].
  - unfold QSetContentTypeBytes. apply with_qh_clean; [exact H|]. now apply hSetContentTypeBytes_clean.
  - unfold QSetContentEncoding. now apply QSet_clean.
  - unfold QSetContentEncodingBytes. apply with_qh_clean; [exact H|]. apply hsetNonSpecial_clean; [exact Hh|reflexivity|apply initHeaderValueBytes_nc].
  - unfold QSetMultipartFormBoundaryBytes, QSetContentTypeBytes. apply with_qh_clean; [exact H|]. now apply hSetContentTypeBytes_clean.
  - now apply QSetContentLength_clean.
  - unfold QSetConnectionClose, hSetConnectionClose. apply with_qh_clean; [exact H|]. hc. repeat split; assumption.
  - unfold QResetConnectionClose. apply with_qh_clean; [exact H|]. now apply hResetConnectionClose_clean.
  - unfold QSetTrailerBytes. apply with_qh_clean; [exact H|]. now apply hSetTrailerBytes_clean.
  - unfold QAddTrailerBytes. apply with_qh_clean; [exact H|]. now apply hAddTrailerBytes_clean.
  - unfold QSetCookie. pose proof (collectCookies_clean q H) as Hcc. apply with_qh_clean; [exact Hcc|].
    destruct Hcc as ((C1&C2&C3&C4&C5&C6)&_). hc. repeat split; try assumption.
    unfold jarSetCookie. apply setArg_clean; [assumption| |]; apply removeSemicolons_nc, initHeaderValueBytes_nc.
  - apply with_qh_clean; [exact H|]. hc. repeat split; assumption.
  - apply with_qh_clean; [exact H|]. hc. repeat split; assumption.
  - apply with_qh_clean; [exact H|]. hc. repeat split; assumption.
  - qc. split; [exact Hh|]. repeat split; assumption.
  - qc. split; [exact Hh|]. repeat split; assumption.
Qed.

Theorem qrun_clean ops : Forall qop_pre ops -> req_clean (qrun ops).
Proof.
  unfold qrun. generalize emptyReq_clean. generalize emptyReq. induction ops as [|o ops IH]; intros q Hq Hp; [exact Hq|].
  inversion Hp; subst. cbn [fold_left]. apply IH; [|assumption]. now apply qstep_clean.
Qed.

(* ------------------------------------------------------------------ the serialised head is a list of lines *)
Lemma strs_concrete : strCRLF = [13; 10] /\ strColonSpace = [58; 32].
Proof. split; reflexivity. Qed.

Lemma render_lines_app a b : render_lines (a ++ b) = render_lines a ++ render_lines b.
Proof.
  induction a as [|[k v] a IH]; [reflexivity|]. cbn [app render_lines]. rewrite IH.
  repeat (progress (rewrite <- ?app_assoc; cbn [app])). reflexivity.
Qed.
Lemma appendHeaderLine_render dst k v : appendHeaderLine dst k v = dst ++ render_lines [(k, v)].
Proof. unfold appendHeaderLine. cbn [render_lines]. now rewrite app_nil_r. Qed.

Definition opt_line (k s : bytes) : list (bytes * bytes) := match s with [] => [] | _ => [(k, s)] end.
Definition if_line (b : bool) (k v : bytes) : list (bytes * bytes) := if b then [(k, v)] else [].

Lemma stage_opt dst k s :
  match s with [] => dst | c :: t => appendHeaderLine dst k (c :: t) end = dst ++ render_lines (opt_line k s).
Proof. destruct s; [now rewrite app_nil_r | apply appendHeaderLine_render]. Qed.
Lemma stage_if (b : bool) dst k v :
  (if b then appendHeaderLine dst k v else dst) = dst ++ render_lines (if_line b k v).
Proof. destruct b; [apply appendHeaderLine_render | now rewrite app_nil_r]. Qed.

Definition resp_h_keep (tr : list bytes) (nd : bool) (kv : bytes * bytes) : bool :=
  negb (in_trailer tr (fst kv)) && (nd || negb (beq (fst kv) strDate)).
Lemma resp_h_lines_render h : forall dst tr nd,
  resp_h_lines dst h tr nd = dst ++ render_lines (filter (resp_h_keep tr nd) h).
Proof.
  induction h as [|[k v] h IH]; intros dst tr nd; cbn [resp_h_lines filter]; [now rewrite app_nil_r|].
  rewrite IH. unfold resp_h_keep at 2. cbn [fst].
  destruct (negb (in_trailer tr k) && (nd || negb (beq k strDate))); [|reflexivity].
  rewrite appendHeaderLine_render. change ((k, v) :: filter (resp_h_keep tr nd) h) with ([(k, v)] ++ filter (resp_h_keep tr nd) h).
  now rewrite render_lines_app, app_assoc.
Qed.
Lemma setcookie_lines_render cs : forall dst,
  setcookie_lines dst cs = dst ++ render_lines (map (fun kv => (strSetCookie, snd kv)) cs).
Proof.
  induction cs as [|[k v] cs IH]; intros dst; cbn [setcookie_lines map]; [now rewrite app_nil_r|].
  rewrite IH, appendHeaderLine_render. cbn [snd].
  change ((strSetCookie, v) :: map (fun kv => (strSetCookie, snd kv)) cs) with ([(strSetCookie, v)] ++ map (fun kv => (strSetCookie, snd kv)) cs).
  now rewrite render_lines_app, app_assoc.
Qed.
Definition req_h_keep (tr : list bytes) (kv : bytes * bytes) : bool := negb (in_trailer tr (fst kv)).
Lemma req_h_lines_render h : forall dst tr, req_h_lines dst h tr = dst ++ render_lines (filter (req_h_keep tr) h).
Proof.
  induction h as [|[k v] h IH]; intros dst tr; cbn [req_h_lines filter]; [now rewrite app_nil_r|].
  rewrite IH. unfold req_h_keep at 2. cbn [fst]. destruct (negb (in_trailer tr k)); [|reflexivity].
  rewrite appendHeaderLine_render. change ((k, v) :: filter (req_h_keep tr) h) with ([(k, v)] ++ filter (req_h_keep tr) h).
  now rewrite render_lines_app, app_assoc.
Qed.

Section Shape.
  Variable StatusMessage : Z -> bytes.

  Definition status_code_bytes (sc : Z) : bytes := appendStatusCode [] sc.
  Definition resp_first (r : resp) : bytes :=
    let sc := RStatusCode r in let sc := if (sc <? 0)%Z then StatusOK else sc in
    hProtocol (rh r) ++ [32] ++ status_code_bytes sc ++ [32] ++
    (match rstatusMsg r with [] => StatusMessage sc | _ => rstatusMsg r end).

  Definition trailer_entry (tr : list bytes) : list (bytes * bytes) :=
    match tr with [] => [] | _ => [(strTrailer, appendTrailerBytes [] tr strCommaSpace)] end.

  Definition resp_entries (date : bytes) (r : resp) : list (bytes * bytes) :=
    let x := rh r in
    opt_line strServer (rserver r) ++
    if_line (negb (rnoDefDate r)) strDate date ++
    (if negb (hcl x =? 0)%Z || negb (beq (hct x) []) then opt_line strContentType (RContentType r) else []) ++
    opt_line strContentEncoding (rce r) ++
    opt_line strContentLength (hclb x) ++
    filter (resp_h_keep (htrailer x) (rnoDefDate r)) (hh x) ++
    trailer_entry (htrailer x) ++
    map (fun kv => (strSetCookie, snd kv)) (hcookies x) ++
    if_line (hclose x) strConnection strClose.

  Lemma appendStatusCode_app dst sc : appendStatusCode dst sc = dst ++ status_code_bytes sc.
  Proof. unfold status_code_bytes, appendStatusCode. destruct ((100 <=? sc)%Z && (sc <=? 999)%Z); reflexivity. Qed.

  Lemma appendStatusLine_first r : appendStatusLine StatusMessage [] r = resp_first r ++ [13; 10].
  Proof.
    unfold appendStatusLine, formatStatusLine, resp_first. cbv zeta. rewrite appendStatusCode_app.
    change strCRLF with [13; 10]. repeat (progress (rewrite <- ?app_assoc; cbn [app])). reflexivity.
  Qed.

  Theorem RespAppendBytes_shape date r :
    RespAppendBytes StatusMessage date r = render_head (resp_first r) (resp_entries date r).
  Proof.
    unfold RespAppendBytes, render_head, resp_entries. cbv zeta.
    rewrite appendStatusLine_first.
    assert (E1 : forall dst, (if negb (hcl (rh r) =? 0)%Z || negb (beq (hct (rh r)) [])
                  then match RContentType r with [] => dst | c :: t => appendHeaderLine dst strContentType (c :: t) end else dst)
                 = dst ++ render_lines (if negb (hcl (rh r) =? 0)%Z || negb (beq (hct (rh r)) []) then opt_line strContentType (RContentType r) else [])).
    { intros dst. destruct (negb (hcl (rh r) =? 0)%Z || negb (beq (hct (rh r)) [])); [apply stage_opt|now rewrite app_nil_r]. }
    assert (E2 : forall dst, match htrailer (rh r) with [] => dst | t :: tr => appendHeaderLine dst strTrailer (appendTrailerBytes [] (t :: tr) strCommaSpace) end
                 = dst ++ render_lines (trailer_entry (htrailer (rh r)))).
    { intros dst. unfold trailer_entry. destruct (htrailer (rh r)); [now rewrite app_nil_r|apply appendHeaderLine_render]. }
    rewrite E1, E2.
    rewrite !stage_opt, !stage_if, resp_h_lines_render, setcookie_lines_render.
    rewrite !render_lines_app. change strCRLF with [13; 10]. rewrite <- !app_assoc. reflexivity.
  Qed.
End Shape.

Lemma stage_opt_if (b : bool) dst k s :
  match s with [] => dst | c :: t => if b then appendHeaderLine dst k (c :: t) else dst end
  = dst ++ render_lines (if b then opt_line k s else []).
Proof. destruct s, b; cbn [opt_line render_lines]; rewrite ?app_nil_r; reflexivity. Qed.

Lemma stage_opt_if' (b : bool) dst k s :
  match s with [] => dst | _ :: _ => if b then appendHeaderLine dst k s else dst end
  = dst ++ render_lines (if b then opt_line k s else []).
Proof. destruct s, b; cbn [opt_line render_lines]; rewrite ?app_nil_r; reflexivity. Qed.

Definition req_first (q : req) : bytes := QMethod q ++ [32] ++ QRequestURI q ++ [32] ++ hProtocol (qh q).
Definition req_content_type (q : req) : bytes :=
  if negb (hnoDefCT (qh q)) && beq (QContentType q) [] && (0 <? hcl (qh q))%Z then strDefaultContentType else QContentType q.
Definition req_entries (q : req) : list (bytes * bytes) :=
  let x := qh q in
  let sp := negb (qdisableSpecial q) in
  (if sp then opt_line strUserAgent (QUserAgent q) else []) ++
  (if sp then opt_line strHost (QHost q) else []) ++
  (if sp then opt_line strContentType (req_content_type q) else []) ++
  (if sp then opt_line strContentLength (hclb x) else []) ++
  filter (req_h_keep (htrailer x)) (hh x) ++
  trailer_entry (htrailer x) ++
  (match hcookies x with [] => [] | _ => if sp then [(strCookie, appendRequestCookieBytes [] (hcookies x))] else [] end) ++
  if_line (hclose x && sp) strConnection strClose.

Theorem ReqAppendBytes_shape q : ReqAppendBytes [] q = render_head (req_first q) (req_entries q).
Proof.
  unfold ReqAppendBytes, render_head, req_entries, req_first. cbv zeta.
  assert (E2 : forall dst, match htrailer (qh q) with [] => dst | t :: tr => appendHeaderLine dst strTrailer (appendTrailerBytes [] (t :: tr) strCommaSpace) end
               = dst ++ render_lines (trailer_entry (htrailer (qh q)))).
  { intros dst. unfold trailer_entry. destruct (htrailer (qh q)); [now rewrite app_nil_r|apply appendHeaderLine_render]. }
  assert (E3 : forall dst, match hcookies (qh q) with [] => dst | c :: cs =>
                 if negb (qdisableSpecial q) then dst ++ strCookie ++ strColonSpace ++ appendRequestCookieBytes [] (c :: cs) ++ strCRLF else dst end
               = dst ++ render_lines (match hcookies (qh q) with [] => [] | _ =>
                   if negb (qdisableSpecial q) then [(strCookie, appendRequestCookieBytes [] (hcookies (qh q)))] else [] end)).
  { intros dst. destruct (hcookies (qh q)); [now rewrite app_nil_r|]. destruct (negb (qdisableSpecial q)); [|now rewrite app_nil_r].
    cbn [render_lines]. now rewrite app_nil_r. }
  rewrite E2, E3. rewrite !stage_opt_if, stage_opt_if', stage_if, req_h_lines_render. fold (req_content_type q).
  rewrite !render_lines_app. change strCRLF with [13; 10]. unfold req_content_type.
  repeat (progress (rewrite <- ?app_assoc; cbn [app])). reflexivity.
Qed.

(* ------------------------------------------------------------------ the lines are clean *)
Definition es_clean (es : list (bytes * bytes)) : Prop := Forall kv_clean es.

Lemma opt_line_clean k s : nc k -> nc s -> es_clean (opt_line k s).
Proof. intros. unfold opt_line. destruct s; [constructor|]. repeat constructor; assumption. Qed.
Lemma if_line_clean b k v : nc k -> nc v -> es_clean (if_line b k v).
Proof. intros. unfold if_line. destruct b; [|constructor]. repeat constructor; assumption. Qed.
Lemma filter_clean (f : bytes * bytes -> bool) h : kvs_clean h -> es_clean (filter f h).
Proof. intros H. apply Forall_forall. intros x Hx. apply filter_In in Hx as [Hx _]. unfold kvs_clean in H. rewrite Forall_forall in H. auto. Qed.
Lemma appendTrailerBytes_nc tr : forall dst, nc dst -> Forall nc tr -> nc (appendTrailerBytes dst tr strCommaSpace).
Proof.
  induction tr as [|t tr IH]; intros dst Hd Ht; cbn [appendTrailerBytes]; [exact Hd|].
  inversion Ht; subst. destruct tr as [|t2 tr2]; [apply nc_app; split; assumption|].
  apply IH; [|assumption]. apply nc_app. split; [assumption|]. apply nc_app. split; [assumption|reflexivity].
Qed.
Lemma trailer_entry_clean tr : Forall nc tr -> es_clean (trailer_entry tr).
Proof.
  intros H. unfold trailer_entry. destruct tr; [constructor|]. constructor; [|constructor]. split; cbn [fst snd]; [reflexivity|].
  apply appendTrailerBytes_nc; [reflexivity|assumption].
Qed.
Lemma appendRequestCookieBytes_nc cs : forall dst, nc dst -> kvs_clean cs -> nc (appendRequestCookieBytes dst cs).
Proof.
  induction cs as [|[k v] cs IH]; intros dst Hd Hc; cbn [appendRequestCookieBytes]; [exact Hd|].
  inversion Hc as [|? ? [Hk Hv] Hr]; subst. cbn in Hk, Hv.
  assert (H1 : nc (match k with [] => dst | _ :: _ => dst ++ k ++ [61] end ++ v)).
  { apply nc_app. split; [|exact Hv]. destruct k; [exact Hd|]. apply nc_app. split; [exact Hd|]. apply nc_app. split; [exact Hk|reflexivity]. }
  destruct cs; [exact H1|]. apply IH; [|exact Hr]. apply nc_app. split; [exact H1|reflexivity].
Qed.

Lemma status_code_bytes_nc sc : (0 <= sc)%Z -> nc (status_code_bytes sc).
Proof.
  intros H. unfold status_code_bytes, appendStatusCode. destruct ((100 <=? sc)%Z && (sc <=? 999)%Z) eqn:E.
  - apply andb_true_iff in E as [E1 E2]. apply Z.leb_le in E1, E2.
    assert (A1 : (0 <= sc / 100 < 10)%Z) by (split; [apply Z.div_pos; lia | apply Z.div_lt_upper_bound; lia]).
    assert (A2 : (0 <= (sc / 10) mod 10 < 10)%Z) by (apply Z.mod_pos_bound; lia).
    assert (A3 : (0 <= sc mod 10 < 10)%Z) by (apply Z.mod_pos_bound; lia).
    cbn [app]. apply nc_In. intros c [<-|[<-|[<-|[]]]]; unfold is_crlf; lia.
  - cbn [app]. now apply dec_digits_nc.
Qed.

Section Clean.
  Variable StatusMessage : Z -> bytes.
  Hypothesis StatusMessage_nc : forall n, nc (StatusMessage n).

  Lemma hProtocol_nc x : nc (hproto x) -> nc (hProtocol x).
  Proof. intros H. unfold hProtocol. destruct (hproto x); [reflexivity|exact H]. Qed.

  Lemma resp_first_clean r : resp_clean r -> nc (resp_first StatusMessage r).
  Proof.
    intros (Hh&Hm&He&Hs). destruct Hh as (H1&H2&H3&H4&H5&H6). unfold resp_first. cbv zeta.
    set (sc := if (RStatusCode r <? 0)%Z then StatusOK else RStatusCode r).
    assert (Hsc : (0 <= sc)%Z). { subst sc. destruct (RStatusCode r <? 0)%Z eqn:E; [unfold StatusOK; lia|lia]. }
    apply nc_app. split; [now apply hProtocol_nc|]. apply nc_app. split; [reflexivity|].
    apply nc_app. split; [now apply status_code_bytes_nc|]. apply nc_app. split; [reflexivity|].
    destruct (rstatusMsg r); [apply StatusMessage_nc|exact Hm].
  Qed.

  Lemma RContentType_nc r : resp_clean r -> nc (RContentType r).
  Proof. intros (Hh&_). destruct Hh as (H1&H2&H3&H4&H5&H6). unfold RContentType. destruct (hct (rh r)); [destruct (hnoDefCT (rh r)); reflexivity|exact H4]. Qed.

  Lemma resp_entries_clean date r : resp_clean r -> nc date -> es_clean (resp_entries date r).
  Proof.
    intros H Hd. pose proof H as (Hh&Hm&He&Hs). destruct Hh as (H1&H2&H3&H4&H5&H6). unfold resp_entries, es_clean. cbv zeta.
    repeat (apply Forall_app; split).
    - apply opt_line_clean; [reflexivity|assumption].
    - apply if_line_clean; [reflexivity|assumption].
    - destruct (negb (hcl (rh r) =? 0)%Z || negb (beq (hct (rh r)) [])); [|constructor]. apply opt_line_clean; [reflexivity|now apply RContentType_nc].
    - apply opt_line_clean; [reflexivity|assumption].
    - apply opt_line_clean; [reflexivity|assumption].
    - now apply filter_clean.
    - now apply trailer_entry_clean.
    - apply Forall_forall. intros x Hx. apply in_map_iff in Hx as ([k v] & <- & Hkv). unfold kvs_clean in H2. rewrite Forall_forall in H2.
      destruct (H2 _ Hkv) as [_ Hv]. split; [reflexivity|exact Hv].
    - apply if_line_clean; reflexivity.
  Qed.
End Clean.

Lemma QHost_nc q : req_clean q -> nc (QHost q).
Proof. intros (Hh&Hm&Hu&Hho&Hua). destruct Hh as (H1&_). unfold QHost. destruct (qdisableSpecial q); [now apply peekArgBytes_nc|exact Hho]. Qed.
Lemma QUserAgent_nc q : req_clean q -> nc (QUserAgent q).
Proof. intros (Hh&Hm&Hu&Hho&Hua). destruct Hh as (H1&_). unfold QUserAgent. destruct (qdisableSpecial q); [now apply peekArgBytes_nc|exact Hua]. Qed.
Lemma QContentType_nc q : req_clean q -> nc (QContentType q).
Proof. intros (Hh&_). destruct Hh as (H1&H2&H3&H4&_). unfold QContentType. destruct (qdisableSpecial q); [now apply peekArgBytes_nc|exact H4]. Qed.

Lemma req_first_clean q : req_clean q -> nc (req_first q).
Proof.
  intros H. pose proof H as (Hh&Hm&Hu&Hho&Hua). destruct Hh as (H1&H2&H3&H4&H5&H6). unfold req_first.
  apply nc_app. split; [unfold QMethod; destruct (qmethod q); [reflexivity|exact Hm]|]. apply nc_app. split; [reflexivity|].
  apply nc_app. split; [unfold QRequestURI; destruct (quri q); [reflexivity|exact Hu]|]. apply nc_app. split; [reflexivity|].
  now apply hProtocol_nc.
Qed.
Lemma req_entries_clean q : req_clean q -> es_clean (req_entries q).
Proof.
  intros H. pose proof H as (Hh&Hm&Hu&Hho&Hua). destruct Hh as (H1&H2&H3&H4&H5&H6). unfold req_entries, es_clean. cbv zeta.
  repeat (apply Forall_app; split).
  - destruct (negb (qdisableSpecial q)); [|constructor]. apply opt_line_clean; [reflexivity|now apply QUserAgent_nc].
  - destruct (negb (qdisableSpecial q)); [|constructor]. apply opt_line_clean; [reflexivity|now apply QHost_nc].
  - destruct (negb (qdisableSpecial q)); [|constructor]. apply opt_line_clean; [reflexivity|].
    unfold req_content_type. destruct (_ && _ && _); [reflexivity|now apply QContentType_nc].
  - destruct (negb (qdisableSpecial q)); [|constructor]. apply opt_line_clean; [reflexivity|assumption].
  - now apply filter_clean.
  - now apply trailer_entry_clean.
  - revert H2. destruct (hcookies (qh q)); intros H2; [constructor|]. destruct (negb (qdisableSpecial q)); [|constructor].
    constructor; [|constructor]. split; cbn [fst snd]; [reflexivity|]. apply appendRequestCookieBytes_nc; [reflexivity|exact H2].
  - apply if_line_clean; reflexivity.
Qed.

(* ------------------------------------------------------------------ what the line reader of Spec/HeadLines sees *)
Definition nolf (s : bytes) : Prop := forall c, In c s -> c <> 10.
Lemma nc_nolf s : nc s -> nolf s.
Proof. rewrite nc_In. intros H c Hc ->. specialize (H _ Hc). discriminate. Qed.

Lemma take_line_app l rest : nolf l -> take_line (l ++ 10 :: rest) = Some (l, rest).
Proof.
  induction l as [|c l IH]; intros H; cbn [app take_line]; [reflexivity|].
  destruct (N.eqb_spec c 10) as [->|_]; [exfalso; apply (H 10); [now left|reflexivity]|].
  rewrite IH; [reflexivity|]. intros x Hx. apply H. now right.
Qed.
Lemma strip_cr_snoc x : strip_cr (x ++ [13]) = x.
Proof. unfold strip_cr. rewrite rev_app_distr. cbn [rev app]. apply rev_involutive. Qed.

Lemma cut_at_app_found d a b : (exists t, snd (cut_at d a) = Some t) ->
  cut_at d (a ++ b) = (fst (cut_at d a), match snd (cut_at d a) with Some t => Some (t ++ b) | None => None end).
Proof.
  induction a as [|c a IH]; intros [t Ht]; cbn [cut_at app] in *; [discriminate|].
  destruct (c =? d); [reflexivity|]. destruct (cut_at d a) as [x y] eqn:E. cbn [fst snd] in *.
  rewrite IH by eauto. reflexivity.
Qed.
Lemma cut_at_app_notfound d a b : snd (cut_at d a) = None ->
  cut_at d (a ++ d :: b) = (a, Some b).
Proof.
  induction a as [|c a IH]; intros H; cbn [cut_at app] in *; [now rewrite N.eqb_refl|].
  destruct (c =? d); [discriminate|]. destruct (cut_at d a) as [x y] eqn:E. cbn [snd] in H. rewrite IH by exact H. reflexivity.
Qed.
Lemma cut_at_none_fst d a : snd (cut_at d a) = None -> fst (cut_at d a) = a.
Proof.
  induction a as [|c a IH]; cbn [cut_at]; [reflexivity|]. destruct (c =? d); [discriminate|].
  destruct (cut_at d a) as [x y]. cbn [fst snd] in *. intros H. now rewrite IH.
Qed.
Lemma cut_at_sub d a : sub (fst (cut_at d a)) a /\ match snd (cut_at d a) with Some t => sub t a | None => True end.
Proof.
  induction a as [|c a [I1 I2]]; cbn [cut_at]; [split; [apply sub_refl|exact I]|].
  destruct (c =? d); cbn [fst snd].
  - split; [intros ? []|]. intros x Hx. now right.
  - destruct (cut_at d a) as [x y]. cbn [fst snd] in *. split.
    + intros z [->|Hz]; [now left|right; now apply I1].
    + destruct y; [|exact I]. intros z Hz. right. now apply I2.
Qed.
Lemma skip_ows_sub s : sub (skip_ows s) s.
Proof.
  induction s as [|c s IH]; [apply sub_refl|]. cbn [skip_ows]. destruct ((c =? 32) || (c =? 9)); [|apply sub_refl].
  intros x Hx. right. now apply IH.
Qed.

(* the field a peer reads from the line  key ": " value *)
Definition line_field (kv : bytes * bytes) : option (bytes * bytes) := split_field (fst kv ++ [58; 32] ++ snd kv).

Lemma line_field_spec k v :
  match line_field (k, v) with
  | None => cut_colon k = []
  | Some (n, val) => n = cut_colon k /\ n <> [] /\ sub val (k ++ [58; 32] ++ v)
  end.
Proof.
  unfold line_field, split_field, cut_colon. cbn [fst snd].
  destruct (snd (cut_at 58 k)) as [t|] eqn:E.
  - rewrite cut_at_app_found by eauto. rewrite E. destruct (fst (cut_at 58 k)) as [|c n] eqn:F; [reflexivity|].
    repeat split; [discriminate|]. eapply sub_trans; [apply skip_ows_sub|].
    pose proof (cut_at_sub 58 k) as [_ S]. rewrite E in S. intros x Hx. apply in_app_or in Hx as [Hx|Hx]; apply in_or_app; [left; now apply S|now right].
  - change (k ++ [58; 32] ++ v) with (k ++ 58 :: (32 :: v)). rewrite cut_at_app_notfound by exact E.
    rewrite (cut_at_none_fst _ _ E). destruct k as [|c k]; [reflexivity|].
    repeat split; [discriminate|]. eapply sub_trans; [apply skip_ows_sub|]. intros x Hx. apply in_or_app. right. now right.
Qed.

Fixpoint es_fields (es : list (bytes * bytes)) : option (list (bytes * bytes)) :=
  match es with
  | [] => Some []
  | e :: r => match line_field e with
              | None => None
              | Some f => match es_fields r with Some fs => Some (f :: fs) | None => None end
              end
  end.

Lemma read_fields_render es : forall fuel rest, es_clean es -> (length es < fuel)%nat ->
  read_fields fuel (render_lines es ++ [13; 10] ++ rest) =
  match es_fields es with Some fs => Some (fs, rest) | None => None end.
Proof.
  induction es as [|[k v] es IH]; intros fuel rest Hc Hf; (destruct fuel as [|f]; [cbn in Hf; lia|]).
  - cbn [render_lines app read_fields take_line N.eqb]. reflexivity.
  - inversion Hc as [|? ? [Hk Hv] Hr]; subst. cbn [fst snd] in Hk, Hv.
    cbn [render_lines read_fields es_fields].
    replace ((k ++ [58; 32] ++ v ++ [13; 10] ++ render_lines es) ++ [13; 10] ++ rest)
      with (((k ++ [58; 32] ++ v) ++ [13]) ++ 10 :: (render_lines es ++ [13; 10] ++ rest))
      by (repeat (progress (rewrite <- ?app_assoc; cbn [app])); reflexivity).
    rewrite take_line_app.
    2:{ intros c Hc' ->. apply in_app_or in Hc' as [Hc'|[Hc'|[]]]; [|discriminate].
        apply in_app_or in Hc' as [Hc'|Hc']; [now apply (nc_nolf _ Hk 10)|].
        destruct Hc' as [Hc'|[Hc'|Hc']]; try discriminate. now apply (nc_nolf _ Hv 10). }
    rewrite strip_cr_snoc.
    destruct (k ++ [58; 32] ++ v) as [|c0 l0] eqn:El; [destruct k; discriminate|]. rewrite <- El.
    change (split_field (k ++ [58; 32] ++ v)) with (line_field (k, v)).
    destruct (line_field (k, v)) as [fld|]; [|reflexivity].
    rewrite IH by (try assumption; cbn in Hf; lia). destruct (es_fields es); reflexivity.
Qed.

Theorem read_head_render first es body : nc first -> es_clean es ->
  read_head (render_head first es ++ body) =
  match es_fields es with Some fs => Some (Head first fs body) | None => None end.
Proof.
  intros Hf Hc. unfold read_head, render_head.
  replace ((first ++ [13; 10] ++ render_lines es ++ [13; 10]) ++ body)
    with ((first ++ [13]) ++ 10 :: (render_lines es ++ [13; 10] ++ body))
    by (repeat (progress (rewrite <- ?app_assoc; cbn [app])); reflexivity).
  rewrite take_line_app.
  2:{ intros c Hc' ->. apply in_app_or in Hc' as [Hc'|[Hc'|[]]]; [now apply (nc_nolf _ Hf 10)|discriminate]. }
  rewrite strip_cr_snoc, read_fields_render; [destruct (es_fields es); reflexivity|exact Hc|].
  rewrite !app_length. cbn [length].
  assert (length es <= length (render_lines es))%nat.
  { clear. induction es as [|[k v] es IH]; [cbn; lia|]. cbn [render_lines]. rewrite !app_length. cbn [length]. lia. }
  lia.
Qed.

(* names and cleanliness of what is read *)
Lemma es_fields_spec es : es_clean es ->
  match es_fields es with
  | Some fs => map fst fs = map (fun e => cut_colon (fst e)) es /\ Forall (fun nv => nc (fst nv) /\ nc (snd nv)) fs /\
               Forall (fun e => cut_colon (fst e) <> []) es
  | None => Exists (fun e => cut_colon (fst e) = []) es
  end.
Proof.
  induction 1 as [|[k v] es [Hk Hv] Hr IH]; cbn [es_fields]; [repeat split; constructor|].
  cbn [fst snd] in Hk, Hv.
  pose proof (line_field_spec k v) as L. destruct (line_field (k, v)) as [[n val]|].
  - destruct L as (-> & Hn & Hs). destruct (es_fields es) as [fs|]; [|now apply Exists_cons_tl].
    destruct IH as (I1 & I2 & I3). cbn [map fst]. rewrite I1. repeat split; constructor; try assumption. cbn [fst snd]. split.
    + eapply sub_nc; [|exact Hk]. unfold cut_colon. apply cut_at_sub.
    + eapply sub_nc; [exact Hs|]. apply nc_app. split; [exact Hk|]. apply nc_app. split; [reflexivity|exact Hv].
  - now apply Exists_cons_hd.
Qed.

(* ------------------------------------------------------------------ where the names in h.h come from *)
Definition key_from (asked : list bytes) (key : bytes) : Prop :=
  key = strTransferEncoding \/ exists k, In k asked /\ map lower key = map lower (neutralise k).
Definition keys_ok (asked : list bytes) (h : kvs) : Prop := Forall (fun kv => key_from asked (fst kv)) h.

Lemma key_from_mono a b key : key_from a key -> key_from (a ++ b) key.
Proof. intros [H|(k & Hk & E)]; [now left|right]. exists k. split; [apply in_or_app; now left|exact E]. Qed.
Lemma key_from_mono_r a b key : key_from b key -> key_from (a ++ b) key.
Proof. intros [H|(k & Hk & E)]; [now left|right]. exists k. split; [apply in_or_app; now right|exact E]. Qed.
Lemma keys_ok_mono a b h : keys_ok a h -> keys_ok (a ++ b) h.
Proof. unfold keys_ok. apply Forall_impl. intros kv. apply key_from_mono. Qed.

Lemma setArg_keys a h k v : keys_ok a h -> key_from a k -> keys_ok a (setArg h k v).
Proof.
  intros Hh Hk. induction Hh as [|[k' v'] r Hk' Hr IH]; cbn [setArg]; [constructor; [exact Hk|constructor]|].
  destruct (beq k k'); constructor; assumption.
Qed.
Lemma appendArg_keys a h k v : keys_ok a h -> key_from a k -> keys_ok a (appendArg h k v).
Proof. intros. apply Forall_app. split; [assumption|]. constructor; [assumption|constructor]. Qed.
Lemma delAllArgsStable_keys a h k : keys_ok a h -> keys_ok a (delAllArgsStable h k).
Proof.
  induction 1 as [|[k' v'] r Hkv Hr IH]; cbn [delAllArgsStable]; [constructor|]. destruct (beq k k'); [assumption|]. now constructor.
Qed.
Lemma cc_loop_keys a h : forall cookies, keys_ok a h -> keys_ok a (fst (cc_loop h cookies)).
Proof.
  induction h as [|[k v] r IH]; intros cookies Hh; cbn [cc_loop]; [constructor|].
  inversion Hh; subst. destruct (ci k strCookie); [now apply IH|].
  specialize (IH cookies H2). destruct (cc_loop r cookies) as [h' c']. cbn [fst] in *. now constructor.
Qed.

Lemma key_from_normalized a k d : In k a -> key_from a (normalizeHeaderKey k d).
Proof. intros H. right. exists k. split; [exact H|apply normalizeHeaderKey_lower]. Qed.
Lemma key_from_raw a k : In k a -> nc k -> key_from a k.
Proof. intros H Hn. right. exists k. split; [exact H|]. now rewrite neutralise_id. Qed.

(* the keys an operation mentions *)
Definition rop_keys (o : rop) : list bytes :=
  match o with ROSet k _ | ROAdd k _ | ROSetCanonical k _ => [k] | _ => [] end.
Definition qop_keys (o : qop) : list bytes :=
  match o with
  | QOSet k _ | QOAdd k _ | QOSetCanonical k _ => [k]
  | QOSetReferer _ | QOSetRefererBytes _ => [strReferer]
  | QOSetContentEncoding _ | QOSetContentEncodingBytes _ => [strContentEncoding]
  | _ => []
  end.

Lemma hReset_keys a x : keys_ok a (hh x) -> keys_ok a (hh (hResetConnectionClose x)).
Proof. intros H. unfold hResetConnectionClose. destruct (hclose x); [|exact H]. hc. now apply delAllArgsStable_keys. Qed.
Lemma hAddTrailer_hh x t : hh (fst (hAddTrailerBytes x t)) = hh x.
Proof.
  unfold hAddTrailerBytes. destruct t; [reflexivity|]. destruct (atb_loop _ _ _ _ _). reflexivity.
Qed.
Lemma hSetTrailer_hh x t : hh (fst (hSetTrailerBytes x t)) = hh x.
Proof. unfold hSetTrailerBytes. now rewrite hAddTrailer_hh. Qed.

Lemma RsetSpecialHeader_keys a r k v r' : keys_ok a (hh (rh r)) -> key_from a k -> RsetSpecialHeader r k v = Some r' -> keys_ok a (hh (rh r')).
Proof.
  intros H Hk. unfold RsetSpecialHeader. destruct k as [|c0 k0]; [discriminate|]. set (k := c0 :: k0) in *.
  repeat match goal with
  | |- (if ?b then _ else _) = Some _ -> _ => destruct b
  | |- match ?o with Some _ => _ | None => _ end = Some _ -> _ => destruct o
  end; intros E; inversion E; subst; clear E; try exact H;
  first [ unfold RSetTrailerBytes; cbn [rh with_rh]; rewrite hSetTrailer_hh; exact H
        | cbn [rh with_rh]; unfold hsetNonSpecial; hc; apply setArg_keys; [now apply hReset_keys|exact Hk]
        | cbn [rh with_rh]; unfold hSetConnectionClose; hc; now apply delAllArgsStable_keys
        | cbn [rh with_rh]; hc; now apply delAllArgsStable_keys ].
Qed.

Lemma rstep_keys a r o : keys_ok a (hh (rh r)) -> rop_pre o -> keys_ok (a ++ rop_keys o) (hh (rh (rstep r o))).
Proof.
  intros H Hp. pose proof (keys_ok_mono a (rop_keys o) _ H) as H'.
  destruct o; cbn [rstep rop_keys rop_pre] in *; try (rewrite app_nil_r in *); try exact H.
  - unfold RSet, RSetCanonical, getHeaderKeyBytes.
    assert (Hk : key_from (a ++ [k]) (normalizeHeaderKey k (hdisableNorm (rh r)))) by (apply key_from_normalized, in_or_app; right; now left).
    destruct (RsetSpecialHeader r _ _) as [r'|] eqn:E; [exact (RsetSpecialHeader_keys _ _ _ _ _ H' Hk E)|].
    cbn [rh with_rh]. unfold hsetNonSpecial. hc. now apply setArg_keys.
  - unfold RAdd, getHeaderKeyBytes.
    assert (Hk : key_from (a ++ [k]) (normalizeHeaderKey k (hdisableNorm (rh r)))) by (apply key_from_normalized, in_or_app; right; now left).
    destruct (RsetSpecialHeader r _ _) as [r'|] eqn:E; [exact (RsetSpecialHeader_keys _ _ _ _ _ H' Hk E)|].
    cbn [rh with_rh]. hc. now apply appendArg_keys.
  - unfold RSetCanonical.
    assert (Hk : key_from (a ++ [k]) k) by (apply key_from_raw; [apply in_or_app; right; now left|exact Hp]).
    destruct (RsetSpecialHeader r _ _) as [r'|] eqn:E; [exact (RsetSpecialHeader_keys _ _ _ _ _ H' Hk E)|].
    cbn [rh with_rh]. unfold hsetNonSpecial. hc. now apply setArg_keys.
  - unfold RSetContentLength. destruct (mustSkipContentLength r); [exact H|].
    destruct (0 <=? n)%Z; [|destruct (n =? -1)%Z]; cbn [rh with_rh]; hc.
    + now apply delAllArgsStable_keys. + apply setArg_keys; [exact H|now left]. + exact H.
  - unfold RResetConnectionClose. cbn [rh with_rh]. now apply hReset_keys.
  - unfold RSetTrailerBytes. cbn [rh with_rh]. now rewrite hSetTrailer_hh.
  - unfold RAddTrailerBytes. cbn [rh with_rh]. now rewrite hAddTrailer_hh.
Qed.

Lemma rrun_keys ops : Forall rop_pre ops -> keys_ok (flat_map rop_keys ops) (hh (rh (rrun ops))).
Proof.
  unfold rrun. assert (G : forall ops r a, keys_ok a (hh (rh r)) -> Forall rop_pre ops -> keys_ok (a ++ flat_map rop_keys ops) (hh (rh (fold_left rstep ops r)))).
  { clear. induction ops as [|o ops IH]; intros r a H Hp; cbn [fold_left flat_map]; [now rewrite app_nil_r|].
    inversion Hp; subst. rewrite app_assoc. apply IH; [|assumption]. now apply rstep_keys. }
  intros Hp. apply (G ops emptyResp [] (Forall_nil _) Hp).
Qed.

Lemma collectCookies_keys a q : keys_ok a (hh (qh q)) -> keys_ok a (hh (qh (collectCookies q))).
Proof.
  intros H. unfold collectCookies. destruct (qcookiesCollected q); [exact H|].
  pose proof (cc_loop_keys a (hh (qh q)) (hcookies (qh q)) H) as K.
  destruct (cc_loop (hh (qh q)) (hcookies (qh q))) as [h' c']. cbn [fst] in K. cbn [qh with_qh with_qcookiesCollected]. hc. exact K.
Qed.

Lemma QsetSpecialHeader_keys a q k v q' : keys_ok a (hh (qh q)) -> key_from a k -> QsetSpecialHeader q k v = Some q' -> keys_ok a (hh (qh q')).
Proof.
  intros H Hk. unfold QsetSpecialHeader. destruct k as [|c0 k0]; [discriminate|]. set (k := c0 :: k0) in *.
  pose proof (collectCookies_keys a q H) as Hcc.
  repeat match goal with
  | |- (if ?b then _ else _) = Some _ -> _ => destruct b
  | |- match ?o with Some _ => _ | None => _ end = Some _ -> _ => destruct o
  end; intros E; inversion E; subst; clear E; try exact H;
  first [ unfold QSetTrailerBytes; cbn [qh with_qh]; rewrite hSetTrailer_hh; exact H
        | cbn [qh with_qh]; unfold hsetNonSpecial; hc; apply setArg_keys; [now apply hReset_keys|exact Hk]
        | cbn [qh with_qh]; unfold hSetConnectionClose; hc; now apply delAllArgsStable_keys
        | cbn [qh with_qh]; hc; now apply delAllArgsStable_keys
        | cbn [qh with_qh]; hc; exact Hcc ].
Qed.

Lemma QSetCanonical_keys a q k v : keys_ok a (hh (qh q)) -> key_from a k -> keys_ok a (hh (qh (QSetCanonical q k v))).
Proof.
  intros H Hk. unfold QSetCanonical. destruct (QsetSpecialHeader q _ _) as [q'|] eqn:E; [exact (QsetSpecialHeader_keys _ _ _ _ _ H Hk E)|].
  cbn [qh with_qh]. unfold hsetNonSpecial. hc. now apply setArg_keys.
Qed.
Lemma QSet_keys a q k v : keys_ok a (hh (qh q)) -> In k a -> keys_ok a (hh (qh (QSet q k v))).
Proof. intros H Hk. unfold QSet. apply QSetCanonical_keys; [exact H|]. now apply key_from_normalized. Qed.

Lemma QSetContentLength_keys a q n : keys_ok a (hh (qh q)) -> keys_ok a (hh (qh (QSetContentLength q n))).
Proof.
  intros H. unfold QSetContentLength. destruct (0 <=? n)%Z; cbn [qh with_qh]; hc.
  - now apply delAllArgsStable_keys. - apply setArg_keys; [exact H|now left].
Qed.

Lemma qstep_keys a q o : keys_ok a (hh (qh q)) -> qop_pre o -> keys_ok (a ++ qop_keys o) (hh (qh (qstep q o))).
Proof.
  intros H Hp. pose proof (keys_ok_mono a (qop_keys o) _ H) as H'.
  assert (Hin : forall k, In k (a ++ [k])) by (intros; apply in_or_app; right; now left).
  destruct o; cbn [qstep qop_keys qop_pre] in *; try (rewrite app_nil_r in *); try exact H.
  - now apply QSet_keys.
  - unfold QAdd, getHeaderKeyBytes.
    assert (Hk : key_from (a ++ [k]) (normalizeHeaderKey k (hdisableNorm (qh q)))) by (now apply key_from_normalized).
    destruct (QsetSpecialHeader q _ _) as [q'|] eqn:E; [exact (QsetSpecialHeader_keys _ _ _ _ _ H' Hk E)|].
    cbn [qh with_qh]. hc. now apply appendArg_keys.
  - apply QSetCanonical_keys; [exact H'|]. now apply key_from_raw.
  - unfold QSetReferer. now apply QSet_keys.
  - unfold QSetRefererBytes. cbn [qh with_qh]. unfold hsetNonSpecial. hc. apply setArg_keys; [exact H'|]. apply key_from_raw; [apply Hin|reflexivity].
  - unfold QSetContentEncoding. now apply QSet_keys.
  - unfold QSetContentEncodingBytes. cbn [qh with_qh]. unfold hsetNonSpecial. hc. apply setArg_keys; [exact H'|]. apply key_from_raw; [apply Hin|reflexivity].
  - now apply QSetContentLength_keys.
  - unfold QResetConnectionClose. cbn [qh with_qh]. now apply hReset_keys.
  - unfold QSetTrailerBytes. cbn [qh with_qh]. now rewrite hSetTrailer_hh.
  - unfold QAddTrailerBytes. cbn [qh with_qh]. now rewrite hAddTrailer_hh.
  - unfold QSetCookie. cbn [qh with_qh]. hc. now apply collectCookies_keys.
Qed.

Lemma qrun_keys ops : Forall qop_pre ops -> keys_ok (flat_map qop_keys ops) (hh (qh (qrun ops))).
Proof.
  unfold qrun. assert (G : forall ops q a, keys_ok a (hh (qh q)) -> Forall qop_pre ops -> keys_ok (a ++ flat_map qop_keys ops) (hh (qh (fold_left qstep ops q)))).
  { clear. induction ops as [|o ops IH]; intros q a H Hp; cbn [fold_left flat_map]; [now rewrite app_nil_r|].
    inversion Hp; subst. rewrite app_assoc. apply IH; [|assumption]. now apply qstep_keys. }
  intros Hp. apply (G ops emptyReq [] (Forall_nil _) Hp).
Qed.

(* ------------------------------------------------------------------ the names of the serialised lines *)
(* a peer's field name either is one fasthttp writes by itself, or is the part before the first colon of a
   case-variant of a neutralised key the caller asked for *)
Definition name_from (auto asked : list bytes) (n : bytes) : Prop :=
  In n auto \/ exists k s, In k asked /\ map lower s = map lower (neutralise k) /\ n = cut_colon s.

Definition resp_auto : list bytes :=
  [strServer; strDate; strContentType; strContentEncoding; strContentLength; strTransferEncoding; strTrailer; strSetCookie; strConnection].
Definition req_auto : list bytes :=
  [strUserAgent; strHost; strContentType; strContentLength; strTransferEncoding; strTrailer; strCookie; strConnection].

Lemma cut_colon_const : forall n, In n (resp_auto ++ req_auto) -> cut_colon n = n.
Proof. intros n H. cbn in H. repeat (destruct H as [<-|H]; [reflexivity|]). destruct H. Qed.

Definition entry_ok (auto asked : list bytes) (e : bytes * bytes) : Prop :=
  In (fst e) auto \/ key_from asked (fst e).

Lemma entry_name auto asked e : (forall n, In n auto -> cut_colon n = n) -> In strTransferEncoding auto ->
  entry_ok auto asked e -> name_from auto asked (cut_colon (fst e)).
Proof.
  intros Hc Hte [H|[H|(k & Hk & E)]].
  - left. now rewrite Hc.
  - left. rewrite H, Hc; assumption.
  - right. exists k, (fst e). auto.
Qed.

Lemma opt_line_entry auto asked k s : In k auto -> Forall (entry_ok auto asked) (opt_line k s).
Proof. intros H. unfold opt_line. destruct s; constructor; [now left|constructor]. Qed.
Lemma if_line_entry auto asked b k v : In k auto -> Forall (entry_ok auto asked) (if_line b k v).
Proof. intros H. unfold if_line. destruct b; constructor; [now left|constructor]. Qed.
Lemma filter_entry auto asked f h : keys_ok asked h -> Forall (entry_ok auto asked) (filter f h).
Proof.
  intros H. apply Forall_forall. intros x Hx. apply filter_In in Hx as [Hx _]. unfold keys_ok in H. rewrite Forall_forall in H. right. now apply H.
Qed.
Lemma trailer_entry_entry auto asked tr : In strTrailer auto -> Forall (entry_ok auto asked) (trailer_entry tr).
Proof. intros H. unfold trailer_entry. destruct tr; constructor; [now left|constructor]. Qed.

Lemma resp_entries_ok asked date r : keys_ok asked (hh (rh r)) -> Forall (entry_ok resp_auto asked) (resp_entries date r).
Proof.
  intros H. unfold resp_entries. cbv zeta. repeat (apply Forall_app; split).
  - apply opt_line_entry. cbn; tauto.
  - apply if_line_entry. cbn; tauto.
  - destruct (_ || _); [|constructor]. apply opt_line_entry. cbn; tauto.
  - apply opt_line_entry. cbn; tauto.
  - apply opt_line_entry. cbn; tauto.
  - now apply filter_entry.
  - apply trailer_entry_entry. cbn; tauto.
  - apply Forall_forall. intros x Hx. apply in_map_iff in Hx as (kv & <- & _). left. cbn; tauto.
  - apply if_line_entry. cbn; tauto.
Qed.
Lemma req_entries_ok asked q : keys_ok asked (hh (qh q)) -> Forall (entry_ok req_auto asked) (req_entries q).
Proof.
  intros H. unfold req_entries. cbv zeta. repeat (apply Forall_app; split).
  - destruct (negb _); [|constructor]. apply opt_line_entry. cbn; tauto.
  - destruct (negb _); [|constructor]. apply opt_line_entry. cbn; tauto.
  - destruct (negb _); [|constructor]. apply opt_line_entry. cbn; tauto.
  - destruct (negb _); [|constructor]. apply opt_line_entry. cbn; tauto.
  - now apply filter_entry.
  - apply trailer_entry_entry. cbn; tauto.
  - destruct (hcookies (qh q)); [constructor|]. destruct (negb _); constructor; [left; cbn; tauto|constructor].
  - apply if_line_entry. cbn; tauto.
Qed.

(* what a peer reads from a block of clean lines whose keys are accounted for *)
Definition peer_sees (auto asked : list bytes) (first body : bytes) (res : option head) : Prop :=
  match res with
  | None => True      (* rejected as a whole: some line has an empty field name *)
  | Some (Head f fs rest) =>
      f = first /\ rest = body /\ nc f /\
      Forall (fun nv => nc (fst nv) /\ nc (snd nv) /\ name_from auto asked (fst nv)) fs
  end.

Lemma peer_sees_render auto asked first es body :
  (forall n, In n auto -> cut_colon n = n) -> In strTransferEncoding auto ->
  nc first -> es_clean es -> Forall (entry_ok auto asked) es ->
  peer_sees auto asked first body (read_head (render_head first es ++ body)) /\
  (read_head (render_head first es ++ body) = None <-> Exists (fun e => cut_colon (fst e) = []) es) /\
  (forall f fs rest, read_head (render_head first es ++ body) = Some (Head f fs rest) -> length fs = length es).
Proof.
  intros Hc Hte Hf Hes Hok. rewrite read_head_render by assumption.
  pose proof (es_fields_spec es Hes) as S. destruct (es_fields es) as [fs|].
  - destruct S as (S1 & S2 & S3). split; [|split].
    + cbn. repeat split; try assumption.
      assert (G : forall fs es, map fst fs = map (fun e => cut_colon (fst e)) es -> Forall (fun nv => nc (fst nv) /\ nc (snd nv)) fs ->
                 Forall (entry_ok auto asked) es -> Forall (fun nv => nc (fst nv) /\ nc (snd nv) /\ name_from auto asked (fst nv)) fs).
      { clear - Hc Hte. induction fs as [|f fs IH]; intros es E F O; [constructor|].
        destruct es as [|e es]; [discriminate|]. cbn [map] in E. inversion E. inversion F; subst. inversion O; subst.
        constructor; [|now apply (IH es)]. destruct H3. repeat split; try assumption. rewrite H0. now apply entry_name. }
      now apply (G fs es).
    + split; [discriminate|]. intros Hex. exfalso. rewrite Forall_forall in S3. apply Exists_exists in Hex as (e & He & E). now apply (S3 e He).
    + intros f fs' rest E. inversion E; subst. rewrite <- (map_length fst), S1. apply map_length.
  - split; [exact I|]. split; [tauto|discriminate].
Qed.

Section Final.
  Variable StatusMessage : Z -> bytes.
  Hypothesis StatusMessage_nc : forall n, nc (StatusMessage n).

  Theorem resp_one_message ops date body : Forall rop_pre ops -> nc date ->
    let r := rrun ops in
    RespAppendBytes StatusMessage date r = render_head (resp_first StatusMessage r) (resp_entries date r) /\
    nc (resp_first StatusMessage r) /\ es_clean (resp_entries date r) /\
    peer_sees resp_auto (flat_map rop_keys ops) (resp_first StatusMessage r) body
      (read_head (RespAppendBytes StatusMessage date r ++ body)).
  Proof.
    intros Hp Hd r. pose proof (rrun_clean ops Hp) as Hc. pose proof (rrun_keys ops Hp) as Hk. fold r in Hc, Hk.
    split; [apply RespAppendBytes_shape|]. split; [now apply resp_first_clean|]. split; [now apply resp_entries_clean|].
    rewrite RespAppendBytes_shape. apply peer_sees_render.
    - intros n Hn. apply cut_colon_const. apply in_or_app. now left.
    - cbn; tauto.
    - now apply resp_first_clean.
    - now apply resp_entries_clean.
    - now apply resp_entries_ok.
  Qed.
End Final.

Theorem req_one_message ops body : Forall qop_pre ops ->
  let q := qrun ops in
  ReqAppendBytes [] q = render_head (req_first q) (req_entries q) /\
  nc (req_first q) /\ es_clean (req_entries q) /\
  peer_sees req_auto (flat_map qop_keys ops) (req_first q) body (read_head (ReqAppendBytes [] q ++ body)).
Proof.
  intros Hp q. pose proof (qrun_clean ops Hp) as Hc. pose proof (qrun_keys ops Hp) as Hk. fold q in Hc, Hk.
  split; [apply ReqAppendBytes_shape|]. split; [now apply req_first_clean|]. split; [now apply req_entries_clean|].
  rewrite ReqAppendBytes_shape. apply peer_sees_render.
  - intros n Hn. apply cut_colon_const. apply in_or_app. now right.
  - cbn; tauto.
  - now apply req_first_clean.
  - now apply req_entries_clean.
  - now apply req_entries_ok.
Qed.

(* ------------------------------------------------------------------ whole messages: head + body *)
Lemma rstep_run ops r : fold_left rstep ops emptyResp = r -> rrun ops = r. Proof. exact (fun H => H). Qed.

Section Messages.
  Variable StatusMessage : Z -> bytes.
  Hypothesis StatusMessage_nc : forall n, nc (StatusMessage n).

  Theorem ResponseWrite_one_message ops date skip body : Forall rop_pre ops -> nc date ->
    let '(r', out) := ResponseWrite StatusMessage date (rrun ops) skip body in
    let sent := if negb (skip || mustSkipContentLength (rrun ops)) then body else [] in
    out = render_head (resp_first StatusMessage r') (resp_entries date r') ++ sent /\
    peer_sees resp_auto (flat_map rop_keys ops) (resp_first StatusMessage r') sent (read_head out) /\
    (negb (skip || mustSkipContentLength (rrun ops)) = true ->
       In (strContentLength, dec_digits (Z.of_nat (length body))) (resp_entries date r')).
  Proof.
    intros Hp Hd. unfold ResponseWrite. cbv zeta.
    set (r := rrun ops). set (send := negb (skip || mustSkipContentLength r)).
    set (r' := if send || negb (beq body []) then RSetContentLength r (Z.of_nat (length body)) else r).
    pose proof (rrun_clean ops Hp) as Hc. pose proof (rrun_keys ops Hp) as Hk. fold r in Hc, Hk.
    assert (Hc' : resp_clean r') by (subst r'; destruct (send || negb (beq body [])); [now apply RSetContentLength_clean|exact Hc]).
    assert (Hk' : keys_ok (flat_map rop_keys ops) (hh (rh r'))).
    { subst r'. destruct (send || negb (beq body [])); [|exact Hk].
      pose proof (rstep_keys (flat_map rop_keys ops) r (ROSetContentLength (Z.of_nat (length body))) Hk I) as K.
      cbn [rstep rop_keys] in K. now rewrite app_nil_r in K. }
    split; [now rewrite RespAppendBytes_shape|]. split.
    - rewrite RespAppendBytes_shape. apply peer_sees_render.
      + intros n Hn. apply cut_colon_const. apply in_or_app. now left.
      + cbn; tauto.
      + now apply resp_first_clean.
      + now apply resp_entries_clean.
      + now apply resp_entries_ok.
    - intros Hs. subst r'. rewrite Hs. cbn [orb]. unfold RSetContentLength.
      assert (Hm : mustSkipContentLength r = false). { subst send. apply negb_true_iff, orb_false_iff in Hs. tauto. }
      rewrite Hm. assert (E0 : (0 <=? Z.of_nat (length body))%Z = true) by lia. rewrite E0.
      unfold resp_entries. cbv zeta. cbn [rh with_rh]. hc.
      apply in_or_app; right. apply in_or_app; right. apply in_or_app; right. apply in_or_app; right. apply in_or_app; left.
      unfold opt_line. destruct (dec_digits_spec (Z.of_nat (length body)) ltac:(lia)) as (_ & Hne & _).
      destruct (dec_digits (Z.of_nat (length body))); [congruence|]. now left.
  Qed.
End Messages.

Lemma QSet_run_clean q k v : req_clean q -> req_clean (QSet q k v). Proof. apply QSet_clean. Qed.

Theorem RequestWrite_one_message ops parsed useHost uh uu user pass body q' out : Forall qop_pre ops ->
  RequestWrite (qrun ops) parsed useHost uh uu user pass body = Some (q', out) ->
  exists sent', (sent' = body \/ sent' = []) /\
  out = render_head (req_first q') (req_entries q') ++ sent' /\
  peer_sees req_auto (strAuthorization :: flat_map qop_keys ops) (req_first q') sent' (read_head out).
Proof.
  intros Hp. unfold RequestWrite. set (q := qrun ops).
  pose proof (qrun_clean ops Hp) as Hc. pose proof (qrun_keys ops Hp) as Hk. fold q in Hc, Hk.
  set (asked := strAuthorization :: flat_map qop_keys ops).
  assert (Hk0 : keys_ok asked (hh (qh q))).
  { change asked with ([strAuthorization] ++ flat_map qop_keys ops). unfold keys_ok in *. eapply Forall_impl; [|exact Hk]. intros kv. apply key_from_mono_r. }
  (* every intermediate request state is clean and its keys accounted for *)
  assert (Good : forall qq, req_clean qq -> keys_ok asked (hh (qh qq)) -> forall sent', 
     peer_sees req_auto asked (req_first qq) sent' (read_head (ReqAppendBytes [] qq ++ sent'))).
  { intros qq C K sent'. rewrite ReqAppendBytes_shape. apply peer_sees_render.
    - intros n Hn. apply cut_colon_const. apply in_or_app. now right.
    - cbn; tauto.
    - now apply req_first_clean. - now apply req_entries_clean. - now apply req_entries_ok. }
  assert (HostStep : forall qq b, req_clean qq -> keys_ok asked (hh (qh qq)) ->
     req_clean (QSetHostBytes qq b) /\ keys_ok asked (hh (qh (QSetHostBytes qq b)))).
  { intros qq b C K. split; [|exact K]. exact (qstep_clean qq (QOSetHost b) C I). }
  assert (UriStep : forall qq b, req_clean qq -> keys_ok asked (hh (qh qq)) ->
     req_clean (QSetRequestURIBytes qq b) /\ keys_ok asked (hh (qh (QSetRequestURIBytes qq b)))).
  { intros qq b C K. split; [|exact K]. exact (qstep_clean qq (QOSetRequestURI b) C I). }
  assert (AuthStep : forall qq v, req_clean qq -> keys_ok asked (hh (qh qq)) ->
     req_clean (QSet qq strAuthorization v) /\ keys_ok asked (hh (qh (QSet qq strAuthorization v)))).
  { intros qq v C K. split; [now apply QSet_clean|]. apply QSet_keys; [exact K|now left]. }
  assert (ClStep : forall qq n, req_clean qq -> keys_ok asked (hh (qh qq)) ->
     req_clean (QSetContentLength qq n) /\ keys_ok asked (hh (qh (QSetContentLength qq n)))).
  { intros qq n C K. split; [now apply QSetContentLength_clean|now apply QSetContentLength_keys]. }
  assert (Fin : forall qq, req_clean qq -> keys_ok asked (hh (qh qq)) ->
     (let hasBody := negb (beq body []) || negb (ignoreBody qq) in
      let q2 := if hasBody then QSetContentLength qq (Z.of_nat (length body)) else qq in
      Some (q2, ReqAppendBytes [] q2 ++ (if hasBody then body else []))) = Some (q', out) ->
     exists sent', (sent' = body \/ sent' = []) /\ out = render_head (req_first q') (req_entries q') ++ sent' /\
       peer_sees req_auto asked (req_first q') sent' (read_head out)).
  { intros qq C K E. cbv zeta in E. inversion E; subst; clear E.
    destruct (negb (beq body []) || negb (ignoreBody qq)).
    - destruct (ClStep qq (Z.of_nat (length body)) C K) as [C2 K2]. exists body. split; [now left|]. split; [now rewrite ReqAppendBytes_shape|]. now apply Good.
    - exists []. split; [now right|]. split; [now rewrite ReqAppendBytes_shape|]. now apply Good. }
  intros E.
  destruct (beq (QHost q) [] || parsed).
  - destruct (beq (QHost q) []).
    + destruct (beq uh []); [discriminate|].
      destruct (HostStep q uh Hc Hk0) as [C1 K1]. destruct (UriStep _ uu C1 K1) as [C2 K2].
      destruct user as [|u0 user0]; [now apply (Fin _ C2 K2)|].
      destruct (AuthStep _ (strBasicSpace ++ b64encode ((u0 :: user0) ++ strColon ++ pass)) C2 K2) as [C3 K3]. now apply (Fin _ C3 K3).
    + destruct (negb useHost).
      * destruct (HostStep q uh Hc Hk0) as [C1 K1]. destruct (UriStep _ uu C1 K1) as [C2 K2].
        destruct user as [|u0 user0]; [now apply (Fin _ C2 K2)|].
        destruct (AuthStep _ (strBasicSpace ++ b64encode ((u0 :: user0) ++ strColon ++ pass)) C2 K2) as [C3 K3]. now apply (Fin _ C3 K3).
      * destruct (UriStep _ uu Hc Hk0) as [C2 K2].
        destruct user as [|u0 user0]; [now apply (Fin _ C2 K2)|].
        destruct (AuthStep _ (strBasicSpace ++ b64encode ((u0 :: user0) ++ strColon ++ pass)) C2 K2) as [C3 K3]. now apply (Fin _ C3 K3).
  - now apply (Fin _ Hc Hk0).
Qed.

(* ------------------------------------------------------------------ the proxy CONNECT request *)
Lemma containsCRLF_nc s : containsCRLF s = false <-> nc s.
Proof.
  unfold containsCRLF, nc, no_crlf, is_crlf. induction s as [|c s IH]; cbn [existsb forallb]; [tauto|].
  rewrite orb_false_iff, andb_true_iff, negb_true_iff, IH. tauto.
Qed.

Theorem connect_one_message addr auth body : nc auth ->
  match connectRequest addr auth with
  | None => nc addr -> False                          (* refused exactly when the target carries CR or LF *)
  | Some out =>
      nc addr /\
      exists fs, read_head (out ++ body) = Some (Head (s2b "CONNECT " ++ addr ++ s2b " HTTP/1.1") fs body) /\
        map fst fs = s2b "Host" :: (match auth with [] => [] | _ => [s2b "Proxy-Authorization"] end) /\
        Forall (fun nv => nc (fst nv) /\ nc (snd nv)) fs
  end.
Proof.
  intros Ha. unfold connectRequest. destruct (containsCRLF addr) eqn:E.
  - intros Hn. apply containsCRLF_nc in Hn. congruence.
  - apply containsCRLF_nc in E. split; [exact E|].
    set (first := s2b "CONNECT " ++ addr ++ s2b " HTTP/1.1").
    set (es := (s2b "Host", addr) :: match auth with [] => [] | _ => [(s2b "Proxy-Authorization", s2b "Basic " ++ auth)] end).
    assert (Hout : (match auth with [] => s2b "CONNECT " ++ addr ++ s2b " HTTP/1.1" ++ [13; 10] ++ s2b "Host: " ++ addr ++ [13; 10]
              | _ :: _ => (s2b "CONNECT " ++ addr ++ s2b " HTTP/1.1" ++ [13; 10] ++ s2b "Host: " ++ addr ++ [13; 10]) ++
                          s2b "Proxy-Authorization: Basic " ++ auth ++ [13; 10] end) ++ [13; 10] = render_head first es).
    { subst first es. unfold render_head. destruct auth; cbn [render_lines s2b N_of_ascii N_of_digits]; repeat (progress (rewrite <- ?app_assoc; cbn [app])); reflexivity. }
    rewrite Hout.
    assert (Hf : nc first). { subst first. apply nc_app. split; [reflexivity|]. apply nc_app. split; [exact E|reflexivity]. }
    assert (Hes : es_clean es).
    { subst es. constructor; [split; [reflexivity|exact E]|]. destruct auth; constructor; [|constructor].
      split; [reflexivity|]. apply nc_app. split; [reflexivity|exact Ha]. }
    rewrite read_head_render by assumption.
    pose proof (es_fields_spec es Hes) as S. destruct (es_fields es) as [fs|].
    + destruct S as (S1 & S2 & _). exists fs. split; [reflexivity|]. split; [|exact S2]. rewrite S1. subst es. destruct auth; reflexivity.
    + exfalso. subst es. apply Exists_cons in S as [S|S]; [discriminate|]. destruct auth; [inversion S|]. apply Exists_cons in S as [S|S]; [discriminate|inversion S].
Qed.
