From FH Require Import Model.Base Gen.GenC30 Model.Ints Spec.IntsSpec Proof.IntsProof Model.DateIP Spec.IPv4Spec.
From Coq Require Import Lia ZifyBool ZifyN ZifyNat.
Open Scope Z_scope.

Definition dfold := fold_left (fun a c => 10 * a + (Z.of_N c - 48)).

Lemma octet_loop_spec r : wf_bytes r -> forall v, 0 <= v <= 255 ->
  octet_loop r v = if all_digits r && (dfold r v <=? 255) then OctOk (dfold r v) else OctErr.
Proof.
  induction 1 as [|c r Hc Hr IH]; intros v Hv.
  - cbn. destruct (Z.leb_spec v 255); [reflexivity|lia].
  - cbn [octet_loop all_digits forallb]. unfold dfold. cbn [fold_left]. fold dfold.
    rewrite bsub48_digit by exact Hc.
    destruct (is_digit c) eqn:Hd; cbn [negb andb]; [|reflexivity].
    rewrite (bsub48_val c Hd). set (k := Z.of_N c - 48).
    assert (Hk : 0 <= k <= 9) by (unfold is_digit in Hd; lia).
    destruct ((v >? 25) || ((v =? 25) && (k >? 5))) eqn:G.
    + assert (10 * v + k > 255) by lia.
      destruct (forallb is_digit r) eqn:Hr2; cbn [andb]; [|reflexivity].
      pose proof (fold_dec_ge (10 * v + k) r Hr2 ltac:(lia)) as Hge. fold dfold in Hge. fold k in Hge.
      destruct (Z.leb_spec (dfold r (10 * v + k)) 255); [lia|reflexivity].
    + replace (v * 10 + k) with (10 * v + k) by lia. rewrite IH by lia. reflexivity.
Qed.

Lemma octet_spec f : wf_bytes f ->
  parseIPv4Octet f = if field_ok f then OctOk (dec_value f) else OctErr.
Proof.
  intros Hwf. destruct f as [|c r]; [reflexivity|]. unfold parseIPv4Octet, field_ok.
  rewrite octet_loop_spec by (assumption || lia). reflexivity.
Qed.

Lemma index_split b : forall n, index_byte b 46 = Some n ->
  split_on 46 b = firstn n b :: split_on 46 (skipn (S n) b).
Proof.
  induction b as [|x r IH]; intros n; cbn [index_byte split_on]; [discriminate|].
  destruct (N.eqb_spec x 46) as [->|Hne].
  - intros [= <-]. reflexivity.
  - destruct (index_byte r 46) as [m|] eqn:E; cbn [option_map]; [|discriminate].
    intros [= <-]. rewrite (IH m eq_refl). reflexivity.
Qed.
Lemma noindex_split b : index_byte b 46 = None -> split_on 46 b = [b].
Proof.
  induction b as [|x r IH]; cbn [index_byte split_on]; [reflexivity|].
  destruct (N.eqb_spec x 46); [discriminate|].
  destruct (index_byte r 46); cbn [option_map]; [discriminate|]. intros _. now rewrite IH.
Qed.
Lemma split_nonempty c s : split_on c s <> [].
Proof. destruct s as [|x r]; cbn; [discriminate|]. destruct (x =? c)%N; [discriminate|]. destruct (split_on c r); discriminate. Qed.
(* a field that still contains a dot is never a valid field *)
Lemma dot_not_ok b n : index_byte b 46 = Some n -> field_ok b = false.
Proof.
  intros H. assert (Hin : all_digits b = false).
  { revert n H. induction b as [|x r IH]; intros n; cbn [index_byte]; [discriminate|].
    destruct (N.eqb_spec x 46) as [->|].
    - intros _. reflexivity.
    - destruct (index_byte r 46) eqn:E; cbn [option_map]; [|discriminate]. intros _.
      unfold all_digits in *. cbn [forallb]. rewrite (IH _ eq_refl). apply andb_false_r. }
  unfold field_ok. destruct b; [reflexivity|]. now rewrite Hin.
Qed.
Lemma In_firstn {A} n (l : list A) x : In x (firstn n l) -> In x l.
Proof. revert l; induction n; intros l; cbn; [tauto|]. destruct l; cbn; [auto|]. intros [H|H]; auto. Qed.
Lemma wf_firstn n (b : bytes) : wf_bytes b -> wf_bytes (firstn n b).
Proof. unfold wf_bytes. intros H. apply Forall_forall. intros x Hx. rewrite Forall_forall in H. apply H. eapply In_firstn; eauto. Qed.
Lemma In_skipn {A} n (l : list A) x : In x (skipn n l) -> In x l.
Proof. revert l; induction n; intros l; [auto|]. destruct l; cbn; [auto|]. intros H; right; auto. Qed.
Lemma wf_skipn n (b : bytes) : wf_bytes b -> wf_bytes (skipn n b).
Proof. unfold wf_bytes. intros H. apply Forall_forall. intros x Hx. rewrite Forall_forall in H. apply H. eapply In_skipn; eauto. Qed.

(* general statement: k dots then a last field *)
Definition fields_spec (fs : list bytes) : option (list Z) :=
  if forallb field_ok fs then Some (map dec_value fs) else None.

Lemma ipv4_fields_spec k : forall b, wf_bytes b ->
  ipv4_fields k b = if (length (split_on 46 b) =? S k)%nat then fields_spec (split_on 46 b) else None.
Proof.
  induction k as [|k IH]; intros b Hwf; cbn [ipv4_fields].
  - rewrite octet_spec by exact Hwf.
    destruct (index_byte b 46) as [n|] eqn:E.
    + rewrite (dot_not_ok b n E). rewrite (index_split b n E). cbn [length].
      pose proof (split_nonempty 46 (skipn (S n) b)). destruct (split_on 46 (skipn (S n) b)); [congruence|reflexivity].
    + rewrite (noindex_split b E). cbn [length Nat.eqb]. unfold fields_spec. cbn [forallb map].
      destruct (field_ok b); reflexivity.
  - destruct (index_byte b 46) as [n|] eqn:E.
    + rewrite (index_split b n E). cbn [length]. rewrite octet_spec by (apply wf_firstn; exact Hwf).
      rewrite IH by (apply wf_skipn; exact Hwf). unfold fields_spec. cbn [forallb map].
      change (S (length (split_on 46 (skipn (S n) b))) =? S (S k))%nat with (length (split_on 46 (skipn (S n) b)) =? S k)%nat.
      destruct (field_ok (firstn n b)); cbn [andb].
      * destruct (length (split_on 46 (skipn (S n) b)) =? S k)%nat; [|reflexivity].
        destruct (forallb field_ok (split_on 46 (skipn (S n) b))); reflexivity.
      * destruct (length (split_on 46 (skipn (S n) b)) =? S k)%nat; reflexivity.
    + rewrite (noindex_split b E). reflexivity.
Qed.

Theorem ipv4_exact s : wf_bytes s -> ParseIPv4 s = spec_parse_ipv4 s.
Proof.
  intros Hwf. unfold ParseIPv4, spec_parse_ipv4. destruct s as [|c r]; [reflexivity|].
  rewrite ipv4_fields_spec by exact Hwf. unfold fields_spec.
  destruct (split_on 46 (c :: r)) as [|a [|b [|c' [|d [|e l]]]]]; cbn [length Nat.eqb forallb map]; try reflexivity.
  rewrite andb_true_r, !andb_assoc. reflexivity.
Qed.

(* AppendIPv4 output parses back to the same address *)
Lemma split_digits_dot d rest : all_digits d = true -> split_on 46 (d ++ 46%N :: rest) = d :: split_on 46 rest.
Proof.
  induction d as [|x r IH]; intros H; cbn [app split_on]; [reflexivity|].
  unfold all_digits in H. cbn [forallb] in H. apply andb_true_iff in H as [Hx Hr].
  destruct (N.eqb_spec x 46) as [->|]; [discriminate|]. rewrite (IH Hr). reflexivity.
Qed.
Lemma split_digits_end d : all_digits d = true -> split_on 46 d = [d].
Proof.
  induction d as [|x r IH]; intros H; cbn [split_on]; [reflexivity|].
  unfold all_digits in H. cbn [forallb] in H. apply andb_true_iff in H as [Hx Hr].
  destruct (N.eqb_spec x 46) as [->|]; [discriminate|]. rewrite (IH Hr). reflexivity.
Qed.
Lemma field_ok_dec v : 0 <= v <= 255 -> field_ok (dec_digits v) = true /\ dec_value (dec_digits v) = v /\ all_digits (dec_digits v) = true.
Proof.
  intros Hv. destruct (dec_digits_spec v ltac:(lia)) as (Hd & Hne & Hval). repeat split; try assumption.
  unfold field_ok. destruct (dec_digits v); [congruence|]. rewrite Hd, Hval. lia.
Qed.

Theorem ipv4_roundtrip a b c d : 0 <= a <= 255 -> 0 <= b <= 255 -> 0 <= c <= 255 -> 0 <= d <= 255 ->
  spec_parse_ipv4 (AppendIPv4 [a; b; c; d]) = Some [a; b; c; d] /\ wf_bytes (AppendIPv4 [a; b; c; d]).
Proof.
  intros Ha Hb Hc Hd.
  destruct (field_ok_dec a Ha) as (Fa & Va & Da). destruct (field_ok_dec b Hb) as (Fb & Vb & Db).
  destruct (field_ok_dec c Hc) as (Fc & Vc & Dc). destruct (field_ok_dec d Hd) as (Fd & Vd & Dd).
  unfold AppendIPv4, spec_parse_ipv4. cbn [app]. split.
  - rewrite (split_digits_dot _ _ Da), (split_digits_dot _ _ Db), (split_digits_dot _ _ Dc), (split_digits_end _ Dd).
    rewrite Fa, Fb, Fc, Fd, Va, Vb, Vc, Vd. reflexivity.
  - unfold wf_bytes. repeat first [ apply all_digits_wf; assumption | apply Forall_app; split | apply Forall_cons; [cbv; reflexivity|] | apply Forall_nil ].
Qed.
