(* IPv6Proof.v — validateIPv6Literal (ipv6.go) against Spec/IPv6Text.v, for all byte strings.
   Main results: hextets_exact (parseIPv6Hextets = groups on both sides of the first "::"), validIPv4_spec (= dotted quad without
   leading zeros), v6_addr_spec, v6_bracket ("[" a "]" port accepted <-> optional port and IPv6 text, zones included),
   ipv6_only_valid(_gen), ipv6_all_zoneless_accepted(_gen), hextets_total (the fuel of the model never runs out). *)
From FH Require Import Model.Base Gen.GenC31 Model.IPv6 Spec.IntsSpec Spec.IPv4Spec Spec.IPv6Text Proof.IntsProof.
From Coq Require Import Lia ZifyBool ZifyN ZifyNat.
Open Scope Z_scope.

(* ---------- bytes ---------- *)
Lemma wf_cons c s : wf_bytes (c :: s) <-> (c < 256)%N /\ wf_bytes s.
Proof. unfold wf_bytes. split; [intros H; inversion H; auto | intros [H1 H2]; constructor; auto]. Qed.
Lemma wf_app a b : wf_bytes (a ++ b) <-> wf_bytes a /\ wf_bytes b.
Proof. unfold wf_bytes. apply Forall_app. Qed.

Lemma ishex_ok : forall c, (c < 256)%N -> ishex c = is_hexdig c.
Proof.
  assert (H : forallb (fun c => Bool.eqb (ishex c) (is_hexdig c)) (map N.of_nat (seq 0 256)) = true) by (vm_compute; reflexivity).
  rewrite forallb_forall in H. intros c Hc. apply Bool.eqb_prop, H.
  apply in_map_iff. exists (N.to_nat c). split; [lia|]. apply in_seq. lia.
Qed.
Lemma colon_not_hex : is_hexdig 58 = false. Proof. reflexivity. Qed.

(* longest colon-free prefix and the rest *)
Fixpoint span_nc (s : bytes) : bytes * bytes :=
  match s with
  | [] => ([], [])
  | c :: r => if (c =? 58)%N then ([], s) else let (f, t) := span_nc r in (c :: f, t)
  end.
Definition nocolon (f : bytes) : Prop := Forall (fun c => c <> 58%N) f.
Definition colon_led (s : bytes) : Prop := s = [] \/ exists r, s = 58%N :: r.

Lemma span_nc_spec s : let (f, t) := span_nc s in s = f ++ t /\ nocolon f /\ colon_led t.
Proof.
  induction s as [|c r IH]; cbn [span_nc].
  - repeat split; [constructor | left; reflexivity].
  - destruct (N.eqb_spec c 58) as [->|Hne].
    + repeat split; [constructor | right; eauto].
    + destruct (span_nc r) as [f t]. destruct IH as (E & Hf & Ht). subst r. repeat split; [constructor; assumption | assumption].
Qed.
Lemma span_nc_app f t : nocolon f -> colon_led t -> span_nc (f ++ t) = (f, t).
Proof.
  intros Hf Ht. induction Hf as [|c f Hc Hf IH]; cbn [app span_nc].
  - destruct Ht as [->|[r ->]]; [reflexivity|]. cbn. reflexivity.
  - destruct (N.eqb_spec c 58); [contradiction|]. rewrite IH. reflexivity.
Qed.

Lemma split_span s : split_on 58 s = let (f, t) := span_nc s in match t with [] => [f] | _ :: b => f :: split_on 58 b end.
Proof.
  induction s as [|c r IH]; cbn [split_on span_nc]; [reflexivity|].
  destruct (N.eqb_spec c 58) as [->|Hne]; [reflexivity|].
  rewrite IH. destruct (span_nc r) as [f t]. destruct t; reflexivity.
Qed.
Lemma split_nonnil c s : split_on c s <> [].
Proof. destruct s as [|x r]; cbn; [discriminate|]. destruct (x =? c)%N; [discriminate|]. destruct (split_on c r); discriminate. Qed.

(* ---------- hexrun ---------- *)
Lemma hexrun_spec room : forall s, exists pre t, hexrun room s = (Z.of_nat (length pre), t) /\ s = pre ++ t /\ forallb ishex pre = true /\ (length pre <= room)%nat
   /\ (length pre = room \/ t = [] \/ exists d r, t = d :: r /\ ishex d = false).
Proof.
  induction room as [|room IH]; intros s; cbn [hexrun].
  - exists [], s. repeat split; auto.
  - destruct s as [|c r].
    + exists [], []. repeat split; auto. cbn; lia.
    + destruct (ishex c) eqn:Hc.
      * destruct (IH r) as (pre & t & E & Es & Hp & Hl & Hend). rewrite E. exists (c :: pre), t.
        repeat split.
        -- cbv beta iota. f_equal. cbn [length]. lia.
        -- cbn. now rewrite Es.
        -- cbn. now rewrite Hc, Hp.
        -- cbn [length]. lia.
        -- destruct Hend as [H|[H|H]]; [left; cbn [length]; lia | right; left; assumption | right; right; assumption].
      * exists [], (c :: r). repeat split; auto. { cbn. lia. } right; right. eauto.
Qed.

Lemma hexgroup_alt f : hexgroup f = ((1 <=? Z.of_nat (length f)) && (Z.of_nat (length f) <=? 4) && forallb is_hexdig f).
Proof. reflexivity. Qed.

Lemma forallb_ishex f : wf_bytes f -> forallb ishex f = forallb is_hexdig f.
Proof. induction 1 as [|c f Hc Hf IH]; cbn; [reflexivity|]. now rewrite ishex_ok, IH. Qed.
Lemma hex_nocolon f : forallb is_hexdig f = true -> nocolon f.
Proof.
  induction f as [|c f IH]; cbn; intros H; [constructor|]. apply andb_true_iff in H as [H1 H2].
  constructor; [|apply IH; exact H2]. intros ->. vm_compute in H1. discriminate.
Qed.

Definition HL := hextets_loop.

(* one group: state at a non-colon byte *)
Lemma group_step fuel atc s first g seen just c r :
  wf_bytes s -> s = c :: r -> c <> 58%N ->
  HL (S fuel) atc s first g seen just =
    let (f, t) := span_nc s in if hexgroup f then HL fuel atc t false (g + 1) seen false else HexFail.
Proof.
  intros Hwf Es Hc. pose proof (span_nc_spec s) as Hsp. destruct (span_nc s) as [f t]. destruct Hsp as (Eft & Hf & Ht).
  unfold HL. rewrite Es. cbn [hextets_loop]. unfold COLON. destruct (N.eqb_spec c 58); [contradiction|]. rewrite <- Es.
  destruct (hexrun_spec 4 s) as (pre & t' & E & Es' & Hp & Hl & Hend). rewrite E.
  assert (Hwp : wf_bytes pre) by (rewrite Es' in Hwf; apply wf_app in Hwf; tauto).
  rewrite forallb_ishex in Hp by exact Hwp.
  (* does the run stop at a colon or the end? *)
  assert (Hcase : colon_led t' \/ exists d r', t' = d :: r' /\ d <> 58%N).
  { destruct t' as [|d r']; [left; left; reflexivity|]. destruct (N.eq_dec d 58) as [->|]; [left; right; eauto | right; eauto]. }
  destruct Hcase as [Hled | (d & r' & -> & Hd)].
  - (* pre = f *)
    assert (Efp : (f, t) = (pre, t')).
    { pose proof (span_nc_app pre t' (hex_nocolon _ Hp) Hled) as H1. rewrite <- Es' in H1.
      pose proof (span_nc_app f t Hf Ht) as H2. rewrite <- Eft in H2. transitivity (span_nc s); [symmetry; exact H2 | exact H1]. }
    injection Efp as -> ->. unfold hexgroup. rewrite Hp, andb_true_r.
    destruct pre as [|p0 pre'].
    + cbn. reflexivity.
    + replace ((Z.of_nat (length (p0 :: pre')) =? 0)) with false by (cbn [length]; lia).
      replace ((1 <=? Z.of_nat (length (p0 :: pre'))) && (Z.of_nat (length (p0 :: pre')) <=? 4)) with true by (cbn [length] in *; lia).
      destruct Hled as [->|[r0 ->]]; [reflexivity|]. cbn. reflexivity.
  - (* the run is followed by a byte that is neither hex-continuable nor ':' : fail *)
    assert (Hng : hexgroup f = false).
    { destruct (hexgroup f) eqn:Hg; [|reflexivity]. exfalso. unfold hexgroup in Hg. apply andb_true_iff in Hg as [Hg Hh]. apply andb_true_iff in Hg as [Hg1 Hg2].
      (* f all hex, length <= 4; s = f ++ t = pre ++ d :: r' *)
      assert (Hpre : forall (b a : bytes) x d0 r0, a ++ x = b ++ d0 :: r0 -> nocolon a -> colon_led x -> d0 <> 58%N -> forallb is_hexdig b = true ->
                 exists m, a = b ++ d0 :: m).
      { clear. induction b as [|b0 b IH]; intros a x d0 r0 E Ha Hx Hd Hb.
        - cbn in E. destruct a as [|a0 a].
          + cbn in E. destruct Hx as [->|[r ->]]; [discriminate|]. injection E as E1 E2. congruence.
          + cbn in E. injection E as E1 E2. subst a0. exists a. reflexivity.
        - cbn in Hb. apply andb_true_iff in Hb as [Hb0 Hb]. destruct a as [|a0 a].
          + cbn in E. destruct Hx as [->|[r ->]]; [discriminate|]. injection E as E1 E2. subst b0. discriminate.
          + cbn in E. injection E as E1 E2. subst a0. inversion Ha; subst. destruct (IH a x d0 r0 E2) as [m ->]; auto. exists m. reflexivity. }
      destruct (Hpre pre f t d r') as [m Em]; auto.
      { rewrite <- Eft, <- Es'. reflexivity. }
      subst f. rewrite forallb_app in Hh. apply andb_true_iff in Hh as [_ Hh]. cbn in Hh. apply andb_true_iff in Hh as [Hdh _].
      rewrite app_length in Hg2. cbn [length] in Hg2.
      destruct Hend as [H|[H|(d0 & r0 & H & Hnh)]]; [lia | discriminate |].
      injection H as <- <-. rewrite ishex_ok in Hnh; [congruence|].
      rewrite Es' in Hwf. apply wf_app in Hwf as [_ Hwf]. apply wf_cons in Hwf. tauto. }
    rewrite Hng. destruct (Z.of_nat (length pre) =? 0); [reflexivity|]. cbn. destruct (N.eqb_spec d 58); [contradiction|reflexivity].
Qed.
Definition lastw (v4 : bool) (f : bytes) : option Z :=
  if hexgroup f then Some 1 else if v4 && dotted_quad f then Some 2 else None.
Definition omap1 (o : option Z) : option Z := match o with Some n => Some (1 + n) | None => None end.
(* group count of a colon-led rest ":g:g:g" (or nothing) *)
Definition CL (v4 : bool) (s : bytes) : option Z :=
  match s with [] => Some 0 | _ :: body => count_fields v4 (split_on 58 body) end.

Lemma count_cons v4 f y ys : count_fields v4 (f :: y :: ys) = if hexgroup f then omap1 (count_fields v4 (y :: ys)) else None.
Proof. reflexivity. Qed.
Lemma count_one v4 f : count_fields v4 [f] = lastw v4 f.
Proof. reflexivity. Qed.

Lemma count_step v4 body : count_fields v4 (split_on 58 body) =
  let (f, t) := span_nc body in
  match t with [] => lastw v4 f | _ :: _ => if hexgroup f then omap1 (CL v4 t) else None end.
Proof.
  rewrite split_span. destruct (span_nc body) as [f t]. destruct t as [|t0 b]; [reflexivity|].
  cbn [CL]. pose proof (split_nonnil 58 b) as Hn. destruct (split_on 58 b) as [|y ys]; [contradiction|]. apply count_cons.
Qed.

Lemma span_len s : let (f, t) := span_nc s in length s = (length f + length t)%nat.
Proof. pose proof (span_nc_spec s) as H. destruct (span_nc s) as [f t]. destruct H as (E & _). rewrite E at 1. apply app_length. Qed.
Lemma span_cons_nc c r : c <> 58%N -> span_nc (c :: r) = let (f, t) := span_nc r in (c :: f, t).
Proof. intros H. cbn [span_nc]. destruct (N.eqb_spec c 58); [contradiction|reflexivity]. Qed.
Lemma wf_span s : wf_bytes s -> let (f, t) := span_nc s in wf_bytes f /\ wf_bytes t.
Proof. intros H. pose proof (span_nc_spec s) as Hs. destruct (span_nc s) as [f t]. destruct Hs as (E & _). rewrite E in H. now apply wf_app in H. Qed.

Lemma lastw_nil v4 : lastw v4 [] = None.
Proof. destruct v4; reflexivity. Qed.
Lemma count_nilfield v4 fs : count_fields v4 ([] :: fs) = None.
Proof. destruct fs; [apply lastw_nil|reflexivity]. Qed.
Lemma split_colon b : split_on 58 (58%N :: b) = [] :: split_on 58 b.
Proof. reflexivity. Qed.

Lemma HL_S fuel atc s first g seen just : HL (S fuel) atc s first g seen just =
      match s with
      | [] => HexOk g seen
      | c :: r =>
          if (c =? 58)%N then
            match r with
            | c1 :: r' =>
                if (c1 =? 58)%N then
                  if seen || just then HexFail
                  else HL fuel atc r' false g true true
                else
                  if first then HexFail
                  else if just then HexFail
                  else if negb (ishex c1) then HexFail
                  else HL fuel atc r false g seen just
            | [] =>
                if first then HexFail
                else if just then HexFail
                else if atc then HexOk g seen
                else HexFail
            end
          else
            let (cnt, rest) := hexrun 4 s in
            if cnt =? 0 then HexFail
            else
              match rest with
              | d :: _ => if negb (d =? 58)%N then HexFail
                          else HL fuel atc rest false (g + 1) seen false
              | [] => HL fuel atc rest false (g + 1) seen false
              end
      end.
Proof. destruct s; reflexivity. Qed.

(* ":" followed by a non-colon byte c1 (state: not first, not just after "::") *)
Lemma colon_step fuel atc c1 r' g seen : wf_bytes (c1 :: r') -> c1 <> 58%N ->
  HL (S (S fuel)) atc (58%N :: c1 :: r') false g seen false =
    let (f, t) := span_nc (c1 :: r') in if hexgroup f then HL fuel atc t false (g + 1) seen false else HexFail.
Proof.
  intros Hwf Hc1. rewrite HL_S. cbn [N.eqb Pos.eqb].
  destruct (N.eqb_spec c1 58); [contradiction|].
  rewrite (group_step fuel atc (c1 :: r') false g seen false c1 r' Hwf eq_refl Hc1).
  destruct (ishex c1) eqn:Hh; cbn [negb]; [reflexivity|].
  rewrite span_cons_nc by exact Hc1. destruct (span_nc r') as [f t].
  apply wf_cons in Hwf as [Hlt _]. rewrite ishex_ok in Hh by exact Hlt.
  unfold hexgroup. cbn [forallb]. rewrite Hh. rewrite andb_false_r. reflexivity.
Qed.

Lemma HexOk0 g b : HexOk (g + 0) b = HexOk g b. Proof. now rewrite Z.add_0_r. Qed.

(* state after a group, "::" already seen *)
Lemma L_seen n : forall fuel s g, (length s <= n)%nat -> (length s < fuel)%nat -> wf_bytes s -> colon_led s ->
  HL fuel false s false g true false = match CL false s with Some k => HexOk (g + k) true | None => HexFail end.
Proof.
  induction n as [|n IH]; intros fuel s g Hn Hfuel Hwf Hled.
  - destruct s; [|cbn in Hn; lia]. destruct fuel; [cbn in Hfuel; lia|]. cbn. now rewrite Z.add_0_r.
  - destruct Hled as [->|[body ->]].
    + destruct fuel; [cbn in Hfuel; lia|]. cbn. now rewrite Z.add_0_r.
    + destruct body as [|c1 r'].
      * destruct fuel; [cbn in Hfuel; lia|]. reflexivity.
      * destruct (N.eq_dec c1 58) as [->|Hc1].
        -- destruct fuel; [cbn in Hfuel; lia|]. cbn [CL]. rewrite split_colon, count_nilfield. reflexivity.
        -- destruct fuel as [|[|fuel]]; [cbn in Hfuel; lia | cbn in Hfuel; lia |].
           apply wf_cons in Hwf as [_ Hwf].
           rewrite colon_step by assumption. cbn [CL]. rewrite count_step.
           pose proof (span_len (c1 :: r')) as Hl. pose proof (span_nc_spec (c1 :: r')) as Hs. pose proof (wf_span _ Hwf) as Hw.
           rewrite span_cons_nc in * by exact Hc1. destruct (span_nc r') as [f t]. destruct Hs as (_ & _ & Ht). destruct Hw as [_ Hwt].
           cbn [length] in *.
           destruct (hexgroup (c1 :: f)) eqn:Hg.
           ++ rewrite IH by (assumption || lia). destruct t as [|t0 b].
              ** unfold lastw. rewrite Hg. cbn [CL]. f_equal; lia.
              ** destruct (CL false (t0 :: b)); cbn [omap1]; [f_equal; lia | reflexivity].
           ++ destruct t; [unfold lastw; rewrite Hg|]; reflexivity.
Qed.

(* state just after "::" *)
Lemma L_just fuel s g : (length s < fuel)%nat -> wf_bytes s ->
  HL fuel false s false g true true = match side false s with Some k => HexOk (g + k) true | None => HexFail end.
Proof.
  intros Hfuel Hwf. destruct s as [|c r].
  - destruct fuel; [cbn in Hfuel; lia|]. cbn. now rewrite Z.add_0_r.
  - destruct fuel; [cbn in Hfuel; lia|]. destruct (N.eq_dec c 58) as [->|Hc].
    + unfold side. rewrite split_colon, count_nilfield. rewrite HL_S. cbn [N.eqb Pos.eqb].
      destruct r as [|c1 r']; [reflexivity|]. destruct (c1 =? 58)%N; reflexivity.
    + rewrite (group_step fuel false (c :: r) false g true true c r Hwf eq_refl Hc).
      unfold side. rewrite count_step.
      pose proof (span_len (c :: r)) as Hl. pose proof (span_nc_spec (c :: r)) as Hs. pose proof (wf_span _ Hwf) as Hw.
      rewrite span_cons_nc in * by exact Hc. destruct (span_nc r) as [f t]. destruct Hs as (_ & _ & Ht). destruct Hw as [_ Hwt].
      cbn [length] in *.
      destruct (hexgroup (c :: f)) eqn:Hg.
      * rewrite (L_seen (length t)) by (assumption || lia). destruct t as [|t0 b].
        -- unfold lastw. rewrite Hg. cbn [CL]. f_equal; lia.
        -- destruct (CL false (t0 :: b)); cbn [omap1]; [f_equal; lia | reflexivity].
      * destruct t; [unfold lastw; rewrite Hg|]; reflexivity.
Qed.

(* cut_dcolon facts *)
Lemma cut_cons_nc c t : c <> 58%N -> cut_dcolon (c :: t) = match cut_dcolon t with Some (l, r) => Some (c :: l, r) | None => None end.
Proof.
  intros Hc. cbn [cut_dcolon]. destruct t as [|d r]; [reflexivity|].
  destruct (N.eqb_spec c 58); [contradiction|]. reflexivity.
Qed.
Lemma cut_colon_nc c t : c <> 58%N -> cut_dcolon (58%N :: c :: t) = match cut_dcolon (c :: t) with Some (l, r) => Some (58%N :: l, r) | None => None end.
Proof.
  intros Hc. cbn [cut_dcolon]. destruct (N.eqb_spec c 58); [contradiction|]. cbn [N.eqb Pos.eqb andb]. reflexivity.
Qed.
Lemma cut_skip f : nocolon f -> forall t, colon_led t ->
  cut_dcolon (f ++ t) = match cut_dcolon t with Some (l, r) => Some (f ++ l, r) | None => None end.
Proof.
  induction 1 as [|c f Hc Hf IH]; intros t Ht.
  - cbn [app]. destruct (cut_dcolon t) as [[l r]|]; reflexivity.
  - cbn [app]. rewrite cut_cons_nc by exact Hc. rewrite IH by exact Ht. destruct (cut_dcolon t) as [[l r]|]; reflexivity.
Qed.
(* the left part of a cut of a colon-led string is colon-led *)
Lemma cut_led t l r : colon_led t -> cut_dcolon t = Some (l, r) -> colon_led l.
Proof.
  intros [->|[b ->]]; [discriminate|]. cbn [cut_dcolon]. destruct b as [|d r0]; [discriminate|].
  destruct ((58 =? 58)%N && (d =? 58)%N).
  - intros [= <- <-]. left; reflexivity.
  - destruct (cut_dcolon (d :: r0)) as [[l0 r1]|]; [|discriminate]. intros [= <- <-]. right; eauto.
Qed.

(* state after a group, no "::" so far *)
Lemma L_unseen n : forall fuel s g, (length s <= n)%nat -> (length s < fuel)%nat -> wf_bytes s -> colon_led s ->
  HL fuel false s false g false false =
    match cut_dcolon s with
    | None => match CL false s with Some k => HexOk (g + k) false | None => HexFail end
    | Some (l, r) => match CL false l, side false r with Some a, Some b => HexOk (g + a + b) true | _, _ => HexFail end
    end.
Proof.
  induction n as [|n IH]; intros fuel s g Hn Hfuel Hwf Hled.
  - destruct s; [|cbn in Hn; lia]. destruct fuel; [cbn in Hfuel; lia|]. cbn. now rewrite Z.add_0_r.
  - destruct Hled as [->|[body ->]].
    + destruct fuel; [cbn in Hfuel; lia|]. cbn. now rewrite Z.add_0_r.
    + destruct body as [|c1 r'].
      * destruct fuel; [cbn in Hfuel; lia|]. reflexivity.
      * destruct (N.eq_dec c1 58) as [->|Hc1].
        -- (* "::" *) destruct fuel; [cbn in Hfuel; lia|].
           change (cut_dcolon (58%N :: 58%N :: r')) with (Some (@nil N, r')). cbn [CL].
           rewrite HL_S. cbn [N.eqb Pos.eqb orb].
           apply wf_cons in Hwf as [_ Hwf]. apply wf_cons in Hwf as [_ Hwf].
           rewrite L_just by (assumption || cbn [length] in Hfuel; lia).
           destruct (side false r'); [f_equal; lia | reflexivity].
        -- destruct fuel as [|[|fuel]]; [cbn in Hfuel; lia | cbn in Hfuel; lia |].
           apply wf_cons in Hwf as [_ Hwf].
           rewrite colon_step by assumption. rewrite cut_colon_nc by exact Hc1.
           pose proof (span_len (c1 :: r')) as Hl. pose proof (span_nc_spec (c1 :: r')) as Hs. pose proof (wf_span _ Hwf) as Hw.
           pose proof (count_step false (c1 :: r')) as Hcs.
           rewrite span_cons_nc in * by exact Hc1. destruct (span_nc r') as [f t]. destruct Hs as (Es & Hf & Ht). destruct Hw as [_ Hwt].
           cbn [length] in *. rewrite Es. rewrite (cut_skip (c1 :: f) Hf t Ht).
           destruct (hexgroup (c1 :: f)) eqn:Hg.
           ++ rewrite IH by (assumption || lia).
              destruct (cut_dcolon t) as [[l r]|] eqn:Ecut.
              ** (* the cut lies in t *)
                 pose proof (cut_led t l r Ht Ecut) as Hll.
                 assert (Hcl : CL false (58%N :: (c1 :: f) ++ l) = omap1 (CL false l)).
                 { cbn [CL]. rewrite count_step. rewrite (span_nc_app (c1 :: f) l Hf Hll).
                   destruct l as [|l0 lb]; [unfold lastw; rewrite Hg; reflexivity | rewrite Hg; reflexivity]. }
                 rewrite Hcl. destruct (CL false l); cbn [omap1]; [|reflexivity].
                 destruct (side false r); [f_equal; lia|reflexivity].
              ** cbn [CL]. rewrite <- Es, Hcs. destruct t as [|t0 b].
                 --- unfold lastw. rewrite Hg. cbn [CL]. f_equal; lia.
                 --- destruct (CL false (t0 :: b)); cbn [omap1]; [f_equal; lia|reflexivity].
           ++ destruct (cut_dcolon t) as [[l r]|] eqn:Ecut.
              ** pose proof (cut_led t l r Ht Ecut) as Hll.
                 cbn [CL]. rewrite count_step. rewrite (span_nc_app (c1 :: f) l Hf Hll).
                 destruct l; [unfold lastw; rewrite Hg|rewrite Hg]; reflexivity.
              ** cbn [CL]. rewrite <- Es, Hcs. destruct t; [unfold lastw; rewrite Hg|]; reflexivity.
Qed.

(* ---------- parseIPv6Hextets, all inputs ---------- *)
Theorem hextets_exact s : wf_bytes s ->
  parseIPv6Hextets s false =
    match cut_dcolon s with
    | None => match side false s with Some k => HexOk k false | None => HexFail end
    | Some (l, r) => match side false l, side false r with Some a, Some b => HexOk (a + b) true | _, _ => HexFail end
    end.
Proof.
  intros Hwf. destruct s as [|c r]; [reflexivity|]. unfold parseIPv6Hextets. fold HL.
  destruct (N.eq_dec c 58) as [->|Hc].
  - destruct r as [|c1 r'].
    + reflexivity.
    + destruct (N.eq_dec c1 58) as [->|Hc1].
      * change (cut_dcolon (58%N :: 58%N :: r')) with (Some (@nil N, r')).
        cbn [length]. rewrite HL_S. cbn [N.eqb Pos.eqb orb].
        apply wf_cons in Hwf as [_ Hwf]. apply wf_cons in Hwf as [_ Hwf].
        rewrite L_just by (assumption || lia). cbn [side]. destruct (count_fields false (split_on 58 r')) eqn:E.
        -- change (side false r') with (match r' with [] => Some 0 | _ => count_fields false (split_on 58 r') end). 
           destruct r'; [reflexivity|]. rewrite E. reflexivity.
        -- destruct r'; [reflexivity|]. cbn [side]. rewrite E. reflexivity.
      * (* a single leading colon *)
        assert (Hfail : HL (S (length (58%N :: c1 :: r'))) false (58%N :: c1 :: r') true 0 false false = HexFail).
        { rewrite HL_S. cbn [N.eqb Pos.eqb]. destruct (N.eqb_spec c1 58); [contradiction|reflexivity]. }
        rewrite Hfail. rewrite cut_colon_nc by exact Hc1.
        destruct (cut_dcolon (c1 :: r')) as [[l r]|].
        -- unfold side at 1. rewrite split_colon, count_nilfield. reflexivity.
        -- unfold side. rewrite split_colon, count_nilfield. reflexivity.
  - cbn [length]. rewrite (group_step _ false (c :: r) true 0 false false c r Hwf eq_refl Hc).
    pose proof (span_len (c :: r)) as Hl. pose proof (span_nc_spec (c :: r)) as Hs. pose proof (wf_span _ Hwf) as Hw.
    pose proof (count_step false (c :: r)) as Hcs.
    rewrite span_cons_nc in * by exact Hc. destruct (span_nc r) as [f t]. destruct Hs as (Es & Hf & Ht). destruct Hw as [_ Hwt].
    cbn [length] in *. rewrite Es. rewrite (cut_skip (c :: f) Hf t Ht).
    destruct (hexgroup (c :: f)) eqn:Hg.
    + rewrite (L_unseen (length t)) by (assumption || lia).
      destruct (cut_dcolon t) as [[l r0]|] eqn:Ecut.
      * pose proof (cut_led t l r0 Ht Ecut) as Hll.
        assert (Hsl : side false ((c :: f) ++ l) = omap1 (CL false l)).
        { cbn [app side]. change (c :: f ++ l) with ((c :: f) ++ l). rewrite count_step. rewrite (span_nc_app (c :: f) l Hf Hll).
          destruct l as [|l0 lb]; [unfold lastw; rewrite Hg; reflexivity | rewrite Hg; reflexivity]. }
        rewrite Hsl. destruct (CL false l); cbn [omap1]; [|reflexivity].
        destruct (side false r0); [f_equal; lia|reflexivity].
      * rewrite <- Es. cbn [side]. rewrite Hcs. destruct t as [|t0 b].
        -- unfold lastw. rewrite Hg. cbn [CL]. f_equal; lia.
        -- destruct (CL false (t0 :: b)); cbn [omap1]; [f_equal; lia|reflexivity].
    + destruct (cut_dcolon t) as [[l r0]|] eqn:Ecut.
      * pose proof (cut_led t l r0 Ht Ecut) as Hll.
        cbn [app side]. change (c :: f ++ l) with ((c :: f) ++ l). rewrite count_step. rewrite (span_nc_app (c :: f) l Hf Hll).
        destruct l; [unfold lastw; rewrite Hg|rewrite Hg]; reflexivity.
      * rewrite <- Es. cbn [side]. rewrite Hcs. destruct t; [unfold lastw; rewrite Hg|]; reflexivity.
Qed.

(* ---------- validIPv4 = dotted quad of the specification ---------- *)
Definition dfold6 := fold_left (fun a c => 10 * a + (Z.of_N c - 48)).
Fixpoint span_dig (s : bytes) : bytes * bytes :=
  match s with
  | [] => ([], [])
  | c :: r => if is_digit c then let (d, t) := span_dig r in (c :: d, t) else ([], s)
  end.
Lemma span_dig_digits s : all_digits (fst (span_dig s)) = true.
Proof. induction s as [|c r IH]; cbn; [reflexivity|]. destruct (is_digit c) eqn:E; [|reflexivity]. destruct (span_dig r). cbn in *. now rewrite E. Qed.
Lemma isdig_alt c : ((c <? 48) || (57 <? c))%N = negb (is_digit c).
Proof. unfold is_digit. lia. Qed.

Lemma v4_digits_gen s : forall val dg, 0 <= val <= 255 -> 0 <= dg <= 3 ->
  v4_digits s val dg = let (d, rest) := span_dig s in
    if (dg + Z.of_nat (length d) <=? 3) && (dfold6 d val <=? 255) then Some (dg + Z.of_nat (length d), rest) else None.
Proof.
  induction s as [|c r IH]; intros val dg Hv Hd.
  - cbn. replace (dg + 0 <=? 3) with true by lia. replace (val <=? 255) with true by lia. cbn. now rewrite Z.add_0_r.
  - cbn [v4_digits span_dig]. rewrite isdig_alt. destruct (is_digit c) eqn:Hc; cbn [negb].
    + pose proof (span_dig_digits r) as Hdd. specialize (IH (val * 10 + (Z.of_N c - 48))). destruct (span_dig r) as [d t]. cbn [fst] in Hdd.
      cbn [length]. unfold dfold6. cbn [fold_left]. fold dfold6.
      assert (Hk : 0 <= Z.of_N c - 48 <= 9) by (unfold is_digit in Hc; lia).
      pose proof (fold_dec_ge (10 * val + (Z.of_N c - 48)) d Hdd ltac:(lia)) as Hge. fold dfold6 in Hge.
      destruct (Z.gtb_spec (val * 10 + (Z.of_N c - 48)) 255) as [Hgt|Hle].
      * replace (dfold6 d (10 * val + (Z.of_N c - 48)) <=? 255) with false by lia. now rewrite andb_false_r.
      * destruct (Z.gtb_spec (dg + 1) 3) as [Hgt|Hle2].
        -- replace (dg + Z.of_nat (S (length d)) <=? 3) with false by lia. reflexivity.
        -- rewrite IH by lia. replace (val * 10 + (Z.of_N c - 48)) with (10 * val + (Z.of_N c - 48)) by lia.
           replace (dg + 1 + Z.of_nat (length d)) with (dg + Z.of_nat (S (length d))) by lia. reflexivity.
    + cbn. replace (dg + 0 <=? 3) with true by lia. replace (val <=? 255) with true by lia. cbn. now rewrite Z.add_0_r.
Qed.

Lemma dfold6_dec d : dfold6 d 0 = dec_value d. Proof. reflexivity. Qed.

(* a decimal field without leading zero and value <= 255 has at most 3 digits *)
Lemma short_field d : all_digits d = true -> dec_value d <= 255 -> (match d with c :: _ :: _ => negb (c =? 48)%N | _ => true end) = true ->
  (length d <= 3)%nat.
Proof.
  intros Hd Hv Hz. destruct d as [|c1 [|c2 [|c3 [|c4 r]]]]; cbn [length]; try lia. exfalso.
  unfold all_digits in Hd. cbn [forallb] in Hd. apply andb_true_iff in Hd as [H1 Hd]. apply andb_true_iff in Hd as [H2 Hd].
  apply andb_true_iff in Hd as [H3 Hd]. apply andb_true_iff in Hd as [H4 Hd].
  unfold dec_value in Hv. cbn [fold_left] in Hv.
  unfold is_digit in *.
  pose proof (fold_dec_ge (10 * (10 * (10 * (10 * 0 + (Z.of_N c1 - 48)) + (Z.of_N c2 - 48)) + (Z.of_N c3 - 48)) + (Z.of_N c4 - 48)) r Hd ltac:(lia)) as Hge.
  lia.
Qed.

Lemma part_check s : match s with [] => True | c0 :: _ =>
  let (d, rest) := span_dig s in
  (if (0 + Z.of_nat (length d) <=? 3) && (dfold6 d 0 <=? 255)
   then (if (0 + Z.of_nat (length d)) =? 0 then false else if ((0 + Z.of_nat (length d)) >? 1) && (c0 =? 48)%N then false else true)
   else false) = v4field d end.
Proof.
  destruct s as [|c0 r]; [exact I|]. pose proof (span_dig_digits (c0 :: r)) as Hdd. cbn [span_dig] in *.
  destruct (is_digit c0) eqn:Hc0.
  - destruct (span_dig r) as [d t]. cbn [fst] in Hdd. rewrite dfold6_dec. unfold v4field. rewrite Hdd. cbn [andb].
    destruct (Z.leb_spec (dec_value (c0 :: d)) 255) as [Hv|Hv]; [|rewrite !andb_false_r; reflexivity].
    rewrite !andb_true_r. cbn [length].
    destruct d as [|d1 d'].
    + cbn. reflexivity.
    + destruct (N.eqb_spec c0 48) as [->|Hne]; cbn [negb].
      * replace (0 + Z.of_nat (S (length (d1 :: d'))) =? 0) with false by lia.
        replace (0 + Z.of_nat (S (length (d1 :: d'))) >? 1) with true by (cbn [length]; lia). cbn. destruct (_ <=? 3); reflexivity.
      * pose proof (short_field (c0 :: d1 :: d') Hdd Hv) as Hs. cbn [length] in *.
        assert (Hne' : negb (c0 =? 48)%N = true) by (destruct (N.eqb_spec c0 48); [contradiction|reflexivity]).
        specialize (Hs Hne').
        replace (0 + Z.of_nat (S (S (length d'))) <=? 3) with true by lia.
        replace (0 + Z.of_nat (S (S (length d'))) =? 0) with false by lia. rewrite andb_false_r. reflexivity.
  - cbn. reflexivity.
Qed.

Lemma nodigits_field f : all_digits f = false -> v4field f = false.
Proof. intros H. unfold v4field. destruct f; [reflexivity|]. now rewrite H. Qed.

Lemma split46_span s : let (d, rest) := span_dig s in
  match rest with
  | [] => split_on 46 s = [d]
  | x :: r => if (x =? 46)%N then split_on 46 s = d :: split_on 46 r
              else exists f fs, split_on 46 s = f :: fs /\ all_digits f = false
  end.
Proof.
  induction s as [|c r IH]; cbn [span_dig split_on]; [reflexivity|].
  destruct (is_digit c) eqn:Hc.
  - destruct (span_dig r) as [d t]. assert (Hne : (c =? 46)%N = false) by (unfold is_digit in Hc; lia). rewrite Hne.
    destruct t as [|x t'].
    + rewrite IH. reflexivity.
    + destruct (x =? 46)%N.
      * rewrite IH. reflexivity.
      * destruct IH as (f & fs & E & Hf). rewrite E. exists (c :: f), fs. split; [reflexivity|].
        unfold all_digits in *. cbn [forallb]. rewrite Hf. apply andb_false_r.
  - destruct (N.eqb_spec c 46) as [->|Hne]; [reflexivity|].
    pose proof (split_nonnil 46 r) as Hn. destruct (split_on 46 r) as [|f fs]; [contradiction|].
    exists (c :: f), fs. split; [reflexivity|]. unfold all_digits. cbn [forallb]. now rewrite Hc.
Qed.

Lemma wf_span_dig s : wf_bytes s -> wf_bytes (snd (span_dig s)).
Proof.
  induction s as [|c r IH]; intros H; cbn [span_dig]; [exact H|].
  destruct (is_digit c); [|exact H]. apply wf_cons in H as [_ H]. specialize (IH H). destruct (span_dig r). exact IH.
Qed.

Lemma v4_parts_spec k : forall s, wf_bytes s ->
  v4_parts k s = (length (split_on 46 s) =? k)%nat && forallb v4field (split_on 46 s).
Proof.
  induction k as [|k IH]; intros s Hwf.
  - cbn [v4_parts]. pose proof (split_nonnil 46 s). destruct (split_on 46 s); [contradiction|reflexivity].
  - cbn [v4_parts]. destruct s as [|c0 r]; [cbn; now rewrite andb_false_r|].
    rewrite v4_digits_gen by lia.
    pose proof (part_check (c0 :: r)) as Hpc. pose proof (split46_span (c0 :: r)) as Hsp. pose proof (wf_span_dig _ Hwf) as Hwr.
    destruct (span_dig (c0 :: r)) as [d rest]. cbn [snd] in Hwr.
    destruct ((0 + Z.of_nat (length d) <=? 3) && (dfold6 d 0 <=? 255)).
    + destruct rest as [|x t].
      * rewrite Hsp. cbn [length forallb]. rewrite <- Hpc, andb_true_r.
        destruct (0 + Z.of_nat (length d) =? 0); [now rewrite andb_false_r|].
        destruct ((0 + Z.of_nat (length d) >? 1) && (c0 =? 48)%N); [now rewrite andb_false_r|]. rewrite andb_true_r.
        destruct k; reflexivity.
      * destruct (N.eqb_spec x 46) as [->|Hx].
        -- rewrite Hsp. cbn [length forallb]. rewrite <- Hpc.
           destruct (0 + Z.of_nat (length d) =? 0); [now rewrite andb_false_r|].
           destruct ((0 + Z.of_nat (length d) >? 1) && (c0 =? 48)%N); [now rewrite andb_false_r|]. cbn [andb].
           destruct k as [|k'].
           ++ pose proof (split_nonnil 46 t). destruct (split_on 46 t); [contradiction|reflexivity].
           ++ unfold DOT. cbn [N.eqb Pos.eqb]. apply wf_cons in Hwr as [_ Hwr]. rewrite (IH t Hwr). reflexivity.
        -- destruct Hsp as (f & fs & E & Hf). rewrite E. cbn [forallb]. rewrite (nodigits_field f Hf). cbn [andb]. rewrite andb_false_r.
           destruct (0 + Z.of_nat (length d) =? 0); [reflexivity|].
           destruct ((0 + Z.of_nat (length d) >? 1) && (c0 =? 48)%N); [reflexivity|].
           destruct k; [reflexivity|]. unfold DOT. destruct (N.eqb_spec x 46); [contradiction|reflexivity].
    + (* the first field is no valid field *)
      symmetry. destruct rest as [|x t].
      * rewrite Hsp. cbn [forallb]. rewrite <- Hpc. now rewrite andb_false_r.
      * destruct (N.eqb_spec x 46) as [->|Hx].
        -- rewrite Hsp. cbn [forallb]. rewrite <- Hpc. now rewrite andb_false_r.
        -- destruct Hsp as (f & fs & E & Hf). rewrite E. cbn [forallb]. rewrite (nodigits_field f Hf). now rewrite andb_false_r.
Qed.

Theorem validIPv4_spec s : wf_bytes s -> validIPv4 s = dotted_quad s.
Proof.
  intros Hwf. unfold validIPv4, dotted_quad. rewrite v4_parts_spec by exact Hwf.
  destruct (split_on 46 s) as [|a [|b [|c [|d [|e l]]]]]; cbn [length Nat.eqb forallb andb]; try reflexivity.
  now rewrite andb_true_r, !andb_assoc.
Qed.

(* ---------- facts about the specification's pieces ---------- *)
Lemma count_snoc v4 fs x : fs <> [] ->
  count_fields v4 (fs ++ [x]) = match count_fields false fs, lastw v4 x with Some a, Some w => Some (a + w) | _, _ => None end.
Proof.
  induction fs as [|f fs IH]; [congruence|]. intros _. destruct fs as [|g fs'].
  - cbn [app]. rewrite count_cons, !count_one. unfold lastw at 2. destruct (hexgroup f); cbn [andb]; [|reflexivity].
    destruct (lastw v4 x); reflexivity.
  - change ((f :: g :: fs') ++ [x]) with (f :: (g :: fs') ++ [x]). cbn [app]. rewrite !count_cons.
    destruct (hexgroup f); [|reflexivity]. change (g :: fs' ++ [x]) with ((g :: fs') ++ [x]). rewrite IH by discriminate.
    destruct (count_fields false (g :: fs')); cbn [omap1]; [|reflexivity]. destruct (lastw v4 x); cbn [omap1]; [f_equal; lia|reflexivity].
Qed.
Lemma split_nocolon x : nocolon x -> split_on 58 x = [x].
Proof. induction 1 as [|c x Hc Hx IH]; cbn [split_on]; [reflexivity|]. destruct (N.eqb_spec c 58); [contradiction|]. now rewrite IH. Qed.
Lemma split_snoc y x : nocolon x -> split_on 58 (y ++ 58%N :: x) = split_on 58 y ++ [x].
Proof.
  intros Hx. induction y as [|c y IH]; cbn [app split_on].
  - cbn. now rewrite split_nocolon.
  - rewrite IH. destruct (c =? 58)%N; [reflexivity|]. pose proof (split_nonnil 58 y). destruct (split_on 58 y); [contradiction|reflexivity].
Qed.
Lemma side_snoc v4 y x : nocolon x ->
  side v4 (y ++ 58%N :: x) = match count_fields false (split_on 58 y), lastw v4 x with Some a, Some w => Some (a + w) | _, _ => None end.
Proof.
  intros Hx. unfold side. destruct (y ++ 58%N :: x) eqn:E; [destruct y; discriminate|]. rewrite <- E.
  rewrite split_snoc by exact Hx. apply count_snoc, split_nonnil.
Qed.
Lemma side_nocolon v4 x : nocolon x -> side v4 x = match x with [] => Some 0 | _ => lastw v4 x end.
Proof. intros Hx. unfold side. destruct x; [reflexivity|]. now rewrite split_nocolon. Qed.

Lemma cut_nocolon x : nocolon x -> cut_dcolon x = None.
Proof.
  induction 1 as [|c x Hc Hx IH]; [reflexivity|]. rewrite cut_cons_nc by exact Hc. now rewrite IH.
Qed.

Definition last_colon (y : bytes) : bool := match y with [] => false | _ => (last y 0%N =? 58)%N end.

Lemma cut_snoc x : nocolon x -> forall y,
  cut_dcolon (y ++ 58%N :: x) = match cut_dcolon y with
                                | Some (l, r) => Some (l, r ++ 58%N :: x)
                                | None => if last_colon y then Some (removelast y, x) else None
                                end.
Proof.
  intros Hx. induction y as [|c t IH].
  - cbn [app]. destruct x as [|d x']; [reflexivity|]. inversion Hx; subst.
    rewrite cut_colon_nc by assumption. now rewrite (cut_nocolon (d :: x') Hx).
  - destruct t as [|d t'].
    + change ([c] ++ 58%N :: x) with (c :: 58%N :: x). change (cut_dcolon [c]) with (@None (bytes * bytes)).
      destruct (N.eq_dec c 58) as [->|Hc]; [reflexivity|].
      rewrite cut_cons_nc by exact Hc. change (58%N :: x) with ([] ++ 58%N :: x). rewrite IH. cbn.
      destruct (N.eqb_spec c 58); [contradiction|reflexivity].
    + change ((c :: d :: t') ++ 58%N :: x) with (c :: d :: (t' ++ 58%N :: x)).
      change (cut_dcolon (c :: d :: t' ++ 58%N :: x)) with
        (if (c =? 58)%N && (d =? 58)%N then Some (@nil N, t' ++ 58%N :: x)
         else match cut_dcolon (d :: t' ++ 58%N :: x) with Some (l, r') => Some (c :: l, r') | None => None end).
      change (cut_dcolon (c :: d :: t')) with
        (if (c =? 58)%N && (d =? 58)%N then Some (@nil N, t')
         else match cut_dcolon (d :: t') with Some (l, r') => Some (c :: l, r') | None => None end).
      destruct ((c =? 58)%N && (d =? 58)%N); [reflexivity|].
      change (d :: t' ++ 58%N :: x) with ((d :: t') ++ 58%N :: x). rewrite IH.
      destruct (cut_dcolon (d :: t')) as [[l r]|]; [reflexivity|].
      change (last_colon (c :: d :: t')) with (last_colon (d :: t')). destruct (last_colon (d :: t')); reflexivity.
Qed.

Lemma cut_sound s l r : cut_dcolon s = Some (l, r) -> s = l ++ 58%N :: 58%N :: r.
Proof.
  revert l. induction s as [|c t IH]; intros l; [discriminate|]. cbn [cut_dcolon]. destruct t as [|d t']; [discriminate|].
  destruct (N.eqb_spec c 58) as [->|Hc]; cbn [andb].
  - destruct (N.eqb_spec d 58) as [->|Hd].
    + intros [= <- <-]. reflexivity.
    + destruct (cut_dcolon (d :: t')) as [[l0 r0]|]; [|discriminate]. intros [= <- <-]. cbn [app]. f_equal. now apply IH.
  - destruct (cut_dcolon (d :: t')) as [[l0 r0]|]; [|discriminate]. intros [= <- <-]. cbn [app]. f_equal. now apply IH.
Qed.

(* the specification, for a text whose last ':' is followed by the colon-free x *)
Definition snoc_form (y x : bytes) : bool :=
  match cut_dcolon y with
  | Some (l, r) => match side false l, count_fields false (split_on 58 r), lastw true x with
                   | Some a, Some b, Some w => a + b + w <=? 7 | _, _, _ => false end
  | None => if last_colon y
            then match side false (removelast y), side true x with Some a, Some w => a + w <=? 7 | _, _ => false end
            else match count_fields false (split_on 58 y), lastw true x with Some a, Some w => a + w =? 8 | _, _ => false end
  end.

Lemma spec_snoc y x : nocolon x -> ipv6_addr_text (y ++ 58%N :: x) = snoc_form y x.
Proof.
  intros Hx. unfold ipv6_addr_text, snoc_form. rewrite cut_snoc by exact Hx.
  destruct (cut_dcolon y) as [[l r]|].
  - rewrite side_snoc by exact Hx. destruct (side false l); [|reflexivity].
    destruct (count_fields false (split_on 58 r)); [|reflexivity]. destruct (lastw true x); [f_equal; lia|reflexivity].
  - destruct (last_colon y); [reflexivity|]. rewrite side_snoc by exact Hx.
    destruct (count_fields false (split_on 58 y)); [|reflexivity]. destruct (lastw true x); reflexivity.
Qed.

(* bytes of a text accepted without dotted quads are hex digits or colons *)
Lemma hexgroup_nodot f : hexgroup f = true -> Forall (fun c => c <> 46%N) f.
Proof.
  unfold hexgroup. intros H. apply andb_true_iff in H as [_ H]. induction f as [|c f IH]; [constructor|].
  cbn in H. apply andb_true_iff in H as [H1 H2]. constructor; [intros ->; discriminate | auto].
Qed.
Lemma count_false_nodot fs k : count_fields false fs = Some k -> Forall (fun f => Forall (fun c => c <> 46%N) f) fs.
Proof.
  revert k. induction fs as [|f fs IH]; intros k H; [constructor|]. destruct fs as [|g fs'].
  - rewrite count_one in H. unfold lastw in H. destruct (hexgroup f) eqn:Hg; [|discriminate]. constructor; [now apply hexgroup_nodot|constructor].
  - rewrite count_cons in H. destruct (hexgroup f) eqn:Hg; [|discriminate]. destruct (count_fields false (g :: fs')) eqn:E; [|discriminate].
    constructor; [now apply hexgroup_nodot | eapply IH; reflexivity].
Qed.
Lemma split_fields_all (P : N -> Prop) c s : Forall (fun f => Forall P f) (split_on c s) -> P c -> Forall P s.
Proof.
  intros H Hc. induction s as [|x r IH]; [constructor|]. cbn [split_on] in H. destruct (N.eqb_spec x c) as [->|Hx].
  - inversion H; subst. constructor; auto.
  - pose proof (split_nonnil c r) as Hn. destruct (split_on c r) as [|f fs]; [contradiction|]. inversion H as [|? ? Hf Hfs]; subst.
    inversion Hf; subst. constructor; [assumption|]. apply IH. constructor; assumption.
Qed.
Lemma count_dot_none s : In 46%N s -> count_fields false (split_on 58 s) = None.
Proof.
  intros Hin. destruct (count_fields false (split_on 58 s)) eqn:E; [|reflexivity]. exfalso.
  apply count_false_nodot in E. apply (split_fields_all (fun c => c <> 46%N) 58%N s) in E; [|discriminate]. rewrite Forall_forall in E. now apply (E 46%N).
Qed.
Lemma side_dot_none s : In 46%N s -> side false s = None.
Proof. intros Hin. unfold side. destruct s; [destruct Hin|]. now apply count_dot_none. Qed.

(* without a '.', no field is a dotted quad *)
Lemma split46_nodot f : Forall (fun c => c <> 46%N) f -> split_on 46 f = [f].
Proof. induction 1 as [|c x Hc Hx IH]; cbn [split_on]; [reflexivity|]. destruct (N.eqb_spec c 46); [contradiction|]. now rewrite IH. Qed.
Lemma quad_has_dot f : dotted_quad f = true -> In 46%N f.
Proof.
  intros H. destruct (in_dec N.eq_dec 46%N f) as [|Hn]; [assumption|]. exfalso.
  assert (Hf : Forall (fun c => c <> 46%N) f) by (apply Forall_forall; intros c Hc ->; contradiction).
  unfold dotted_quad in H. rewrite split46_nodot in H by exact Hf. discriminate.
Qed.
Lemma lastw_nodot v4 f : ~ In 46%N f -> lastw v4 f = lastw false f.
Proof.
  intros Hn. unfold lastw. destruct (hexgroup f); [reflexivity|]. destruct v4; cbn [andb]; [|reflexivity].
  destruct (dotted_quad f) eqn:E; [|reflexivity]. apply quad_has_dot in E. contradiction.
Qed.
Lemma count_nodot fs : (forall f, In f fs -> ~ In 46%N f) -> count_fields true fs = count_fields false fs.
Proof.
  induction fs as [|f fs IH]; intros H; [reflexivity|]. destruct fs as [|g fs'].
  - rewrite !count_one. apply lastw_nodot, H. left; reflexivity.
  - rewrite !count_cons. destruct (hexgroup f); [|reflexivity]. f_equal. apply IH. intros f0 Hf0. apply H. right; exact Hf0.
Qed.
Lemma in_split_in c s f x : In f (split_on c s) -> In x f -> In x s.
Proof.
  revert f. induction s as [|y r IH]; intros f Hf Hx.
  - cbn in Hf. destruct Hf as [<-|[]]. destruct Hx.
  - cbn [split_on] in Hf. destruct (N.eqb_spec y c) as [->|Hy].
    + destruct Hf as [<-|Hf]; [destruct Hx|]. right. eapply IH; eauto.
    + pose proof (split_nonnil c r) as Hn. destruct (split_on c r) as [|g gs]; [contradiction|]. destruct Hf as [<-|Hf].
      * destruct Hx as [<-|Hx]; [left; reflexivity|]. right. apply (IH g); [left; reflexivity|exact Hx].
      * right. apply (IH f); [right; exact Hf|exact Hx].
Qed.
Lemma side_nodot s : ~ In 46%N s -> side true s = side false s.
Proof.
  intros Hn. unfold side. destruct s as [|c r]; [reflexivity|]. apply count_nodot. intros f Hf Hd. apply Hn. eapply in_split_in; eauto.
Qed.

(* ---------- bytes.IndexByte / LastIndexByte ---------- *)
Lemma idx_none s c : idxByte s c = None -> ~ In c s.
Proof.
  induction s as [|x r IH]; cbn [idxByte]; [intros _ []|]. destruct (N.eqb_spec x c); [discriminate|].
  destruct (idxByte r c); [discriminate|]. intros _ [H|H]; [contradiction|]. now apply IH.
Qed.
Lemma idx_some s c : forall n, idxByte s c = Some n -> exists a b, s = a ++ c :: b /\ length a = n /\ ~ In c a.
Proof.
  induction s as [|x r IH]; cbn [idxByte]; intros n; [discriminate|]. destruct (N.eqb_spec x c) as [->|Hx].
  - intros [= <-]. exists [], r. repeat split. intros [].
  - destruct (idxByte r c) as [m|]; [|discriminate]. intros [= <-]. destruct (IH m eq_refl) as (a & b & -> & Hl & Hn).
    exists (x :: a), b. repeat split; [cbn; now rewrite Hl|]. intros [H|H]; [contradiction|now apply Hn].
Qed.
Lemma lastidx_none s c : lastIdxByte s c = None -> ~ In c s.
Proof.
  induction s as [|x r IH]; cbn [lastIdxByte]; [intros _ []|]. destruct (lastIdxByte r c); [discriminate|].
  destruct (N.eqb_spec x c); [discriminate|]. intros _ [H|H]; [contradiction|]. now apply IH.
Qed.
Lemma lastidx_some s c : forall n, lastIdxByte s c = Some n -> exists y x, s = y ++ c :: x /\ length y = n /\ ~ In c x.
Proof.
  induction s as [|z r IH]; cbn [lastIdxByte]; intros n; [discriminate|]. destruct (lastIdxByte r c) as [m|] eqn:E.
  - intros [= <-]. destruct (IH m eq_refl) as (y & x & -> & Hl & Hn). exists (z :: y), x. repeat split; [cbn; now rewrite Hl | exact Hn].
  - destruct (N.eqb_spec z c) as [->|]; [|discriminate]. intros [= <-]. exists [], r. repeat split. now apply lastidx_none.
Qed.
Lemma notin_nocolon x : ~ In 58%N x -> nocolon x.
Proof. intros H. apply Forall_forall. intros c Hc ->. contradiction. Qed.

(* ---------- the last byte of the head ---------- *)
Lemma last_colon_snoc y c : last_colon (y ++ [c]) = (c =? 58)%N.
Proof. unfold last_colon. destruct (y ++ [c]) eqn:E; [destruct y; discriminate|]. rewrite <- E. now rewrite last_last. Qed.
Lemma last_colon_decomp y : last_colon y = true -> y = removelast y ++ [58%N].
Proof.
  intros H. destruct y as [|c t]; [discriminate|]. destruct (exists_last (l := c :: t) ltac:(discriminate)) as (y' & a & E).
  rewrite E in *. rewrite last_colon_snoc in H. apply N.eqb_eq in H. subst a. now rewrite removelast_last.
Qed.
Lemma at_split (y z : bytes) : ((0 <? length y)%nat && (nth (length y - 1) (y ++ z) 0%N =? 58)%N) = last_colon y.
Proof.
  destruct y as [|c t]; [reflexivity|]. destruct (exists_last (l := c :: t) ltac:(discriminate)) as (y' & a & E). rewrite E.
  rewrite last_colon_snoc, app_length. cbn [length]. replace (length y' + 1 - 1)%nat with (length y') by lia.
  rewrite <- app_assoc. cbn [app]. rewrite nth_middle. replace (0 <? length y' + 1)%nat with true by lia. reflexivity.
Qed.
Lemma head_split (y z : bytes) : firstn (length y - 1) (y ++ z) = removelast y.
Proof.
  destruct y as [|c t]; [reflexivity|]. destruct (exists_last (l := c :: t) ltac:(discriminate)) as (y' & a & E). rewrite E.
  rewrite removelast_last, app_length. cbn [length]. replace (length y' + 1 - 1)%nat with (length y') by lia.
  rewrite <- app_assoc, firstn_app, firstn_all, Nat.sub_diag. cbn. apply app_nil_r.
Qed.
Lemma head_nosplit (y z : bytes) : firstn (length y) (y ++ z) = y.
Proof. rewrite firstn_app, firstn_all, Nat.sub_diag. cbn. apply app_nil_r. Qed.

Lemma count_end_colon v4 y : count_fields v4 (split_on 58 (y ++ [58%N])) = None.
Proof. rewrite split_snoc by constructor. rewrite count_snoc by apply split_nonnil. rewrite lastw_nil. destruct (count_fields false (split_on 58 y)); reflexivity. Qed.

(* a '.' left of the last colon: not an address *)
Lemma dot_in_head y x : In 46%N y -> snoc_form y x = false.
Proof.
  intros Hin. unfold snoc_form. destruct (cut_dcolon y) as [[l r]|] eqn:Ec.
  - apply cut_sound in Ec. rewrite Ec in Hin. apply in_app_or in Hin as [Hin|Hin].
    + now rewrite side_dot_none.
    + destruct Hin as [?|[?|Hin]]; try discriminate. rewrite (count_dot_none r Hin). destruct (side false l); reflexivity.
  - destruct (last_colon y) eqn:El.
    + rewrite (last_colon_decomp y El) in Hin. apply in_app_or in Hin as [Hin|[?|[]]]; [|discriminate]. now rewrite side_dot_none.
    + now rewrite count_dot_none.
Qed.
Lemma bad_tail y x : nocolon x -> x <> [] -> lastw true x = None -> snoc_form y x = false.
Proof.
  intros Hx Hne Hl. unfold snoc_form. rewrite Hl. rewrite (side_nocolon true x Hx). destruct x; [congruence|]. rewrite Hl.
  destruct (cut_dcolon y) as [[l r]|].
  - destruct (side false l); [|reflexivity]. destruct (count_fields false (split_on 58 r)); reflexivity.
  - destruct (last_colon y); [destruct (side false (removelast y)); reflexivity|]. destruct (count_fields false (split_on 58 y)); reflexivity.
Qed.

Lemma skipn_mid (y : bytes) c x : skipn (S (length y)) (y ++ c :: x) = x.
Proof. induction y as [|a y IH]; [reflexivity|]. cbn [length app]. exact IH. Qed.
Lemma geb_leb a : (a >=? 8) = negb (a <=? 7). Proof. lia. Qed.

(* ---------- the address part (zone cut off) ---------- *)
Theorem v6_addr_spec addr : wf_bytes addr -> v6_ok (v6_addr addr) = ipv6_addr_text addr.
Proof.
  intros Hwf. unfold v6_addr. destruct (idxByte addr COLON) as [ic|] eqn:Eic.
  2:{ (* no colon *)
    apply idx_none, notin_nocolon in Eic. unfold ipv6_addr_text. rewrite (cut_nocolon addr Eic), side_nocolon by exact Eic.
    destruct addr; [reflexivity|]. unfold lastw. destruct (hexgroup (n :: addr)); [reflexivity|]. cbn [andb].
    destruct (dotted_quad (n :: addr)); reflexivity. }
  destruct (idxByte addr DOT) as [idot|] eqn:Eid.
  2:{ (* pure IPv6 *)
    apply idx_none in Eid. rewrite hextets_exact by exact Hwf. unfold ipv6_addr_text.
    destruct (cut_dcolon addr) as [[l r]|] eqn:Ec.
    - assert (Hr : ~ In 46%N r). { intros H. apply Eid. apply cut_sound in Ec. rewrite Ec. apply in_or_app. right. right. right. exact H. }
      rewrite (side_nodot r Hr). destruct (side false l); [|reflexivity]. destruct (side false r); [|reflexivity].
      unfold bad_count. cbn [negb andb orb]. rewrite geb_leb. destruct (z + z0 <=? 7); reflexivity.
    - rewrite (side_nodot addr Eid). destruct (side false addr); [|reflexivity].
      unfold bad_count. cbn [negb andb orb]. rewrite orb_false_r. destruct (z =? 8); reflexivity. }
  (* IPv4-embedded *)
  destruct (idx_some _ _ _ Eid) as (da & db & Ed & _ & _).
  assert (Hdot : In 46%N addr) by (rewrite Ed; apply in_or_app; right; left; reflexivity). clear da db Ed.
  destruct (lastIdxByte addr COLON) as [lc|] eqn:Elc.
  2:{ exfalso. apply lastidx_none in Elc. destruct (idx_some _ _ _ Eic) as (a & b & Ea & _ & _). apply Elc. rewrite Ea. apply in_or_app. right. left. reflexivity. }
  destruct (lastidx_some _ _ _ Elc) as (y & x & -> & Hly & Hx). apply notin_nocolon in Hx. subst lc. unfold COLON in *.
  rewrite spec_snoc by exact Hx.
  apply wf_app in Hwf as [Hwy Hwx]. apply wf_cons in Hwx as [_ Hwx].
  assert (Eskip : skipn (S (length y)) (y ++ 58%N :: x) = x).
  { apply skipn_mid. }
  rewrite Eskip. rewrite app_length. cbn [length].
  destruct x as [|x0 x'].
  { (* the text ends with ':' *)
    cbn [length]. replace (length y =? length y + 1 - 1)%nat with true by lia. cbn [v6_ok]. symmetry. apply dot_in_head.
    apply in_app_or in Hdot as [H|[H|[]]]; [exact H|discriminate]. }
  cbn [length]. replace (length y =? length y + S (S (length x')) - 1)%nat with false by lia.
  set (x := x0 :: x') in *. rewrite validIPv4_spec by exact Hwx.
  destruct (dotted_quad x) eqn:Eq; cbn [negb].
  2:{ (* the tail is no dotted quad *)
    cbn [v6_ok]. symmetry. destruct (in_dec N.eq_dec 46%N x) as [Hix|Hnx].
    - apply bad_tail; [exact Hx | discriminate |]. unfold lastw. rewrite Eq.
      destruct (hexgroup x) eqn:Eh; [|reflexivity]. apply hexgroup_nodot in Eh. rewrite Forall_forall in Eh. exfalso. now apply (Eh 46%N).
    - apply dot_in_head. apply in_app_or in Hdot as [H|[H|H]]; [exact H | discriminate | contradiction]. }
  assert (Hlw : lastw true x = Some 2).
  { unfold lastw. rewrite Eq. destruct (hexgroup x) eqn:Eh; [|reflexivity]. apply hexgroup_nodot in Eh. rewrite Forall_forall in Eh.
    exfalso. apply (Eh 46%N); [now apply quad_has_dot | reflexivity]. }
  rewrite at_split. unfold snoc_form. rewrite Hlw. rewrite (side_nocolon true x Hx). unfold x at 3. fold x. rewrite Hlw.
  destruct (last_colon y) eqn:El.
  - (* "::" right before the dotted quad *)
    rewrite head_split. pose proof (last_colon_decomp y El) as Ey. set (y' := removelast y) in *.
    assert (Hwy' : wf_bytes y') by (rewrite Ey in Hwy; apply wf_app in Hwy; tauto). clearbody y'.
    rewrite hextets_exact by exact Hwy'.
    rewrite Ey at 1. rewrite (cut_snoc [] ltac:(constructor) y').
    destruct (cut_dcolon y') as [[l r]|] eqn:Ec.
    + rewrite count_end_colon.
      destruct (side false l); [|reflexivity]. destruct (side false r); reflexivity.
    + destruct (last_colon y') eqn:El'.
      * (* ":::" *)
        pose proof (last_colon_decomp y' El') as Ey'. cbn [split_on count_fields]. 
        assert (Hs : side false y' = None).
        { rewrite Ey'. unfold side. destruct (removelast y' ++ [58%N]) eqn:E0; [destruct (removelast y'); discriminate|]. rewrite <- E0. apply count_end_colon. }
        rewrite Hs. destruct (side false (removelast y')); reflexivity.
      * destruct (side false y'); [|reflexivity]. cbn [andb orb]. unfold bad_count. cbn [negb andb orb]. rewrite geb_leb.
        destruct (z + 2 <=? 7); reflexivity.
  - rewrite head_nosplit. rewrite hextets_exact by exact Hwy.
    destruct (cut_dcolon y) as [[l r]|] eqn:Ec.
    + assert (Hr : r <> []).
      { intros ->. apply cut_sound in Ec. rewrite Ec in El. change (l ++ [58%N; 58%N]) with (l ++ [58%N] ++ [58%N]) in El.
        rewrite app_assoc, last_colon_snoc in El. discriminate. }
      assert (Hsr : side false r = count_fields false (split_on 58 r)) by (destruct r; [congruence|reflexivity]).
      rewrite Hsr. destruct (side false l); [|reflexivity]. destruct (count_fields false (split_on 58 r)); [|reflexivity].
      cbn [andb orb]. unfold bad_count. cbn [negb andb orb]. rewrite geb_leb. destruct (z + z0 + 2 <=? 7); reflexivity.
    + destruct y as [|y0 yr].
      * reflexivity.
      * cbn [side]. destruct (count_fields false (split_on 58 (y0 :: yr))); [|reflexivity].
        cbn [andb orb]. unfold bad_count. cbn [negb andb orb]. rewrite orb_false_r. destruct (z + 2 =? 8); reflexivity.
Qed.

(* ---------- validateIPv6Literal ---------- *)
Lemma idx_app_notin (a : bytes) c b : ~ In c a -> idxByte (a ++ c :: b) c = Some (length a).
Proof.
  induction a as [|x a IH]; intros Hn; cbn [app idxByte length].
  - now rewrite N.eqb_refl.
  - destruct (N.eqb_spec x c) as [->|]; [exfalso; apply Hn; left; reflexivity|]. rewrite IH; [reflexivity|]. intros H; apply Hn; right; exact H.
Qed.
Lemma idx_notin s c : ~ In c s -> idxByte s c = None.
Proof. intros Hn. destruct (idxByte s c) eqn:E; [|reflexivity]. destruct (idx_some _ _ _ E) as (a & b & -> & _). exfalso. apply Hn, in_or_app. right; left; reflexivity. Qed.
Lemma cut_zone_none a : ~ In 37%N a -> cut_zone a = (a, None).
Proof.
  induction a as [|c r IH]; intros Hn; cbn [cut_zone]; [reflexivity|]. destruct (N.eqb_spec c 37) as [->|]; [exfalso; apply Hn; left; reflexivity|].
  rewrite IH; [reflexivity|]. intros H; apply Hn; right; exact H.
Qed.
Lemma cut_zone_app p z : ~ In 37%N p -> cut_zone (p ++ 37%N :: z) = (p, Some z).
Proof.
  induction p as [|c r IH]; intros Hn; cbn [app cut_zone]; [reflexivity|]. destruct (N.eqb_spec c 37) as [->|]; [exfalso; apply Hn; left; reflexivity|].
  rewrite IH; [reflexivity|]. intros H; apply Hn; right; exact H.
Qed.
Lemma isdigit_ok c : isdigit c = is_digit c.
Proof. unfold isdigit, is_digit. lia. Qed.
Lemma port_spec p : validOptionalPort p = is_port p.
Proof.
  destruct p as [|c r]; [reflexivity|]. cbn [validOptionalPort is_port]. unfold COLON. destruct (c =? 58)%N; cbn [negb andb]; [|reflexivity].
  unfold all_digits. induction r as [|d r IH]; [reflexivity|]. cbn [forallb]. now rewrite isdigit_ok, IH.
Qed.
Lemma port_no_rbr p : is_port p = true -> ~ In 93%N p.
Proof.
  destruct p as [|c r]; [intros _ []|]. cbn [is_port]. intros H. apply andb_true_iff in H as [Hc Hr]. apply N.eqb_eq in Hc. subst c.
  intros [H|H]; [discriminate|]. unfold all_digits in Hr. rewrite forallb_forall in Hr. specialize (Hr _ H). discriminate.
Qed.

Lemma empty_not_v6 : spec_ipv6 [] = false. Proof. reflexivity. Qed.

(* "[" a "]" port, a without ']' : accepted exactly when port is an optional port and a is an IPv6 text *)
Theorem v6_bracket a port : wf_bytes a -> ~ In 93%N a ->
  v6_ok (validateIPv6Literal (91%N :: a ++ 93%N :: port)) = is_port port && spec_ipv6 a.
Proof.
  intros Hwf Hn. unfold validateIPv6Literal. unfold LBR, RBR, PCT. cbn [N.eqb Pos.eqb negb].
  cbn [idxByte N.eqb Pos.eqb]. rewrite idx_app_notin by exact Hn.
  change (skipn (S (S (length a))) (91%N :: a ++ 93%N :: port)) with (skipn (S (length a)) (a ++ 93%N :: port)).
  rewrite skipn_mid. change (skipn 1 (91%N :: a ++ 93%N :: port)) with (a ++ 93%N :: port).
  replace (S (length a) - 1)%nat with (length a) by lia. rewrite head_nosplit. rewrite port_spec.
  destruct a as [|a0 ar]; [cbn; now rewrite andb_false_r|]. set (a := a0 :: ar) in *.
  replace (S (length a) =? 1)%nat with false by (unfold a; cbn [length]; lia). cbn [orb].
  destruct (is_port port); cbn [negb andb]; [|reflexivity].
  unfold spec_ipv6. destruct (idxByte a 37) as [zi|] eqn:Ez.
  - destruct (idx_some _ _ _ Ez) as (p & z & Ea & Hl & Hp). rewrite Ea. rewrite cut_zone_app by exact Hp.
    rewrite app_length. cbn [length]. subst zi. rewrite head_nosplit.
    destruct z as [|z0 zr].
    + cbn [length]. replace (length p =? length p + 1 - 1)%nat with true by lia. reflexivity.
    + cbn [length]. replace (length p =? length p + S (S (length zr)) - 1)%nat with false by lia.
      apply v6_addr_spec. rewrite Ea in Hwf. apply wf_app in Hwf. tauto.
  - rewrite cut_zone_none by (now apply idx_none). now apply v6_addr_spec.
Qed.

Lemma v6_ok_nil e : v6_ok e = true -> e = V6Nil.
Proof. destruct e; (reflexivity || discriminate). Qed.

(* accepted bracketed hosts are "[" IPv6-text "]" optional-port *)
Theorem ipv6_only_valid_gen t : wf_bytes t -> v6_ok (validateIPv6Literal (91%N :: t)) = true ->
  exists a port, t = a ++ 93%N :: port /\ ~ In 93%N a /\ ~ In 93%N port /\ is_port port = true /\ spec_ipv6 a = true.
Proof.
  intros Hwf Hok. destruct (idxByte t 93) as [n|] eqn:E.
  - destruct (idx_some _ _ _ E) as (a & port & -> & _ & Hn). apply wf_app in Hwf as [Hwa _].
    rewrite (v6_bracket a port Hwa Hn) in Hok. apply andb_true_iff in Hok as [Hp Hs].
    exists a, port. repeat split; auto. now apply port_no_rbr.
  - exfalso. unfold validateIPv6Literal in Hok. unfold LBR, RBR in Hok. cbn [N.eqb Pos.eqb negb idxByte] in Hok. rewrite E in Hok. discriminate.
Qed.

Theorem ipv6_only_valid a : wf_bytes a -> v6_ok (validateIPv6Literal (91%N :: a ++ [93%N])) = true -> spec_ipv6 a = true.
Proof.
  intros Hwf Hok. assert (Hw : wf_bytes (a ++ [93%N])) by (apply wf_app; split; [exact Hwf|repeat constructor]).
  destruct (ipv6_only_valid_gen _ Hw Hok) as (a' & port & E & Hna & Hnp & Hp & Hs).
  (* the last byte is the only ']' *)
  assert (port = [] /\ a' = a) as [-> ->].
  { destruct port as [|p0 pr] using rev_ind.
    - apply app_inj_tail in E as [Ea _]. split; [reflexivity|]. symmetry; exact Ea.
    - exfalso. clear IHpr. change (a' ++ 93%N :: pr ++ [p0]) with (a' ++ (93%N :: pr) ++ [p0]) in E. rewrite app_assoc in E.
      apply app_inj_tail in E as [_ <-]. apply Hnp. apply in_or_app. right; left; reflexivity. }
  exact Hs.
Qed.

(* the bytes of an IPv6 text *)
Lemma hexgroup_norbr f : hexgroup f = true -> ~ In 93%N f.
Proof.
  unfold hexgroup. intros H. apply andb_true_iff in H as [_ H]. rewrite forallb_forall in H. intros Hin. specialize (H _ Hin). discriminate.
Qed.
Lemma v4field_norbr f : v4field f = true -> Forall (fun c => c <> 93%N) f.
Proof.
  unfold v4field. destruct f as [|c r]; [discriminate|]. intros H. apply andb_true_iff in H as [H _]. apply andb_true_iff in H as [H _].
  unfold all_digits in H. rewrite forallb_forall in H. apply Forall_forall. intros x Hx ->. specialize (H _ Hx). discriminate.
Qed.
Lemma quad_norbr f : dotted_quad f = true -> ~ In 93%N f.
Proof.
  unfold dotted_quad. intros H. destruct (split_on 46 f) as [|a [|b [|c [|d [|e l]]]]] eqn:E; try discriminate.
  apply andb_true_iff in H as [H Hd]. apply andb_true_iff in H as [H Hc]. apply andb_true_iff in H as [Ha Hb].
  assert (HF : Forall (fun f0 => Forall (fun c0 => c0 <> 93%N) f0) (split_on 46 f)).
  { rewrite E. repeat constructor; now apply v4field_norbr. }
  apply (split_fields_all (fun c0 => c0 <> 93%N) 46%N f) in HF; [|discriminate]. rewrite Forall_forall in HF. intros Hin. now apply (HF _ Hin).
Qed.
Lemma count_norbr v4 fs k : count_fields v4 fs = Some k -> Forall (fun f => Forall (fun c => c <> 93%N) f) fs.
Proof.
  revert k. induction fs as [|f fs IH]; intros k H; [constructor|]. destruct fs as [|g fs'].
  - rewrite count_one in H. unfold lastw in H. constructor; [|constructor]. apply Forall_forall. intros x Hx ->.
    destruct (hexgroup f) eqn:Hg; [now apply (hexgroup_norbr f Hg)|]. destruct v4; cbn [andb] in H; [|discriminate].
    destruct (dotted_quad f) eqn:Hq; [|discriminate]. now apply (quad_norbr f Hq).
  - rewrite count_cons in H. destruct (hexgroup f) eqn:Hg; [|discriminate]. destruct (count_fields v4 (g :: fs')) eqn:E; [|discriminate].
    constructor; [|eapply IH; reflexivity]. apply Forall_forall. intros x Hx ->. now apply (hexgroup_norbr f Hg).
Qed.
Lemma side_norbr v4 s k : side v4 s = Some k -> ~ In 93%N s.
Proof.
  unfold side. destruct s as [|c r]; [intros _ []|]. intros H. apply count_norbr in H.
  apply (split_fields_all (fun c0 => c0 <> 93%N) 58%N (c :: r)) in H; [|discriminate]. rewrite Forall_forall in H. intros Hin. now apply (H _ Hin).
Qed.
Lemma text_norbr a : ipv6_addr_text a = true -> ~ In 93%N a.
Proof.
  unfold ipv6_addr_text. destruct (cut_dcolon a) as [[l r]|] eqn:Ec.
  - destruct (side false l) eqn:El; [|discriminate]. destruct (side true r) eqn:Er; [|discriminate]. intros _.
    apply cut_sound in Ec. rewrite Ec. intros H. apply in_app_or in H as [H|[H|[H|H]]]; try discriminate.
    + now apply (side_norbr _ _ _ El). + now apply (side_norbr _ _ _ Er).
  - destruct (side true a) eqn:Es; [|discriminate]. intros _. now apply (side_norbr _ _ _ Es).
Qed.

Theorem ipv6_all_zoneless_accepted_gen a port : wf_bytes a -> spec_ipv6 a = true -> zoneless a = true -> is_port port = true ->
  validateIPv6Literal (91%N :: a ++ 93%N :: port) = V6Nil.
Proof.
  intros Hwf Hs Hz Hp. apply v6_ok_nil. rewrite v6_bracket; [now rewrite Hp, Hs | exact Hwf |].
  unfold spec_ipv6 in Hs. unfold zoneless in Hz. destruct (cut_zone a) as [addr [z|]] eqn:Ecz; [discriminate|].
  assert (addr = a) as ->.
  { clear -Ecz. revert addr Ecz. induction a as [|c r IH]; intros addr; cbn [cut_zone]; [now intros [= <-]|].
    destruct (c =? 37)%N; [discriminate|]. destruct (cut_zone r) as [x [z|]]; [discriminate|]. intros [= <-]. f_equal. now apply IH. }
  now apply text_norbr.
Qed.
Theorem ipv6_all_zoneless_accepted a : wf_bytes a -> spec_ipv6 a = true -> zoneless a = true ->
  validateIPv6Literal (91%N :: a ++ [93%N]) = V6Nil.
Proof. intros. now apply ipv6_all_zoneless_accepted_gen. Qed.

(* the fuel of the model is never exhausted *)
Theorem hextets_total s : wf_bytes s -> parseIPv6Hextets s false <> HexOutOfFuel.
Proof.
  intros Hwf. rewrite hextets_exact by exact Hwf. destruct (cut_dcolon s) as [[l r]|].
  - destruct (side false l); [|discriminate]. destruct (side false r); discriminate.
  - destruct (side false s); discriminate.
Qed.
