(* Proofs about the integer codec model (C30). *)
From FH Require Import Model.Base Gen.GenC30 Model.Ints Spec.IntsSpec.
From Coq Require Import Lia ZifyBool ZifyN ZifyNat Znumtheory.
Open Scope Z_scope.

Definition okW (W : Z) : Prop := W = 32 \/ W = 64.

Lemma consts32 : maxInt 32 = 2147483647 /\ maxIntDiv10 32 = 214748364 /\ maxSafeIntDigits 32 = 9.
Proof. now vm_compute. Qed.
Lemma consts64 : maxInt 64 = 9223372036854775807 /\ maxIntDiv10 64 = 922337203685477580 /\ maxSafeIntDigits 64 = 18.
Proof. now vm_compute. Qed.

Lemma wrap_small W z : okW W -> 0 <= z <= maxInt W -> wrap W z = z.
Proof.
  intros [->| ->] H; unfold wrap, maxInt in *;
  [change (2^(32-1)) with 2147483648 in *; change (2^32) with 4294967296
  |change (2^(64-1)) with 9223372036854775808 in *; change (2^64) with 18446744073709551616];
  rewrite Z.mod_small; lia.
Qed.

(* The arithmetic heart of the property: with an accumulator that is a valid
   non-negative int and a digit, the guard fires exactly when the true value
   10*v+k does not fit; nothing wrapped is ever accepted. *)
Lemma guard_complete W v k :
  okW W -> 0 <= v <= maxInt W -> 0 <= k <= 9 ->
  ((v >? maxIntDiv10 W) || (wrap W (10 * v + k) <? 0)) = (10 * v + k >? maxInt W).
Proof.
  intros [->| ->] Hv Hk.
  - destruct consts32 as (E1 & E2 & _). rewrite E1 in *. rewrite E2.
    unfold wrap. change (2^(32-1)) with 2147483648. change (2^32) with 4294967296.
    destruct (Z.gtb_spec v 214748364) as [Hgt|Hle]; cbn [orb].
    + symmetry. apply Z.gtb_lt. lia.
    + assert (Hs : 0 <= 10 * v + k <= 2147483649) by lia.
      destruct (Z.gtb_spec (10 * v + k) 2147483647) as [H1|H1].
      * apply Z.ltb_lt.
        assert (E: (10 * v + k + 2147483648) mod 4294967296 = 10 * v + k + 2147483648 - 4294967296).
        { symmetry. apply Z.mod_unique with (q := 1); lia. }
        lia.
      * apply Z.ltb_ge. rewrite Z.mod_small; lia.
  - destruct consts64 as (E1 & E2 & _). rewrite E1 in *. rewrite E2.
    unfold wrap. change (2^(64-1)) with 9223372036854775808. change (2^64) with 18446744073709551616.
    destruct (Z.gtb_spec v 922337203685477580) as [Hgt|Hle]; cbn [orb].
    + symmetry. apply Z.gtb_lt. lia.
    + assert (Hs : 0 <= 10 * v + k <= 9223372036854775809) by lia.
      destruct (Z.gtb_spec (10 * v + k) 9223372036854775807) as [H1|H1].
      * apply Z.ltb_lt.
        assert (E: (10 * v + k + 9223372036854775808) mod 18446744073709551616 = 10 * v + k + 9223372036854775808 - 18446744073709551616).
        { symmetry. apply Z.mod_unique with (q := 1); lia. }
        lia.
      * apply Z.ltb_ge. rewrite Z.mod_small; lia.
Qed.

(* below maxSafeIntDigits digits nothing can overflow *)
Lemma safe_digits W i v k :
  okW W -> 0 <= i < maxSafeIntDigits W -> 0 <= v < 10 ^ i -> 0 <= k <= 9 ->
  0 <= 10 * v + k < 10 ^ (i + 1) /\ 10 * v + k <= maxInt W.
Proof.
  intros HW Hi Hv Hk.
  assert (Hp : 10 ^ (i + 1) = 10 * 10 ^ i) by (rewrite Z.pow_add_r by lia; lia).
  split; [lia|].
  assert (10 ^ (i + 1) <= 10 ^ (maxSafeIntDigits W)) by (apply Z.pow_le_mono_r; lia).
  destruct HW as [->| ->].
  - destruct consts32 as (E1 & _ & E3). rewrite E1, E3 in *. change (10^9) with 1000000000 in *. lia.
  - destruct consts64 as (E1 & _ & E3). rewrite E1, E3 in *. change (10^18) with 1000000000000000000 in *. lia.
Qed.

(* ---- decimal value facts ---- *)
Lemma dec_value_snoc s c : dec_value (s ++ [c]) = 10 * dec_value s + (Z.of_N c - 48).
Proof. unfold dec_value. now rewrite fold_left_app. Qed.

Lemma fold_dec_ge a s : all_digits s = true -> 0 <= a ->
  a <= fold_left (fun a c => 10 * a + (Z.of_N c - 48)) s a.
Proof.
  revert a; induction s as [|c s IH]; intros a Hd Ha; cbn [fold_left]; [lia|].
  cbn in Hd. apply andb_true_iff in Hd as [Hc Hd]. unfold is_digit in Hc.
  specialize (IH (10 * a + (Z.of_N c - 48)) Hd). lia.
Qed.

Lemma bsub48_mod_hi c : (48 <= c < 256)%N -> (Z.of_N c + 208) mod 256 = Z.of_N c - 48.
Proof. intros H. symmetry. apply Z.mod_unique with (q := 1); lia. Qed.
Lemma bsub48_digit c : (c < 256)%N -> (bsub48 c >? 9) = negb (is_digit c).
Proof.
  intros Hc. unfold bsub48, is_digit.
  destruct (N.leb_spec 48 c); destruct (N.leb_spec c 57); cbn [andb negb].
  - rewrite bsub48_mod_hi by lia. lia.
  - rewrite bsub48_mod_hi by lia. lia.
  - rewrite Z.mod_small by lia. lia.
  - rewrite Z.mod_small by lia. lia.
Qed.
Lemma bsub48_val c : is_digit c = true -> bsub48 c = Z.of_N c - 48.
Proof. unfold bsub48, is_digit. intros H. apply bsub48_mod_hi. lia. Qed.

(* result of the loop, seen through ParseUint's eyes: Some v only if the whole rest was consumed *)
Definition loop_view (total : Z) (r : Z * Z * option perr) : option Z :=
  match r with (v, n, err) =>
    if negb (n =? total) then None else match err with Some _ => None | None => Some v end end.

Lemma pub_loop_spec W : okW W -> forall r i v,
  wf_bytes r -> 0 <= i -> 0 <= v <= maxInt W -> (i < maxSafeIntDigits W -> v < 10 ^ i) ->
  loop_view (i + Z.of_nat (length r)) (pub_loop W r i v) =
  (let t := fold_left (fun a c => 10 * a + (Z.of_N c - 48)) r v in
   if all_digits r && (t <=? maxInt W) then Some t else None).
Proof.
  intros HW. induction r as [|c r IH]; intros i v Hwf Hi Hv Hsafe.
  - cbn [pub_loop length fold_left all_digits forallb andb loop_view].
    replace (i + Z.of_nat 0 ) with i by (cbn; lia). rewrite Z.eqb_refl. cbn [negb].
    destruct (Z.leb_spec v (maxInt W)); [reflexivity|lia].
  - inversion Hwf as [|? ? Hc Hwf']; subst.
    cbn [pub_loop all_digits forallb fold_left].
    rewrite bsub48_digit by exact Hc.
    destruct (is_digit c) eqn:Hd; cbn [negb andb].
    + rewrite (bsub48_val c Hd).
      set (k := Z.of_N c - 48). assert (Hk : 0 <= k <= 9) by (unfold is_digit in Hd; lia).
      destruct (Z.geb_spec i (maxSafeIntDigits W)) as [Hge|Hlt]; cbn [andb].
      * rewrite guard_complete by assumption.
        destruct (Z.gtb_spec (10 * v + k) (maxInt W)) as [Hov|Hfit].
        -- (* overflow: error; the spec says None because the value only grows *)
           cbn [loop_view]. 
           assert (Hne : (i =? i + Z.of_nat (length (c :: r))) = false) by (apply Z.eqb_neq; cbn [length]; lia).
           rewrite Hne. cbn [negb].
           destruct (forallb is_digit r) eqn:Hr; cbn [andb]; [|reflexivity].
           pose proof (fold_dec_ge (10 * v + k) r Hr ltac:(lia)) as Hge2. fold (all_digits r) in Hr.
           destruct (Z.leb_spec (fold_left (fun a c0 => 10 * a + (Z.of_N c0 - 48)) r (10 * v + k)) (maxInt W)); [lia|reflexivity].
        -- rewrite (wrap_small W (10 * v + k) HW) by lia.
           specialize (IH (i + 1) (10 * v + k) Hwf' ltac:(lia) ltac:(lia) ltac:(lia)).
           replace (i + Z.of_nat (length (c :: r))) with (i + 1 + Z.of_nat (length r)) by (cbn [length]; lia).
           exact IH.
      * destruct (safe_digits W i v k HW ltac:(lia) ltac:(split; [lia|apply Hsafe; lia]) Hk) as [Hb Hm].
        rewrite (wrap_small W (10 * v + k) HW) by lia.
        specialize (IH (i + 1) (10 * v + k) Hwf' ltac:(lia) ltac:(lia) ltac:(intros _; lia)).
        replace (i + Z.of_nat (length (c :: r))) with (i + 1 + Z.of_nat (length r)) by (cbn [length]; lia).
        exact IH.
    + (* non-digit: either first char error or a short count, both rejected by ParseUint *)
      destruct (Z.eqb_spec i 0) as [->|Hnz]; cbn [loop_view].
      * assert (Hne : (0 =? 0 + Z.of_nat (length (c :: r))) = false) by (apply Z.eqb_neq; cbn [length]; lia).
        now rewrite Hne.
      * assert (Hne : (i =? i + Z.of_nat (length (c :: r))) = false) by (apply Z.eqb_neq; cbn [length]; lia).
        now rewrite Hne.
Qed.

Theorem parse_exact W s : okW W -> wf_bytes s ->
  pres_opt (ParseUint W s) = spec_parse_uint (maxInt W) s.
Proof.
  intros HW Hwf. destruct s as [|c r]; [reflexivity|].
  unfold ParseUint, parseUintBuf, spec_parse_uint.
  pose proof (pub_loop_spec W HW (c :: r) 0 0 Hwf ltac:(lia)) as H.
  assert (Hm : 0 <= 0 <= maxInt W) by (destruct HW as [->| ->]; vm_compute; split; discriminate).
  specialize (H Hm ltac:(intros _; cbn; lia)).
  unfold loop_view in H. destruct (pub_loop W (c :: r) 0 0) as [[v n] err].
  replace (0 + Z.of_nat (length (c :: r))) with (Z.of_nat (length (c :: r))) in H by lia.
  unfold dec_value. rewrite <- H.
  destruct (negb (n =? Z.of_nat (length (c :: r)))); [reflexivity|].
  destruct err; reflexivity.
Qed.

(* ---- AppendUint / ParseUint inverse ---- *)
Lemma fold_dec_app a s t :
  fold_left (fun a c => 10 * a + (Z.of_N c - 48)) (s ++ t) a =
  fold_left (fun a c => 10 * a + (Z.of_N c - 48)) t (fold_left (fun a c => 10 * a + (Z.of_N c - 48)) s a).
Proof. apply fold_left_app. Qed.

(* dec_fuel prepends the digits of n to acc *)
Lemma dec_fuel_spec fuel : forall n acc, 0 <= n < 2 ^ Z.of_nat (S fuel) ->
  exists d, dec_fuel (S fuel) n acc = d ++ acc /\ all_digits d = true /\ d <> [] /\
            forall a, fold_left (fun a c => 10 * a + (Z.of_N c - 48)) d a = a * 10 ^ Z.of_nat (length d) + n.
Proof.
  induction fuel as [|f IH]; intros n acc Hn; cbn [dec_fuel];
    assert (Hdig : is_digit (Z.to_N (48 + n mod 10)) = true)
      by (unfold is_digit; pose proof (Z.mod_pos_bound n 10 ltac:(lia)); lia).
  - assert (Hlt : n < 10) by (change (2 ^ Z.of_nat 1) with 2 in Hn; lia).
    destruct (Z.ltb_spec n 10); [|lia].
    exists [Z.to_N (48 + n mod 10)]. repeat split.
    + unfold all_digits; cbn [forallb]; now rewrite Hdig.
    + discriminate.
    + intros a. cbn [fold_left length]. rewrite Z.mod_small by lia. change (10 ^ Z.of_nat 1) with 10. lia.
  - destruct (Z.ltb_spec n 10) as [Hlt|Hge].
    + exists [Z.to_N (48 + n mod 10)]. repeat split.
      * unfold all_digits; cbn [forallb]; now rewrite Hdig.
      * discriminate.
      * intros a. cbn [fold_left length]. rewrite Z.mod_small by lia. change (10 ^ Z.of_nat 1) with 10. lia.
    + assert (Hn' : 0 <= n / 10 < 2 ^ Z.of_nat (S f)).
      { split; [apply Z.div_pos; lia|].
        rewrite (Nat2Z.inj_succ (S f)), Z.pow_succ_r in Hn by lia.
        apply Z.div_lt_upper_bound; lia. }
      destruct (IH (n / 10) (Z.to_N (48 + n mod 10) :: acc) Hn') as (d & E & Hd & Hne & Hv).
      exists (d ++ [Z.to_N (48 + n mod 10)]). repeat split.
      * cbn [dec_fuel] in E. rewrite E. now rewrite <- app_assoc.
      * unfold all_digits in *. rewrite forallb_app, Hd. cbn [forallb andb]. now rewrite Hdig.
      * destruct d; discriminate.
      * intros a. rewrite fold_dec_app, Hv. cbn [fold_left].
        rewrite app_length. cbn [length]. rewrite Nat2Z.inj_add. change (Z.of_nat 1) with 1.
        rewrite Z.pow_add_r by lia. change (10 ^ 1) with 10.
        pose proof (Z.div_mod n 10 ltac:(lia)). pose proof (Z.mod_pos_bound n 10 ltac:(lia)).
        rewrite Z2N.id by lia. lia.
Qed.

Lemma dec_digits_spec n : 0 <= n ->
  all_digits (dec_digits n) = true /\ dec_digits n <> [] /\ dec_value (dec_digits n) = n.
Proof.
  intros Hn. unfold dec_digits.
  assert (Hb : 0 <= n < 2 ^ Z.of_nat (S (Z.to_nat (Z.log2 n)))).
  { split; [lia|]. rewrite Nat2Z.inj_succ, Z2Nat.id by apply Z.log2_nonneg.
    destruct (Z.eq_dec n 0) as [->|Hnz]; [cbn; lia|]. apply Z.log2_spec. lia. }
  destruct (dec_fuel_spec _ n [] Hb) as (d & E & Hd & Hne & Hv).
  rewrite E, app_nil_r. repeat split; try assumption.
  unfold dec_value. rewrite Hv. lia.
Qed.

Lemma all_digits_wf s : all_digits s = true -> wf_bytes s.
Proof.
  unfold all_digits, wf_bytes. rewrite forallb_forall, Forall_forall.
  intros H x Hx. specialize (H x Hx). unfold is_digit in H. lia.
Qed.

Theorem append_parse_inverse W n : okW W -> 0 <= n <= maxInt W ->
  exists d, AppendUint [] n = Some d /\ ParseUint W d = POk n.
Proof.
  intros HW Hn. unfold AppendUint.
  destruct (Z.ltb_spec n 0) as [Hneg|_]; [lia|]. cbn [app]. eexists; split; [reflexivity|].
  destruct (dec_digits_spec n ltac:(lia)) as (Hd & Hne & Hv).
  pose proof (parse_exact W (dec_digits n) HW (all_digits_wf _ Hd)) as H.
  unfold spec_parse_uint in H. destruct (dec_digits n) as [|c r] eqn:E; [congruence|].
  rewrite Hd, Hv in H. cbn [andb] in H.
  destruct (Z.leb_spec n (maxInt W)); [|lia].
  destruct (ParseUint W (c :: r)); cbn in H; congruence.
Qed.

(* nothing but a canonical result: a successful parse never returns a wrapped value *)
Corollary parse_ok_is_value W s v : okW W -> wf_bytes s ->
  ParseUint W s = POk v -> s <> [] /\ all_digits s = true /\ v = dec_value s /\ 0 <= v <= maxInt W.
Proof.
  intros HW Hwf H. pose proof (parse_exact W s HW Hwf) as E. rewrite H in E. cbn in E.
  unfold spec_parse_uint in E. destruct s as [|c r]; [discriminate|].
  destruct (all_digits (c :: r)) eqn:Hd; cbn [andb] in E; [|discriminate].
  destruct (Z.leb_spec (dec_value (c :: r)) (maxInt W)); [|discriminate].
  injection E as ->. repeat split; try assumption; try discriminate.
  unfold dec_value. apply (fold_dec_ge 0 (c :: r) Hd). lia.
Qed.

(* ---- hexadecimal chunk sizes ---- *)
Definition okWH (W maxc : Z) : Prop := (W = 64 /\ maxc = 15) \/ (W = 32 /\ maxc = 7).

Lemma hex2int_table_ok : forall c, (c < 256)%N ->
  Z.of_N (tbl hex2intTable c) = match hexdig c with Some d => d | None => 16 end.
Proof.
  assert (H : forallb (fun c => Z.of_N (tbl hex2intTable c) =? match hexdig c with Some d => d | None => 16 end)
                (map N.of_nat (seq 0 256)) = true) by (vm_compute; reflexivity).
  rewrite forallb_forall in H. intros c Hc. apply Z.eqb_eq, H.
  apply in_map_iff. exists (N.to_nat c). split; [lia|]. apply in_seq. lia.
Qed.

Lemma lowerhex_ok : forall d, 0 <= d < 16 -> hexdig (tbl lowerhex (Z.to_N d)) = Some d /\ (tbl lowerhex (Z.to_N d) < 256)%N.
Proof.
  assert (H : forallb (fun d => match hexdig (tbl lowerhex (Z.to_N d)) with Some e => e =? d | None => false end
                                && (tbl lowerhex (Z.to_N d) <? 256)%N)
                (map Z.of_nat (seq 0 16)) = true) by (vm_compute; reflexivity).
  rewrite forallb_forall in H. intros d Hd.
  assert (Hin : In d (map Z.of_nat (seq 0 16))).
  { apply in_map_iff. exists (Z.to_nat d). split; [lia|]. apply in_seq. lia. }
  specialize (H d Hin). apply andb_true_iff in H as [H1 H2].
  destruct (hexdig (tbl lowerhex (Z.to_N d))); [|discriminate]. split; [f_equal; lia|lia].
Qed.

Lemma hexdig_range c d : hexdig c = Some d -> 0 <= d < 16.
Proof.
  unfold hexdig.
  destruct ((48 <=? c)%N && (c <=? 57)%N) eqn:E1; [intros [= <-]; lia|].
  destruct ((97 <=? c)%N && (c <=? 102)%N) eqn:E2; [intros [= <-]; lia|].
  destruct ((65 <=? c)%N && (c <=? 70)%N) eqn:E3; [intros [= <-]; lia|discriminate].
Qed.

Lemma lor_shift4 n k : 0 <= n -> 0 <= k < 16 -> Z.lor (Z.shiftl n 4) k = 16 * n + k.
Proof.
  intros Hn Hk. rewrite Z.shiftl_mul_pow2 by lia. change (2 ^ 4) with 16.
  assert (Hl : Z.land (n * 16) k = 0).
  { replace k with (Z.land k (Z.ones 4)) at 1
      by (rewrite Z.land_ones by lia; change (2 ^ 4) with 16; apply Z.mod_small; lia).
    rewrite (Z.land_comm k), Z.land_assoc, (Z.land_ones (n * 16)) by lia. change (2 ^ 4) with 16.
    rewrite Z.mod_mul by lia. apply Z.land_0_l. }
  rewrite <- Z.lxor_lor by exact Hl. rewrite <- Z.add_nocarry_lxor by exact Hl. lia.
Qed.

Definition hexfold := fun a c => 16 * a + match hexdig c with Some d => d | None => 0 end.

Lemma pow16_bound W maxc : okWH W maxc -> 16 ^ maxc <= maxInt W.
Proof. intros [[-> ->]|[-> ->]]; vm_compute; discriminate. Qed.
Lemma okWH_okW W maxc : okWH W maxc -> okW W /\ 0 < maxc.
Proof. intros [[-> ->]|[-> ->]]; unfold okW; split; auto; lia. Qed.

(* exact behaviour of the reading loop *)
Lemma rhi_loop_spec W maxc : okWH W maxc -> forall s i n,
  wf_bytes s -> 0 <= i <= maxc -> 0 <= n < 16 ^ i ->
  rhi_loop W maxc s i n =
  (let (d, r) := span_hex s in
   match d with
   | [] => if i >? 0 then HOk n r else match s with [] => HErr HEof | _ => HErr HEmpty end
   | _ => if i + Z.of_nat (length d) >? maxc then HErr HTooLarge
          else HOk (fold_left hexfold d n) r
   end).
Proof.
  intros HWH. destruct (okWH_okW _ _ HWH) as [HW Hmc]. pose proof (pow16_bound _ _ HWH) as Hp.
  induction s as [|c s IH]; intros i n Hwf Hi Hn.
  - cbn [rhi_loop span_hex]. destruct (i >? 0); reflexivity.
  - inversion Hwf as [|? ? Hc Hwf']; subst. cbn [rhi_loop span_hex].
    rewrite hex2int_table_ok by exact Hc. unfold is_hexdig.
    destruct (hexdig c) as [d|] eqn:Hd.
    + pose proof (hexdig_range _ _ Hd) as Hdr.
      destruct (Z.eqb_spec d 16); [lia|].
      destruct (Z.geb_spec i maxc) as [Hge|Hlt].
      * destruct (span_hex s) as [ds r]. 
        destruct (Z.gtb_spec (i + Z.of_nat (length (c :: ds))) maxc); [reflexivity|cbn [length] in *; lia].
      * rewrite lor_shift4 by lia.
        assert (Hb : 0 <= 16 * n + d < 16 ^ (i + 1)) by (rewrite Z.pow_add_r by lia; change (16 ^ 1) with 16; lia).
        assert (16 ^ (i + 1) <= 16 ^ maxc) by (apply Z.pow_le_mono_r; lia).
        rewrite (wrap_small W _ HW) by lia.
        rewrite (IH (i + 1) (16 * n + d) Hwf' ltac:(lia) Hb).
        assert (Hf : hexfold n c = 16 * n + d) by (unfold hexfold; now rewrite Hd).
        destruct (span_hex s) as [ds r]. cbn [length fold_left]. rewrite Hf.
        replace (i + Z.of_nat (S (length ds))) with (i + 1 + Z.of_nat (length ds)) by lia.
        destruct ds as [|e ds].
        -- cbn [length fold_left]. destruct (Z.gtb_spec (i + 1) 0); [|lia].
           destruct (Z.gtb_spec (i + 1 + Z.of_nat 0) maxc); [cbn in *; lia|reflexivity].
        -- reflexivity.
    + destruct (Z.eqb_spec 16 16); [|lia].
      destruct (Z.eqb_spec i 0) as [->|Hnz]; [reflexivity|].
      destruct (Z.gtb_spec i 0); [reflexivity|lia].
Qed.

Lemma hexfold_value d : fold_left hexfold d 0 = hex_value d.
Proof. reflexivity. Qed.

Theorem readhex_exact W maxc s : okWH W maxc -> wf_bytes s ->
  readHexInt W maxc s =
  (let (d, r) := span_hex s in
   match d with
   | [] => match s with [] => HErr HEof | _ => HErr HEmpty end
   | _ => if Z.of_nat (length d) >? maxc then HErr HTooLarge else HOk (hex_value d) r
   end).
Proof.
  intros HWH Hwf. unfold readHexInt. destruct (okWH_okW _ _ HWH) as [_ Hmc].
  rewrite (rhi_loop_spec W maxc HWH s 0 0 Hwf) by (cbn; lia).
  destruct (span_hex s) as [d r]. destruct d; reflexivity.
Qed.

(* writer *)
Lemma whi_loop_S f n room acc : whi_loop (S f) n room acc =
  if room <=? 0 then None else
  if Z.shiftr n 4 =? 0 then Some (tbl lowerhex (Z.to_N (Z.land n 15)) :: acc)
  else whi_loop f (Z.shiftr n 4) (room - 1) (tbl lowerhex (Z.to_N (Z.land n 15)) :: acc).
Proof. reflexivity. Qed.

Lemma whi_loop_spec fuel : forall n room acc, 0 <= n < 2 ^ Z.of_nat (S fuel) -> 1 <= room -> n < 16 ^ room ->
  exists d, whi_loop (S fuel) n room acc = Some (d ++ acc) /\ d <> [] /\ forallb is_hexdig d = true /\
            wf_bytes d /\ Z.of_nat (length d) <= room /\
            forall a, fold_left hexfold d a = a * 16 ^ Z.of_nat (length d) + n.
Proof.
  induction fuel as [|f IH]; intros n room acc Hn Hroom Hcap; rewrite whi_loop_S;
    (destruct (Z.leb_spec room 0); [lia|]);
    change 15 with (Z.ones 4); rewrite (Z.land_ones n 4) by lia; rewrite Z.shiftr_div_pow2 by lia; change (2 ^ 4) with 16;
    pose proof (Z.mod_pos_bound n 16 ltac:(lia)) as Hm;
    destruct (lowerhex_ok (n mod 16) Hm) as [Hh Hlt].
  - assert (n < 16) by (change (2 ^ Z.of_nat 1) with 2 in Hn; lia).
    rewrite Z.div_small by lia. cbn [Z.eqb].
    exists [tbl lowerhex (Z.to_N (n mod 16))]. repeat split.
    + discriminate.
    + cbn [forallb]. unfold is_hexdig. now rewrite Hh.
    + constructor; [exact Hlt|constructor].
    + cbn [length]. lia.
    + intros a. cbn [fold_left length]. unfold hexfold. rewrite Hh. rewrite Z.mod_small by lia.
      change (16 ^ Z.of_nat 1) with 16. lia.
  - destruct (Z.eqb_spec (n / 16) 0) as [Hz|Hnz].
    + assert (n < 16) by (apply Z.div_small_iff in Hz; lia).
      exists [tbl lowerhex (Z.to_N (n mod 16))]. repeat split.
      * discriminate.
      * cbn [forallb]. unfold is_hexdig. now rewrite Hh.
      * constructor; [exact Hlt|constructor].
      * cbn [length]. lia.
      * intros a. cbn [fold_left length]. unfold hexfold. rewrite Hh. rewrite Z.mod_small by lia.
        change (16 ^ Z.of_nat 1) with 16. lia.
    + assert (Hge : 16 <= n).
      { destruct (Z.lt_ge_cases n 16) as [Hl|Hg]; [|exact Hg]. rewrite Z.div_small in Hnz by lia. lia. }
      assert (Hroom2 : 2 <= room).
      { destruct (Z.eq_dec room 1) as [->|]; [change (16 ^ 1) with 16 in Hcap; lia|lia]. }
      assert (Hn' : 0 <= n / 16 < 2 ^ Z.of_nat (S f)).
      { split; [apply Z.div_pos; lia|].
        rewrite (Nat2Z.inj_succ (S f)), Z.pow_succ_r in Hn by lia.
        apply Z.div_lt_upper_bound; lia. }
      assert (Hcap' : n / 16 < 16 ^ (room - 1)).
      { apply Z.div_lt_upper_bound; [lia|]. replace (16 * 16 ^ (room - 1)) with (16 ^ room); [lia|].
        replace room with (1 + (room - 1)) at 1 by lia. rewrite Z.pow_add_r by lia. reflexivity. }
      destruct (IH (n / 16) (room - 1) (tbl lowerhex (Z.to_N (n mod 16)) :: acc) Hn' ltac:(lia) Hcap')
        as (d & E & Hne & Hd & Hwf & Hlen & Hv).
      exists (d ++ [tbl lowerhex (Z.to_N (n mod 16))]). repeat split.
      * rewrite E. now rewrite <- app_assoc.
      * destruct d; discriminate.
      * rewrite forallb_app, Hd. cbn [forallb andb]. unfold is_hexdig. now rewrite Hh.
      * apply Forall_app. split; [exact Hwf|constructor; [exact Hlt|constructor]].
      * rewrite app_length. cbn [length]. lia.
      * intros a. rewrite fold_left_app, Hv. cbn [fold_left]. unfold hexfold at 1. rewrite Hh.
        rewrite app_length. cbn [length]. rewrite Nat2Z.inj_add. change (Z.of_nat 1) with 1.
        rewrite Z.pow_add_r by lia. change (16 ^ 1) with 16.
        pose proof (Z.div_mod n 16 ltac:(lia)). lia.
Qed.

Lemma span_hex_app d rest : forallb is_hexdig d = true ->
  match rest with [] => True | c :: _ => is_hexdig c = false end ->
  span_hex (d ++ rest) = (d, rest).
Proof.
  intros Hd Hr. induction d as [|c d IH]; cbn [app span_hex].
  - destruct rest as [|c r]; [reflexivity|]. cbn [span_hex]. now rewrite Hr.
  - cbn [forallb] in Hd. apply andb_true_iff in Hd as [Hc Hd]. rewrite Hc, (IH Hd). reflexivity.
Qed.

Theorem hex_roundtrip W maxc n : okWH W maxc -> 0 <= n < 16 ^ maxc ->
  exists d, writeHexInt maxc n = Some d /\
    forall rest, wf_bytes rest -> match rest with [] => True | c :: _ => is_hexdig c = false end ->
      readHexInt W maxc (d ++ rest) = HOk n rest.
Proof.
  intros HWH Hn. destruct (okWH_okW _ _ HWH) as [_ Hmc]. unfold writeHexInt.
  destruct (Z.ltb_spec n 0); [lia|].
  assert (Hb : 0 <= n < 2 ^ Z.of_nat (S (Z.to_nat (Z.log2 n)))).
  { split; [lia|]. rewrite Nat2Z.inj_succ, Z2Nat.id by apply Z.log2_nonneg.
    destruct (Z.eq_dec n 0) as [->|Hnz]; [cbn; lia|]. apply Z.log2_spec. lia. }
  assert (Hcap : n < 16 ^ (maxc + 1)) by (rewrite Z.pow_add_r by lia; change (16 ^ 1) with 16; lia).
  destruct (whi_loop_spec _ n (maxc + 1) [] Hb ltac:(lia) Hcap) as (d & E & Hne & Hd & Hwf & Hlen & Hv).
  (* sharper length bound: n < 16^maxc gives length d <= maxc *)
  assert (Hlen' : Z.of_nat (length d) <= maxc).
  { destruct (Z.le_gt_cases (Z.of_nat (length d)) maxc) as [|Hgt]; [assumption|exfalso].
    destruct (whi_loop_spec _ n maxc [] Hb ltac:(lia) ltac:(lia)) as (d' & E' & _ & _ & _ & Hlen2 & _).
    (* both runs produce the same digits: the room only decides panic or not *)
    assert (Hsame : forall fuel m room1 room2 acc o1 o2,
              whi_loop fuel m room1 acc = Some o1 -> whi_loop fuel m room2 acc = Some o2 -> o1 = o2).
    { induction fuel as [|f IHf]; intros m r1 r2 acc o1 o2; cbn [whi_loop]; [discriminate|].
      destruct (r1 <=? 0); [discriminate|]. destruct (r2 <=? 0); [discriminate|].
      destruct (Z.shiftr m 4 =? 0); [congruence|]. apply IHf. }
    pose proof (Hsame _ _ _ _ _ _ _ E E') as Heq. rewrite !app_nil_r in Heq. subst d'. lia. }
  rewrite app_nil_r in E. exists d. split; [exact E|].
  intros rest Hwfr Hrest.
  rewrite (readhex_exact W maxc (d ++ rest) HWH) by (apply Forall_app; split; assumption).
  rewrite (span_hex_app d rest Hd Hrest).
  destruct d as [|c d']; [congruence|].
  destruct (Z.gtb_spec (Z.of_nat (length (c :: d'))) maxc); [lia|].
  f_equal. rewrite <- hexfold_value, Hv. lia.
Qed.

Theorem hex_too_long_rejected W maxc d rest : okWH W maxc -> wf_bytes (d ++ rest) ->
  forallb is_hexdig d = true -> Z.of_nat (length d) > maxc ->
  match rest with [] => True | c :: _ => is_hexdig c = false end ->
  readHexInt W maxc (d ++ rest) = HErr HTooLarge.
Proof.
  intros HWH Hwf Hd Hlen Hrest. destruct (okWH_okW _ _ HWH) as [_ Hmc].
  rewrite (readhex_exact W maxc _ HWH Hwf), (span_hex_app d rest Hd Hrest).
  destruct d as [|c d']; [cbn in Hlen; lia|].
  destruct (Z.gtb_spec (Z.of_nat (length (c :: d'))) maxc); [reflexivity|lia].
Qed.
