(* LBProof.v — proofs about Model/LB.v (property C40). *)
From Coq Require Import Lia ZifyBool ZifyNat.
From FH Require Import Model.Base Gen.GenC40 Model.LB Spec.LBSpec.
Open Scope Z_scope.

(* ---- get: the chosen position is the first lexicographic minimum ----------------------------------------------- *)
Lemma lex_le_refl x : lex_le x x.
Proof. unfold lex_le. lia. Qed.
Lemma lex_lt_le_trans x y z : lex_lt x y -> lex_le y z -> lex_lt x z.
Proof. unfold lex_lt, lex_le. lia. Qed.
Lemma lex_lt_le x y : lex_lt x y -> lex_le x y.
Proof. unfold lex_lt, lex_le. lia. Qed.

Lemma choose_from_min : forall l pre best bn bt,
  nth_error pre best = Some (bn, bt) ->
  (forall j y, nth_error pre j = Some y -> lex_le (bn, bt) y) ->
  (forall j y, (j < best)%nat -> nth_error pre j = Some y -> lex_lt (bn, bt) y) ->
  minimal_first (pre ++ l) (choose_from best bn bt (length pre) l).
Proof.
  induction l as [|[n t] r IH]; intros pre best bn bt Hb Hle Hlt; cbn [choose_from].
  - rewrite app_nil_r. exists (bn, bt). repeat split; assumption.
  - assert (Hbl : (best < length pre)%nat) by (apply nth_error_Some; congruence).
    replace (pre ++ (n, t) :: r) with ((pre ++ [(n, t)]) ++ r) by (rewrite <- app_assoc; reflexivity).
    replace (S (length pre)) with (length (pre ++ [(n, t)])) by (rewrite app_length; cbn; lia).
    destruct ((n <? bn) || ((n =? bn) && (t <? bt))) eqn:E.
    + assert (Hnew : lex_lt (n, t) (bn, bt)) by (unfold lex_lt; cbn [fst snd]; lia).
      apply IH.
      * rewrite nth_error_app2 by lia. now rewrite Nat.sub_diag.
      * intros j y Hj. destruct (Nat.lt_ge_cases j (length pre)) as [Hjl|Hjl].
        -- rewrite nth_error_app1 in Hj by assumption. apply lex_lt_le. eapply lex_lt_le_trans; eauto.
        -- rewrite nth_error_app2 in Hj by assumption. destruct (j - length pre)%nat as [|k]; cbn in Hj.
           ++ injection Hj as <-. apply lex_le_refl.
           ++ destruct k; discriminate.
      * intros j y Hjl Hj. rewrite nth_error_app1 in Hj by assumption. eapply lex_lt_le_trans; eauto.
    + assert (Hkeep : lex_le (bn, bt) (n, t)) by (unfold lex_le; cbn [fst snd]; lia).
      apply IH.
      * now rewrite nth_error_app1.
      * intros j y Hj. destruct (Nat.lt_ge_cases j (length pre)) as [Hjl|Hjl].
        -- rewrite nth_error_app1 in Hj by assumption. eauto.
        -- rewrite nth_error_app2 in Hj by assumption. destruct (j - length pre)%nat as [|k]; cbn in Hj.
           ++ injection Hj as <-. exact Hkeep.
           ++ destruct k; discriminate.
      * intros j y Hjl Hj. rewrite nth_error_app1 in Hj by lia. eauto.
Qed.

Theorem choose_minimal l i : choose l = Some i -> minimal_first l i.
Proof.
  destruct l as [|[n t] r]; cbn [choose]; [discriminate|]. intros E. injection E as <-.
  apply (choose_from_min r [(n, t)] 0%nat n t); [reflexivity| |intros j y Hj; lia].
  intros [|[|j]] y Hj; cbn in Hj; try discriminate. injection Hj as <-. apply lex_le_refl.
Qed.

Lemma choose_none l : choose l = None <-> l = [].
Proof. destruct l as [|[n t] r]; cbn; split; congruence. Qed.

Lemma minimal_first_lt l i : minimal_first l i -> (i < length l)%nat.
Proof. intros (x & Hx & _). apply nth_error_Some. congruence. Qed.

Lemma nth_error_firstn' {A} (l : list A) : forall i j, nth_error (firstn i l) j = if (j <? i)%nat then nth_error l j else None.
Proof.
  induction l as [|x l IH]; intros [|i] [|j]; cbn [firstn nth_error]; try reflexivity.
  - destruct (S j <? S i)%nat; reflexivity.
  - rewrite IH. replace (S j <? S i)%nat with (j <? i)%nat; [reflexivity|].
    destruct (Nat.ltb_spec j i), (Nat.ltb_spec (S j) (S i)); try reflexivity; lia.
Qed.

Lemma minimal_firstb_iff l i : minimal_firstb l i = true <-> minimal_first l i.
Proof.
  unfold minimal_firstb, minimal_first. destruct (nth_error l i) as [x|] eqn:E.
  - rewrite andb_true_iff, !forallb_forall. split.
    + intros [H1 H2]. exists x. split; [reflexivity|]. split.
      * intros j y Hj. apply nth_error_In in Hj. specialize (H1 y Hj). unfold lex_leb in H1. unfold lex_le. lia.
      * intros j y Hlt Hj. assert (Hin : In y (firstn i l)).
        { apply nth_error_In with j. rewrite nth_error_firstn'. destruct (Nat.ltb_spec j i); [assumption|lia]. }
        specialize (H2 y Hin). unfold lex_ltb in H2. unfold lex_lt. lia.
    + intros (x' & Hx' & H1 & H2). injection Hx' as <-. split.
      * intros y Hy. apply In_nth_error in Hy as [j Hj]. specialize (H1 j y Hj). unfold lex_le in H1. unfold lex_leb. lia.
      * intros y Hy. apply In_nth_error in Hy as [j Hj]. rewrite nth_error_firstn' in Hj.
        destruct (Nat.ltb_spec j i); [|discriminate]. specialize (H2 j y ltac:(assumption) Hj). unfold lex_lt in H2. unfold lex_ltb. lia.
  - split; [discriminate|]. intros (x & Hx & _). discriminate.
Qed.

Lemma loads_length s ids : forall ext, length (loads s ids ext) = length ids.
Proof. induction ids as [|c r IH]; intros ext; cbn [loads length]; [reflexivity|]. now rewrite IH. Qed.

(* ---- list helpers ------------------------------------------------------------------------------------------------ *)
Lemma set_nth_length {A} (x : A) : forall l n, length (set_nth n x l) = length l.
Proof. induction l as [|y l IH]; intros [|n]; cbn; try reflexivity. now rewrite IH. Qed.

Lemma nth_set_nth_same {A} (x d : A) : forall l n, (n < length l)%nat -> nth n (set_nth n x l) d = x.
Proof. induction l as [|y l IH]; intros [|n] Hn; cbn in *; try lia; [reflexivity|]. apply IH. lia. Qed.

Lemma nth_set_nth_other {A} (x d : A) : forall l n m, n <> m -> nth m (set_nth n x l) d = nth m l d.
Proof. induction l as [|y l IH]; intros [|n] [|m] Hnm; cbn; try reflexivity; try congruence. apply IH. congruence. Qed.

Lemma Forall_set_nth {A} (P : A -> Prop) (x : A) : forall l n, Forall P l -> P x -> Forall P (set_nth n x l).
Proof.
  induction l as [|y l IH]; intros [|n] Hl Hx; cbn; try assumption; inversion Hl; subst; constructor; auto.
Qed.

Definition b2z (b : bool) : Z := if b then 1 else 0.
Definition wO (c : nat) (t : option pc) : Z := match t with Some (POverflow c') => b2z (c' =? c)%nat | _ => 0 end.
Definition wP (c : nat) (t : option pc) : Z := match t with Some (PPreTimer c') => b2z (c' =? c)%nat | _ => 0 end.
Fixpoint sumf (f : option pc -> Z) (l : list (option pc)) : Z :=
  match l with [] => 0 | x :: r => f x + sumf f r end.

Lemma sumf_app f a b : sumf f (a ++ b) = sumf f a + sumf f b.
Proof. induction a as [|x a IH]; cbn [app sumf]; [lia|]. rewrite IH. lia. Qed.

Lemma sumf_set_nth f new : forall l i old, nth_error l i = Some old -> sumf f (set_nth i new l) = sumf f l - f old + f new.
Proof.
  induction l as [|y l IH]; intros [|i] old Hn; cbn in *; try discriminate.
  - injection Hn as <-. lia.
  - rewrite (IH _ _ Hn). lia.
Qed.

Lemma wO_nonneg c t : 0 <= wO c t.
Proof. destruct t as [[]|]; cbn; try lia; destruct (_ =? _)%nat; cbn; lia. Qed.
Lemma wP_nonneg c t : 0 <= wP c t.
Proof. destruct t as [[]|]; cbn; try lia; destruct (_ =? _)%nat; cbn; lia. Qed.
Lemma sumf_nonneg f l : (forall t, 0 <= f t) -> 0 <= sumf f l.
Proof. intros Hf. induction l as [|x l IH]; cbn; [lia|]. specialize (Hf x). lia. Qed.

Definition pc_client (t : option pc) : option nat :=
  match t with
  | Some (PCall c) | Some (PUnhealthy c) | Some (POverflow c) | Some (PPreTimer c) | Some (PTotal c) => Some c
  | None => None
  end.
Definition thread_valid (n : nat) (t : option pc) : Prop :=
  match pc_client t with Some c => (c < n)%nat | None => True end.

(* ---- the invariant ------------------------------------------------------------------------------------------------ *)
Definition client_ok (s : state) (c : nat) : Prop :=
  let x := getc s c in
  c_pen x = Z.of_nat (length (c_timers x)) + sumf (wO c) (threads s) + sumf (wP c) (threads s) /\
  Z.of_nat (length (c_timers x)) + sumf (wP c) (threads s) <= maxPenalty /\
  (forall d, In d (c_timers x) -> d <= c_last x + penaltyDuration) /\
  c_last x <= now s.

Record Inv (s : state) : Prop := mkInv {
  inv_cs : Forall (fun c => (c < length (arena s))%nat) (cs s);
  inv_initial : Forall (fun c => (c < length (arena s))%nat) (initial s);
  inv_threads : Forall (thread_valid (length (arena s))) (threads s);
  inv_client : forall c, (c < length (arena s))%nat -> client_ok s c
}.

Lemma get_thread_nth s tid p : get_thread s tid = Some p -> nth_error (threads s) tid = Some (Some p).
Proof. unfold get_thread. destruct (nth_error (threads s) tid) as [[q|]|]; congruence. Qed.

Lemma thread_valid_of s tid p : Inv s -> get_thread s tid = Some p -> thread_valid (length (arena s)) (Some p).
Proof.
  intros Hi Hg. apply get_thread_nth in Hg. apply nth_error_In in Hg.
  pose proof (inv_threads s Hi) as Hf. rewrite Forall_forall in Hf. now apply Hf.
Qed.

Lemma getc_upd_same s c f : (c < length (arena s))%nat -> nth c (upd_client s c f) dummy = f (getc s c).
Proof. intros Hc. unfold upd_client. now apply nth_set_nth_same. Qed.
Lemma getc_upd_other s c c' f : c <> c' -> nth c' (upd_client s c f) dummy = nth c' (arena s) dummy.
Proof. intros Hc. unfold upd_client. now apply nth_set_nth_other. Qed.
Lemma upd_length s c f : length (upd_client s c f) = length (arena s).
Proof. unfold upd_client. apply set_nth_length. Qed.

Lemma init_inv n : Inv (init_state n).
Proof.
  unfold init_state. constructor; cbn [arena cs initial threads].
  - constructor.
  - rewrite repeat_length. apply Forall_forall. intros c Hc. apply in_seq in Hc. lia.
  - constructor.
  - intros c Hc. unfold client_ok, getc. cbn [arena threads sumf]. rewrite repeat_length in Hc.
    rewrite nth_indep with (d' := mkClient 0 0 [] (- penaltyDuration)) by (rewrite repeat_length; lia).
    rewrite nth_repeat. cbn [c_pen c_timers c_last length In now]. split; [reflexivity|]. split; [vm_compute; congruence|].
    split; [intros d []|vm_compute; congruence].
Qed.

(* a thread step: thread tid moves from pc old (about client c0) to new (about c0 or finished), client c0 is updated by f *)
Lemma thread_step_inv s tid old new c0 f :
  Inv s -> get_thread s tid = Some old -> pc_client (Some old) = Some c0 ->
  (pc_client new = Some c0 \/ new = None) ->
  (let x := getc s c0 in
   c_pen (f x) - Z.of_nat (length (c_timers (f x))) = c_pen x - Z.of_nat (length (c_timers x)) - wO c0 (Some old) - wP c0 (Some old) + wO c0 new + wP c0 new /\
   (Z.of_nat (length (c_timers x)) + sumf (wP c0) (threads s) <= maxPenalty ->
    c_pen x = Z.of_nat (length (c_timers x)) + sumf (wO c0) (threads s) + sumf (wP c0) (threads s) ->
    Z.of_nat (length (c_timers (f x))) + sumf (wP c0) (threads s) - wP c0 (Some old) + wP c0 new <= maxPenalty) /\
   ((forall d, In d (c_timers x) -> d <= c_last x + penaltyDuration) -> c_last x <= now s ->
    (forall d, In d (c_timers (f x)) -> d <= c_last (f x) + penaltyDuration) /\ c_last (f x) <= now s)) ->
  Inv (mkState (upd_client s c0 f) (cs s) (inited s) (initial s) (set_thread s tid new) (now s) (log s)).
Proof.
  intros Hi Hg Hold Hnew Hf.
  pose proof (thread_valid_of _ _ _ Hi Hg) as Hv. unfold thread_valid in Hv. rewrite Hold in Hv.
  pose proof (get_thread_nth _ _ _ Hg) as Hn.
  constructor; cbn [arena cs initial threads]; rewrite ?upd_length.
  - exact (inv_cs s Hi).
  - exact (inv_initial s Hi).
  - unfold set_thread. apply Forall_set_nth; [exact (inv_threads s Hi)|].
    unfold thread_valid. destruct Hnew as [-> | ->]; [exact Hv|exact I].
  - intros c Hc. destruct (inv_client s Hi c Hc) as (H1 & H2 & H3 & H4). unfold client_ok, getc in *. cbn [arena threads now].
    unfold set_thread. rewrite !(sumf_set_nth _ _ _ _ _ Hn).
    destruct (Nat.eq_dec c c0) as [->|Hne].
    + rewrite getc_upd_same by assumption. destruct Hf as (F1 & F2 & F3). unfold getc in *.
      destruct (F3 H3 H4) as [F3a F3b]. repeat split; [lia|lia|exact F3a|exact F3b].
    + rewrite getc_upd_other by congruence.
      assert (Hz : wO c (Some old) = 0 /\ wP c (Some old) = 0 /\ wO c new = 0 /\ wP c new = 0).
      { assert (Hb : (c0 =? c)%nat = false) by (apply Nat.eqb_neq; congruence).
        repeat split.
        - destruct old; cbn in Hold |- *; try reflexivity. injection Hold as ->. now rewrite Hb.
        - destruct old; cbn in Hold |- *; try reflexivity. injection Hold as ->. now rewrite Hb.
        - destruct Hnew as [Hn'| ->]; [|reflexivity]. destruct new as [[]|]; cbn in Hn' |- *; try reflexivity. injection Hn' as ->. now rewrite Hb.
        - destruct Hnew as [Hn'| ->]; [|reflexivity]. destruct new as [[]|]; cbn in Hn' |- *; try reflexivity. injection Hn' as ->. now rewrite Hb. }
      destruct Hz as (Z1 & Z2 & Z3 & Z4). rewrite Z1, Z2, Z3, Z4. repeat split; [lia|lia|exact H3|exact H4].
Qed.

Lemma set_nth_id {A} (d : A) : forall l n, set_nth n (nth n l d) l = l.
Proof. induction l as [|y l IH]; intros [|n]; cbn; try reflexivity. now rewrite IH. Qed.

Lemma upd_id s c : upd_client s c (fun x => x) = arena s.
Proof. unfold upd_client, getc. apply set_nth_id. Qed.

Lemma sum_invalid w n l c : (forall t, pc_client t <> Some c -> w c t = 0) ->
  Forall (thread_valid n) l -> (n <= c)%nat -> sumf (w c) l = 0.
Proof.
  intros Hw Hl Hc. induction Hl as [|t l Ht Hl IH]; cbn [sumf]; [reflexivity|].
  rewrite IH, Hw; [lia|]. unfold thread_valid in Ht. destruct (pc_client t) as [c'|]; [|congruence]. intros E. injection E as ->. lia.
Qed.
Lemma wO_other c t : pc_client t <> Some c -> wO c t = 0.
Proof. destruct t as [[]|]; cbn; try reflexivity. intros Hn. destruct (Nat.eqb_spec c0 c); [subst; congruence|reflexivity]. Qed.
Lemma wP_other c t : pc_client t <> Some c -> wP c t = 0.
Proof. destruct t as [[]|]; cbn; try reflexivity. intros Hn. destruct (Nat.eqb_spec c0 c); [subst; congruence|reflexivity]. Qed.

Lemma remove_nth_length {A} : forall (l : list A) i x, nth_error l i = Some x -> S (length (remove_nth i l)) = length l.
Proof. induction l as [|y l IH]; intros [|i] x Hn; cbn in *; try discriminate; [reflexivity|]. f_equal. eapply IH; eauto. Qed.
Lemma remove_nth_In {A} : forall (l : list A) i d, In d (remove_nth i l) -> In d l.
Proof. induction l as [|y l IH]; intros [|i] d Hin; cbn in *; auto. destruct Hin as [->|Hin]; [now left|right; eauto]. Qed.

Lemma keep_unremoved_incl ids : forall v c, In c (keep_unremoved ids v) -> In c ids.
Proof.
  induction ids as [|x ids IH]; intros v c Hin; cbn [keep_unremoved] in Hin; [assumption|].
  destruct (hd false v); [right; eauto|]. destruct Hin as [->|Hin]; [now left|right; eauto].
Qed.

Lemma penaltyDuration_nonneg : 0 <= penaltyDuration.
Proof. vm_compute. congruence. Qed.
Lemma maxPenalty_nonneg : 0 <= maxPenalty.
Proof. vm_compute. congruence. Qed.

Lemma do_init_valid s : Inv s -> Forall (fun c => (c < length (arena s))%nat) (do_init s).
Proof.
  intros Hi. unfold do_init. destruct (inited s); [exact (inv_cs s Hi)|].
  apply Forall_app. split; [exact (inv_cs s Hi)|exact (inv_initial s Hi)].
Qed.

Theorem step_inv s l s' : Inv s -> step s l = Some s' -> Inv s'.
Proof.
  intros Hi. destruct l as [ext|tid healthy|tid|tid|tid|tid|c i|t| |verdicts]; cbn [step].
  - (* LGet *)
    pose proof (do_init_valid s Hi) as Hv.
    assert (Hgen : forall newt, thread_valid (length (arena s)) newt -> (forall c, wO c newt = 0 /\ wP c newt = 0) -> forall ev,
       Inv (mkState (arena s) (do_init s) true (initial s) (threads s ++ [newt]) (now s) (ev :: log s))).
    { intros newt Hnv Hw ev. constructor; cbn [arena cs initial threads].
      - exact Hv.
      - exact (inv_initial s Hi).
      - apply Forall_app. split; [exact (inv_threads s Hi)|constructor; [exact Hnv|constructor]].
      - intros c Hc. destruct (inv_client s Hi c Hc) as (H1 & H2 & H3 & H4). unfold client_ok, getc in *. cbn [arena threads now].
        rewrite !sumf_app. cbn [sumf]. destruct (Hw c) as [-> ->]. repeat split; [lia|lia|exact H3|exact H4]. }
    destruct (choose (loads s (do_init s) ext)) as [i|] eqn:E; intros E'; injection E' as <-.
    + apply Hgen; [|intros c; split; reflexivity].
      unfold thread_valid. cbn [pc_client]. apply choose_minimal, minimal_first_lt in E. rewrite loads_length in E.
      rewrite Forall_forall in Hv. apply Hv. now apply nth_In.
    + apply Hgen; [exact I|intros c; split; reflexivity].
  - (* LReturn *)
    destruct (get_thread s tid) as [[c| | | |]|] eqn:G; try discriminate. intros E; injection E as <-.
    rewrite <- (upd_id s c).
    apply (thread_step_inv s tid (PCall c) (Some (if healthy then PTotal c else PUnhealthy c)) c (fun x => x) Hi G eq_refl).
    + left. destruct healthy; reflexivity.
    + cbv zeta. destruct healthy; cbn [wO wP]; repeat split; try lia; tauto.
  - (* LIncAdd *)
    destruct (get_thread s tid) as [[|c| | |]|] eqn:G; try discriminate. intros E; injection E as <-.
    pose proof (thread_valid_of _ _ _ Hi G) as Hv. unfold thread_valid in Hv. cbn [pc_client] in Hv.
    apply (thread_step_inv s tid (PUnhealthy c) _ c _ Hi G eq_refl).
    + left. destruct (_ >? _); reflexivity.
    + cbv zeta. cbn [c_pen c_timers c_last wO wP].
      pose proof (sumf_nonneg (wO c) (threads s) (wO_nonneg c)) as HO.
      destruct (c_pen (getc s c) + 1 >? maxPenalty) eqn:Em; cbn [wO wP]; rewrite Nat.eqb_refl; cbn [b2z];
        repeat split; try lia; tauto.
  - (* LDecOverflow *)
    destruct (get_thread s tid) as [[| |c| |]|] eqn:G; try discriminate. intros E; injection E as <-.
    apply (thread_step_inv s tid (POverflow c) (Some (PTotal c)) c _ Hi G eq_refl); [left; reflexivity|].
    cbv zeta. cbn [c_pen c_timers c_last wO wP]. rewrite Nat.eqb_refl; cbn [b2z]. repeat split; try lia; tauto.
  - (* LSetTimer *)
    destruct (get_thread s tid) as [[| | |c|]|] eqn:G; try discriminate. intros E; injection E as <-.
    apply (thread_step_inv s tid (PPreTimer c) None c _ Hi G eq_refl); [right; reflexivity|].
    cbv zeta. cbn [c_pen c_timers c_last wO wP length]. rewrite Nat.eqb_refl; cbn [b2z]. repeat split; try lia.
    intros d [<-|Hd]; [lia|]. specialize (H d Hd). lia.
  - (* LTotal *)
    destruct (get_thread s tid) as [[| | | |c]|] eqn:G; try discriminate. intros E; injection E as <-.
    apply (thread_step_inv s tid (PTotal c) None c _ Hi G eq_refl); [right; reflexivity|].
    cbv zeta. cbn [c_pen c_timers c_last wO wP]. repeat split; try lia; tauto.
  - (* LFire *)
    destruct (nth_error (c_timers (getc s c)) i) as [d|] eqn:En; [|discriminate].
    destruct ((d <=? now s) && (c <? length (arena s))%nat) eqn:Ed; [|discriminate]. intros E; injection E as <-.
    assert (Hc : (c < length (arena s))%nat) by lia.
    constructor; cbn [arena cs initial threads]; rewrite ?upd_length; try apply Hi.
    intros c' Hc'. destruct (inv_client s Hi c' Hc') as (H1 & H2 & H3 & H4). unfold client_ok, getc in *. cbn [arena threads now].
    destruct (Nat.eq_dec c' c) as [->|Hne].
    + rewrite getc_upd_same by assumption. cbn [c_pen c_timers c_last]. unfold getc.
      pose proof (remove_nth_length _ _ _ En) as Hl. unfold getc in Hl.
      repeat split; [lia|lia| |exact H4]. intros d' Hd'. apply H3. eapply remove_nth_In; eauto.
    + rewrite getc_upd_other by congruence. repeat split; assumption.
  - (* LTick *)
    destruct (now s <=? t) eqn:Et; [|discriminate]. intros E; injection E as <-.
    constructor; cbn [arena cs initial threads]; try apply Hi.
    intros c Hc. destruct (inv_client s Hi c Hc) as (H1 & H2 & H3 & H4). unfold client_ok, getc in *. cbn [arena threads now].
    repeat split; try assumption. lia.
  - (* LAdd *)
    intros E; injection E as <-.
    constructor; cbn [arena cs initial threads]; rewrite app_length; cbn [length].
    + apply Forall_app. split; [|constructor; [lia|constructor]].
      eapply Forall_impl; [|exact (inv_cs s Hi)]. cbn. intros; lia.
    + eapply Forall_impl; [|exact (inv_initial s Hi)]. cbn. intros; lia.
    + eapply Forall_impl; [|exact (inv_threads s Hi)]. unfold thread_valid. intros t0. destruct (pc_client t0); [lia|trivial].
    + intros c Hc. unfold client_ok, getc. cbn [arena threads now].
      destruct (Nat.lt_ge_cases c (length (arena s))) as [Hlt|Hge].
      * rewrite app_nth1 by assumption. exact (inv_client s Hi c Hlt).
      * assert (c = length (arena s)) by lia. subst c. rewrite app_nth2, Nat.sub_diag by lia. cbn [nth c_pen c_timers c_last length In].
        rewrite (sum_invalid wO _ _ _ (wO_other _) (inv_threads s Hi)) by lia.
        rewrite (sum_invalid wP _ _ _ (wP_other _) (inv_threads s Hi)) by lia.
        pose proof penaltyDuration_nonneg. pose proof maxPenalty_nonneg. repeat split; try lia; try (intros d []).
  - (* LRemove *)
    intros E; injection E as <-.
    constructor; cbn [arena cs initial threads]; try apply Hi.
    apply Forall_forall. intros c Hc. apply keep_unremoved_incl in Hc.
    pose proof (inv_cs s Hi) as Hf. rewrite Forall_forall in Hf. now apply Hf.
Qed.

(* ---- reachable states ----------------------------------------------------------------------------------------------- *)
Definition reachable (s : state) : Prop := exists n ls, steps (init_state n) ls = Some s.

Lemma steps_inv ls : forall s s', Inv s -> steps s ls = Some s' -> Inv s'.
Proof.
  induction ls as [|l ls IH]; intros s s' Hi; cbn [steps]; [intros E; injection E as <-; exact Hi|].
  destruct (step s l) as [s1|] eqn:E1; [|discriminate]. intros E. eapply IH; [|exact E]. eapply step_inv; eauto.
Qed.

Theorem reachable_inv s : reachable s -> Inv s.
Proof. intros (n & ls & Hs). eapply steps_inv; [apply init_inv|exact Hs]. Qed.

(* no call is in the middle of incPenalty / before its AfterFunc for client c *)
Definition quiescent (s : state) (c : nat) : Prop :=
  forall t, In t (threads s) -> t <> Some (POverflow c) /\ t <> Some (PPreTimer c).

Lemma quiescent_sums s c : quiescent s c -> sumf (wO c) (threads s) = 0 /\ sumf (wP c) (threads s) = 0.
Proof.
  unfold quiescent. induction (threads s) as [|t l IH]; intros Hq; cbn [sumf]; [split; reflexivity|].
  destruct IH as [I1 I2]; [intros t' Ht'; apply Hq; now right|]. rewrite I1, I2.
  destruct (Hq t (or_introl eq_refl)) as [Q1 Q2].
  split.
  - destruct t as [[]|]; cbn; try reflexivity. destruct (Nat.eqb_spec c0 c); [subst; congruence|reflexivity].
  - destruct t as [[]|]; cbn; try reflexivity. destruct (Nat.eqb_spec c0 c); [subst; congruence|reflexivity].
Qed.

Theorem penalty_bound s c : reachable s -> (c < length (arena s))%nat ->
  0 <= c_pen (getc s c) /\
  Z.of_nat (length (c_timers (getc s c))) <= maxPenalty /\
  (quiescent s c -> c_pen (getc s c) = Z.of_nat (length (c_timers (getc s c))) /\ c_pen (getc s c) <= maxPenalty).
Proof.
  intros Hr Hc. destruct (inv_client s (reachable_inv s Hr) c Hc) as (H1 & H2 & _).
  pose proof (sumf_nonneg (wO c) (threads s) (wO_nonneg c)). pose proof (sumf_nonneg (wP c) (threads s) (wP_nonneg c)).
  repeat split; try lia; destruct (quiescent_sums s c H3) as [Q1 Q2]; lia.
Qed.

Theorem penalty_expires s c : reachable s -> (c < length (arena s))%nat -> quiescent s c ->
  (forall d, In d (c_timers (getc s c)) -> now s < d) ->            (* every due timer has fired *)
  c_last (getc s c) + penaltyDuration <= now s ->                  (* the last penalised failure is penaltyDuration old *)
  c_pen (getc s c) = 0.
Proof.
  intros Hr Hc Hq Hdue Hold. destruct (inv_client s (reachable_inv s Hr) c Hc) as (H1 & _ & H3 & _).
  destruct (quiescent_sums s c Hq) as [Q1 Q2]. rewrite H1, Q1, Q2.
  destruct (c_timers (getc s c)) as [|d r]; [reflexivity|].
  exfalso. specialize (H3 d (or_introl eq_refl)). specialize (Hdue d (or_introl eq_refl)). lia.
Qed.

(* the ghost c_last is what its name says: LSetTimer (the penalised failure) stamps it with the clock, nothing else moves it *)
Lemma last_is_last_penalised s l s' c : step s l = Some s' -> (c < length (arena s))%nat ->
  c_last (getc s' c) = match l with
                       | LSetTimer tid => match get_thread s tid with Some (PPreTimer c') => if (c' =? c)%nat then now s else c_last (getc s c) | _ => c_last (getc s c) end
                       | _ => c_last (getc s c)
                       end.
Proof.
  intros Hs Hc. destruct l as [ext|tid healthy|tid|tid|tid|tid|c0 i|t| |verdicts]; cbn [step] in Hs.
  - destruct (choose _); injection Hs as <-; reflexivity.
  - destruct (get_thread s tid) as [[]|]; try discriminate. injection Hs as <-. reflexivity.
  - destruct (get_thread s tid) as [[| c0 | | |]|]; try discriminate. injection Hs as <-. unfold getc at 1. cbn [arena].
    destruct (Nat.eq_dec c0 c) as [->|Hn]; [rewrite getc_upd_same by assumption; reflexivity|rewrite getc_upd_other by assumption; reflexivity].
  - destruct (get_thread s tid) as [[| | c0 | |]|]; try discriminate. injection Hs as <-. unfold getc at 1. cbn [arena].
    destruct (Nat.eq_dec c0 c) as [->|Hn]; [rewrite getc_upd_same by assumption; reflexivity|rewrite getc_upd_other by assumption; reflexivity].
  - destruct (get_thread s tid) as [[| | | c0 |]|]; try discriminate. injection Hs as <-. unfold getc at 1. cbn [arena].
    destruct (Nat.eqb_spec c0 c) as [->|Hn]; [rewrite getc_upd_same by assumption; reflexivity|rewrite getc_upd_other by assumption; reflexivity].
  - destruct (get_thread s tid) as [[| | | | c0]|]; try discriminate. injection Hs as <-. unfold getc at 1. cbn [arena].
    destruct (Nat.eq_dec c0 c) as [->|Hn]; [rewrite getc_upd_same by assumption; reflexivity|rewrite getc_upd_other by assumption; reflexivity].
  - destruct (nth_error _ i); [|discriminate]. destruct (_ && _); [|discriminate]. injection Hs as <-. unfold getc at 1. cbn [arena].
    destruct (Nat.eq_dec c0 c) as [->|Hn]; [rewrite getc_upd_same by assumption; reflexivity|rewrite getc_upd_other by assumption; reflexivity].
  - destruct (now s <=? t); [|discriminate]. injection Hs as <-. reflexivity.
  - injection Hs as <-. unfold getc. cbn [arena]. now rewrite app_nth1.
  - injection Hs as <-. reflexivity.
Qed.

(* ---- routing and the no-client case ---------------------------------------------------------------------------------------- *)
Theorem get_routes_to_first_minimum s ext s' : step s (LGet ext) = Some s' -> do_init s <> [] ->
  exists i c, log s' = EChosen (length (threads s)) c :: log s /\ nth_error (do_init s) i = Some c /\
              minimal_first (loads s (do_init s) ext) i /\ threads s' = threads s ++ [Some (PCall c)].
Proof.
  cbn [step]. intros Hs Hne. destruct (choose (loads s (do_init s) ext)) as [i|] eqn:E.
  - injection Hs as <-. exists i, (nth i (do_init s) 0%nat). cbn [log threads]. pose proof (choose_minimal _ _ E) as Hm.
    repeat split; try assumption. apply nth_error_nth'. apply minimal_first_lt in Hm. now rewrite loads_length in Hm.
  - exfalso. apply choose_none in E. apply Hne. destruct (do_init s); [reflexivity|discriminate].
Qed.

Theorem no_clients_error s ext : do_init s = [] ->
  exists s', step s (LGet ext) = Some s' /\ log s' = ENoClients (length (threads s)) :: log s /\
             arena s' = arena s /\ threads s' = threads s ++ [None].
Proof. intros He. cbn [step]. rewrite He. cbn [loads choose]. eexists. repeat split. Qed.

Theorem get_total s ext : step s (LGet ext) <> None.
Proof. cbn [step]. destruct (choose _); discriminate. Qed.
