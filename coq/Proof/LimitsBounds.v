(* C12: bounds, rejections and balance, derived from the accounting invariant of Proof/LimitsProof.v. *)
From Coq Require Import List ZArith NArith Bool Arith Lia ZifyBool ZifyN ZifyNat.
From FH Require Import Gen.GenC12 Model.Limits Spec.LimitsSpec Proof.LimitsProof.
Import ListNotations.
Open Scope Z_scope.

Lemma run_reach cf tr : forall s0 s, reach cf s0 -> run cf s0 tr = Some s -> reach cf s.
Proof.
  induction tr as [|l tr IH]; intros s0 s R H; cbn in H; [injection H as <-; exact R|].
  destruct (step cf s0 l) as [s1|] eqn:E; [|discriminate]. eapply IH; [|exact H]. eapply reach_step; eauto.
Qed.

(* ---- Concurrency ------------------------------------------------------------------------------------- *)

Lemma serving_sc_le r : b2z (serving_sc r) <= w_sc r.
Proof. unfold serving_sc, is_serving, w_sc. destruct (ph r), (cvia r); cbn; lia. Qed.

Lemma serving_loop_le k r : b2z (serving_loop k r) <= hw k r.
Proof. unfold serving_loop, is_serving, hw. destruct (ph r), (cvia r) as [k'|]; cbn; try lia; destruct (Nat.eqb k' k); cbn; lia. Qed.

(* every entry point keeps its own bound, whatever the others do *)
Lemma serving_per_entry cf s : reach cf s ->
  sumf (fun r => b2z (serving_sc r)) (conns s) <= effConc cf /\
  forall k, sumf (fun r => b2z (serving_loop k r)) (conns s) <= effConc cf.
Proof.
  intros R. pose proof (inv_reach _ _ R) as I. split.
  - pose proof (i_sc _ _ I). assert (sumf (fun r => b2z (serving_sc r)) (conns s) <= sumf w_sc (conns s)); [|lia].
    apply sumf_le. apply Forall_forall. intros r _. apply serving_sc_le.
  - intros k. assert (H : sumf (fun r => b2z (serving_loop k r)) (conns s) <= sumf (hw k) (conns s)).
    { apply sumf_le. apply Forall_forall. intros r _. apply serving_loop_le. }
    destruct (nth_error (loops s) k) as [lp|] eqn:E.
    + destruct (i_pool _ _ I _ _ E) as (H1 & H2 & H3). lia.
    + assert (Hz : sumf (hw k) (conns s) = 0).
      { apply sumf_zero. eapply Forall_impl; [|exact (i_via _ _ I)]. intros r Hr. unfold via_ok in Hr. unfold hw.
        apply nth_error_None in E. destruct (cvia r) as [k'|]; [|reflexivity].
        destruct (Nat.eqb k' k) eqn:E2; [apply Nat.eqb_eq in E2; lia|]. destruct (ph r); reflexivity. }
      pose proof (effConc_pos cf). lia.
Qed.

(* the uses for which Server.Concurrency is documented to work: only ServeConn ... *)
Lemma serving_bound_serveconn_only cf s : reach cf s -> loops s = [] -> n_serving s <= effConc cf.
Proof.
  intros R Hl. pose proof (inv_reach _ _ R) as I. destruct (serving_per_entry _ _ R) as [Hsc _].
  assert (H : n_serving s <= sumf (fun r => b2z (serving_sc r)) (conns s)); [|lia].
  unfold n_serving. apply sumf_le. eapply Forall_impl; [|exact (i_via _ _ I)]. intros r Hr.
  unfold via_ok in Hr. rewrite Hl in Hr. unfold serving_sc. destruct (cvia r); [cbn in Hr; lia|]. rewrite andb_true_r. lia.
Qed.

(* ... or Serve called once and no ServeConn *)
Lemma serving_bound_single_serve cf s : reach cf s -> (length (loops s) <= 1)%nat ->
  Forall (fun r => cvia r <> VConn) (conns s) -> n_serving s <= effConc cf.
Proof.
  intros R Hl Hnc. pose proof (inv_reach _ _ R) as I. destruct (serving_per_entry _ _ R) as [_ Hk].
  assert (H : n_serving s <= sumf (fun r => b2z (serving_loop 0 r)) (conns s)); [|specialize (Hk O); lia].
  unfold n_serving. apply sumf_le. pose proof (i_via _ _ I) as Hv. rewrite Forall_forall in *. intros r Hr.
  specialize (Hv _ Hr). specialize (Hnc _ Hr). unfold via_ok in Hv. unfold serving_loop.
  destruct (cvia r) as [k|]; [|congruence]. assert (k = O) by lia. subst k. cbn. rewrite andb_true_r. lia.
Qed.

(* outside those uses the total is not bounded by Concurrency: two Serve calls, Concurrency = 1, two connections served *)
Definition two_serve_trace : list label :=
  [LServeStart; LServeStart; LAccept 0 AOther; LOpenInc 0; LGetChOk 0; LStart 0; LAccept 1 AOther; LOpenInc 1; LGetChOk 1; LStart 1].

Lemma serving_exceeds_with_two_serve_calls :
  exists cf tr s, run cf init tr = Some s /\ reach cf s /\ effConc cf = 1 /\ n_serving s = 2.
Proof.
  exists (mkCfg 1 0 false), two_serve_trace.
  destruct (run (mkCfg 1 0 false) init two_serve_trace) as [s|] eqn:E; [|vm_compute in E; discriminate].
  exists s. split; [reflexivity|]. split; [eapply run_reach; [apply reach_init|exact E]|].
  vm_compute in E. injection E as <-. split; vm_compute; reflexivity.
Qed.

(* ---- MaxConnsPerIP ------------------------------------------------------------------------------------ *)
(* a connection that needed the per-IP check holds its unit from the check until its first Close *)
Definition holds_unit (cf : cfg) (r : crec) : Prop :=
  needs_reg cf (cip r) = true -> ph r <> PArrived -> closed r = false -> reg r = true.

Lemma holds_unit_step cf s l s' : Forall (holds_unit cf) (conns s) -> step cf s l = Some s' -> Forall (holds_unit cf) (conns s').
Proof.
  intros F Hstep. destruct l; cbn [step] in Hstep;
  try (destruct (nth_error (loops s) k) as [lp|] eqn:Hk; [|discriminate]);
  try (match type of Hstep with context[nth_error (conns s) ?c] =>
         destruct (nth_error (conns s) c) as [r|] eqn:Hn; [|discriminate];
         pose proof (Forall_nth _ _ _ _ F Hn) as Hr; unfold holds_unit in Hr;
         destruct r as [v ip0 rg cl p h rs]; unfold set_ph, set_hj, set_conns, close_conn in Hstep;
         cbn [ph cvia hj reg closed cip resp] in Hstep, Hr end).
  all: repeat match type of Hstep with
       | context[if ?b then _ else _] => destruct b eqn:?
       | context[match ?x with _ => _ end] => destruct x eqn:?
       end; try discriminate Hstep; injection Hstep as <-; cbn [conns]; try exact F.
  all: try (apply Forall_upd; [exact F|]; unfold holds_unit; cbn; intros; try congruence; try (apply Hr; auto; discriminate); auto).
  all: try (apply Forall_app; split; [exact F|]; constructor; [|constructor]; unfold holds_unit; cbn; intros; congruence).
Qed.

Lemma holds_unit_reach cf s : reach cf s -> Forall (holds_unit cf) (conns s).
Proof. induction 1 as [|s l s' _ IH Hs]; [constructor|exact (holds_unit_step _ _ _ _ IH Hs)]. Qed.

(* connections from one IPv4 address that are inside their request loop and not closed *)

Lemma perip_bound cf s : reach cf s -> 0 < maxip cf -> forall ip, ip <> 0%N ->
  sumf (fun r => b2z (served_from ip r)) (conns s) <= maxip cf.
Proof.
  intros R Hmax ip Hip. pose proof (inv_reach _ _ R) as I. pose proof (i_live _ _ I Hmax ip) as Hl. unfold n_live in Hl.
  assert (H : sumf (fun r => b2z (served_from ip r)) (conns s) <= sumf (fun r => b2z (live_ip ip r)) (conns s)); [|lia].
  apply sumf_le. eapply Forall_impl; [|exact (holds_unit_reach _ _ R)]. intros r Hr. unfold holds_unit in Hr.
  unfold served_from, live_ip, is_serving. destruct (ph r) eqn:Ep; cbn; try apply b2z_range.
  destruct (N.eqb (cip r) ip) eqn:E; cbn; [|destruct (reg r); cbn; lia]. apply N.eqb_eq in E.
  destruct (closed r) eqn:Ec; cbn; [destruct (reg r); cbn; lia|].
  rewrite Hr; [cbn; lia| |congruence|reflexivity]. unfold needs_reg. rewrite E.
  apply andb_true_iff. split; [lia|]. apply negb_true_iff. now apply N.eqb_neq.
Qed.

(* all registered connections of an address, including those still in the acceptor or being torn down *)
Lemma live_bound cf s : reach cf s -> 0 < maxip cf -> forall ip, n_live s ip <= maxip cf.
Proof. intros R. exact (i_live _ _ (inv_reach _ _ R)). Qed.

(* ---- rejections ----------------------------------------------------------------------------------------- *)

(* per-IP: an arrival from an address that already has MaxConnsPerIP live connections is answered 429 and closed,
   and the counters are what they were *)
Lemma reject_ip cf s c r : reach cf s -> nth_error (conns s) c = Some r -> ph r = PArrived ->
  maxip cf <= n_live s (cip r) ->
  exists s1 s2 r2, step cf s (LRegister c) = Some s1 /\ step cf s1 (LRejectIP c) = Some s2 /\
    nth_error (conns s2) c = Some r2 /\ rejected_with StatusTooManyRequests r2 /\
    concurrency s2 = concurrency s /\ open s2 = open s /\ (forall ip, perip s2 ip = perip s ip).
Proof.
  intros R Hn Hp Hover. pose proof (inv_reach _ _ R) as I.
  assert (Hle : n_live s (cip r) <= sumf (w_ip (cip r)) (conns s)).
  { unfold n_live. apply sumf_le. apply Forall_forall. intros x _. apply live_le_wip. }
  destruct r as [v ip0 rg cl p h rs]. cbn in Hp, Hover, Hle. subst p.
  cbn [step]. rewrite Hn. cbn [ph cip cvia closed hj resp]. unfold register.
  rewrite (pget_inv _ _ _ I). set (n := sumf (w_ip ip0) (conns s) + 1).
  assert (En : (maxip cf <? n) = true) by (subst n; lia). rewrite En.
  eexists _, _, _. split; [reflexivity|]. cbn [step conns]. rewrite (nth_error_upd_same _ _ _ _ Hn). cbn [ph cip cvia hj].
  split; [reflexivity|]. cbn [conns concurrency open perip].
  split; [apply (nth_error_upd_same _ c _ (mkC v ip0 true cl PIPOver h rs)); apply (nth_error_upd_same _ _ _ _ Hn)|].
  split; [repeat split|]. split; [reflexivity|]. split; [reflexivity|].
  intros ip. unfold unregister, pset, pget. destruct (N.eqb ip ip0) eqn:E.
  - rewrite N.eqb_refl. apply N.eqb_eq in E. subst ip. rewrite (i_ip _ _ I). unfold norm. subst n.
    replace (sumf (w_ip ip0) (conns s) + 1 - 1) with (sumf (w_ip ip0) (conns s)) by lia. reflexivity.
  - reflexivity.
Qed.

(* ... and that goroutine has no other move *)
Lemma only_move_when_rejecting cf s c r l s' : reach cf s -> nth_error (conns s) c = Some r ->
  label_conn l = Some c -> step cf s l = Some s' ->
  match ph r with
  | PArrived => l = LRegister c
  | PIPOver => l = LRejectIP c
  | PConcOver => l = LAcquireFail c
  | PNoWorker => l = LRejectDec c
  | PRejecting => exists e, l = LRejectConc c e
  | _ => True
  end.
Proof.
  intros R Hn Hl Hs. pose proof (inv_reach _ _ R) as I. pose proof (Forall_nth _ _ _ _ (i_wf _ _ I) Hn) as Hwf.
  unfold wf_conn in Hwf. destruct l; cbn in Hl; try discriminate; injection Hl as ->; cbn [step] in Hs; rewrite Hn in Hs;
  destruct r as [v ip0 rg cl p h rs]; cbn [ph cvia hj] in *; destruct p; try exact Logic.I; try reflexivity; try (eexists; reflexivity); try discriminate Hs;
  try (destruct v; discriminate Hs); destruct Hwf as (_ & Hw); intuition (subst; try discriminate).
Qed.

(* a rejected connection is never touched by the request loop again: it is done, closed, and stays so *)
Lemma rejected_stays cf s : reach cf s -> Forall (fun r => resp r <> 0 -> ph r = PDone /\ closed r = true) (conns s).
Proof.
  intros R. pose proof (inv_reach _ _ R) as I. eapply Forall_impl; [|exact (i_wf _ _ I)].
  intros r (_ & Hw) Hr. destruct (ph r); intuition congruence.
Qed.

(* Concurrency through ServeConn *)
Lemma reject_conc_serveconn cf s c r : reach cf s -> nth_error (conns s) c = Some r -> ph r = PChecked -> cvia r = VConn ->
  effConc cf <= concurrency s -> forall e,
  exists s1 s2 s3 r3, step cf s (LTryAcquire c) = Some s1 /\ step cf s1 (LAcquireFail c) = Some s2 /\
    step cf s2 (LRejectConc c e) = Some s3 /\
    nth_error (conns s3) c = Some r3 /\ rejected_with StatusServiceUnavailable r3 /\
    concurrency s3 = concurrency s /\ open s3 = open s /\
    (forall ip, perip s3 ip = if reg r && N.eqb ip (cip r) then norm (sumf (w_ip ip) (conns s) - 1) else perip s ip).
Proof.
  intros R Hn Hp Hv Hover e. pose proof (inv_reach _ _ R) as I.
  destruct r as [v ip0 rg cl p h rs]. cbn in Hp, Hv. subst p v.
  cbn [step]. rewrite Hn. cbn [ph cip cvia closed hj resp reg].
  assert (E : (concurrency s + 1 <=? effConc cf) = false) by lia. rewrite E.
  destruct rg.
  - eexists _, _, _, _. split; [reflexivity|]. cbn [step conns]. unfold set_ph. rewrite (nth_error_upd_same _ _ _ _ Hn). cbn [ph cip cvia hj reg closed resp].
    split; [reflexivity|]. cbn [step conns concurrency open perip loops serving].
    rewrite (nth_error_upd_same _ c _ (mkC VConn ip0 true cl PConcOver h rs)) by (apply (nth_error_upd_same _ _ _ _ Hn)).
    cbn [ph cip cvia hj reg closed resp]. unfold close_conn. cbn [reg cip cvia ph hj resp closed]. replace (if e then unregister (perip s) ip0 else unregister (perip s) ip0) with (unregister (perip s) ip0) by (destruct e; reflexivity).
    split; [reflexivity|]. cbn [conns concurrency open perip].
    split; [eapply nth_error_upd_same; eapply nth_error_upd_same; apply (nth_error_upd_same _ _ _ _ Hn)|].
    split; [repeat split|]. split; [lia|]. split; [reflexivity|]. intros ip. rewrite (unreg_spec cf s ip0 ip I). cbn [andb].
    destruct (N.eqb ip ip0); [reflexivity|]. symmetry. apply (i_ip _ _ I).
  - eexists _, _, _, _. split; [reflexivity|]. cbn [step conns]. unfold set_ph. rewrite (nth_error_upd_same _ _ _ _ Hn). cbn [ph cip cvia hj reg closed resp].
    split; [reflexivity|]. cbn [step conns concurrency open perip loops serving].
    rewrite (nth_error_upd_same _ c _ (mkC VConn ip0 false cl PConcOver h rs)) by (apply (nth_error_upd_same _ _ _ _ Hn)).
    cbn [ph cip cvia hj reg closed resp]. unfold close_conn. cbn [reg cip cvia ph hj resp closed]. replace (if e then unregister (perip s) ip0 else unregister (perip s) ip0) with (unregister (perip s) ip0) by (destruct e; reflexivity).
    split; [reflexivity|]. cbn [conns concurrency open perip].
    split; [eapply nth_error_upd_same; eapply nth_error_upd_same; apply (nth_error_upd_same _ _ _ _ Hn)|].
    split; [repeat split|]. split; [lia|]. split; reflexivity.
Qed.

(* Concurrency through Serve: all workers of the loop's pool are busy *)
Lemma reject_conc_serve cf s c r k lp : reach cf s -> nth_error (conns s) c = Some r -> ph r = POpened -> cvia r = VServe k ->
  nth_error (loops s) k = Some lp -> ready lp <= 0 -> effConc cf <= wcount lp -> forall e,
  step cf s (LGetChOk c) = None /\
  exists s1 s2 s3 r3, step cf s (LGetChFail c) = Some s1 /\ step cf s1 (LRejectDec c) = Some s2 /\
    step cf s2 (LRejectConc c e) = Some s3 /\
    nth_error (conns s3) c = Some r3 /\ rejected_with StatusServiceUnavailable r3 /\
    concurrency s3 = concurrency s /\ open s3 = open s - 1 /\
    (forall ip, perip s3 ip = if reg r && N.eqb ip (cip r) then norm (sumf (w_ip ip) (conns s) - 1) else perip s ip).
Proof.
  intros R Hn Hp Hv Hk Hr Hw e. pose proof (inv_reach _ _ R) as I.
  destruct r as [v ip0 rg cl p h rs]. cbn in Hp, Hv. subst p v.
  assert (E1 : (0 <? ready lp) = false) by lia. assert (E2 : (wcount lp <? effConc cf) = false) by lia.
  split; [cbn [step]; rewrite Hn; cbn [ph cvia]; rewrite Hk, E1, E2; reflexivity|].
  cbn [step]. rewrite Hn. cbn [ph cip cvia closed hj resp reg]. rewrite Hk, E1, E2. cbn [orb].
  destruct rg.
  - eexists _, _, _, _. split; [reflexivity|]. unfold set_conns, set_ph. cbn [step conns].
    rewrite (nth_error_upd_same _ _ _ _ Hn). cbn [ph cip cvia hj reg closed resp].
    split; [reflexivity|]. cbn [step conns concurrency open perip loops serving].
    rewrite (nth_error_upd_same _ c _ (mkC (VServe k) ip0 true cl PNoWorker h rs)) by (apply (nth_error_upd_same _ _ _ _ Hn)).
    cbn [ph cip cvia hj reg closed resp]. unfold close_conn. cbn [reg cip cvia ph hj resp closed]. replace (if e then unregister (perip s) ip0 else unregister (perip s) ip0) with (unregister (perip s) ip0) by (destruct e; reflexivity).
    split; [reflexivity|]. cbn [conns concurrency open perip].
    split; [eapply nth_error_upd_same; eapply nth_error_upd_same; apply (nth_error_upd_same _ _ _ _ Hn)|].
    split; [repeat split|]. split; [lia|]. split; [reflexivity|]. intros ip. rewrite (unreg_spec cf s ip0 ip I). cbn [andb].
    destruct (N.eqb ip ip0); [reflexivity|]. symmetry. apply (i_ip _ _ I).
  - eexists _, _, _, _. split; [reflexivity|]. unfold set_conns, set_ph. cbn [step conns].
    rewrite (nth_error_upd_same _ _ _ _ Hn). cbn [ph cip cvia hj reg closed resp].
    split; [reflexivity|]. cbn [step conns concurrency open perip loops serving].
    rewrite (nth_error_upd_same _ c _ (mkC (VServe k) ip0 false cl PNoWorker h rs)) by (apply (nth_error_upd_same _ _ _ _ Hn)).
    cbn [ph cip cvia hj reg closed resp]. unfold close_conn. cbn [reg cip cvia ph hj resp closed]. replace (if e then unregister (perip s) ip0 else unregister (perip s) ip0) with (unregister (perip s) ip0) by (destruct e; reflexivity).
    split; [reflexivity|]. cbn [conns concurrency open perip].
    split; [eapply nth_error_upd_same; eapply nth_error_upd_same; apply (nth_error_upd_same _ _ _ _ Hn)|].
    split; [repeat split|]. split; [lia|]. split; reflexivity.
Qed.

(* ---- balance ---------------------------------------------------------------------------------------------- *)
Lemma exact_accounting cf s : reach cf s ->
  concurrency s = sumf w_conc (conns s) /\ open s = sumf w_open (conns s) /\
  (forall ip, perip s ip = norm (sumf (w_ip ip) (conns s))) /\ serving s = n_running s.
Proof. intros R. pose proof (inv_reach _ _ R) as I. repeat split; apply I. Qed.

Lemma balance cf s : reach cf s -> all_terminal s = true ->
  concurrency s = 0 /\ open s = 0 /\ (forall ip, perip s ip = None) /\ serving s = n_running s.
Proof.
  intros R Ht. pose proof (inv_reach _ _ R) as I. unfold all_terminal in Ht. rewrite forallb_forall in Ht.
  assert (Hall : Forall (fun r => w_conc r = 0 /\ w_open r = 0 /\ forall ip, w_ip ip r = 0) (conns s)).
  { pose proof (i_wf _ _ I) as Hwf. rewrite Forall_forall in *. intros r Hr. specialize (Ht _ Hr). specialize (Hwf _ Hr).
    unfold terminal in Ht. destruct Hwf as (Hcr & _). unfold w_conc, w_open, w_ip.
    destruct (ph r); try discriminate. repeat split. intros ip. rewrite (Hcr Ht). reflexivity. }
  rewrite (i_conc _ _ I), (i_open _ _ I). repeat split.
  - apply sumf_zero. eapply Forall_impl; [|exact Hall]. cbn. tauto.
  - apply sumf_zero. eapply Forall_impl; [|exact Hall]. cbn. tauto.
  - intros ip. rewrite (i_ip _ _ I). rewrite (sumf_zero (w_ip ip)); [reflexivity|].
    eapply Forall_impl; [|exact Hall]. cbn. intros r (_ & _ & H). apply H.
  - apply (i_serving _ _ I).
Qed.

(* what is left while hijacked connections are still held by their handlers: only their per-IP units *)

Lemma balance_with_hijacked cf s : reach cf s -> all_done s = true ->
  concurrency s = 0 /\ open s = 0 /\ forall ip, perip s ip = norm (sumf (w_ip ip) (conns s)).
Proof.
  intros R Ht. pose proof (inv_reach _ _ R) as I. unfold all_done in Ht. rewrite forallb_forall in Ht.
  rewrite (i_conc _ _ I), (i_open _ _ I). repeat split.
  - apply sumf_zero. apply Forall_forall. intros r Hr. specialize (Ht _ Hr). unfold w_conc. destruct (ph r); try discriminate. reflexivity.
  - apply sumf_zero. apply Forall_forall. intros r Hr. specialize (Ht _ Hr). unfold w_open. destruct (ph r); try discriminate. reflexivity.
  - apply (i_ip _ _ I).
Qed.

(* ---- the getters ------------------------------------------------------------------------------------------- *)
Lemma getters_zero_at_quiescence cf s : reach cf s -> all_terminal s = true ->
  get_concurrency s = 0 /\ get_open s = 0.
Proof. intros R Ht. destruct (balance _ _ R Ht) as (H1 & H2 & _). auto. Qed.

Lemma getters_nonneg cf s : reach cf s -> 0 <= get_concurrency s /\ 0 <= get_open s.
Proof.
  intros R. pose proof (inv_reach _ _ R) as I. unfold get_concurrency, get_open. rewrite (i_conc _ _ I), (i_open _ _ I). split.
  - apply sumf_nonneg. intros r. unfold w_conc. destruct (ph r), (cvia r); lia.
  - apply sumf_nonneg. intros r. unfold w_open. destruct (ph r); lia.
Qed.

(* a further Close on a connection that has been closed changes nothing *)
Lemma close_idempotent cf s c r s' : nth_error (conns s) c = Some r -> closed r = true -> reg r = false ->
  forall e, step cf s (LUserClose c e) = Some s' ->
  concurrency s' = concurrency s /\ open s' = open s /\ perip s' = perip s /\ conns s' = conns s /\ loops s' = loops s.
Proof.
  intros Hn Hc Hr e Hs. cbn [step] in Hs. rewrite Hn in Hs. destruct r as [v ip0 rg cl p h rs]. cbn in Hc, Hr. subst rg cl.
  unfold close_conn in Hs. cbn [ph reg cvia cip hj resp] in Hs.
  assert (Hu : upd (conns s) c (mkC v ip0 false true p h rs) = conns s).
  { clear Hs. revert c Hn. induction (conns s) as [|x l IH]; intros [|c] Hn; cbn in *; try discriminate; [congruence|]. f_equal. auto. }
  destruct p; try discriminate Hs; injection Hs as <-; cbn; rewrite Hu; auto.
Qed.

(* ---- statements in the vocabulary of Spec/LimitsSpec.v ---------------------------------------------------------- *)
Lemma concurrency_bound cf s : reach cf s -> documented_use s -> n_serving s <= effConc cf.
Proof.
  intros R [H|[H1 H2]]; [exact (serving_bound_serveconn_only _ _ R H)|exact (serving_bound_single_serve _ _ R H1 H2)].
Qed.

Lemma concurrency_bound_per_entry cf s : reach cf s ->
  n_serving_sc s <= effConc cf /\ forall k, n_serving_loop s k <= effConc cf.
Proof. exact (serving_per_entry cf s). Qed.

Lemma concurrency_bound_needs_documented_use :
  exists cf s, reach cf s /\ ~ documented_use s /\ effConc cf < n_serving s.
Proof.
  destruct serving_exceeds_with_two_serve_calls as (cf & tr & s & Hrun & R & Hc & Hn).
  exists cf, s. split; [exact R|]. split; [|lia].
  intros D. pose proof (concurrency_bound _ _ R D). lia.
Qed.

Lemma perip_bound' cf s : reach cf s -> 0 < maxip cf -> forall ip, ip <> 0%N -> n_served_from s ip <= maxip cf.
Proof. exact (perip_bound cf s). Qed.

Lemma balance' cf s : reach cf s -> all_terminal s = true ->
  concurrency s = 0 /\ open s = 0 /\ perip_empty s /\ serving s = n_running s.
Proof. exact (balance cf s). Qed.

(* ---- the outcome of the underlying Close ------------------------------------------------------------------------ *)
(* whether the underlying net.Conn.Close fails or not makes no difference to any counter: the per-IP unit is given back either way *)
Lemma close_conn_outcome m r : close_conn m r true = close_conn m r false.
Proof. unfold close_conn. destruct (reg r); reflexivity. Qed.

Lemma close_outcome_irrelevant cf s c :
  step cf s (LRejectConc c true) = step cf s (LRejectConc c false) /\
  step cf s (LCloseAfter c true) = step cf s (LCloseAfter c false) /\
  step cf s (LHijackDone c true) = step cf s (LHijackDone c false) /\
  step cf s (LUserClose c true) = step cf s (LUserClose c false).
Proof.
  repeat split; cbn [step]; destruct (nth_error (conns s) c) as [r|]; try reflexivity; rewrite (close_conn_outcome (perip s) r); reflexivity.
Qed.

(* a registered connection whose first Close fails has given its unit back all the same *)
Lemma failed_close_unregisters cf s c r s' : reach cf s -> nth_error (conns s) c = Some r -> reg r = true ->
  step cf s (LUserClose c true) = Some s' ->
  perip s' (cip r) = norm (sumf (w_ip (cip r)) (conns s) - 1) /\
  exists r', nth_error (conns s') c = Some r' /\ reg r' = false /\ closed r' = true.
Proof.
  intros R Hn Hr Hs. pose proof (inv_reach _ _ R) as I. cbn [step] in Hs. rewrite Hn in Hs.
  destruct r as [v ip0 rg cl p h rs]. cbn in Hr. subst rg. unfold close_conn in Hs. cbn [ph reg cvia cip hj resp closed] in Hs.
  destruct p; try discriminate Hs; injection Hs as <-; cbn [perip conns cip];
    (split; [rewrite (unreg_spec cf s ip0 ip0 I), N.eqb_refl; reflexivity|eexists; split; [eapply nth_error_upd_same; eauto|split; reflexivity]]).
Qed.
