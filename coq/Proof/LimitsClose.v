(* C12, perIPConn.Close in steps (third LTS of Model/Limits.v): with any number of overlapping Close calls, arbitrarily slow underlying
   closes and arrivals in between, Unregister runs at most once per admitted connection, the counter is exact and the per-IP bound holds. *)
From Coq Require Import List ZArith NArith Bool Arith Lia ZifyBool ZifyN ZifyNat.
From FH Require Import Gen.GenC12 Model.Limits Proof.LimitsProof.
Import ListNotations.
Open Scope Z_scope.

Record xinv (lim : Z) (s : xst) : Prop := mkXI {
  x_acc : forall ip, xm s ip = norm (sumf (holds_ip ip) (xw s));
  x_done : forall c, In c (xunreg s) -> exists ip, nth_error (xw s) c = Some (ip, WDone);
  x_nodup : NoDup (xunreg s);
  x_bound : 0 < lim -> forall ip, sumf (holds_ip ip) (xw s) <= lim
}.

Lemma holds_nonneg ip l : 0 <= sumf (holds_ip ip) l.
Proof. apply sumf_nonneg. intros [a st]. unfold holds_ip. cbn. destruct (N.eqb a ip); [destruct st|]; lia. Qed.

Lemma pget_norm_x (m : pmap) ip x : m ip = norm x -> 0 <= x -> pget m ip = x.
Proof. intros H Hx. unfold pget. rewrite H. unfold norm. destruct (0 <? x) eqn:E; lia. Qed.

Lemma xinv_init lim : xinv lim xinit.
Proof. constructor; cbn; auto; [intros c []|constructor|intros; lia]. Qed.

Lemma xinv_step lim s l s' : xinv lim s -> xstep lim s l = Some s' -> xinv lim s'.
Proof.
  intros [Ha Hd Hn Hb] Hs. destruct l as [ip|c|c|c]; cbn [xstep] in Hs.
  - (* XArrive *)
    unfold register in Hs. pose proof (holds_nonneg ip (xw s)) as Hnn. rewrite (pget_norm_x _ _ _ (Ha ip) Hnn) in Hs.
    destruct (lim <? sumf (holds_ip ip) (xw s) + 1) eqn:E; injection Hs as <-; constructor; cbn [xw xm xunreg]; auto.
    + intros ip'. unfold unregister, pset, pget. destruct (N.eqb ip' ip) eqn:E'.
      * rewrite N.eqb_refl. apply N.eqb_eq in E'. subst ip'. unfold norm.
        replace (sumf (holds_ip ip) (xw s) + 1 - 1) with (sumf (holds_ip ip) (xw s)) by lia. reflexivity.
      * apply Ha.
    + intros ip'. rewrite sumf_app. cbn [sumf].
      replace (holds_ip ip' (ip, WOpen)) with (if N.eqb ip ip' then 1 else 0) by reflexivity.
      unfold pset. rewrite (N.eqb_sym ip' ip). destruct (N.eqb ip ip') eqn:E'.
      * apply N.eqb_eq in E'. subst ip'. unfold norm. match goal with |- context[0 <? ?x] => destruct (0 <? x) eqn:E2 end; [f_equal; lia|lia].
      * rewrite Ha. f_equal. lia.
    + intros c Hc. destruct (Hd c Hc) as (ip' & H). exists ip'. rewrite nth_error_app1; [exact H|]. apply nth_error_Some. congruence.
    + intros Hl ip'. rewrite sumf_app. cbn [sumf].
      replace (holds_ip ip' (ip, WOpen)) with (if N.eqb ip ip' then 1 else 0) by reflexivity. destruct (N.eqb ip ip') eqn:E'.
      * apply N.eqb_eq in E'. subst ip'. lia.
      * specialize (Hb Hl ip'). lia.
  - (* XClose *)
    destruct (nth_error (xw s) c) as [[ip st]|] eqn:Hc; [|discriminate]. destruct st; injection Hs as <-; try (constructor; auto; fail).
    assert (Hsame : forall ip', sumf (holds_ip ip') (upd (xw s) c (ip, WClaimed)) = sumf (holds_ip ip') (xw s)).
    { intros ip'. rewrite (sumf_upd _ _ _ _ _ Hc). unfold holds_ip. cbn. destruct (N.eqb ip ip'); lia. }
    constructor; cbn [xw xm xunreg]; auto.
    + intros ip'. rewrite Hsame. apply Ha.
    + intros c' Hc'. destruct (Hd c' Hc') as (ip' & H). exists ip'. rewrite nth_error_upd_other; [exact H|]. intros ->. congruence.
    + intros Hl ip'. rewrite Hsame. auto.
  - (* XUnder *)
    destruct (nth_error (xw s) c) as [[ip st]|] eqn:Hc; [|discriminate]. destruct st; try discriminate. injection Hs as <-.
    assert (Hsame : forall ip', sumf (holds_ip ip') (upd (xw s) c (ip, WUnderClosed)) = sumf (holds_ip ip') (xw s)).
    { intros ip'. rewrite (sumf_upd _ _ _ _ _ Hc). unfold holds_ip. cbn. destruct (N.eqb ip ip'); lia. }
    constructor; cbn [xw xm xunreg]; auto.
    + intros ip'. rewrite Hsame. apply Ha.
    + intros c' Hc'. destruct (Hd c' Hc') as (ip' & H). exists ip'. rewrite nth_error_upd_other; [exact H|]. intros ->. congruence.
    + intros Hl ip'. rewrite Hsame. auto.
  - (* XUnreg *)
    destruct (nth_error (xw s) c) as [[ip st]|] eqn:Hc; [|discriminate]. destruct st; try discriminate. injection Hs as <-.
    assert (Hnew : forall ip', sumf (holds_ip ip') (upd (xw s) c (ip, WDone)) = sumf (holds_ip ip') (xw s) - (if N.eqb ip ip' then 1 else 0)).
    { intros ip'. rewrite (sumf_upd _ _ _ _ _ Hc). unfold holds_ip. cbn. destruct (N.eqb ip ip'); lia. }
    assert (Hnotin : ~ In c (xunreg s)). { intros Hin. destruct (Hd c Hin) as (ip' & H). congruence. }
    constructor; cbn [xw xm xunreg].
    + intros ip'. rewrite Hnew. unfold unregister, pset. pose proof (holds_nonneg ip (xw s)) as Hnn. rewrite (pget_norm_x _ _ _ (Ha ip) Hnn).
      rewrite N.eqb_sym. destruct (N.eqb ip ip') eqn:E'.
      * apply N.eqb_eq in E'. subst ip'. reflexivity.
      * rewrite Ha. f_equal. lia.
    + intros c' [<-|Hc']; [exists ip; eapply nth_error_upd_same; eauto|].
      destruct (Hd c' Hc') as (ip' & H). exists ip'. rewrite nth_error_upd_other; [exact H|]. intros ->. contradiction.
    + constructor; auto.
    + intros Hl ip'. rewrite Hnew. specialize (Hb Hl ip'). destruct (N.eqb ip ip'); lia.
Qed.

Lemma xinv_reach lim s : xreach lim s -> xinv lim s.
Proof. induction 1 as [|s l s' _ IH Hs]; [apply xinv_init|exact (xinv_step _ _ _ _ IH Hs)]. Qed.

Lemma open_le_holds ip l : sumf (open_ip ip) l <= sumf (holds_ip ip) l.
Proof. apply sumf_le. apply Forall_forall. intros [a st] _. unfold open_ip, holds_ip. cbn. destruct (N.eqb a ip); [destruct st|]; lia. Qed.

(* Unregister runs at most once per admitted connection, whatever Close calls overlap *)
Lemma unregister_at_most_once lim s : xreach lim s -> NoDup (xunreg s).
Proof. intros R. exact (x_nodup _ _ (xinv_reach _ _ R)). Qed.

(* the counter is exactly the number of admitted connections of the address that have not been unregistered, and so never more than
   MaxConnsPerIP connections of an address are open (or being closed) at once *)
Lemma close_steps_accounting lim s : xreach lim s ->
  (forall ip, xm s ip = norm (sumf (holds_ip ip) (xw s))) /\
  (0 < lim -> forall ip, sumf (open_ip ip) (xw s) <= sumf (holds_ip ip) (xw s) /\ sumf (holds_ip ip) (xw s) <= lim).
Proof.
  intros R. pose proof (xinv_reach _ _ R) as I. split; [apply I|]. intros Hl ip. split; [apply open_le_holds|apply (x_bound _ _ I Hl)].
Qed.

(* the schedule of the overlapping closes: B and A of one address are open (limit 2); A's Close is inside the underlying Close when a second
   Close of A arrives; both return; one unit was given back, so C is admitted and D is rejected *)
Definition overlap_trace (ip : N) : list xlabel :=
  [XArrive ip; XArrive ip; XClose 1; XClose 1; XUnder 1; XUnreg 1; XArrive ip; XArrive ip].

Lemma overlapping_closes_give_back_one_unit :
  match xrun 2 xinit (overlap_trace 16843009) with
  | Some s => xm s 16843009%N = Some 2 /\ length (xw s) = 3%nat /\ xunreg s = [1%nat] /\
              xstep 2 s (XUnreg 1) = None /\ xstep 2 s (XUnder 1) = None
  | None => False
  end.
Proof. vm_compute. repeat split; reflexivity. Qed.
