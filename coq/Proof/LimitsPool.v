(* C12, wrapper objects (second LTS of Model/Limits.v): every Close closes the connection the object was acquired for, however
   often and by whomever it is called (the objects are not recycled: perIPConnPool stays empty). *)
From Coq Require Import List ZArith NArith Bool Arith Lia.
From FH Require Import Gen.GenC12 Model.Limits Proof.LimitsProof.
Import ListNotations.

Record pinv (s : pst) : Prop := mkPI {
  pi_own : forall c w, nth_error (owner s) c = Some w ->
             exists ip, nth_error (wrappers s) w = Some (mkW (Some c) ip) \/ nth_error (wrappers s) w = Some (mkW None ip);
  pi_pool : pool s = [];
  pi_closes : closes_own s = true
}.

Lemma pinv_init : pinv pinit.
Proof. constructor; cbn; auto. intros [|c] w H; discriminate. Qed.

Lemma nth_error_lt {A} (l : list A) i x : nth_error l i = Some x -> (i < length l)%nat.
Proof. intros H. apply nth_error_Some. congruence. Qed.

Lemma pinv_step s l s' : pinv s -> pstep s l = Some s' -> pinv s'.
Proof.
  intros [Ho Hp Hc] Hs. destruct l as [ip [i|]|c]; cbn [pstep] in Hs.
  - rewrite Hp in Hs. destruct i; discriminate.
  - injection Hs as <-. constructor; cbn [owner wrappers pool uclosed]; auto.
    intros c w' Hc'. destruct (Nat.lt_ge_cases c (length (owner s))) as [Hlt|Hge].
    + rewrite nth_error_app1 in Hc' by exact Hlt. destruct (Ho _ _ Hc') as (ip' & [Hw'|Hw']); exists ip'; [left|right];
        (rewrite nth_error_app1; [exact Hw'|eapply nth_error_lt; eauto]).
    + rewrite nth_error_app2 in Hc' by exact Hge. destruct (c - length (owner s))%nat as [|j] eqn:E; [|destruct j; discriminate].
      cbn in Hc'. injection Hc' as <-. assert (c = length (owner s)) by lia. subst c. exists ip. left.
      rewrite nth_error_app2 by lia. now rewrite Nat.sub_diag.
  - destruct (nth_error (owner s) c) as [w|] eqn:Ec; [|discriminate].
    destruct (Ho _ _ Ec) as (ipw & [Hw|Hw]); rewrite Hw in Hs; injection Hs as <-; [|constructor; auto].
    constructor; cbn [owner wrappers pool uclosed]; auto.
    + intros c2 w2 Hc2. destruct (Ho _ _ Hc2) as (ip' & Hw2). destruct (Nat.eq_dec w2 w) as [->|Hne].
      * exists ipw. right. eapply nth_error_upd_same; eauto.
      * exists ip'. rewrite nth_error_upd_other by congruence. exact Hw2.
    + unfold closes_own in *. cbn [uclosed]. rewrite forallb_app, Hc. cbn. now rewrite Nat.eqb_refl.
Qed.

Lemma pinv_run tr : forall s s', pinv s -> prun s tr = Some s' -> pinv s'.
Proof.
  induction tr as [|l tr IH]; intros s s' I Hr; cbn in Hr; [injection Hr as <-; exact I|].
  destruct (pstep s l) as [s1|] eqn:E; [|discriminate]. eapply IH; [|exact Hr]. eapply pinv_step; eauto.
Qed.

(* any number of connections, any number of Close calls through any reference, any interleaving *)
Lemma closes_own_always tr s : prun pinit tr = Some s -> closes_own s = true /\ pool s = [].
Proof. intros Hr. pose proof (pinv_run _ _ _ pinv_init Hr) as I. split; apply I. Qed.

(* the schedule of the former finding: the third party's Close, a new connection, the owner's Close *)
Definition stale_trace : list plabel := [PAcquire 16843009 None; PClose 0; PAcquire 33686018 None; PClose 0].

Lemma stale_close_is_a_noop :
  exists s, prun pinit stale_trace = Some s /\ closes_own s = true /\ uclosed s = [(0, 0)]%nat /\
            pm s 33686018%N = Some 1%Z /\ prun pinit [PAcquire 16843009 None; PClose 0; PAcquire 33686018 (Some 0%nat)] = None.
Proof. eexists. split; [vm_compute; reflexivity|]. repeat split. Qed.
