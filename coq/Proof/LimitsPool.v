(* C12, wrapper pool (second LTS of Model/Limits.v): a Close through a stale reference hits another connection;
   it cannot happen when nobody calls Close twice through the same acquisition. *)
From Coq Require Import List ZArith NArith Bool Arith Lia.
From FH Require Import Gen.GenC12 Model.Limits Proof.LimitsProof.
Import ListNotations.

Lemma remove_nth_In {A} (l : list A) i x : In x (remove_nth l i) -> In x l.
Proof.
  revert i; induction l as [|y l IH]; intros [|i] H; cbn in *; auto. destruct H as [H|H]; auto. right. eauto.
Qed.

Lemma remove_nth_NoDup {A} (l : list A) i : NoDup l -> NoDup (remove_nth l i).
Proof.
  revert i; induction l as [|y l IH]; intros [|i] H; cbn; auto; inversion H; subst; auto.
  constructor; auto. intros Hin. apply remove_nth_In in Hin. contradiction.
Qed.

Lemma remove_nth_notin {A} (l : list A) i w : NoDup l -> nth_error l i = Some w -> ~ In w (remove_nth l i).
Proof.
  revert i; induction l as [|y l IH]; intros [|i] H Hn; cbn in *; try discriminate.
  - injection Hn as ->. now inversion H.
  - inversion H; subst. intros [->|Hin]; [apply nth_error_In in Hn; contradiction|]. eapply IH; eauto.
Qed.

Record pinv (s : pst) (D : list nat) : Prop := mkPI {
  pi_own : forall c w, nth_error (owner s) c = Some w -> ~ In c D -> exists ip, nth_error (wrappers s) w = Some (mkW (Some c) ip);
  pi_pool : forall w, In w (pool s) -> exists ip, nth_error (wrappers s) w = Some (mkW None ip);
  pi_nodup : NoDup (pool s);
  pi_closes : closes_own s = true
}.

Lemma pinv_init : pinv pinit [].
Proof. constructor; cbn; auto; [intros [|c] w H; discriminate|intros w []|constructor]. Qed.

Lemma nth_error_lt {A} (l : list A) i x : nth_error l i = Some x -> (i < length l)%nat.
Proof. intros H. apply nth_error_Some. congruence. Qed.

Lemma closes_own_app s e : closes_own s = true -> Nat.eqb (fst e) (snd e) = true ->
  forallb (fun e => Nat.eqb (fst e) (snd e)) (uclosed s ++ [e]) = true.
Proof. intros H He. rewrite forallb_app. unfold closes_own in H. rewrite H. cbn. now rewrite He. Qed.

Lemma pinv_step s D l s' : pinv s D -> pstep s l = Some s' ->
  match l with PClose c => ~ In c D | _ => True end ->
  pinv s' (match l with PClose c => c :: D | _ => D end).
Proof.
  intros [Ho Hp Hn Hc] Hs Hl. destruct l as [ip [i|]|c]; cbn [pstep] in Hs.
  - (* reuse *)
    destruct (nth_error (pool s) i) as [w|] eqn:Ei; [|discriminate]. injection Hs as <-.
    assert (Hw : In w (pool s)) by (eapply nth_error_In; eauto). destruct (Hp _ Hw) as (ipw & Hwn).
    constructor; cbn [owner wrappers pool uclosed].
    + intros c w' Hc' Hd. destruct (Nat.lt_ge_cases c (length (owner s))) as [Hlt|Hge].
      * rewrite nth_error_app1 in Hc' by exact Hlt. destruct (Ho _ _ Hc' Hd) as (ip' & Hw').
        exists ip'. rewrite nth_error_upd_other; [exact Hw'|]. intros ->. congruence.
      * rewrite nth_error_app2 in Hc' by exact Hge. destruct (c - length (owner s))%nat as [|j] eqn:E; [|destruct j; discriminate].
        cbn in Hc'. injection Hc' as <-. assert (c = length (owner s)) by lia. subst c. exists ip.
        eapply nth_error_upd_same; eauto.
    + intros w' Hin. pose proof (remove_nth_notin _ _ _ Hn Ei) as Hnot. pose proof (remove_nth_In _ _ _ Hin) as Hin'.
      destruct (Hp _ Hin') as (ip' & Hw'). exists ip'. rewrite nth_error_upd_other; [exact Hw'|]. intros ->. contradiction.
    + now apply remove_nth_NoDup.
    + exact Hc.
  - (* fresh object *)
    injection Hs as <-. constructor; cbn [owner wrappers pool uclosed]; auto.
    + intros c w' Hc' Hd. destruct (Nat.lt_ge_cases c (length (owner s))) as [Hlt|Hge].
      * rewrite nth_error_app1 in Hc' by exact Hlt. destruct (Ho _ _ Hc' Hd) as (ip' & Hw').
        exists ip'. rewrite nth_error_app1; [exact Hw'|]. eapply nth_error_lt; eauto.
      * rewrite nth_error_app2 in Hc' by exact Hge. destruct (c - length (owner s))%nat as [|j] eqn:E; [|destruct j; discriminate].
        cbn in Hc'. injection Hc' as <-. assert (c = length (owner s)) by lia. subst c. exists ip.
        rewrite nth_error_app2 by lia. now rewrite Nat.sub_diag.
    + intros w' Hin. destruct (Hp _ Hin) as (ip' & Hw'). exists ip'. rewrite nth_error_app1; [exact Hw'|]. eapply nth_error_lt; eauto.
  - (* Close *)
    destruct (nth_error (owner s) c) as [w|] eqn:Ec; [|discriminate].
    destruct (Ho _ _ Ec Hl) as (ipw & Hw). rewrite Hw in Hs. injection Hs as <-.
    assert (Hnotin : ~ In w (pool s)). { intros Hin. destruct (Hp _ Hin) as (ip' & Hw'). congruence. }
    constructor; cbn [owner wrappers pool uclosed].
    + intros c2 w2 Hc2 Hd. assert (Hd2 : ~ In c2 D) by (intros X; apply Hd; now right). destruct (Ho _ _ Hc2 Hd2) as (ip' & Hw2).
      exists ip'. rewrite nth_error_upd_other; [exact Hw2|]. intros ->. rewrite Hw in Hw2. injection Hw2 as ->. apply Hd. now left.
    + intros w' [<-|Hin].
      * exists ipw. eapply nth_error_upd_same; eauto.
      * destruct (Hp _ Hin) as (ip' & Hw'). exists ip'. rewrite nth_error_upd_other; [exact Hw'|]. intros ->. contradiction.
    + constructor; auto.
    + unfold closes_own. cbn [uclosed]. apply closes_own_app; [exact Hc|]. cbn. apply Nat.eqb_refl.
Qed.

Lemma pinv_run tr : forall s D s', pinv s D -> prun s tr = Some s' -> NoDup (closers tr) ->
  (forall c, In c (closers tr) -> ~ In c D) -> closes_own s' = true.
Proof.
  induction tr as [|l tr IH]; intros s D s' I Hr Hnd Hdis; cbn in Hr.
  - injection Hr as <-. apply (pi_closes _ _ I).
  - destruct (pstep s l) as [s1|] eqn:E; [|discriminate].
    destruct l as [ip r|c]; cbn [closers] in Hnd, Hdis.
    + eapply (IH s1 D); eauto. exact (pinv_step _ _ _ _ I E Logic.I).
    + inversion Hnd; subst. eapply (IH s1 (c :: D)); eauto.
      * apply (pinv_step _ _ (PClose c) _ I E). apply Hdis. now left.
      * intros c' Hin [->|HD]; [contradiction|]. apply (Hdis c'); [now right|exact HD].
Qed.

(* nobody calls Close twice through the same acquisition => every Close closes the caller's own connection *)
Lemma closes_own_when_closed_once tr s : prun pinit tr = Some s -> NoDup (closers tr) -> closes_own s = true.
Proof. intros Hr Hnd. eapply pinv_run; eauto using pinv_init. Qed.

(* FINDING peripconn-stale-close-hits-recycled-wrapper.  Connection 0 (1.1.1.1) is closed through its wrapper by a third party
   (closeIdleConns, a handler using ctx.Conn(), the first of two Close calls of a hijack user); connection 1 (2.2.2.2) arrives
   and Gets the same object; the goroutine of connection 0 finishes and closes "its" connection: connection 1 is closed and its
   per-IP unit released while it is being served. *)
Definition stale_trace : list plabel := [PAcquire 16843009 None; PClose 0; PAcquire 33686018 (Some 0%nat); PClose 0].

Lemma stale_close_hits_other_connection :
  exists s, prun pinit stale_trace = Some s /\ closes_own s = false /\ uclosed s = [(0, 0); (0, 1)]%nat /\
            pm s 33686018%N = None /\ nth_error (owner s) 1 = Some 0%nat.
Proof. eexists. split; [vm_compute; reflexivity|]. repeat split. Qed.
