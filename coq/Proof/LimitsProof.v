(* Proofs for C12: exact accounting of s.concurrency / s.open / s.serving / perIPConnCounter.m over all reachable states
   of the LTS of Model/Limits.v, and the bounds, rejection and balance statements derived from it. *)
From Coq Require Import List ZArith NArith Bool Arith Lia ZifyBool ZifyN ZifyNat.
From FH Require Import Gen.GenC12 Model.Limits.
Import ListNotations.
Open Scope Z_scope.

(* ---- lists ------------------------------------------------------------------------------------------ *)
Lemma sumf_app {A} (f : A -> Z) l1 l2 : sumf f (l1 ++ l2) = sumf f l1 + sumf f l2.
Proof. induction l1 as [|x l1 IH]; cbn [sumf app]; lia. Qed.

Lemma sumf_upd {A} (f : A -> Z) l c r r' :
  nth_error l c = Some r -> sumf f (upd l c r') = sumf f l - f r + f r'.
Proof.
  revert c; induction l as [|x l IH]; intros [|c] H; cbn in H; try discriminate.
  - injection H as ->. cbn [upd sumf]. lia.
  - cbn [upd sumf]. rewrite (IH _ H). lia.
Qed.

Lemma sumf_le {A} (f g : A -> Z) l : Forall (fun x => f x <= g x) l -> sumf f l <= sumf g l.
Proof. induction 1; cbn [sumf]; lia. Qed.

Lemma sumf_nonneg {A} (f : A -> Z) l : (forall x, 0 <= f x) -> 0 <= sumf f l.
Proof. intros H; induction l as [|x l IH]; cbn [sumf]; [lia|]. specialize (H x). lia. Qed.

Lemma sumf_zero {A} (f : A -> Z) l : Forall (fun x => f x = 0) l -> sumf f l = 0.
Proof. induction 1; cbn [sumf]; lia. Qed.

Lemma nth_error_upd_same {A} (l : list A) c x r : nth_error l c = Some r -> nth_error (upd l c x) c = Some x.
Proof. revert c; induction l as [|y l IH]; intros [|c] H; cbn in *; try discriminate; auto. Qed.

Lemma nth_error_upd_other {A} (l : list A) c c' x : c <> c' -> nth_error (upd l c x) c' = nth_error l c'.
Proof.
  revert c c'; induction l as [|y l IH]; intros [|c] [|c'] H; cbn; auto; try congruence.
Qed.

Lemma length_upd {A} (l : list A) c x : length (upd l c x) = length l.
Proof. revert c; induction l as [|y l IH]; intros [|c]; cbn; auto. Qed.

Lemma Forall_upd {A} (P : A -> Prop) l c x : Forall P l -> P x -> Forall P (upd l c x).
Proof.
  intros H; revert c; induction H as [|y l Hy Hl IH]; intros [|c] Hx; cbn; constructor; auto.
Qed.

Lemma Forall_nth {A} (P : A -> Prop) l c r : Forall P l -> nth_error l c = Some r -> P r.
Proof. intros H Hn. rewrite Forall_forall in H. apply H. eapply nth_error_In; eauto. Qed.

Lemma b2z_range b : 0 <= b2z b <= 1.
Proof. destruct b; cbn; lia. Qed.

(* ---- what each connection holds ------------------------------------------------------------------------- *)
Definition w_conc (r : crec) : Z :=
  match ph r, cvia r with
  | PConcOver, _ | PAcquired, _ | PServing, _ | PEnding, _ | PEnded, _ => 1
  | PServed, VConn | PReleasing, VConn => 1
  | _, _ => 0
  end.

Definition w_open (r : crec) : Z :=
  match ph r with POpened | PNoWorker | PQueued | PServing | PEnding => 1 | _ => 0 end.

Definition w_ip (ip : N) (r : crec) : Z := b2z (reg r && N.eqb (cip r) ip).

(* a ServeConn call that owns a slot *)
Definition w_sc (r : crec) : Z :=
  match cvia r, ph r with
  | VConn, (PAcquired | PServing | PEnding | PServed | PReleasing) => 1
  | _, _ => 0
  end.

(* a connection that occupies a worker of the pool of loop k *)
Definition hw (k : nat) (r : crec) : Z :=
  match cvia r, ph r with
  | VServe k', (PQueued | PServing | PEnding | PEnded | PServed | PReleasing) => if Nat.eqb k' k then 1 else 0
  | _, _ => 0
  end.

Definition norm (n : Z) : option Z := if 0 <? n then Some n else None.

Definition is_serve (v : via) : Prop := match v with VServe _ => True | VConn => False end.

Definition wf_conn (r : crec) : Prop :=
  (closed r = true -> reg r = false) /\
  match ph r with
  | PArrived => reg r = false /\ closed r = false /\ hj r = HNone /\ resp r = 0
  | PIPOver => reg r = true /\ hj r = HNone /\ resp r = 0
  | PChecked | PRejecting => hj r = HNone /\ resp r = 0
  | PConcOver | PAcquired => cvia r = VConn /\ hj r = HNone /\ resp r = 0
  | POpened | PNoWorker | PQueued => is_serve (cvia r) /\ hj r = HNone /\ resp r = 0
  | PServing => hj r = HNone /\ resp r = 0
  | PEnded => is_serve (cvia r) /\ resp r = 0
  | PEnding | PServed | PReleasing => resp r = 0
  | PDone => resp r <> 0 -> closed r = true /\ hj r = HNone
  end.

Definition via_ok (n : nat) (r : crec) : Prop :=
  match cvia r with VServe k => (k < n)%nat | VConn => True end.

Record inv (cf : cfg) (s : st) : Prop := mkInv {
  i_conc : concurrency s = sumf w_conc (conns s);
  i_open : open s = sumf w_open (conns s);
  i_ip : forall ip, perip s ip = norm (sumf (w_ip ip) (conns s));
  i_serving : serving s = n_running s;
  i_via : Forall (via_ok (length (loops s))) (conns s);
  i_pool : forall k lp, nth_error (loops s) k = Some lp ->
             sumf (hw k) (conns s) + ready lp = wcount lp /\ 0 <= ready lp /\ wcount lp <= effConc cf;
  i_live : 0 < maxip cf -> forall ip, n_live s ip <= maxip cf;
  i_sc : sumf w_sc (conns s) <= effConc cf;
  i_wf : Forall wf_conn (conns s)
}.

Lemma effConc_pos cf : 0 < effConc cf.
Proof. unfold effConc. destruct (conc cf <=? 0) eqn:E; [reflexivity|lia]. Qed.

Lemma w_ip_nonneg ip l : 0 <= sumf (w_ip ip) l.
Proof. apply sumf_nonneg. intros x. unfold w_ip. apply b2z_range. Qed.

Lemma pget_norm x : 0 <= x -> pget (fun _ => norm x) 0%N = x.
Proof. intros H. unfold pget, norm. destruct (0 <? x) eqn:E; lia. Qed.

Lemma inv_init cf : inv cf init.
Proof.
  constructor; cbn; auto; try lia.
  - intros [|k] lp H; cbn in H; discriminate.
  - pose proof (effConc_pos cf). lia.
Qed.

(* pget of the real map in terms of the sum *)
Lemma pget_inv cf s ip : inv cf s -> pget (perip s) ip = sumf (w_ip ip) (conns s).
Proof.
  intros I. unfold pget. rewrite (i_ip _ _ I). pose proof (w_ip_nonneg ip (conns s)). unfold norm.
  destruct (0 <? sumf (w_ip ip) (conns s)) eqn:E; lia.
Qed.

Lemma live_le_wip ip r : b2z (live_ip ip r) <= w_ip ip r.
Proof. unfold live_ip, w_ip. destruct (reg r), (N.eqb (cip r) ip), (ph r); cbn; lia. Qed.

Lemma wsc_le_wconc r : w_sc r <= w_conc r.
Proof. unfold w_sc, w_conc. destruct (cvia r), (ph r); lia. Qed.

(* ---- preservation ------------------------------------------------------------------------------------------- *)
Lemma n_running_app l1 l2 : sumf (fun lp => b2z (running lp)) (l1 ++ l2) = sumf (fun lp => b2z (running lp)) l1 + sumf (fun lp => b2z (running lp)) l2.
Proof. apply sumf_app. Qed.

Lemma via_ok_mono n m r : (n <= m)%nat -> via_ok n r -> via_ok m r.
Proof. unfold via_ok. destruct (cvia r); lia. Qed.

Lemma hw_new_loop n l : Forall (via_ok n) l -> sumf (hw n) l = 0.
Proof.
  intros H. apply sumf_zero. eapply Forall_impl; [|exact H]. intros r Hr. unfold via_ok in Hr. unfold hw.
  destruct (cvia r) as [k|]; [|reflexivity]. destruct (Nat.eqb k n) eqn:E; [apply Nat.eqb_eq in E; lia|].
  destruct (ph r); reflexivity.
Qed.

Lemma nth_error_app_last {A} (l : list A) x k y : nth_error (l ++ [x]) k = Some y ->
  (nth_error l k = Some y) \/ (k = length l /\ y = x).
Proof.
  intros H. destruct (Nat.lt_ge_cases k (length l)) as [Hlt|Hge].
  - left. now rewrite nth_error_app1 in H.
  - right. rewrite nth_error_app2 in H by lia. destruct (k - length l)%nat as [|j] eqn:E.
    + cbn in H. injection H as <-. split; [lia|reflexivity].
    + cbn in H. destruct j; discriminate.
Qed.

(* facts about a loop update that keeps the pool counters of the other loops *)
Lemma loops_upd_lookup (ls : list lrec) k lp' k' lp0 :
  nth_error (upd ls k lp') k' = Some lp0 ->
  (k' = k /\ lp0 = lp' /\ exists lp, nth_error ls k = Some lp) \/ (k' <> k /\ nth_error ls k' = Some lp0).
Proof.
  intros H. destruct (Nat.eq_dec k k') as [->|Hne].
  - left. destruct (nth_error ls k') as [lp|] eqn:E.
    + rewrite (nth_error_upd_same _ _ _ _ E) in H. injection H as <-. eauto.
    + exfalso. assert (Hl : (length (upd ls k' lp') <= k')%nat) by (rewrite length_upd; now apply nth_error_None).
      apply nth_error_None in Hl. congruence.
  - right. rewrite nth_error_upd_other in H by exact Hne. auto.
Qed.

Lemma running_upd (ls : list lrec) k lp lp' : nth_error ls k = Some lp ->
  sumf (fun x => b2z (running x)) (upd ls k lp') = sumf (fun x => b2z (running x)) ls - b2z (running lp) + b2z (running lp').
Proof. exact (sumf_upd (fun x => b2z (running x)) ls k lp lp'). Qed.

Lemma hw_other k k' v ip rg cl p h rs p' rg' cl' h' rs' : v = VServe k -> k' <> k ->
  hw k' (mkC v ip rg cl p h rs) = hw k' (mkC v ip rg' cl' p' h' rs').
Proof. intros -> Hne. unfold hw; cbn. destruct (Nat.eqb k k') eqn:E; [apply Nat.eqb_eq in E; congruence|]. destruct p, p'; reflexivity. Qed.

Lemma sumf_le_except {A} (g f : A -> Z) l c r : Forall (fun x => g x <= f x) l -> nth_error l c = Some r ->
  sumf g l - g r <= sumf f l - f r.
Proof.
  intros H; revert c; induction H as [|x l Hx Hl IH]; intros [|c] Hn; cbn in Hn; try discriminate.
  - injection Hn as ->. cbn [sumf]. pose proof (sumf_le g f l Hl). lia.
  - cbn [sumf]. specialize (IH _ Hn). lia.
Qed.

Lemma sumf_ext_nth {A} (f : A -> Z) l1 l2 : length l1 = length l2 ->
  (forall k x y, nth_error l1 k = Some x -> nth_error l2 k = Some y -> f x = f y) -> sumf f l1 = sumf f l2.
Proof.
  revert l2; induction l1 as [|a l1 IH]; intros [|b l2] Hl H; cbn in Hl; try discriminate; [reflexivity|].
  cbn [sumf]. rewrite (H O a b eq_refl eq_refl). f_equal. apply IH; [lia|]. intros k x y Hx Hy. exact (H (S k) x y Hx Hy).
Qed.

(* how the loops may change in a step of connection c *)
Definition loops_rel (cf : cfg) (s : st) (ls' : list lrec) (r r' : crec) : Prop :=
  length ls' = length (loops s) /\
  forall k lp', nth_error ls' k = Some lp' -> exists lp, nth_error (loops s) k = Some lp /\
    running lp' = running lp /\
    wcount lp' - ready lp' = wcount lp - ready lp - hw k r + hw k r' /\
    (0 <= ready lp -> 0 <= ready lp') /\ (wcount lp <= effConc cf -> wcount lp' <= effConc cf).

Lemma inv_update cf s c r r' cc oo m' ls' :
  inv cf s -> nth_error (conns s) c = Some r ->
  cvia r' = cvia r ->
  cc = concurrency s - w_conc r + w_conc r' ->
  oo = open s - w_open r + w_open r' ->
  (forall ip, m' ip = norm (sumf (w_ip ip) (conns s) - w_ip ip r + w_ip ip r')) ->
  loops_rel cf s ls' r r' ->
  (0 < maxip cf -> forall ip, b2z (live_ip ip r') <= b2z (live_ip ip r) \/
                              sumf (w_ip ip) (conns s) - w_ip ip r + w_ip ip r' <= maxip cf) ->
  (w_sc r' <= w_sc r \/ sumf w_conc (conns s) - w_conc r + w_conc r' <= effConc cf) ->
  wf_conn r' ->
  inv cf (mkSt cc oo (serving s) m' (upd (conns s) c r') ls').
Proof.
  intros I Hn Hv Hc Ho Hm [Hlen Hl] Hlive Hsc Hwf.
  constructor; cbn [concurrency open serving perip conns loops].
  - rewrite (sumf_upd _ _ _ _ _ Hn). rewrite <- (i_conc _ _ I). exact Hc.
  - rewrite (sumf_upd _ _ _ _ _ Hn). rewrite <- (i_open _ _ I). exact Ho.
  - intros ip. rewrite (sumf_upd _ _ _ _ _ Hn). apply Hm.
  - rewrite (i_serving _ _ I). unfold n_running. cbn [loops]. symmetry. apply sumf_ext_nth; [exact Hlen|].
    intros k x y Hx Hy. destruct (Hl _ _ Hx) as (lp & Hlp & Hr & _). congruence.
  - rewrite Hlen. apply Forall_upd; [exact (i_via _ _ I)|]. pose proof (Forall_nth _ _ _ _ (i_via _ _ I) Hn) as Hr.
    unfold via_ok in *. now rewrite Hv.
  - intros k lp' Hk. destruct (Hl _ _ Hk) as (lp & Hlp & _ & Hw & Hr0 & Hwc).
    destruct (i_pool _ _ I _ _ Hlp) as (Hp1 & Hp2 & Hp3). rewrite (sumf_upd _ _ _ _ _ Hn). lia.
  - intros Hmax ip. unfold n_live. cbn [conns]. rewrite (sumf_upd _ _ _ _ _ Hn).
    pose proof (i_live _ _ I Hmax ip) as Hold. unfold n_live in Hold.
    destruct (Hlive Hmax ip) as [Hle|Hle]; [lia|].
    assert (Hex : sumf (fun r0 => b2z (live_ip ip r0)) (conns s) - b2z (live_ip ip r) <= sumf (w_ip ip) (conns s) - w_ip ip r).
    { apply (sumf_le_except (fun r0 => b2z (live_ip ip r0)) (w_ip ip) (conns s) c r); [|exact Hn]. apply Forall_forall. intros x _. apply live_le_wip. }
    pose proof (live_le_wip ip r'). lia.
  - rewrite (sumf_upd _ _ _ _ _ Hn). pose proof (i_sc _ _ I) as Hold. destruct Hsc as [Hle|Hle]; [lia|].
    assert (Hex : sumf w_sc (conns s) - w_sc r <= sumf w_conc (conns s) - w_conc r).
    { apply (sumf_le_except w_sc w_conc (conns s) c r); [|exact Hn]. apply Forall_forall. intros x _. apply wsc_le_wconc. }
    pose proof (wsc_le_wconc r'). lia.
  - apply Forall_upd; [exact (i_wf _ _ I)|exact Hwf].
Qed.

Lemma loops_rel_same cf s r r' : (forall k, hw k r' = hw k r) -> loops_rel cf s (loops s) r r'.
Proof.
  intros H. split; [reflexivity|]. intros k lp' Hk. exists lp'. rewrite H. repeat split; auto; lia.
Qed.

(* free_loop only touches `busy` *)
Lemma loops_rel_free cf s v r r' : (forall k, hw k r' = hw k r) -> loops_rel cf s (free_loop (loops s) v) r r'.
Proof.
  intros H. destruct v as [k0|]; cbn [free_loop]; [|now apply loops_rel_same].
  destruct (nth_error (loops s) k0) as [lp0|] eqn:E; [|now apply loops_rel_same].
  split; [apply length_upd|]. intros k lp' Hk. apply loops_upd_lookup in Hk as [(-> & -> & _)|(Hne & Hk)].
  - exists lp0. rewrite H. cbn. repeat split; auto; lia.
  - exists lp'. rewrite H. repeat split; auto; lia.
Qed.

Lemma unreg_spec cf s ip0 ip : inv cf s ->
  unregister (perip s) ip0 ip = if N.eqb ip ip0 then norm (sumf (w_ip ip) (conns s) - 1) else norm (sumf (w_ip ip) (conns s)).
Proof.
  intros I. unfold unregister, pset. destruct (N.eqb ip ip0) eqn:E.
  - apply N.eqb_eq in E; subst ip0. rewrite (pget_inv _ _ _ I). reflexivity.
  - apply (i_ip _ _ I).
Qed.

Lemma reg_spec cf s ip0 ip : inv cf s ->
  fst (register (perip s) ip0) ip = (if N.eqb ip ip0 then norm (sumf (w_ip ip) (conns s) + 1) else norm (sumf (w_ip ip) (conns s)))
  /\ snd (register (perip s) ip0) = sumf (w_ip ip0) (conns s) + 1.
Proof.
  intros I. unfold register, pset. cbn [fst snd]. rewrite (pget_inv _ _ _ I). split; [|reflexivity].
  destruct (N.eqb ip ip0) eqn:E.
  - apply N.eqb_eq in E; subst ip0. unfold norm. pose proof (w_ip_nonneg ip (conns s)).
    destruct (0 <? sumf (w_ip ip) (conns s) + 1) eqn:E2; [reflexivity|lia].
  - apply (i_ip _ _ I).
Qed.

Ltac conn_case I Hstep c :=
  let r := fresh "r" in let Hn := fresh "Hn" in
  destruct (nth_error (conns _) c) as [r|] eqn:Hn; [|discriminate Hstep];
  let Hwf := fresh "Hwf" in
  pose proof (Forall_nth _ _ _ _ (i_wf _ _ I) Hn) as Hwf;
  let Hvia := fresh "Hvia" in
  pose proof (Forall_nth _ _ _ _ (i_via _ _ I) Hn) as Hvia;
  unfold wf_conn in Hwf; unfold via_ok in Hvia;
  destruct r as [v ip0 rg cl p h rs];
  unfold set_ph, set_hj, set_conns, close_conn in Hstep;
  cbn [ph cvia hj reg closed cip resp] in Hstep, Hwf, Hvia.

(* a step that only changes the Serve loops *)
Lemma inv_loops cf s sv' ls' :
  inv cf s -> (length (loops s) <= length ls')%nat ->
  sv' = sumf (fun x => b2z (running x)) ls' ->
  (forall k lp', nth_error ls' k = Some lp' ->
     sumf (hw k) (conns s) + ready lp' = wcount lp' /\ 0 <= ready lp' /\ wcount lp' <= effConc cf) ->
  inv cf (mkSt (concurrency s) (open s) sv' (perip s) (conns s) ls').
Proof.
  intros I Hlen Hsv Hp. constructor; cbn [concurrency open serving perip conns loops].
  - apply (i_conc _ _ I).
  - apply (i_open _ _ I).
  - apply (i_ip _ _ I).
  - exact Hsv.
  - eapply Forall_impl; [|exact (i_via _ _ I)]. intros r. apply via_ok_mono. exact Hlen.
  - exact Hp.
  - apply (i_live _ _ I).
  - apply (i_sc _ _ I).
  - apply (i_wf _ _ I).
Qed.

(* a new connection that holds nothing yet *)
Lemma inv_add cf s r0 ls' :
  inv cf s -> w_conc r0 = 0 -> w_open r0 = 0 -> reg r0 = false -> w_sc r0 = 0 -> (forall k, hw k r0 = 0) ->
  wf_conn r0 -> via_ok (length (loops s)) r0 ->
  length ls' = length (loops s) ->
  (forall k lp', nth_error ls' k = Some lp' -> exists lp, nth_error (loops s) k = Some lp /\
      running lp' = running lp /\ wcount lp' = wcount lp /\ ready lp' = ready lp) ->
  inv cf (mkSt (concurrency s) (open s) (serving s) (perip s) (conns s ++ [r0]) ls').
Proof.
  intros I Hc Ho Hr Hs Hh Hwf Hvia Hlen Hl. constructor; cbn [concurrency open serving perip conns loops].
  - rewrite sumf_app. cbn [sumf]. rewrite (i_conc _ _ I). lia.
  - rewrite sumf_app. cbn [sumf]. rewrite (i_open _ _ I). lia.
  - intros ip. rewrite sumf_app. cbn [sumf]. rewrite (i_ip _ _ I). replace (w_ip ip r0) with 0 by (unfold w_ip; rewrite Hr; reflexivity). f_equal. lia.
  - rewrite (i_serving _ _ I). unfold n_running. cbn [loops]. symmetry. apply sumf_ext_nth; [exact Hlen|].
    intros k x y Hx Hy. destruct (Hl _ _ Hx) as (lp & Hlp & Hrn & _). congruence.
  - rewrite Hlen. apply Forall_app. split; [exact (i_via _ _ I)|]. constructor; [exact Hvia|constructor].
  - intros k lp' Hk. destruct (Hl _ _ Hk) as (lp & Hlp & _ & Hw & Hrd). destruct (i_pool _ _ I _ _ Hlp) as (H1 & H2 & H3).
    rewrite sumf_app. cbn [sumf]. rewrite Hh. lia.
  - intros Hmax ip. unfold n_live. cbn [conns]. rewrite sumf_app. cbn [sumf]. pose proof (i_live _ _ I Hmax ip) as Hold.
    unfold n_live in Hold. replace (b2z (live_ip ip r0)) with 0 by (unfold live_ip; rewrite Hr; reflexivity). lia.
  - rewrite sumf_app. cbn [sumf]. pose proof (i_sc _ _ I). lia.
  - apply Forall_app. split; [exact (i_wf _ _ I)|]. constructor; [exact Hwf|constructor].
Qed.

Lemma set_busy_lookup (ls : list lrec) k lp b k' lp' : nth_error ls k = Some lp ->
  nth_error (upd ls k (set_busy lp b)) k' = Some lp' ->
  exists lp0, nth_error ls k' = Some lp0 /\ running lp' = running lp0 /\ wcount lp' = wcount lp0 /\ ready lp' = ready lp0.
Proof.
  intros Hk H. apply loops_upd_lookup in H as [(-> & -> & _)|(Hne & H)].
  - exists lp. cbn. auto.
  - exists lp'. auto.
Qed.

Ltac brk := repeat match goal with |- context[if ?b then _ else _] => destruct b end.
Ltac t_conc v := unfold w_conc; cbn; brk; try destruct v; cbn; lia.
Ltac t_open := unfold w_open; cbn; brk; lia.
Ltac t_ip_same I s := let ip := fresh "ip" in intros ip; rewrite (i_ip _ _ I ip); set (S := sumf (w_ip ip) (conns s)) in *;
  unfold w_ip; cbn [reg cip]; f_equal; lia.
Ltac t_ip_unreg I s cf ip0 := let ip := fresh "ip" in let E := fresh "E" in intros ip; rewrite (unreg_spec cf s ip0 ip I);
  set (S := sumf (w_ip ip) (conns s)) in *; unfold w_ip; cbn [reg cip andb];
  destruct (N.eqb ip ip0) eqn:E; rewrite N.eqb_sym, E; cbn; f_equal; lia.
Ltac t_hw v := let k := fresh "k" in intros k; unfold hw; cbn; brk; try destruct v; cbn; reflexivity.
Ltac t_live := let Hmax := fresh in let ip := fresh "ip" in intros Hmax ip; left; unfold live_ip; cbn [reg cip ph]; brk;
  repeat match goal with |- context[N.eqb ?a ?b] => destruct (N.eqb a b) end; cbn; lia.
Ltac t_sc v := left; unfold w_sc; cbn; brk; try destruct v; cbn; lia.
Ltac t_wf Hwf := unfold wf_conn; cbn; cbn in Hwf; brk; intuition (try congruence; try discriminate; auto).

Ltac finish_same I Hn s v Hwf :=
  eapply inv_update; [exact I|exact Hn|reflexivity|t_conc v|t_open|t_ip_same I s|apply loops_rel_same; t_hw v|t_live|t_sc v|t_wf Hwf].
Ltac finish_unreg I Hn s cf ip0 v Hwf :=
  eapply inv_update; [exact I|exact Hn|reflexivity|t_conc v|t_open|t_ip_unreg I s cf ip0|apply loops_rel_same; t_hw v|t_live|t_sc v|t_wf Hwf].

Lemma loops_rel_upd cf s k lp lp' r r' :
  nth_error (loops s) k = Some lp -> running lp' = running lp ->
  wcount lp' - ready lp' = wcount lp - ready lp - hw k r + hw k r' ->
  (0 <= ready lp -> 0 <= ready lp') -> (wcount lp <= effConc cf -> wcount lp' <= effConc cf) ->
  (forall k', k' <> k -> hw k' r' = hw k' r) ->
  loops_rel cf s (upd (loops s) k lp') r r'.
Proof.
  intros Hk Hr Hw H0 Hc Hh. split; [apply length_upd|]. intros k' lp0 Hk'.
  apply loops_upd_lookup in Hk' as [(-> & -> & _)|(Hne & Hk')].
  - exists lp. auto.
  - exists lp0. rewrite (Hh _ Hne). repeat split; auto; lia.
Qed.

Ltac t_hw_other k := let k' := fresh "k'" in let Hne := fresh "Hne" in let E := fresh "E" in
  intros k' Hne; unfold hw; cbn; destruct (Nat.eqb k k') eqn:E; [apply Nat.eqb_eq in E; congruence|reflexivity].

Lemma inv_step cf s l s' : inv cf s -> step cf s l = Some s' -> inv cf s'.
Proof.
  intros I Hstep. destruct l; cbn [step] in Hstep.
  - (* LServeStart *)
    injection Hstep as <-. apply inv_loops; [exact I|rewrite app_length; cbn; lia| |].
    + rewrite (i_serving _ _ I). unfold n_running. rewrite sumf_app. cbn. lia.
    + intros k lp' Hk. apply nth_error_app_last in Hk as [Hk|[-> ->]]; [exact (i_pool _ _ I _ _ Hk)|].
      cbn. rewrite (hw_new_loop _ _ (i_via _ _ I)). pose proof (effConc_pos cf). lia.
  - (* LServeStop *)
    destruct (nth_error (loops s) k) as [lp|] eqn:Hk; [|discriminate].
    destruct (running lp && negb (busy lp)) eqn:E; [|discriminate]. injection Hstep as <-.
    apply andb_true_iff in E as [Er _].
    apply inv_loops; [exact I|rewrite length_upd; lia| |].
    + rewrite (i_serving _ _ I). unfold n_running. rewrite (running_upd _ _ _ _ Hk). rewrite Er. cbn. lia.
    + intros k' lp' Hk'. apply loops_upd_lookup in Hk' as [(-> & -> & _)|(Hne & Hk')]; [|exact (i_pool _ _ I _ _ Hk')].
      destruct (i_pool _ _ I _ _ Hk) as (H1 & H2 & H3). cbn. lia.
  - (* LWorkerRetire *)
    destruct (nth_error (loops s) k) as [lp|] eqn:Hk; [|discriminate].
    destruct (0 <? ready lp) eqn:E; [|discriminate]. injection Hstep as <-.
    apply inv_loops; [exact I|rewrite length_upd; lia| |].
    + rewrite (i_serving _ _ I). unfold n_running. rewrite (running_upd _ _ _ _ Hk). cbn. lia.
    + intros k' lp' Hk'. apply loops_upd_lookup in Hk' as [(-> & -> & _)|(Hne & Hk')]; [|exact (i_pool _ _ I _ _ Hk')].
      destruct (i_pool _ _ I _ _ Hk) as (H1 & H2 & H3). cbn. lia.
  - (* LAccept *)
    destruct (nth_error (loops s) k) as [lp|] eqn:Hk; [|discriminate].
    destruct (running lp && negb (busy lp)) eqn:E; [|discriminate]. injection Hstep as <-.
    apply inv_add; try exact I.
    + unfold w_conc; cbn. destruct (needs_reg cf (ip_of_addr a)); reflexivity.
    + unfold w_open; cbn. destruct (needs_reg cf (ip_of_addr a)); reflexivity.
    + reflexivity.
    + unfold w_sc; cbn. reflexivity.
    + intros k'. unfold hw; cbn. destruct (needs_reg cf (ip_of_addr a)); reflexivity.
    + unfold wf_conn; cbn. destruct (needs_reg cf (ip_of_addr a)); repeat split; auto; discriminate.
    + unfold via_ok; cbn. apply nth_error_Some. congruence.
    + apply length_upd.
    + intros k' lp' Hk'. eapply set_busy_lookup; eauto.
  - (* LServeConn *)
    injection Hstep as <-. unfold set_conns. apply inv_add; try exact I.
    + unfold w_conc; cbn. destruct (needs_reg cf (ip_of_addr a)); reflexivity.
    + unfold w_open; cbn. destruct (needs_reg cf (ip_of_addr a)); reflexivity.
    + reflexivity.
    + unfold w_sc; cbn. destruct (needs_reg cf (ip_of_addr a)); reflexivity.
    + intros k'. unfold hw; cbn. reflexivity.
    + unfold wf_conn; cbn. destruct (needs_reg cf (ip_of_addr a)); repeat split; auto; discriminate.
    + unfold via_ok; cbn. exact Logic.I.
    + reflexivity.
    + intros k' lp' Hk'. exists lp'. auto.
  - (* LRegister *)
    conn_case I Hstep c.
    destruct p; try discriminate Hstep.
    destruct (register (perip s) ip0) as [m' n] eqn:Er. injection Hstep as <-.
    pose proof (reg_spec cf s ip0) as Hreg. rewrite Er in Hreg. cbn [fst snd] in Hreg.
    eapply inv_update; [exact I|exact Hn|..]; cbn [cvia].
    + reflexivity.
    + unfold w_conc; cbn. destruct (maxip cf <? n); destruct v; lia.
    + unfold w_open; cbn. destruct (maxip cf <? n); lia.
    + intros ip. destruct (Hreg ip I) as [H1 H2]. rewrite H1. set (S := sumf (w_ip ip) (conns s)) in *. unfold w_ip; cbn [reg cip].
      destruct Hwf as (_ & -> & _). cbn. destruct (N.eqb ip ip0) eqn:E; rewrite N.eqb_sym, E; cbn; f_equal; lia.
    + apply loops_rel_same. intros k. unfold hw; cbn. destruct v; destruct (maxip cf <? n); reflexivity.
    + intros Hmax ip. destruct (Hreg ip I) as [H1 H2]. set (S := sumf (w_ip ip) (conns s)) in *. unfold live_ip, w_ip; cbn [reg cip ph].
      destruct Hwf as (_ & -> & _). cbn [andb]. destruct (N.eqb ip0 ip) eqn:E; [|left; cbn; lia].
      apply N.eqb_eq in E; subst ip. destruct (maxip cf <? n) eqn:E2; [left; cbn; lia|]. right. cbn. subst S. lia.
    + left. unfold w_sc; cbn. destruct v; destruct (maxip cf <? n); lia.
    + unfold wf_conn; cbn. destruct Hwf as (Hw0 & Hw1 & Hw2 & Hw3 & Hw4). split; [congruence|]. destruct (maxip cf <? n); auto.
  - (* LRejectIP *)
    conn_case I Hstep c. destruct p; try discriminate Hstep. injection Hstep as <-.
    destruct Hwf as (Hw0 & -> & Hw2 & Hw3).
    eapply inv_update; [exact I|exact Hn|reflexivity|t_conc v|t_open|t_ip_unreg I s cf ip0|apply loops_rel_free; t_hw v|t_live|t_sc v|].
    unfold wf_conn; cbn. repeat split; auto.
  - (* LOpenInc *)
    conn_case I Hstep c. destruct p; try discriminate Hstep; destruct v; try discriminate Hstep; injection Hstep as <-.
    + finish_same I Hn s (VServe k) Hwf.
    + finish_same I Hn s VConn Hwf.
  - (* LGetChOk *)
    conn_case I Hstep c. destruct p; try discriminate Hstep; destruct v as [k|]; try discriminate Hstep.
    destruct (nth_error (loops s) k) as [lp|] eqn:Hk; [|discriminate].
    destruct (0 <? ready lp) eqn:E1; [|destruct (wcount lp <? effConc cf) eqn:E2; [|discriminate]]; injection Hstep as <-.
    + eapply inv_update; [exact I|exact Hn|reflexivity|t_conc (VServe k)|t_open|t_ip_same I s| |t_live|t_sc (VServe k)|t_wf Hwf].
      eapply loops_rel_upd; [exact Hk|reflexivity| | | |t_hw_other k]; unfold hw; cbn; rewrite ?Nat.eqb_refl; lia.
    + eapply inv_update; [exact I|exact Hn|reflexivity|t_conc (VServe k)|t_open|t_ip_same I s| |t_live|t_sc (VServe k)|t_wf Hwf].
      eapply loops_rel_upd; [exact Hk|reflexivity| | | |t_hw_other k]; unfold hw; cbn; rewrite ?Nat.eqb_refl; lia.
  - (* LGetChFail *)
    conn_case I Hstep c. destruct p; try discriminate Hstep; destruct v as [k|]; try discriminate Hstep.
    destruct (nth_error (loops s) k) as [lp|] eqn:Hk; [|discriminate].
    destruct ((0 <? ready lp) || (wcount lp <? effConc cf)); [discriminate|]. injection Hstep as <-.
    finish_same I Hn s (VServe k) Hwf.
  - (* LRejectDec *)
    conn_case I Hstep c. destruct p; try discriminate Hstep. injection Hstep as <-.
    finish_same I Hn s v Hwf.
  - (* LRejectConc *)
    destruct cerr;
    (conn_case I Hstep c; destruct p; try discriminate Hstep; destruct rg; cbn in Hstep; injection Hstep as <-;
     [eapply inv_update; [exact I|exact Hn|reflexivity|t_conc v|t_open|t_ip_unreg I s cf ip0|apply loops_rel_free; t_hw v|t_live|t_sc v|t_wf Hwf]
     |eapply inv_update; [exact I|exact Hn|reflexivity|t_conc v|t_open|t_ip_same I s|apply loops_rel_free; t_hw v|t_live|t_sc v|t_wf Hwf]]).
  - (* LTryAcquire *)
    conn_case I Hstep c. destruct p; try discriminate Hstep; destruct v as [k|]; try discriminate Hstep. injection Hstep as <-.
    eapply inv_update; [exact I|exact Hn|reflexivity|t_conc VConn|t_open|t_ip_same I s|apply loops_rel_same; t_hw VConn|t_live| |t_wf Hwf].
    destruct (concurrency s + 1 <=? effConc cf) eqn:E;
      [right; rewrite <- (i_conc _ _ I); unfold w_conc; cbn; lia | left; unfold w_sc; cbn; lia].
  - (* LAcquireFail *)
    conn_case I Hstep c. destruct p; try discriminate Hstep. injection Hstep as <-.
    finish_same I Hn s v Hwf.
  - (* LStart *)
    conn_case I Hstep c. destruct p; try discriminate Hstep. injection Hstep as <-.
    destruct v as [k|]; [|destruct Hwf as (_ & [] & _)].
    finish_same I Hn s (VServe k) Hwf.
  - (* LRequest *)
    conn_case I Hstep c. destruct p; try discriminate Hstep. injection Hstep as <-. exact I.
  - (* LFinish *)
    conn_case I Hstep c. destruct p; try discriminate Hstep. injection Hstep as <-.
    finish_same I Hn s v Hwf.
  - (* LHijack *)
    conn_case I Hstep c. destruct p; try discriminate Hstep; destruct h; try discriminate Hstep. injection Hstep as <-.
    finish_same I Hn s v Hwf.
  - (* LCleanupOpen *)
    conn_case I Hstep c. destruct p; try discriminate Hstep. injection Hstep as <-.
    destruct v as [k|].
    + finish_same I Hn s (VServe k) Hwf.
    + finish_same I Hn s VConn Hwf.
  - (* LCleanupConc *)
    conn_case I Hstep c. destruct p; try discriminate Hstep. injection Hstep as <-.
    destruct v as [k|]; [|destruct Hwf as (_ & [] & _)].
    finish_same I Hn s (VServe k) Hwf.
  - (* LCloseAfter *)
    destruct cerr;
    (conn_case I Hstep c; destruct p; try discriminate Hstep; destruct h; [destruct rg|..]; cbn in Hstep; injection Hstep as <-;
     first [finish_unreg I Hn s cf ip0 v Hwf | finish_same I Hn s v Hwf]).
  - (* LWorkerRelease *)
    conn_case I Hstep c. destruct p; try discriminate Hstep; destruct v as [k|]; try discriminate Hstep.
    destruct (nth_error (loops s) k) as [lp|] eqn:Hk; [|discriminate]. injection Hstep as <-.
    eapply inv_update; [exact I|exact Hn|reflexivity|t_conc (VServe k)|t_open|t_ip_same I s| |t_live|t_sc (VServe k)|t_wf Hwf].
    destruct (running lp) eqn:Er.
    + eapply loops_rel_upd; [exact Hk|cbn; congruence| | | |t_hw_other k]; unfold hw; cbn; rewrite ?Nat.eqb_refl; lia.
    + eapply loops_rel_upd; [exact Hk|cbn; congruence| | | |t_hw_other k]; unfold hw; cbn; rewrite ?Nat.eqb_refl; lia.
  - (* LReleaseConc *)
    conn_case I Hstep c. destruct p; try discriminate Hstep; destruct v as [k|]; try discriminate Hstep. injection Hstep as <-.
    finish_same I Hn s VConn Hwf.
  - (* LHijackDone *)
    destruct cerr;
    (conn_case I Hstep c; destruct h; try discriminate Hstep; destruct (keep cf); [|destruct rg]; cbn in Hstep; injection Hstep as <-;
     destruct p; first [finish_unreg I Hn s cf ip0 v Hwf | finish_same I Hn s v Hwf]).
  - (* LUserClose *)
    destruct cerr;
    (conn_case I Hstep c; destruct p; try discriminate Hstep; destruct rg; cbn in Hstep; injection Hstep as <-;
     first [finish_unreg I Hn s cf ip0 v Hwf | finish_same I Hn s v Hwf]).
Qed.

Lemma inv_reach cf s : reach cf s -> inv cf s.
Proof. induction 1 as [|s l s' _ IH Hs]; [apply inv_init|exact (inv_step _ _ _ _ IH Hs)]. Qed.
