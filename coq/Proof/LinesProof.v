(* LinesProof.v — basic facts about the checked accessors and the line functions of Model/Lines.v,
   and the bridge between the model's line functions and Spec.HeadSpec's state machine. *)
From Coq Require Import Lia.
From FH Require Import Model.Base Gen.GenC09 Model.Lines Spec.HeadSpec.
Open Scope nat_scope.

(* ---------- checked accessors ---------- *)
Lemma slice_ok b lo hi : lo <= hi -> hi <= length b -> slice b lo hi = Ok (firstn (hi - lo) (skipn lo b)).
Proof.
  intros H1 H2. unfold slice.
  destruct (lo <=? hi) eqn:E1; [|apply Nat.leb_gt in E1; lia].
  destruct (hi <=? length b) eqn:E2; [|apply Nat.leb_gt in E2; lia]. reflexivity.
Qed.

Lemma slice_from b lo : lo <= length b -> slice b lo (length b) = Ok (skipn lo b).
Proof.
  intros H. rewrite slice_ok by lia. f_equal. apply firstn_all2. rewrite skipn_length. lia.
Qed.

Lemma slice_to b hi : hi <= length b -> slice b 0 hi = Ok (firstn hi b).
Proof. intros H. rewrite slice_ok by lia. now rewrite Nat.sub_0_r. Qed.

Lemma slice_inv b lo hi x : slice b lo hi = Ok x -> lo <= hi /\ hi <= length b /\ x = firstn (hi - lo) (skipn lo b).
Proof.
  unfold slice. destruct (lo <=? hi) eqn:E1; cbn; [|discriminate].
  destruct (hi <=? length b) eqn:E2; cbn; [|discriminate].
  intros [= <-]. apply Nat.leb_le in E1, E2. auto.
Qed.

Lemma idx_ok b i : i < length b -> exists c, idx b i = Ok c /\ nth_error b i = Some c.
Proof.
  intros H. unfold idx. destruct (nth_error b i) eqn:E; [eauto|].
  apply nth_error_None in E. lia.
Qed.

Lemma idx_app p c s : idx (p ++ c :: s) (length p) = Ok c.
Proof. unfold idx. rewrite nth_error_app2 by lia. now rewrite Nat.sub_diag. Qed.

(* ---------- index_byte ---------- *)
Lemma index_byte_split b c i :
  index_byte b c = Some i -> exists p s, b = p ++ c :: s /\ length p = i /\ index_byte p c = None.
Proof.
  revert i; induction b as [|x b IH]; intros i; cbn; [discriminate|].
  destruct (N.eqb x c) eqn:E.
  - intros [= <-]. apply N.eqb_eq in E. subst. exists [], b. auto.
  - destruct (index_byte b c) as [j|] eqn:Ej; cbn; [|discriminate].
    intros [= <-]. destruct (IH j eq_refl) as (p & s & -> & Hl & Hn).
    exists (x :: p), s. cbn. rewrite E, Hn. auto.
Qed.

Lemma index_byte_here p c s : index_byte p c = None -> index_byte (p ++ c :: s) c = Some (length p).
Proof.
  induction p as [|x p IH]; cbn.
  - now rewrite N.eqb_refl.
  - destruct (N.eqb x c); [discriminate|].
    destruct (index_byte p c) eqn:E; [discriminate|]. intros _. now rewrite IH.
Qed.

Lemma index_byte_none_app p q c : index_byte p c = None -> index_byte q c = None -> index_byte (p ++ q) c = None.
Proof.
  induction p as [|x p IH]; cbn; [auto|].
  destruct (N.eqb x c); [discriminate|].
  destruct (index_byte p c) eqn:E; [discriminate|]. intros _ Hq. now rewrite IH.
Qed.

Lemma index_byte_none_in b c : index_byte b c = None -> ~ In c b.
Proof.
  induction b as [|x b IH]; cbn; [tauto|].
  destruct (N.eqb x c) eqn:E; [discriminate|].
  destruct (index_byte b c) eqn:E2; [discriminate|]. intros _ [->|Hin].
  - now rewrite N.eqb_refl in E.
  - now apply IH.
Qed.

Lemma index_byte_lt b c i : index_byte b c = Some i -> i < length b.
Proof.
  intros H. destruct (index_byte_split _ _ _ H) as (p & s & -> & <- & _).
  rewrite app_length. cbn. lia.
Qed.

(* ---------- blank lines ---------- *)
Definition blank_line (l : bytes) : bool :=
  match l with [] => true | [x] => N.eqb x CR | _ => false end.

(* the line nextLine / readLine return for raw content l *)
Definition strip_cr (l : bytes) : bytes :=
  match l with
  | [] => []
  | _ => if N.eqb (last l 0%N) CR then removelast l else l
  end.

Lemma strip_cr_blank l : strip_cr l = [] <-> blank_line l = true.
Proof.
  destruct l as [|x [|y l]]; cbn.
  - tauto.
  - destruct (N.eqb x CR); split; congruence.
  - split; [|discriminate].
    destruct (N.eqb _ CR); [|discriminate]. destruct l; discriminate.
Qed.

Lemma strip_cr_snoc l x : strip_cr (l ++ [x]) = if N.eqb x CR then l else l ++ [x].
Proof.
  unfold strip_cr. destruct (l ++ [x]) eqn:E; [destruct l; discriminate|]. rewrite <- E.
  rewrite last_last, removelast_last. reflexivity.
Qed.

Fixpoint cur_after (c : cur3) (l : bytes) : cur3 :=
  match l with [] => c | x :: r => cur_after (cur_step c x) r end.

Lemma cur_after_other l : cur_after CurOther l = CurOther.
Proof. induction l as [|x l IH]; cbn; [reflexivity|]. unfold cur_step. destruct (N.eqb x CR); exact IH. Qed.

Lemma cur_after_blank l : cur_blank (cur_after CurEmpty l) = blank_line l.
Proof.
  destruct l as [|x [|y l]]; cbn; [reflexivity| |].
  - unfold cur_step. destruct (N.eqb x CR); reflexivity.
  - unfold cur_step at 2. destruct (N.eqb x CR).
    + unfold cur_step. destruct (N.eqb y CR); now rewrite cur_after_other.
    + unfold cur_step. destruct (N.eqb y CR); now rewrite cur_after_other.
Qed.

(* ---------- the spec's state machine, one line at a time ---------- *)
Lemma head_len_aux_noLF ih cur b n : index_byte b LF = None -> head_len_aux ih cur b n = None.
Proof.
  revert cur n; induction b as [|x b IH]; intros cur n; cbn; [reflexivity|].
  destruct (N.eqb x LF); [discriminate|].
  destruct (index_byte b LF) eqn:E; [discriminate|]. intros _. now apply IH.
Qed.

Lemma head_len_aux_line ih cur l r n : index_byte l LF = None ->
  head_len_aux ih cur (l ++ LF :: r) n =
    if cur_blank (cur_after cur l)
    then (if ih then Some (n + length l + 1) else head_len_aux false CurEmpty r (n + length l + 1))
    else head_len_aux true CurEmpty r (n + length l + 1).
Proof.
  revert cur n; induction l as [|x l IH]; intros cur n; cbn.
  - intros _. rewrite Nat.add_0_r, Nat.add_1_r. reflexivity.
  - destruct (N.eqb x LF); [discriminate|].
    destruct (index_byte l LF) eqn:E; [discriminate|]. intros _.
    rewrite IH by reflexivity. replace (S n + length l + 1) with (n + S (length l) + 1) by lia. reflexivity.
Qed.

Lemma first_line_end_aux_line cur l r n : index_byte l LF = None ->
  first_line_end_aux cur (l ++ LF :: r) n =
    if cur_blank (cur_after cur l) then first_line_end_aux CurEmpty r (n + length l + 1)
    else Some (n + length l + 1).
Proof.
  revert cur n; induction l as [|x l IH]; intros cur n; cbn.
  - intros _. rewrite Nat.add_0_r, Nat.add_1_r. reflexivity.
  - destruct (N.eqb x LF); [discriminate|].
    destruct (index_byte l LF) eqn:E; [discriminate|]. intros _.
    rewrite IH by reflexivity. replace (S n + length l + 1) with (n + S (length l) + 1) by lia. reflexivity.
Qed.

Lemma head_len_aux_shift ih cur b n : head_len_aux ih cur b n = option_map (fun k => n + k) (head_len_aux ih cur b 0).
Proof.
  revert ih cur n; induction b as [|x b IH]; intros ih cur n; cbn; [reflexivity|].
  destruct (N.eqb x LF).
  - destruct (cur_blank cur).
    + destruct ih; cbn; [f_equal; lia|].
      rewrite (IH false CurEmpty (S n)), (IH false CurEmpty 1).
      destruct (head_len_aux false CurEmpty b 0); cbn; [f_equal; lia|reflexivity].
    + rewrite (IH true CurEmpty (S n)), (IH true CurEmpty 1).
      destruct (head_len_aux true CurEmpty b 0); cbn; [f_equal; lia|reflexivity].
  - rewrite (IH ih _ (S n)), (IH ih _ 1).
    destruct (head_len_aux ih (cur_step cur x) b 0); cbn; [f_equal; lia|reflexivity].
Qed.

Lemma head_len_aux_app ih cur b n N s : head_len_aux ih cur b n = Some N -> head_len_aux ih cur (b ++ s) n = Some N.
Proof.
  revert ih cur n; induction b as [|x b IH]; intros ih cur n; cbn; [discriminate|].
  destruct (N.eqb x LF).
  - destruct (cur_blank cur); [destruct ih; [auto|]|]; apply IH.
  - apply IH.
Qed.

Lemma head_len_aux_bound ih cur b n N : head_len_aux ih cur b n = Some N -> N <= n + length b.
Proof.
  revert ih cur n; induction b as [|x b IH]; intros ih cur n; cbn; [discriminate|].
  destruct (N.eqb x LF).
  - destruct (cur_blank cur); [destruct ih|].
    + intros [= <-]. lia.
    + intros H. apply IH in H. lia.
    + intros H. apply IH in H. lia.
  - intros H. apply IH in H. lia.
Qed.

(* ---------- nextLine ---------- *)
Lemma nextLine_none b : index_byte b LF = None -> nextLine b = Ok None.
Proof. intros H. unfold nextLine. now rewrite H. Qed.

Lemma nextLine_line l r : index_byte l LF = None -> nextLine (l ++ LF :: r) = Ok (Some (strip_cr l, r)).
Proof.
  intros Hl. unfold nextLine. rewrite (index_byte_here _ _ _ Hl).
  assert (Hlen : length (l ++ LF :: r) = length l + 1 + length r) by (rewrite app_length; cbn; lia).
  destruct l as [|x l'] using rev_ind.
  - cbn [length Nat.ltb Nat.leb bind]. cbn.
    change (S (length r)) with (length (LF :: r)). rewrite slice_from by (cbn; lia). reflexivity.
  - clear IHl'. rewrite app_length in *. cbn [length] in *.
    replace (0 <? length l' + 1) with true by (symmetry; apply Nat.ltb_lt; lia).
    replace (length l' + 1 - 1) with (length l') by lia.
    rewrite <- app_assoc. cbn [app]. rewrite idx_app. cbn [bind].
    rewrite strip_cr_snoc.
    assert (Hr : slice (l' ++ x :: LF :: r) (length l' + 1 + 1) (length (l' ++ x :: LF :: r)) = Ok r).
    { rewrite slice_from by (rewrite app_length; cbn; lia). f_equal.
      replace (l' ++ x :: LF :: r) with ((l' ++ [x; LF]) ++ r) by (rewrite <- app_assoc; reflexivity).
      rewrite skipn_app. rewrite skipn_all2 by (rewrite app_length; cbn; lia).
      rewrite app_length. cbn [length]. replace (length l' + 1 + 1 - (length l' + 2)) with 0 by lia. reflexivity. }
    destruct (N.eqb x CR).
    + rewrite slice_to by (rewrite app_length; cbn; lia).
      rewrite firstn_app, firstn_all, Nat.sub_diag. cbn [firstn bind]. rewrite app_nil_r.
      rewrite Hr. reflexivity.
    + rewrite slice_to by (rewrite app_length; cbn; lia).
      replace (l' ++ x :: LF :: r) with ((l' ++ [x]) ++ LF :: r) at 1 by (rewrite <- app_assoc; reflexivity).
      rewrite firstn_app. rewrite app_length. cbn [length].
      rewrite firstn_all2 by (rewrite app_length; cbn; lia).
      replace (length l' + 1 - (length l' + 1)) with 0 by lia. cbn [firstn bind]. rewrite app_nil_r.
      rewrite Hr. reflexivity.
Qed.

(* ---------- firstLine_loop against the spec ---------- *)
Lemma firstLine_loop_spec fuel b n N :
  head_len_aux false CurEmpty b n = Some N -> length b < fuel ->
  exists line rest pre,
    b = pre ++ rest /\
    firstLine_loop fuel b = Ok (Some (line, rest)) /\ line <> [] /\ length rest < length b /\
    head_len_aux true CurEmpty rest (n + length b - length rest) = Some N /\
    first_line_end_aux CurEmpty b n = Some (n + length b - length rest) /\
    (forall s fuel', length (b ++ s) < fuel' -> firstLine_loop fuel' (b ++ s) = Ok (Some (line, rest ++ s))).
Proof.
  revert b n; induction fuel as [|fuel IH]; intros b n HN Hf; [lia|].
  destruct (index_byte b LF) as [i|] eqn:Ei; [|now rewrite head_len_aux_noLF in HN].
  destruct (index_byte_split _ _ _ Ei) as (l & r & -> & Hli & Hl).
  rewrite head_len_aux_line in HN by exact Hl.
  rewrite cur_after_blank in HN.
  assert (Hlen : length (l ++ LF :: r) = length l + 1 + length r) by (rewrite app_length; cbn; lia).
  destruct (blank_line l) eqn:Eb.
  - (* blank line: skipped *)
    rewrite Hlen in Hf.
    destruct (IH r (n + length l + 1) HN ltac:(lia)) as (line & rest & pre & H0 & H1 & H2 & H3 & H4 & H5 & H6).
    exists line, rest, (l ++ LF :: pre). repeat split.
    + rewrite H0 at 1. rewrite <- app_assoc. reflexivity.
    + cbn [firstLine_loop]. rewrite nextLine_line by exact Hl. cbn [bind].
      apply strip_cr_blank in Eb. rewrite Eb. exact H1.
    + exact H2.
    + lia.
    + rewrite Hlen. replace (n + (length l + 1 + length r) - length rest) with (n + length l + 1 + length r - length rest) by lia. exact H4.
    + rewrite first_line_end_aux_line by exact Hl. rewrite cur_after_blank, Eb.
      rewrite Hlen. replace (n + (length l + 1 + length r) - length rest) with (n + length l + 1 + length r - length rest) by lia. exact H5.
    + intros s fuel' Hf'. destruct fuel' as [|fuel']; [lia|].
      rewrite <- app_assoc. cbn [app firstLine_loop]. rewrite nextLine_line by exact Hl. cbn [bind].
      apply strip_cr_blank in Eb. rewrite Eb. apply H6.
      rewrite <- app_assoc in Hf'. cbn [app] in Hf'. rewrite app_length in Hf'. cbn [length] in Hf'. lia.
  - (* the request / status line *)
    assert (Hne : strip_cr l <> []) by (intros Hc; apply strip_cr_blank in Hc; congruence).
    exists (strip_cr l), r, (l ++ [LF]). repeat split.
    + rewrite <- app_assoc. reflexivity.
    + cbn [firstLine_loop]. rewrite nextLine_line by exact Hl. cbn [bind].
      destruct (strip_cr l); [congruence|reflexivity].
    + exact Hne.
    + lia.
    + rewrite Hlen. replace (n + (length l + 1 + length r) - length r) with (n + length l + 1) by lia. exact HN.
    + rewrite first_line_end_aux_line by exact Hl. rewrite cur_after_blank, Eb.
      f_equal. lia.
    + intros s fuel' Hf'. destruct fuel' as [|fuel']; [lia|].
      rewrite <- app_assoc. cbn [app firstLine_loop]. rewrite nextLine_line by exact Hl. cbn [bind].
      destruct (strip_cr l); [congruence|reflexivity].
Qed.

(* ---------- readRawHeaders = "offset after the first blank line" ---------- *)
(* the copy readRawHeaders stores: nothing when the block is empty, else the whole block *)
Definition first_blank (buf : bytes) : bool :=
  match index_byte buf LF with Some i => blank_line (firstn i buf) | None => false end.
Definition raw_of (buf : bytes) (n : nat) : bytes := if first_blank buf then [] else firstn n buf.
Definition raw_res (buf : bytes) (o : option nat) : option (bytes * nat) :=
  match o with Some n => Some (raw_of buf n, n) | None => None end.

Lemma skipn_skipn {A} a b (l : list A) : skipn a (skipn b l) = skipn (b + a) l.
Proof. revert l; induction b as [|b IH]; intros l; [reflexivity|]. destruct l; cbn; [now rewrite skipn_nil|apply IH]. Qed.

Lemma rrh_loop_spec fuel buf b m n :
  m <= length b -> length b - m < fuel -> skipn m b = skipn n buf -> n <= length buf ->
  rrh_loop fuel buf b m n =
    Ok (match head_len_aux true CurEmpty (skipn m b) n with Some k => Some (firstn k buf, k) | None => None end).
Proof.
  revert b m n; induction fuel as [|fuel IH]; intros b m n Hm Hf Hsk Hn; [lia|].
  cbn [rrh_loop]. rewrite slice_from by exact Hm. cbn [bind].
  destruct (index_byte (skipn m b) LF) as [i|] eqn:Ei.
  - destruct (index_byte_split _ _ _ Ei) as (l & r & Eb & Hli & Hl). rewrite Eb. subst i.
    rewrite head_len_aux_line by exact Hl. rewrite cur_after_blank.
    assert (Hlen : length (skipn m b) = length l + 1 + length r) by (rewrite Eb, app_length; cbn; lia).
    assert (Hlen2 : length (skipn n buf) = length l + 1 + length r) by (rewrite <- Hsk; exact Hlen).
    rewrite skipn_length in Hlen, Hlen2.
    assert (Hskr : skipn (S (length l)) (l ++ LF :: r) = r).
    { replace (S (length l)) with (length (l ++ [LF])) by (rewrite app_length; cbn; lia).
      replace (l ++ LF :: r) with ((l ++ [LF]) ++ r) by (rewrite <- app_assoc; reflexivity).
      rewrite skipn_app, skipn_all, Nat.sub_diag. reflexivity. }
    assert (Hrec : rrh_loop fuel buf (l ++ LF :: r) (S (length l)) (n + S (length l)) =
                   Ok (match head_len_aux true CurEmpty r (n + length l + 1) with
                       | Some k => Some (firstn k buf, k) | None => None end)).
    { rewrite IH.
      - rewrite Hskr. replace (n + S (length l)) with (n + length l + 1) by lia. reflexivity.
      - rewrite app_length. cbn. lia.
      - rewrite app_length. cbn [length]. lia.
      - rewrite Hskr. rewrite <- skipn_skipn, <- Hsk, Eb. symmetry. exact Hskr.
      - lia. }
    rewrite Hrec. clear Hrec IH.
    assert (Hsl : slice buf 0 (n + S (length l)) = Ok (firstn (n + S (length l)) buf)).
    { rewrite slice_to by lia. reflexivity. }
    replace (n + length l + 1) with (n + S (length l)) by lia.
    destruct l as [|x [|y l']]; cbn [length Nat.eqb bind idx nth_error app blank_line orb] in *.
    + rewrite Hsl. reflexivity.
    + rewrite orb_false_r. destruct (N.eqb x CR); [|reflexivity].
      rewrite Hsl. reflexivity.
    + reflexivity.
  - now rewrite head_len_aux_noLF.
Qed.

Lemma readRawHeaders_spec buf :
  readRawHeaders buf = Ok (raw_res buf (head_len_aux true CurEmpty buf 0)).
Proof.
  unfold readRawHeaders, raw_res, raw_of, first_blank.
  destruct (index_byte buf LF) as [i|] eqn:Ei; [|now rewrite head_len_aux_noLF].
  destruct (index_byte_split _ _ _ Ei) as (l & r & E & Hli & Hl). subst i.
  assert (Hfl : firstn (length l) buf = l).
  { rewrite E. rewrite firstn_app, Nat.sub_diag, firstn_all. cbn. apply app_nil_r. }
  rewrite Hfl.
  assert (Hhl : head_len_aux true CurEmpty buf 0 =
                if blank_line l then Some (0 + length l + 1) else head_len_aux true CurEmpty r (0 + length l + 1)).
  { rewrite E. rewrite head_len_aux_line by exact Hl. now rewrite cur_after_blank. }
  rewrite Hhl.
  assert (Hlen : length buf = length l + 1 + length r) by (rewrite E, app_length; cbn; lia).
  assert (Hskr : skipn (length l + 1) buf = r).
  { rewrite E. replace (length l + 1) with (length (l ++ [LF])) by (rewrite app_length; cbn; lia).
    replace (l ++ LF :: r) with ((l ++ [LF]) ++ r) by (rewrite <- app_assoc; reflexivity).
    rewrite skipn_app, skipn_all, Nat.sub_diag. reflexivity. }
  assert (Hrec : rrh_loop (S (length buf)) buf buf (length l + 1) (length l + 1) =
                 Ok (match head_len_aux true CurEmpty r (0 + length l + 1) with
                     | Some k => Some (firstn k buf, k) | None => None end)).
  { rewrite rrh_loop_spec; try lia; [|reflexivity]. rewrite Hskr. reflexivity. }
  rewrite Hrec. clear Hrec.
  assert (Hidx : idx buf 0 = match l with x :: _ => Ok x | [] => Ok LF end).
  { rewrite E. destruct l; reflexivity. }
  destruct l as [|x [|y l']]; cbn [length Nat.eqb bind app blank_line orb].
  - reflexivity.
  - rewrite Hidx. cbn [bind]. rewrite orb_false_r. destruct (N.eqb x CR); reflexivity.
  - reflexivity.
Qed.

(* the stored copy does not depend on what follows a complete block *)
Lemma raw_of_app rest z : head_len_aux true CurEmpty rest 0 = Some (length rest) ->
  raw_of (rest ++ z) (length rest) = raw_of rest (length rest).
Proof.
  intros HC. unfold raw_of, first_blank.
  destruct (index_byte rest LF) as [i|] eqn:Ei; [|now rewrite head_len_aux_noLF in HC].
  destruct (index_byte_split _ _ _ Ei) as (l & r & E & Hli & Hl). subst i.
  assert (Ei' : index_byte (rest ++ z) LF = Some (length l)).
  { rewrite E, <- app_assoc. cbn [app]. now apply index_byte_here. }
  rewrite Ei'.
  assert (Hf1 : firstn (length l) (rest ++ z) = l).
  { rewrite E, <- app_assoc. rewrite firstn_app, Nat.sub_diag, firstn_all. cbn. apply app_nil_r. }
  assert (Hf2 : firstn (length l) rest = l).
  { rewrite E. rewrite firstn_app, Nat.sub_diag, firstn_all. cbn. apply app_nil_r. }
  rewrite Hf1, Hf2. destruct (blank_line l); [reflexivity|].
  rewrite firstn_app, Nat.sub_diag, firstn_all. cbn. apply app_nil_r.
Qed.
