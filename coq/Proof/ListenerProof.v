(* Proofs for Model/Listener.v (property C33): Dial/Accept pairing and "nothing succeeds after Close",
   for every reachable state, any number of concurrent Dial, Accept and Close calls. *)
From Coq Require Import Lia ZifyBool ZifyN ZifyNat.
From FH Require Import Model.Base Model.Listener.
Open Scope N_scope.

Lemma lrun_app s tr1 tr2 : lrun s (tr1 ++ tr2) = match lrun s tr1 with Some s' => lrun s' tr2 | None => None end.
Proof. revert s; induction tr1 as [|l tr IH]; intros s; cbn; [reflexivity|]. destruct (lstep s l); auto. Qed.

Lemma linv_run (P : lstate -> Prop) :
  (forall s l s', P s -> lstep s l = Some s' -> P s') ->
  forall tr s s', P s -> lrun s tr = Some s' -> P s'.
Proof.
  intros Hstep tr; induction tr as [|l tr IH]; intros s s' Hs Hr; cbn in Hr.
  - now inversion Hr; subst.
  - destruct (lstep s l) as [s1|] eqn:E; [|discriminate]. eauto.
Qed.

Definition presend (p : dpc) : bool := match p with DFresh | DLock _ | DChk2 | DSend => true | _ => false end.
Definition holds (a : apc) (i : N) : Prop := a = AGot i \/ a = AMark i.

Record linv (s : lstate) : Prop := mkLI {
  l_nodup : NoDup (conns s);
  l_pre : forall i, presend (dp s i) = true -> ~ In i (conns s) /\ (forall j, ~ holds (ap s j) i) /\ acc s i = false;
  l_uniq : forall i j j', holds (ap s j) i -> holds (ap s j') i -> j = j';
  l_held : forall i j, holds (ap s j) i -> ~ In i (conns s) /\ acc s i = false;
  l_conn : forall i, In i (conns s) -> acc s i = false;
  l_count : forall i, acount i (lhist s) = if acc s i then 1%nat else 0%nat;
  l_dok : forall i, dp s i = DDone true -> acc s i = true;
  l_devent : forall i sc ok, In (EvDial i sc ok) (lhist s) -> dp s i = DDone ok;
  l_aevent : forall j sc r, In (EvAccept j sc r) (lhist s) -> ap s j = ADone;
  l_done : closed s = done s;
  l_w3 : forall i, dp s i = DWait3 -> done s = true;
  l_failed : forall i, dp s i = DDone false ->
             (In i (conns s) \/ (exists j, holds (ap s j) i) \/ acc s i = true) -> done s = true
}.

Lemma linv_init : linv linit.
Proof.
  constructor; cbn; try easy.
  all: try (constructor; fail).
  all: try (intros i _; repeat split; auto; intros j [H|H]; discriminate).
  all: try (intros i j j' [H|H]; discriminate).
  all: try (intros i j [H|H]; discriminate).
  all: try (intros i _ [H|[[j [H|H]]|H]]; discriminate || contradiction).
Qed.

Lemma upd_same {A} (f : N -> A) k v : upd f k v k = v.
Proof. unfold upd. now rewrite N.eqb_refl. Qed.
Lemma upd_other {A} (f : N -> A) k v x : x <> k -> upd f k v x = f x.
Proof. unfold upd. intros H. apply N.eqb_neq in H. now rewrite H. Qed.

Ltac lstep_cases H :=
  unfold lstep in H;
  repeat match type of H with
         | context [match ?x with _ => _ end] => destruct x eqn:?
         end;
  try discriminate; inversion H; subst; clear H.

Ltac upd_split :=
  repeat match goal with
         | H : context [upd _ ?k _ ?x] |- _ =>
             destruct (N.eq_dec x k) as [->|?]; [rewrite upd_same in H | rewrite upd_other in H by assumption]
         | |- context [upd _ ?k _ ?x] =>
             destruct (N.eq_dec x k) as [->|?]; [rewrite upd_same | rewrite upd_other by assumption]
         end.

Ltac lnorm := unfold set_dp, set_ap, set_cp, d_fail, d_ok, a_fail, holds in *; cbn [conns done closed acc pclosed dp ap cp lhist] in *.


Ltac brk :=
  repeat match goal with
         | H : _ /\ _ |- _ => destruct H
         | H : exists _, _ |- _ => destruct H
         | H : In _ (_ :: _) |- _ => destruct H
         | H : In _ (_ ++ _) |- _ => apply in_app_or in H
         | H : In _ [] |- _ => destruct H
         | H : EvDial _ _ _ = EvDial _ _ _ |- _ => inversion H; subst; clear H
         | H : EvAccept _ _ _ = EvAccept _ _ _ |- _ => inversion H; subst; clear H
         | H : EvDial _ _ _ = _ |- _ => discriminate H
         | H : EvAccept _ _ _ = _ |- _ => discriminate H
         | H : EvClose _ _ = _ |- _ => discriminate H
         | H : _ \/ _ |- _ => destruct H
         end.

Ltac crush :=
  intros; upd_split; subst; cbn [presend] in *; brk; upd_split; subst;
  try discriminate; try congruence; eauto;
  idtac.


Lemma nodup_snoc {A} (l : list A) (x : A) : NoDup l -> ~ In x l -> NoDup (l ++ [x]).
Proof.
  induction l as [|y l IH]; cbn; intros Hn Hx.
  - constructor; [intros []|constructor].
  - inversion Hn; subst. constructor.
    + intros Hin. apply in_app_or in Hin. destruct Hin as [Hin|[->|[]]]; [contradiction|]. apply Hx. now left.
    + apply IH; auto.
Qed.

Ltac updr := repeat (first [rewrite upd_same in * | rewrite upd_other in * by assumption]).
Ltac fwd :=
  repeat match goal with
         | Hd : (forall i sc ok, In (EvDial i sc ok) (lhist ?s) -> _), H : In (EvDial _ _ _) (lhist ?s) |- _ => apply Hd in H
         | Hd : (forall j sc r, In (EvAccept j sc r) (lhist ?s) -> _), H : In (EvAccept _ _ _) (lhist ?s) |- _ => apply Hd in H
         end.
Ltac t_dev := intros; brk; upd_split; subst; try reflexivity; fwd; congruence.

Ltac use_conns := match goal with H : conns _ = _ |- _ => rewrite H in * end.

Lemma linv_step s l s' : linv s -> lstep s l = Some s' -> linv s'.
Proof.
  intros I H. lstep_cases H.
  all: destruct I as [Inodup Ipre Iuniq Iheld Iconn Icount Idok Idev Iaev Idone Iw3 Ifailed].
  all: constructor; lnorm; try assumption.
  all: try solve [intros; upd_split; cbn in *; try congruence; try discriminate; eauto].
  all: try solve [crush].
  all: try solve [t_dev].
  (* NoDup *)
  all: try solve [apply nodup_snoc; [assumption | apply Ipre; match goal with H : dp _ _ = _ |- _ => rewrite H; reflexivity end]].
  all: try solve [use_conns; inversion Inodup; assumption].
  (* l_pre *)
  all: try solve [
    intros k Hp;
    assert (Hp0 : presend (dp s k) = true) by
      (first [exact Hp | revert Hp; upd_split; intros Hp; [match goal with H : dp _ _ = _ |- _ => rewrite H; reflexivity end | exact Hp]]);
    destruct (Ipre k Hp0) as (A & B & C);
    split; [| split];
    [ first [ exact A
            | intros Hin; apply in_app_or in Hin; destruct Hin as [Hin|[<-|[]]]; [contradiction| rewrite upd_same in Hp; discriminate]
            | intros Hin; apply A; use_conns; right; exact Hin
            | intros [] ]
    | intros j0 Hh;
      first [ exact (B j0 Hh)
            | upd_split;
              [ destruct Hh as [Hh|Hh]; try discriminate; inversion Hh; subst;
                first [ apply A; use_conns; left; reflexivity | apply (B j); left; assumption | apply (B j); right; assumption ]
              | exact (B j0 Hh) ] ]
    | first [ exact C | upd_split; [exfalso; apply (B j); right; assumption | exact C] ] ] ].
  (* l_devent with a new Dial event *)
  all: try solve [ intros k sc0 ok0 [E|Hin]; [inversion E; subst; now rewrite upd_same |];
                   pose proof (Idev _ _ _ Hin) as Hd; upd_split; [congruence | exact Hd] ].
  (* l_failed *)
  all: try solve [
    intros k Hd Hsw; apply (Ifailed k); [ revert Hd; upd_split; intros; congruence |];
    destruct Hsw as [Hin | [[j0 Hh] | Ha]];
    [ first [ left; exact Hin
            | apply in_app_or in Hin; destruct Hin as [Hin|[<-|[]]]; [left; exact Hin | rewrite upd_same in Hd; discriminate]
            | left; use_conns; right; exact Hin
            | destruct Hin ]
    | first [ right; left; exists j0; exact Hh
            | upd_split;
              [ destruct Hh as [Hh|Hh]; try discriminate; inversion Hh; subst;
                first [ left; use_conns; left; reflexivity | right; left; exists j; left; assumption ]
              | right; left; exists j0; exact Hh ] ]
    | first [ right; right; exact Ha
            | upd_split; [ right; left; exists j; right; assumption | right; right; exact Ha ] ] ] ].
  all: try match goal with H : conns _ = _ :: _ |- _ => rename H into Hcs end.
  all: try match goal with H : dp _ _ = _ |- _ => rename H into Hdp end.
  - (* SendOk: l_held *)
    intros k j Hh. destruct (Iheld k j Hh) as [A C]. split; [|exact C].
    intros Hin. apply in_app_or in Hin. destruct Hin as [Hin|[<-|[]]]; [contradiction|].
    destruct (Ipre i) as (_ & B & _); [rewrite Hdp; reflexivity|]. exact (B j Hh).
  - (* SendOk: l_conn *)
    intros k Hin. apply in_app_or in Hin. destruct Hin as [Hin|[<-|[]]]; [auto|].
    destruct (Ipre i) as (_ & _ & C); [rewrite Hdp; reflexivity|]. exact C.
  - (* SelTake: l_uniq *)
    intros k j0 j' H0 H1.
    assert (Hn : forall x, holds (ap s x) n -> False).
    { intros x Hx. destruct (Iheld n x Hx) as [A _]. apply A. rewrite Hcs. now left. }
    unfold holds in Hn.
    destruct (N.eq_dec j0 j) as [->|N0]; destruct (N.eq_dec j' j) as [->|N1]; auto; updr.
    + destruct H0 as [H0|H0]; inversion H0; subst. exfalso. exact (Hn _ H1).
    + destruct H1 as [H1|H1]; inversion H1; subst. exfalso. exact (Hn _ H0).
    + eauto.
  - (* SelTake: l_held *)
    intros k j0 Hh. destruct (N.eq_dec j0 j) as [->|N0]; updr.
    + destruct Hh as [Hh|Hh]; inversion Hh; subst. split.
      * rewrite Hcs in Inodup. now inversion Inodup.
      * apply Iconn. rewrite Hcs. now left.
    + destruct (Iheld k j0 Hh) as [A C]. split; [|exact C]. intros Hin. apply A. rewrite Hcs. now right.
  - intros k Hin. apply Iconn. rewrite Hcs. now right.
  - (* GotOpen: l_uniq *)
    intros k j0 j' H0 H1.
    destruct (N.eq_dec j0 j) as [->|N0]; destruct (N.eq_dec j' j) as [->|N1]; auto; updr.
    + destruct H0 as [H0|H0]; inversion H0; subst. apply (Iuniq k j j'); auto.
    + destruct H1 as [H1|H1]; inversion H1; subst. apply (Iuniq k j0 j); auto.
    + eauto.
  - intros k j0 Hh. destruct (N.eq_dec j0 j) as [->|N0]; updr.
    + destruct Hh as [Hh|Hh]; inversion Hh; subst. apply (Iheld k j). now left.
    + eauto.
  - (* Mark: l_held *)
    intros k j0 Hh. destruct (N.eq_dec j0 j) as [->|N0]; updr.
    + destruct Hh; discriminate.
    + destruct (Iheld k j0 Hh) as [A C]. split; [exact A|].
      destruct (N.eq_dec k c) as [->|N1]; [|now rewrite upd_other].
      exfalso. apply N0. apply (Iuniq c j0 j); auto.
  - intros k Hin. destruct (N.eq_dec k c) as [->|N1]; [|rewrite upd_other; auto].
    exfalso. destruct (Iheld c j) as [A _]; [now right|]. contradiction.
  - (* Mark: l_count *)
    intros k. unfold acount in *. cbn [filter is_accept_of].
    destruct (N.eq_dec k c) as [->|N1].
    + rewrite N.eqb_refl, upd_same. cbn [length]. rewrite Icount.
      destruct (Iheld c j) as [_ C]; [now right|]. now rewrite C.
    + rewrite upd_other by assumption. assert (E : (c =? k) = false) by (apply N.eqb_neq; congruence).
      rewrite E. apply Icount.
  - (* DrainTake *)
    intros x Hp. destruct (Ipre x Hp) as (A & B & C). repeat split; auto. intros Hin. apply A. rewrite Hcs. now right.
  - intros x j Hh. destruct (Iheld x j Hh) as [A C]. split; auto. intros Hin. apply A. rewrite Hcs. now right.
  - intros x Hin. apply Iconn. rewrite Hcs. now right.
  - intros x Hd [Hin|Hsw]; apply (Ifailed x Hd); [left; rewrite Hcs; now right | right; exact Hsw].
Qed.

Lemma lreach_inv tr s : lreach tr s -> linv s.
Proof. unfold lreach. apply (linv_run linv linv_step). exact linv_init. Qed.


(* ---------- consequences, in the form used by Properties/C33.v ---------- *)

(* a successful Dial i is matched by exactly one successful Accept that returned pipe i *)
Lemma dial_paired tr s i sc : lreach tr s -> In (EvDial i sc true) (lhist s) -> acount i (lhist s) = 1%nat.
Proof.
  intros R Hin. pose proof (lreach_inv _ _ R) as I.
  rewrite (l_count _ I). now rewrite (l_dok _ I i (l_devent _ I _ _ _ Hin)).
Qed.

(* no pipe is ever accepted twice *)
Lemma accept_at_most_once tr s i : lreach tr s -> (acount i (lhist s) <= 1)%nat.
Proof. intros R. rewrite (l_count _ (lreach_inv _ _ R)). destruct (acc s i); lia. Qed.

(* each Dial call returns at most once and the log agrees with its final state *)
Lemma dial_event_state tr s i sc ok : lreach tr s -> In (EvDial i sc ok) (lhist s) -> dp s i = DDone ok.
Proof. intros R. apply (l_devent _ (lreach_inv _ _ R)). Qed.

(* converse direction, as long as the listener is open: an accepted pipe belongs to a Dial that is
   parked waiting for the acceptance or has already returned success *)
Lemma accept_paired_while_open tr s i :
  lreach tr s -> done s = false -> acount i (lhist s) = 1%nat ->
  dp s i = DWait1 \/ dp s i = DWait2 \/ dp s i = DDone true.
Proof.
  intros R Hd Hc. pose proof (lreach_inv _ _ R) as I.
  assert (Ha : acc s i = true).
  { rewrite (l_count _ I) in Hc. destruct (acc s i); [reflexivity|discriminate]. }
  destruct (dp s i) eqn:E; auto.
  1-4: destruct (l_pre _ I i) as (_ & _ & C); [rewrite E; reflexivity | congruence].
  - rewrite (l_w3 _ I i E) in Hd. discriminate.
  - destruct ok; auto. rewrite (l_failed _ I i E) in Hd; [discriminate|]. right; right; exact Ha.
Qed.

(* ... and that is as far as it goes: with Close racing, Accept can return a pipe whose Dial failed *)
Definition orphan_trace : list llabel :=
  [LDStart 0; LDLockOpen 0; LDChk2Open 0; LDSendOk 0; LDWait1Default 0;
   LAStart 0; LAChkOpen 0; LASelTake 0; LAGotOpen 0;
   LCStart 0; LCLockFirst 0; LDWait2Done 0; LDWait3Fail 0; LAMark 0].
Lemma accept_orphan_possible :
  exists tr, match lrun linit tr with
             | Some s => acount 0 (lhist s) = 1%nat /\ In (EvDial 0 false false) (lhist s) /\ pclosed s 0 = true
             | None => False end.
Proof. exists orphan_trace. vm_compute. repeat split; auto. Qed.

(* ---------- nothing that starts after Close succeeds ---------- *)
Definition dq (i : N) (s : lstate) : Prop :=
  done s = true /\ closed s = true /\ (dp s i = DFresh \/ dp s i = DLock true \/ dp s i = DDone false).

Lemma dq_step i s l s' : dq i s -> lstep s l = Some s' -> dq i s'.
Proof.
  intros (Hd & Hc & Hp) H. lstep_cases H; unfold dq; lnorm; repeat split; auto; try congruence.
  all: try solve [upd_split; intuition congruence].
  all: try solve [upd_split; rewrite ?Hd; intuition congruence].
Qed.

Lemma dial_after_close tr1 s1 tr2 s2 i sc :
  lreach tr1 s1 -> done s1 = true -> dp s1 i = DFresh -> lrun s1 tr2 = Some s2 -> ~ In (EvDial i sc true) (lhist s2).
Proof.
  intros R Hd Hf Hr Hin.
  assert (R2 : lreach (tr1 ++ tr2) s2) by (unfold lreach in *; now rewrite lrun_app, R).
  pose proof (dial_event_state _ _ _ _ _ R2 Hin) as E.
  assert (Q : dq i s2).
  { apply (linv_run (dq i) (dq_step i) tr2 s1 s2); auto.
    repeat split; auto. now rewrite (l_done _ (lreach_inv _ _ R)). }
  destruct Q as (_ & _ & [Q|[Q|Q]]); congruence.
Qed.

Definition aq (j : N) (s : lstate) : Prop :=
  done s = true /\ (ap s j = ANone \/ ap s j = AChk true \/ ap s j = ADone) /\
  (forall sc r, In (EvAccept j sc r) (lhist s) -> r = None).

Lemma aq_step j s l s' : aq j s -> lstep s l = Some s' -> aq j s'.
Proof.
  intros (Hd & Hp & He) H. lstep_cases H; unfold aq; lnorm; repeat split; auto; try congruence.
  all: try solve [upd_split; intuition congruence].
  all: try solve [upd_split; rewrite ?Hd; intuition congruence].
  all: try solve [intros sc0 r0 [E|Hin]; [inversion E; subst; try reflexivity; intuition congruence | eauto]].
  all: try solve [intros sc0 r0 [E|Hin]; [discriminate E | eauto]].
Qed.

Lemma accept_after_close tr1 s1 tr2 s2 j sc c :
  lreach tr1 s1 -> done s1 = true -> ap s1 j = ANone -> lrun s1 tr2 = Some s2 -> ~ In (EvAccept j sc (Some c)) (lhist s2).
Proof.
  intros R Hd Hf Hr Hin.
  assert (Q : aq j s2).
  { apply (linv_run (aq j) (aq_step j) tr2 s1 s2); auto.
    repeat split; auto. intros sc0 r0 Hin0.
    rewrite (l_aevent _ (lreach_inv _ _ R) _ _ _ Hin0) in Hf. discriminate. }
  destruct Q as (_ & _ & Q). specialize (Q _ _ Hin). discriminate.
Qed.

