(* MultipartProof.v — proofs for C35: (b) temporary files over connection histories, (a) codec round trip. *)
From FH Require Import Model.Base Gen.GenC35 Model.Multipart Spec.MultipartSpec.
From Coq Require Import Lia ZifyBool ZifyNat.

(* ================================================================== *)
(* (b) temporary files                                                  *)
(* ================================================================== *)
Section TempFiles.
Open Scope Z_scope.
Notation cnt := (count_occ Z.eq_dec).

Lemma cnt_remove_one y l x : cnt (remove_one y l) x = if Z.eq_dec y x then Nat.pred (cnt l x) else cnt l x.
Proof.
  induction l as [|z l IH]; cbn [remove_one].
  - cbn. now destruct (Z.eq_dec y x).
  - destruct (Z.eqb_spec z y) as [->|Hne].
    + cbn [count_occ]. destruct (Z.eq_dec y x); reflexivity.
    + cbn [count_occ]. rewrite IH. destruct (Z.eq_dec z x) as [->|Hzx]; destruct (Z.eq_dec y x) as [->|Hyx]; try congruence; try reflexivity.
Qed.

Lemma cnt_remove_all fs l x : cnt (remove_all fs l) x = (cnt l x - cnt fs x)%nat.
Proof.
  revert l; induction fs as [|y fs IH]; intros l; cbn [remove_all count_occ].
  - lia.
  - rewrite IH, cnt_remove_one. destruct (Z.eq_dec y x); lia.
Qed.

Definition cur_files (s : cstate) : list Z := match c_ph s with CHandling r => form_files r | _ => [] end.

(* every temporary file on disk belongs to the request being handled or to a timed-out request *)
Definition accounted (s : cstate) : Prop :=
  forall x, (cnt (c_disk s) x <= cnt (c_detached s ++ cur_files s) x)%nat.

Lemma fwl_accounted l r disk det s' x :
  (cnt disk x <= cnt (det ++ form_files r) x)%nat ->
  form_with_limit l r (Build_cstate (CHandling r) disk det) = Some s' ->
  (cnt (c_disk s') x <= cnt (c_detached s' ++ cur_files s') x)%nat.
Proof.
  unfold form_with_limit, cur_files. intros Hi Hst. cbn [c_disk c_detached] in Hst.
  destruct (r_form r) eqn:Hf.
  - injection Hst as <-. cbn. unfold form_files in *. now rewrite Hf in *.
  - unfold form_files in Hi. rewrite Hf in Hi.
    destruct (negb (parsable (r_desc r))); [injection Hst as <-; cbn; unfold form_files; now rewrite Hf|].
    destruct (r_stream r).
    + destruct (r_consumed r); [injection Hst as <-; cbn; unfold form_files; now rewrite Hf|].
      destruct (negb (rq_wellformed (r_desc r))); [injection Hst as <-; cbn; rewrite ?count_occ_app in *; cbn in *; lia|].
      destruct (l <=? 0); [injection Hst as <-; cbn; rewrite ?count_occ_app in *; cbn in *; lia|].
      destruct (limit_cut l (r_desc r)); [|injection Hst as <-; cbn; rewrite ?count_occ_app in *; cbn in *; lia|discriminate].
      destruct (rq_len (r_desc r) <=? l); injection Hst as <-; cbn.
      * rewrite ?count_occ_app in *. cbn in *. lia.
      * unfold reset_request, form_files. cbn [r_form]. rewrite cnt_remove_all, ?count_occ_app in *. cbn in *. lia.
    + destruct ((0 <? l) && (l <? rq_len (r_desc r))); [injection Hst as <-; cbn; unfold form_files; now rewrite Hf|].
      destruct (negb (rq_wellformed (r_desc r))); injection Hst as <-; cbn;
        [unfold form_files; now rewrite Hf|]. rewrite ?count_occ_app in *. cbn in *. lia.
Qed.

Lemma fwl_detached l r disk det s' :
  form_with_limit l r (Build_cstate (CHandling r) disk det) = Some s' -> c_detached s' = det.
Proof.
  unfold form_with_limit. intros Hst. cbn [c_disk c_detached] in Hst.
  destruct (r_form r); [injection Hst as <-; reflexivity|].
  destruct (negb (parsable (r_desc r))); [injection Hst as <-; reflexivity|].
  destruct (r_stream r).
  - destruct (r_consumed r); [injection Hst as <-; reflexivity|].
    destruct (negb (rq_wellformed (r_desc r))); [injection Hst as <-; reflexivity|].
    destruct (l <=? 0); [injection Hst as <-; reflexivity|].
    destruct (limit_cut l (r_desc r)); [|injection Hst as <-; reflexivity|discriminate].
    destruct (rq_len (r_desc r) <=? l); injection Hst as <-; reflexivity.
  - destruct ((0 <? l) && (l <? rq_len (r_desc r))); [injection Hst as <-; reflexivity|].
    destruct (negb (rq_wellformed (r_desc r))); injection Hst as <-; reflexivity.
Qed.

(* a body longer than the limit never leaves a file behind, whichever way the call fails *)
Lemma fwl_limit_exceeded l r disk det s' : 0 < l -> l < rq_len (r_desc r) -> r_form r = None ->
  form_with_limit l r (Build_cstate (CHandling r) disk det) = Some s' ->
  cur_files s' = [] /\ forall x, cnt (c_disk s') x = cnt disk x.
Proof.
  unfold form_with_limit, cur_files. intros Hl Hlen Hf Hst. cbn [c_disk c_detached] in Hst. rewrite Hf in Hst.
  assert (form_files r = []) as Hff by (unfold form_files; now rewrite Hf).
  destruct (negb (parsable (r_desc r))); [injection Hst as <-; cbn; auto|].
  destruct (r_stream r).
  - destruct (r_consumed r); [injection Hst as <-; cbn; auto|].
    destruct (negb (rq_wellformed (r_desc r))); [injection Hst as <-; cbn; auto|].
    destruct (Z.leb_spec l 0); [lia|].
    destruct (limit_cut l (r_desc r)); [|injection Hst as <-; cbn; auto|discriminate].
    destruct (Z.leb_spec (rq_len (r_desc r)) l); [lia|]. injection Hst as <-. cbn. split; [reflexivity|].
    intros x. unfold reset_request, form_files. cbn [r_form]. rewrite cnt_remove_all, count_occ_app. lia.
  - destruct (Z.ltb_spec 0 l); [|lia]. destruct (Z.ltb_spec l (rq_len (r_desc r))); [|lia].
    cbn [andb] in Hst. injection Hst as <-. cbn. auto.
Qed.

Lemma rmf_error_clean mm sizes wf short disk disk' : rmf mm sizes wf short disk = (None, disk') ->
  forall x, cnt disk' x = cnt disk x.
Proof.
  unfold rmf. destruct (negb wf); [intros H; injection H as <-; reflexivity|].
  destruct short; intros H; [|discriminate]. injection H as <-. intros x. rewrite cnt_remove_all, count_occ_app. lia.
Qed.

Lemma cstep_accounted c s e s' : accounted s -> cstep c s e = Some s' -> accounted s'.
Proof.
  unfold accounted, cur_files. intros Hi Hst x. specialize (Hi x).
  destruct s as [p disk det]. cbn [c_ph c_disk c_detached] in *.
  destruct e as [d|o| |keep|]; [|destruct o as [|l| | | |]| | |]; destruct p as [|r|]; cbn [cstep c_ph] in Hst; try discriminate.
  - (* dispatch *)
    destruct (sc_preparse c && rq_clpos d && preparse_ok d).
    + unfold rmf in Hst. destruct (rq_wellformed d); cbn [negb] in Hst.
      * destruct (rq_short d); injection Hst as <-; cbn; rewrite ?cnt_remove_all, ?count_occ_app in *; cbn in *; lia.
      * injection Hst as <-. cbn. rewrite ?count_occ_app in *. cbn in *. lia.
    + destruct (rq_short d); [destruct (sc_stream c); [discriminate|]|]; injection Hst as <-; cbn; rewrite ?count_occ_app in *; cbn in *; lia.
  - (* MultipartForm() *)
    eapply (fwl_accounted 0 r disk det); eauto.
  - (* MultipartFormWithLimit(l) *)
    eapply (fwl_accounted l r disk det); eauto.
  - injection Hst as <-. cbn. unfold reset_request. rewrite cnt_remove_all, ?count_occ_app in *. cbn. lia.
  - injection Hst as <-. cbn. unfold reset_request. rewrite cnt_remove_all, ?count_occ_app in *. cbn. lia.
  - injection Hst as <-. cbn. rewrite cnt_remove_all. lia.
  - injection Hst as <-. cbn. exact Hi.
  - (* timeout *)
    injection Hst as <-. cbn. rewrite ?count_occ_app in *. cbn. lia.
  - (* return *)
    injection Hst as <-. unfold reset_request.
    destruct keep; cbn; rewrite cnt_remove_all, ?count_occ_app in *; cbn; lia.
  - (* close *)
    injection Hst as <-. cbn. exact Hi.
Qed.

Lemma creach_accounted c s : creach c s -> accounted s.
Proof.
  induction 1 as [|s e s' _ IH Hst].
  - intros x. cbn. lia.
  - eapply cstep_accounted; eauto.
Qed.

Lemma gone_at_next_dispatch c s d s' : creach c s -> cstep c s (VDispatch d) = Some s' ->
  only_excepted (c_disk s) (c_detached s).
Proof.
  intros Hr Hst x. pose proof (creach_accounted c s Hr x) as Hi. unfold cur_files in Hi.
  destruct s as [p disk det]. cbn in *. destruct p; try discriminate. now rewrite app_nil_r in Hi.
Qed.

Lemma gone_at_close c s : creach c s -> c_ph s = CClosed -> only_excepted (c_disk s) (c_detached s).
Proof.
  intros Hr Hp x. pose proof (creach_accounted c s Hr x) as Hi. unfold cur_files in Hi.
  rewrite Hp in Hi. now rewrite app_nil_r in Hi.
Qed.

(* without timeouts nothing is excepted *)
Lemma crun_no_timeout c tr : forall s s', crun c s tr = Some s' -> ~ In VTimeout tr -> c_detached s' = c_detached s.
Proof.
  induction tr as [|e tr IH]; cbn; intros s s' Hrun Hnt.
  - now injection Hrun as <-.
  - destruct (cstep c s e) as [s1|] eqn:Hst; [|discriminate].
    rewrite (IH s1 s' Hrun) by tauto.
    destruct s as [p disk det]. destruct e as [d|o| |keep|]; [|destruct o as [|l| | | |]| | |]; destruct p as [|r|];
      cbn [cstep c_ph] in Hst; try discriminate;
      try (exfalso; apply Hnt; now left); try (injection Hst as <-; reflexivity).
    + destruct (sc_preparse c && rq_clpos d && preparse_ok d).
      * unfold rmf in Hst. destruct (rq_wellformed d); cbn [negb] in Hst; [destruct (rq_short d)|]; injection Hst as <-; reflexivity.
      * destruct (rq_short d); [destruct (sc_stream c); [discriminate|]|]; injection Hst as <-; reflexivity.
    + now apply fwl_detached in Hst.
    + now apply fwl_detached in Hst.
Qed.

Lemma crun_reach c tr : forall s s', creach c s -> crun c s tr = Some s' -> creach c s'.
Proof.
  induction tr as [|e tr IH]; cbn; intros s s' Hr Hrun.
  - now injection Hrun as <-.
  - destruct (cstep c s e) as [s1|] eqn:Hst; [|discriminate].
    apply (IH s1 s'); auto. eapply creach_step; eauto.
Qed.

Lemma only_excepted_nil disk : only_excepted disk [] -> disk = [].
Proof.
  intros H. destruct disk as [|x l]; [reflexivity|]. specialize (H x). cbn in H.
  destruct (Z.eq_dec x x); [lia|congruence].
Qed.

Lemma no_timeout_disk_empty c tr s : crun c cinit tr = Some s -> ~ In VTimeout tr ->
  match c_ph s with CHandling _ => True | _ => c_disk s = [] end.
Proof.
  intros Hrun Hnt. pose proof (crun_no_timeout c tr cinit s Hrun Hnt) as Hd. cbn in Hd.
  assert (creach c s) as Hr by (eapply crun_reach; eauto; constructor).
  pose proof (creach_accounted c s Hr) as Hi. unfold accounted, cur_files in Hi. rewrite Hd in Hi.
  destruct (c_ph s); auto; apply only_excepted_nil; intros x; specialize (Hi x); cbn in *; lia.
Qed.
End TempFiles.

(* ================================================================== *)
(* (a) the codec round trip                                             *)
(* ================================================================== *)
Section Codec.
Open Scope N_scope.

(* ---- prefixes ---- *)
Lemma prefixb_app p s : prefixb p (p ++ s) = true.
Proof. induction p as [|x p IH]; cbn; [reflexivity|]. now rewrite N.eqb_refl, IH. Qed.

Lemma skipn_app_len {A} (p s : list A) : skipn (length p) (p ++ s) = s.
Proof. induction p; cbn; auto. Qed.

Lemma prefixb_app_l p u w : prefixb p u = true -> prefixb p (u ++ w) = true.
Proof.
  revert u; induction p as [|x p IH]; intros u H; cbn in *; [reflexivity|].
  destruct u as [|y u]; [discriminate|]. cbn. apply andb_true_iff in H as [H1 H2]. now rewrite H1, IH.
Qed.

(* a pattern without CR cannot run over the end of u into a following CR *)
Lemma ovl s u w : ~ In 13 s -> prefixb s (u ++ 13 :: w) = true -> prefixb s u = true.
Proof.
  revert u; induction s as [|x s IH]; intros u Hn H; [reflexivity|].
  destruct u as [|y u]; cbn in *.
  - apply andb_true_iff in H as [H1 _]. apply N.eqb_eq in H1. subst x. exfalso. apply Hn. now left.
  - apply andb_true_iff in H as [H1 H2]. rewrite H1. cbn. apply IH; auto.
Qed.

(* ---- lines ---- *)
Lemma read_slice_app l rest : ~ In 10 l -> read_slice (l ++ 10 :: rest) = Some (l ++ [10], rest).
Proof.
  induction l as [|c l IH]; intros Hn; cbn.
  - reflexivity.
  - destruct (N.eqb_spec c 10) as [->|Hc]; [exfalso; apply Hn; now left|].
    rewrite IH; [reflexivity|]. intros H. apply Hn. now right.
Qed.

Lemma removelast_snoc {A} (l : list A) x : removelast (l ++ [x]) = l.
Proof. apply removelast_last. Qed.

Lemma strip_cr_snoc l : strip_cr (l ++ [13]) = l.
Proof. unfold strip_cr. rewrite rev_app_distr. cbn. apply rev_involutive. Qed.

Lemma read_line_crlf l rest : ~ In 10 l -> read_line (l ++ crlf ++ rest) = (l, rest).
Proof.
  intros Hn. unfold read_line, crlf.
  replace (l ++ [13; 10] ++ rest) with ((l ++ [13]) ++ 10 :: rest) by (rewrite <- app_assoc; reflexivity).
  rewrite read_slice_app.
  - rewrite removelast_snoc, strip_cr_snoc. reflexivity.
  - intros H. apply in_app_or in H as [H|[H|[]]]; [auto|discriminate].
Qed.

(* ---- the body scan ---- *)
Fixpoint clean (p data tail : bytes) : bool :=
  match data with
  | [] => true
  | _ :: d => negb (prefixb p (data ++ tail)) && clean p d tail
  end.

Lemma scan_rest_clean p data after : p <> [] -> clean p data (p ++ after) = true -> match_after after = true ->
  scan_rest p (data ++ p ++ after) = Some (data, p ++ after).
Proof.
  intros Hp Hc Hm. induction data as [|x d IH]; cbn [app].
  - destruct p as [|c p']; [congruence|]. cbn [scan_rest app].
    change (c :: p' ++ after) with ((c :: p') ++ after).
    unfold at_boundary. rewrite prefixb_app, skipn_app_len, Hm. reflexivity.
  - cbn [clean] in Hc. apply andb_true_iff in Hc as [H1 H2]. apply negb_true_iff in H1.
    cbn [scan_rest]. unfold at_boundary. cbn [app] in H1. rewrite H1. cbn [andb].
    rewrite IH by assumption. reflexivity.
Qed.

Lemma occurs_tail p x s : occurs p (x :: s) = false -> occurs p s = false.
Proof. cbn. intros H. apply orb_false_iff in H as [_ H]. destruct s; exact H. Qed.

Lemma occurs_head p x s : occurs p (x :: s) = false -> prefixb p (x :: s) = false.
Proof. cbn. intros H. now apply orb_false_iff in H as [H _]. Qed.

Lemma clean_of_free t data after : ~ In 13 t -> occurs (13 :: t) data = false ->
  clean (13 :: t) data ((13 :: t) ++ after) = true.
Proof.
  intros Hn. induction data as [|x d IH]; intros Ho; [reflexivity|].
  cbn [clean]. rewrite IH by (eapply occurs_tail; eauto). rewrite andb_true_r. apply negb_true_iff.
  apply occurs_head in Ho. destruct (prefixb (13 :: t) ((x :: d) ++ (13 :: t) ++ after)) eqn:E; [|reflexivity].
  exfalso. cbn in E, Ho. apply andb_true_iff in E as [E1 E2]. rewrite E1 in Ho. cbn in Ho.
  apply ovl in E2; auto. congruence.
Qed.

(* ---- boundaries accepted by SetBoundary contain neither CR nor LF ---- *)
Lemma bchars_no_crlf b : bchars_ok b = true -> ~ In 13 b /\ ~ In 10 b.
Proof.
  induction b as [|c b IH]; intros H; [split; intros []|].
  assert ((is_bchar c || (c =? 32)) = true /\ bchars_ok b = true) as [Hc Hb].
  { destruct b as [|d b']; cbn in H |- *.
    - rewrite H. split; reflexivity.
    - apply andb_true_iff in H. exact H. }
  destruct (IH Hb) as [I1 I2].
  split; intros [->|Hin]; auto; vm_compute in Hc; discriminate.
Qed.

Lemma valid_boundary_facts b : valid_boundary b = true -> b <> [] /\ ~ In 13 b /\ ~ In 10 b.
Proof.
  unfold valid_boundary. intros H. apply andb_true_iff in H as [H H3]. apply andb_true_iff in H as [H1 H2].
  destruct (bchars_no_crlf b H3) as [A B]. repeat split; auto. intros ->. cbn in H1. discriminate.
Qed.

Lemma scan_body_ok b data after : ~ In 13 b -> boundary_free b data = true -> match_after after = true ->
  scan_body b (data ++ nl_dash_b b ++ after) = Some (data, nl_dash_b b ++ after).
Proof.
  intros Hb Hfree Hm. unfold boundary_free in Hfree. apply negb_true_iff in Hfree.
  assert (~ In 13 (dash_b b)) as Hd by (intros [H|[H|H]]; [discriminate|discriminate|auto]).
  assert (~ In 13 (10 :: dash_b b)) as Hd' by (intros [H|H]; [discriminate|auto]).
  change (nl_dash_b b) with (13 :: 10 :: dash_b b) in *.
  unfold scan_body.
  assert (prefixb (dash_b b) (data ++ (13 :: 10 :: dash_b b) ++ after) = false) as Hp.
  { destruct (prefixb (dash_b b) (data ++ (13 :: 10 :: dash_b b) ++ after)) eqn:E; [|reflexivity].
    exfalso. cbn [app] in E. apply ovl in E; auto.
    unfold crlf in Hfree. cbn [app] in Hfree. apply occurs_head in Hfree.
    cbn [prefixb N.eqb Pos.eqb andb] in Hfree. rewrite E in Hfree. discriminate. }
  unfold at_boundary at 1. rewrite Hp. cbn [andb].
  apply scan_rest_clean; auto; [discriminate|].
  apply clean_of_free; auto. unfold crlf in Hfree. cbn [app] in Hfree. apply occurs_tail in Hfree. now apply occurs_tail in Hfree.
Qed.

(* ---- NextPart on what the writer emits ---- *)
Lemma no_lf_dash_b b : ~ In 10 b -> ~ In 10 (dash_b b ++ [13]).
Proof.
  intros Hb H. apply in_app_or in H as [[H|[H|H]]|[H|[]]]; try discriminate; auto.
Qed.

Lemma read_slice_delim b x rest : ~ In 10 b -> ~ In 10 x ->
  read_slice (dash_b b ++ x ++ crlf ++ rest) = Some (dash_b b ++ x ++ crlf, rest).
Proof.
  intros Hb Hx. unfold crlf.
  replace (dash_b b ++ x ++ [13; 10] ++ rest) with ((dash_b b ++ x ++ [13]) ++ 10 :: rest)
    by (rewrite <- !app_assoc; reflexivity).
  rewrite read_slice_app.
  - rewrite <- !app_assoc. reflexivity.
  - intros H. apply in_app_or in H as [[H|[H|H]]|H]; try discriminate; auto.
    apply in_app_or in H as [H|[H|[]]]; auto; discriminate.
Qed.

Lemma is_delim_line b : is_delim b (dash_b b ++ [] ++ crlf) = true.
Proof. unfold is_delim. cbn [app]. rewrite prefixb_app, skipn_app_len. reflexivity. Qed.

Lemma is_delim_final_line b : is_delim b (dash_b b ++ dashes ++ crlf) = false.
Proof. unfold is_delim. rewrite prefixb_app, skipn_app_len. reflexivity. Qed.

Lemma is_final_line b : is_final b (dash_b b ++ dashes ++ crlf) = true.
Proof.
  unfold is_final. rewrite app_assoc. rewrite prefixb_app, skipn_app_len. reflexivity.
Qed.

(* first delimiter line *)
Lemma next_part_first fuel b rest : ~ In 10 b ->
  next_part (S fuel) b false false (dash_b b ++ crlf ++ rest) = NPPart rest.
Proof.
  intros Hb. cbn [next_part].
  change (dash_b b ++ crlf ++ rest) with (dash_b b ++ [] ++ crlf ++ rest).
  rewrite read_slice_delim by (auto; intros []). now rewrite is_delim_line.
Qed.

(* CRLF, then a delimiter line *)
Lemma next_part_next fuel b rest : ~ In 10 b ->
  next_part (S (S fuel)) b true false (nl_dash_b b ++ crlf ++ rest) = NPPart rest.
Proof.
  intros Hb. change (nl_dash_b b ++ crlf ++ rest) with (13 :: 10 :: dash_b b ++ [] ++ crlf ++ rest).
  cbn [next_part read_slice N.eqb Pos.eqb].
  replace (is_delim b [13; 10]) with false by reflexivity.
  replace (is_final b [13; 10]) with false by reflexivity.
  cbn [negb beq N.eqb Pos.eqb andb crlf].
  rewrite read_slice_delim by (auto; intros []). now rewrite is_delim_line.
Qed.

(* CRLF, then the closing line *)
Lemma next_part_final fuel b pr : ~ In 10 b ->
  next_part (S (S fuel)) b pr false (close_bytes b) = NPEof.
Proof.
  intros Hb. unfold close_bytes. change (crlf ++ dashes ++ b ++ dashes ++ crlf) with (13 :: 10 :: dash_b b ++ dashes ++ crlf ++ []).
  cbn [next_part read_slice N.eqb Pos.eqb].
  replace (is_delim b [13; 10]) with false by reflexivity.
  replace (is_final b [13; 10]) with false by reflexivity.
  assert (read_slice (dash_b b ++ dashes ++ crlf ++ []) = Some (dash_b b ++ dashes ++ crlf, [])) as Hr.
  { apply read_slice_delim; auto. intros [H|[H|[]]]; discriminate. }
  destruct pr; cbn [negb beq N.eqb Pos.eqb andb crlf]; rewrite Hr, is_delim_final_line, is_final_line; reflexivity.
Qed.

(* ---- header blocks ---- *)
Lemma rev_last_cons (l : bytes) : l <> [] -> rev l = last l 0 :: rev (removelast l).
Proof.
  intros Hl. rewrite (app_removelast_last 0 Hl) at 1. rewrite rev_app_distr. reflexivity.
Qed.

Lemma trim_lwsp_id l : not_lwsp_ends l = true -> trim_lwsp l = l.
Proof.
  unfold not_lwsp_ends, trim_lwsp. destruct l as [|c l']; [discriminate|]. intros H.
  apply andb_true_iff in H as [H1 H2]. apply negb_true_iff in H1, H2.
  cbn [skip_lwsp]. rewrite H1. rewrite (rev_last_cons (c :: l')) by discriminate.
  cbn [skip_lwsp]. rewrite H2. rewrite <- rev_last_cons by discriminate. apply rev_involutive.
Qed.

Definition hdr_ok (kv : bytes * bytes) : bool :=
  let (k, v) := kv in
  match k with c :: _ => negb (is_lwsp c) | [] => false end && forallb is_field_char k &&
  forallb is_value_char v && not_lwsp_ends v.

Lemma field_chars_no_colon k : forallb is_field_char k = true -> ~ In 58 k /\ ~ In 10 k.
Proof.
  intros H. rewrite forallb_forall in H. split; intros Hin; apply H in Hin; vm_compute in Hin; discriminate.
Qed.
Lemma value_chars_no_lf v : forallb is_value_char v = true -> ~ In 10 v /\ ~ In 13 v.
Proof.
  intros H. rewrite forallb_forall in H. split; intros Hin; apply H in Hin; vm_compute in Hin; discriminate.
Qed.

Lemma split_colon_app k v : ~ In 58 k -> split_colon (k ++ 58 :: v) = Some (k, v).
Proof.
  induction k as [|c k IH]; intros Hn; cbn; [reflexivity|].
  destruct (N.eqb_spec c 58) as [->|Hc]; [exfalso; apply Hn; now left|].
  rewrite IH; [reflexivity|]. intros H; apply Hn; now right.
Qed.

Lemma last_app_ne (a b : bytes) : b <> [] -> last (a ++ b) 0 = last b 0.
Proof.
  intros Hb. induction a as [|x a IH]; [reflexivity|]. cbn [app].
  assert (a ++ b <> []) as Hne by (intros E; apply app_eq_nil in E as [_ E]; auto).
  destruct (a ++ b) as [|y t] eqn:E; [congruence|]. exact IH.
Qed.

Lemma ends_app (a b : bytes) : a <> [] -> b <> [] ->
  not_lwsp_ends (a ++ b) = negb (is_lwsp (hd 0 a)) && negb (is_lwsp (last b 0)).
Proof.
  intros Ha Hb. destruct a as [|x a]; [congruence|]. unfold not_lwsp_ends. cbn [app hd].
  change (x :: a ++ b) with ((x :: a) ++ b). now rewrite last_app_ne.
Qed.

Definition no_lwsp_start (s : bytes) : Prop := match s with c :: _ => is_lwsp c = false | [] => True end.

Lemma fold_cont_stop fuel acc rest : no_lwsp_start rest -> fold_cont fuel acc rest = (acc, rest).
Proof. destruct fuel; [reflexivity|]. destruct rest as [|c r]; cbn; [reflexivity|]. intros ->. reflexivity. Qed.

Lemma read_headers_cons fuel k v rest : hdr_ok (k, v) = true -> no_lwsp_start rest ->
  read_headers (S fuel) (hdr_line (k, v) ++ rest) =
  match read_headers fuel rest with HOk hs r => HOk ((k, v) :: hs) r | o => o end.
Proof.
  intros Hok Hrest. cbn [hdr_ok] in Hok.
  apply andb_true_iff in Hok as [Hok Hv2]. apply andb_true_iff in Hok as [Hok Hv1]. apply andb_true_iff in Hok as [Hk1 Hk2].
  destruct (field_chars_no_colon k Hk2) as [Kc Kl]. destruct (value_chars_no_lf v Hv1) as [Vl Vc].
  destruct k as [|c k']; [discriminate|]. apply negb_true_iff in Hk1.
  assert (Hne : v <> []) by (destruct v; [discriminate|discriminate]).
  unfold hdr_line. cbn [fst snd]. change (s2b ": ") with [58; 32].
  replace (((c :: k') ++ [58; 32] ++ v ++ crlf) ++ rest) with ((c :: (k' ++ 58 :: 32 :: v)) ++ crlf ++ rest)
    by (repeat first [rewrite <- app_assoc | progress cbn [app]]; reflexivity).
  assert (Hnl : ~ In 10 (c :: (k' ++ 58 :: 32 :: v))).
  { intros [H|H]; [apply Kl; now left|]. apply in_app_or in H as [H|[H|[H|H]]]; try discriminate; [apply Kl; now right|auto]. }
  assert (Hends : not_lwsp_ends (c :: (k' ++ 58 :: 32 :: v)) = true).
  { change (c :: k' ++ 58 :: 32 :: v) with ((c :: k') ++ ([58; 32] ++ v)).
    rewrite ends_app; [|discriminate|discriminate]. cbn [hd]. rewrite Hk1. cbn [negb andb].
    rewrite last_app_ne by exact Hne.
    unfold not_lwsp_ends in Hv2. destruct v; [discriminate|]. apply andb_true_iff in Hv2 as [_ Hv2]. exact Hv2. }
  assert (Hsplit : split_colon (c :: (k' ++ 58 :: 32 :: v)) = Some (c :: k', 32 :: v)).
  { change (c :: k' ++ 58 :: 32 :: v) with ((c :: k') ++ 58 :: 32 :: v). apply split_colon_app; exact Kc. }
  assert (Htrim : trim_lwsp (32 :: v) = v).
  { unfold trim_lwsp. cbn [skip_lwsp is_lwsp N.eqb Pos.eqb orb]. apply (trim_lwsp_id v Hv2). }
  remember (k' ++ 58 :: 32 :: v) as t eqn:Et.
  cbn [read_headers app].
  change (c :: t ++ crlf ++ rest) with ((c :: t) ++ crlf ++ rest).
  rewrite read_line_crlf by exact Hnl. cbv beta iota.
  rewrite trim_lwsp_id by exact Hends. rewrite fold_cont_stop by exact Hrest. cbv beta iota.
  rewrite Hsplit. rewrite Hk2. cbn [forallb]. replace (is_value_char 32) with true by reflexivity. rewrite Hv1.
  cbn [negb orb andb]. rewrite Htrim. destruct (read_headers fuel rest); reflexivity.
Qed.

Lemma read_headers_end fuel rest : read_headers (S fuel) (crlf ++ rest) = HOk [] rest.
Proof. reflexivity. Qed.

Lemma hdr_line_start kv w : hdr_ok kv = true -> no_lwsp_start (hdr_line kv ++ w).
Proof.
  destruct kv as [k v]. cbn [hdr_ok]. intros H. destruct k as [|c k]; [discriminate|].
  apply andb_true_iff in H as [H _]. apply andb_true_iff in H as [H _]. apply andb_true_iff in H as [H _].
  apply negb_true_iff in H. exact H.
Qed.

Lemma read_headers_all hs : forall fuel rest, forallb hdr_ok hs = true -> (length hs < fuel)%nat ->
  read_headers fuel (flat_map hdr_line hs ++ crlf ++ rest) = HOk hs rest.
Proof.
  induction hs as [|[k v] hs IH]; intros fuel rest Hok Hf.
  - destruct fuel; [cbn in Hf; lia|]. reflexivity.
  - cbn [forallb] in Hok. apply andb_true_iff in Hok as [H1 H2].
    destruct fuel; [cbn in Hf; lia|]. cbn [flat_map]. rewrite <- app_assoc.
    rewrite read_headers_cons; auto.
    + rewrite IH; auto. cbn in Hf. lia.
    + destruct hs as [|kv hs']; [reflexivity|]. cbn [flat_map]. rewrite <- app_assoc.
      cbn [forallb] in H2. apply andb_true_iff in H2 as [H2 _]. now apply hdr_line_start.
Qed.

(* ---- Content-Disposition: what escapeQuotes writes, consumeValue reads back ---- *)
Lemma take_quoted_esc n r : forallb is_value_char n = true -> take_quoted (esc n ++ 34 :: r) = Some (n, r).
Proof.
  induction n as [|c n IH]; intros Hn; [reflexivity|].
  cbn [forallb] in Hn. apply andb_true_iff in Hn as [Hc Hn]. specialize (IH Hn).
  unfold esc in *. cbn [flat_map]. unfold esc_c at 1.
  destruct (N.eqb_spec c 92) as [->|H92].
  - cbn [app take_quoted N.eqb Pos.eqb]. replace (is_tspecial 92) with true by reflexivity. now rewrite IH.
  - destruct (N.eqb_spec c 34) as [->|H34].
    + cbn [app take_quoted N.eqb Pos.eqb]. replace (is_tspecial 34) with true by reflexivity. now rewrite IH.
    + cbn [app take_quoted]. apply N.eqb_neq in H92, H34. rewrite H34, H92.
      assert ((c =? 13) || (c =? 10) = false) as Hcr.
      { destruct (N.eqb_spec c 13) as [->|]; [vm_compute in Hc; discriminate|].
        destruct (N.eqb_spec c 10) as [->|]; [vm_compute in Hc; discriminate|]. reflexivity. }
      rewrite Hcr. now rewrite IH.
Qed.

Definition k_name : bytes := [110; 97; 109; 101].
Definition k_filename : bytes := [102; 105; 108; 101; 110; 97; 109; 101].
Definition k_formdata : bytes := [102; 111; 114; 109; 45; 100; 97; 116; 97].

Lemma pp_name fuel n tl : forallb is_value_char n = true ->
  parse_params (S fuel) (59 :: 32 :: 110 :: 97 :: 109 :: 101 :: 61 :: 34 :: esc n ++ 34 :: tl) [] =
  parse_params fuel tl [(k_name, n)].
Proof.
  intros Hn. cbn -[esc parse_params]. cbn [parse_params]. cbn -[esc parse_params take_quoted].
  cbn [skip_sp N.eqb Pos.eqb orb andb N.leb N.compare Pos.compare Pos.compare_cont take_token is_token_char].
  rewrite take_quoted_esc by exact Hn. reflexivity.
Qed.

Lemma pp_filename fuel n x tl : forallb is_value_char x = true ->
  parse_params (S fuel) (59 :: 32 :: 102 :: 105 :: 108 :: 101 :: 110 :: 97 :: 109 :: 101 :: 61 :: 34 :: esc x ++ 34 :: tl) [(k_name, n)] =
  parse_params fuel tl [(k_name, n); (k_filename, x)].
Proof.
  intros Hx. cbn -[esc parse_params]. cbn [parse_params]. cbn -[esc parse_params take_quoted].
  cbn [skip_sp N.eqb Pos.eqb orb andb N.leb N.compare Pos.compare Pos.compare_cont take_token is_token_char].
  rewrite take_quoted_esc by exact Hx. reflexivity.
Qed.

Lemma parse_disp_field n : forallb is_value_char n = true ->
  parse_disposition (disp_field n) = Some (k_formdata, [(k_name, n)]).
Proof.
  intros Hn. unfold parse_disposition, disp_field.
  change (s2b "form-data; name=""") with [102; 111; 114; 109; 45; 100; 97; 116; 97; 59; 32; 110; 97; 109; 101; 61; 34].
  cbn [app cut_semi N.eqb Pos.eqb].
  replace (lower_s (trim_lwsp [102; 111; 114; 109; 45; 100; 97; 116; 97])) with k_formdata by reflexivity.
  replace (forallb is_token_char k_formdata) with true by reflexivity. cbn [k_formdata negb orb].
  rewrite (pp_name _ n []) by exact Hn. reflexivity.
Qed.

Lemma parse_disp_file n x : forallb is_value_char n = true -> forallb is_value_char x = true ->
  parse_disposition (disp_file n x) = Some (k_formdata, [(k_name, n); (k_filename, x)]).
Proof.
  intros Hn Hx. unfold parse_disposition, disp_file.
  change (s2b "form-data; name=""") with [102; 111; 114; 109; 45; 100; 97; 116; 97; 59; 32; 110; 97; 109; 101; 61; 34].
  change (s2b """; filename=""") with [34; 59; 32; 102; 105; 108; 101; 110; 97; 109; 101; 61; 34].
  cbn [app cut_semi N.eqb Pos.eqb].
  replace (lower_s (trim_lwsp [102; 111; 114; 109; 45; 100; 97; 116; 97])) with k_formdata by reflexivity.
  replace (forallb is_token_char k_formdata) with true by reflexivity. cbn [k_formdata negb orb].
  replace (esc n ++ 34 :: 59 :: 32 :: 102 :: 105 :: 108 :: 101 :: 110 :: 97 :: 109 :: 101 :: 61 :: 34 :: esc x ++ [34])
    with (esc n ++ 34 :: (59 :: 32 :: 102 :: 105 :: 108 :: 101 :: 110 :: 97 :: 109 :: 101 :: 61 :: 34 :: esc x ++ 34 :: [])) by reflexivity.
  cbn [length]. rewrite pp_name by exact Hn.
  rewrite app_length. cbn [length]. rewrite Nat.add_succ_r. rewrite pp_filename by exact Hx.
  rewrite Nat.add_succ_r. reflexivity.
Qed.

Lemma take_until_slash_id l : forallb (fun c => negb (c =? 47)) l = true -> take_until_slash l = l.
Proof.
  induction l as [|c l IH]; cbn; [reflexivity|]. intros H. apply andb_true_iff in H as [H1 H2].
  apply negb_true_iff in H1. rewrite H1. now rewrite IH.
Qed.

Lemma path_base_id x : x <> [] -> forallb (fun c => negb (c =? 47)) x = true -> path_base x = x.
Proof.
  intros Hx Hs. unfold path_base.
  assert (forallb (fun c => negb (c =? 47)) (rev x) = true) as Hr.
  { rewrite forallb_forall in *. intros c Hc. apply Hs. now apply in_rev. }
  destruct (rev x) as [|c r] eqn:E.
  - exfalso. apply Hx. rewrite <- (rev_involutive x), E. reflexivity.
  - cbn [forallb] in Hr. pose proof Hr as Hr'. apply andb_true_iff in Hr as [Hc _]. apply negb_true_iff in Hc.
    cbn [drop_trailing_slash]. rewrite Hc.
    rewrite take_until_slash_id by exact Hr'. rewrite <- E. apply rev_involutive.
Qed.

Definition h_cd : bytes := s2b "Content-Disposition".
Definition h_ct : bytes := s2b "Content-Type".

Lemma part_names_field n : forallb is_value_char n = true -> part_names [(h_cd, disp_field n)] = (n, []).
Proof.
  intros Hn. unfold part_names.
  replace (header_get (s2b "Content-Disposition") [(h_cd, disp_field n)]) with (disp_field n) by reflexivity.
  rewrite parse_disp_field by exact Hn. reflexivity.
Qed.

Lemma part_names_file n x ct : forallb is_value_char n = true -> forallb is_value_char x = true ->
  x <> [] -> forallb (fun c => negb (c =? 47)) x = true ->
  part_names [(h_cd, disp_file n x); (h_ct, ct)] = (n, x).
Proof.
  intros Hn Hx Hne Hs. unfold part_names.
  replace (header_get (s2b "Content-Disposition") [(h_cd, disp_file n x); (h_ct, ct)]) with (disp_file n x) by reflexivity.
  rewrite parse_disp_file by assumption.
  replace (assoc (s2b "filename") [(k_name, n); (k_filename, x)]) with (Some x) by reflexivity.
  replace (beq k_formdata (s2b "form-data")) with true by reflexivity.
  replace (assoc (s2b "name") [(k_name, n); (k_filename, x)]) with (Some n) by reflexivity.
  destruct x as [|c x']; [congruence|]. now rewrite path_base_id.
Qed.

Lemma header_get_ct n x ct : header_get (s2b "Content-Type") [(h_cd, disp_file n x); (h_ct, ct)] = ct.
Proof. reflexivity. Qed.

(* ---- all parts ---- *)
Definition wpart_ok (b : bytes) (p : wpart) : bool := forallb hdr_ok (fst p) && boundary_free b (snd p).
Definition tail_bytes (b : bytes) (ps : list wpart) : bytes := parts_bytes false b ps ++ close_bytes b.

Lemma next_part_first_ge fuel b rest : (1 <= fuel)%nat -> ~ In 10 b ->
  next_part fuel b false false (dash_b b ++ crlf ++ rest) = NPPart rest.
Proof. intros Hf Hb. destruct fuel; [lia|]. now apply next_part_first. Qed.
Lemma next_part_next_ge fuel b rest : (2 <= fuel)%nat -> ~ In 10 b ->
  next_part fuel b true false (nl_dash_b b ++ crlf ++ rest) = NPPart rest.
Proof. intros Hf Hb. destruct fuel as [|[|f]]; try lia. now apply next_part_next. Qed.
Lemma next_part_final_ge fuel b pr : (2 <= fuel)%nat -> ~ In 10 b ->
  next_part fuel b pr false (close_bytes b) = NPEof.
Proof. intros Hf Hb. destruct fuel as [|[|f]]; try lia. now apply next_part_final. Qed.

Lemma hdrs_length hs : (length hs <= length (flat_map hdr_line hs))%nat.
Proof.
  induction hs as [|kv hs IH]; cbn [flat_map length]; [lia|]. rewrite app_length.
  unfold hdr_line at 1. rewrite !app_length. cbn [length crlf]. lia.
Qed.

Lemma tail_shape b ps : exists after, tail_bytes b ps = nl_dash_b b ++ after /\ match_after after = true.
Proof.
  destruct ps as [|p r].
  - exists (dashes ++ crlf). split; [|reflexivity]. unfold tail_bytes, close_bytes, nl_dash_b. cbn [parts_bytes app].
    now rewrite <- !app_assoc.
  - exists (crlf ++ flat_map hdr_line (fst p) ++ crlf ++ snd p ++ tail_bytes b r). split; [|reflexivity].
    unfold tail_bytes. cbn [parts_bytes]. unfold part_bytes, nl_dash_b. now rewrite <- !app_assoc.
Qed.

Lemma hdr_block_start hs w : forallb hdr_ok hs = true -> no_lwsp_start (flat_map hdr_line hs ++ crlf ++ w).
Proof.
  destruct hs as [|kv hs]; [reflexivity|]. cbn [forallb flat_map]. intros H. apply andb_true_iff in H as [H _].
  rewrite <- app_assoc. now apply hdr_line_start.
Qed.

(* what follows a delimiter line: header block, blank line, data, then the rest of the message *)
Lemma read_one_part b p after : ~ In 13 b -> wpart_ok b p = true -> match_after after = true ->
  let x := flat_map hdr_line (fst p) ++ crlf ++ snd p ++ nl_dash_b b ++ after in
  (match x with c :: _ => is_lwsp c | [] => false end) = false /\
  read_headers (S (length x)) x = HOk (fst p) (snd p ++ nl_dash_b b ++ after) /\
  scan_body b (snd p ++ nl_dash_b b ++ after) = Some (snd p, nl_dash_b b ++ after).
Proof.
  intros Hb Hok Hm x. unfold wpart_ok in Hok. apply andb_true_iff in Hok as [Hh Hd]. repeat split.
  - pose proof (hdr_block_start (fst p) (snd p ++ nl_dash_b b ++ after) Hh) as Hs. fold x in Hs.
    destruct x; [reflexivity|exact Hs].
  - unfold x. apply read_headers_all; auto. rewrite app_length. pose proof (hdrs_length (fst p)). lia.
  - now apply scan_body_ok.
Qed.

Lemma read_parts_tail b : ~ In 13 b -> ~ In 10 b -> forall ps fuel, forallb (wpart_ok b) ps = true ->
  (length ps < fuel)%nat -> read_parts fuel b true (tail_bytes b ps) = Some ps.
Proof.
  intros Hb13 Hb10. induction ps as [|p r IH]; intros fuel Hok Hf.
  - destruct fuel; [lia|]. cbn [read_parts]. unfold tail_bytes. cbn [parts_bytes app].
    rewrite next_part_final_ge; auto. unfold close_bytes. cbn [length app crlf]. lia.
  - destruct fuel; [cbn in Hf; lia|]. cbn [forallb] in Hok. apply andb_true_iff in Hok as [Hp Hr].
    destruct (tail_shape b r) as (after & Ht & Hm).
    assert (Hs : tail_bytes b (p :: r) = nl_dash_b b ++ crlf ++ (flat_map hdr_line (fst p) ++ crlf ++ snd p ++ nl_dash_b b ++ after)).
    { unfold tail_bytes in *. cbn [parts_bytes]. unfold part_bytes. rewrite <- !app_assoc. rewrite Ht. unfold nl_dash_b.
      now rewrite <- !app_assoc. }
    rewrite Hs. cbn [read_parts]. rewrite next_part_next_ge; auto; [|cbn [length app nl_dash_b crlf]; lia].
    destruct (read_one_part b p after Hb13 Hp Hm) as (H1 & H2 & H3). cbv zeta in H1, H2.
    rewrite H1, H2, H3. rewrite <- Ht. rewrite IH; auto. destruct p; reflexivity. cbn in Hf. lia.
Qed.

Lemma read_parts_all b ps : ~ In 13 b -> ~ In 10 b -> forallb (wpart_ok b) ps = true ->
  forall fuel, (length ps < fuel)%nat ->
  read_parts fuel b false (parts_bytes true b ps ++ close_bytes b) = Some ps.
Proof.
  intros Hb13 Hb10 Hok fuel Hf. destruct ps as [|p r].
  - destruct fuel; [lia|]. cbn [read_parts parts_bytes app]. rewrite next_part_final_ge; auto.
    unfold close_bytes. cbn [length app crlf]. lia.
  - destruct fuel; [cbn in Hf; lia|]. cbn [forallb] in Hok. apply andb_true_iff in Hok as [Hp Hr].
    destruct (tail_shape b r) as (after & Ht & Hm).
    assert (Hs : parts_bytes true b (p :: r) ++ close_bytes b =
                 dash_b b ++ crlf ++ (flat_map hdr_line (fst p) ++ crlf ++ snd p ++ nl_dash_b b ++ after)).
    { cbn [parts_bytes]. unfold part_bytes. cbn [app]. unfold tail_bytes in Ht. rewrite <- !app_assoc. rewrite Ht.
      unfold dash_b. now rewrite <- !app_assoc. }
    rewrite Hs. cbn [read_parts]. rewrite next_part_first_ge; auto; [|lia].
    destruct (read_one_part b p after Hb13 Hp Hm) as (H1 & H2 & H3). cbv zeta in H1, H2.
    rewrite H1, H2, H3. rewrite <- Ht. rewrite read_parts_tail; auto. destruct p; reflexivity. cbn in Hf. lia.
Qed.

(* ---- ReadForm's maps ---- *)
Lemma beq_sym a b : beq a b = beq b a.
Proof.
  destruct (beq a b) eqn:E.
  - apply beq_eq in E. subst. symmetry. apply beq_refl.
  - destruct (beq b a) eqn:E'; [|reflexivity]. apply beq_eq in E'. subst. now rewrite beq_refl in E.
Qed.

Lemma add_to_new {A} k (v : A) m : existsb (beq k) (map fst m) = false -> add_to k v m = m ++ [(k, [v])].
Proof.
  induction m as [|[k' vs] m IH]; cbn; [reflexivity|]. intros H. apply orb_false_iff in H as [H1 H2].
  rewrite beq_sym, H1. now rewrite IH.
Qed.

Lemma add_to_last {A} k (v : A) m l : existsb (beq k) (map fst m) = false ->
  add_to k v (m ++ [(k, l)]) = m ++ [(k, l ++ [v])].
Proof.
  induction m as [|[k' vs] m IH]; cbn.
  - now rewrite beq_refl.
  - intros H. apply orb_false_iff in H as [H1 H2]. rewrite beq_sym, H1. now rewrite IH.
Qed.

Definition vpart (k v : bytes) : rawpart := ([(h_cd, disp_field k)], v).
Definition fpart (k : bytes) (f : mfile) : rawpart :=
  ([(h_cd, disp_file k (fl_name f)); (h_ct, fl_ctype f)], fl_data f).

Lemma collect_vpart k v r f : name_ok k = true ->
  collect (vpart k v :: r) f = collect r (Build_mform (add_to k v (fm_values f)) (fm_files f)).
Proof.
  intros Hk. unfold name_ok in Hk. apply andb_true_iff in Hk as [Hne Hc]. unfold vpart. cbn [collect].
  rewrite part_names_field by exact Hc. destruct k; [discriminate|]. reflexivity.
Qed.

Lemma collect_fpart k x r f : name_ok k = true -> filename_ok (fl_name x) = true ->
  collect (fpart k x :: r) f = collect r (Build_mform (fm_values f) (add_to k x (fm_files f))).
Proof.
  intros Hk Hx. unfold name_ok in Hk. apply andb_true_iff in Hk as [Hne Hc].
  unfold filename_ok, name_ok in Hx. apply andb_true_iff in Hx as [Hx Hs]. apply andb_true_iff in Hx as [Hxne Hxc].
  unfold fpart. cbn [collect].
  assert (fl_name x <> []) as Hn by (destruct (fl_name x); [discriminate|discriminate]).
  rewrite part_names_file by assumption. rewrite header_get_ct.
  destruct k; [discriminate|]. destruct (fl_name x) eqn:E; [congruence|]. rewrite <- E. destruct x; reflexivity.
Qed.

Lemma collect_vgroup k vs : name_ok k = true -> forall l m F r, existsb (beq k) (map fst m) = false ->
  collect (map (vpart k) vs ++ r) (Build_mform (m ++ [(k, l)]) F) = collect r (Build_mform (m ++ [(k, l ++ vs)]) F).
Proof.
  intros Hk. induction vs as [|v vs IH]; intros l m F r Hf; cbn [map app].
  - now rewrite app_nil_r.
  - rewrite collect_vpart by exact Hk. cbn [fm_values fm_files]. rewrite add_to_last by exact Hf.
    rewrite IH by exact Hf. now rewrite <- app_assoc.
Qed.

Lemma collect_fgroup k xs : name_ok k = true -> forallb (fun x => filename_ok (fl_name x)) xs = true ->
  forall l m V r, existsb (beq k) (map fst m) = false ->
  collect (map (fpart k) xs ++ r) (Build_mform V (m ++ [(k, l)])) = collect r (Build_mform V (m ++ [(k, l ++ xs)])).
Proof.
  intros Hk. induction xs as [|x xs IH]; intros Hx l m V r Hf; cbn [map app].
  - now rewrite app_nil_r.
  - cbn [forallb] in Hx. apply andb_true_iff in Hx as [Hx1 Hx2].
    rewrite collect_fpart by assumption. cbn [fm_values fm_files]. rewrite add_to_last by exact Hf.
    rewrite IH by assumption. now rewrite <- app_assoc.
Qed.

Definition keys_fresh {A} (m : list (bytes * list A)) (ks : list bytes) : Prop :=
  forall k, In k ks -> existsb (beq k) (map fst m) = false.

Lemma existsb_app_single {A} k (m : list (bytes * list A)) k' l :
  existsb (beq k) (map fst (m ++ [(k', l)])) = existsb (beq k) (map fst m) || beq k k'.
Proof. rewrite map_app, existsb_app. cbn. now rewrite orb_false_r. Qed.

Lemma nodupb_cons k ks : nodupb (k :: ks) = true -> existsb (beq k) ks = false /\ nodupb ks = true.
Proof. cbn. intros H. apply andb_true_iff in H as [H1 H2]. apply negb_true_iff in H1. auto. Qed.

Lemma existsb_beq_false k ks k' : existsb (beq k) ks = false -> In k' ks -> beq k' k = false.
Proof.
  intros H Hin. rewrite beq_sym. destruct (beq k k') eqn:E; [|reflexivity].
  exfalso. rewrite <- not_true_iff_false in H. apply H. apply existsb_exists. eauto.
Qed.

Lemma collect_values kvs : forall m F r,
  nodupb (map fst kvs) = true -> keys_fresh m (map fst kvs) ->
  forallb (fun kv => name_ok (fst kv) && negb (match snd kv with [] => true | _ => false end)) kvs = true ->
  collect (flat_map (fun kv => map (vpart (fst kv)) (snd kv)) kvs ++ r) (Build_mform m F) =
  collect r (Build_mform (m ++ kvs) F).
Proof.
  induction kvs as [|[k vs] kvs IH]; intros m F r Hnd Hfr Hok; cbn [flat_map map fst snd app].
  - now rewrite app_nil_r.
  - cbn [forallb fst snd] in Hok. apply andb_true_iff in Hok as [Hk Hrest]. apply andb_true_iff in Hk as [Hk Hne].
    cbn [map fst] in Hnd. apply nodupb_cons in Hnd as [Hnk Hnd'].
    destruct vs as [|v vs]; [discriminate|]. cbn [map]. rewrite <- app_assoc. cbn [app].
    assert (Hfk : existsb (beq k) (map fst m) = false) by (apply Hfr; now left).
    rewrite collect_vpart by exact Hk. cbn [fm_values fm_files]. rewrite add_to_new by exact Hfk.
    rewrite (collect_vgroup k vs Hk [v] m F) by exact Hfk. cbn [app].
    rewrite IH; auto.
    + rewrite <- app_assoc. reflexivity.
    + intros k' Hin. rewrite existsb_app_single. rewrite (Hfr k') by (now right). cbn [orb].
      now apply (existsb_beq_false k (map fst kvs)).
Qed.

Lemma collect_files kfs : forall m V r,
  nodupb (map fst kfs) = true -> keys_fresh m (map fst kfs) ->
  forallb (fun kv => name_ok (fst kv) && negb (match snd kv with [] => true | _ => false end)
                     && forallb (fun x => filename_ok (fl_name x)) (snd kv)) kfs = true ->
  collect (flat_map (fun kv => map (fpart (fst kv)) (snd kv)) kfs ++ r) (Build_mform V m) =
  collect r (Build_mform V (m ++ kfs)).
Proof.
  induction kfs as [|[k xs] kfs IH]; intros m V r Hnd Hfr Hok; cbn [flat_map map fst snd app].
  - now rewrite app_nil_r.
  - cbn [forallb fst snd] in Hok. apply andb_true_iff in Hok as [Hk Hrest]. apply andb_true_iff in Hk as [Hk Hx].
    apply andb_true_iff in Hk as [Hk Hne].
    cbn [map fst] in Hnd. apply nodupb_cons in Hnd as [Hnk Hnd'].
    destruct xs as [|x xs]; [discriminate|]. cbn [map]. rewrite <- app_assoc. cbn [app].
    cbn [forallb] in Hx. apply andb_true_iff in Hx as [Hx1 Hx2].
    assert (Hfk : existsb (beq k) (map fst m) = false) by (apply Hfr; now left).
    rewrite collect_fpart by assumption. cbn [fm_values fm_files]. rewrite add_to_new by exact Hfk.
    rewrite (collect_fgroup k xs Hk Hx2 [x] m V) by exact Hfk. cbn [app].
    rewrite IH; auto.
    + rewrite <- app_assoc. reflexivity.
    + intros k' Hin. rewrite existsb_app_single. rewrite (Hfr k') by (now right). cbn [orb].
      now apply (existsb_beq_false k (map fst kfs)).
Qed.

(* ---- the parts the writer makes are readable ---- *)
Lemma esc_value_chars n : forallb is_value_char n = true -> forallb is_value_char (esc n) = true.
Proof.
  induction n as [|c n IH]; intros H; [reflexivity|]. cbn [forallb] in H. apply andb_true_iff in H as [Hc Hn].
  unfold esc in *. cbn [flat_map]. rewrite forallb_app, (IH Hn), andb_true_r. unfold esc_c.
  destruct (c =? 92); [reflexivity|]. destruct (c =? 34); [reflexivity|]. cbn. now rewrite Hc.
Qed.

Lemma hdr_ok_field k : forallb is_value_char k = true -> hdr_ok (h_cd, disp_field k) = true.
Proof.
  intros Hk. cbn [hdr_ok]. replace (forallb is_field_char h_cd) with true by reflexivity.
  change (match h_cd with c :: _ => negb (is_lwsp c) | [] => false end) with true. cbn [andb].
  unfold disp_field. rewrite forallb_app. replace (forallb is_value_char (s2b "form-data; name=""")) with true by reflexivity.
  rewrite forallb_app, (esc_value_chars k Hk). cbn [andb forallb].
  replace (is_value_char 34) with true by reflexivity. cbn [andb].
  rewrite ends_app; [|discriminate|destruct (esc k); discriminate]. rewrite last_app_ne by discriminate. reflexivity.
Qed.

Lemma hdr_ok_file k x : forallb is_value_char k = true -> forallb is_value_char x = true ->
  hdr_ok (h_cd, disp_file k x) = true.
Proof.
  intros Hk Hx. cbn [hdr_ok]. replace (forallb is_field_char h_cd) with true by reflexivity.
  change (match h_cd with c :: _ => negb (is_lwsp c) | [] => false end) with true. cbn [andb].
  unfold disp_file. rewrite !forallb_app. replace (forallb is_value_char (s2b "form-data; name=""")) with true by reflexivity.
  replace (forallb is_value_char (s2b """; filename=""")) with true by reflexivity.
  rewrite (esc_value_chars k Hk), (esc_value_chars x Hx). cbn [andb forallb].
  replace (is_value_char 34) with true by reflexivity. cbn [andb].
  rewrite ends_app; [|discriminate|destruct (esc k); discriminate].
  rewrite !app_assoc. rewrite last_app_ne by discriminate. reflexivity.
Qed.

Lemma hdr_ok_ctype ct : ctype_ok ct = true -> hdr_ok (h_ct, ct) = true.
Proof.
  unfold ctype_ok. intros H. apply andb_true_iff in H as [H1 H2]. cbn [hdr_ok].
  replace (forallb is_field_char h_ct) with true by reflexivity.
  change (match h_ct with c :: _ => negb (is_lwsp c) | [] => false end) with true. now rewrite H1, H2.
Qed.

Lemma form_parts_eq f : form_parts f =
  flat_map (fun kv => map (vpart (fst kv)) (snd kv)) (fm_values f) ++
  flat_map (fun kv => map (fpart (fst kv)) (snd kv)) (fm_files f).
Proof. reflexivity. Qed.

Lemma name_ok_chars k : name_ok k = true -> forallb is_value_char k = true.
Proof. unfold name_ok. intros H. now apply andb_true_iff in H as [_ H]. Qed.

Lemma parts_ok b f : form_ok b f = true -> forallb (wpart_ok b) (form_parts f) = true.
Proof.
  unfold form_ok. intros H. apply andb_true_iff in H as [H Hf]. apply andb_true_iff in H as [_ Hv].
  rewrite form_parts_eq, forallb_app. apply andb_true_iff. split.
  - rewrite forallb_forall in *. intros p Hin. apply in_flat_map in Hin as [[k vs] [Hin Hp]]. cbn [fst snd] in Hp.
    apply in_map_iff in Hp as [v [<- Hv']]. specialize (Hv _ Hin). cbn [fst snd] in Hv.
    apply andb_true_iff in Hv as [Hk Hd]. apply andb_true_iff in Hk as [Hk _]. rewrite forallb_forall in Hd.
    unfold wpart_ok, vpart. cbn [fst snd forallb]. rewrite hdr_ok_field by (now apply name_ok_chars). now rewrite Hd.
  - rewrite forallb_forall in *. intros p Hin. apply in_flat_map in Hin as [[k xs] [Hin Hp]]. cbn [fst snd] in Hp.
    apply in_map_iff in Hp as [x [<- Hx']]. specialize (Hf _ Hin). cbn [fst snd] in Hf.
    apply andb_true_iff in Hf as [Hk Hd]. apply andb_true_iff in Hk as [Hk _]. rewrite forallb_forall in Hd.
    specialize (Hd _ Hx'). unfold file_ok in Hd. apply andb_true_iff in Hd as [Hd Hfree]. apply andb_true_iff in Hd as [Hn Hct].
    unfold wpart_ok, fpart. cbn [fst snd forallb].
    unfold filename_ok in Hn. apply andb_true_iff in Hn as [Hn _].
    rewrite hdr_ok_file by (now apply name_ok_chars). rewrite hdr_ok_ctype by exact Hct. now rewrite Hfree.
Qed.

Lemma parts_len b ps first : (length ps <= length (parts_bytes first b ps))%nat.
Proof.
  revert first; induction ps as [|p r IH]; intros first; cbn [parts_bytes length]; [lia|].
  rewrite app_length. specialize (IH false). unfold part_bytes. rewrite !app_length. cbn [length dashes]. lia.
Qed.

Lemma collect_form b f : form_ok b f = true -> collect (form_parts f) (Build_mform [] []) = f.
Proof.
  unfold form_ok. intros H. apply andb_true_iff in H as [H Hf]. apply andb_true_iff in H as [H Hv].
  apply andb_true_iff in H as [Hnv Hnf]. rewrite form_parts_eq.
  rewrite (collect_values (fm_values f) [] []); auto.
  - rewrite <- (app_nil_r (flat_map _ (fm_files f))). rewrite (collect_files (fm_files f) [] (fm_values f)); auto.
    + destruct f; reflexivity.
    + intros k _. reflexivity.
    + rewrite forallb_forall in *. intros kv Hin. specialize (Hf _ Hin).
      apply andb_true_iff in Hf as [Hk Hx]. rewrite Hk. cbn [andb]. rewrite forallb_forall in *. intros x Hx'.
      specialize (Hx _ Hx'). unfold file_ok in Hx. apply andb_true_iff in Hx as [Hx _]. now apply andb_true_iff in Hx as [Hx _].
  - intros k _. reflexivity.
  - rewrite forallb_forall in *. intros kv Hin. specialize (Hv _ Hin). now apply andb_true_iff in Hv as [Hk _].
Qed.

Theorem roundtrip b f : valid_boundary b = true -> form_ok b f = true ->
  exists out, write_form b f = WOk out /\ read_form b (Z.of_nat (length out)) out = Some f.
Proof.
  intros Hb Hf. destruct (valid_boundary_facts b Hb) as (Hne & H13 & H10).
  exists (parts_bytes true b (form_parts f) ++ close_bytes b). split.
  - unfold write_form. destruct b; [congruence|]. now rewrite Hb.
  - unfold read_form.
    set (out := parts_bytes true b (form_parts f) ++ close_bytes b).
    assert (1 <= length out)%nat as Hlen.
    { unfold out, close_bytes. rewrite !app_length. cbn [length crlf]. lia. }
    destruct (Z.leb_spec (Z.of_nat (length out)) 0) as [Hle|_]; [lia|].
    rewrite Nat2Z.id, firstn_all. destruct b as [|c b']; [congruence|].
    unfold out at 2. rewrite read_parts_all; auto.
    + rewrite Z.ltb_irrefl. now rewrite (collect_form (c :: b') f Hf).
    + now apply parts_ok.
    + unfold out. rewrite app_length. pose proof (parts_len (c :: b') (form_parts f) true). lia.
Qed.
End Codec.
