(* NetUrlProof.v — fasthttp's URI.parse against Spec/NetUrl.v (net/url.Parse) on "http://" / "https://" URIs:
   whenever both accept, Host() is net/url's Host lower-cased and the raw query strings are equal. *)
From Coq Require Import Lia ZifyBool ZifyN ZifyNat.
From FH Require Import Model.Base Gen.GenC27 Gen.GenC31 Model.IPv6 Model.PathNorm Model.Uri Spec.IntsSpec Spec.IPv4Spec Spec.IPv6Text Spec.NetUrl
  Proof.IPv6Proof Proof.PathNormProof Proof.UriProof.
Open Scope N_scope.

(* ---------- bytes ---------- *)
Lemma L_nu c : c < 256 -> L c = nu_lower c.
Proof. intros Hc. apply N.eqb_eq. bytes256 c Hc. Qed.
Lemma hex_tbl c : c < 256 -> match hexdig c with Some x => unhex c = Z.to_N x /\ (0 <= x < 16)%Z /\ ishex c = true | None => ishex c = false end.
Proof.
  intros Hc.
  assert (H : (match hexdig c with Some x => (unhex c =? Z.to_N x) && (0 <=? x)%Z && (x <? 16)%Z && ishex c | None => negb (ishex c) end) = true) by (bytes256 c Hc).
  destruct (hexdig c); [|now apply negb_true_iff]. repeat (apply andb_true_iff in H as [H ?]). repeat split; lia.
Qed.
Lemma dec_byte_val x y : x < 16 -> y < 16 -> dec_byte x y = 16 * x + y.
Proof.
  intros H1 H2.
  assert (H : forallb (fun a => forallb (fun b => dec_byte a b =? 16 * a + b) (map N.of_nat (seq 0 16))) (map N.of_nat (seq 0 16)) = true) by (vm_compute; reflexivity).
  rewrite forallb_forall in H. assert (I1 : In x (map N.of_nat (seq 0 16))) by (apply in_map_iff; exists (N.to_nat x); split; [lia|apply in_seq; lia]).
  specialize (H _ I1). rewrite forallb_forall in H. assert (I2 : In y (map N.of_nat (seq 0 16))) by (apply in_map_iff; exists (N.to_nat y); split; [lia|apply in_seq; lia]).
  specialize (H _ I2). lia.
Qed.
Lemma toN16 x y : (0 <= x)%Z -> (0 <= y)%Z -> 16 * Z.to_N x + Z.to_N y = Z.to_N (16 * x + y)%Z.
Proof. intros Hx Hy. rewrite Z2N.inj_add by lia. rewrite Z2N.inj_mul by lia. reflexivity. Qed.
Lemma hexv_dec a b v : a < 256 -> b < 256 -> hexv a b = Some v -> dec_byte (unhex a) (unhex b) = v.
Proof.
  intros Ha Hb. unfold hexv. pose proof (hex_tbl a Ha) as H1. pose proof (hex_tbl b Hb) as H2.
  destruct (hexdig a) as [x|]; [|discriminate]. destruct (hexdig b) as [y|]; [|discriminate]. intros [= <-].
  destruct H1 as (E1 & R1 & _). destruct H2 as (E2 & R2 & _). rewrite E1, E2.
  assert (Hx : Z.to_N x < 16) by (change 16 with (Z.to_N 16); apply Z2N.inj_lt; lia).
  assert (Hy : Z.to_N y < 16) by (change 16 with (Z.to_N 16); apply Z2N.inj_lt; lia).
  rewrite (dec_byte_val _ _ Hx Hy). apply toN16; lia.
Qed.

(* whatever net/url's host unescaping returns is the plain percent-decoding of the text *)
Lemma nu_unescape_decode z n : forall s t, (length s <= n)%nat -> wf_bytes s -> nu_unescape_host z s = Some t -> unescape_decode s = t.
Proof.
  induction n as [|n IH]; intros s t Hn Hw H.
  - destruct s; [cbn in H; now injection H|cbn in Hn; lia].
  - destruct s as [|c r]; [cbn in H; now injection H|]. rewrite decode_S. cbn [nu_unescape_host] in H. unfold PCT.
    apply wf_cons in Hw as [Hc Hr]. destruct (c =? 37).
    + destruct r as [|a [|b r']]; try discriminate. apply wf_cons in Hr as [Ha Hr]. apply wf_cons in Hr as [Hb Hr].
      destruct (hexv a b) as [v|] eqn:Ev; [|discriminate].
      destruct (if z then _ else _); [|discriminate]. destruct (nu_unescape_host z r') as [t'|] eqn:Er; [|discriminate]. injection H as <-.
      rewrite (hexv_dec a b v Ha Hb Ev). f_equal. apply IH; auto. cbn [length] in Hn. lia.
    + destruct (nu_hostbyte c); [|discriminate]. destruct (nu_unescape_host z r) as [t'|] eqn:Er; [|discriminate]. injection H as <-.
      f_equal. apply IH; auto. cbn [length] in Hn. lia.
Qed.
Lemma unescape_is_decode s m t : unescape s m = UOk t -> t = unescape_decode s.
Proof. unfold unescape. destruct (unescape_check s m); [discriminate|]. now intros [= <-]. Qed.

(* ---------- cuts and searches ---------- *)
Lemma last_cut_idx c s : last_cut c s = match lastIdxByte s c with Some i => Some (firstn i s, skipn (S i) s) | None => None end.
Proof.
  induction s as [|x r IH]; [reflexivity|]. cbn [last_cut lastIdxByte]. rewrite IH. destruct (lastIdxByte r c) as [i|]; [reflexivity|].
  destruct (x =? c); reflexivity.
Qed.
Lemma cut1_idx c s : cut1 c s = match idxByte s c with Some n => (firstn n s, Some (skipn (S n) s)) | None => (s, None) end.
Proof.
  induction s as [|x r IH]; [reflexivity|]. cbn [cut1 idxByte]. destruct (x =? c); [reflexivity|]. rewrite IH. destruct (idxByte r c); reflexivity.
Qed.
Lemma hasPrefix_starts p : forall s, hasPrefix s p = starts_with p s.
Proof.
  unfold starts_with. induction p as [|x p IH]; intros s; [destruct s; reflexivity|]. destruct s as [|c s]; [reflexivity|].
  cbn [hasPrefix length firstn beq]. now rewrite IH.
Qed.
Lemma find_pct25_index s : find_pct25 s = match index s strPct25 with Some z => Some (firstn z s, skipn z s) | None => None end.
Proof.
  induction s as [|c r IH]; [reflexivity|]. rewrite index_unfold. rewrite hasPrefix_starts. cbn [find_pct25]. unfold strPct25.
  destruct (starts_with [37; 50; 53] (c :: r)); [reflexivity|]. rewrite IH. unfold strPct25. destruct (index r [37; 50; 53]); reflexivity.
Qed.

(* ---------- the host: whenever both parseHost and net/url's parseHost accept, they return the same bytes ---------- *)
Lemma starts1 c0 t k : starts_with [k] (c0 :: t) = (c0 =? k).
Proof. unfold starts_with. cbn. now rewrite andb_true_r. Qed.

Lemma plain_decode x ph : plain x = UOk ph -> ph = unescape_decode x.
Proof. intros H. now destruct (plain_ok _ _ H) as (_ & E & _). Qed.
Lemma v6_then_id x ph : v6_then x = UOk ph -> ph = x.
Proof. unfold v6_then. destruct (validateIPv6Literal x); try discriminate. now intros [= <-]. Qed.

Theorem host_agree hp ph h : wf_bytes hp -> parseHost hp = UOk ph -> nu_parse_host hp = Some h -> ph = h.
Proof.
  intros Hw Hm Hs.
  assert (Hdec : forall z x t, wf_bytes x -> nu_unescape_host z x = Some t -> unescape_decode x = t) by (intros z x t; apply (nu_unescape_decode z _ x t (le_n _))).
  unfold parseHost in Hm. fold (plain hp) in Hm. unfold nu_parse_host in Hs.
  destruct hp as [|c0 t0].
  { cbn in Hs. injection Hs as <-. apply plain_decode in Hm. exact Hm. }
  rewrite starts1 in Hs. unfold LBR in Hm. destruct (c0 =? 91).
  - rewrite last_cut_idx in Hs. unfold RBR in Hm. destruct (lastIdxByte (c0 :: t0) 93) as [i|] eqn:Ei; [|discriminate].
    assert (Esk : skipn i (c0 :: t0) = 93 :: skipn (S i) (c0 :: t0)).
    { destruct (lastidx_some _ _ _ Ei) as (y' & x' & E' & Hl' & _). rewrite E', <- Hl'. now rewrite skipn_app_len, skipn_mid. }
    destruct (negb (validOptionalPort _)); [discriminate|]. destruct (negb (nu_port _)); [discriminate|].
    rewrite find_pct25_index in Hs. destruct (index (firstn i (c0 :: t0)) strPct25) as [zone|] eqn:Ez.
    + apply index_Some in Ez as (x & y & Ez & Hlen & _).
      assert (Ef : firstn zone (firstn i (c0 :: t0)) = firstn zone (c0 :: t0)).
      { rewrite firstn_firstn. f_equal. assert (zone <= length (firstn i (c0 :: t0)))%nat by (rewrite Ez, app_length; lia). rewrite firstn_length in H. lia. }
      rewrite Ef in Hs.
      destruct (unescape (firstn zone (c0 :: t0)) encodeHost) as [h1|] eqn:E1; [|discriminate].
      destruct (unescape (skipn zone (firstn i (c0 :: t0))) encodeZone) as [h2|] eqn:E2; [|discriminate].
      destruct (unescape (skipn i (c0 :: t0)) encodeHost) as [h3|] eqn:E3; [|discriminate].
      apply v6_then_id in Hm. subst ph.
      destruct (nu_unescape_host false (firstn zone (c0 :: t0))) as [a|] eqn:Ea; [|discriminate].
      destruct (nu_unescape_host true (skipn zone (firstn i (c0 :: t0)))) as [b|] eqn:Eb; [|discriminate].
      rewrite <- Esk in Hs. destruct (nu_unescape_host false (skipn i (c0 :: t0))) as [c|] eqn:Ec; [|discriminate]. injection Hs as <-.
      apply unescape_is_decode in E1, E2, E3. subst.
      assert (W1 : wf_bytes (firstn (length x) (c0 :: t0))) by (now apply Forall_firstn').
      assert (W2 : wf_bytes (skipn (length x) (firstn i (c0 :: t0)))) by (apply Forall_skipn'; now apply Forall_firstn').
      assert (W3 : wf_bytes (skipn i (c0 :: t0))) by (now apply Forall_skipn').
      rewrite (Hdec _ _ _ W1 Ea), (Hdec _ _ _ W2 Eb), (Hdec _ _ _ W3 Ec). reflexivity.
    + fold (plain (c0 :: t0)) in Hm. apply plain_decode in Hm. subst ph. now apply (Hdec false).
  - destruct (_ || _); [discriminate|]. rewrite last_cut_idx in Hs. unfold COLON in Hm.
    destruct (lastIdxByte (c0 :: t0) 58) as [i|].
    + destruct (match idxByte _ 58 with Some _ => true | None => false end); [discriminate|]. destruct (negb _); [discriminate|].
      destruct (forallb nu_digit _); [|discriminate]. apply plain_decode in Hm. subst ph. now apply (Hdec false).
    + apply plain_decode in Hm. subst ph. now apply (Hdec false).
Qed.

(* ---------- splitting "scheme://authority rest" ---------- *)
Definition nd (c : N) : bool := negb ((c =? 47) || (c =? 63) || (c =? 35)).     (* not one of / ? # *)
Definition Qry (b : bytes) : bytes := opt_bytes (snd (cut1 63 (fst (cut1 35 b)))).

Lemma span_set_spec P s : let (a, b) := span_set P s in s = a ++ b /\ forallb P a = true /\ (b = [] \/ exists d r, b = d :: r /\ P d = false).
Proof.
  induction s as [|c r IH]; cbn [span_set]; [auto|]. destruct (P c) eqn:E.
  - destruct (span_set P r) as [a b]. destruct IH as (-> & Ha & Hb). repeat split; auto. cbn. now rewrite E, Ha.
  - repeat split; auto. right. eauto.
Qed.
Lemma span_set_app P (a : bytes) d b : forallb P a = true -> P d = false -> span_set P (a ++ d :: b) = (a, d :: b).
Proof.
  induction a as [|x a IH]; intros Ha Hd; cbn [app span_set]; [now rewrite Hd|]. cbn in Ha. apply andb_true_iff in Ha as [Hx Ha].
  rewrite Hx, IH by assumption. reflexivity.
Qed.

Definition oS (o : option nat) : option nat := match o with Some n => Some (S n) | None => None end.
Lemma pick_min_S a b : pick_min (oS a) (oS b) = oS (pick_min a b).
Proof. destruct a as [p|], b as [q|]; try reflexivity. unfold oS, pick_min. change (S q <? S p)%nat with (q <? p)%nat. destruct (q <? p)%nat; reflexivity. Qed.
Lemma pick_min_0r a : pick_min a (Some O) = Some O.
Proof. destruct a as [[|p]|]; reflexivity. Qed.
Lemma pick_min_0l b : pick_min (Some O) b = Some O.
Proof. destruct b as [q|]; reflexivity. Qed.
Lemma idx_cons (c : N) r k : idxByte (c :: r) k = if c =? k then Some O else oS (idxByte r k).
Proof. reflexivity. Qed.

Lemma pick3 tail : let (A, rest) := span_set nd tail in
  pick_min (pick_min (idxByte tail 47) (idxByte tail 63)) (idxByte tail 35) = match rest with [] => None | _ => Some (length A) end.
Proof.
  induction tail as [|c r IH]; [reflexivity|]. cbn [span_set]. rewrite !idx_cons. unfold nd at 1.
  destruct (c =? 47) eqn:E1; cbn [orb negb].
  - now rewrite pick_min_0l, pick_min_0l.
  - destruct (c =? 63) eqn:E2; cbn [orb negb].
    + now rewrite pick_min_0r, pick_min_0l.
    + destruct (c =? 35) eqn:E3; cbn [orb negb].
      * now rewrite pick_min_0r.
      * rewrite !pick_min_S. destruct (span_set nd r) as [A rest]. rewrite IH. destruct rest; reflexivity.
Qed.

Lemma nested_cuts tail : fst (cut1 47 (fst (cut1 63 (fst (cut1 35 tail))))) = fst (span_set nd tail).
Proof.
  induction tail as [|c r IH]; [reflexivity|]. cbn [cut1 span_set]. unfold nd at 1.
  destruct (c =? 35) eqn:E3.
  - rewrite !orb_true_r. reflexivity.
  - destruct (cut1 35 r) as [a fr] eqn:Ea. cbn [fst cut1] in *. destruct (c =? 63) eqn:E2.
    + rewrite orb_true_r. reflexivity.
    + destruct (cut1 63 a) as [a2 q2] eqn:Ea2. cbn [fst cut1] in *. destruct (c =? 47) eqn:E1; [reflexivity|]. cbn [orb negb].
      destruct (cut1 47 a2) as [a3 p3] eqn:Ea3. destruct (span_set nd r) as [A rest]. cbn [fst] in *. now rewrite IH.
Qed.
Lemma Qry_app A b : forallb nd A = true -> Qry (A ++ b) = Qry b.
Proof.
  induction A as [|c A IH]; intros H; [reflexivity|]. cbn in H. apply andb_true_iff in H as [Hc HA]. unfold nd in Hc.
  specialize (IH HA). unfold Qry in *. cbn [app cut1]. replace (c =? 35) with false by lia.
  destruct (cut1 35 (A ++ b)) as [a fr]. cbn [fst cut1] in *. replace (c =? 63) with false by lia. destruct (cut1 63 a). cbn [snd] in *. exact IH.
Qed.
Lemma Qry_nodelim A : forallb nd A = true -> Qry A = [].
Proof. intros H. rewrite <- (app_nil_r A). now rewrite Qry_app. Qed.

Lemma idx_firstn_lt (b : bytes) c q f : idxByte b c = Some q -> (q < f)%nat -> idxByte (firstn f b) c = Some q.
Proof.
  intros Hq Hlt. destruct (idx_some _ _ _ Hq) as (x & y & -> & <- & Hn).
  replace f with (length x + S (f - S (length x)))%nat by lia. rewrite firstn_app_2. cbn [firstn]. now apply idx_app_notin.
Qed.
Lemma idx_firstn_ge (b : bytes) c f : (match idxByte b c with Some q => (f <= q)%nat | None => True end) -> idxByte (firstn f b) c = None.
Proof.
  intros H. apply idx_notin. intros Hin. destruct (idxByte b c) as [q|] eqn:E.
  - destruct (idx_some _ _ _ E) as (x & y & -> & <- & Hn). rewrite firstn_app in Hin. replace (f - length x)%nat with O in Hin by lia. cbn in Hin. rewrite app_nil_r in Hin.
    apply Hn. eapply In_firstn; exact Hin.
  - apply idx_none in E. apply E. eapply In_firstn; exact Hin.
Qed.

Lemma tail_qs s h un pw b : u_queryString (parse_tail s h un pw b) = Qry b.
Proof.
  unfold parse_tail, Qry, QM, HASH. rewrite (cut1_idx 35 b).
  destruct (idxByte b 35) as [f|] eqn:Ef; destruct (idxByte b 63) as [q|] eqn:Eq; cbn [fst].
  - destruct (Nat.ltb_spec f q).
    + cbn [u_queryString]. rewrite cut1_idx, idx_firstn_ge by (rewrite Eq; lia). reflexivity.
    + assert (q <> f).
      { intros ->. destruct (idx_some _ _ _ Ef) as (x1 & y1 & E1 & L1 & _). destruct (idx_some _ _ _ Eq) as (x2 & y2 & E2 & L2 & _).
        rewrite E1 in E2. assert (Hx : x1 = x2 /\ 35 :: y1 = 63 :: y2) by (apply app_eq_len; [exact E2|congruence]). destruct Hx as [_ Hx]. discriminate. }
      cbn [u_queryString]. rewrite cut1_idx, (idx_firstn_lt b 63 q f Eq) by lia. cbn [snd opt_bytes].
      rewrite firstn_skipn_comm. f_equal. f_equal. lia.
  - cbn [u_queryString]. rewrite cut1_idx, idx_firstn_ge by (now rewrite Eq). reflexivity.
  - cbn [u_queryString]. rewrite cut1_idx, Eq. reflexivity.
  - cbn [u_queryString]. rewrite cut1_idx, Eq. reflexivity.
Qed.

Lemma cut1_app_notin c (a b : bytes) : ~ In c a -> cut1 c (a ++ b) = let (x, y) := cut1 c b in (a ++ x, y).
Proof.
  induction a as [|z a IH]; intros Hn; cbn [app cut1]; [destruct (cut1 c b); reflexivity|].
  destruct (N.eqb_spec z c) as [->|]; [exfalso; apply Hn; left; reflexivity|]. rewrite IH by (intros H; apply Hn; right; exact H).
  destruct (cut1 c b); reflexivity.
Qed.

(* ---------- "http://..." and "https://..." ---------- *)
Definition alphas (S : bytes) : Prop := S <> [] /\ Forall (fun c => nu_alpha c = true) S.

Lemma alpha_facts c : nu_alpha c = true -> c <> 47 /\ c <> 58 /\ c <> 35 /\ c <> 63 /\ isAlpha c = true /\ nu_schemech c = true /\ c < 256.
Proof.
  intros H. assert (Hs : nu_schemech c = true) by (unfold nu_schemech, nu_alnum; now rewrite H).
  unfold nu_alpha, isAlpha in *. repeat split; try lia; exact Hs.
Qed.

Lemma alphas_of_lower S k : map nu_lower S = k -> k <> [] -> forallb nu_alpha k = true -> alphas S.
Proof.
  intros E Hk Ha. subst k. split; [destruct S; [contradiction|discriminate]|]. apply Forall_forall. intros c Hc.
  rewrite forallb_forall in Ha. specialize (Ha (nu_lower c) (in_map _ _ _ Hc)). unfold nu_alpha, nu_lower in *. destruct ((65 <=? c) && (c <=? 90)) eqn:E; lia.
Qed.

Lemma model_split S tail : alphas S -> let (A, rest) := span_set nd tail in
  splitHostURI [] (S ++ uStrColonSlashSlash ++ tail) = (S, A, match rest with [] => uStrSlash | _ => rest end).
Proof.
  intros [Hne HS]. pose proof (pick3 tail) as Hp. pose proof (span_set_spec nd tail) as Hsp. destruct (span_set nd tail) as [A rest]. destruct Hsp as (Et & HA & Hrest).
  unfold splitHostURI, uStrColonSlashSlash. change (S ++ [58; 47; 47] ++ tail) with (S ++ [58] ++ 47 :: 47 :: tail). rewrite app_assoc.
  assert (Hn : ~ In 47 (S ++ [58])).
  { intros H. apply in_app_or in H as [H|[H|[]]]; [|discriminate]. rewrite Forall_forall in HS. destruct (alpha_facts _ (HS _ H)) as (X & _). congruence. }
  set (a := S ++ [58]) in *.
  rewrite (index_slsl_first a tail Hn). rewrite head_nosplit. unfold SLASH. rewrite (idx_notin _ 47 Hn).
  assert (Hrev : match rev a with [] => a | c :: _ => if c =? COLON then removelast a else a end = S).
  { unfold a. rewrite rev_app_distr. cbn [rev app]. unfold COLON. cbn [N.eqb Pos.eqb]. now rewrite removelast_last. }
  rewrite Hrev. change (length uStrSlashSlash) with 2%nat.
  replace (skipn (length a + 2) (a ++ 47 :: 47 :: tail)) with tail.
  2:{ change (a ++ 47 :: 47 :: tail) with (a ++ [47; 47] ++ tail). rewrite app_assoc.
      replace (length a + 2)%nat with (length (a ++ [47; 47])) by (rewrite !app_length; reflexivity). now rewrite skipn_app_len. }
  unfold QM, HASH. rewrite Hp. destruct rest as [|d r]; [rewrite Et, app_nil_r; reflexivity|]. rewrite Et, head_nosplit, skipn_app_len. reflexivity.
Qed.

(* what the specification computes on such a URI *)
Lemma spec_split S tail s h q : alphas S -> nu_parse (S ++ uStrColonSlashSlash ++ tail) = Some (s, h, q) ->
  nu_authority (fst (span_set nd tail)) = Some h /\ q = Qry tail.
Proof.
  intros [Hne HS] H. unfold nu_parse, uStrColonSlashSlash in H.
  assert (HS' : forall k, k = 47 \/ k = 58 \/ k = 35 \/ k = 63 -> ~ In k S).
  { intros k Hk Hin. rewrite Forall_forall in HS. destruct (alpha_facts _ (HS _ Hin)) as (A1 & A2 & A3 & A4 & _). destruct Hk as [-> | [-> | [-> | ->]]]; congruence. }
  assert (Hn35 : ~ In 35 (S ++ [58; 47; 47])) by (intros Hi; apply in_app_or in Hi as [Hi|Hi]; [apply (HS' 35); auto|repeat (destruct Hi as [Hi|Hi]; [discriminate|]); exact Hi]).
  rewrite app_assoc in H. rewrite (cut1_app_notin 35 _ tail Hn35) in H. destruct (cut1 35 tail) as [t0 frag] eqn:E35.
  destruct (existsb nu_ctl _); [discriminate|]. destruct (negb (escapes_ok _)); [discriminate|].
  destruct S as [|s0 S']; [congruence|]. 
  assert (Hs0 : nu_alpha s0 = true) by (inversion HS; assumption).
  destruct (alpha_facts _ Hs0) as (B1 & B2 & B3 & B4 & B5 & B6 & B7).
  assert (Hstar : beq (((s0 :: S') ++ [58; 47; 47]) ++ t0) [42] = false).
  { cbn [app beq]. destruct S'; cbn [app beq]; now rewrite andb_false_r. }
  rewrite Hstar in H.
  assert (Hgs : get_scheme (((s0 :: S') ++ [58; 47; 47]) ++ t0) = Some (s0 :: S', [47; 47] ++ t0)).
  { unfold get_scheme. cbn [app]. replace (s0 =? 58) with false by lia. rewrite Hs0.
    replace (s0 :: (S' ++ [58; 47; 47]) ++ t0) with ((s0 :: S') ++ 58 :: ([47; 47] ++ t0)) by (cbn [app]; now rewrite <- app_assoc).
    rewrite span_set_app; [reflexivity| |reflexivity]. apply forallb_forall. intros c Hc. rewrite Forall_forall in HS. now destruct (alpha_facts _ (HS _ Hc)) as (_ & _ & _ & _ & _ & X & _). }
  rewrite Hgs in H. cbn [app] in H. unfold starts_with in H. cbn [cut1 N.eqb Pos.eqb] in H.
  destruct (cut1 63 t0) as [t1 qq] eqn:E63. cbn [length firstn beq N.eqb Pos.eqb andb negb map skipn] in H.
  destruct (cut1 47 t1) as [A' path] eqn:E47.
  destruct (nu_authority A') as [host|] eqn:Eau; [|discriminate]. destruct (escapes_ok _); [|discriminate]. injection H as _ <- <-.
  pose proof (nested_cuts tail) as Hnc. rewrite E35 in Hnc. cbn [fst] in Hnc. rewrite E63 in Hnc. cbn [fst] in Hnc. rewrite E47 in Hnc. cbn [fst] in Hnc.
  rewrite <- Hnc. split; [exact Eau|]. unfold Qry. rewrite E35. cbn [fst]. now rewrite E63.
Qed.

Theorem host_query_vs_neturl S tail u s h q :
  wf_bytes (S ++ uStrColonSlashSlash ++ tail) ->
  (map nu_lower S = s2b "http" \/ map nu_lower S = s2b "https") ->
  parse [] (S ++ uStrColonSlashSlash ++ tail) = UOk u ->
  nu_parse (S ++ uStrColonSlashSlash ++ tail) = Some (s, h, q) ->
  Host u = map nu_lower h /\ QueryString u = q.
Proof.
  intros Hw HSl Hp Hs.
  assert (HA : alphas S).
  { destruct HSl as [E|E]; apply (alphas_of_lower S _ E); try (vm_compute; reflexivity); vm_compute; discriminate. }
  destruct (spec_split S tail s h q HA Hs) as [Hau ->].
  pose proof (model_split S tail HA) as Hms. pose proof (span_set_spec nd tail) as Hsp. destruct (span_set nd tail) as [A rest]. destruct Hsp as (Et & HAnd & Hrest).
  cbn [fst] in Hau.
  assert (HwA : wf_bytes A). { apply wf_app in Hw as [_ Hw]. apply wf_app in Hw as [_ Hw]. rewrite Et in Hw. now apply wf_app in Hw. }
  unfold parse in Hp. destruct (stringContainsCTLByte _); [discriminate|]. rewrite Hms in Hp.
  destruct (match S with [] => true | _ => isValidScheme S end); [|discriminate]. cbn [negb] in Hp.
  unfold nu_authority in Hau. rewrite last_cut_idx in Hau. unfold AT in Hp.
  set (newURI := match rest with [] => uStrSlash | _ => rest end) in *.
  assert (HQ : Qry newURI = Qry tail).
  { unfold newURI. rewrite Et. destruct rest as [|d r]; [rewrite app_nil_r, (Qry_nodelim A HAnd); reflexivity|now rewrite (Qry_app A _ HAnd)]. }
  assert (Hfin : forall hp un pw, wf_bytes hp -> nu_parse_host hp = Some h ->
            match parseHost hp with UOk parsedHost => UOk (parse_tail (lowercaseBytes S) (lowercaseBytes parsedHost) un pw newURI) | UErr e => UErr e end = UOk u ->
            Host u = map nu_lower h /\ QueryString u = Qry tail).
  { intros hp un pw Hwhp Hsh Hm. destruct (parseHost hp) as [ph|] eqn:Eph; [|discriminate]. injection Hm as <-.
    pose proof (host_agree hp ph h Hwhp Eph Hsh) as ->. pose proof (parseHost_wf _ _ Hwhp Eph) as Hwh.
    unfold Host, QueryString. rewrite tail_qs, HQ. split; [|reflexivity]. cbn [u_host parse_tail].
    assert (Eh : u_host (parse_tail (lowercaseBytes S) (lowercaseBytes h) un pw newURI) = lowercaseBytes h).
    { now destruct (tail_fields (lowercaseBytes S) (lowercaseBytes h) un pw newURI _ eq_refl) as (_ & _ & _ & _ & E & _). }
    rewrite Eh, lower_eq. unfold mL. apply map_ext_in. intros c Hc. apply L_nu. unfold wf_bytes in Hwh. rewrite Forall_forall in Hwh. auto. }
  destruct (lastIdxByte A 64) as [n|].
  - destruct (negb (validUserinfo (firstn n A))); [discriminate|].
    destruct (nu_parse_host (skipn (Datatypes.S n) A)) as [host|] eqn:Eh; [|discriminate]. destruct (nu_userinfo_ok _); [|discriminate]. injection Hau as ->.
    assert (Hwhp : wf_bytes (skipn (Datatypes.S n) A)) by (now apply Forall_skipn').
    destruct (idxByte (firstn n A) COLON); eapply Hfin; eauto.
  - eapply Hfin; eauto.
Qed.
