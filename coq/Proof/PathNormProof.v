(* PathNormProof.v — proofs about Model/PathNorm.v against Spec/Rfc3986.v (property C26; reused by C23, C27).

   Route: (1) package-bytes search functions characterised by occurrences; (2) a path "/s1/s2/.../sn" is
   join_segs of its segment list psegs; (3) each loop iteration of normalizePath is a rewrite of the segment
   list that RFC 3986 remove_dot_segments (rds_segs) cannot see; (4) at the loop exits no "." / ".." / empty
   segment is left, so the exit form is rds_segs' own output; (5) the RFC's input/output-buffer algorithm on
   the string (rds_loop) equals rds_segs on the segments; (6) decodeArgAppendNoPlus is pct_decode (table
   checked for all 65536 byte pairs).

   Exported for other proofs:
     normalizePath_opt_total, normalizePath_wfp, path_shape, path_shape_b, path_segments, path_no_dotdot,
     path_is_rfc, spec_path_segs_eq, norm_tail_fixpoint, norm_tail_total, norm_tail_idem, norm_tail_ok. *)
From Coq Require Import Lia ZifyBool ZifyN ZifyNat.
From FH Require Import Model.Base Gen.GenC26 Model.PathNorm Spec.Rfc3986.
Open Scope N_scope.


(* ================= generic list facts ================= *)
Lemma firstn_len_app {A} (x y : list A) : firstn (length x) (x ++ y) = x.
Proof. induction x as [|a x IH]; cbn; [now destruct y|]. now rewrite IH. Qed.

Lemma skipn_len_app {A} (x y : list A) k : skipn (length x + k) (x ++ y) = skipn k y.
Proof. induction x as [|a x IH]; cbn; [reflexivity|]. exact IH. Qed.

Lemma skipn_len_app0 {A} (x y : list A) : skipn (length x) (x ++ y) = y.
Proof. rewrite <- (Nat.add_0_r (length x)). now rewrite skipn_len_app. Qed.

Lemma app_eq_len {A} (x1 x2 y1 y2 : list A) :
  x1 ++ y1 = x2 ++ y2 -> length x1 = length x2 -> x1 = x2 /\ y1 = y2.
Proof.
  revert x2; induction x1 as [|a x1 IH]; destruct x2 as [|b x2]; cbn; intros H L; try discriminate.
  - now split.
  - injection H as -> H. injection L as L. destruct (IH _ H L) as [-> ->]. now split.
Qed.

Lemma last_app_ne {A} (l1 l2 : list A) d : l2 <> [] -> last (l1 ++ l2) d = last l2 d.
Proof.
  intros H. induction l1 as [|a l1 IH]; cbn; [reflexivity|].
  destruct (l1 ++ l2) eqn:E; [|exact IH].
  apply app_eq_nil in E as [_ E]. contradiction.
Qed.

Lemma removelast_app_ne {A} (l1 l2 : list A) : l2 <> [] -> removelast (l1 ++ l2) = l1 ++ removelast l2.
Proof. apply removelast_app. Qed.

Lemma removelast_snoc {A} (l : list A) x : removelast (l ++ [x]) = l.
Proof. rewrite removelast_app by discriminate. cbn. apply app_nil_r. Qed.

Lemma last_snoc {A} (l : list A) x d : last (l ++ [x]) d = x.
Proof. rewrite last_app_ne by discriminate. reflexivity. Qed.

Lemma snoc_cases {A} (l : list A) : l = [] \/ exists i z, l = i ++ [z].
Proof.
  destruct l as [|a l]; [now left|right].
  destruct (@exists_last _ (a :: l)) as [i [z E]]; [discriminate|]. eauto.
Qed.

(* ================= package bytes ================= *)
Lemma hasPrefix_iff s pat : hasPrefix s pat = true <-> exists y, s = pat ++ y.
Proof.
  revert s; induction pat as [|p pat IH]; intros s; cbn.
  - split; [eauto|now destruct s].
  - destruct s as [|c s]; cbn.
    + split; [discriminate|]. intros [y H]. discriminate.
    + rewrite andb_true_iff, N.eqb_eq, IH. split.
      * intros [-> [y ->]]. eauto.
      * intros [y H]. injection H as -> ->. eauto.
Qed.

Lemma hasPrefix_app pat y : hasPrefix (pat ++ y) pat = true.
Proof. apply hasPrefix_iff. eauto. Qed.

Lemma index_unfold s pat :
  index s pat = if hasPrefix s pat then Some O
                else match s with
                     | [] => None
                     | _ :: r => match index r pat with Some n => Some (S n) | None => None end
                     end.
Proof. destruct s; reflexivity. Qed.

Lemma index_Some s pat n : index s pat = Some n ->
  exists x y, s = x ++ pat ++ y /\ length x = n /\
              (forall x1 y1, s = x1 ++ pat ++ y1 -> (n <= length x1)%nat).
Proof.
  revert n; induction s as [|c s IH]; intros n; rewrite index_unfold.
  - destruct (hasPrefix [] pat) eqn:E; [|discriminate].
    intros [= <-]. apply hasPrefix_iff in E as [y E]. exists [], y. repeat split; auto. intros; lia.
  - destruct (hasPrefix (c :: s) pat) eqn:E.
    + intros [= <-]. apply hasPrefix_iff in E as [y E]. exists [], y. repeat split; auto. intros; lia.
    + destruct (index s pat) as [m|] eqn:Em; [|discriminate]. intros [= <-].
      destruct (IH m eq_refl) as (x & y & -> & L & Hmin).
      exists (c :: x), y. repeat split; cbn; auto.
      intros [|c1 x1] y1 H1; cbn in H1.
      * exfalso. assert (hasPrefix (c :: x ++ pat ++ y) pat = true) by (apply hasPrefix_iff; eauto). congruence.
      * injection H1 as -> H1. apply Hmin in H1. cbn. lia.
Qed.

Lemma index_None s pat : index s pat = None -> ~ occurs pat s.
Proof.
  induction s as [|c s IH]; rewrite index_unfold.
  - destruct (hasPrefix [] pat) eqn:E; [discriminate|]. intros _ (x & y & H).
    destruct x; cbn in H; [|discriminate].
    assert (hasPrefix [] pat = true) by (apply hasPrefix_iff; eauto). congruence.
  - destruct (hasPrefix (c :: s) pat) eqn:E; [discriminate|].
    destruct (index s pat) eqn:Em; [discriminate|]. intros _ (x & y & H).
    destruct x as [|c1 x]; cbn in H.
    + assert (hasPrefix (c :: s) pat = true) by (apply hasPrefix_iff; eauto). congruence.
    + injection H as -> H. apply IH; [reflexivity|]. exists x, y. exact H.
Qed.

Lemma index_None_of s pat : ~ occurs pat s -> index s pat = None.
Proof.
  intros H. destruct (index s pat) eqn:E; [|reflexivity].
  apply index_Some in E as (x & y & -> & _). exfalso. apply H. exists x, y. reflexivity.
Qed.

Lemma indexByte_None s c : indexByte s c = None -> ~ In c s.
Proof.
  induction s as [|x s IH]; cbn; [tauto|].
  destruct (x =? c) eqn:E; [discriminate|]. destruct (indexByte s c); [discriminate|].
  intros _ [H|H]; [apply N.eqb_neq in E; congruence|]. now apply IH.
Qed.

Lemma indexByte_Some s c n : indexByte s c = Some n ->
  exists x y, s = x ++ c :: y /\ length x = n /\ ~ In c x.
Proof.
  revert n; induction s as [|a s IH]; cbn; intros n; [discriminate|].
  destruct (a =? c) eqn:E.
  - intros [= <-]. apply N.eqb_eq in E as ->. exists [], s. repeat split; auto.
  - destruct (indexByte s c) as [m|]; [|discriminate]. intros [= <-].
    destruct (IH m eq_refl) as (x & y & -> & L & NI). exists (a :: x), y. repeat split; cbn; auto.
    intros [H|H]; [apply N.eqb_neq in E; congruence|auto].
Qed.

Lemma lastIndexByte_None s c : lastIndexByte s c = None -> ~ In c s.
Proof.
  induction s as [|x s IH]; cbn; [tauto|].
  destruct (lastIndexByte s c); [discriminate|]. destruct (x =? c) eqn:E; [discriminate|].
  intros _ [H|H]; [apply N.eqb_neq in E; congruence|]. now apply IH.
Qed.

Lemma lastIndexByte_Some s c k : lastIndexByte s c = Some k ->
  exists x t, s = x ++ c :: t /\ length x = k /\ ~ In c t.
Proof.
  revert k; induction s as [|a s IH]; cbn; intros k; [discriminate|].
  destruct (lastIndexByte s c) as [m|] eqn:Em.
  - intros [= <-]. destruct (IH m eq_refl) as (x & t & -> & L & NI).
    exists (a :: x), t. repeat split; cbn; auto.
  - destruct (a =? c) eqn:E; [|discriminate]. intros [= <-]. apply N.eqb_eq in E as ->.
    exists [], s. repeat split; auto. now apply lastIndexByte_None.
Qed.

Lemma lastIndex_None s pat : lastIndex s pat = None -> ~ occurs pat s.
Proof.
  induction s as [|c s IH]; cbn [lastIndex].
  - destruct (hasPrefix [] pat) eqn:E; [discriminate|]. intros _ (x & y & H).
    destruct x; cbn in H; [|discriminate].
    assert (hasPrefix [] pat = true) by (apply hasPrefix_iff; eauto). congruence.
  - destruct (lastIndex s pat) eqn:Em; [discriminate|].
    destruct (hasPrefix (c :: s) pat) eqn:E; [discriminate|]. intros _ (x & y & H).
    destruct x as [|c1 x]; cbn in H.
    + assert (hasPrefix (c :: s) pat = true) by (apply hasPrefix_iff; eauto). congruence.
    + injection H as -> H. apply IH; [reflexivity|]. exists x, y. exact H.
Qed.

Lemma lastIndex_Some s pat n : lastIndex s pat = Some n ->
  exists x y, s = x ++ pat ++ y /\ length x = n /\
              (forall x1 y1, s = x1 ++ pat ++ y1 -> (length x1 <= n)%nat).
Proof.
  revert n; induction s as [|c s IH]; intros n; cbn [lastIndex].
  - destruct (hasPrefix [] pat) eqn:E; [|discriminate].
    intros [= <-]. apply hasPrefix_iff in E as [y E]. exists [], y. repeat split; auto.
    intros [|a x1] y1 H; cbn in *; [lia|discriminate].
  - destruct (lastIndex s pat) as [m|] eqn:Em.
    + intros [= <-]. destruct (IH m eq_refl) as (x & y & -> & L & Hmax).
      exists (c :: x), y. repeat split; cbn; auto.
      intros [|c1 x1] y1 H1; cbn in *; [lia|]. injection H1 as -> H1. apply Hmax in H1. lia.
    + destruct (hasPrefix (c :: s) pat) eqn:E; [|discriminate]. intros [= <-].
      apply hasPrefix_iff in E as [y E]. exists [], y. repeat split; auto.
      intros [|c1 x1] y1 H1; cbn in *; [lia|]. exfalso. injection H1 as -> H1.
      apply lastIndex_None in Em. apply Em. exists x1, y1. exact H1.
Qed.

Lemma hasSuffix_iff s pat : hasSuffix s pat = true <-> ends_with pat s.
Proof.
  unfold hasSuffix, ends_with. rewrite andb_true_iff, Nat.leb_le, beq_eq. split.
  - intros [L E]. exists (firstn (length s - length pat) s).
    rewrite <- E at 2. symmetry. apply firstn_skipn.
  - intros [x ->]. rewrite app_length. split; [lia|].
    replace (length x + length pat - length pat)%nat with (length x) by lia.
    apply skipn_len_app0.
Qed.


(* ================= segments ================= *)
Definition wfp (b : bytes) : Prop := exists r, b = SLASH :: r.
Definition lead (x : bytes) : Prop := x = [] \/ wfp x.
(* segments of a path (or of a prefix of a path that ends just before a '/') *)
Definition psegs (b : bytes) : list bytes := match b with [] => [] | _ :: r => split_segs r end.

Lemma split_ne s : split_segs s <> [].
Proof.
  induction s as [|c s IH]; cbn; [discriminate|].
  destruct (c =? SLASH); [discriminate|]. destruct (split_segs s); discriminate.
Qed.

Lemma split_app a b : split_segs (a ++ SLASH :: b) = split_segs a ++ split_segs b.
Proof.
  induction a as [|c a IH]; cbn; [reflexivity|].
  destruct (c =? SLASH); [now rewrite IH|]. rewrite IH.
  destruct (split_segs a) eqn:E; [now apply split_ne in E|]. reflexivity.
Qed.

Lemma split_noslash s : ~ In SLASH s -> split_segs s = [s].
Proof.
  induction s as [|c s IH]; cbn; intros H; [reflexivity|].
  destruct (c =? SLASH) eqn:E; [apply N.eqb_eq in E; subst; tauto|].
  rewrite IH by tauto. reflexivity.
Qed.

Lemma join_app l1 l2 : join_segs (l1 ++ l2) = join_segs l1 ++ join_segs l2.
Proof. apply flat_map_app. Qed.

Lemma join_split r : join_segs (split_segs r) = SLASH :: r.
Proof.
  induction r as [|c r IH]; cbn; [reflexivity|].
  destruct (c =? SLASH) eqn:E.
  - apply N.eqb_eq in E as ->. cbn. fold (join_segs (split_segs r)). now rewrite IH.
  - destruct (split_segs r) as [|hd tl] eqn:Es; [now apply split_ne in Es|].
    cbn in *. injection IH as IH. now rewrite IH.
Qed.

Lemma join_psegs b : wfp b -> join_segs (psegs b) = b.
Proof. intros [r ->]. apply join_split. Qed.

Lemma psegs_ne b : wfp b -> psegs b <> [].
Proof. intros [r ->]. apply split_ne. Qed.

Lemma lead_of_prefix r x z : SLASH :: r = x ++ z -> lead x.
Proof. destruct x as [|c x]; cbn; [now left|]. intros [= <- _]. right. now exists x. Qed.

Lemma psegs_app x z : lead x -> psegs (x ++ SLASH :: z) = psegs x ++ split_segs z.
Proof. intros [->|[x' ->]]; cbn; [reflexivity|]. apply split_app. Qed.

Lemma wfp_app x z : lead x -> wfp (x ++ SLASH :: z).
Proof. intros [->|[x' ->]]; cbn; eexists; reflexivity. Qed.

Lemma lead_noslash x : lead x -> ~ In SLASH x -> x = [].
Proof. intros [->|[x' ->]] H; [reflexivity|]. exfalso. apply H. now left. Qed.

Lemma lead_app_l x1 z : lead (x1 ++ z) -> z <> [] -> lead x1.
Proof.
  intros [H|[r H]] Hz; [apply app_eq_nil in H as [_ H]; contradiction|].
  destruct x1; [now left|]. injection H as -> _. right. eexists; reflexivity.
Qed.

(* a non-last segment s shows up as "/s/" in the string *)
Lemma in_init_occurs b s : wfp b -> In s (removelast (psegs b)) -> occurs (SLASH :: s ++ [SLASH]) b.
Proof.
  intros Hb Hin. rewrite <- (join_psegs b Hb).
  apply in_split in Hin as (l1 & l2 & E).
  assert (Hl : psegs b = l1 ++ s :: l2 ++ [last (psegs b) []]).
  { etransitivity; [exact (app_removelast_last [] (psegs_ne b Hb))|]. transitivity ((l1 ++ s :: l2) ++ [last (psegs b) []]); [f_equal; exact E|now rewrite <- app_assoc]. }
  rewrite Hl, join_app. cbn.
  exists (join_segs l1). rewrite join_app. cbn.
  destruct l2 as [|t l2]; cbn; eexists; rewrite <- (app_assoc s [SLASH]); cbn; reflexivity.
Qed.

(* the last segment s shows up as a trailing "/s" *)
Lemma last_ends b : wfp b -> ends_with (SLASH :: last (psegs b) []) b.
Proof.
  intros Hb. exists (join_segs (removelast (psegs b))).
  etransitivity; [symmetry; exact (join_psegs b Hb)|].
  etransitivity; [exact (f_equal join_segs (app_removelast_last [] (psegs_ne b Hb)))|].
  rewrite join_app. cbn. now rewrite app_nil_r.
Qed.

(* converse directions, on strings *)
Lemma occurs_in_init b s y x : wfp b -> ~ In SLASH s -> b = x ++ SLASH :: s ++ SLASH :: y ->
  exists l1 , psegs b = l1 ++ s :: split_segs y /\ l1 = psegs x.
Proof.
  intros [r Hb] Hs E. subst b. pose proof (lead_of_prefix _ _ _ E) as Hx. rewrite E.
  rewrite psegs_app by exact Hx. rewrite split_app, split_noslash by exact Hs. cbn. eauto.
Qed.

Lemma bytes_of_seg s r : In s (split_segs r) -> incl s r.
Proof.
  revert s; induction r as [|c r IH]; cbn; intros s.
  - intros [<-|[]]. apply incl_nil_l.
  - destruct (c =? SLASH).
    + intros [<-|H]; [apply incl_nil_l|]. apply incl_tl. now apply IH.
    + destruct (split_segs r) as [|hd tl] eqn:E; [now apply split_ne in E|].
      intros [<-|H].
      * apply incl_cons; [now left|]. apply incl_tl. apply IH. now left.
      * apply incl_tl. apply IH. now right.
Qed.


(* ================= what one step of each pass does to the segment list ================= *)

Lemma split_dot_sl y : split_segs (DOT :: SLASH :: y) = sDot :: split_segs y.
Proof. change (DOT :: SLASH :: y) with ([DOT] ++ SLASH :: y). rewrite split_app. reflexivity. Qed.

Lemma split_dotdot_sl y : split_segs (DOT :: DOT :: SLASH :: y) = sDotDot :: split_segs y.
Proof. change (DOT :: DOT :: SLASH :: y) with ([DOT; DOT] ++ SLASH :: y). rewrite split_app. reflexivity. Qed.

Lemma firstn_len_app_S {A} (x : list A) c y : firstn (length x + 1) (x ++ c :: y) = x ++ [c].
Proof. induction x as [|a x IH]; cbn; [reflexivity|]. now rewrite IH. Qed.

(* remove /./ parts: one iteration *)
Lemma step_dot b n : wfp b -> index b strSlashDotSlash = Some n ->
  let b' := firstn n b ++ skipn (n + length strSlashDotSlash - 1) b in
  exists l1 l2, psegs b = l1 ++ sDot :: l2 /\ l2 <> [] /\ psegs b' = l1 ++ l2 /\ wfp b' /\
                (length b' < length b)%nat.
Proof.
  intros [r Hb] Hi. apply index_Some in Hi as (x & y & E & L & _). subst n.
  change (strSlashDotSlash ++ y) with (SLASH :: DOT :: SLASH :: y) in E.
  assert (Hx : lead x) by (subst b; eapply lead_of_prefix; eauto).
  cbv zeta. rewrite E. rewrite firstn_len_app.
  replace (length x + length strSlashDotSlash - 1)%nat with (length x + 2)%nat by (cbn; lia).
  rewrite skipn_len_app. cbn [skipn].
  exists (psegs x), (split_segs y). repeat split.
  - rewrite psegs_app by exact Hx. now rewrite split_dot_sl.
  - apply split_ne.
  - now apply psegs_app.
  - now apply wfp_app.
  - rewrite !app_length. cbn. lia.
Qed.

(* remove trailing /. *)
Lemma step_trailingDot b : wfp b ->
  wfp (trailingDot b) /\
  ((exists i, psegs b = i ++ [sDot] /\ psegs (trailingDot b) = i ++ [[]]) \/
   (trailingDot b = b /\ last (psegs b) [] <> sDot)).
Proof.
  intros Hb. unfold trailingDot. destruct (hasSuffix b strSlashDot) eqn:E.
  - apply hasSuffix_iff in E as [x E].
    change strSlashDot with [SLASH; DOT] in E.
    assert (Hx : lead x) by (destruct Hb as [r Hb]; rewrite Hb in E; eapply lead_of_prefix; eauto).
    rewrite E. rewrite app_length. cbn [length].
    replace (length x + 2 - 1)%nat with (length (x ++ [SLASH])) by (rewrite app_length; cbn; lia).
    change (x ++ [SLASH; DOT]) with (x ++ [SLASH] ++ [DOT]). rewrite app_assoc, firstn_len_app.
    split; [now apply wfp_app|]. left. exists (psegs x). split.
    + rewrite <- app_assoc. cbn. now rewrite psegs_app.
    + now rewrite psegs_app.
  - split; [exact Hb|]. right. split; [reflexivity|]. intros Hl.
    pose proof (last_ends b Hb) as He. rewrite Hl in He.
    apply hasSuffix_iff in He. change (SLASH :: sDot) with strSlashDot in He. congruence.
Qed.

(* remove /foo/../ parts: one iteration *)
Lemma step_dotdot b n : wfp b -> index b strSlashDotDotSlash = Some n ->
  let nn := match lastIndexByte (firstn n b) SLASH with Some k => k | None => O end in
  let b' := firstn nn b ++ skipn (n + length strSlashDotDotSlash - 1) b in
  wfp b' /\ (length b' < length b)%nat /\
  ((exists l2, psegs b = sDotDot :: l2 /\ l2 <> [] /\ psegs b' = l2) \/
   (exists l1 t l2, psegs b = l1 ++ t :: sDotDot :: l2 /\ l2 <> [] /\ psegs b' = l1 ++ l2 /\ t <> sDotDot)).
Proof.
  intros [r Hb] Hi. apply index_Some in Hi as (x & y & E & L & Hmin). subst n.
  change (strSlashDotDotSlash ++ y) with (SLASH :: DOT :: DOT :: SLASH :: y) in E.
  assert (Hx : lead x) by (subst b; eapply lead_of_prefix; eauto).
  assert (Hf : firstn (length x) b = x) by (rewrite E; apply firstn_len_app).
  assert (Hs : skipn (length x + length strSlashDotDotSlash - 1) b = SLASH :: y).
  { replace (length x + length strSlashDotDotSlash - 1)%nat with (length x + 3)%nat by (cbn; lia).
    rewrite E, skipn_len_app. reflexivity. }
  cbv zeta. rewrite Hf, Hs.
  destruct (lastIndexByte x SLASH) as [k|] eqn:Ek.
  - apply lastIndexByte_Some in Ek as (x1 & t & Ex & Lk & Ht). subst k.
    assert (Hx1 : lead x1) by (rewrite Ex in Hx; eapply lead_app_l; eauto; discriminate).
    assert (Hf1 : firstn (length x1) b = x1) by (rewrite E, Ex, <- app_assoc; apply firstn_len_app).
    rewrite Hf1. repeat split.
    + now apply wfp_app.
    + rewrite E, Ex. repeat (rewrite app_length; cbn [length]). lia.
    + right. exists (psegs x1), t, (split_segs y). repeat split.
      * rewrite E. rewrite psegs_app by exact Hx. rewrite Ex.
        rewrite psegs_app by exact Hx1. rewrite split_noslash by exact Ht.
        rewrite split_dotdot_sl. now rewrite <- app_assoc.
      * apply split_ne.
      * now apply psegs_app.
      * intros ->.
        specialize (Hmin x1 (DOT :: DOT :: SLASH :: y)).
        rewrite Ex, app_length in Hmin. cbn in Hmin.
        assert (length x1 + 3 <= length x1)%nat; [|lia].
        apply Hmin. rewrite E, Ex, <- app_assoc. reflexivity.
  - apply lastIndexByte_None in Ek. apply lead_noslash in Ek; [|exact Hx]. subst x. cbn [firstn app length].
    repeat split.
    + eexists; reflexivity.
    + rewrite E. cbn. lia.
    + left. exists (split_segs y). repeat split.
      * rewrite E. cbn [app psegs]. apply split_dotdot_sl.
      * apply split_ne.
Qed.

(* remove trailing /foo/.. *)
Lemma step_trailingDotDot b : wfp b ->
  wfp (trailingDotDot b) /\
  ((psegs b = [sDotDot] /\ psegs (trailingDotDot b) = [[]]) \/
   (exists i t, psegs b = i ++ [t; sDotDot] /\ psegs (trailingDotDot b) = i ++ [[]]) \/
   (trailingDotDot b = b /\ last (psegs b) [] <> sDotDot)).
Proof.
  intros Hb. unfold trailingDotDot.
  assert (Hno : ~ ends_with strSlashDotDot b -> last (psegs b) [] <> sDotDot).
  { intros Hn Hl. apply Hn. pose proof (last_ends b Hb) as He. now rewrite Hl in He. }
  destruct (lastIndex b strSlashDotDot) as [n|] eqn:En.
  - apply lastIndex_Some in En as (x & y & E & L & Hmax). subst n.
    destruct (Nat.eqb (length x + length strSlashDotDot) (length b)) eqn:El.
    + apply Nat.eqb_eq in El. rewrite E in El. rewrite !app_length in El.
      assert (y = []) by (destruct y; [reflexivity|cbn in El; lia]). subst y.
      change (strSlashDotDot ++ []) with [SLASH; DOT; DOT] in E.
      assert (Hx : lead x) by (destruct Hb as [r Hb]; rewrite Hb in E; eapply lead_of_prefix; eauto).
      assert (Hf : firstn (length x) b = x) by (rewrite E; apply firstn_len_app).
      rewrite Hf.
      destruct (lastIndexByte x SLASH) as [k|] eqn:Ek.
      * apply lastIndexByte_Some in Ek as (x1 & t & Ex & Lk & Ht). subst k.
        assert (Hx1 : lead x1) by (rewrite Ex in Hx; eapply lead_app_l; eauto; discriminate).
        assert (Hf1 : firstn (length x1 + 1) b = x1 ++ [SLASH]).
        { rewrite E, Ex, <- app_assoc. cbn [app]. apply firstn_len_app_S. }
        rewrite Hf1.
        split; [now apply wfp_app|]. right; left. exists (psegs x1), t. split.
        -- rewrite E, Ex, <- app_assoc. cbn [app]. rewrite psegs_app by exact Hx1.
           rewrite split_app, split_noslash by exact Ht. reflexivity.
        -- now apply psegs_app.
      * apply lastIndexByte_None in Ek. apply lead_noslash in Ek; [|exact Hx]. subst x.
        split; [eexists; reflexivity|]. left. rewrite E. split; reflexivity.
    + split; [exact Hb|]. right; right. split; [reflexivity|]. apply Hno. intros [x2 E2].
      apply Nat.eqb_neq in El. apply El.
      specialize (Hmax x2 []). rewrite app_nil_r in Hmax. specialize (Hmax E2).
      assert (length b = length x + length strSlashDotDot + length y)%nat
        by (rewrite E, !app_length; lia).
      assert (length b = length x2 + length strSlashDotDot)%nat by (rewrite E2, app_length; lia).
      lia.
  - split; [exact Hb|]. right; right. split; [reflexivity|]. apply Hno. intros [x2 E2].
    apply lastIndex_None in En. apply En. exists x2, []. now rewrite app_nil_r.
Qed.

(* exits of the loops *)
Lemma exit_dot b : wfp b -> index b strSlashDotSlash = None -> ~ In sDot (removelast (psegs b)).
Proof. intros Hb Hi Hin. apply index_None in Hi. apply Hi. now apply (in_init_occurs b sDot). Qed.

Lemma exit_dotdot b : wfp b -> index b strSlashDotDotSlash = None -> ~ In sDotDot (removelast (psegs b)).
Proof. intros Hb Hi Hin. apply index_None in Hi. apply Hi. now apply (in_init_occurs b sDotDot). Qed.


(* ================= remove_dot_segments on segment lists ================= *)
Definition cleanP (s : bytes) : Prop := clean_seg s = true.

Lemma cleanP_iff s : cleanP s <-> s <> sDot /\ s <> sDotDot.
Proof.
  unfold cleanP, clean_seg, is_dot, is_dotdot. rewrite andb_true_iff, !negb_true_iff.
  split; intros [H1 H2]; split.
  - intros ->. now rewrite beq_refl in H1.
  - intros ->. now rewrite beq_refl in H2.
  - destruct (beq s sDot) eqn:E; [apply beq_eq in E; contradiction|reflexivity].
  - destruct (beq s sDotDot) eqn:E; [apply beq_eq in E; contradiction|reflexivity].
Qed.

Lemma is_dot_false s : s <> sDot -> is_dot s = false.
Proof. intros H. unfold is_dot. destruct (beq s sDot) eqn:E; [apply beq_eq in E; contradiction|reflexivity]. Qed.
Lemma is_dotdot_false s : s <> sDotDot -> is_dotdot s = false.
Proof. intros H. unfold is_dotdot. destruct (beq s sDotDot) eqn:E; [apply beq_eq in E; contradiction|reflexivity]. Qed.

Lemma rds_cons_ne out s rest : rest <> [] ->
  rds_segs out (s :: rest) =
  if is_dot s then rds_segs out rest
  else if is_dotdot s then rds_segs (removelast out) rest
  else rds_segs (out ++ [s]) rest.
Proof. intros H. destruct rest; [contradiction|reflexivity]. Qed.

Lemma app_ne_r {A} (l1 l2 : list A) : l2 <> [] -> l1 ++ l2 <> [].
Proof. intros H E. apply app_eq_nil in E as [_ E]. contradiction. Qed.

Lemma rds_skip_dot out l1 l2 : l2 <> [] ->
  rds_segs out (l1 ++ sDot :: l2) = rds_segs out (l1 ++ l2).
Proof.
  intros H. revert out; induction l1 as [|s l1 IH]; intros out.
  - cbn [app]. rewrite rds_cons_ne by exact H. reflexivity.
  - cbn [app]. rewrite !rds_cons_ne by (apply app_ne_r; (exact H || discriminate)).
    destruct (is_dot s); [apply IH|]. destruct (is_dotdot s); apply IH.
Qed.

Lemma rds_trailing_dot out i : rds_segs out (i ++ [sDot]) = rds_segs out (i ++ [[]]).
Proof.
  revert out; induction i as [|s i IH]; intros out; [reflexivity|].
  cbn [app]. rewrite !rds_cons_ne by (apply app_ne_r; discriminate).
  destruct (is_dot s); [apply IH|]. destruct (is_dotdot s); apply IH.
Qed.

Lemma rds_pop out l1 t l2 : l2 <> [] -> t <> sDot -> t <> sDotDot ->
  rds_segs out (l1 ++ t :: sDotDot :: l2) = rds_segs out (l1 ++ l2).
Proof.
  intros H Ht1 Ht2. revert out; induction l1 as [|s l1 IH]; intros out.
  - cbn [app]. rewrite rds_cons_ne by discriminate.
    rewrite is_dot_false, is_dotdot_false by assumption.
    rewrite rds_cons_ne by exact H. change (is_dot sDotDot) with false. change (is_dotdot sDotDot) with true.
    cbv iota. now rewrite removelast_snoc.
  - cbn [app]. rewrite !rds_cons_ne by (apply app_ne_r; (exact H || discriminate)).
    destruct (is_dot s); [apply IH|]. destruct (is_dotdot s); apply IH.
Qed.

Lemma rds_root_dotdot l2 : l2 <> [] -> rds_segs [] (sDotDot :: l2) = rds_segs [] l2.
Proof. intros H. rewrite rds_cons_ne by exact H. reflexivity. Qed.

Lemma rds_clean_prefix out c rest : Forall cleanP c -> rds_segs out (c ++ rest) = rds_segs (out ++ c) rest.
Proof.
  intros H. revert out; induction H as [|s c Hs Hc IH]; intros out; [now rewrite app_nil_r|].
  apply cleanP_iff in Hs as [H1 H2]. cbn [app rds_segs].
  rewrite is_dot_false, is_dotdot_false by assumption. rewrite IH, <- app_assoc. reflexivity.
Qed.

Lemma rds_clean out l : Forall cleanP l -> rds_segs out l = out ++ l.
Proof. intros H. rewrite <- (app_nil_r l) at 1. now rewrite rds_clean_prefix. Qed.

Lemma rds_trailing_dotdot i t : Forall cleanP i -> cleanP t -> rds_segs [] (i ++ [t; sDotDot]) = i ++ [[]].
Proof.
  intros Hi Ht. change (i ++ [t; sDotDot]) with (i ++ [t] ++ [sDotDot]). rewrite app_assoc.
  rewrite rds_clean_prefix by (apply Forall_app; split; [exact Hi|now constructor]).
  cbn. now rewrite removelast_snoc.
Qed.

(* ---- what the loop iterations preserve ---- *)
Definition Pres (l l' : list bytes) : Prop :=
  rds_segs [] l' = rds_segs [] l /\ incl (removelast l') (removelast l) /\ last l' [] = last l [] /\ l' <> [].

Lemma Pres_refl l : l <> [] -> Pres l l.
Proof. intros H. repeat split; auto. apply incl_refl. Qed.

Lemma Pres_trans l1 l2 l3 : Pres l1 l2 -> Pres l2 l3 -> Pres l1 l3.
Proof.
  intros (A1 & B1 & C1 & D1) (A2 & B2 & C2 & D2). repeat split; auto.
  - congruence.
  - eapply incl_tran; eauto.
  - congruence.
Qed.

Lemma last_cons_ne {A} (a : A) l d : l <> [] -> last (a :: l) d = last l d.
Proof. destruct l; [contradiction|reflexivity]. Qed.

Lemma Pres_skip l1 s l2 : l2 <> [] -> rds_segs [] (l1 ++ s :: l2) = rds_segs [] (l1 ++ l2) ->
  Pres (l1 ++ s :: l2) (l1 ++ l2).
Proof.
  intros H R. repeat split.
  - now symmetry.
  - rewrite !removelast_app by (exact H || discriminate).
    apply incl_app; [apply incl_appl, incl_refl|]. apply incl_appr.
    destruct l2; [contradiction|]. cbn [removelast]. apply incl_tl, incl_refl.
  - rewrite !last_app_ne by (exact H || discriminate). now rewrite last_cons_ne.
  - now apply app_ne_r.
Qed.

Lemma Pres_skip2 l1 s t l2 : l2 <> [] -> rds_segs [] (l1 ++ s :: t :: l2) = rds_segs [] (l1 ++ l2) ->
  Pres (l1 ++ s :: t :: l2) (l1 ++ l2).
Proof.
  intros H R. repeat split.
  - now symmetry.
  - rewrite !removelast_app by (exact H || discriminate).
    apply incl_app; [apply incl_appl, incl_refl|]. apply incl_appr.
    destruct l2; [contradiction|]. cbn [removelast]. apply incl_tl, incl_tl, incl_refl.
  - rewrite !last_app_ne by (exact H || discriminate). rewrite !last_cons_ne by (exact H || discriminate). reflexivity.
  - now apply app_ne_r.
Qed.

(* ---- the two loops ---- *)
Lemma dotLoop_ok fuel : forall b, (length b < fuel)%nat -> wfp b ->
  exists b', dotLoop fuel b = Some b' /\ wfp b' /\ Pres (psegs b) (psegs b') /\
             ~ In sDot (removelast (psegs b')).
Proof.
  induction fuel as [|f IH]; intros b Hl Hb; [lia|]. cbn [dotLoop].
  destruct (index b strSlashDotSlash) as [n|] eqn:En.
  - destruct (step_dot b n Hb En) as (l1 & l2 & E1 & Hne & E2 & Hb' & Hlen). cbv zeta in *.
    set (b1 := firstn n b ++ skipn (n + length strSlashDotSlash - 1) b) in *.
    destruct (IH b1 ltac:(lia) Hb') as (b' & Hrun & Hw & HP & Hex).
    exists b'. split; [exact Hrun|]. split; [exact Hw|]. split; [|exact Hex].
    eapply Pres_trans; [|exact HP]. rewrite E1, E2. apply Pres_skip; [exact Hne|].
    now apply rds_skip_dot.
  - exists b. split; [reflexivity|]. split; [exact Hb|]. split.
    + apply Pres_refl. now apply psegs_ne.
    + now apply exit_dot.
Qed.

Lemma dotDotLoop_ok fuel : forall b, (length b < fuel)%nat -> wfp b ->
  ~ In sDot (removelast (psegs b)) ->
  exists b', dotDotLoop fuel b = Some b' /\ wfp b' /\ Pres (psegs b) (psegs b') /\
             ~ In sDotDot (removelast (psegs b')).
Proof.
  induction fuel as [|f IH]; intros b Hl Hb Hnd; [lia|]. cbn [dotDotLoop].
  destruct (index b strSlashDotDotSlash) as [n|] eqn:En.
  - destruct (step_dotdot b n Hb En) as (Hb' & Hlen & Hcases). cbv zeta in *.
    set (b1 := firstn match lastIndexByte (firstn n b) SLASH with Some k => k | None => 0%nat end b ++
               skipn (n + length strSlashDotDotSlash - 1) b) in *.
    assert (HP1 : Pres (psegs b) (psegs b1)).
    { destruct Hcases as [(l2 & E1 & Hne & E2)|(l1 & t & l2 & E1 & Hne & E2 & Ht)].
      - rewrite E1, E2. apply (Pres_skip [] sDotDot l2 Hne). now apply rds_root_dotdot.
      - rewrite E1, E2. apply Pres_skip2; [exact Hne|]. apply rds_pop; auto.
        intros ->. apply Hnd. rewrite E1. rewrite removelast_app by discriminate.
        apply in_or_app. right. now left. }
    destruct (IH b1 ltac:(lia) Hb') as (b' & Hrun & Hw & HP & Hex).
    { intros Hin. apply Hnd. destruct HP1 as (_ & Hincl & _). now apply Hincl. }
    exists b'. split; [exact Hrun|]. split; [exact Hw|]. split; [|exact Hex]. eapply Pres_trans; eauto.
  - exists b. split; [reflexivity|]. split; [exact Hb|]. split.
    + apply Pres_refl. now apply psegs_ne.
    + now apply exit_dotdot.
Qed.


(* ================= the duplicate-slash loop is collapse_slashes ================= *)
Lemma collapse_cons2 a b r :
  collapse_slashes (a :: b :: r) =
  if (a =? SLASH) && (b =? SLASH) then collapse_slashes (b :: r) else a :: collapse_slashes (b :: r).
Proof. reflexivity. Qed.

Lemma hasPrefix_slsl s : hasPrefix s strSlashSlash =
  match s with a :: b :: _ => (a =? SLASH) && (b =? SLASH) | _ => false end.
Proof.
  destruct s as [|a [|b r]]; cbn; try reflexivity.
  - now rewrite andb_false_r.
  - destruct r; cbn; now rewrite andb_true_r.
Qed.

Lemma index_slsl_collapse s n : index s strSlashSlash = Some n ->
  collapse_slashes s = firstn n s ++ collapse_slashes (tl (skipn n s)) /\ (n < length s)%nat.
Proof.
  revert n; induction s as [|a s IH]; intros n; rewrite index_unfold, hasPrefix_slsl.
  - discriminate.
  - destruct s as [|b r].
    + cbn. discriminate.
    + destruct ((a =? SLASH) && (b =? SLASH)) eqn:E.
      * intros [= <-]. rewrite collapse_cons2, E. cbn. split; [reflexivity|lia].
      * destruct (index (b :: r) strSlashSlash) as [m|] eqn:Em; [|discriminate]. intros [= <-].
        destruct (IH m eq_refl) as [IH1 IH2].
        rewrite collapse_cons2, E. cbn [firstn skipn app]. rewrite IH1. split; [reflexivity|cbn in *; lia].
Qed.

Lemma index_slsl_none s : index s strSlashSlash = None -> collapse_slashes s = s.
Proof.
  induction s as [|a s IH]; rewrite index_unfold, hasPrefix_slsl; [reflexivity|].
  destruct s as [|b r]; [reflexivity|].
  destruct ((a =? SLASH) && (b =? SLASH)) eqn:E; [discriminate|].
  destruct (index (b :: r) strSlashSlash) eqn:Em; [discriminate|]. intros _.
  rewrite collapse_cons2, E. now rewrite IH.
Qed.

Lemma slashLoop_ok fuel : forall pre b, (length b < fuel)%nat ->
  slashLoop fuel pre b = Some (pre ++ collapse_slashes b).
Proof.
  induction fuel as [|f IH]; intros pre b Hl; [lia|]. cbn [slashLoop].
  destruct (index b strSlashSlash) as [n|] eqn:En.
  - destruct (index_slsl_collapse b n En) as [E Hn]. rewrite IH.
    + now rewrite E, app_assoc.
    + assert (length (skipn n b) = length b - n)%nat by apply skipn_length.
      destruct (skipn n b); cbn in *; lia.
  - now rewrite index_slsl_none.
Qed.

Lemma collapse_hd c r : exists r', collapse_slashes (c :: r) = c :: r'.
Proof.
  revert c; induction r as [|b r IH]; intros c; [eexists; reflexivity|].
  rewrite collapse_cons2. destruct ((c =? SLASH) && (b =? SLASH)) eqn:E; [|eexists; reflexivity].
  apply andb_true_iff in E as [E1 E2]. apply N.eqb_eq in E1, E2. subst. apply IH.
Qed.

Lemma collapse_wfp d : wfp d -> wfp (collapse_slashes d).
Proof. intros [r ->]. apply collapse_hd. Qed.

Lemma collapse_no_slsl d : index (collapse_slashes d) strSlashSlash = None.
Proof.
  induction d as [|a d IH]; [reflexivity|].
  destruct d as [|b r]; [cbn [collapse_slashes]; rewrite index_unfold, hasPrefix_slsl; reflexivity|].
  rewrite collapse_cons2. destruct ((a =? SLASH) && (b =? SLASH)) eqn:E; [exact IH|].
  rewrite index_unfold, hasPrefix_slsl. destruct (collapse_hd b r) as [r' Er]. rewrite Er in *.
  rewrite E. now rewrite IH.
Qed.

Lemma collapse_no_empty d : wfp d -> ~ In [] (removelast (psegs (collapse_slashes d))).
Proof.
  intros Hd Hin. apply (in_init_occurs _ _ (collapse_wfp d Hd)) in Hin.
  apply (index_None _ _ (collapse_no_slsl d)). exact Hin.
Qed.

Lemma collapse_id p : ~ occurs sSlSl p -> collapse_slashes p = p.
Proof. intros H. apply index_slsl_none. now apply index_None_of. Qed.

(* ================= assembling norm_tail ================= *)
Definition Good (l : list bytes) : Prop := l <> [] /\ Forall cleanP l /\ ~ In [] (removelast l).

Lemma Forall_init_last {A} (P : A -> Prop) (l : list A) d : l <> [] ->
  Forall P (removelast l) -> P (last l d) -> Forall P l.
Proof.
  intros Hne Hi Hl. rewrite (app_removelast_last d Hne). apply Forall_app. split; [exact Hi|]. now constructor.
Qed.

Theorem norm_tail_ok d : wfp d ->
  exists b, norm_tail d = Some b /\ wfp b /\ Good (psegs b) /\
            psegs b = rds_segs [] (psegs (collapse_slashes d)).
Proof.
  intros Hd. unfold norm_tail. rewrite slashLoop_ok by lia. cbn [app].
  set (b0 := collapse_slashes d).
  assert (H0 : wfp b0) by now apply collapse_wfp.
  assert (N0 : ~ In [] (removelast (psegs b0))) by now apply collapse_no_empty.
  destruct (indexByte b0 DOT) eqn:Ed.
  2: { (* no dot *)
    apply indexByte_None in Ed.
    assert (Hc : Forall cleanP (psegs b0)).
    { apply Forall_forall. intros s Hs. destruct H0 as [r Hr]. rewrite Hr in Hs, Ed. cbn in Hs.
      apply bytes_of_seg in Hs. apply cleanP_iff. split; intros ->; apply Ed; right; apply Hs; now left. }
    exists b0. split; [reflexivity|]. split; [exact H0|]. split.
    - split; [now apply psegs_ne|]. split; assumption.
    - now rewrite rds_clean. }
  destruct (dotLoop_ok (S (length b0)) b0 ltac:(lia) H0) as (b1 & R1 & H1 & P1 & X1). rewrite R1.
  destruct (step_trailingDot b1 H1) as (H2 & T2).
  set (b2 := trailingDot b1) in *.
  assert (I2 : removelast (psegs b2) = removelast (psegs b1)).
  { destruct T2 as [(i & E1 & E2)|(E & _)]; [|now rewrite E]. now rewrite E1, E2, !removelast_snoc. }
  assert (R2 : rds_segs [] (psegs b2) = rds_segs [] (psegs b1)).
  { destruct T2 as [(i & E1 & E2)|(E & _)]; [|now rewrite E]. rewrite E1, E2. symmetry. apply rds_trailing_dot. }
  assert (L2 : last (psegs b2) [] <> sDot).
  { destruct T2 as [(i & E1 & E2)|(E & L)]; [|now rewrite E]. rewrite E2, last_snoc. discriminate. }
  destruct (dotDotLoop_ok (S (length b2)) b2 ltac:(lia) H2) as (b3 & R3 & H3 & P3 & X3).
  { now rewrite I2. }
  rewrite R3.
  destruct (step_trailingDotDot b3 H3) as (H4 & T4).
  set (b4 := trailingDotDot b3) in *.
  exists b4. split; [reflexivity|]. split; [exact H4|].
  destruct P1 as (A1 & B1 & C1 & D1). destruct P3 as (A3 & B3 & C3 & D3).
  assert (Hinit : forall s, In s (removelast (psegs b3)) -> cleanP s /\ s <> []).
  { intros s Hs. split.
    - apply cleanP_iff. split; intros ->; [|now apply X3]. apply X1. rewrite <- I2. now apply B3.
    - intros ->. apply N0. apply B1. rewrite <- I2. now apply B3. }
  assert (Hrds : rds_segs [] (psegs b0) = rds_segs [] (psegs b3)) by congruence.
  destruct T4 as [(E3 & E4)|[(i & t & E3 & E4)|(E4 & L4)]].
  - rewrite E4. split.
    + split; [discriminate|]. split; [repeat constructor|cbn; tauto].
    + rewrite Hrds, E3. reflexivity.
  - rewrite E4. rewrite E3 in Hinit. rewrite removelast_app in Hinit by discriminate. cbn [removelast] in Hinit.
    assert (Hi : Forall cleanP i) by (apply Forall_forall; intros s Hs; apply Hinit; apply in_or_app; now left).
    assert (Ht : cleanP t) by (apply Hinit; apply in_or_app; right; now left).
    split.
    + split; [apply app_ne_r; discriminate|]. split.
      * apply Forall_app; split; [exact Hi|]. repeat constructor.
      * rewrite removelast_snoc. intros Hin. apply (Hinit []); [apply in_or_app; now left|reflexivity].
    + rewrite Hrds, E3. symmetry. now apply rds_trailing_dotdot.
  - rewrite E4.
    assert (Hc : Forall cleanP (psegs b3)).
    { apply (Forall_init_last _ _ []); [exact D3| |].
      - apply Forall_forall. intros s Hs. now apply Hinit.
      - apply cleanP_iff. split; [|exact L4]. intros Hl. apply L2. etransitivity; [symmetry; exact C3|exact Hl]. }
    split.
    + split; [exact D3|]. split; [exact Hc|]. intros Hin. now apply (Hinit [] Hin).
    + rewrite Hrds. now rewrite rds_clean.
Qed.

(* ---- Good, said on the string ---- *)
Lemma good_shape_okb b : wfp b -> Good (psegs b) -> shape_okb b = true.
Proof.
  intros [r ->] (Hne & Hc & He). unfold shape_okb. rewrite N.eqb_refl. cbn [andb psegs] in *.
  apply andb_true_iff. split.
  - apply forallb_forall. intros s Hs. rewrite Forall_forall in Hc. now apply Hc.
  - apply forallb_forall. intros s Hs. destruct s; [contradiction|reflexivity].
Qed.

Lemma shape_okb_good b : shape_okb b = true -> wfp b /\ Good (psegs b).
Proof.
  destruct b as [|c r]; cbn; [discriminate|]. rewrite !andb_true_iff, N.eqb_eq, !forallb_forall.
  intros [[-> Hc] He]. split; [eexists; reflexivity|]. split; [apply split_ne|]. split.
  - apply Forall_forall. exact Hc.
  - intros Hin. now apply He in Hin.
Qed.

Lemma good_shape_ok b : wfp b -> Good (psegs b) -> shape_ok b.
Proof.
  intros Hb (Hne & Hc & He). rewrite Forall_forall in Hc.
  assert (Hocc : forall s y x, ~ In SLASH s -> b = x ++ SLASH :: s ++ SLASH :: y -> In s (removelast (psegs b))).
  { intros s y x Hs E. destruct Hb as [r Hr]. pose proof E as E'. rewrite Hr in E'. apply lead_of_prefix in E'.
    rewrite E, psegs_app, split_app, split_noslash by assumption.
    rewrite removelast_app by (apply app_ne_r, split_ne). apply in_or_app. right.
    cbn [app]. destruct (split_segs y) eqn:Ey; [now apply split_ne in Ey|]. now left. }
  assert (Hend : forall s x, ~ In SLASH s -> b = x ++ SLASH :: s -> In s (psegs b)).
  { intros s x Hs E. destruct Hb as [r Hr]. pose proof E as E'. rewrite Hr in E'. apply lead_of_prefix in E'.
    rewrite E, psegs_app, split_noslash by assumption. apply in_or_app. right. now left. }
  assert (Hin_init : forall s, In s (removelast (psegs b)) -> In s (psegs b)).
  { intros s Hs. rewrite (app_removelast_last [] Hne). apply in_or_app. now left. }
  assert (Dns : ~ In SLASH [DOT]) by (cbn; intros [H|[]]; discriminate).
  assert (DDns : ~ In SLASH [DOT; DOT]) by (cbn; intros [H|[H|[]]]; discriminate).
  split; [exact Hb|]. repeat split.
  - intros (x & y & E). apply He. apply (Hocc [] y x); [cbn; tauto|exact E].
  - intros (x & y & E). apply (Hocc sDot y x Dns) in E. apply Hin_init, Hc, cleanP_iff in E. now destruct E.
  - intros (x & y & E). apply (Hocc sDotDot y x DDns) in E. apply Hin_init, Hc, cleanP_iff in E. now destruct E.
  - intros (x & E). apply (Hend sDot x Dns) in E. apply Hc, cleanP_iff in E. now destruct E.
  - intros (x & E). apply (Hend sDotDot x DDns) in E. apply Hc, cleanP_iff in E. now destruct E.
Qed.

(* an already normalised path is a fixpoint of the slash and dot passes *)
Theorem norm_tail_idem p : wfp p -> Good (psegs p) -> norm_tail p = Some p.
Proof.
  intros Hp Hg. destruct (norm_tail_ok p Hp) as (b & Hrun & Hb & _ & Hs). rewrite Hrun. f_equal.
  destruct (good_shape_ok p Hp Hg) as (_ & Hss & _).
  rewrite (collapse_id p Hss) in Hs. destruct Hg as (_ & Hc & _). rewrite rds_clean in Hs by exact Hc.
  cbn [app] in Hs. rewrite <- (join_psegs b Hb), <- (join_psegs p Hp). now rewrite Hs.
Qed.


(* ================= percent-decoding: the code is pct_decode ================= *)
Definition model_pair (c1 c2 : N) : option N :=
  let x2 := tbl hex2intTable c2 in
  let x1 := tbl hex2intTable c1 in
  if (x1 =? 16) || (x2 =? 16) then None else Some (N.lor (N.shiftl x1 4 mod 256) x2).
Definition spec_pair (c1 c2 : N) : option N :=
  match hex_digit c1, hex_digit c2 with
  | Some x, Some y => Some (16 * x + y)
  | _, _ => None
  end.

Definition all_bytes : list N := map N.of_nat (seq 0 256).

Lemma all_bytes_in c : c < 256 -> In c all_bytes.
Proof.
  intros H. unfold all_bytes. apply in_map_iff. exists (N.to_nat c). split; [apply N2Nat.id|].
  apply in_seq. lia.
Qed.

Lemma pair_table_ok :
  forallb (fun c1 => forallb (fun c2 => option_eqb N.eqb (model_pair c1 c2) (spec_pair c1 c2)) all_bytes) all_bytes = true.
Proof. vm_compute. reflexivity. Qed.

Lemma pair_ok c1 c2 : c1 < 256 -> c2 < 256 -> model_pair c1 c2 = spec_pair c1 c2.
Proof.
  intros H1 H2. pose proof pair_table_ok as H. rewrite forallb_forall in H.
  specialize (H c1 (all_bytes_in c1 H1)). rewrite forallb_forall in H.
  specialize (H c2 (all_bytes_in c2 H2)).
  destruct (model_pair c1 c2), (spec_pair c1 c2); cbn in H; try discriminate; [|reflexivity].
  apply N.eqb_eq in H. now subst.
Qed.

Lemma pct_decode_other c t : c <> PCT -> pct_decode (c :: t) = c :: pct_decode t.
Proof.
  intros H. apply N.eqb_neq in H. destruct t as [|a [|b r]]; cbn [pct_decode]; try reflexivity.
  rewrite H. reflexivity.
Qed.

Lemma pct_decode_pct a b r :
  pct_decode (PCT :: a :: b :: r) =
  match spec_pair a b with Some v => v :: pct_decode r | None => PCT :: pct_decode (a :: b :: r) end.
Proof.
  cbn [pct_decode]. rewrite N.eqb_refl. unfold spec_pair.
  destruct (hex_digit a), (hex_digit b); reflexivity.
Qed.

Lemma decode_loop_ok n : forall s, (length s <= n)%nat -> wf_bytes s -> decodeNoPlus_loop s = pct_decode s.
Proof.
  induction n as [|n IH]; intros s Hl Hw.
  - destruct s; [reflexivity|cbn in Hl; lia].
  - destruct s as [|c r]; [reflexivity|]. cbn [decodeNoPlus_loop].
    inversion Hw as [|? ? Hc Hr]; subst.
    destruct (c =? PCT) eqn:Ec.
    + apply N.eqb_eq in Ec. subst c. destruct r as [|c1 [|c2 r']]; try reflexivity.
      inversion Hr as [|? ? Hc1 Hr1]; subst. inversion Hr1 as [|? ? Hc2 Hr2]; subst.
      rewrite pct_decode_pct, <- (pair_ok c1 c2 Hc1 Hc2). unfold model_pair. cbv zeta.
      destruct ((tbl hex2intTable c1 =? 16) || (tbl hex2intTable c2 =? 16)).
      * f_equal. apply IH; [cbn in *; lia|exact Hr].
      * f_equal. apply IH; [cbn in *; lia|exact Hr2].
    + apply N.eqb_neq in Ec. rewrite pct_decode_other by exact Ec. f_equal. apply IH; [cbn in *; lia|exact Hr].
Qed.

Lemma pct_decode_nopct x y : ~ In PCT x -> pct_decode (x ++ y) = x ++ pct_decode y.
Proof.
  induction x as [|c x IH]; intros H; [reflexivity|]. cbn [app].
  rewrite pct_decode_other by (intros ->; apply H; now left). rewrite IH; [reflexivity|].
  intros Hin. apply H. now right.
Qed.

Lemma decodeArgAppendNoPlus_ok dst src : wf_bytes src ->
  decodeArgAppendNoPlus dst src = dst ++ pct_decode src.
Proof.
  intros Hw. unfold decodeArgAppendNoPlus. destruct (indexByte src PCT) as [idx|] eqn:E.
  - apply indexByte_Some in E as (x & y & Es & L & Hx). subst idx. rewrite Es.
    rewrite firstn_len_app, skipn_len_app0.
    rewrite (decode_loop_ok (length (PCT :: y))); [|lia|].
    + rewrite pct_decode_nopct by exact Hx. now rewrite app_assoc.
    + rewrite Es in Hw. unfold wf_bytes in *. apply Forall_app in Hw. tauto.
  - apply indexByte_None in E. rewrite <- (app_nil_r src) at 2. rewrite pct_decode_nopct by exact E.
    now rewrite app_nil_r.
Qed.

Lemma decoded_ok src : wf_bytes src ->
  decodeArgAppendNoPlus (addLeadingSlash [] src) src = pct_decode (add_slash src).
Proof.
  intros Hw. rewrite decodeArgAppendNoPlus_ok by exact Hw.
  unfold addLeadingSlash, add_slash. destruct src as [|c r]; [reflexivity|].
  destruct (c =? SLASH) eqn:E; [reflexivity|]. cbn [app].
  rewrite (pct_decode_other SLASH) by discriminate. reflexivity.
Qed.

(* without any assumption on the bytes: the decoded buffer starts with '/' *)
Lemma decoded_wfp src : wfp (decodeArgAppendNoPlus (addLeadingSlash [] src) src).
Proof.
  unfold decodeArgAppendNoPlus, addLeadingSlash.
  destruct src as [|c r].
  - cbn. eexists; reflexivity.
  - destruct (c =? SLASH) eqn:E.
    + apply N.eqb_eq in E. subst c. cbn [indexByte]. change (SLASH =? PCT) with false. cbv iota.
      destruct (indexByte r PCT); cbn; eexists; reflexivity.
    + destruct (indexByte (c :: r) PCT); cbn; eexists; reflexivity.
Qed.


(* ================= RFC 3986 5.2.4 on the string = rds_segs on the segments ================= *)
Definition noslash (s : bytes) : Prop := ~ In SLASH s.

Lemma split_all_noslash r : Forall noslash (split_segs r).
Proof.
  induction r as [|c r IH]; cbn.
  - repeat constructor. intros [].
  - destruct (c =? SLASH) eqn:E.
    + constructor; [intros []|exact IH].
    + destruct (split_segs r) as [|hd tl]; [repeat constructor; intros [H|[]]; apply N.eqb_neq in E; congruence|].
      inversion IH; subst. constructor; [|assumption].
      intros [H|H]; [apply N.eqb_neq in E; congruence|contradiction].
Qed.

Lemma join_cons s l : join_segs (s :: l) = SLASH :: s ++ join_segs l.
Proof. reflexivity. Qed.

Lemma join_lead l : lead (join_segs l).
Proof. destruct l; [now left|right; eexists; reflexivity]. Qed.

Lemma existsb_slash_false z : noslash z -> existsb (N.eqb SLASH) z = false.
Proof.
  induction z as [|c z IH]; intros H; [reflexivity|]. cbn [existsb].
  destruct (SLASH =? c) eqn:E; [apply N.eqb_eq in E; exfalso; apply H; now left|].
  cbn [orb]. apply IH. intros Hin. apply H. now right.
Qed.

Lemma drop_last_app x z : noslash z -> drop_last_segment (x ++ SLASH :: z) = x.
Proof.
  intros Hz. induction x as [|c x IH]; cbn [app drop_last_segment].
  - now rewrite existsb_slash_false.
  - replace (existsb (N.eqb SLASH) (x ++ SLASH :: z)) with true; [now rewrite IH|].
    symmetry. apply existsb_exists. exists SLASH. split; [apply in_or_app; right; now left|apply N.eqb_refl].
Qed.

Lemma drop_last_join o : Forall noslash o -> drop_last_segment (join_segs o) = join_segs (removelast o).
Proof.
  intros Ho. destruct (snoc_cases o) as [->|(i & z & ->)]; [reflexivity|].
  rewrite removelast_snoc, join_app. cbn. rewrite app_nil_r.
  apply drop_last_app. apply Forall_app in Ho as [_ Ho]. now inversion Ho.
Qed.

Lemma span_noslash_app s t : noslash s -> lead t -> span_noslash (s ++ t) = (s, t).
Proof.
  intros Hs Ht. induction s as [|c s IH]; cbn [app].
  - destruct Ht as [->|[t' ->]]; [reflexivity|]. cbn. reflexivity.
  - cbn [span_noslash]. destruct (c =? SLASH) eqn:E; [apply N.eqb_eq in E; exfalso; apply Hs; now left|].
    rewrite IH; [reflexivity|]. intros H. apply Hs. now right.
Qed.

(* which of the RFC's tests can fire on "/s/..." *)
Lemma starts_seg p s rest : noslash s -> noslash p ->
  starts (p ++ [SLASH]) (s ++ join_segs rest) = true -> s = p.
Proof.
  intros Hs Hp. revert s Hs; induction p as [|a p IH]; intros s Hs; cbn [app starts].
  - destruct s as [|c s]; [reflexivity|]. cbn [app]. intros H. apply andb_true_iff in H as [H _].
    apply N.eqb_eq in H. exfalso. apply Hs. now left.
  - destruct s as [|c s]; cbn [app].
    + destruct rest as [|r1 rest]; [discriminate|]. rewrite join_cons. intros H. apply andb_true_iff in H as [H _].
      apply N.eqb_eq in H. exfalso. apply Hp. now left.
    + intros H. apply andb_true_iff in H as [H1 H2]. apply N.eqb_eq in H1. subst c. f_equal.
      apply IH; [intros Hin; apply Hp; now right|intros Hin; apply Hs; now right|exact H2].
Qed.

Lemma beq_seg p s rest : noslash p -> s ++ join_segs rest = p -> s = p.
Proof.
  intros Hp E. destruct rest as [|r1 rest]; [now rewrite app_nil_r in E|].
  exfalso. apply Hp. rewrite <- E. apply in_or_app. right. now left.
Qed.

Lemma noslash_dot : noslash sDot.      Proof. intros [H|[]]; discriminate. Qed.
Lemma noslash_dotdot : noslash sDotDot. Proof. intros [H|[H|[]]]; discriminate. Qed.

Lemma rds_loop_join fuel : forall l o, Forall noslash l -> Forall noslash o ->
  (length (join_segs l) < fuel)%nat ->
  rds_loop fuel (join_segs l) (join_segs o) = join_segs (rds_segs o l).
Proof.
  induction fuel as [|f IH]; intros l o Hl Ho Hf; [lia|].
  destruct l as [|s rest]; [reflexivity|].
  inversion Hl as [|? ? Hs Hrest]; subst.
  destruct (is_dot s) eqn:Ed; [|destruct (is_dotdot s) eqn:Edd].
  - (* "." *) apply beq_eq in Ed. subst s. destruct rest as [|r1 rest].
    + (* "/." -> "/" *)
      change (rds_loop (S f) (join_segs [sDot]) (join_segs o)) with (rds_loop f (join_segs [[]]) (join_segs o)).
      rewrite IH; [reflexivity| | exact Ho | unfold lt in *; vm_compute in Hf; vm_compute; lia]. repeat constructor. intros [].
    + change (rds_loop (S f) (join_segs (sDot :: r1 :: rest)) (join_segs o))
        with (rds_loop f (join_segs (r1 :: rest)) (join_segs o)).
      rewrite IH; [reflexivity|exact Hrest|exact Ho|]. rewrite (join_cons sDot) in Hf. unfold sDot in Hf. cbn [length app] in Hf. lia.
  - (* ".." *) apply beq_eq in Edd. subst s. destruct rest as [|r1 rest].
    + change (rds_loop (S f) (join_segs [sDotDot]) (join_segs o))
        with (rds_loop f (join_segs [[]]) (drop_last_segment (join_segs o))).
      rewrite drop_last_join by exact Ho.
      rewrite IH; [reflexivity| | | unfold lt in *; vm_compute in Hf; vm_compute; lia].
      * repeat constructor. intros [].
      * destruct (snoc_cases o) as [->|(i & z & ->)]; [constructor|]. rewrite removelast_snoc.
        apply Forall_app in Ho. tauto.
    + change (rds_loop (S f) (join_segs (sDotDot :: r1 :: rest)) (join_segs o))
        with (rds_loop f (join_segs (r1 :: rest)) (drop_last_segment (join_segs o))).
      rewrite drop_last_join by exact Ho.
      rewrite IH; [reflexivity|exact Hrest| |].
      * destruct (snoc_cases o) as [->|(i & z & ->)]; [constructor|]. rewrite removelast_snoc.
        apply Forall_app in Ho. tauto.
      * rewrite (join_cons sDotDot) in Hf. unfold sDotDot in Hf. cbn [length app] in Hf. lia.
  - (* ordinary segment: rule 2E *)
    assert (Hnd : s <> sDot) by (intros ->; discriminate).
    assert (Hndd : s <> sDotDot) by (intros ->; discriminate).
    cbn [rds_segs]. rewrite Ed, Edd.
    rewrite join_cons. cbn [rds_loop].
    change (starts sDotDotSl (SLASH :: s ++ join_segs rest)) with false.
    change (starts sDotSl (SLASH :: s ++ join_segs rest)) with false. cbv iota.
    assert (T1 : starts sSlDotSl (SLASH :: s ++ join_segs rest) = false).
    { destruct (starts sSlDotSl (SLASH :: s ++ join_segs rest)) eqn:E; [|reflexivity].
      exfalso. apply Hnd. apply (starts_seg sDot s rest Hs noslash_dot). exact E. }
    assert (T2 : beq (SLASH :: s ++ join_segs rest) sSlDot = false).
    { destruct (beq (SLASH :: s ++ join_segs rest) sSlDot) eqn:E; [|reflexivity].
      exfalso. apply Hnd. apply beq_eq in E. injection E as E. apply (beq_seg sDot s rest noslash_dot E). }
    assert (T3 : starts sSlDotDotSl (SLASH :: s ++ join_segs rest) = false).
    { destruct (starts sSlDotDotSl (SLASH :: s ++ join_segs rest)) eqn:E; [|reflexivity].
      exfalso. apply Hndd. apply (starts_seg sDotDot s rest Hs noslash_dotdot). exact E. }
    assert (T4 : beq (SLASH :: s ++ join_segs rest) sSlDotDot = false).
    { destruct (beq (SLASH :: s ++ join_segs rest) sSlDotDot) eqn:E; [|reflexivity].
      exfalso. apply Hndd. apply beq_eq in E. injection E as E. apply (beq_seg sDotDot s rest noslash_dotdot E). }
    rewrite T1, T2, T3, T4.
    change (beq (SLASH :: s ++ join_segs rest) sDot) with false.
    change (beq (SLASH :: s ++ join_segs rest) sDotDot) with false. cbv iota. cbn [orb].
    unfold first_segment. rewrite span_noslash_app by (exact Hs || apply join_lead).
    replace (join_segs o ++ SLASH :: s) with (join_segs (o ++ [s])) by (rewrite join_app; cbn; now rewrite app_nil_r).
    apply IH; [exact Hrest| |].
    + apply Forall_app. split; [exact Ho|now constructor].
    + rewrite join_cons in Hf. cbn [length] in Hf. rewrite app_length in Hf. lia.
Qed.

Theorem rds_join p : wfp p -> remove_dot_segments p = join_segs (rds_segs [] (psegs p)).
Proof.
  intros [r ->]. unfold remove_dot_segments. cbn [psegs].
  pose proof (rds_loop_join (S (length (SLASH :: r))) (split_segs r) [] (split_all_noslash r) (Forall_nil _)) as H.
  rewrite join_split in H. apply H. lia.
Qed.


(* ================= top level ================= *)
Definition decoded (src : bytes) : bytes := decodeArgAppendNoPlus (addLeadingSlash [] src) src.

Lemma normalizePath_facts src :
  normalizePath_opt src = Some (normalizePath src) /\ wfp (normalizePath src) /\
  Good (psegs (normalizePath src)) /\
  psegs (normalizePath src) = rds_segs [] (psegs (collapse_slashes (decoded src))).
Proof.
  destruct (norm_tail_ok _ (decoded_wfp src)) as (b & H & Hrest).
  assert (E : normalizePath_opt src = Some b) by exact H.
  unfold normalizePath. rewrite E. split; [reflexivity|exact Hrest].
Qed.

(* the fuel is always sufficient *)
Theorem normalizePath_opt_total src : normalizePath_opt src = Some (normalizePath src).
Proof. apply normalizePath_facts. Qed.

Theorem normalizePath_wfp src : exists r, normalizePath src = SLASH :: r.
Proof. apply normalizePath_facts. Qed.

Theorem path_shape src : shape_ok (normalizePath src).
Proof. destruct (normalizePath_facts src) as (_ & H1 & H2 & _). now apply good_shape_ok. Qed.

Theorem path_shape_b src : shape_okb (normalizePath src) = true.
Proof. destruct (normalizePath_facts src) as (_ & H1 & H2 & _). now apply good_shape_okb. Qed.

Theorem path_segments src : exists l,
  normalizePath src = join_segs l /\ l <> [] /\
  Forall (fun s => ~ In SLASH s /\ s <> sDot /\ s <> sDotDot) l /\
  Forall (fun s => s <> []) (removelast l).
Proof.
  destruct (normalizePath_facts src) as (_ & H1 & (G1 & G2 & G3) & _).
  exists (psegs (normalizePath src)). split; [symmetry; now apply join_psegs|]. split; [exact G1|]. split.
  - apply Forall_forall. intros s Hs. split.
    + destruct H1 as [r Hr]. rewrite Hr in Hs. cbn [psegs] in Hs.
      pose proof (split_all_noslash r) as Hn. rewrite Forall_forall in Hn. now apply Hn.
    + rewrite Forall_forall in G2. now apply cleanP_iff, G2.
  - apply Forall_forall. intros s Hs ->. contradiction.
Qed.

Lemma add_slash_decode_wfp src : wfp (pct_decode (add_slash src)).
Proof.
  unfold add_slash. destruct src as [|c r].
  - eexists; reflexivity.
  - destruct (c =? SLASH) eqn:E.
    + apply N.eqb_eq in E. subst c. rewrite pct_decode_other by discriminate. eexists; reflexivity.
    + rewrite pct_decode_other by discriminate. eexists; reflexivity.
Qed.

(* the two formulations of the specification agree (all inputs) *)
Theorem spec_path_segs_eq src : spec_path src = spec_path_segs src.
Proof.
  unfold spec_path, spec_path_segs.
  pose proof (collapse_wfp _ (add_slash_decode_wfp src)) as Hw.
  rewrite rds_join by exact Hw. destruct Hw as [r ->]. reflexivity.
Qed.

(* URI.Path() is the RFC composition *)
Theorem path_is_rfc src : wf_bytes src -> normalizePath src = spec_path src.
Proof.
  intros Hw. destruct (normalizePath_facts src) as (_ & H1 & _ & H3).
  rewrite <- (join_psegs _ H1), H3. unfold decoded. rewrite decoded_ok by exact Hw.
  unfold spec_path. rewrite rds_join; [reflexivity|]. apply collapse_wfp, add_slash_decode_wfp.
Qed.

(* ---- consequences used by other models ---- *)
(* an output of normalizePath is a fixpoint of the slash and dot passes *)
Theorem norm_tail_fixpoint s p : normalizePath_opt s = Some p -> norm_tail p = Some p /\ exists r, p = SLASH :: r.
Proof.
  intros H. destruct (normalizePath_facts s) as (E & H1 & H2 & _). rewrite E in H. injection H as <-.
  split; [now apply norm_tail_idem|exact H1].
Qed.

Theorem norm_tail_total d : (exists r, d = SLASH :: r) -> exists b, norm_tail d = Some b /\ shape_ok b.
Proof. intros Hd. destruct (norm_tail_ok d Hd) as (b & H & Hb & Hg & _). exists b. split; [exact H|now apply good_shape_ok]. Qed.

Theorem path_no_dotdot src :
  ~ In sDotDot (psegs (normalizePath src)) /\ ~ occurs sSlDotDotSl (normalizePath src) /\ ~ ends_with sSlDotDot (normalizePath src).
Proof.
  destruct (normalizePath_facts src) as (_ & H1 & (G1 & G2 & G3) & _). split.
  - intros Hin. rewrite Forall_forall in G2. apply G2, cleanP_iff in Hin. now destruct Hin.
  - destruct (path_shape src) as (_ & _ & _ & A & _ & B). now split.
Qed.
