(* Proofs for Model/Pipe.v (property C33), second part: after Close the reader drains the pipe in finitely many Reads. *)
From Coq Require Import Lia ZifyBool ZifyN ZifyNat.
From FH Require Import Model.Base Model.Pipe Proof.PipeProof.
Open Scope N_scope.
Local Opaque chan_cap.

(* ---------- finite drain ---------- *)
Definition mu (s : dstate) : nat := (length (cur s) + length (chan s) + length (concat (chan s)))%nat.
Definition pend (s : dstate) : bytes := cur s ++ concat (chan s).

(* state of a Read between two channel operations of its non-blocking loop: g = bytes it has got so far *)
Definition LS (s : dstate) (n : N) (h0 : list ev) (g : bytes) : Prop :=
  wp s = WIdle /\
  ((rp s = RIdle /\ hist s = EvR n g ROk :: h0) \/ (exists rem, rp s = RNeed n rem g false /\ hist s = h0 /\ cur s = [])).

Lemma r_copy_LS t n rem acc h0 :
  wp t = WIdle -> hist t = h0 ->
  let t' := r_copy t n rem acc in
  exists g, LS t' n h0 g /\ g ++ pend t' = acc ++ pend t /\ (mu t' <= mu t)%nat /\
            (0 < rem -> cur t <> [] -> (mu t' < mu t)%nat) /\ stopped t' = stopped t /\ rdl t' = rdl t.
Proof.
  intros Hw Hh. cbv zeta.
  destruct (r_copy_cases t n rem acc) as (Ech & Est & _ & Erd & Ewp & C). cbv zeta in C.
  set (t' := r_copy t n rem acc) in *. set (k := N.min rem (lenN (cur t))) in *.
  destruct C as [(Hk & Hr & Hc & Hh')|(Hk & Hr & Hc & Hh' & Hkk)].
  - exists (acc ++ firstn (N.to_nat k) (cur t)). split; [|split; [|split; [|split; [|split]]]]; auto.
    + split; [congruence|]. left. split; [exact Hr|]. now rewrite Hh', Hh.
    + unfold pend. rewrite Hc, Ech. rewrite <- !app_assoc. f_equal. rewrite app_assoc. now rewrite firstn_skipn.
    + unfold mu. rewrite Hc, Ech, skipn_length. lia.
    + intros Hrem Hne. unfold mu. rewrite Hc, Ech, skipn_length.
      assert (0 < lenN (cur t)) by (unfold lenN; destruct (cur t); [congruence|cbn; lia]).
      assert (0 < k) by (unfold k; lia). unfold lenN in *. lia.
  - exists (acc ++ cur t). split; [|split; [|split; [|split; [|split]]]]; auto.
    + split; [congruence|]. right. exists (rem - k). split; [exact Hr|]. split; [congruence|exact Hc].
    + unfold pend. rewrite Hc, Ech. cbn. now rewrite <- app_assoc.
    + unfold mu. rewrite Hc, Ech. cbn. lia.
    + intros Hrem Hne. unfold mu. rewrite Hc, Ech. cbn. destruct (cur t); [congruence|cbn; lia].
Qed.

Lemma loop_det fuel : forall s n h0 g,
  LS s n h0 g -> (length (chan s) < fuel)%nat ->
  exists s' g', read_loop fuel s = [s'] /\ rp s' = RIdle /\ wp s' = WIdle /\ hist s' = EvR n g' ROk :: h0 /\
                g' ++ pend s' = g ++ pend s /\ (mu s' <= mu s)%nat /\ stopped s' = stopped s /\ rdl s' = rdl s.
Proof.
  induction fuel as [|f IH]; intros s n h0 g (Hw & Hs) Hf; [lia|].
  destruct Hs as [(Hr & Hh)|(rem & Hr & Hh & Hc)].
  - exists s, g. cbn [read_loop]. rewrite Hr. repeat split; auto.
  - cbn [read_loop]. rewrite Hr.
    assert (Hslow : step s LWSendSlow = None) by (unfold step; rewrite Hw; reflexivity).
    assert (Hfast : step s LRTakeFast = r_take s n rem g) by (unfold step; rewrite Hr; destruct (wp s); reflexivity).
    assert (Hdef : step s LRTakeDefault = if is_nil (chan s) then Some (r_finish s n g ROk) else None)
      by (unfold step; rewrite Hr; destruct (wp s); reflexivity).
    rewrite Hslow, app_nil_r, Hfast, Hdef. unfold r_take.
    destruct (chan s) as [|b rest] eqn:Ec.
    + cbn [is_nil]. exists (r_finish s n g ROk), g.
      assert (E : read_loop f (r_finish s n g ROk) = [r_finish s n g ROk]) by (destruct f; reflexivity).
      rewrite E. unfold pend, mu. cbn. rewrite Ec. repeat split; auto. now rewrite Hh.
    + set (t := mkD rest b (stopped s) (wdl s) (rdl s) (wp s) (rp s) (hist s)).
      destruct (r_copy_LS t n rem g h0 Hw Hh) as (g1 & HLS & Hgp & Hmu & _ & Hst & Hrd). cbv zeta in *.
      set (t' := r_copy t n rem g) in *.
      assert (Hch : chan t' = rest) by (destruct (r_copy_cases t n rem g) as (E & _); exact E).
      destruct (IH t' n h0 g1 HLS) as (s' & g' & HL & H1 & H2 & H3 & H4 & H5 & H6 & H7).
      { rewrite Hch. cbn in Hf. lia. }
      exists s', g'. repeat split; auto.
      * rewrite H4, Hgp. unfold pend. cbn. rewrite Hc, Ec. cbn. reflexivity.
      * unfold mu in *. cbn in Hmu. rewrite Hc, Ec. cbn. rewrite app_length. lia.
      * now rewrite H6, Hst.
      * now rewrite H7, Hrd.
Qed.

(* one Read on a pipe that still holds something: exactly one outcome, data with a nil error, the bytes are the
   front of what was pending, and the measure strictly decreases *)
Lemma read_once s soon n :
  rp s = RIdle -> wp s = WIdle -> n <> 0 -> (cur s <> [] \/ chan s <> []) ->
  exists s1 d, exec_read s soon n = [s1] /\ rp s1 = RIdle /\ wp s1 = WIdle /\ hist s1 = EvR n d ROk :: hist s /\
               d ++ pend s1 = pend s /\ (mu s1 < mu s)%nat /\ stopped s1 = stopped s /\ rdl s1 = rdl s.
Proof.
  intros Hr Hw Hn Hdata.
  assert (E : step s (LRStart n) = Some (r_head s n n [] true)) by (unfold step; rewrite Hr; destruct (wp s); reflexivity).
  assert (G : exists t g, (read_start s n = loop_from (Some t)) /\ LS t n (hist s) g /\ g ++ pend t = pend s /\
                          (mu t < mu s)%nat /\ stopped t = stopped s /\ rdl t = rdl s).
  { unfold read_start. rewrite E. unfold r_head. apply N.eqb_neq in Hn. rewrite Hn.
    assert (Hpos : 0 < n) by (apply N.eqb_neq in Hn; lia).
    destruct (cur s) as [|c cs] eqn:Ec.
    - destruct (chan s) as [|b rest] eqn:Ech; [destruct Hdata; congruence|].
      cbn [rp set_rp].
      set (t0 := mkD rest b (stopped s) (wdl s) (rdl s) (wp s) (RNeed n n [] true) (hist s)).
      assert (F : step (set_rp s (RNeed n n [] true)) LRTakeFast = Some (r_copy t0 n n []))
        by (unfold t0, step, r_take, set_rp; cbn [rp wp chan cur stopped wdl rdl hist]; rewrite Hw, Ech; reflexivity).
      rewrite F.
      destruct (r_copy_LS t0 n n [] (hist s) Hw eq_refl) as (g & HLS & Hgp & Hmu & _ & Hst & Hrd). cbv zeta in *.
      exists (r_copy t0 n n []), g. split; [reflexivity|]. split; [exact HLS|]. split; [|split; [|split]]; auto.
      + rewrite Hgp. unfold pend. cbn. now rewrite Ec, Ech.
      + unfold mu in *. cbn in Hmu. rewrite Ec, Ech. cbn. rewrite app_length. lia.
    - destruct (r_copy_LS s n n [] (hist s) Hw eq_refl) as (g & HLS & Hgp & Hmu & Hlt & Hst & Hrd). cbv zeta in *.
      set (t := r_copy s n n []) in *.
      exists t, g. split.
      + destruct HLS as (_ & [(Hrt & _)|(rem & Hrt & _)]); rewrite Hrt; reflexivity.
      + split; [exact HLS|]. split; [exact Hgp|]. split; [|split; auto]. apply Hlt; [exact Hpos|]. rewrite Ec. discriminate. }
  destruct G as (t & g & Hrs & HLS & Hgp & Hmu & Hst & Hrd).
  unfold loop_from in Hrs.
  destruct (loop_det (loop_fuel t) t n (hist s) g HLS) as (s1 & d & HL & H1 & H2 & H3 & H4 & H5 & H6 & H7).
  { unfold loop_fuel. lia. }
  exists s1, d. unfold exec_read. rewrite Hrs, HL. cbn [flat_map]. unfold settle_r, r_parked. rewrite H1. cbn.
  repeat split; auto; try congruence. lia.
Qed.

(* chains of consecutive Reads (buffer size n) that returned data *)
Inductive reads_chain (n : N) : dstate -> list bytes -> dstate -> Prop :=
| rc_nil s : reads_chain n s [] s
| rc_cons s s1 d ds s' : exec_read s false n = [s1] -> hist s1 = EvR n d ROk :: hist s ->
                         reads_chain n s1 ds s' -> reads_chain n s (d :: ds) s'.

Definition closed_idle (s : dstate) : Prop := stopped s = true /\ rp s = RIdle /\ wp s = WIdle /\ rdl s <> DFired.

(* after Close (idle writer, no expired read deadline): at most mu s Reads return, in order, exactly the pending bytes,
   and the next Read returns io.EOF *)
Lemma drain_after_close n : n <> 0 -> forall m s, (mu s <= m)%nat -> closed_idle s ->
  exists ds s', reads_chain n s ds s' /\ (length ds <= m)%nat /\ concat ds = pend s /\
                read_h (hist s') = read_h (hist s) ++ pend s /\ written_h (hist s') = written_h (hist s) /\
                cur s' = [] /\ chan s' = [] /\ closed_idle s' /\
                exists s'', exec_read s' false n = [s''] /\ hist s'' = EvR n [] REof :: hist s'.
Proof.
  intros Hn m. induction m as [|m IH]; intros s Hm (Hs & Hr & Hw & Hd).
  - assert (Hc : cur s = []) by (unfold mu in Hm; destruct (cur s); [reflexivity|cbn in Hm; lia]).
    assert (Hch : chan s = []) by (unfold mu in Hm; destruct (chan s); [reflexivity|cbn in Hm; lia]).
    exists [], s. split; [constructor|]. split; [cbn; lia|]. unfold pend. rewrite Hc, Hch. cbn.
    rewrite app_nil_r. repeat split; auto.
    eexists. split; [apply eof_when_drained; assumption|reflexivity].
  - destruct (cur s) as [|c cs] eqn:Ec; [destruct (chan s) as [|b rest] eqn:Ech|].
    + exists [], s. split; [constructor|]. split; [cbn; lia|]. unfold pend. rewrite Ec, Ech. cbn.
      rewrite app_nil_r. repeat split; auto.
      eexists. split; [apply eof_when_drained; assumption|reflexivity].
    + destruct (read_once s false n Hr Hw Hn) as (s1 & d & E & R1 & W1 & H1 & P1 & M1 & S1 & D1);
        [right; rewrite Ech; discriminate|].
      destruct (IH s1) as (ds & s' & Hc & Hl & Hcat & Hrh & Hwh & C1 & C2 & C3 & C4);
        [lia | repeat split; congruence |].
      exists (d :: ds), s'. split; [econstructor; eauto|]. split; [cbn; lia|].
      split; [cbn; rewrite Hcat; exact P1|].
      split; [rewrite Hrh, H1; cbn; rewrite <- app_assoc, P1; reflexivity|].
      split; [rewrite Hwh, H1; reflexivity|]. auto.
    + destruct (read_once s false n Hr Hw Hn) as (s1 & d & E & R1 & W1 & H1 & P1 & M1 & S1 & D1);
        [left; rewrite Ec; discriminate|].
      destruct (IH s1) as (ds & s' & Hc & Hl & Hcat & Hrh & Hwh & C1 & C2 & C3 & C4);
        [lia | repeat split; congruence |].
      exists (d :: ds), s'. split; [econstructor; eauto|]. split; [cbn; lia|].
      split; [cbn; rewrite Hcat; exact P1|].
      split; [rewrite Hrh, H1; cbn; rewrite <- app_assoc, P1; reflexivity|].
      split; [rewrite Hwh, H1; reflexivity|]. auto.
Qed.

(* for a reachable state: after the drain everything that was ever written has been read *)
Lemma drain_reads_everything tr s n : reach tr s -> n <> 0 -> closed_idle s ->
  exists ds s', reads_chain n s ds s' /\ (length ds <= mu s)%nat /\
                read_h (hist s') = written_h (hist s') /\ cur s' = [] /\ chan s' = [] /\
                exists s'', exec_read s' false n = [s''] /\ hist s'' = EvR n [] REof :: hist s'.
Proof.
  intros R Hn Hc.
  destruct (drain_after_close n Hn (mu s) s (le_n _) Hc) as (ds & s' & H1 & H2 & _ & H4 & H5 & H6 & H7 & _ & H9).
  exists ds, s'. repeat split; auto.
  rewrite H4, H5. pose proof (stream_exact tr s R) as E. unfold in_flight in E.
  destruct Hc as (_ & Hr & _). rewrite Hr in E. exact E.
Qed.
