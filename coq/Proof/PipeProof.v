(* Proofs for Model/Pipe.v (property C33): invariants of every reachable state of one direction,
   lifted to the pair. *)
From Coq Require Import Lia ZifyBool ZifyN ZifyNat.
From FH Require Import Model.Base Model.Pipe.
Open Scope N_scope.

(* ---------- generic: invariants of run ---------- *)
Lemma run_app s tr1 tr2 : run s (tr1 ++ tr2) = match run s tr1 with Some s' => run s' tr2 | None => None end.
Proof. revert s; induction tr1 as [|l tr IH]; intros s; cbn; [reflexivity|]. destruct (step s l); auto. Qed.

Lemma inv_run (P : dstate -> Prop) :
  (forall s l s', P s -> step s l = Some s' -> P s') ->
  forall tr s s', P s -> run s tr = Some s' -> P s'.
Proof.
  intros Hstep tr; induction tr as [|l tr IH]; intros s s' Hs Hr; cbn in Hr.
  - now inversion Hr; subst.
  - destruct (step s l) as [s1|] eqn:E; [|discriminate]. eauto.
Qed.

(* ---------- the invariant ---------- *)
Definition w_sc (w : wpc) : option bool :=
  match w with WIdle => None | WChk _ sc | WSel _ sc | WBlk _ sc => Some sc end.
Definition w_past_check (w : wpc) : bool := match w with WSel _ _ | WBlk _ _ => true | _ => false end.

Definition ev_sc_ok (e : ev) : Prop := match e with EvW _ true r => r = WClosed | _ => True end.
Definition ev_err_ok (e : ev) : Prop := match e with EvR n d r => (r <> ROk -> d = []) /\ lenN d <= n | _ => True end.
Definition is_eof (e : ev) : bool := match e with EvR _ _ REof => true | _ => false end.

(* every EOF in the log was returned at a moment when everything successfully written had been read *)
Fixpoint eof_ok (h : list ev) : Prop :=
  match h with
  | [] => True
  | e :: h' => (is_eof e = true -> read_h h = written_h h) /\ eof_ok h'
  end.

Definition r_rem (r : rpc) : option (N * N * N) :=    (* buffer size, remaining, copied so far *)
  match r with
  | RIdle => None
  | RNeed n rem acc _ => Some (n, rem, lenN acc)
  | RWait n rem | RAfterDl n rem | RAfterStop n rem => Some (n, rem, 0)
  end.

Record inv (s : dstate) : Prop := mkInv {
  i_cur : rp s <> RIdle -> cur s = [];
  i_mb : forall n rem acc, rp s = RNeed n rem acc true -> acc = [];
  i_stream : read_h (hist s) ++ in_flight s = written_h (hist s);
  i_sc : w_sc (wp s) = Some true -> stopped s = true;
  i_past : w_past_check (wp s) = true -> w_sc (wp s) = Some false;
  i_hist_sc : Forall ev_sc_ok (hist s);
  i_hist_err : Forall ev_err_ok (hist s);
  i_eof : eof_ok (hist s);
  i_eof_stopped : existsb is_eof (hist s) = true -> stopped s = true;
  i_after_stop : (exists n rem, rp s = RAfterStop n rem) -> stopped s = true;
  i_cap : lenN (chan s) <= chan_cap;
  i_rem : forall n rem k, r_rem (rp s) = Some (n, rem, k) -> rem + k = n /\ 0 < rem
}.

Lemma inv_init : inv dinit.
Proof.
  constructor; cbn; try easy; try (intros; discriminate).
  all: try (intros [n [rem H]]; discriminate).
  all: try (unfold chan_cap; lia).
Qed.

(* ---------- the reader's local computations ---------- *)
Lemma lenN_app {A} (a b : list A) : lenN (a ++ b) = lenN a + lenN b.
Proof. unfold lenN. rewrite app_length. lia. Qed.
Lemma lenN_firstn_le {A} (k : N) (l : list A) : k <= lenN l -> lenN (firstn (N.to_nat k) l) = k.
Proof. unfold lenN. intros H. rewrite firstn_length. lia. Qed.

Lemma r_copy_cases s n rem acc :
  let k := N.min rem (lenN (cur s)) in
  let s' := r_copy s n rem acc in
  chan s' = chan s /\ stopped s' = stopped s /\ wdl s' = wdl s /\ rdl s' = rdl s /\ wp s' = wp s /\
  ((rem - k = 0 /\ rp s' = RIdle /\ cur s' = skipn (N.to_nat k) (cur s) /\
    hist s' = EvR n (acc ++ firstn (N.to_nat k) (cur s)) ROk :: hist s)
   \/
   (rem - k <> 0 /\ rp s' = RNeed n (rem - k) (acc ++ cur s) false /\ cur s' = [] /\ hist s' = hist s /\ k = lenN (cur s))).
Proof.
  cbv zeta. unfold r_copy.
  destruct (rem - N.min rem (lenN (cur s)) =? 0) eqn:E.
  - apply N.eqb_eq in E. cbn. do 5 (split; [reflexivity|]). left. repeat split; auto.
  - apply N.eqb_neq in E. cbn. do 5 (split; [reflexivity|]). right.
    assert (Hk : N.min rem (lenN (cur s)) = lenN (cur s)) by lia.
    rewrite Hk. unfold lenN. rewrite Nat2N.id, firstn_all, skipn_all. repeat split; auto. unfold lenN in *; lia.
Qed.

(* bytes: what has been handed to the caller plus what the reader still holds is unchanged by a copy *)
Lemma r_copy_stream s n rem acc :
  let s' := r_copy s n rem acc in
  read_h (hist s') ++ racc (rp s') ++ cur s' = read_h (hist s) ++ acc ++ cur s.
Proof.
  cbv zeta. destruct (r_copy_cases s n rem acc) as (_ & _ & _ & _ & _ & [C|C]).
  - destruct C as (_ & Hr & Hc & Hh). rewrite Hr, Hc, Hh. cbn.
    rewrite <- !app_assoc. now rewrite firstn_skipn.
  - destruct C as (_ & Hr & Hc & Hh & _). rewrite Hr, Hc, Hh. cbn. now rewrite app_nil_r.
Qed.

Ltac step_cases H :=
  unfold step in H;
  repeat match type of H with
         | context [match ?x with _ => _ end] => destruct x eqn:?
         end;
  try discriminate; inversion H; subst; clear H.




Ltac easy_field :=
  first [ assumption | reflexivity | discriminate | congruence | lia
        | (intros; congruence) | (intros; discriminate)
        | (intros [? [? ?]]; congruence) | (constructor; auto; cbn; auto; fail) | (unfold chan_cap in *; lia) ].
Ltac norm :=
  unfold set_wp, set_rp, w_finish, w_send, r_finish, in_flight in *; cbn [chan cur stopped wdl rdl wp rp hist] in *;
  repeat match goal with H : wp _ = _ |- _ => rewrite H in * end;
  repeat match goal with H : rp _ = _ |- _ => rewrite H in * end; cbn in *.

Lemma test s l s' : inv s -> step s l = Some s' -> inv s'.
Proof.
  intros I H. step_cases H.
  all: destruct I as [Icur Imb Istream Isc Ipast Ihsc Iherr Ieof Ieofs Iafter Icap Irem].
  all: try (constructor; norm; try easy_field).
  all: match goal with |- ?g => idtac "GOAL" g end.
Abort.
