(* Proofs for Model/Pipe.v (property C33): invariants of every reachable state of one direction,
   lifted to the pair. *)
From Coq Require Import Lia ZifyBool ZifyN ZifyNat.
From FH Require Import Model.Base Model.Pipe.
Open Scope N_scope.
(* the proofs do not depend on the value of the capacity *)
Local Opaque chan_cap.

(* ---------- generic: invariants of run ---------- *)
Lemma run_app s tr1 tr2 : run s (tr1 ++ tr2) = match run s tr1 with Some s' => run s' tr2 | None => None end.
Proof. revert s; induction tr1 as [|l tr IH]; intros s; cbn; [reflexivity|]. destruct (step s l); auto. Qed.

Lemma inv_run (P : dstate -> Prop) :
  (forall s l s', P s -> step s l = Some s' -> P s') ->
  forall tr s s', P s -> run s tr = Some s' -> P s'.
Proof.
  intros Hstep tr; induction tr as [|l tr IH]; intros s s' Hs Hr; cbn in Hr.
  - now inversion Hr; subst.
  - destruct (step s l) as [s1|] eqn:E; [|discriminate]. eauto.
Qed.

(* ---------- the invariant ---------- *)
Definition w_sc (w : wpc) : option bool :=
  match w with WIdle => None | WChk _ sc | WSel _ sc | WBlk _ sc => Some sc end.
Definition w_past_check (w : wpc) : bool := match w with WSel _ _ | WBlk _ _ => true | _ => false end.

Definition ev_sc_ok (e : ev) : Prop := match e with EvW _ true r => r = WClosed | _ => True end.
Definition ev_err_ok (e : ev) : Prop := match e with EvR n d r => (r <> ROk -> d = []) /\ lenN d <= n | _ => True end.
Definition is_eof (e : ev) : bool := match e with EvR _ _ REof => true | _ => false end.

(* every EOF in the log was returned at a moment when everything successfully written had been read *)
Fixpoint eof_ok (h : list ev) : Prop :=
  match h with
  | [] => True
  | e :: h' => (is_eof e = true -> read_h h = written_h h) /\ eof_ok h'
  end.

Definition r_rem (r : rpc) : option (N * N * N) :=    (* buffer size, remaining, copied so far *)
  match r with
  | RIdle => None
  | RNeed n rem acc _ => Some (n, rem, lenN acc)
  | RWait n rem | RAfterDl n rem | RAfterStop n rem => Some (n, rem, 0)
  end.

Record inv (s : dstate) : Prop := mkInv {
  i_cur : rp s <> RIdle -> cur s = [];
  i_mb : forall n rem acc, rp s = RNeed n rem acc true -> acc = [];
  i_stream : read_h (hist s) ++ in_flight s = written_h (hist s);
  i_sc : w_sc (wp s) = Some true -> stopped s = true;
  i_past : w_past_check (wp s) = true -> w_sc (wp s) = Some false;
  i_hist_sc : Forall ev_sc_ok (hist s);
  i_hist_err : Forall ev_err_ok (hist s);
  i_eof : eof_ok (hist s);
  i_eof_stopped : existsb is_eof (hist s) = true -> stopped s = true;
  i_after_stop : (exists n rem, rp s = RAfterStop n rem) -> stopped s = true;
  i_cap : lenN (chan s) <= chan_cap;
  i_rem : forall n rem k, r_rem (rp s) = Some (n, rem, k) -> rem + k = n /\ 0 < rem
}.

Lemma inv_init : inv dinit.
Proof.
  constructor; cbn; try easy; try (intros; discriminate).
  all: try (intros [n [rem H]]; discriminate).
  all: try lia.
Qed.

(* ---------- the reader's local computations ---------- *)
Lemma lenN_app {A} (a b : list A) : lenN (a ++ b) = lenN a + lenN b.
Proof. unfold lenN. rewrite app_length. lia. Qed.
Lemma lenN_firstn_le {A} (k : N) (l : list A) : k <= lenN l -> lenN (firstn (N.to_nat k) l) = k.
Proof. unfold lenN. intros H. rewrite firstn_length. lia. Qed.

Lemma r_copy_cases s n rem acc :
  let k := N.min rem (lenN (cur s)) in
  let s' := r_copy s n rem acc in
  chan s' = chan s /\ stopped s' = stopped s /\ wdl s' = wdl s /\ rdl s' = rdl s /\ wp s' = wp s /\
  ((rem - k = 0 /\ rp s' = RIdle /\ cur s' = skipn (N.to_nat k) (cur s) /\
    hist s' = EvR n (acc ++ firstn (N.to_nat k) (cur s)) ROk :: hist s)
   \/
   (rem - k <> 0 /\ rp s' = RNeed n (rem - k) (acc ++ cur s) false /\ cur s' = [] /\ hist s' = hist s /\ k = lenN (cur s))).
Proof.
  cbv zeta. unfold r_copy.
  destruct (rem - N.min rem (lenN (cur s)) =? 0) eqn:E.
  - apply N.eqb_eq in E. cbn. do 5 (split; [reflexivity|]). left. repeat split; auto.
  - apply N.eqb_neq in E. cbn. do 5 (split; [reflexivity|]). right.
    assert (Hk : N.min rem (lenN (cur s)) = lenN (cur s)) by lia.
    rewrite Hk. unfold lenN. rewrite Nat2N.id, firstn_all, skipn_all. repeat split; auto. unfold lenN in *; lia.
Qed.

(* bytes: what has been handed to the caller plus what the reader still holds is unchanged by a copy *)
Lemma r_copy_stream s n rem acc :
  let s' := r_copy s n rem acc in
  read_h (hist s') ++ racc (rp s') ++ cur s' = read_h (hist s) ++ acc ++ cur s.
Proof.
  cbv zeta. destruct (r_copy_cases s n rem acc) as (_ & _ & _ & _ & _ & [C|C]).
  - destruct C as (_ & Hr & Hc & Hh). rewrite Hr, Hc, Hh. cbn.
    rewrite <- !app_assoc. now rewrite firstn_skipn.
  - destruct C as (_ & Hr & Hc & Hh & _). rewrite Hr, Hc, Hh. cbn. now rewrite app_nil_r.
Qed.

Ltac step_cases H :=
  unfold step in H;
  repeat match type of H with
         | context [match ?x with _ => _ end] => destruct x eqn:?
         end;
  try discriminate; inversion H; subst; clear H.





Ltac easy_field :=
  first [ assumption | reflexivity | discriminate | congruence | lia
        | (intros; congruence) | (intros; discriminate)
        | (intros [? [? ?]]; congruence) ].
Ltac norm :=
  unfold set_wp, set_rp, w_finish, w_send, r_finish, in_flight in *; cbn [chan cur stopped wdl rdl wp rp hist] in *;
  repeat match goal with H : wp _ = _ |- _ => rewrite H in * end;
  repeat match goal with H : rp _ = _ |- _ => rewrite H in * end; cbn in *.

Lemma is_nil_true {A} (l : list A) : is_nil l = true -> l = [].
Proof. destruct l; [reflexivity|discriminate]. Qed.

(* state before the copy of pipeConn.read: `acc` already handed over, bb = cur t *)
Lemma inv_r_copy t n rem acc :
  read_h (hist t) ++ acc ++ cur t ++ concat (chan t) = written_h (hist t) ->
  (w_sc (wp t) = Some true -> stopped t = true) ->
  (w_past_check (wp t) = true -> w_sc (wp t) = Some false) ->
  Forall ev_sc_ok (hist t) -> Forall ev_err_ok (hist t) -> eof_ok (hist t) ->
  (existsb is_eof (hist t) = true -> stopped t = true) ->
  lenN (chan t) <= chan_cap ->
  rem + lenN acc = n -> 0 < rem ->
  inv (r_copy t n rem acc).
Proof.
  intros Hs Hsc Hpast Hhsc Hherr Heof Heofs Hcap Hrem Hpos.
  pose proof (r_copy_stream t n rem acc) as Hst. cbv zeta in Hst.
  destruct (r_copy_cases t n rem acc) as (Ech & Est & _ & _ & Ewp & C). cbv zeta in *.
  set (t' := r_copy t n rem acc) in *.
  assert (Hstream : read_h (hist t') ++ in_flight t' = written_h (hist t')).
  { unfold in_flight. rewrite Ech.
    destruct C as [(_ & _ & _ & Hh)|(_ & _ & _ & Hh & _)]; rewrite Hh at 2; cbn [written_h];
      rewrite <- Hs; rewrite !app_assoc; rewrite !app_assoc in Hst; now rewrite Hst. }
  destruct C as [(Hk & Hr & Hc & Hh)|(Hk & Hr & Hc & Hh & Hkk)].
  - constructor; try exact Hstream; rewrite ?Hr, ?Hh, ?Est, ?Ewp, ?Ech; cbn; auto; try easy_field.
    + constructor; auto. cbn. auto.
    + constructor; auto. cbn. split; [congruence|].
      rewrite lenN_app. assert (lenN (firstn (N.to_nat (N.min rem (lenN (cur t)))) (cur t)) = N.min rem (lenN (cur t))).
      { apply lenN_firstn_le. lia. } lia.
    + split; [discriminate|assumption].
  - constructor; try exact Hstream; rewrite ?Hr, ?Hh, ?Est, ?Ewp, ?Ech; cbn; auto; try easy_field.
    + intros n0 rem0 k E. inversion E; subst. rewrite lenN_app. lia.
Qed.


Lemma inv_r_take s n rem acc s' :
  inv s -> rp s <> RIdle -> racc (rp s) = acc -> r_rem (rp s) = Some (n, rem, lenN acc) ->
  r_take s n rem acc = Some s' -> inv s'.
Proof.
  intros I Hne Hacc Hrem Ht. destruct I as [Icur Imb Istream Isc Ipast Ihsc Iherr Ieof Ieofs Iafter Icap Irem].
  unfold r_take in Ht. destruct (chan s) as [|b rest] eqn:Ec; [discriminate|]. inversion Ht; subst s'; clear Ht.
  destruct (Irem _ _ _ Hrem) as [R1 R2].
  apply inv_r_copy; cbn [chan cur stopped wdl rdl wp rp hist]; auto.
  - unfold in_flight in Istream. rewrite (Icur Hne), Hacc, Ec in Istream. cbn in Istream. exact Istream.
  - unfold lenN in *. cbn in Icap. lia.
Qed.

Lemma inv_r_head s n : inv s -> rp s = RIdle -> inv (r_head s n n [] true).
Proof.
  intros I Hr. destruct I as [Icur Imb Istream Isc Ipast Ihsc Iherr Ieof Ieofs Iafter Icap Irem].
  unfold in_flight in Istream. rewrite Hr in Istream. cbn in Istream.
  unfold r_head. destruct (n =? 0) eqn:En.
  - constructor; norm; try easy_field.
    + now rewrite app_nil_r.
    + constructor; auto. exact I.
    + constructor; auto. cbn. split; [congruence|lia].
    + split; [discriminate|assumption].
  - apply N.eqb_neq in En. destruct (cur s) as [|c cs] eqn:Ec.
    + constructor; norm; try easy_field.
      * rewrite Ec. exact Istream.
      * intros ? ? ? E; inversion E; subst. lia.
    + apply inv_r_copy; auto.
      * rewrite Ec. exact Istream.
      * cbn. lia.
      * lia.
Qed.


Lemma has_room_cap s p : has_room s = true -> lenN (chan s ++ [p]) <= chan_cap.
Proof. unfold has_room, lenN. rewrite app_length. cbn [length]. intros H. apply N.ltb_lt in H. lia. Qed.

Lemma inv_step s l s' : inv s -> step s l = Some s' -> inv s'.
Proof.
  intros I H. step_cases H.
  all: try (apply inv_r_head; assumption).
  all: try match goal with
           | Ht : r_take _ _ _ _ = Some _, Hr : rp _ = _ |- _ =>
               eapply inv_r_take; [exact I | rewrite Hr; discriminate | rewrite Hr; reflexivity | rewrite Hr; reflexivity | exact Ht]
           end.
  all: destruct I as [Icur Imb Istream Isc Ipast Ihsc Iherr Ieof Ieofs Iafter Icap Irem].
  all: try (constructor; norm; try easy_field).
  all: try (match goal with H : is_nil (chan _) = true |- _ => apply is_nil_true in H; rewrite H in *; cbn in * end).
  all: try solve [ constructor; [exact Logic.I | assumption] ].
  all: try solve [ split; [discriminate | assumption] ].
  all: try solve [ apply has_room_cap; assumption ].
  all: try solve [ intros _; apply Icur; discriminate ].
  all: try solve [ intros ? ? ? E; inversion E; subst; edestruct Irem as [R1 R2]; [reflexivity|]; cbn in *; lia ].
  (* sc flags *)
  all: try solve [ intros _; destruct sc; [rewrite Isc in *; [discriminate|reflexivity] | reflexivity] ].
  all: try solve [ constructor; [ cbn; destruct sc; [reflexivity || (specialize (Ipast eq_refl); discriminate) | exact Logic.I] | assumption ] ].
  (* streams *)
  all: try solve [ rewrite concat_app; cbn [concat]; rewrite app_nil_r, <- Istream; rewrite <- ?app_assoc; reflexivity ].
  all: try solve [ rewrite (Imb _ _ _ eq_refl) in Istream; rewrite (Icur ltac:(discriminate)) in *; exact Istream ].
  all: try solve [ rewrite <- ?app_assoc; cbn; exact Istream ].
  all: try solve [ constructor; [ cbn; split; [congruence|]; edestruct Irem as [R1 R2]; [reflexivity|]; cbn in *; lia | assumption ] ].
  all: try solve [ constructor; [ cbn; split; [reflexivity|lia] | assumption ] ].
  all: try solve [ split; [ intros _; rewrite app_nil_r; rewrite (Icur ltac:(discriminate)) in Istream; cbn in Istream; rewrite app_nil_r in Istream; exact Istream | assumption ] ].
  all: try solve [ intros _; apply Iafter; eauto ].
  - intros _. destruct sc; [|reflexivity]. specialize (Isc eq_refl). congruence.
  - intros ? ? ? E; inversion E; subst. pose proof (Imb _ _ _ eq_refl); subst.
    edestruct Irem as [R1 R2]; [reflexivity|]. cbn in *. lia.
Qed.

Lemma reach_inv tr s : reach tr s -> inv s.
Proof. unfold reach. apply (inv_run inv inv_step). exact inv_init. Qed.

(* ---------- consequences, in the form used by Properties/C33.v ---------- *)

(* bytes read so far ++ bytes held between the ends = bytes successfully written so far *)
Lemma stream_exact tr s : reach tr s -> read_h (hist s) ++ in_flight s = written_h (hist s).
Proof. intros R. exact (i_stream _ (reach_inv _ _ R)). Qed.

Lemma stream_prefix tr s : reach tr s -> exists rest, written_h (hist s) = read_h (hist s) ++ rest.
Proof. intros R. exists (in_flight s). symmetry. now apply (stream_exact tr). Qed.

(* a Read that returns an error returns no bytes; a Read never returns more than its buffer holds *)
Lemma read_events_ok tr s n d r : reach tr s -> In (EvR n d r) (hist s) -> (r <> ROk -> d = []) /\ lenN d <= n.
Proof.
  intros R Hin. pose proof (i_hist_err _ (reach_inv _ _ R)) as F.
  rewrite Forall_forall in F. exact (F _ Hin).
Qed.

(* a Write that started after Close fails with ErrConnectionClosed (and contributes nothing: written_h ignores it) *)
Lemma write_after_close tr s p r : reach tr s -> In (EvW p true r) (hist s) -> r = WClosed.
Proof.
  intros R Hin. pose proof (i_hist_sc _ (reach_inv _ _ R)) as F.
  rewrite Forall_forall in F. exact (F _ Hin).
Qed.

(* the log up to and including an event *)
Lemma eof_ok_split h1 e h2 : eof_ok (h1 ++ e :: h2) -> is_eof e = true -> read_h (e :: h2) = written_h (e :: h2).
Proof. induction h1 as [|x h1 IH]; cbn [app eof_ok]; intros [H1 H2] He; auto. Qed.

(* every EOF was returned after Close and at a moment when everything written so far had been read *)
Lemma eof_means_drained tr s later n d earlier :
  reach tr s -> hist s = later ++ EvR n d REof :: earlier ->
  stopped s = true /\ d = [] /\ read_h earlier = written_h earlier.
Proof.
  intros R Hh. pose proof (reach_inv _ _ R) as I.
  split; [|split].
  - apply (i_eof_stopped _ I). rewrite Hh. rewrite existsb_app. cbn. now rewrite orb_true_r.
  - destruct (read_events_ok tr s n d REof R) as [Hd _]; [rewrite Hh; apply in_or_app; right; left; reflexivity|].
    apply Hd. discriminate.
  - pose proof (i_eof _ I) as E. rewrite Hh in E. apply eof_ok_split in E; [|reflexivity].
    cbn in E. destruct (read_events_ok tr s n d REof R) as [Hd _]; [rewrite Hh; apply in_or_app; right; left; reflexivity|].
    rewrite (Hd ltac:(discriminate)), app_nil_r in E. exact E.
Qed.

(* the channel never holds more than its capacity *)
Lemma chan_bounded tr s : reach tr s -> lenN (chan s) <= chan_cap.
Proof. intros R. exact (i_cap _ (reach_inv _ _ R)). Qed.

(* ---------- the pair ---------- *)
Lemma step_close_total s : exists s', step s LClose = Some s'.
Proof. unfold step. destruct (wp s), (rp s); eauto. Qed.

Lemma preach_proj tr s : preach tr s -> (exists t1, reach t1 (ab s)) /\ (exists t2, reach t2 (ba s)).
Proof.
  unfold preach. assert (G : forall tr s0 s, (exists t1, reach t1 (ab s0)) /\ (exists t2, reach t2 (ba s0)) ->
                            prun s0 tr = Some s -> (exists t1, reach t1 (ab s)) /\ (exists t2, reach t2 (ba s))).
  { clear. intros tr. induction tr as [|l tr IH]; intros s0 s H0 Hr; cbn in Hr.
    - inversion Hr; subst; exact H0.
    - destruct (pstep s0 l) as [s1|] eqn:E; [|discriminate]. apply (IH s1 s); auto.
      destruct H0 as [[t1 R1] [t2 R2]]. unfold reach in *.
      destruct l as [l|l|]; unfold pstep in E.
      + destruct (is_close l); [discriminate|]. destruct (step (ab s0) l) as [d|] eqn:Ed; [|discriminate].
        inversion E; subst; cbn. split; [exists (t1 ++ [l])|exists t2; exact R2].
        rewrite run_app, R1. cbn [run]. now rewrite Ed.
      + destruct (is_close l); [discriminate|]. destruct (step (ba s0) l) as [d|] eqn:Ed; [|discriminate].
        inversion E; subst; cbn. split; [exists t1; exact R1|exists (t2 ++ [l])].
        rewrite run_app, R2. cbn [run]. now rewrite Ed.
      + destruct (step (ab s0) LClose) as [d1|] eqn:E1; [|discriminate].
        destruct (step (ba s0) LClose) as [d2|] eqn:E2; [|discriminate].
        inversion E; subst; cbn. split; [exists (t1 ++ [LClose])|exists (t2 ++ [LClose])].
        * rewrite run_app, R1. cbn [run]. now rewrite E1.
        * rewrite run_app, R2. cbn [run]. now rewrite E2. }
  intros Hr. apply (G tr pinit s); auto. split; exists []; reflexivity.
Qed.

(* ---------- call level: what a Read returns once the pipe is closed ---------- *)
Definition read_done (s' : dstate) (n : N) (h0 : list ev) : Prop :=
  rp s' = RIdle /\ wp s' = WIdle /\ exists d, hist s' = EvR n d ROk :: h0.

Lemma r_copy_shape t n rem acc h0 :
  wp t = WIdle -> hist t = h0 ->
  let t' := r_copy t n rem acc in
  wp t' = WIdle /\ (read_done t' n h0 \/ (exists rem' acc', rp t' = RNeed n rem' acc' false /\ hist t' = h0)).
Proof.
  intros Hw Hh. cbv zeta. destruct (r_copy_cases t n rem acc) as (_ & _ & _ & _ & Ewp & C). cbv zeta in C.
  split; [congruence|].
  destruct C as [(_ & Hr & _ & Hh')|(_ & Hr & _ & Hh' & _)].
  - left. repeat split; try congruence. eexists. rewrite Hh', Hh. reflexivity.
  - right. do 2 eexists. split; [exact Hr|congruence].
Qed.

Lemma loop_ok fuel : forall s n h0,
  wp s = WIdle ->
  (read_done s n h0 \/ (exists rem acc, rp s = RNeed n rem acc false /\ hist s = h0)) ->
  forall s', In s' (read_loop fuel s) -> read_done s' n h0.
Proof.
  induction fuel as [|f IH]; intros s n h0 Hw Hs s' Hin.
  - destruct Hs as [Hd|(rem & acc & Hr & Hh)].
    + pose proof Hd as (Hr & _). cbn in Hin. rewrite Hr in Hin. destruct Hin as [<-|[]]. exact Hd.
    + cbn in Hin. rewrite Hr in Hin. destruct Hin.
  - destruct Hs as [Hd|(rem & acc & Hr & Hh)].
    + pose proof Hd as (Hr & _). cbn in Hin. rewrite Hr in Hin. destruct Hin as [<-|[]]. exact Hd.
    + cbn [read_loop] in Hin. rewrite Hr in Hin.
      assert (Hslow : step s LWSendSlow = None) by (unfold step; rewrite Hw; reflexivity).
      assert (Hfast : step s LRTakeFast = r_take s n rem acc) by (unfold step; rewrite Hr; destruct (wp s); reflexivity).
      assert (Hdef : step s LRTakeDefault = if is_nil (chan s) then Some (r_finish s n acc ROk) else None)
        by (unfold step; rewrite Hr; destruct (wp s); reflexivity).
      rewrite Hslow, app_nil_r, Hfast, Hdef in Hin.
      unfold r_take in Hin. destruct (chan s) as [|b rest] eqn:Ec.
      * cbn [is_nil] in Hin. (* RTakeDefault with mb = false: return what we have *)
        assert (E : read_loop f (r_finish s n acc ROk) = [r_finish s n acc ROk]) by (destruct f; reflexivity).
        rewrite E in Hin. destruct Hin as [<-|[]]. repeat split; cbn; auto. eexists. now rewrite Hh.
      * match type of Hin with In _ (read_loop f ?t) => set (t' := t) in * end.
        assert (Hc := r_copy_shape (mkD rest b (stopped s) (wdl s) (rdl s) (wp s) (rp s) (hist s)) n rem acc h0 Hw Hh).
        cbv zeta in Hc. destruct Hc as [Hw' Hc]. apply (IH t' n h0 Hw' Hc s' Hin).
Qed.

Lemma loop_from_ok o n h0 s' :
  (forall s, o = Some s -> wp s = WIdle /\ (read_done s n h0 \/ (exists rem acc, rp s = RNeed n rem acc false /\ hist s = h0))) ->
  In s' (loop_from o) -> read_done s' n h0.
Proof.
  intros H Hin. destruct o as [s|]; [|destruct Hin]. destruct (H s eq_refl) as [Hw Hs].
  unfold loop_from in Hin. eapply loop_ok; eauto.
Qed.

(* while something is still buffered, a Read (non-empty buffer, idle writer) returns data with a nil error:
   never EOF, never a timeout, and it does not park — whatever the deadline and whether or not the pipe is closed *)
Lemma read_gets_data s soon n :
  rp s = RIdle -> wp s = WIdle -> n <> 0 -> (cur s <> [] \/ chan s <> []) ->
  forall s', In s' (exec_read s soon n) -> read_done s' n (hist s).
Proof.
  intros Hr Hw Hn Hdata s' Hin.
  unfold exec_read in Hin. apply in_flat_map in Hin. destruct Hin as (s1 & Hin1 & Hin2).
  assert (D : read_done s1 n (hist s)).
  { unfold read_start in Hin1.
    assert (E : step s (LRStart n) = Some (r_head s n n [] true)) by (unfold step; rewrite Hr; destruct (wp s); reflexivity).
    rewrite E in Hin1. unfold r_head in *. apply N.eqb_neq in Hn. rewrite Hn in *.
    destruct (cur s) as [|c cs] eqn:Ec.
    - destruct (chan s) as [|b rest] eqn:Ech; [destruct Hdata; congruence|].
      cbn [rp set_rp] in Hin1.
      assert (F : step (set_rp s (RNeed n n [] true)) LRTakeFast =
                  Some (r_copy (mkD rest b (stopped s) (wdl s) (rdl s) (wp s) (RNeed n n [] true) (hist s)) n n []))
        by (unfold step, r_take, set_rp; cbn [rp wp chan cur stopped wdl rdl hist]; rewrite Hw, Ech; reflexivity).
      rewrite F in Hin1. eapply loop_from_ok; [|exact Hin1].
      intros t Et. inversion Et; subst t.
      apply (r_copy_shape (mkD rest b (stopped s) (wdl s) (rdl s) (wp s) (RNeed n n [] true) (hist s)) n n [] (hist s)); auto.
    - pose proof (r_copy_shape s n n [] (hist s) Hw eq_refl) as Hc. cbv zeta in Hc.
      set (t := r_copy _ n n []) in *. destruct Hc as [Hw' Hc].
      assert (Hin1' : In s1 (loop_from (Some t))).
      { destruct Hc as [(Hrt & _)|(rem' & acc' & Hrt & _)]; rewrite Hrt in Hin1; exact Hin1. }
      eapply loop_from_ok; [|exact Hin1']. intros t0 Et. inversion Et; subst t0. auto. }
  destruct D as (Hr1 & Hw1 & Hd). unfold settle_r, r_parked in Hin2. rewrite Hr1 in Hin2.
  destruct Hin2 as [<-|[]]. repeat split; auto.
Qed.

(* closed, nothing buffered, no expired deadline: Read returns io.EOF at once (exactly one outcome) *)
Lemma eof_when_drained s n :
  rp s = RIdle -> stopped s = true -> n <> 0 -> cur s = [] -> chan s = [] -> rdl s <> DFired ->
  exec_read s false n = [r_finish (set_rp s (RAfterStop n n)) n [] REof].
Proof.
  intros Hr Hs Hn Hc Hch Hdl. apply N.eqb_neq in Hn.
  destruct s as [ch cu st wd rd w r h]. cbn in *. subst.
  unfold exec_read, read_start, step, r_head. cbn. rewrite Hn. cbn.
  destruct w; cbn; rewrite ?Hn; cbn; destruct rd; try congruence; cbn; reflexivity.
Qed.

(* closed: a Write fails with ErrConnectionClosed, nothing is queued (exactly one outcome) *)
Lemma write_fails_when_closed s soon p :
  wp s = WIdle -> stopped s = true ->
  exec_write s soon p = [w_finish (set_wp s (WChk p true)) p true WClosed].
Proof.
  intros Hw Hs. destruct s as [ch cu st wd rd w r h]. cbn in *. subst.
  unfold exec_write, write_start, step. cbn. destruct r; reflexivity.
Qed.

