(* PipelineFifo.v — per-connection FIFO matching of responses to requests in the PipelineClient LTS (used by C38, reusable by C04). *)
From Coq Require Import Lia ZifyBool ZifyN ZifyNat.
From FH Require Import Model.Base Model.Pipeline Proof.PipelineProof.
Open Scope N_scope.

Definition holdw_l (w : wstate) : list nat := match w with WHold x => [x] | _ => [] end.
Definition holdr_l (r : rstate) : list nat := match r with RHold x => [x] | _ => [] end.

(* while the reader runs, the requests written on this connection are: those whose response was read, the one being read, those
   waiting in chR, the one in the writer's hand — in this order (then, once the writer has stopped, possibly one more it dropped) *)
Definition InvD (s : st) : Prop :=
  (rd s <> RDown -> exists suffix, wlog s = rlog s ++ holdr_l (rd s) ++ chR s ++ holdw_l (wr s) ++ suffix
                                   /\ (wr s <> WDown -> suffix = [])) /\
  (exists rest, wlog s = rlog s ++ rest) /\
  (md s = Down -> wr s = WDown /\ rd s = RDown /\ chR s = []).

Ltac sl := rewrite <- ?app_assoc; cbn [app]; rewrite ?app_nil_r; try reflexivity; try congruence.
Ltac tryw x :=
  exists x; split;
  [ first [ solve [match goal with E : wlog _ = _ |- _ => rewrite E end; sl]
          | solve [match goal with C : chR _ = [] |- _ => rewrite C end; sl] | solve [sl] ]
  | first [intros; reflexivity | intros X; exfalso; apply X; reflexivity | assumption] ].

Lemma invD c : forall s, reach c s -> InvD s.
Proof.
  apply reach_inv.
  - unfold InvD. cbn. repeat split; try congruence. exists []. reflexivity.
  - intros s l s1 (D1 & D2 & D3) H. destruct l; step_cases H; unfold stopping, InvD in *; simp_st.
    all: try exact (conj D1 (conj D2 D3)).
    all: use_eqs; cbn [holdw_l holdr_l] in *.
    all: try exact (conj D1 (conj D2 D3)).
    all: split; [intros Hrd | split; [ | intros Hmd ]].
    (* third component: only LDrainEnd reaches Down *)
    all: try (exfalso; discriminate Hmd).
    all: try (destruct (md s) eqn:Em; try discriminate Hmd;
              destruct (D3 eq_refl) as (A3 & B3 & C3); try discriminate A3; try discriminate B3;
              repeat split; congruence).
    all: try (destruct (D3 Hmd) as (A3 & B3 & C3); try discriminate A3; try discriminate B3; fail).
    all: try (repeat split; reflexivity).
    (* second component: prefix *)
    all: try exact D2.
    all: try (exfalso; apply Hrd; reflexivity).
    all: try (destruct D1 as (suf & E & Hs); [first [exact Hrd | discriminate] |]).
    all: try (assert (Es : suf = []) by (apply Hs; discriminate); subst suf).
    all: try (destruct D2 as (rest & E2)).
    all: try (destruct (D3 Heqm) as (A3 & B3 & C3)).
    all: try (solve [ tryw (@nil nat) | tryw suf | tryw [id] ]).
    all: try (solve [ exists (@nil nat); reflexivity
                    | exists (rest ++ [n]); rewrite E2; sl
                    | exists (chR s ++ holdw_l (wr s) ++ suf); rewrite E; sl ]).
    destruct (D3 eq_refl) as (A3 & B3 & C3). exists []. rewrite C3. split; [reflexivity | intros; reflexivity].
Qed.

(* the k-th response read on a connection is handed to the item of the k-th request written on it *)
Theorem fifo c s : reach c s -> exists rest, wlog s = rlog s ++ rest.
Proof. intros Hr. destruct (invD c s Hr) as (_ & D2 & _). exact D2. Qed.

Corollary fifo_nth c s k id : reach c s -> nth_error (rlog s) k = Some id -> nth_error (wlog s) k = Some id.
Proof.
  intros Hr Hk. destruct (fifo c s Hr) as (rest & E). rewrite E.
  rewrite nth_error_app1; [exact Hk|]. apply nth_error_Some. congruence.
Qed.
