(* PipelineProof.v — invariants of the PipelineClient LTS (Model/Pipeline.v) over all reachable states. *)
From Coq Require Import Lia ZifyBool ZifyN ZifyNat.
From FH Require Import Model.Base Model.Pipeline.
Open Scope N_scope.

Lemma reach_inv (c : nat) (P : st -> Prop) :
  P (init c) -> (forall s l s1, P s -> step s l = Some s1 -> P s1) -> forall s, reach c s -> P s.
Proof. intros H0 Hs s Hr. induction Hr; eauto. Qed.

Ltac simp_st :=
  cbn [cap now nitems items chW chR wr rd md wlog rlog upd_item with_queues with_wr with_rd with_md with_logs
       set_pc set_sent signal i_dl i_called i_pc i_sent i_done i_signals] in *.

(* case analysis of one step: one goal per (label, branch of the transition function) *)
Ltac step_cases H :=
  unfold step in H;
  repeat match type of H with
         | context [match ?x with _ => _ end] => destruct x eqn:?
         | context [if ?x then _ else _] => destruct x eqn:?
         end;
  try discriminate H; injection H as <-.

Ltac use_eqs := repeat match goal with E : ?f ?s = _ |- _ => rewrite E in * end.

(* ---- A. queue bounds ----------------------------------------------------------------------------------------- *)
Lemma bounds c : forall s, reach c s -> cap s = c /\ (length (chW s) <= cap s)%nat /\ (length (chR s) <= cap s)%nat.
Proof.
  apply reach_inv.
  - cbn. lia.
  - intros s l s1 (Hc & Hw & Hr) H. destruct l; step_cases H; unfold stopping, full in *; simp_st;
      repeat match goal with |- context [match ?x with _ => _ end] => destruct x end; simp_st;
      rewrite ?app_length in *; cbn [length] in *; try (split; [assumption|]); try lia;
      match goal with E : chR _ = [] |- _ => rewrite E; cbn; lia end.
Qed.

(* ---- B. time ---------------------------------------------------------------------------------------------------- *)
Definition timeB (s : st) (it : item) : Prop :=
  match i_pc it with
  | PNone => True
  | PEnq | PWait => i_called it <= now s /\ forall d, i_dl it = Some d -> now s <= d
  | PSubst => i_called it <= now s /\ i_dl it = None
  | PRet r t => t <= now s /\ i_called it <= t /\ forall d, i_dl it = Some d -> t <= N.max d (i_called it)
  end.

Definition InvB (s : st) : Prop :=
  (forall id, (nitems s <= id)%nat -> i_pc (items s id) = PNone) /\ forall id, timeB s (items s id).

Lemma existsb_seq_false f n : existsb f (seq 0 n) = false -> forall id, (id < n)%nat -> f id = false.
Proof.
  intros H id Hid. destruct (f id) eqn:E; [|reflexivity].
  assert (X : existsb f (seq 0 n) = true) by (apply existsb_exists; exists id; split; [apply in_seq; lia|exact E]).
  congruence.
Qed.

Ltac split_ids :=
  repeat match goal with
         | |- context [Nat.eqb ?a ?b] => destruct (Nat.eqb_spec a b); [subst|]
         | H : context [Nat.eqb ?a ?b] |- _ => destruct (Nat.eqb_spec a b); [subst|]
         end.
Ltac inst_dl :=
  repeat match goal with H : forall d, ?x = Some d -> _, E : ?x = Some _ |- _ => pose proof (H _ E); clear H end.
Ltac crush_match :=
  repeat match goal with
         | |- context [match ?x with _ => _ end] => destruct x eqn:?
         | H : context [match ?x with _ => _ end] |- _ => destruct x eqn:?
         end.

Lemma invB c : forall s, reach c s -> InvB s.
Proof.
  apply reach_inv.
  - split; intros; cbn; auto.
  - intros s l s1 (Hn & Ht) H. destruct l; step_cases H; unfold stopping in *; simp_st.
    all: try (split; [exact Hn | exact Ht]).
    all: split;
      [ intros j Hj; simp_st; split_ids; try (apply Hn; lia); try lia;
        try (pose proof (Hn _ Hj); simp_st; congruence)
      | intros j; pose proof (Ht j) as Hj; unfold timeB in *; simp_st; split_ids; try exact Hj ].
    all: try (unfold reached in *; use_eqs; simp_st; crush_match; simp_st;
              repeat match goal with H : _ /\ _ |- _ => destruct H end;
              repeat split; intros; inst_dl;
              repeat match goal with H : Some _ = Some _ |- _ => injection H as ? end; subst;
              try congruence; try lia; eauto; fail).
    (* LTick: no caller whose deadline is reached sits in a select *)
    destruct (Compare_dec.le_lt_dec (nitems s) j) as [Hge|Hlt].
    + rewrite (Hn _ Hge). exact I.
    + pose proof (existsb_seq_false _ _ Heqb j Hlt) as Hu. cbv beta in Hu. unfold urgent, reached in Hu.
      destruct (i_pc (items s j)); try exact I;
        repeat match goal with H : _ /\ _ |- _ => destruct H end; repeat split; intros; inst_dl; try lia; try assumption;
        match goal with E : i_dl _ = Some _ |- _ => rewrite E in Hu end; lia.
Qed.

Lemma reach_inv' (c : nat) (P : st -> Prop) :
  P (init c) -> (forall s l s1, reach c s -> P s -> step s l = Some s1 -> P s1) -> forall s, reach c s -> P s.
Proof. intros H0 Hs s Hr. induction Hr; eauto. Qed.

(* ---- C. every work item is in at most one place; overflow items were never written; one token per item ----------- *)
Definition cnt (l : list nat) (id : nat) : nat := count_occ Nat.eq_dec l id.
Definition hw (w : wstate) (id : nat) : nat := match w with WHold x => if Nat.eqb x id then 1%nat else 0%nat | _ => 0%nat end.
Definition hr (r : rstate) (id : nat) : nat := match r with RHold x => if Nat.eqb x id then 1%nat else 0%nat | _ => 0%nat end.
(* number of places (chW, the writer's hand, chR, the reader's hand) holding item id *)
Definition infl (s : st) (id : nat) : nat := (cnt (chW s) id + hw (wr s) id + cnt (chR s) id + hr (rd s) id)%nat.

Definition waitish (p : pc) : Prop := match p with PWait | PRet RTimeout _ => True | _ => False end.
Definition early (p : pc) : Prop := match p with PNone | PEnq | PSubst => True | _ => False end.
Definition ret_overflow (p : pc) : Prop := match p with PRet ROverflow _ => True | _ => False end.

Lemma cnt_app l1 l2 id : cnt (l1 ++ l2) id = (cnt l1 id + cnt l2 id)%nat.
Proof. apply count_occ_app. Qed.
Lemma cnt_cons x l id : cnt (x :: l) id = ((if Nat.eqb x id then 1 else 0) + cnt l id)%nat.
Proof. unfold cnt. cbn. destruct (Nat.eq_dec x id), (Nat.eqb_spec x id); try contradiction; reflexivity. Qed.
Lemma cnt_nil id : cnt [] id = 0%nat.
Proof. reflexivity. Qed.

(* C1: placement *)
Definition itemC1 (s : st) (id : nat) : Prop :=
  let it := items s id in
  (infl s id <= 1)%nat /\
  ((1 <= infl s id)%nat -> i_done it = None /\ waitish (i_pc it)) /\
  (early (i_pc it) -> i_done it = None).

Ltac prep HC j Hj :=
  intros j; pose proof (HC j) as Hj; unfold infl in *; simp_st; use_eqs;
  rewrite ?cnt_app, ?cnt_cons, ?cnt_nil in *; simp_st; cbn [hw hr] in *.
Ltac fin :=
  split_ids; simp_st; use_eqs;
  try match goal with |- context [PRet ?r _] => is_var r; destruct r end;
  cbn [waitish early ret_overflow hw hr] in *;
  repeat match goal with H : _ /\ _ |- _ => destruct H end;
  repeat match goal with
         | H : (?a <= ?b)%nat -> _ |- _ =>
             destruct (Compare_dec.le_lt_dec a b) as [?X|?X]; [specialize (H X)|clear H]
         | H : _ /\ _ |- _ => destruct H
         end;
  repeat split; intros;
  repeat match goal with
         | H : ?a -> _ |- _ =>
             match type of a with Prop => idtac end;
             let X := fresh in assert (X : a) by (first [lia | exact I | assumption | congruence | left; assumption | right; assumption | left; congruence]); specialize (H X)
         | H : _ /\ _ |- _ => destruct H
         | H : _ \/ _ |- _ => destruct H
         | H : _ <-> _ |- _ => destruct H
         end;
  cbn [waitish early ret_overflow] in *;
  try lia; try (exfalso; lia); try congruence; try contradiction; try assumption; try exact I;
  try (match goal with H1 : waitish ?p, H2 : early ?p |- _ =>
         exfalso; clear - H1 H2; destruct p as [| | | |[] ?]; cbn in H1, H2; contradiction end);
  try (match goal with H1 : waitish ?p, H2 : ret_overflow ?p |- _ =>
         exfalso; clear - H1 H2; destruct p as [| | | |[] ?]; cbn in H1, H2; contradiction end).

Lemma invC1 c : forall s, reach c s -> forall id, itemC1 s id.
Proof.
  apply (reach_inv' c (fun s => forall id, itemC1 s id)).
  - intros id. unfold itemC1, infl. cbn. intuition (try lia; try congruence).
  - intros s l s1 Hr HC H. pose proof (invB c s Hr) as (HBn & _).
    destruct l; step_cases H; unfold stopping in *; simp_st.
    all: try (pose proof (HBn _ (le_n (nitems s))) as HB0).
    all: unfold itemC1 in *; prep HC j Hj.
    all: try exact Hj.
    all: fin.
Qed.

(* C2: a token is sent to w.done at most once (its capacity is 1: no sender ever blocks) *)
Definition itemC2 (s : st) (id : nat) : Prop :=
  let it := items s id in i_signals it <= 1 /\ (i_done it = None <-> i_signals it = 0).

Lemma invC2 c : forall s, reach c s -> forall id, itemC2 s id.
Proof.
  apply (reach_inv' c (fun s => forall id, itemC2 s id)).
  - intros id. unfold itemC2. cbn. intuition (try lia; try congruence).
  - intros s l s1 Hr HC H. pose proof (invC1 c s Hr) as HC1.
    destruct l; step_cases H; unfold stopping in *; simp_st.
    all: unfold itemC2, itemC1 in *; intros j; pose proof (HC j) as Hj; pose proof (HC1 j) as Hj1;
         unfold infl in *; simp_st; use_eqs; rewrite ?cnt_app, ?cnt_cons, ?cnt_nil in *; simp_st; cbn [hw hr] in *.
    all: try exact Hj.
    all: fin.
Qed.

(* C3: what is still queued for writing, what has not been queued yet, and what got ErrPipelineOverflow was never passed to req.Write *)
Definition itemC3 (s : st) (id : nat) : Prop :=
  let it := items s id in
  ((1 <= cnt (chW s) id)%nat -> i_sent it = false) /\
  (early (i_pc it) -> i_sent it = false) /\
  ((i_done it = Some ROverflow \/ ret_overflow (i_pc it)) -> i_sent it = false).

Lemma invC3 c : forall s, reach c s -> forall id, itemC3 s id.
Proof.
  apply (reach_inv' c (fun s => forall id, itemC3 s id)).
  - intros id. unfold itemC3. cbn. intuition (try lia; try congruence).
  - intros s l s1 Hr HC H. pose proof (invC1 c s Hr) as HC1.
    destruct l; step_cases H; unfold stopping in *; simp_st.
    all: unfold itemC3, itemC1 in *; intros j; pose proof (HC j) as Hj; pose proof (HC1 j) as Hj1;
         unfold infl in *; simp_st; use_eqs; rewrite ?cnt_app, ?cnt_cons, ?cnt_nil in *; simp_st; cbn [hw hr] in *.
    all: try exact Hj.
    all: fin.
Qed.

