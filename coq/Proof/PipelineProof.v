(* PipelineProof.v — invariants of the PipelineClient LTS (Model/Pipeline.v) over all reachable states. *)
From Coq Require Import Lia ZifyBool ZifyN ZifyNat.
From FH Require Import Model.Base Model.Pipeline.
Open Scope N_scope.

Lemma reach_inv (c : nat) (P : st -> Prop) :
  P (init c) -> (forall s l s1, P s -> step s l = Some s1 -> P s1) -> forall s, reach c s -> P s.
Proof. intros H0 Hs s Hr. induction Hr; eauto. Qed.

Ltac simp_st :=
  cbn [cap now nitems items chW chR wr rd md wlog rlog upd_item with_queues with_wr with_rd with_md with_logs
       set_pc set_sent signal i_dl i_called i_pc i_sent i_done i_signals] in *.

(* case analysis of one step: one goal per (label, branch of the transition function) *)
Ltac step_cases H :=
  unfold step in H;
  repeat match type of H with
         | context [match ?x with _ => _ end] => destruct x eqn:?
         | context [if ?x then _ else _] => destruct x eqn:?
         end;
  try discriminate H; injection H as <-.

Ltac use_eqs := repeat match goal with E : ?f ?s = _ |- _ => rewrite E in * end.

(* ---- A. queue bounds ----------------------------------------------------------------------------------------- *)
Lemma bounds c : forall s, reach c s -> cap s = c /\ (length (chW s) <= cap s)%nat /\ (length (chR s) <= cap s)%nat.
Proof.
  apply reach_inv.
  - cbn. lia.
  - intros s l s1 (Hc & Hw & Hr) H. destruct l; step_cases H; unfold stopping, full in *; simp_st;
      repeat match goal with |- context [match ?x with _ => _ end] => destruct x end; simp_st;
      rewrite ?app_length in *; cbn [length] in *; try (split; [assumption|]); try lia;
      match goal with E : chR _ = [] |- _ => rewrite E; cbn; lia end.
Qed.

(* ---- B. time ---------------------------------------------------------------------------------------------------- *)
Definition timeB (s : st) (it : item) : Prop :=
  match i_pc it with
  | PNone => True
  | PEnq | PWait => i_called it <= now s /\ forall d, i_dl it = Some d -> now s <= d
  | PSubst => i_called it <= now s /\ i_dl it = None
  | PRet r t => t <= now s /\ i_called it <= t /\ forall d, i_dl it = Some d -> t <= N.max d (i_called it)
  end.

Definition InvB (s : st) : Prop :=
  (forall id, (nitems s <= id)%nat -> i_pc (items s id) = PNone) /\ forall id, timeB s (items s id).

Lemma existsb_seq_false f n : existsb f (seq 0 n) = false -> forall id, (id < n)%nat -> f id = false.
Proof.
  intros H id Hid. destruct (f id) eqn:E; [|reflexivity].
  assert (X : existsb f (seq 0 n) = true) by (apply existsb_exists; exists id; split; [apply in_seq; lia|exact E]).
  congruence.
Qed.

Ltac split_ids :=
  repeat match goal with
         | |- context [Nat.eqb ?a ?b] => destruct (Nat.eqb_spec a b); [subst|]
         | H : context [Nat.eqb ?a ?b] |- _ => destruct (Nat.eqb_spec a b); [subst|]
         end.
Ltac inst_dl :=
  repeat match goal with H : forall d, ?x = Some d -> _, E : ?x = Some _ |- _ => pose proof (H _ E); clear H end.
Ltac crush_match :=
  repeat match goal with
         | |- context [match ?x with _ => _ end] => destruct x eqn:?
         | H : context [match ?x with _ => _ end] |- _ => destruct x eqn:?
         end.

Lemma invB c : forall s, reach c s -> InvB s.
Proof.
  apply reach_inv.
  - split; intros; cbn; auto.
  - intros s l s1 (Hn & Ht) H. destruct l; step_cases H; unfold stopping in *; simp_st.
    all: try (split; [exact Hn | exact Ht]).
    all: split;
      [ intros j Hj; simp_st; split_ids; try (apply Hn; lia); try lia;
        try (pose proof (Hn _ Hj); simp_st; congruence)
      | intros j; pose proof (Ht j) as Hj; unfold timeB in *; simp_st; split_ids; try exact Hj ].
    all: try (unfold reached in *; use_eqs; simp_st; crush_match; simp_st;
              repeat match goal with H : _ /\ _ |- _ => destruct H end;
              repeat split; intros; inst_dl;
              repeat match goal with H : Some _ = Some _ |- _ => injection H as ? end; subst;
              try congruence; try lia; eauto; fail).
    (* LTick: no caller whose deadline is reached sits in a select *)
    destruct (Compare_dec.le_lt_dec (nitems s) j) as [Hge|Hlt].
    + rewrite (Hn _ Hge). exact I.
    + pose proof (existsb_seq_false _ _ Heqb j Hlt) as Hu. cbv beta in Hu. unfold urgent, reached in Hu.
      destruct (i_pc (items s j)); try exact I;
        repeat match goal with H : _ /\ _ |- _ => destruct H end; repeat split; intros; inst_dl; try lia; try assumption;
        match goal with E : i_dl _ = Some _ |- _ => rewrite E in Hu end; lia.
Qed.

(* ---- C. every work item is in at most one place; overflow items were never written; one token per item ----------- *)
Definition cnt (l : list nat) (id : nat) : nat := count_occ Nat.eq_dec l id.
Definition hW (s : st) (id : nat) : nat := match wr s with WHold x => if Nat.eqb x id then 1%nat else 0%nat | _ => 0%nat end.
Definition hR (s : st) (id : nat) : nat := match rd s with RHold x => if Nat.eqb x id then 1%nat else 0%nat | _ => 0%nat end.
(* number of places (chW, the writer's hand, chR, the reader's hand) holding item id *)
Definition infl (s : st) (id : nat) : nat := (cnt (chW s) id + hW s id + cnt (chR s) id + hR s id)%nat.

Definition waitish (p : pc) : Prop := match p with PWait | PRet RTimeout _ => True | _ => False end.
Definition early (p : pc) : Prop := match p with PNone | PEnq | PSubst => True | _ => False end.
Definition ret_overflow (p : pc) : Prop := match p with PRet ROverflow _ => True | _ => False end.

Definition itemC (s : st) (id : nat) : Prop :=
  let it := items s id in
  (infl s id <= 1)%nat /\
  ((1 <= infl s id)%nat -> i_done it = None /\ waitish (i_pc it)) /\
  ((1 <= cnt (chW s) id)%nat -> i_sent it = false) /\
  (early (i_pc it) -> i_sent it = false /\ i_done it = None) /\
  ((i_done it = Some ROverflow \/ ret_overflow (i_pc it)) -> i_sent it = false) /\
  (i_signals it <= 1) /\ (i_done it = None <-> i_signals it = 0).

Lemma cnt_app l1 l2 id : cnt (l1 ++ l2) id = (cnt l1 id + cnt l2 id)%nat.
Proof. apply count_occ_app. Qed.
Lemma cnt_cons x l id : cnt (x :: l) id = ((if Nat.eqb x id then 1 else 0) + cnt l id)%nat.
Proof. unfold cnt. cbn. destruct (Nat.eq_dec x id), (Nat.eqb_spec x id); try contradiction; reflexivity. Qed.
Lemma cnt_nil id : cnt [] id = 0%nat.
Proof. reflexivity. Qed.

Lemma invC c : forall s, reach c s -> forall id, itemC s id.
Proof.
  apply (reach_inv c (fun s => forall id, itemC s id)).
  - intros id. unfold itemC, infl, hW, hR. cbn. intuition (try lia; try congruence).
  - intros s l s1 HC H. destruct l; step_cases H; unfold stopping in *; simp_st.
    all: intros j; pose proof (HC j) as Hj; unfold itemC, infl, hW, hR in *; simp_st; use_eqs;
         rewrite ?cnt_app, ?cnt_cons, ?cnt_nil in *; simp_st.
    all: try exact Hj.
    all: split_ids; simp_st; use_eqs; unfold waitish, early, ret_overflow in *.
    all: try (crush_match; simp_st; intuition (try lia; try congruence); fail).
    Show.
Admitted.
