(* PipelineTime.v — the caller-side statements of C38 derived from the invariants. *)
From Coq Require Import Lia ZifyBool ZifyN ZifyNat.
From FH Require Import Model.Base Model.Pipeline Spec.PipelineSpec Proof.PipelineProof Proof.PipelineFifo.
Open Scope N_scope.

Theorem returns_by_deadline_reach c s : reach c s -> returns_by_deadline s.
Proof.
  intros Hr id d Hd. destruct (invB c s Hr) as (_ & Ht). specialize (Ht id). unfold timeB in Ht.
  destruct (i_pc (items s id)); auto.
  - destruct Ht as (_ & H). auto.
  - destruct Ht as (_ & H). congruence.
  - destruct Ht as (_ & H). auto.
  - destruct Ht as (_ & _ & H). auto.
Qed.

Theorem overflow_not_transmitted_reach c s : reach c s -> overflow_not_transmitted s.
Proof.
  intros Hr id H. destruct (invC3 c s Hr id) as (_ & _ & H3). apply H3.
  destruct H as [H|(t & H)]; [now left | right; rewrite H; exact I].
Qed.

Theorem queue_bounds_reach c s : reach c s -> queue_bounds s /\ cap s = c.
Proof. intros Hr. destruct (bounds c s Hr) as (A & B & C). repeat split; assumption. Qed.

Theorem done_once_reach c s : reach c s -> done_once s.
Proof. intros Hr id. destruct (invC2 c s Hr id) as (A & _). exact A. Qed.

Theorem fifo_reach c s : reach c s -> fifo_matching s.
Proof. apply fifo. Qed.

(* Both selects of DoDeadline include the timer: whatever the rest of the system (queues, writer, reader, worker, server) is doing,
   a caller whose deadline has been reached can return ErrTimeout by a step of its own. *)
Theorem timer_always_armed s id d :
  (i_pc (items s id) = PEnq \/ i_pc (items s id) = PWait) -> i_dl (items s id) = Some d -> d <= now s ->
  exists l s1, step s l = Some s1 /\ i_pc (items s1 id) = PRet RTimeout (now s) /\ now s1 = now s.
Proof.
  intros [Hp|Hp] Hd Hle.
  - exists (LEnqTimeout id). eexists. cbn [step]. rewrite Hp, Hd. cbn [reached].
    replace (d <=? now s) with true by lia. split; [reflexivity|]. cbn. rewrite Nat.eqb_refl. cbn. auto.
  - exists (LWaitTimeout id). eexists. cbn [step]. rewrite Hp, Hd. cbn [reached].
    replace (d <=? now s) with true by lia. split; [reflexivity|]. cbn. rewrite Nat.eqb_refl. cbn. auto.
Qed.

(* ... and time is only ever held back by such callers: no time-lock *)
Theorem tick_blocked_only_by_timers s :
  step s LTick = None ->
  exists id d, (id < nitems s)%nat /\ (i_pc (items s id) = PEnq \/ i_pc (items s id) = PWait) /\
               i_dl (items s id) = Some d /\ d <= now s.
Proof.
  cbn [step]. destruct (existsb _ _) eqn:E; [|discriminate]. intros _.
  apply existsb_exists in E as (id & Hin & Hu). apply in_seq in Hin.
  unfold urgent, reached in Hu. exists id.
  destruct (i_pc (items s id)) eqn:Ep; try discriminate;
    destruct (i_dl (items s id)) as [d|] eqn:Ed; try discriminate; exists d; repeat split; auto; lia.
Qed.

(* a deadline call that has returned did so with its response or one of the three error classes: by construction of [result];
   stated for the record *)
Theorem result_classes (r : result) : r = RResp \/ r = RTimeout \/ r = ROverflow \/ r = RConnErr.
Proof. destruct r; auto. Qed.
