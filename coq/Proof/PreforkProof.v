(* PreforkProof.v — invariant of the prefork LTS (Model/Prefork.v) and the C39 lemmas. *)
From FH Require Import Model.Base Gen.GenC39 Model.Prefork Spec.PreforkSpec.
From Coq Require Import Lia ZifyBool ZifyNat.
Open Scope Z_scope.

(* ------------------------------------------------------------------ *)
(* per-child invariant: a boolean over the finite part of a kid        *)
(* ------------------------------------------------------------------ *)
Inductive pclass := KRun | KGrace | KKilled | KRet.
Definition pclass_of (p : phase) : pclass :=
  match p with PGrace _ => KGrace | PKilled _ => KKilled | PReturned _ => KRet | _ => KRun end.

Definition g_done (g : gstate) : bool := match g with GDone => true | _ => false end.
Definition g_wait (g : gstate) : bool := match g with GWait => true | _ => false end.
Definition o_reapedb (o : ostate) : bool := match o with Reaped => true | _ => false end.

Definition flags_ok (pc : pclass) (k : kid) : bool :=
  Bool.eqb (g_wait (gor k)) (negb (o_reapedb (os k)))        (* goroutine sits in cmd.Wait iff not reaped *)
  && implb (processed k) (g_done (gor k))
  && implb (early k) (o_reapedb (os k))
  && Bool.eqb (kil k) (atgrace k)
  && match pc with
     | KRun => negb (sig k) && negb (kil k) && negb (early k) && implb (g_done (gor k)) (processed k)
     | KGrace => (g_wait (gor k) || g_done (gor k)) && (sig k || early k) && negb (kil k)
     | KKilled => (g_wait (gor k) || g_done (gor k)) && (sig k || early k) && implb (negb (o_reapedb (os k))) (kil k)
     | KRet => g_done (gor k) && (sig k || early k)
     end.

Definition kid_ok (p : phase) (m : list (Z * nat)) (k : kid) : Prop :=
  flags_ok (pclass_of p) k = true /\ (processed k = false -> In (cpid k, cid k) m).

Definition over_ok (c : cfg) (p : phase) (x : Z) : Prop :=
  0 <= x /\
  match p with
  | PGrace e | PKilled e | PReturned e =>
      match e with ErrOverRecovery => x > T c /\ 1 <= x | _ => x = 0 \/ x <= T c end
  | _ => x = 0 \/ x <= T c
  end.

Definition phase_ok (c : cfg) (p : phase) (n : nat) : Prop :=
  match p with
  | PInitSpawn k => n = k /\ (k < G c)%nat
  | PInitHook k => n = S k /\ (k < G c)%nat
  | PReady | PIdle | PRecHook _ _ | PRecCb _ _ => n = G c
  | PRecSpawn _ => S n = G c
  | _ => True
  end.

Record Core (s : state) : Prop := {
  i_cids : map cid (kids s) = seq 0 (length (kids s));
  i_nodup : NoDup (map fst (procs s));
  i_kids : Forall (kid_ok (ph s) (procs s)) (kids s);
  i_len : Z.of_nat (length (kids s)) - exited s = Z.of_nat (length (procs s))
}.

Record Inv (c : cfg) (s : state) : Prop := {
  i_core : Core s;
  i_phase : phase_ok c (ph s) (length (procs s));
  i_over : over_ok c (ph s) (exited s)
}.

(* ------------------------------------------------------------------ *)
(* list / map lemmas                                                    *)
(* ------------------------------------------------------------------ *)
Lemma cids_inj ks k1 k2 : NoDup (map cid ks) -> In k1 ks -> In k2 ks -> cid k1 = cid k2 -> k1 = k2.
Proof.
  induction ks as [|k ks IH]; cbn; [easy|].
  intros Hnd H1 H2 He. inversion Hnd as [|? ? Hni Hnd']; subst.
  destruct H1 as [->|H1], H2 as [->|H2]; auto.
  - exfalso. apply Hni. rewrite He. now apply in_map.
  - exfalso. apply Hni. rewrite <- He. now apply in_map.
Qed.

Lemma seq_cids_nodup ks : map cid ks = seq 0 (length ks) -> NoDup (map cid ks).
Proof. intros ->. apply seq_NoDup. Qed.

Lemma find_kid_some c ks k : find_kid c ks = Some k -> In k ks /\ cid k = c.
Proof.
  unfold find_kid. intros H. apply find_some in H as [H1 H2]. split; [easy|]. now apply Nat.eqb_eq.
Qed.

Lemma keys_fun (m : list (Z * nat)) p a b : NoDup (map fst m) -> In (p, a) m -> In (p, b) m -> a = b.
Proof.
  induction m as [|[q x] m IH]; cbn; [easy|].
  intros Hnd Ha Hb. inversion Hnd as [|? ? Hni Hnd']; subst.
  destruct Ha as [Ha|Ha], Hb as [Hb|Hb].
  - congruence.
  - injection Ha as -> ->. exfalso. apply Hni. change p with (fst (p, b)). now apply in_map.
  - injection Hb as -> ->. exfalso. apply Hni. change p with (fst (p, a)). now apply in_map.
  - auto.
Qed.

Lemma delete_in m pid p x : In (p, x) m -> p <> pid -> In (p, x) (map_delete pid m).
Proof.
  unfold map_delete. intros H Hn. apply filter_In. split; [easy|]. cbn. apply negb_true_iff. now apply Z.eqb_neq.
Qed.

Lemma delete_nodup m pid : NoDup (map fst m) -> NoDup (map fst (map_delete pid m)).
Proof.
  induction m as [|[q x] m IH]; cbn; [easy|].
  intros Hnd. inversion Hnd as [|? ? Hni Hnd']; subst.
  destruct (negb (q =? pid)); cbn; auto.
  constructor; auto. intros Hin. apply Hni.
  apply in_map_iff in Hin as [[q' x'] [Hq Hin]]. cbn in Hq. subst q'.
  apply filter_In in Hin as [Hin _]. change q with (fst (q, x')). now apply in_map.
Qed.

Lemma delete_fresh m pid : ~ In pid (map fst m) -> map_delete pid m = m.
Proof.
  induction m as [|[q x] m IH]; cbn; [easy|].
  intros Hn. destruct (Z.eqb_spec q pid) as [->|Hne]; cbn.
  - exfalso. apply Hn. now left.
  - f_equal. apply IH. intros H. apply Hn. now right.
Qed.

Lemma delete_length m pid x : NoDup (map fst m) -> In (pid, x) m ->
  S (length (map_delete pid m)) = length m.
Proof.
  induction m as [|[q y] m IH]; cbn; [easy|].
  intros Hnd Hin. inversion Hnd as [|? ? Hni Hnd']; subst.
  destruct Hin as [Hin|Hin].
  - injection Hin as -> ->. rewrite Z.eqb_refl. cbn. f_equal.
    fold (map_delete pid m). now rewrite delete_fresh.
  - destruct (Z.eqb_spec q pid) as [->|Hne]; cbn.
    + exfalso. apply Hni. change pid with (fst (pid, x)). now apply in_map.
    + f_equal. now apply IH.
Qed.

Lemma in_procs_true m k : In (cpid k, cid k) m -> in_procs m k = true.
Proof.
  intros H. unfold in_procs. apply existsb_exists. exists (cpid k, cid k). split; [easy|].
  cbn. now rewrite Z.eqb_refl, Nat.eqb_refl.
Qed.

Lemma upd_length c f ks : length (upd c f ks) = length ks.
Proof. unfold upd. apply map_length. Qed.

Lemma upd_cids c f ks : (forall k, cid (f k) = cid k) -> map cid (upd c f ks) = map cid ks.
Proof.
  intros Hf. unfold upd. rewrite map_map. apply map_ext. intros k.
  destruct (Nat.eqb (cid k) c); auto.
Qed.

(* ------------------------------------------------------------------ *)
(* per-child preservation facts (finite case analysis)                 *)
(* ------------------------------------------------------------------ *)
Ltac kid_cases k :=
  destruct k as [ci pi o g sg kl pr ea ag]; destruct o, g, sg, kl, pr, ea, ag; cbn in *;
  try discriminate; try reflexivity; auto.

Lemma flags_run_phase p p' k : pclass_of p = KRun -> pclass_of p' = KRun ->
  flags_ok (pclass_of p) k = true -> flags_ok (pclass_of p') k = true.
Proof. intros -> ->. auto. Qed.

Lemma flags_term k m : flags_ok KRun k = true -> (processed k = false -> in_procs m k = true) ->
  flags_ok KGrace (term_kid m k) = true.
Proof.
  intros H Hp. unfold term_kid. remember (in_procs m k) as b eqn:Hb. clear Hb.
  destruct k as [ci pi o g sg kl pr ea ag]; cbn in *.
  destruct o, g, sg, kl, pr, ea, ag; cbn in *; try discriminate; try reflexivity;
    try (rewrite Hp by reflexivity; reflexivity).
Qed.

Lemma flags_kill k m : flags_ok KGrace k = true -> (processed k = false -> in_procs m k = true) ->
  flags_ok KKilled (kill_kid m k) = true.
Proof.
  intros H Hp. unfold kill_kid. remember (in_procs m k) as b eqn:Hb. clear Hb.
  destruct k as [ci pi o g sg kl pr ea ag]; cbn in *.
  destruct o, g, sg, kl, pr, ea, ag; cbn in *; try discriminate; try reflexivity;
    try (rewrite Hp by reflexivity; reflexivity).
Qed.

Lemma flags_die pc k : flags_ok pc k = true -> os k = Running ->
  flags_ok pc (set_os Zombie k) = true.
Proof. intros H Ho. destruct pc; kid_cases k. Qed.

Lemma flags_reap_run k g : flags_ok KRun k = true -> os k = Zombie -> gor k = GWait ->
  g = GBackoff \/ g = GQueued -> flags_ok KRun (set_gor g (set_os Reaped k)) = true.
Proof. intros H Ho Hg [-> | ->]; kid_cases k. Qed.

Lemma flags_reap_tear pc k : pc <> KRun -> flags_ok pc k = true -> os k = Zombie -> gor k = GWait ->
  flags_ok pc (set_gor GDone (set_os Reaped k)) = true.
Proof. intros Hpc H Ho Hg. destruct pc; [congruence| | |]; kid_cases k. Qed.

Lemma flags_timer k : flags_ok KRun k = true -> gor k = GBackoff ->
  flags_ok KRun (set_gor GQueued k) = true.
Proof. intros H Hg. kid_cases k. Qed.

Lemma flags_processed k : flags_ok KRun k = true -> gor k = GQueued ->
  flags_ok KRun (set_processed k) = true.
Proof. intros H Hg. kid_cases k. Qed.

Lemma flags_drain pc k : pc = KGrace \/ pc = KKilled -> flags_ok pc k = true -> g_done (gor k) = true ->
  flags_ok KRet k = true.
Proof. intros [-> | ->] H Hg; kid_cases k. Qed.

Lemma flags_unprocessed k : flags_ok KRun k = true -> g_done (gor k) = false -> processed k = false.
Proof. intros H Hg. kid_cases k. Qed.

Lemma flags_new c pid : flags_ok KRun (new_kid c pid) = true.
Proof. reflexivity. Qed.

(* ------------------------------------------------------------------ *)
(* the invariant holds initially and is preserved by every step        *)
(* ------------------------------------------------------------------ *)
Lemma next_init_run c k : pclass_of (next_init c k) = KRun.
Proof. unfold next_init. destruct (Nat.ltb k (G c)); [reflexivity|]. destruct (hook_ready c); reflexivity. Qed.

Lemma after_rec_run c o n : pclass_of (after_rec_hook c o n) = KRun.
Proof. unfold after_rec_hook. destruct (hook_recover c); reflexivity. Qed.

Lemma next_init_ok c k : (k <= G c)%nat -> phase_ok c (next_init c k) k.
Proof.
  intros H. unfold next_init. destruct (Nat.ltb_spec k (G c)) as [Hl|Hl]; cbn; [auto|].
  assert (k = G c) by lia. destruct (hook_ready c); cbn; auto.
Qed.

Lemma after_rec_ok c o n len : len = G c -> phase_ok c (after_rec_hook c o n) len.
Proof. intros ->. unfold after_rec_hook. destruct (hook_recover c); reflexivity. Qed.

Lemma init_inv c : Inv c (init c).
Proof.
  constructor; [constructor|..]; cbn; auto.
  - constructor.
  - apply (next_init_ok c 0%nat). lia.
  - split; [lia|]. pose proof (next_init_run c 0) as H. destruct (next_init c 0); cbn in *; try discriminate; auto.
Qed.

(* over_ok only looks at the error once tearing; for KRun phases it is one statement *)
Lemma over_run c p x : pclass_of p = KRun -> over_ok c p x <-> (0 <= x /\ (x = 0 \/ x <= T c)).
Proof. intros H. unfold over_ok. destruct p; cbn in *; try discriminate; tauto. Qed.

(* changing phase inside the running class *)
Lemma core_with_ph s p : Core s -> pclass_of (ph s) = KRun -> pclass_of p = KRun -> Core (with_ph p s).
Proof.
  intros [H1 H2 H3 H4] Hr Hr'. constructor; cbn; auto.
  eapply Forall_impl; [|exact H3]. intros k [Hk1 Hk2]. split; auto. now rewrite Hr' , <- Hr.
Qed.

(* entering the teardown from a running phase *)
Lemma core_teardown s e : Core s -> pclass_of (ph s) = KRun -> Core (begin_teardown e s).
Proof.
  intros [H1 H2 H3 H4] Hr. constructor; cbn; auto.
  - rewrite map_map, map_length. rewrite <- H1. apply map_ext. intros k. unfold term_kid. destruct (os k); reflexivity.
  - apply Forall_forall. intros k' Hin. apply in_map_iff in Hin as [k [<- Hin]].
    rewrite Forall_forall in H3. destruct (H3 k Hin) as [Hf Hm]. rewrite Hr in Hf. split.
    + cbn. apply flags_term; auto. intros Hp. apply in_procs_true; auto.
    + intros Hp. assert (processed k = false) as Hp' by (unfold term_kid in Hp; destruct (os k); exact Hp).
      replace (cpid (term_kid (procs s) k)) with (cpid k) by (unfold term_kid; destruct (os k); reflexivity).
      replace (cid (term_kid (procs s) k)) with (cid k) by (unfold term_kid; destruct (os k); reflexivity).
      auto.
  - now rewrite map_length.
Qed.

Lemma inv_teardown c s e : Core s -> pclass_of (ph s) = KRun -> 0 <= exited s ->
  match e with ErrOverRecovery => exited s > T c /\ 1 <= exited s | _ => exited s = 0 \/ exited s <= T c end ->
  Inv c (begin_teardown e s).
Proof.
  intros Hc Hr Hx He. constructor; [now apply core_teardown|exact I|]. cbn. split; auto.
Qed.

Lemma inv_with_ph c s p : Inv c s -> pclass_of (ph s) = KRun -> pclass_of p = KRun ->
  phase_ok c p (length (procs s)) -> Inv c (with_ph p s).
Proof.
  intros [H1 H2 H3] Hr Hr' Hp. constructor; cbn; auto.
  - now apply core_with_ph.
  - apply over_run; auto. now apply (over_run c (ph s)).
Qed.

(* a hook outcome *)
Lemma inv_hook c s o e p : Inv c s -> pclass_of (ph s) = KRun -> pclass_of p = KRun -> e <> ErrOverRecovery ->
  phase_ok c p (length (procs s)) -> Inv c (hook_result o e p s).
Proof.
  intros Hi Hr Hr' He Hp. pose proof Hi as [H1 H2 H3]. apply (over_run c (ph s)) in H3 as [Hx Hy]; auto.
  destruct o; cbn.
  - now apply inv_with_ph.
  - apply inv_teardown; auto. destruct e; auto. congruence.
  - apply inv_teardown; auto.
Qed.

(* a child is started *)
Lemma core_add s pid p : Core s -> pclass_of (ph s) = KRun -> pclass_of p = KRun ->
  ~ In pid (map fst (procs s)) -> Core (add_child pid s p).
Proof.
  intros [H1 H2 H3 H4] Hr Hr' Hf. unfold add_child. constructor; cbn [ph procs kids exited].
  - rewrite map_app, app_length, H1. cbn. rewrite Nat.add_1_r, seq_S. reflexivity.
  - unfold map_set. rewrite delete_fresh by auto. cbn. constructor; auto.
  - unfold map_set. rewrite delete_fresh by auto. apply Forall_app. split.
    + eapply Forall_impl; [|exact H3]. intros k [Hk1 Hk2]. split.
      * now rewrite Hr', <- Hr.
      * intros Hpk. right. auto.
    + constructor; [|constructor]. split.
      * rewrite Hr'. apply flags_new.
      * intros _. now left.
  - unfold map_set. rewrite delete_fresh by auto. rewrite app_length. cbn [length]. lia.
Qed.

Lemma inv_add c s pid p : Inv c s -> pclass_of (ph s) = KRun -> pclass_of p = KRun ->
  ~ In pid (map fst (procs s)) -> phase_ok c p (S (length (procs s))) -> Inv c (add_child pid s p).
Proof.
  intros [H1 H2 H3] Hr Hr' Hf Hp. constructor.
  - now apply core_add.
  - cbn. unfold map_set. rewrite delete_fresh by auto. exact Hp.
  - cbn. apply over_run; auto. now apply (over_run c (ph s)).
Qed.

(* environment steps: one kid changes, everything else stays *)
Lemma inv_upd c s ci f k0 :
  Inv c s -> find_kid ci (kids s) = Some k0 ->
  (forall k, cid (f k) = cid k) -> (forall k, cpid (f k) = cpid k) -> (forall k, processed (f k) = processed k) ->
  flags_ok (pclass_of (ph s)) (f k0) = true ->
  Inv c (with_kids (upd ci f (kids s)) s).
Proof.
  intros [[H1 H2 H3 H4] H5 H6] Hfind Hc Hp Hpr Hfl. apply find_kid_some in Hfind as [Hin0 Hci0].
  constructor; [constructor|..]; cbn [ph procs kids exited with_kids]; auto.
  - rewrite upd_length, upd_cids; auto.
  - unfold upd. apply Forall_forall. intros k' Hin. apply in_map_iff in Hin as [k [<- Hin]].
    rewrite Forall_forall in H3. destruct (H3 k Hin) as [Hf Hm].
    destruct (Nat.eqb_spec (cid k) ci) as [He|He].
    + assert (k = k0) as -> by (apply (cids_inj (kids s)); auto; [now apply seq_cids_nodup | congruence]).
      split; auto. rewrite Hc, Hp, Hpr. auto.
    + split; auto.
  - now rewrite upd_length.
Qed.

Lemma step_inv c s e s' : Inv c s -> fresh_ok s e -> step c s e = Some s' -> Inv c s'.
Proof.
  intros Hi Hfr Hst. pose proof Hi as [Hc H5 H6]. pose proof Hc as [H1 H2 H3 H4].
  destruct e as [r|o|o|old new|pid|ci d|ci|ci| | |]; cbn in Hst.
  - (* ESpawn *)
    destruct (ph s) eqn:Hph; try discriminate.
    + (* initial loop *)
      cbn in H5. destruct H5 as [Hn Hk].
      destruct H6 as [Hx Hy]; cbn in Hy.
      destruct r as [pid| | |]; cbn in Hst; injection Hst as <-;
        try (apply inv_teardown; auto; rewrite Hph; reflexivity).
      cbn in Hfr. destruct (hook_spawn c).
      * apply inv_add; auto; [now rewrite Hph|]. cbn. split; auto.
      * apply inv_add; auto; [now rewrite Hph|apply next_init_run|]. rewrite Hn. apply next_init_ok. lia.
    + (* recovery *)
      cbn in H5.
      destruct H6 as [Hx Hy]; cbn in Hy.
      destruct r as [pid| | |]; cbn in Hst; injection Hst as <-;
        try (apply inv_teardown; auto; rewrite Hph; reflexivity).
      cbn in Hfr. destruct (hook_spawn c).
      * apply inv_add; auto; now rewrite Hph.
      * apply inv_add; auto; [now rewrite Hph|apply after_rec_run|]. now apply after_rec_ok.
  - (* EHook *)
    destruct (ph s) eqn:Hph; try discriminate; injection Hst as <-; cbn in H5.
    + destruct H5 as [Hn Hk]. apply inv_hook; auto; [now rewrite Hph|apply next_init_run|discriminate|].
      rewrite Hn. apply next_init_ok. lia.
    + apply inv_hook; auto; [now rewrite Hph|apply after_rec_run|discriminate|]. now apply after_rec_ok.
  - (* EReady *)
    destruct (ph s) eqn:Hph; try discriminate; injection Hst as <-; cbn in H5.
    apply inv_hook; auto; [now rewrite Hph|discriminate].
  - (* ERecoverCb *)
    destruct (ph s) eqn:Hph; try discriminate. destruct ((old0 =? old) && (new0 =? new)); try discriminate.
    injection Hst as <-. cbn in H5. apply inv_with_ph; auto. now rewrite Hph.
  - (* ERecv *)
    destruct (ph s) eqn:Hph; try discriminate.
    destruct (find _ (kids s)) as [k0|] eqn:Hfind; try discriminate.
    apply find_some in Hfind as [Hin0 Hk0]. apply andb_true_iff in Hk0 as [Hpid Hq].
    apply Z.eqb_eq in Hpid. assert (gor k0 = GQueued) as Hg0 by (destruct (gor k0); try discriminate; reflexivity).
    cbn in H5.
    rewrite Forall_forall in H3. destruct (H3 k0 Hin0) as [Hf0 Hm0]. cbn in Hf0.
    assert (processed k0 = false) as Hp0 by (apply flags_unprocessed; auto; now rewrite Hg0).
    specialize (Hm0 Hp0). rewrite Hpid in Hm0.
    pose proof (delete_length _ _ _ H2 Hm0) as Hlen.
    destruct H6 as [Hx Hy]; cbn in Hy.
    set (s1 := Build_state PIdle (map_delete pid (procs s)) (upd (cid k0) set_processed (kids s)) (exited s + 1)) in *.
    assert (Hc1 : Core s1).
    { constructor.
      - cbn. rewrite upd_length, upd_cids; auto.
      - cbn. now apply delete_nodup.
      - cbn. unfold upd. apply Forall_forall. intros k' Hin. apply in_map_iff in Hin as [k [<- Hin]].
        destruct (H3 k Hin) as [Hf Hm].
        destruct (Nat.eqb_spec (cid k) (cid k0)) as [He|He].
        + assert (k = k0) as -> by (apply (cids_inj (kids s)); auto; now apply seq_cids_nodup).
          split; [now apply flags_processed|]. cbn. discriminate.
        + split; auto. intros Hp. apply delete_in; auto. intros Heq. apply He.
          apply (keys_fun (procs s) pid); auto. rewrite <- Heq. auto.
      - cbn. rewrite upd_length. lia. }
    destruct (exited s + 1 >? T c) eqn:Hgt; injection Hst as <-.
    + change (Inv c (begin_teardown ErrOverRecovery s1)). apply inv_teardown; auto; cbn; lia.
    + change (Inv c (with_ph (PRecSpawn pid) s1)). constructor.
      * apply core_with_ph; auto.
      * cbn -[map_delete]. congruence.
      * cbn. split; [lia|]. right. apply Z.gtb_ltb in Hgt || idtac. lia.
  - (* EDie *)
    destruct (find_kid ci (kids s)) as [k0|] eqn:Hfind; try discriminate.
    destruct (os k0) eqn:Hos; try discriminate.
    destruct (match d with DSelf => true | DTerm => sig k0 | DKill => kil k0 end); try discriminate.
    injection Hst as <-. eapply inv_upd; eauto.
    pose proof Hfind as Hf'. apply find_kid_some in Hf' as [Hin0 _].
    rewrite Forall_forall in H3. destruct (H3 k0 Hin0) as [Hf0 _]. now apply flags_die.
  - (* EReap *)
    destruct (find_kid ci (kids s)) as [k0|] eqn:Hfind; try discriminate.
    destruct (os k0) eqn:Hos; try discriminate. destruct (gor k0) eqn:Hg; try discriminate.
    injection Hst as <-.
    pose proof Hfind as Hf'. apply find_kid_some in Hf' as [Hin0 _].
    rewrite Forall_forall in H3. destruct (H3 k0 Hin0) as [Hf0 _].
    eapply inv_upd; eauto.
    destruct (tearing (ph s)) eqn:Ht.
    + apply flags_reap_tear; auto. destruct (ph s); cbn in *; discriminate.
    + assert (pclass_of (ph s) = KRun) as Hr by (destruct (ph s); cbn in *; try discriminate; reflexivity).
      rewrite Hr in *. apply flags_reap_run; auto. destruct (backoff c); auto.
  - (* ETimer *)
    destruct (find_kid ci (kids s)) as [k0|] eqn:Hfind; try discriminate.
    destruct (gor k0) eqn:Hg; try discriminate. destruct (tearing (ph s)) eqn:Ht; try discriminate.
    injection Hst as <-.
    pose proof Hfind as Hf'. apply find_kid_some in Hf' as [Hin0 _].
    rewrite Forall_forall in H3. destruct (H3 k0 Hin0) as [Hf0 _].
    eapply inv_upd; eauto.
    assert (pclass_of (ph s) = KRun) as Hr by (destruct (ph s); cbn in *; try discriminate; reflexivity).
    rewrite Hr in *. now apply flags_timer.
  - (* EGrace *)
    destruct (ph s) eqn:Hph; try discriminate. injection Hst as <-.
    constructor; [constructor|..]; cbn; auto.
    + rewrite map_map, map_length. rewrite <- H1. apply map_ext. intros k. unfold kill_kid. destruct (os k); reflexivity.
    + apply Forall_forall. intros k' Hin. apply in_map_iff in Hin as [k [<- Hin]].
      rewrite Forall_forall in H3. destruct (H3 k Hin) as [Hf Hm]. cbn in Hf. split.
      * cbn. apply flags_kill; auto. intros Hp. apply in_procs_true; auto.
      * intros Hp. assert (processed k = false) as Hp' by (unfold kill_kid in Hp; destruct (os k); exact Hp).
        replace (cpid (kill_kid (procs s) k)) with (cpid k) by (unfold kill_kid; destruct (os k); reflexivity).
        replace (cid (kill_kid (procs s) k)) with (cid k) by (unfold kill_kid; destruct (os k); reflexivity).
        auto.
    + now rewrite map_length.
  - (* EDrain *)
    destruct (ph s) eqn:Hph; try discriminate;
      (destruct (all_done (kids s)) eqn:Hd; try discriminate; injection Hst as <-;
       constructor; [constructor|..]; cbn; auto;
       unfold all_done in Hd; rewrite forallb_forall in Hd;
       apply Forall_forall; intros k Hin; rewrite Forall_forall in H3; destruct (H3 k Hin) as [Hf Hm]; cbn in Hf;
       split; auto; cbn;
       (apply (flags_drain _ k (or_introl eq_refl) Hf) || apply (flags_drain _ k (or_intror eq_refl) Hf));
       apply (Hd k Hin)).
  - (* ERecoverPanic *)
    destruct (ph s) eqn:Hph; try discriminate. injection Hst as <-. destruct H6 as [Hx Hy]; cbn in Hy.
    apply inv_teardown; auto. rewrite Hph; reflexivity.
Qed.

Lemma reach_inv c s : reach c s -> Inv c s.
Proof. induction 1 as [|s e s' _ IH Hf Hs]; [apply init_inv|]. eapply step_inv; eauto. Qed.

(* runs and reachability *)
Fixpoint fresh_run (c : cfg) (s : state) (tr : list event) : Prop :=
  match tr with
  | [] => True
  | e :: r => fresh_ok s e /\ match step c s e with Some s' => fresh_run c s' r | None => True end
  end.

Lemma run_reach c tr : forall s s', reach c s -> fresh_run c s tr -> run c s tr = Some s' -> reach c s'.
Proof.
  induction tr as [|e tr IH]; cbn; intros s s' Hr Hf Hrun.
  - now injection Hrun as <-.
  - destruct Hf as [Hf1 Hf2]. destruct (step c s e) as [s1|] eqn:Hst; [|discriminate].
    apply (IH s1 s'); auto. eapply reach_step; eauto.
Qed.

Lemma run_reach_any c tr : forall s s', reach_any c s -> run c s tr = Some s' -> reach_any c s'.
Proof.
  induction tr as [|e tr IH]; cbn; intros s s' Hr Hrun.
  - now injection Hrun as <-.
  - destruct (step c s e) as [s1|] eqn:Hst; [|discriminate].
    apply (IH s1 s'); auto. eapply reacha_step; eauto.
Qed.

Lemma fresh_okb_ok s e : fresh_okb s e = true -> fresh_ok s e.
Proof.
  destruct e as [[pid| | |]| | | | | | | | | |]; cbn; auto.
  intros H Hin. apply negb_true_iff in H. rewrite <- not_true_iff_false in H. apply H.
  apply existsb_exists. exists pid. split; auto. apply Z.eqb_refl.
Qed.

Lemma run_fresh_ok c tr : forall s, run_fresh c s tr = true -> fresh_run c s tr.
Proof.
  induction tr as [|e tr IH]; cbn; intros s H; auto.
  apply andb_true_iff in H as [H1 H2]. split; [now apply fresh_okb_ok|].
  destruct (step c s e); auto.
Qed.

(* ------------------------------------------------------------------ *)
(* C39_teardown_complete                                                *)
(* ------------------------------------------------------------------ *)
Definition torn_down (k : kid) : Prop :=
  os k = Reaped /\ gor k = GDone /\ (sig k = true \/ early k = true) /\ kil k = atgrace k.

Lemma flags_ret k : flags_ok KRet k = true -> torn_down k.
Proof. intros H. unfold torn_down. kid_cases k; repeat split; auto; discriminate. Qed.

Lemma teardown_complete c s e : reach c s -> ph s = PReturned e -> Forall torn_down (kids s).
Proof.
  intros Hr Hp. apply reach_inv in Hr as [[_ _ H3 _] _ _]. rewrite Hp in H3.
  eapply Forall_impl; [|exact H3]. intros k [Hf _]. now apply flags_ret.
Qed.

(* every child present at a teardown state is signalled unless it was reaped before the SIGTERM loop *)
Lemma flags_tear_sig pc k : pc <> KRun -> flags_ok pc k = true ->
  (sig k = true \/ early k = true) /\ (os k <> Reaped -> sig k = true) /\ (early k = true -> os k = Reaped).
Proof. intros Hpc H. destruct pc; [congruence| | |]; kid_cases k; repeat split; auto; try discriminate; try congruence. Qed.

Lemma teardown_signalled c s : reach c s -> tearing (ph s) = true ->
  Forall (fun k => (sig k = true \/ early k = true) /\ (os k <> Reaped -> sig k = true)) (kids s).
Proof.
  intros Hr Ht. apply reach_inv in Hr as [[_ _ H3 _] _ _].
  eapply Forall_impl; [|exact H3]. intros k [Hf _].
  apply flags_tear_sig in Hf; [tauto|]. destruct (ph s); cbn in *; discriminate.
Qed.

(* the kill loop hits exactly the children not yet reaped when the grace timer fires *)
Lemma flags_kill_exact k m : flags_ok KGrace k = true -> (processed k = false -> in_procs m k = true) ->
  kil (kill_kid m k) = negb (o_reapedb (os (kill_kid m k))) /\ kil k = false.
Proof.
  intros H Hp. unfold kill_kid. remember (in_procs m k) as b eqn:Hb. clear Hb.
  destruct k as [ci pi o g sg kl pr ea ag]; cbn in *.
  destruct o, g, sg, kl, pr, ea, ag; cbn in *; try discriminate; auto;
    try (rewrite Hp by reflexivity; auto).
Qed.

Lemma grace_kills_survivors c s s' : reach c s -> step c s EGrace = Some s' ->
  Forall (fun k => kil k = false) (kids s) /\
  Forall (fun k => kil k = negb (o_reapedb (os k))) (kids s').
Proof.
  intros Hr Hst. apply reach_inv in Hr as [[_ _ H3 _] _ _]. cbn in Hst.
  destruct (ph s) eqn:Hph; try discriminate. injection Hst as <-. cbn.
  rewrite Forall_forall in H3. split; apply Forall_forall.
  - intros k Hin. destruct (H3 k Hin) as [Hf Hm]. cbn in Hf.
    apply (flags_kill_exact k (procs s)); auto. intros Hp. apply in_procs_true; auto.
  - intros k' Hin. apply in_map_iff in Hin as [k [<- Hin]]. destruct (H3 k Hin) as [Hf Hm]. cbn in Hf.
    apply (flags_kill_exact k (procs s)); auto. intros Hp. apply in_procs_true; auto.
Qed.

(* no SIGKILL before the grace timer *)
Lemma flags_nokill pc k : pc = KRun \/ pc = KGrace -> flags_ok pc k = true -> kil k = false.
Proof. intros [-> | ->] H; kid_cases k. Qed.

Lemma no_kill_before_grace c s : reach c s ->
  match ph s with PKilled _ | PReturned _ => True | _ => Forall (fun k => kil k = false) (kids s) end.
Proof.
  intros Hr. apply reach_inv in Hr as [[_ _ H3 _] _ _].
  destruct (ph s) eqn:Hph; auto; (eapply Forall_impl; [|exact H3]); intros kk [Hf _]; cbn in Hf;
    first [solve [apply (flags_nokill KRun kk); auto] | solve [apply (flags_nokill KGrace kk); auto]].
Qed.

(* progress: after the grace timer nobody that is still alive has been spared *)
Lemma flags_killed_alive k : flags_ok KKilled k = true -> os k <> Reaped -> kil k = true /\ sig k = true.
Proof. intros H Ho. kid_cases k; try congruence; split; auto. Qed.

Lemma survivors_all_killed c s e : reach c s -> ph s = PKilled e ->
  Forall (fun k => os k <> Reaped -> kil k = true /\ sig k = true) (kids s).
Proof.
  intros Hr Hp. apply reach_inv in Hr as [[_ _ H3 _] _ _]. rewrite Hp in H3.
  eapply Forall_impl; [|exact H3]. intros k [Hf _]. now apply flags_killed_alive.
Qed.

(* prefork returns exactly when every Wait goroutine is done, i.e. every started child is reaped *)
Lemma drain_enabled c s e : reach c s -> ph s = PGrace e \/ ph s = PKilled e ->
  Forall (fun k => os k = Reaped) (kids s) -> exists s', step c s EDrain = Some s' /\ ph s' = PReturned e.
Proof.
  intros Hr Hp Hall. apply reach_inv in Hr as [[_ _ H3 _] _ _].
  assert (all_done (kids s) = true) as Hd.
  { unfold all_done. apply forallb_forall. intros k Hin. rewrite Forall_forall in H3, Hall.
    destruct (H3 k Hin) as [Hf _]. specialize (Hall k Hin).
    destruct Hp as [Hp|Hp]; rewrite Hp in Hf; cbn in Hf; kid_cases k. }
  cbn. destruct Hp as [-> | ->]; rewrite Hd; eexists; split; reflexivity.
Qed.

(* ------------------------------------------------------------------ *)
(* C39_supervision, C39_over_recovery (state form)                     *)
(* ------------------------------------------------------------------ *)
Lemma supervision_state c s : reach c s -> ph s = PIdle ->
  length (procs s) = G c /\
  Z.of_nat (length (kids s)) - exited s = Z.of_nat (G c) /\
  (exited s = 0 \/ exited s <= T c).
Proof.
  intros Hr Hp. apply reach_inv in Hr as [[_ _ _ H4] H5 H6]. rewrite Hp in H5, H6. cbn in H5.
  destruct H6 as [_ H6]. cbn in H6. repeat split; auto. now rewrite <- H5.
Qed.

(* every supervised child (unprocessed exit) is an entry of childProcs, hence will be signalled *)
Lemma supervised_in_map c s : reach c s ->
  Forall (fun k => processed k = false -> In (cpid k, cid k) (procs s)) (kids s).
Proof.
  intros Hr. apply reach_inv in Hr as [[_ _ H3 _] _ _]. eapply Forall_impl; [|exact H3]. now intros k [_ H].
Qed.

Lemma over_recovery_state c s e : reach c s -> ph s = PReturned e ->
  (e = ErrOverRecovery -> exited s > T c /\ 1 <= exited s) /\
  (e <> ErrOverRecovery -> exited s = 0 \/ exited s <= T c).
Proof.
  intros Hr Hp. apply reach_inv in Hr as [_ _ H6]. rewrite Hp in H6. destruct H6 as [_ H6]. cbn in H6.
  destruct e; split; intros; try congruence; auto.
Qed.

(* ------------------------------------------------------------------ *)
(* trace form: accepted label sequences satisfy the Spec               *)
(* ------------------------------------------------------------------ *)
Definition is_rec (p : phase) : bool := match p with PRecSpawn _ => true | _ => false end.

Lemma next_init_not_rec c k : is_rec (next_init c k) = false.
Proof. unfold next_init. destruct (Nat.ltb k (G c)); [reflexivity|]. destruct (hook_ready c); reflexivity. Qed.
Lemma after_rec_not_rec c o n : is_rec (after_rec_hook c o n) = false.
Proof. unfold after_rec_hook. destruct (hook_recover c); reflexivity. Qed.

Definition same_counts (s s1 : state) : Prop :=
  length (kids s1) = length (kids s) /\ exited s1 = exited s.

Lemma hook_result_shape o e p s : is_rec p = false ->
  same_counts s (hook_result o e p s) /\ is_rec (ph (hook_result o e p s)) = false.
Proof.
  intros Hp. destruct o; cbn; unfold same_counts; cbn; rewrite ?map_length; auto.
Qed.

Lemma step_shape c s e s1 : step c s e = Some s1 ->
  match e with
  | ESpawn (PStarted _) => length (kids s1) = S (length (kids s)) /\ exited s1 = exited s /\ is_rec (ph s1) = false
  | ESpawn _ => same_counts s s1 /\ is_rec (ph s1) = false
  | ERecv _ => ph s = PIdle /\ length (kids s1) = length (kids s) /\ exited s1 = exited s + 1 /\
               is_rec (ph s1) = (exited s + 1 <=? T c)
  | EDie _ _ | EReap _ | ETimer _ => same_counts s s1 /\ ph s1 = ph s
  | _ => is_rec (ph s) = false /\ same_counts s s1 /\ is_rec (ph s1) = false
  end.
Proof.
  intros Hst. unfold same_counts.
  destruct e as [r|o|o|old new|pid|ci d|ci|ci| | |]; cbn in Hst.
  - destruct (ph s) eqn:Hph; try discriminate;
      (destruct r as [pid| | |]; cbn in Hst; injection Hst as <-; cbn; rewrite ?map_length, ?app_length; cbn;
       [|auto|auto|auto]; repeat split; try lia;
       destruct (hook_spawn c); cbn; auto using next_init_not_rec, after_rec_not_rec).
  - destruct (ph s) eqn:Hph; try discriminate; injection Hst as <-; split; auto;
      apply hook_result_shape; auto using next_init_not_rec, after_rec_not_rec.
  - destruct (ph s) eqn:Hph; try discriminate; injection Hst as <-; split; auto.
    apply hook_result_shape; auto.
  - destruct (ph s) eqn:Hph; try discriminate. destruct ((old0 =? old) && (new0 =? new)); try discriminate.
    injection Hst as <-. cbn. auto.
  - destruct (ph s) eqn:Hph; try discriminate.
    destruct (find _ (kids s)) as [k0|]; try discriminate.
    destruct (exited s + 1 >? T c) eqn:Hgt; injection Hst as <-; cbn; rewrite ?map_length, ?upd_length;
      repeat split; auto; symmetry; lia.
  - destruct (find_kid ci (kids s)) as [k0|]; try discriminate.
    destruct (os k0); try discriminate.
    destruct (match d with DSelf => true | DTerm => sig k0 | DKill => kil k0 end); try discriminate.
    injection Hst as <-. cbn. rewrite upd_length. auto.
  - destruct (find_kid ci (kids s)) as [k0|]; try discriminate.
    destruct (os k0); try discriminate. destruct (gor k0); try discriminate.
    injection Hst as <-. cbn. rewrite upd_length. auto.
  - destruct (find_kid ci (kids s)) as [k0|]; try discriminate.
    destruct (gor k0); try discriminate. destruct (tearing (ph s)); try discriminate.
    injection Hst as <-. cbn. rewrite upd_length. auto.
  - destruct (ph s) eqn:Hph; try discriminate. injection Hst as <-. cbn. rewrite map_length. auto.
  - destruct (ph s) eqn:Hph; try discriminate; destruct (all_done (kids s)); try discriminate;
      injection Hst as <-; cbn; auto.
  - destruct (ph s) eqn:Hph; try discriminate. injection Hst as <-. cbn. rewrite map_length. auto.
Qed.

Lemma sup_sound c tr : forall s s', Inv c s -> fresh_run c s tr -> run c s tr = Some s' ->
  sup (Z.of_nat (G c)) (T c) (Z.of_nat (length (kids s))) (exited s) (is_rec (ph s)) tr = true.
Proof.
  induction tr as [|e tr IH]; intros s s' Hi Hf Hrun; [reflexivity|].
  cbn in Hrun, Hf. destruct Hf as [Hf1 Hf2].
  destruct (step c s e) as [s1|] eqn:Hst; [|discriminate].
  pose proof (step_inv _ _ _ _ Hi Hf1 Hst) as Hi1.
  pose proof (step_shape _ _ _ _ Hst) as Hsh.
  specialize (IH s1 s' Hi1 Hf2 Hrun).
  destruct e as [r|o|o|old new|pid|ci d|ci|ci| | |]; cbn [sup].
  - destruct r as [pid| | |].
    + destruct Hsh as (Hl & Hx & Hr). rewrite Hl, Hx, Hr in IH. rewrite <- IH. f_equal. lia.
    + destruct Hsh as ((Hl & Hx) & Hr). now rewrite Hl, Hx, Hr in IH.
    + destruct Hsh as ((Hl & Hx) & Hr). now rewrite Hl, Hx, Hr in IH.
    + destruct Hsh as ((Hl & Hx) & Hr). now rewrite Hl, Hx, Hr in IH.
  - destruct Hsh as (Hn & (Hl & Hx) & Hr). rewrite Hl, Hx, Hr in IH. now rewrite Hn, IH.
  - destruct Hsh as (Hn & (Hl & Hx) & Hr). rewrite Hl, Hx, Hr in IH. now rewrite Hn, IH.
  - destruct Hsh as (Hn & (Hl & Hx) & Hr). rewrite Hl, Hx, Hr in IH. now rewrite Hn, IH.
  - destruct Hsh as (Hp & Hl & Hx & Hr). rewrite Hl, Hx, Hr in IH. rewrite Hp, IH. cbn.
    destruct Hi as [[_ _ _ H4] H5 _]. rewrite Hp in H5. cbn in H5. rewrite andb_true_r. lia.
  - destruct Hsh as ((Hl & Hx) & Hp). now rewrite Hl, Hx, Hp in IH.
  - destruct Hsh as ((Hl & Hx) & Hp). now rewrite Hl, Hx, Hp in IH.
  - destruct Hsh as ((Hl & Hx) & Hp). now rewrite Hl, Hx, Hp in IH.
  - destruct Hsh as (Hn & (Hl & Hx) & Hr). rewrite Hl, Hx, Hr in IH. now rewrite Hn, IH.
  - destruct Hsh as (Hn & (Hl & Hx) & Hr). rewrite Hl, Hx, Hr in IH. now rewrite Hn, IH.
  - destruct Hsh as (Hn & (Hl & Hx) & Hr). rewrite Hl, Hx, Hr in IH. now rewrite Hn, IH.
Qed.

Lemma run_counts c tr : forall s s', run c s tr = Some s' -> exited s' = exited s + count_recv tr.
Proof.
  induction tr as [|e tr IH]; cbn [run]; intros s s' Hrun.
  - injection Hrun as <-. cbn. lia.
  - destruct (step c s e) as [s1|] eqn:Hst; [|discriminate].
    pose proof (step_shape _ _ _ _ Hst) as Hsh. rewrite (IH _ _ Hrun).
    unfold same_counts in Hsh.
    destruct e as [[pid| | |]| | | | | | | | | |]; cbn [count_recv]; try lia; intuition lia.
Qed.

Lemma accepted_supervised c tr s : fresh_run c (init c) tr -> run c (init c) tr = Some s ->
  supervised c tr = true.
Proof.
  intros Hf Hrun. unfold supervised.
  pose proof (sup_sound c tr (init c) s (init_inv c) Hf Hrun) as H. cbn in H.
  now rewrite next_init_not_rec in H.
Qed.

Lemma accepted_over_recovery c tr s e : fresh_run c (init c) tr ->
  run c (init c) tr = Some s -> ph s = PReturned e -> over_recovery_ok c tr e = true.
Proof.
  intros Hf Hrun Hp. unfold over_recovery_ok. destruct (T c <? 0) eqn:HT0; [reflexivity|]. cbn [orb].
  assert (0 <= T c) as HT by lia. pose proof (run_counts _ _ _ _ Hrun) as Hc. cbn in Hc.
  assert (reach c s) as Hr by (eapply run_reach; eauto; constructor).
  destruct (over_recovery_state c s e Hr Hp) as [H1 H2]. rewrite <- Hc.
  assert (exited s = count_recv tr) as Hx by lia. rewrite <- Hx in *.
  destruct e; cbn [err_eqb Bool.eqb];
    try (assert (exited s = 0 \/ exited s <= T c) as H3 by (apply H2; discriminate);
         destruct (exited s >? T c) eqn:E; [exfalso; lia|reflexivity]).
  destruct H1 as [H1 _]; auto. destruct (exited s >? T c) eqn:E; [reflexivity|exfalso; lia].
Qed.

(* every started child has a record: kids grows by one per started command and never shrinks *)
Fixpoint count_started (tr : list event) : nat :=
  match tr with
  | [] => 0
  | ESpawn (PStarted _) :: r => S (count_started r)
  | _ :: r => count_started r
  end.

Lemma run_started c tr : forall s s', run c s tr = Some s' ->
  length (kids s') = (length (kids s) + count_started tr)%nat.
Proof.
  induction tr as [|e tr IH]; cbn [run]; intros s s' Hrun.
  - injection Hrun as <-. cbn. lia.
  - destruct (step c s e) as [s1|] eqn:Hst; [|discriminate].
    pose proof (step_shape _ _ _ _ Hst) as Hsh. rewrite (IH _ _ Hrun).
    unfold same_counts in Hsh.
    destruct e as [[pid| | |]| | | | | | | | | |]; cbn [count_started]; try lia; intuition lia.
Qed.

(* OnChildSpawn rejecting a replacement (or an initial child): the teardown that follows reaches every
   child that is still unreaped, the one just started included: it is an entry of childProcs and was sent SIGTERM *)
Lemma flags_unreaped_unprocessed pc k : flags_ok pc k = true -> os k <> Reaped -> processed k = false.
Proof. intros H Ho. destruct pc; kid_cases k; congruence. Qed.

Lemma hook_error_teardown c s o s' : reach c s ->
  (exists old new, ph s = PRecHook old new) \/ (exists i, ph s = PInitHook i) -> o <> HOk ->
  step c s (EHook o) = Some s' ->
  (exists e, ph s' = PGrace e /\ e <> ErrOverRecovery) /\
  length (kids s') = length (kids s) /\
  Forall (fun k => os k <> Reaped -> sig k = true /\ In (cpid k, cid k) (procs s')) (kids s').
Proof.
  intros Hr Hp Ho Hst.
  assert (reach c s') as Hr' by (eapply reach_step; eauto; exact I).
  assert ((exists e, ph s' = PGrace e /\ e <> ErrOverRecovery) /\ length (kids s') = length (kids s)) as [He Hl].
  { cbn in Hst. destruct Hp as [(old & new & Hp)|(i & Hp)]; rewrite Hp in Hst; injection Hst as <-;
      (destruct o; [congruence| |]; cbn; rewrite map_length; split; auto; eexists; split; eauto; discriminate). }
  split; [exact He|]. split; [exact Hl|].
  destruct He as (e & He & _).
  assert (tearing (ph s') = true) as Ht by (rewrite He; reflexivity).
  pose proof (teardown_signalled c s' Hr' Ht) as Hsig.
  pose proof (reach_inv c s' Hr') as [[_ _ H3 _] _ _].
  rewrite Forall_forall in *. intros k Hin Hos. split; [now apply (Hsig k Hin)|].
  destruct (H3 k Hin) as [Hf Hm]. apply Hm. eapply flags_unreaped_unprocessed; eauto.
Qed.
