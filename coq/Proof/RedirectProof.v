(* RedirectProof.v — lemmas and proofs about Model/Redirect.v (property C20). *)
From Coq Require Import Lia ZifyBool ZifyN ZifyNat.
From FH Require Import Model.Base Gen.GenC20 Model.Redirect Spec.RedirectSpec.
Open Scope N_scope.

(* ---- the model's ASCII lower-casing is the specification's ------------------------------------------------ *)
Lemma lower_lcs s : lower s = lcs s.
Proof. reflexivity. Qed.

(* ---- asciiEqualFold is ASCII case-insensitive equality (on byte strings: every element < 256) ------------------ *)
Definition byte_range : list N := map N.of_nat (seq 0 256).
Lemma in_byte_range c : c < 256 -> In c byte_range.
Proof.
  intros Hc. unfold byte_range. apply in_map_iff. exists (N.to_nat c). split; [apply N2Nat.id|].
  apply in_seq. lia.
Qed.

Lemma toLower_is_lower c : c < 256 -> tbl toLowerTable c = lower_ascii c.
Proof.
  intros Hc. assert (Hall : forallb (fun c => tbl toLowerTable c =? lower_ascii c) byte_range = true) by (vm_compute; reflexivity).
  rewrite forallb_forall in Hall. apply N.eqb_eq, Hall, in_byte_range, Hc.
Qed.

Lemma asciiEqualFold_iff s : forall t, wf_bytes s -> wf_bytes t -> (asciiEqualFold s t = true <-> lower s = lower t).
Proof.
  induction s as [|a s IH]; intros [|b t] Hs Ht; cbn [asciiEqualFold lower map]; split; try discriminate; try reflexivity.
  - inversion Hs as [|? ? Ha Hs']; inversion Ht as [|? ? Hb Ht']; subst.
    rewrite !toLower_is_lower by assumption. intros Hx. apply andb_true_iff in Hx as [H1 H2].
    apply N.eqb_eq in H1. f_equal; [exact H1|]. now apply IH.
  - inversion Hs as [|? ? Ha Hs']; inversion Ht as [|? ? Hb Ht']; subst.
    rewrite !toLower_is_lower by assumption. intros Hx. injection Hx as H1 H2.
    rewrite H1, N.eqb_refl. cbn [andb]. now apply IH.
Qed.

Lemma wf_firstn (s : bytes) : forall n, wf_bytes s -> wf_bytes (firstn n s).
Proof.
  unfold wf_bytes. induction s as [|x s IH]; intros [|n] Hs; cbn [firstn]; try constructor.
  - now inversion Hs.
  - apply IH. now inversion Hs.
Qed.
Lemma wf_skipn (s : bytes) : forall n, wf_bytes s -> wf_bytes (skipn n s).
Proof.
  unfold wf_bytes. induction s as [|x s IH]; intros [|n] Hs; cbn [skipn]; try assumption.
  apply IH. now inversion Hs.
Qed.

Lemma wf_hostname hp : wf_bytes hp -> wf_bytes (hostnameFromHostPortBytes hp).
Proof.
  intros Hw. unfold hostnameFromHostPortBytes.
  assert (Hs : wf_bytes (fst (splitHostPortBytes hp))).
  { unfold splitHostPortBytes. destruct hp as [|c0 r]; [assumption|].
    destruct (c0 =? LBR).
    - match goal with |- context [if ?c then _ else _] => destruct c end; cbn [fst]; [apply wf_firstn|]; assumption.
    - match goal with |- context [if ?c then _ else _] => destruct c end; cbn [fst]; [|apply wf_firstn]; assumption. }
  match goal with |- context [if ?c then _ else _] => destruct c end; [|assumption].
  unfold slice_to, slice_from. now apply wf_firstn, wf_skipn.
Qed.

(* ---- list surgery ---------------------------------------------------------------------------------------------- *)
Lemma split_at_nth {A} (d : A) (l : list A) : forall i, (i < length l)%nat -> l = firstn i l ++ nth i l d :: skipn (S i) l.
Proof.
  induction l as [|x l IH]; intros [|i] H; cbn in *; try lia; [reflexivity|].
  f_equal. apply IH. lia.
Qed.

Lemma is_suffix_iff suf s : is_suffix suf s = true <-> exists pre, s = pre ++ suf.
Proof.
  unfold is_suffix. split.
  - intros H. apply andb_true_iff in H as [_ H]. apply beq_eq in H.
    exists (firstn (length s - length suf) s). rewrite <- H at 2. now rewrite firstn_skipn.
  - intros [pre ->]. rewrite app_length.
    replace (length pre + length suf - length suf)%nat with (length pre + 0)%nat by lia.
    rewrite skipn_app, Nat.add_0_r, skipn_all. replace (length pre - length pre)%nat with 0%nat by lia. cbn [skipn app].
    rewrite beq_refl, andb_true_r. apply Nat.leb_le. lia.
Qed.

Lemma trustedb_iff init h : trustedb init h = true <-> trusted init h.
Proof.
  unfold trustedb, trusted. rewrite orb_true_iff, beq_eq, is_suffix_iff. tauto.
Qed.

(* trusted only looks at the initial host up to ASCII case *)
Lemma trusted_init_fold init init' h : lcs init = lcs init' -> trusted init h -> trusted init' h.
Proof. unfold trusted. now intros ->. Qed.

(* ---- the trust rule is sound: it only accepts the parent and its subdomains, for all byte strings ------------------ *)
Lemma isDomainOrSubdomain_sound_all sub parent :
  wf_bytes sub -> wf_bytes parent ->
  isDomainOrSubdomainBytes sub parent = true -> trusted parent sub.
Proof.
  intros Hs Hp. unfold isDomainOrSubdomainBytes.
  destruct (asciiEqualFold sub parent) eqn:E.
  - intros _. left. rewrite <- !lower_lcs. now apply asciiEqualFold_iff.
  - destruct parent as [|p0 pr]; [discriminate|]. set (parent := p0 :: pr) in *.
    destruct ((length sub <=? length parent)%nat) eqn:El; [discriminate|]. cbn [orb].
    destruct (has_byte COLON sub || has_byte PCT sub); [discriminate|].
    set (k := (length sub - length parent)%nat).
    destruct (asciiEqualFold (skipn k sub) parent) eqn:E2; [|discriminate]. cbn [negb].
    intros Hdot. apply N.eqb_eq in Hdot.
    apply Nat.leb_gt in El.
    assert (Hk : (S (k - 1) = k)%nat) by (unfold k; lia).
    right. exists (lcs (firstn (k - 1) sub)).
    rewrite (split_at_nth 0 sub (k - 1)) at 1 by (unfold k; lia).
    rewrite Hk, Hdot. unfold lcs at 1. rewrite map_app. cbn [map]. f_equal. f_equal.
    rewrite <- !lower_lcs. apply asciiEqualFold_iff; [now apply wf_skipn|assumption|assumption].
Qed.

(* ---- header surgery ------------------------------------------------------------------------------------------------- *)
Definition sensb (kv : hdr) : bool := is_sens_name (fst kv).
Definition strip_keys (dn : bool) : list bytes := map (normKey dn) sensitive_names.

(* the only condition on the stored header keys: they are byte strings (every element < 256) *)
Definition canon_keys (dn : bool) (hs : list hdr) : Prop := forall kv, In kv hs -> wf_bytes (fst kv).

Lemma wf_of_b s : wf_bytesb s = true -> wf_bytes s.
Proof.
  unfold wf_bytesb, wf_bytes, is_byte. intros Hb. apply Forall_forall. intros x Hx.
  rewrite forallb_forall in Hb. specialize (Hb x Hx). lia.
Qed.

Definition quiet (r : req) : Prop := filter sensb (r_h r) = [].

Lemma filter_nil_intro {A} (f : A -> bool) l : (forall x, In x l -> f x = true -> False) -> filter f l = [].
Proof.
  intros Hn. destruct (filter f l) as [|x t] eqn:E; [reflexivity|].
  exfalso. assert (Hx : In x (filter f l)) by (rewrite E; now left).
  apply filter_In in Hx as [H1 H2]. eauto.
Qed.

Lemma quiet_no r kv : quiet r -> In kv (r_h r) -> sensb kv = true -> False.
Proof.
  unfold quiet. intros Hq Hin Hs.
  assert (Hx : In kv (filter sensb (r_h r))) by (apply filter_In; now split).
  rewrite Hq in Hx. exact Hx.
Qed.

Lemma delAllArgs_In hs k kv : In kv (delAllArgs hs k) -> In kv hs /\ beq (fst kv) k = false.
Proof. unfold delAllArgs. intros Hin. apply filter_In in Hin as [H1 H2]. split; [assumption|]. now destruct (beq (fst kv) k). Qed.

Lemma setArg_In hs k v kv : In kv (setArg hs k v) -> kv = (k, v) \/ In kv hs.
Proof.
  induction hs as [|x hs IH]; cbn [setArg]; intros Hin.
  - destruct Hin as [<-|[]]. now left.
  - destruct (beq (fst x) k).
    + destruct Hin as [<-|Hin]; [now left|right; now right].
    + destruct Hin as [<-|Hin]; [right; now left|]. destruct (IH Hin) as [->|Hr]; [now left|right; now right].
Qed.

Lemma hdel_In k r kv : In kv (r_h (hdel k r)) -> In kv (r_h r) /\ beq (fst kv) (normKey (r_dn r) k) = false.
Proof. unfold hdel; cbn [r_h]. apply delAllArgs_In. Qed.

Lemma hdel_dn k r : r_dn (hdel k r) = r_dn r.
Proof. reflexivity. Qed.

Lemma fold_hdel_In ks : forall r kv,
  In kv (r_h (fold_left (fun r k => hdel k r) ks r)) ->
  In kv (r_h r) /\ existsb (beq (fst kv)) (map (normKey (r_dn r)) ks) = false.
Proof.
  induction ks as [|k ks IH]; intros r kv Hin; cbn [fold_left map existsb] in *.
  - now split.
  - apply IH in Hin as [H1 H2]. rewrite hdel_dn in H2. apply hdel_In in H1 as [H1 H3].
    split; [assumption|]. now rewrite H3, H2.
Qed.

Lemma fold_hdel_dn ks : forall r, r_dn (fold_left (fun r k => hdel k r) ks r) = r_dn r.
Proof. induction ks as [|k ks IH]; intros r; cbn [fold_left]; [reflexivity|]. now rewrite IH. Qed.

Lemma TE_not_sens : is_sens_name HeaderTransferEncoding = false.
Proof. vm_compute. reflexivity. Qed.

Lemma wf_TE : wf_bytes HeaderTransferEncoding.
Proof. apply wf_of_b. vm_compute. reflexivity. Qed.
Lemma wf_auth dn : wf_bytes (normKey dn HeaderAuthorization).
Proof. apply wf_of_b. destruct dn; vm_compute; reflexivity. Qed.

(* ---- Request.Write ------------------------------------------------------------------------------------------------------- *)
Lemma write_props uinfo r r1 s : write uinfo r = (r1, s) ->
  r_dn r1 = r_dn r /\ r_method r1 = r_method r /\ s_method s = r_method r /\ s_sens s = filter sensb (r_h r1) /\
  (forall kv, In kv (r_h r1) ->
     In kv (r_h r) \/ fst kv = HeaderTransferEncoding \/ exists v, uinfo = Some v /\ kv = (normKey (r_dn r) HeaderAuthorization, v)).
Proof.
  unfold write.
  set (h1 := match uinfo with Some v => setArg (r_h r) (normKey (r_dn r) HeaderAuthorization) v | None => r_h r end).
  assert (Hh1 : forall kv, In kv h1 -> In kv (r_h r) \/ exists v, uinfo = Some v /\ kv = (normKey (r_dn r) HeaderAuthorization, v)).
  { intros kv Hin. subst h1. destruct uinfo as [v|]; [|now left].
    apply setArg_In in Hin as [->|Hin]; [right; now exists v|now left]. }
  destruct (r_stream r) as [n|].
  - intros E. injection E as <- <-. cbn. repeat split.
    intros kv Hin. apply setArg_In in Hin as [->|Hin]; [right; left; reflexivity|].
    destruct (Hh1 _ Hin) as [Hl|Hr]; [now left|right; now right].
  - destruct (body_to_send r) as [body mp].
    destruct (negb (body =? 0)%Z || negb (ignoreBody (r_method r))).
    + intros E. injection E as <- <-. cbn. repeat split.
      intros kv Hin. apply delAllArgs_In in Hin as [Hin _].
      destruct (Hh1 _ Hin) as [Hl|Hr]; [now left|right; now right].
    + intros E. injection E as <- <-. cbn. repeat split.
      intros kv Hin. destruct (Hh1 _ Hin) as [Hl|Hr]; [now left|right; now right].
Qed.

Lemma write_canon uinfo r r1 s : write uinfo r = (r1, s) -> canon_keys (r_dn r) (r_h r) -> canon_keys (r_dn r1) (r_h r1).
Proof.
  intros W Hc. destruct (write_props _ _ _ _ W) as (Hdn & _ & _ & _ & Hin).
  intros kv Hkv. destruct (Hin _ Hkv) as [Hl|[Hte|(v & _ & ->)]].
  - now apply Hc.
  - rewrite Hte. apply wf_TE.
  - cbn [fst]. apply wf_auth.
Qed.

Lemma write_quiet r r1 s : write None r = (r1, s) -> quiet r -> s_sens s = [].
Proof.
  intros W Hq. destruct (write_props _ _ _ _ W) as (_ & _ & _ & -> & Hin).
  apply filter_nil_intro. intros kv Hkv Hs. destruct (Hin _ Hkv) as [Hl|[Hte|(v & Hv & _)]].
  - eapply quiet_no; eauto.
  - unfold sensb in Hs. rewrite Hte, TE_not_sens in Hs. discriminate.
  - discriminate.
Qed.

(* ---- stripSensitiveHeadersOnRedirect and the method/body switch --------------------------------------------------------------- *)
Lemma strip_incl r init hp : r_dn (stripSensitiveHeadersOnRedirect r init hp) = r_dn r /\
  r_method (stripSensitiveHeadersOnRedirect r init hp) = r_method r /\
  forall kv, In kv (r_h (stripSensitiveHeadersOnRedirect r init hp)) -> In kv (r_h r).
Proof.
  unfold stripSensitiveHeadersOnRedirect. destruct (negb (shouldStrip init hp)); [now repeat split|].
  cbv zeta. cbn [r_dn r_method r_h]. split; [apply fold_hdel_dn|]. split; [reflexivity|].
  intros kv Hin. apply filter_In in Hin as [Hin _]. now apply fold_hdel_In in Hin.
Qed.

Lemma wf_sensitive_names : Forall wf_bytes sensitive_names.
Proof.
  assert (Hb : forallb wf_bytesb sensitive_names = true) by (vm_compute; reflexivity).
  apply Forall_forall. intros n Hn. rewrite forallb_forall in Hb. apply wf_of_b, Hb, Hn.
Qed.

Lemma sens_isSensitive k : wf_bytes k -> is_sens_name k = true -> isSensitiveRedirectHeader k = true.
Proof.
  intros Hw Hs. unfold is_sens_name in Hs. apply existsb_exists in Hs as (n & Hn & Hb). apply beq_eq in Hb.
  apply existsb_exists. exists n. split; [exact Hn|]. apply asciiEqualFold_iff; [exact Hw| |exact Hb].
  pose proof wf_sensitive_names as Hwn. rewrite Forall_forall in Hwn. now apply Hwn.
Qed.

Lemma strip_quiet r init hp : shouldStrip init hp = true -> canon_keys (r_dn r) (r_h r) ->
  quiet (stripSensitiveHeadersOnRedirect r init hp).
Proof.
  intros Hs Hc. unfold stripSensitiveHeadersOnRedirect. rewrite Hs. cbn [negb]. cbv zeta.
  apply filter_nil_intro. cbn [r_h]. intros kv Hin Hsens. apply filter_In in Hin as [Hin Hf].
  apply fold_hdel_In in Hin as [H1 _]. specialize (Hc _ H1).
  rewrite (sens_isSensitive _ Hc Hsens) in Hf. discriminate.
Qed.

Lemma rewrite_incl st r : r_dn (rewrite_req st r) = r_dn r /\ forall kv, In kv (r_h (rewrite_req st r)) -> In kv (r_h r).
Proof.
  unfold rewrite_req. destruct (st =? StatusSeeOther)%Z.
  - split; [reflexivity|]. cbn [r_h]. intros kv Hin.
    repeat (apply hdel_In in Hin as [Hin _]). exact Hin.
  - destruct (beq (r_method r) MethodPost && ((st =? StatusMovedPermanently) || (st =? StatusFound))%Z); now split.
Qed.

Lemma canon_incl dn hs hs' : canon_keys dn hs -> (forall kv, In kv hs' -> In kv hs) -> canon_keys dn hs'.
Proof. intros Hc Hi kv Hin. apply Hc. now apply Hi. Qed.

Lemma quiet_incl r r' : quiet r -> (forall kv, In kv (r_h r') -> In kv (r_h r)) -> quiet r'.
Proof. intros Hq Hi. apply filter_nil_intro. intros kv Hin Hs. eapply quiet_no; eauto. Qed.

(* ---- one unfolding of the loop ----------------------------------------------------------------------------------------------------- *)
Lemma follow_eq maxr init cnt r uinfo ok rhost via prev chain :
  follow maxr init cnt r uinfo ok rhost via prev chain =
  if negb ok then ([], RErr) else
  let (r1, s) := write uinfo r in
  let hp := mkHop (hostnameFromHostPortBytes rhost) via prev s in
  match chain with
  | [] => ([hp], RDone)
  | a :: rest =>
      if negb (StatusCodeIsRedirect (a_status a)) then ([hp], RDone) else
      let cnt' := (cnt + 1)%Z in
      if (cnt' >? maxr)%Z then ([hp], RTooMany) else
      match a_loc a with
      | [] => ([hp], RMissingLocation)
      | _ :: _ =>
          let r2 := stripSensitiveHeadersOnRedirect r1 init (a_rhost a) in
          let r3 := rewrite_req (a_status a) r2 in
          let (hs, res) := follow maxr init cnt' r3 None (a_ok a) (a_rhost a) (a_status a) (r_method r1) rest in
          (hp :: hs, res)
      end
  end.
Proof. destruct chain; reflexivity. Qed.

(* ---- (1) no credential header reaches an untrusted host ------------------------------------------------------------------------------ *)
Lemma follow_no_leak init : wf_bytes init ->
  forall chain maxr cnt r uinfo ok rhost via prev hops res,
  Forall (fun a => wf_bytes (a_rhost a)) chain ->
  canon_keys (r_dn r) (r_h r) ->
  (trusted init (hostnameFromHostPortBytes rhost) \/ (uinfo = None /\ quiet r)) ->
  follow maxr init cnt r uinfo ok rhost via prev chain = (hops, res) ->
  forall hp, In hp hops -> trusted init (h_host hp) \/ s_sens (h_sent hp) = [].
Proof.
  intros Hinit. induction chain as [|a rest IH]; intros maxr cnt r uinfo ok rhost via prev hops res Hasc Hcan Hpre;
    rewrite follow_eq; destruct ok; cbn [negb]; try (intros E; injection E as <- <-; intros hp []);
    destruct (write uinfo r) as [r1 s] eqn:W.
  - intros E. injection E as <- <-. intros hp [<-|[]]. cbn [h_host h_sent].
    destruct Hpre as [Ht|[-> Hq]]; [now left|right; eapply write_quiet; eauto].
  - assert (Hhead : trusted init (hostnameFromHostPortBytes rhost) \/ s_sens s = []).
    { destruct Hpre as [Ht|[-> Hq]]; [now left|right; eapply write_quiet; eauto]. }
    destruct (negb (StatusCodeIsRedirect (a_status a))); [intros E; injection E as <- <-; intros hp [<-|[]]; exact Hhead|].
    cbv zeta. destruct ((cnt + 1 >? maxr)%Z); [intros E; injection E as <- <-; intros hp [<-|[]]; exact Hhead|].
    destruct (a_loc a) as [|l0 lr]; [intros E; injection E as <- <-; intros hp [<-|[]]; exact Hhead|].
    set (r2 := stripSensitiveHeadersOnRedirect r1 init (a_rhost a)).
    set (r3 := rewrite_req (a_status a) r2).
    destruct (follow maxr init (cnt + 1)%Z r3 None (a_ok a) (a_rhost a) (a_status a) (r_method r1) rest) as [hs res'] eqn:R.
    intros E. injection E as <- <-. intros hp [<-|Hin]; [exact Hhead|].
    inversion Hasc as [|a' rest' Ha Hrest]; subst.
    pose proof (write_canon _ _ _ _ W Hcan) as Hcan1.
    destruct (strip_incl r1 init (a_rhost a)) as (Hdn2 & _ & Hin2).
    destruct (rewrite_incl (a_status a) r2) as (Hdn3 & Hin3).
    assert (Hcan3 : canon_keys (r_dn r3) (r_h r3)).
    { unfold r3. rewrite Hdn3. unfold r2 in *. rewrite Hdn2.
      eapply canon_incl; [exact Hcan1|]. intros kv Hkv. apply Hin2, Hin3, Hkv. }
    eapply (IH maxr (cnt + 1)%Z r3 None (a_ok a) (a_rhost a) (a_status a) (r_method r1) hs res' Hrest Hcan3); [|exact R|exact Hin].
    destruct (shouldStrip init (a_rhost a)) eqn:Hs.
    + right. split; [reflexivity|]. eapply quiet_incl; [apply (strip_quiet r1 init (a_rhost a) Hs Hcan1)|exact Hin3].
    + left. unfold shouldStrip in Hs. apply negb_false_iff in Hs.
      apply isDomainOrSubdomain_sound_all in Hs; [exact Hs|now apply wf_hostname|exact Hinit].
Qed.

(* the model's "sensitive" names are the six credential names of the property text *)
Lemma sens_is_credential k : is_sens_name k = is_credential_name k.
Proof.
  unfold is_sens_name, is_credential_name, sensitive_names, credential_names. cbn [existsb]. rewrite lower_lcs.
  replace (lower HeaderAuthorization) with (s2b "authorization") by (vm_compute; reflexivity).
  replace (lower HeaderCookie) with (s2b "cookie") by (vm_compute; reflexivity).
  replace (lower HeaderCookie2) with (s2b "cookie2") by (vm_compute; reflexivity).
  replace (lower HeaderProxyAuthenticate) with (s2b "proxy-authenticate") by (vm_compute; reflexivity).
  replace (lower HeaderProxyAuthorization) with (s2b "proxy-authorization") by (vm_compute; reflexivity).
  replace (lower HeaderWWWAuthenticate) with (s2b "www-authenticate") by (vm_compute; reflexivity).
  destruct (beq (lcs k) (s2b "authorization")), (beq (lcs k) (s2b "cookie")), (beq (lcs k) (s2b "cookie2")),
    (beq (lcs k) (s2b "proxy-authenticate")), (beq (lcs k) (s2b "proxy-authorization")), (beq (lcs k) (s2b "www-authenticate")); reflexivity.
Qed.

(* with normalizing enabled every stored key is in canonical form; then canon_keys holds *)
Definition init_agree (url0 host0 : bytes) : Prop :=
  lower (hostnameFromURLString url0) = lower (hostnameFromHostPortBytes host0).

Theorem no_credentials_off_domain maxr url0 host0 ok0 uinfo0 r0 chain hops res :
  run maxr url0 host0 ok0 uinfo0 r0 chain = (hops, res) ->
  init_agree url0 host0 ->
  wf_bytes (hostnameFromURLString url0) ->
  Forall (fun a => wf_bytes (a_rhost a)) chain ->
  canon_keys (r_dn r0) (r_h r0) ->
  forall hp, In hp hops -> ~ trusted (hostnameFromHostPortBytes host0) (h_host hp) -> s_sens (h_sent hp) = [].
Proof.
  unfold run, init_agree. intros Hrun Hagree Hasc Hch Hcan hp Hin Hnt.
  assert (Hl : lcs (hostnameFromURLString url0) = lcs (hostnameFromHostPortBytes host0)) by (rewrite <- !lower_lcs; exact Hagree).
  assert (Hpre : trusted (hostnameFromURLString url0) (hostnameFromHostPortBytes host0) \/ (uinfo0 = None /\ quiet r0)).
  { left. left. now symmetry. }
  destruct (follow_no_leak _ Hasc chain maxr 0%Z r0 uinfo0 ok0 host0 0%Z [] hops res Hch Hcan Hpre Hrun hp Hin) as [Ht|Hn].
  - exfalso. apply Hnt. eapply trusted_init_fold; eauto.
  - exact Hn.
Qed.

(* ---- (2) the redirect budget ------------------------------------------------------------------------------------------------------------ *)
Lemma follow_count : forall chain maxr init cnt r uinfo ok rhost via prev hops res,
  follow maxr init cnt r uinfo ok rhost via prev chain = (hops, res) ->
  (Z.of_nat (length hops) <= Z.max 0 (maxr - cnt) + 1)%Z /\
  (res = RTooMany -> Z.of_nat (length hops) = Z.max 0 (maxr - cnt) + 1)%Z.
Proof.
  induction chain as [|a rest IH]; intros maxr init cnt r uinfo ok rhost via prev hops res;
    rewrite follow_eq; destruct ok; cbn [negb]; try (intros E; injection E as <- <-; cbn [length]; split; [lia|discriminate]);
    destruct (write uinfo r) as [r1 s].
  - intros E; injection E as <- <-; cbn [length]; split; [lia|discriminate].
  - destruct (negb (StatusCodeIsRedirect (a_status a))); [intros E; injection E as <- <-; cbn [length]; split; [lia|discriminate]|].
    cbv zeta. destruct ((cnt + 1 >? maxr)%Z) eqn:Ec; [intros E; injection E as <- <-; cbn [length]; split; [lia|intros _; lia]|].
    destruct (a_loc a) as [|l0 lr]; [intros E; injection E as <- <-; cbn [length]; split; [lia|discriminate]|].
    match goal with |- context [follow ?m ?i ?c ?rr ?u ?o ?h ?v ?p rest] =>
      destruct (follow m i c rr u o h v p rest) as [hs res'] eqn:R end.
    intros E; injection E as <- <-. apply IH in R as [R1 R2]. cbn [length]. split; [lia|].
    intros Hr. specialize (R2 Hr). lia.
Qed.

Definition followable (a : answer) : Prop :=
  StatusCodeIsRedirect (a_status a) = true /\ a_loc a <> [] /\ a_ok a = true.

Lemma follow_too_many : forall chain maxr init cnt r uinfo rhost via prev hops res,
  follow maxr init cnt r uinfo true rhost via prev chain = (hops, res) ->
  Forall followable chain -> (Z.of_nat (length chain) > Z.max 0 (maxr - cnt))%Z -> res = RTooMany.
Proof.
  induction chain as [|a rest IH]; intros maxr init cnt r uinfo rhost via prev hops res; rewrite follow_eq; cbn [negb];
    destruct (write uinfo r) as [r1 s]; intros E Hf Hlen.
  - cbn [length] in Hlen. lia.
  - inversion Hf as [|a' rest' (Hst & Hloc & Hok) Hrest]; subst. rewrite Hst in E. cbn [negb] in E. cbv zeta in E.
    destruct ((cnt + 1 >? maxr)%Z) eqn:Ec; [now injection E as <- <-|].
    destruct (a_loc a) as [|l0 lr]; [congruence|]. rewrite Hok in E.
    match type of E with context [follow ?m ?i ?c ?rr ?u true ?h ?v ?p rest] =>
      destruct (follow m i c rr u true h v p rest) as [hs res'] eqn:R end.
    injection E as <- <-. eapply IH; [exact R|exact Hrest|]. cbn [length] in Hlen. lia.
Qed.

Theorem redirect_count maxr url0 host0 ok0 uinfo0 r0 chain hops res :
  run maxr url0 host0 ok0 uinfo0 r0 chain = (hops, res) ->
  (Z.of_nat (length hops) <= Z.max 0 maxr + 1)%Z /\
  (res = RTooMany -> Z.of_nat (length hops) = Z.max 0 maxr + 1)%Z /\
  (ok0 = true -> Forall followable chain -> (Z.of_nat (length chain) > Z.max 0 maxr)%Z -> res = RTooMany).
Proof.
  unfold run. intros Hrun. pose proof (follow_count _ _ _ _ _ _ _ _ _ _ _ _ Hrun) as [H1 H2].
  replace (maxr - 0)%Z with maxr in * by lia. repeat split; try assumption.
  intros -> Hf Hl. eapply follow_too_many; eauto. now replace (maxr - 0)%Z with maxr by lia.
Qed.

(* ---- (3) 303 => body-less GET/HEAD without body framing; (4) POST => GET on 301/302 ---------------------------------------------------------- *)
Lemma normKey_consts dn :
  normKey dn HeaderContentLength = HeaderContentLength /\ normKey dn HeaderContentType = HeaderContentType /\
  normKey dn HeaderTransferEncoding = HeaderTransferEncoding /\ normKey dn HeaderTrailer = HeaderTrailer.
Proof. destruct dn; vm_compute; repeat split. Qed.

Lemma has_key_delAllArgs k hs : has_key k (delAllArgs hs k) = false.
Proof.
  unfold has_key, delAllArgs. induction hs as [|x hs IH]; cbn [filter existsb]; [reflexivity|].
  destruct (beq (fst x) k) eqn:E; cbn [negb]; [exact IH|]. cbn [existsb]. now rewrite E, IH.
Qed.
Lemma has_key_delAllArgs_other k k' hs : has_key k hs = false -> has_key k (delAllArgs hs k') = false.
Proof.
  unfold has_key, delAllArgs. induction hs as [|x hs IH]; cbn [filter existsb]; [reflexivity|].
  intros Hh. apply orb_false_iff in Hh as [H1 H2]. destruct (negb (beq (fst x) k')); [cbn [existsb]; now rewrite H1, IH|now apply IH].
Qed.

(* Del on the special fields *)
Lemma hdel_CL r : r_clb (hdel HeaderContentLength r) = false /\ r_cl (hdel HeaderContentLength r) = 0%Z.
Proof. destruct (normKey_consts (r_dn r)) as (K & _). unfold hdel. cbn [set_framing r_clb r_cl]. now rewrite K, beq_refl. Qed.
Lemma hdel_CT r : r_ct (hdel HeaderContentType r) = false.
Proof. destruct (normKey_consts (r_dn r)) as (_ & K & _). unfold hdel. cbn [set_framing r_ct]. now rewrite K, beq_refl. Qed.
Lemma hdel_TE r : has_key HeaderTransferEncoding (r_h (hdel HeaderTransferEncoding r)) = false.
Proof. destruct (normKey_consts (r_dn r)) as (_ & _ & K & _). unfold hdel. cbn [set_framing r_h]. rewrite K. apply has_key_delAllArgs. Qed.
Lemma hdel_keep k r :
  (r_clb r = false -> r_clb (hdel k r) = false) /\ (r_cl r = 0%Z -> r_cl (hdel k r) = 0%Z) /\ (r_ct r = false -> r_ct (hdel k r) = false) /\
  (has_key HeaderTransferEncoding (r_h r) = false -> has_key HeaderTransferEncoding (r_h (hdel k r)) = false).
Proof.
  unfold hdel. cbn [set_framing r_clb r_cl r_ct r_h]. repeat split.
  - intros ->. now destruct (beq _ HeaderContentLength).
  - intros ->. now destruct (beq _ HeaderContentLength).
  - intros ->. now destruct (beq _ HeaderContentType).
  - apply has_key_delAllArgs_other.
Qed.

(* the request state right after a followed 303: GET/HEAD, no framing field, and EVERY body source empty *)
Definition after303 (prev : bytes) (r : req) : Prop :=
  r_method r = (if ignoreBody prev then prev else MethodGet) /\
  (r_body r = 0%Z /\ r_stream r = None /\ r_raw r = None /\ r_mpart r = None /\ r_pargs r = 0%Z /\ r_parsed r = false) /\
  r_clb r = false /\ r_ct r = false /\ r_cl r = 0%Z /\ has_key HeaderTransferEncoding (r_h r) = false.

Lemma rewrite_303 r : after303 (r_method r) (rewrite_req StatusSeeOther r).
Proof.
  unfold rewrite_req. rewrite Z.eqb_refl. cbv zeta.
  set (r1 := set_method r (if ignoreBody (r_method r) then r_method r else MethodGet)).
  set (ra := hdel HeaderContentLength r1). set (rb := hdel HeaderContentType ra).
  set (rc := hdel HeaderTransferEncoding rb). set (rd := hdel HeaderTrailer rc).
  unfold after303. split; [reflexivity|]. split; [repeat split|].
  cbn [reset_postargs ResetBody r_clb r_ct r_cl r_h].
  destruct (hdel_CL r1) as [A1 A2]. fold ra in A1, A2.
  pose proof (hdel_CT ra) as B1. fold rb in B1.
  pose proof (hdel_TE rb) as C1. fold rc in C1.
  destruct (hdel_keep HeaderContentType ra) as (Kb1 & Kb2 & _ & _). fold rb in Kb1, Kb2.
  destruct (hdel_keep HeaderTransferEncoding rb) as (Kc1 & Kc2 & Kc3 & _). fold rc in Kc1, Kc2, Kc3.
  destruct (hdel_keep HeaderTrailer rc) as (Kd1 & Kd2 & Kd3 & Kd4). fold rd in Kd1, Kd2, Kd3, Kd4.
  repeat split; auto.
Qed.

Definition sent_after303 (prev : bytes) (s : sent) : Prop :=
  s_method s = (if ignoreBody prev then prev else MethodGet) /\ s_body s = 0%Z /\
  s_cl s = false /\ s_ct s = false /\ s_te s = false.

Lemma ignoreBody_after prev : ignoreBody (if ignoreBody prev then prev else MethodGet) = true.
Proof. destruct (ignoreBody prev) eqn:E; [exact E|vm_compute; reflexivity]. Qed.

Lemma write_after303 prev r r1 s : after303 prev r -> write None r = (r1, s) -> sent_after303 prev s.
Proof.
  intros (Hm & (Hb & Hs & Hraw & Hmp & Hpa & _) & Hclb & Hct & Hcl & Hte). unfold write, body_to_send.
  rewrite Hs, Hraw, Hmp, Hb, Hpa, Hm, ignoreBody_after. cbn [Z.eqb negb orb].
  intros E. injection E as <- <-. unfold sent_after303, mk_sent, set_framing.
  cbn [s_method s_body s_cl s_ct s_te r_method r_h r_clb r_ct r_cl].
  rewrite Hte, Hclb, Hct, Hcl, Hm. repeat split.
Qed.

Lemma rewrite_post st r : (st = StatusMovedPermanently \/ st = StatusFound) -> beq (r_method r) MethodPost = true ->
  r_method (rewrite_req st r) = MethodGet.
Proof.
  intros Hst Hp. unfold rewrite_req.
  replace (st =? StatusSeeOther)%Z with false by (destruct Hst as [-> | ->]; vm_compute; reflexivity).
  rewrite Hp. replace ((st =? StatusMovedPermanently) || (st =? StatusFound))%Z with true
    by (destruct Hst as [-> | ->]; vm_compute; reflexivity).
  reflexivity.
Qed.

Lemma follow_rewrites : forall chain maxr init cnt r uinfo ok rhost via prev hops res,
  (via = StatusSeeOther -> after303 prev r /\ uinfo = None) ->
  (via = StatusMovedPermanently \/ via = StatusFound -> beq prev MethodPost = true -> r_method r = MethodGet) ->
  follow maxr init cnt r uinfo ok rhost via prev chain = (hops, res) ->
  forall hp, In hp hops ->
    (h_via hp = StatusSeeOther -> sent_after303 (h_prev hp) (h_sent hp)) /\
    (h_via hp = StatusMovedPermanently \/ h_via hp = StatusFound -> beq (h_prev hp) MethodPost = true ->
       s_method (h_sent hp) = MethodGet).
Proof.
  induction chain as [|a rest IH]; intros maxr init cnt r uinfo ok rhost via prev hops res H303 Hpost;
    rewrite follow_eq; destruct ok; cbn [negb]; try (intros E; injection E as <- <-; intros hp []);
    destruct (write uinfo r) as [r1 s] eqn:W;
    assert (Hhead : (via = StatusSeeOther -> sent_after303 prev s) /\
                    (via = StatusMovedPermanently \/ via = StatusFound -> beq prev MethodPost = true -> s_method s = MethodGet))
      by (split; [intros Hv; destruct (H303 Hv) as [Ha ->]; eapply write_after303; eauto
                 |intros Hv Hp; destruct (write_props _ _ _ _ W) as (_ & _ & -> & _); now apply Hpost]).
  - intros E. injection E as <- <-. intros hp [<-|[]]. exact Hhead.
  - destruct (negb (StatusCodeIsRedirect (a_status a))); [intros E; injection E as <- <-; intros hp [<-|[]]; exact Hhead|].
    cbv zeta. destruct ((cnt + 1 >? maxr)%Z); [intros E; injection E as <- <-; intros hp [<-|[]]; exact Hhead|].
    destruct (a_loc a) as [|l0 lr]; [intros E; injection E as <- <-; intros hp [<-|[]]; exact Hhead|].
    set (r2 := stripSensitiveHeadersOnRedirect r1 init (a_rhost a)).
    destruct (follow maxr init (cnt + 1)%Z (rewrite_req (a_status a) r2) None (a_ok a) (a_rhost a) (a_status a) (r_method r1) rest)
      as [hs res'] eqn:R.
    intros E. injection E as <- <-. intros hp [<-|Hin]; [exact Hhead|].
    destruct (strip_incl r1 init (a_rhost a)) as (_ & Hm2 & _). fold r2 in Hm2.
    eapply IH; [| |exact R|exact Hin].
    + intros Hv. split; [|reflexivity]. rewrite Hv, <- Hm2. apply rewrite_303.
    + intros Hv Hp. apply rewrite_post; [exact Hv|]. now rewrite Hm2.
Qed.

Theorem rewrites_ok maxr url0 host0 ok0 uinfo0 r0 chain hops res :
  run maxr url0 host0 ok0 uinfo0 r0 chain = (hops, res) ->
  forall hp, In hp hops ->
    (h_via hp = StatusSeeOther -> sent_after303 (h_prev hp) (h_sent hp)) /\
    (h_via hp = StatusMovedPermanently \/ h_via hp = StatusFound -> beq (h_prev hp) MethodPost = true ->
       s_method (h_sent hp) = MethodGet).
Proof.
  unfold run. intros Hrun. eapply follow_rewrites; [| |exact Hrun].
  - intros Hv. exfalso. revert Hv. vm_compute. discriminate.
  - intros [Hv|Hv]; exfalso; revert Hv; vm_compute; discriminate.
Qed.

(* the ghost fields say what they are meant to say: hop i+1 carries the status answered to hop i and hop i's method *)
Lemma follow_head maxr init cnt r uinfo ok rhost via prev chain hp hs res :
  follow maxr init cnt r uinfo ok rhost via prev chain = (hp :: hs, res) -> h_via hp = via /\ h_prev hp = prev.
Proof.
  rewrite follow_eq. destruct ok; cbn [negb]; [|discriminate]. destruct (write uinfo r) as [r1 s].
  destruct chain as [|a rest]; [intros E; injection E as <- <- <-; now split|].
  destruct (negb (StatusCodeIsRedirect (a_status a))); [intros E; injection E as <- <- <-; now split|].
  cbv zeta. destruct ((cnt + 1 >? maxr)%Z); [intros E; injection E as <- <- <-; now split|].
  destruct (a_loc a); [intros E; injection E as <- <- <-; now split|].
  match goal with |- context [follow ?m ?i ?c ?rr ?u ?o ?h ?v ?p rest] =>
    destruct (follow m i c rr u o h v p rest) as [hs' res'] end.
  intros E; injection E as <- <- <-; now split.
Qed.

Lemma follow_ghost : forall chain maxr init cnt r uinfo ok rhost via prev hops res,
  follow maxr init cnt r uinfo ok rhost via prev chain = (hops, res) ->
  forall i hp nxt, nth_error hops i = Some hp -> nth_error hops (S i) = Some nxt ->
    exists a, nth_error chain i = Some a /\ h_via nxt = a_status a /\ h_prev nxt = s_method (h_sent hp).
Proof.
  induction chain as [|a rest IH]; intros maxr init cnt r uinfo ok rhost via prev hops res;
    rewrite follow_eq; destruct ok; cbn [negb]; try (intros E; injection E as <- <-; intros [|i] hp nxt; discriminate);
    destruct (write uinfo r) as [r1 s] eqn:W.
  - intros E; injection E as <- <-; intros [|[|i]] hp nxt; discriminate.
  - destruct (negb (StatusCodeIsRedirect (a_status a))); [intros E; injection E as <- <-; intros [|[|i]] hp nxt; discriminate|].
    cbv zeta. destruct ((cnt + 1 >? maxr)%Z); [intros E; injection E as <- <-; intros [|[|i]] hp nxt; discriminate|].
    destruct (a_loc a) as [|l0 lr]; [intros E; injection E as <- <-; intros [|[|i]] hp nxt; discriminate|].
    match goal with |- context [follow ?m ?i ?c ?rr ?u ?o ?h ?v ?p rest] =>
      destruct (follow m i c rr u o h v p rest) as [hs res'] eqn:R end.
    intros E; injection E as <- <-. intros [|i] hp nxt H1 H2.
    + cbn in H1, H2. injection H1 as <-. exists a. split; [reflexivity|].
      destruct hs as [|n0 hs']; [discriminate|]. cbn in H2. injection H2 as ->.
      apply follow_head in R as [-> ->]. cbn [h_sent].
      destruct (write_props _ _ _ _ W) as (_ & Hm & Hs & _). split; [reflexivity|congruence].
    + cbn in H1, H2. destruct (IH _ _ _ _ _ _ _ _ _ _ _ R i hp nxt H1 H2) as (a' & Ha & Hr). exists a'. now split.
Qed.

Lemma run_ghost maxr url0 host0 ok0 uinfo0 r0 chain hops res :
  run maxr url0 host0 ok0 uinfo0 r0 chain = (hops, res) ->
  forall i hp nxt, nth_error hops i = Some hp -> nth_error hops (S i) = Some nxt ->
    exists a, nth_error chain i = Some a /\ h_via nxt = a_status a /\ h_prev nxt = s_method (h_sent hp).
Proof. unfold run. apply follow_ghost. Qed.

(* the three repaired findings stay repaired in the model: the look-alike host is not trusted, the sweep removes every
   spelling, with normalizing disabled or enabled again *)
Lemma repaired_examples :
  isDomainOrSubdomainBytes (h "61c5bf6b2e636f6d") (s2b "ask.com") = false /\
  isDomainOrSubdomainBytes (h "61732e4b2e636f6d") (s2b "as.k.com") = true /\
  (let r0 := mkReqB MethodGet [(s2b "authorization", s2b "secret"); (s2b "COOKIE2", s2b "x")] true false 0%Z false 0%Z None in
   map (fun hp => length (s_sens (h_sent hp)))
       (fst (run 5 (s2b "http://a.com/") (s2b "a.com") true None r0 [mkAns 302 (s2b "http://evil.com/x") (s2b "evil.com") true]))
   = [2%nat; 0%nat]) /\
  (let r0 := mkReqB MethodGet [(s2b "authorization", s2b "secret")] false false 0%Z false 0%Z None in
   map (fun hp => length (s_sens (h_sent hp)))
       (fst (run 5 (s2b "http://a.com/") (s2b "a.com") true None r0 [mkAns 302 (s2b "http://evil.com/x") (s2b "evil.com") true]))
   = [1%nat; 0%nat]).
Proof. vm_compute. repeat split; reflexivity. Qed.
