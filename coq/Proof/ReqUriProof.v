(* C05 on the URI-object path of Request.Write: whatever byte strings are given to the URI setters reached through
   req.URI() (raw query string, raw or normalised path, host, userinfo, query args, ...), the request line is the
   NEUTRALISED URI.RequestURI() and the message is one message. *)
From FH Require Import Model.Base Gen.GenC05 Model.ByteClassModel Model.Cookie Model.HeaderWrite Model.ReqUri Spec.HeadLines Proof.HeaderWriteProof.
Open Scope N_scope.

Lemma collectCookies_quri q : quri (collectCookies q) = quri q /\ qhost (collectCookies q) = qhost q.
Proof.
  unfold collectCookies. destruct (qcookiesCollected q); [split; reflexivity|].
  destruct (cc_loop (hh (qh q)) (hcookies (qh q))). split; reflexivity.
Qed.

Lemma QsetSpecialHeader_quri q k v q' : QsetSpecialHeader q k v = Some q' -> quri q' = quri q.
Proof.
  unfold QsetSpecialHeader. destruct k as [|c0 k0]; [discriminate|].
  destruct (collectCookies_quri q) as [Hc _].
  repeat match goal with
  | |- (if ?b then _ else _) = Some _ -> _ => destruct b
  | |- match ?o with Some _ => _ | None => _ end = Some _ -> _ => destruct o
  end; intros E; inversion E; subst; clear E; cbn; try reflexivity; exact Hc.
Qed.
Lemma QSet_quri q k v : quri (QSet q k v) = quri q.
Proof.
  unfold QSet, QSetCanonical. destruct (QsetSpecialHeader q _ _) as [q'|] eqn:E; [exact (QsetSpecialHeader_quri _ _ _ _ E)|reflexivity].
Qed.
Lemma QSetContentLength_quri q n : quri (QSetContentLength q n) = quri q.
Proof. unfold QSetContentLength. destruct (0 <=? n)%Z; reflexivity. Qed.

(* the request line Request.Write puts on the wire when it rebuilds it from the URI object *)
Theorem RequestWrite_request_line q parsed useHost uh uu user pass body q' out :
  RequestWrite q parsed useHost uh uu user pass body = Some (q', out) ->
  (beq (QHost q) [] || parsed = true -> quri q' = neutralise uu) /\
  (beq (QHost q) [] || parsed = false -> quri q' = quri q).
Proof.
  unfold RequestWrite. destruct (beq (QHost q) [] || parsed) eqn:Eb.
  - assert (G : forall qq, quri qq = neutralise uu ->
       (let hasBody := negb (beq body []) || negb (ignoreBody qq) in
        let q2 := if hasBody then QSetContentLength qq (Z.of_nat (length body)) else qq in
        Some (q2, ReqAppendBytes [] q2 ++ (if hasBody then body else []))) = Some (q', out) -> quri q' = neutralise uu).
    { intros qq Hq E. cbv zeta in E. inversion E; subst; clear E. destruct (negb (beq body []) || negb (ignoreBody qq)); [now rewrite QSetContentLength_quri|exact Hq]. }
    assert (U : forall qq, quri (QSetRequestURIBytes qq uu) = neutralise uu) by reflexivity.
    intros E. split; [intros _|discriminate].
    destruct (beq (QHost q) []).
    + destruct (beq uh []); [discriminate|]. destruct user; [apply (G _ (U _) E)|]. apply (G _ (eq_trans (QSet_quri _ _ _) (U _)) E).
    + destruct (negb useHost); (destruct user; [apply (G _ (U _) E)|apply (G _ (eq_trans (QSet_quri _ _ _) (U _)) E)]).
  - intros E. split; [discriminate|intros _]. cbv zeta in E. inversion E; subst; clear E.
    destruct (negb (beq body []) || negb (ignoreBody q)); [now rewrite QSetContentLength_quri|reflexivity].
Qed.

(* For ALL states of the URI object — in particular after any sequence of URI setter calls with arbitrary byte strings,
   under any normalizePath — Request.Write either refuses (no host) or writes one message: the request line carries
   the neutralised URI.RequestURI(), no CR/LF inside any field, names only fasthttp's own or asked-for ones, and what
   follows the head is the body (or nothing). *)
Theorem RequestWriteU_one_message normalizePath ops parsed useHost u0 uops body q' out :
  Forall qop_pre ops ->
  let u := urun normalizePath u0 uops in
  RequestWriteU (qrun ops) parsed useHost u body = Some (q', out) ->
  (beq (QHost (qrun ops)) [] || parsed = true -> quri q' = neutralise (URequestURI u)) /\
  nc (req_first q') /\
  exists sent', (sent' = body \/ sent' = []) /\
    out = render_head (req_first q') (req_entries q') ++ sent' /\
    peer_sees req_auto (strAuthorization :: flat_map qop_keys ops) (req_first q') sent' (read_head out).
Proof.
  intros Hp u E. unfold RequestWriteU in E.
  destruct (RequestWrite_request_line _ _ _ _ _ _ _ _ _ _ E) as [L _].
  destruct (RequestWrite_one_message ops parsed useHost _ _ _ _ body q' out Hp E) as (sent' & S1 & S2 & S3).
  split; [exact L|]. split.
  - (* the first line the reader sees is req_first q' and it is CR/LF-free *)
    destruct (read_head out) as [[f fs rest]|] eqn:Er.
    + cbn in S3. destruct S3 as (Ef & _ & Hf & _). now rewrite <- Ef.
    + (* rejected by the reader (empty header name asked for): cleanliness still follows from the state invariant *)
      clear - Hp E. unfold RequestWrite in E.
      assert (C0 : req_clean (qrun ops)) by now apply qrun_clean.
      assert (H1 : forall qq b, req_clean qq -> req_clean (QSetHostBytes qq b)) by (intros qq b C; exact (qstep_clean qq (QOSetHost b) C I)).
      assert (H2 : forall qq b, req_clean qq -> req_clean (QSetRequestURIBytes qq b)) by (intros qq b C; exact (qstep_clean qq (QOSetRequestURI b) C I)).
      assert (H3 : forall qq k v, req_clean qq -> req_clean (QSet qq k v)) by (intros; now apply QSet_clean).
      assert (F : forall qq, req_clean qq ->
         (let hasBody := negb (beq body []) || negb (ignoreBody qq) in
          let q2 := if hasBody then QSetContentLength qq (Z.of_nat (length body)) else qq in
          Some (q2, ReqAppendBytes [] q2 ++ (if hasBody then body else []))) = Some (q', out) -> nc (req_first q')).
      { intros qq C E'. cbv zeta in E'. inversion E'; subst; clear E'. apply req_first_clean.
        destruct (negb (beq body []) || negb (ignoreBody qq)); [now apply QSetContentLength_clean|exact C]. }
      revert E. destruct (beq (QHost (qrun ops)) [] || parsed); [|intros E; now apply (F _ C0)].
      destruct (beq (QHost (qrun ops)) []).
      * destruct (beq (uo_host u) []); [discriminate|].
        destruct (uo_username u); intros E; [apply (F _ (H2 _ _ (H1 _ _ C0)) E)|apply (F _ (H3 _ _ _ (H2 _ _ (H1 _ _ C0))) E)].
      * destruct (negb useHost); destruct (uo_username u); intros E; (eapply F; [|exact E]); auto.
  - exists sent'. auto.
Qed.
