(* RespParseProof.v — C03, part 1: how the independent reader Spec/RespParse.v reads rendered heads (status line,
   key: value lines) and chunked bodies as fasthttp's writers produce them. *)
From Coq Require Import Lia ZifyBool ZifyN ZifyNat.
From FH Require Import Model.Base Gen.GenC05 Gen.GenC06 Gen.GenC30 Model.Ints Model.ByteClassModel Model.Cookie Model.HeaderWrite
  Spec.IntsSpec Proof.IntsProof Spec.HeadLines Proof.HeaderWriteProof Model.RespWrite Spec.RespParse Spec.RespSpec.
Open Scope N_scope.

(* names that exist both in Spec/HeadLines.v (C05's reader) and in Spec/RespParse.v: the ones of RespParse are meant here *)
Notation take_line := RespParse.take_line.
Notation lower := RespParse.lower.

Lemma lower_same c : HeadLines.lower c = RespParse.lower c. Proof. reflexivity. Qed.

(* ------------------------------------------------------------------ lines *)
Lemma nc_no13 s : nc s -> forall c, In c s -> c <> 13 /\ c <> 10.
Proof. intros H c Hc. apply nc_In with (c := c) in H; [|exact Hc]. unfold is_crlf in H. lia. Qed.

Lemma take_line_render l rest : nc l -> take_line (l ++ 13 :: 10 :: rest) = Some (l, rest).
Proof.
  induction l as [|c l IH]; intros H; cbn [app RespParse.take_line].
  - reflexivity.
  - apply nc_cons in H as [Hc Hl]. unfold is_crlf in Hc.
    destruct (c =? 13) eqn:E1; [lia|]. destruct (c =? 10) eqn:E2; [lia|]. now rewrite (IH Hl).
Qed.

(* ------------------------------------------------------------------ tokens *)
Lemma tchar_table : forallb (fun c => Bool.eqb (validHeaderFieldByte c) (is_tchar c)) (map N.of_nat (seq 0 256)) = true.
Proof. vm_compute. reflexivity. Qed.
Lemma tchar_valid c : is_tchar c = validHeaderFieldByte c.
Proof.
  destruct (N.ltb_spec c 256) as [Hc|Hc].
  - pose proof tchar_table as H. rewrite forallb_forall in H.
    assert (Hin : In c (map N.of_nat (seq 0 256))). { apply in_map_iff. exists (N.to_nat c). split; [lia|]. apply in_seq. lia. }
    specialize (H c Hin). apply Bool.eqb_prop in H. now rewrite H.
  - unfold validHeaderFieldByte. destruct (N.ltb_spec c 128); [lia|]. cbn [andb].
    unfold is_tchar, is_alpha, is_dig. cbn [existsb].
    repeat match goal with |- context [N.eqb c ?k] => destruct (N.eqb_spec c k); [lia|] end.
    repeat match goal with |- context [N.leb ?a ?b] => destruct (N.leb_spec a b); try lia end; reflexivity.
Qed.
Lemma forallb_ext' {A} (f g : A -> bool) l : (forall x, f x = g x) -> forallb f l = forallb g l.
Proof. intros H. induction l as [|x l IH]; [reflexivity|]. cbn [forallb]. now rewrite H, IH. Qed.
Lemma token_valid s : is_token s = true <-> s <> [] /\ forallb validHeaderFieldByte s = true.
Proof.
  unfold is_token. destruct s as [|c r]; [split; [discriminate|intros [H _]; congruence]|].
  rewrite (forallb_ext' _ _ (c :: r) tchar_valid). split; [intros H; split; [discriminate|exact H] | intros [_ H]; exact H].
Qed.

Lemma token_no_colon k : is_token k = true -> forall v, split_colon (k ++ 58 :: v) = Some (k, v).
Proof.
  intros H v. apply token_valid in H as [_ H]. induction k as [|c k IH]; [reflexivity|].
  cbn [forallb] in H. apply andb_true_iff in H as [Hc Hk]. destruct (field_byte_facts c Hc) as (_&_&_&_&_&_&_&Hn&_).
  cbn [app split_colon]. destruct (N.eqb_spec c 58); [contradiction|]. now rewrite (IH Hk).
Qed.

Lemma trim_ows_sp v : trim_ows (32 :: v) = trim_ows v.
Proof. reflexivity. Qed.

Lemma parse_field_render k v : is_token k = true -> parse_field (k ++ [58; 32] ++ v) = Some (k, trim_ows v).
Proof.
  intros H. unfold parse_field. cbn [app]. rewrite (token_no_colon k H). rewrite H. now rewrite trim_ows_sp.
Qed.

(* ------------------------------------------------------------------ the field section *)
Definition entry_tok (e : bytes * bytes) : Prop := is_token (fst e) = true /\ nc (fst e) /\ nc (snd e).
Definition trimmed (es : list (bytes * bytes)) : list field := map (fun e => (fst e, trim_ows (snd e))) es.

Lemma parse_fields_render es : forall fuel rest, Forall entry_tok es -> (length es < fuel)%nat ->
  parse_fields fuel (render_lines es ++ [13; 10] ++ rest) = Some (trimmed es, rest).
Proof.
  induction es as [|[k v] es IH]; intros fuel rest He Hf; (destruct fuel as [|f]; [cbn in Hf; lia|]).
  - reflexivity.
  - inversion He as [|? ? [Ht [Hk Hv]] He']; subst. cbn [fst snd] in *.
    cbn [render_lines parse_fields].
    replace ((k ++ [58; 32] ++ v ++ [13; 10] ++ render_lines es) ++ [13; 10] ++ rest)
      with ((k ++ [58; 32] ++ v) ++ 13 :: 10 :: (render_lines es ++ [13; 10] ++ rest))
      by (repeat (rewrite <- ?app_assoc; cbn [app]); reflexivity).
    rewrite take_line_render by (apply nc_app; split; [exact Hk|apply nc_app; split; [reflexivity|exact Hv]]).
    assert (Hne : k ++ [58; 32] ++ v <> []). { destruct k; [discriminate|discriminate]. }
    destruct (k ++ [58; 32] ++ v) as [|c0 l0] eqn:El; [congruence|]. rewrite <- El.
    rewrite (parse_field_render k v Ht). rewrite (IH f rest He') by (cbn in Hf; lia). reflexivity.
Qed.

(* ------------------------------------------------------------------ the status line *)
Lemma status_line_parse sc reason : (100 <= sc <= 999)%Z ->
  parse_status_line (strHTTP11 ++ [32] ++ status_code_bytes sc ++ [32] ++ reason) = Some (sc, reason).
Proof.
  intros H. unfold status_code_bytes, appendStatusCode.
  destruct ((100 <=? sc)%Z && (sc <=? 999)%Z) eqn:E; [|lia].
  change strHTTP11 with [72; 84; 84; 80; 47; 49; 46; 49]. cbn [app parse_status_line].
  assert (A1 : (1 <= sc / 100 < 10)%Z) by (split; [apply Z.div_le_lower_bound; lia | apply Z.div_lt_upper_bound; lia]).
  assert (A2 : (0 <= (sc / 10) mod 10 < 10)%Z) by (apply Z.mod_pos_bound; lia).
  assert (A3 : (0 <= sc mod 10 < 10)%Z) by (apply Z.mod_pos_bound; lia).
  unfold is_dig, digit_val.
  replace ((48 <=? 49) && (49 <=? 57)) with true by reflexivity.
  assert (D1 : (48 <=? Z.to_N (48 + sc / 100)) && (Z.to_N (48 + sc / 100) <=? 57) = true) by lia.
  assert (D2 : (48 <=? Z.to_N (48 + (sc / 10) mod 10)) && (Z.to_N (48 + (sc / 10) mod 10) <=? 57) = true) by lia.
  assert (D3 : (48 <=? Z.to_N (48 + sc mod 10)) && (Z.to_N (48 + sc mod 10) <=? 57) = true) by lia.
  rewrite D1, D2, D3. cbn [andb]. f_equal. f_equal.
  rewrite !Z2N.id by lia.
  pose proof (Z.div_mod sc 10 ltac:(lia)) as E1. pose proof (Z.div_mod (sc / 10) 10 ltac:(lia)) as E2.
  rewrite Z.div_div in E2 by lia. change (10 * 10)%Z with 100%Z in E2. lia.
Qed.

(* ------------------------------------------------------------------ chunk sizes *)
Lemma hex_of_spec n : (0 <= n < 16 ^ maxHexIntChars64)%Z ->
  hex_of n <> [] /\ forallb is_hexdig (hex_of n) = true /\ hex_value (hex_of n) = n.
Proof.
  intros Hn. unfold hex_of, writeHexInt. destruct (Z.ltb_spec n 0); [lia|].
  assert (Hb : (0 <= n < 2 ^ Z.of_nat (S (Z.to_nat (Z.log2 n))))%Z).
  { split; [lia|]. destruct (Z.eq_dec n 0) as [->|Hz]; [reflexivity|].
    rewrite Nat2Z.inj_succ, Z2Nat.id by apply Z.log2_nonneg. apply Z.log2_spec. lia. }
  assert (Hcap : (n < 16 ^ (maxHexIntChars64 + 1))%Z).
  { eapply Z.lt_le_trans; [apply Hn|]. apply Z.pow_le_mono_r; unfold maxHexIntChars64; lia. }
  destruct (whi_loop_spec _ n (maxHexIntChars64 + 1)%Z [] Hb ltac:(unfold maxHexIntChars64; lia) Hcap) as (d & E & Hne & Hd & _ & _ & Hv).
  rewrite E, app_nil_r. split; [exact Hne|]. split; [exact Hd|].
  rewrite <- hexfold_value, Hv. lia.
Qed.

Lemma hexdig_nc d : forallb is_hexdig d = true -> nc d.
Proof.
  intros H. apply nc_In. intros c Hc. rewrite forallb_forall in H. specialize (H c Hc).
  unfold is_hexdig, hexdig in H. unfold is_crlf.
  destruct ((48 <=? c) && (c <=? 57)) eqn:E1; [lia|].
  destruct ((97 <=? c) && (c <=? 102)) eqn:E2; [lia|].
  destruct ((65 <=? c) && (c <=? 70)) eqn:E3; [lia|discriminate].
Qed.

Lemma span_hex_all d : forallb is_hexdig d = true -> span_hex d = (d, []).
Proof.
  intros H. pose proof (span_hex_app d [] H I) as E. now rewrite app_nil_r in E.
Qed.

Lemma parse_chunk_size_hex n : (0 <= n < 16 ^ maxHexIntChars64)%Z -> parse_chunk_size (hex_of n) = Some n.
Proof.
  intros Hn. destruct (hex_of_spec n Hn) as (Hne & Hd & Hv). unfold parse_chunk_size.
  rewrite (span_hex_all _ Hd). destruct (hex_of n); [congruence|]. cbn [drop_ows]. now rewrite Hv.
Qed.

(* ------------------------------------------------------------------ chunked bodies *)
Definition chunk_ok (c : bytes) : Prop := c <> [] /\ (blen c < 16 ^ maxHexIntChars64)%Z.

Lemma strCRLF_eq : strCRLF = [13; 10]. Proof. reflexivity. Qed.

Lemma dechunk_chunks cs : forall fuel acc tail, Forall chunk_ok cs -> (length cs < fuel)%nat ->
  dechunk fuel (concat (map enc_chunk cs) ++ tail) acc = dechunk (fuel - length cs) tail (acc ++ concat cs).
Proof.
  induction cs as [|c cs IH]; intros fuel acc tail Hc Hf.
  - cbn [map concat app length]. now rewrite Nat.sub_0_r, app_nil_r.
  - inversion Hc as [|? ? [Hne Hlen] Hc']; subst.
    destruct fuel as [|f]; [cbn in Hf; lia|].
    assert (Hn : (0 <= blen c < 16 ^ maxHexIntChars64)%Z) by (unfold blen in *; lia).
    destruct (hex_of_spec _ Hn) as (_ & Hd & _).
    cbn [map concat]. unfold enc_chunk at 1. rewrite strCRLF_eq.
    replace (((hex_of (blen c) ++ [13; 10] ++ c ++ [13; 10]) ++ concat (map enc_chunk cs)) ++ tail)
      with (hex_of (blen c) ++ 13 :: 10 :: (c ++ 13 :: 10 :: (concat (map enc_chunk cs) ++ tail)))
      by (repeat (rewrite <- ?app_assoc; cbn [app]); reflexivity).
    cbn [dechunk]. rewrite take_line_render by (now apply hexdig_nc).
    rewrite (parse_chunk_size_hex _ Hn).
    assert (Hz : (blen c =? 0)%Z = false). { unfold blen. destruct c; [congruence|]. cbn [length]. lia. }
    rewrite Hz. unfold blen. rewrite Nat2Z.id.
    assert (Hl : Nat.ltb (length (c ++ 13 :: 10 :: concat (map enc_chunk cs) ++ tail)) (length c + 2)%nat = false).
    { rewrite app_length. cbn [length]. apply Nat.ltb_ge. lia. }
    rewrite Hl. rewrite skipn_app, skipn_all, Nat.sub_diag. cbn [app skipn]. cbn [N.eqb Pos.eqb andb].
    rewrite firstn_app, firstn_all, Nat.sub_diag. cbn [firstn]. rewrite app_nil_r.
    rewrite (IH f (acc ++ c) tail Hc') by (cbn in Hf; lia).
    cbn [length Nat.sub]. now rewrite <- app_assoc.
Qed.

(* the last chunk and an empty trailer section *)
Lemma dechunk_last fuel acc rest : (0 < fuel)%nat ->
  dechunk fuel (enc_last ++ [13; 10] ++ rest) acc = Some (acc, [], rest).
Proof.
  intros Hf. destruct fuel as [|f]; [lia|]. unfold enc_last. rewrite strCRLF_eq.
  replace ((hex_of 0 ++ [13; 10]) ++ [13; 10] ++ rest) with (hex_of 0 ++ 13 :: 10 :: ([13; 10] ++ rest))
    by (repeat (rewrite <- ?app_assoc; cbn [app]); reflexivity).
  assert (Hn : (0 <= 0 < 16 ^ maxHexIntChars64)%Z) by (unfold maxHexIntChars64; lia).
  destruct (hex_of_spec _ Hn) as (_ & Hd & _).
  cbn [dechunk]. rewrite take_line_render by (now apply hexdig_nc). rewrite (parse_chunk_size_hex _ Hn).
  cbn [Z.eqb]. cbn [app length parse_fields RespParse.take_line N.eqb Pos.eqb]. reflexivity.
Qed.

Lemma dechunk_message cs rest : Forall chunk_ok cs ->
  dechunk (S (length (concat (map enc_chunk cs) ++ enc_last ++ [13; 10] ++ rest)))
          (concat (map enc_chunk cs) ++ enc_last ++ [13; 10] ++ rest) [] = Some (concat cs, [], rest).
Proof.
  intros Hc.
  assert (Hlen : (length cs <= length (concat (map enc_chunk cs)))%nat).
  { clear Hc. induction cs as [|c cs IH]; [cbn; lia|]. cbn [map concat length]. rewrite app_length.
    unfold enc_chunk at 1. rewrite !app_length. rewrite strCRLF_eq. cbn [length]. lia. }
  rewrite dechunk_chunks; [|exact Hc|rewrite app_length; lia].
  cbn [app]. apply dechunk_last. rewrite app_length. lia.
Qed.

