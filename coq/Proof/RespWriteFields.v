(* RespWriteFields.v — C03, header-field fidelity: what the independent reader makes of the written head, field by field. *)
From Coq Require Import Lia ZifyBool ZifyN ZifyNat.
From FH Require Import Model.Base Gen.GenC05 Gen.GenC06 Gen.GenC30 Model.Ints Model.ByteClassModel Model.Cookie Model.HeaderWrite
  Spec.IntsSpec Proof.IntsProof Spec.HeadLines Proof.HeaderWriteProof Model.RespWrite Spec.RespParse Spec.RespSpec
  Proof.RespParseProof Proof.RespWriteProof Proof.RespWriteMain.
Open Scope N_scope.

(* ------------------------------------------------------------------ user fields of a list of entries *)
Lemma user_trimmed es : user_of (trimmed es) = trimmed (user_of es).
Proof.
  unfold user_of, trimmed. induction es as [|[k v] es IH]; [reflexivity|]. cbn [map filter fst snd].
  destruct (is_user k); cbn [map fst snd]; now rewrite IH.
Qed.
Lemma user_app a b : user_of (a ++ b) = user_of a ++ user_of b.
Proof. apply filter_app. Qed.
Lemma user_opt k s : is_user k = false -> user_of (opt_line k s) = [].
Proof. intros H. unfold opt_line, user_of. destruct s; [reflexivity|]. cbn [filter fst]. now rewrite H. Qed.
Lemma user_if (b : bool) k v : is_user k = false -> user_of (if_line b k v) = [].
Proof. intros H. unfold if_line, user_of. destruct b; [|reflexivity]. cbn [filter fst]. now rewrite H. Qed.
Lemma user_cookies (cs : kvs) : user_of (map (fun kv : bytes * bytes => (strSetCookie, snd kv)) cs) = [].
Proof. induction cs as [|c cs IH]; [reflexivity|]. cbn [map]. unfold user_of in *. cbn [filter fst]. exact IH. Qed.

Lemma user_keep nd h : user_of (filter (resp_h_keep [] nd) h) = user_of h.
Proof.
  unfold user_of. induction h as [|[k v] h IH]; [reflexivity|]. cbn [filter fst].
  unfold resp_h_keep at 1. cbn [fst in_trailer existsb negb andb].
  destruct (nd || negb (beq k strDate)) eqn:E.
  - cbn [filter fst]. now rewrite IH.
  - apply orb_false_iff in E as [_ E]. apply negb_false_iff in E. apply beq_eq in E. subst k.
    change (is_user strDate) with false. exact IH.
Qed.

Lemma user_setArg h k v : is_user k = false -> user_of (setArg h k v) = user_of h.
Proof.
  intros Hk. unfold user_of. induction h as [|[k' v'] h IH]; cbn [setArg filter fst]; [now rewrite Hk|].
  destruct (beq k k') eqn:E.
  - apply beq_eq in E. subst k'. cbn [filter fst]. now rewrite Hk.
  - cbn [filter fst]. now rewrite IH.
Qed.
Lemma user_delAll h k : is_user k = false -> user_of (delAllArgsStable h k) = user_of h.
Proof.
  intros Hk. unfold user_of. induction h as [|[k' v'] h IH]; [reflexivity|]. cbn [delAllArgsStable filter fst].
  destruct (beq k k') eqn:E.
  - apply beq_eq in E. subst k'. now rewrite Hk.
  - cbn [filter fst]. now rewrite IH.
Qed.

(* the user fields among the head entries of a Response are the user entries of h.h, in order *)
Lemma user_entries date r : inv r -> user_of (resp_entries date r) = user_of (hh (rh r)).
Proof.
  intros [_ (_ & _ & H3 & _)]. unfold resp_entries. cbv zeta. rewrite H3. rewrite !user_app.
  rewrite (user_opt strServer) by reflexivity. rewrite (user_if _ strDate) by reflexivity.
  rewrite (user_opt strContentEncoding) by reflexivity. rewrite (user_opt strContentLength) by reflexivity.
  rewrite user_cookies. rewrite (user_if _ strConnection) by reflexivity. rewrite user_keep.
  replace (user_of (if negb (hcl (rh r) =? 0)%Z || negb (beq (hct (rh r)) []) then opt_line strContentType (RContentType r) else [])) with (@nil (bytes * bytes))
    by (destruct (negb (hcl (rh r) =? 0)%Z || negb (beq (hct (rh r)) [])); [now rewrite (user_opt strContentType)|reflexivity]).
  cbn [trailer_entry user_of filter app]. now rewrite app_nil_r.
Qed.

(* SetContentLength (as Response.Write calls it) and the serve loop's additions touch no user entry *)
Lemma user_SCL r n : user_of (hh (rh (RSetContentLength r n))) = user_of (hh (rh r)).
Proof.
  unfold RSetContentLength. destruct (mustSkipContentLength r); [reflexivity|].
  destruct (0 <=? n)%Z; [cbn; now apply user_delAll|]. destruct (n =? -1)%Z; [cbn; now apply user_setArg|reflexivity].
Qed.
Lemma user_finish c q R : user_of (hh (rh (r_hd (fst (srv_finish c q R))))) = user_of (hh (rh (r_hd R))).
Proof.
  unfold srv_finish. cbv zeta. cbn [fst r_hd with_hd].
  assert (Hhd : r_hd (if q_head q then with_skip R true else R) = r_hd R) by (destruct (q_head q); reflexivity).
  rewrite Hhd.
  set (cc := q_close q || c_disableKA c || _ || hclose (rh (r_hd R))).
  assert (T : user_of (hh (rh (if cc then RSetConnectionClose (r_hd R)
                 else if negb (q_http11 q) then with_rh (r_hd R) (hsetNonSpecial (rh (r_hd R)) strConnection strKeepAlive) else r_hd R)))
              = user_of (hh (rh (r_hd R)))).
  { destruct cc; [reflexivity|]. destruct (negb (q_http11 q)); [|reflexivity]. unfold hsetNonSpecial. cbn. now apply user_setArg. }
  destruct (c_name c); [exact T|]. match goal with |- context [match rserver ?x with _ => _ end] => destruct (rserver x) end; exact T.
Qed.

(* ------------------------------------------------------------------ the head Response.Write writes *)
Section Fields.
  Variables smsg date : bytes.
  Hypothesis Hsmsg : nc smsg.
  Hypothesis Hdate : nc date.

  Lemma respWrite_head R wire res : respWrite smsg date R = (wire, res) ->
    exists hdW rest, wire = head_of smsg date hdW ++ rest /\ (hdW = r_hd R \/ exists n, hdW = RSetContentLength (r_hd R) n).
  Proof.
    unfold respWrite. cbv zeta. destruct (r_stream R) as [s|].
    - destruct (hcl (rh (r_hd R)) >=? 0)%Z.
      + destruct (sendBody R).
        * destruct (fixed_body s (hcl (rh (r_hd R)))) as [b r]. intros E. injection E as <- _. exists (r_hd R), b. split; [reflexivity|now left].
        * intros E. injection E as <- _. exists (r_hd R), []. split; [now rewrite app_nil_r|now left].
      + destruct (sendBody R).
        * destruct (chunked_body s) as [b r]. intros E. injection E as <- _. eexists _, _. split; [reflexivity|right; now exists (-1)%Z].
        * intros E. injection E as <- _. eexists _, []. split; [now rewrite app_nil_r|right; now exists (-1)%Z].
    - intros E. injection E as <- _. destruct (sendBody R || negb (beq (bodyBytes R) [])).
      + eexists _, _. split; [reflexivity|right; now eexists].
      + eexists _, _. split; [reflexivity|now left].
  Qed.

  (* whatever framing the reader decides on, the fields it reports for a head written from r are r's entries *)
  Lemma parsed_fields m r tail p : inv r -> status_ok r ->
    resp_parse m (head_of smsg date r ++ tail) = Some p -> p_fields p = trimmed (resp_entries date r).
  Proof.
    intros Hi Hst E. destruct (parse_after_head smsg date Hsmsg Hdate m r tail Hi Hst) as (reason & Ep). rewrite Ep in E.
    destruct (framing_expected m r); try discriminate.
    - injection E as <-. reflexivity.
    - destruct (dechunk _ _ _) as [[[b t] rest]|]; [|discriminate]. injection E as <-. reflexivity.
    - cbv zeta in E. destruct (length tail <? Z.to_nat n)%nat; [discriminate|]. injection E as <-. reflexivity.
    - injection E as <-. reflexivity.
  Qed.

  (* Header-field fidelity.  For every well-formed handler program, every configuration and request, whenever the
     independent reader accepts what was written (followed by any bytes): the user header fields it reports are exactly
     the user entries of the handler's final Response (h.h after the last call), same names, same values up to
     surrounding blanks, same order; every other field carries one of the names the library manages itself. *)
  Theorem header_fields_carried c q m prog wire res cl tail p :
    Forall hop_wf prog -> (100 <= w_status (want_of prog) <= 999)%Z ->
    serve_one smsg date c q prog = (wire, res, cl) ->
    resp_parse m (wire ++ tail) = Some p ->
    user_of (p_fields p) = trimmed (user_of (hh (rh (r_hd (hrun (srv_init c) prog))))) /\
    Forall (fun f => is_user (fst f) = true \/ exists n, In n special_names /\ name_is n (fst f) = true) (p_fields p).
  Proof.
    intros Hw Hst Hs Hp. destruct (serve_one_write smsg date _ _ _ _ _ _ Hs) as [Hwr _].
    destruct (respWrite_head _ _ _ Hwr) as (hdW & rest & -> & HhdW).
    pose proof (finished_inv c q prog Hw) as Hi. unfold Rinv in Hi.
    assert (HiW : inv hdW) by (destruct HhdW as [->|[n ->]]; [exact Hi|now apply RSetContentLength_inv]).
    assert (HstW : status_ok hdW).
    { unfold status_ok. destruct HhdW as [->|[n ->]]; rewrite ?RStatusCode_SCL, finished_status; exact Hst. }
    rewrite <- app_assoc in Hp. rewrite (parsed_fields m hdW _ p HiW HstW Hp). split.
    - rewrite user_trimmed, (user_entries date hdW HiW). f_equal.
      destruct HhdW as [->|[n ->]]; rewrite ?user_SCL; unfold finished; apply user_finish.
    - apply Forall_forall. intros f _. unfold is_user. destruct (existsb (fun n => name_is n (fst f)) special_names) eqn:E; [|now left].
      right. apply existsb_exists in E. exact E.
  Qed.
End Fields.
