(* RespWriteGuard.v — C03: a syntactic class of handler programs for which the consistency guard of the theorems holds:
   no SkipBody call, no status code that forbids a length (1xx / 204 / 304) anywhere in the program, and the
   Content-Length line is only managed through SetContentLength / SetBodyStream / the body setters (no Set/Add/Del of a
   header named Content-Length). *)
From Coq Require Import Lia ZifyBool ZifyN ZifyNat.
From FH Require Import Model.Base Gen.GenC05 Gen.GenC06 Gen.GenC30 Model.Ints Model.ByteClassModel Model.Cookie Model.HeaderWrite
  Spec.IntsSpec Proof.IntsProof Spec.HeadLines Proof.HeaderWriteProof Model.RespWrite Spec.RespParse Spec.RespSpec
  Proof.RespParseProof Proof.RespWriteProof Proof.RespWriteMain.
Open Scope N_scope.
Notation lower := RespParse.lower.

(* fasthttp's comparison with a constant made of letters and '-' agrees with the reader's on tokens *)
Lemma lor_lower_tok_table :
  forallb (fun x => forallb (fun y =>
    if is_tchar x && (is_alpha y || (y =? 45)) && (N.lor x 32 =? N.lor y 32) then lower x =? lower y else true) first128) first128 = true.
Proof. vm_compute. reflexivity. Qed.

Lemma lor_lower_tok x y : is_tchar x = true -> is_alpha y || (y =? 45) = true -> N.lor x 32 = N.lor y 32 -> lower x = lower y.
Proof.
  intros Hx Hy H.
  assert (By : y < 128). { unfold is_alpha in Hy. lia. }
  assert (Bx : x < 128). { rewrite tchar_valid in Hx. unfold validHeaderFieldByte in Hx. lia. }
  pose proof lor_lower_tok_table as T. rewrite forallb_forall in T. specialize (T x (in_first128 x Bx)).
  rewrite forallb_forall in T. specialize (T y (in_first128 y By)). rewrite Hx, Hy, H, N.eqb_refl in T. cbn [andb] in T. now apply N.eqb_eq.
Qed.
Lemma lower_of_ci_tok a : forall b, forallb is_tchar a = true -> forallb (fun y => is_alpha y || (y =? 45)) b = true ->
  caseInsensitiveCompare b a = true -> map lower a = map lower b.
Proof.
  induction a as [|x a IH]; intros [|y b] Ha Hb H; try discriminate; [reflexivity|].
  cbn [forallb] in Ha, Hb. apply andb_true_iff in Ha as [Hx Ha]. apply andb_true_iff in Hb as [Hy Hb].
  cbn [caseInsensitiveCompare] in H. apply andb_true_iff in H as [Hxy H].
  cbn [map]. f_equal; [apply lor_lower_tok; [exact Hx|exact Hy|apply N.eqb_eq in Hxy; congruence] | now apply IH].
Qed.

Lemma token_tchars k : is_token k = true -> forallb is_tchar k = true.
Proof. unfold is_token. destruct k; [discriminate|exact (fun H => H)]. Qed.

Lemma not_cl_ci k : is_token k = true -> cl_name k = false -> caseInsensitiveCompare strContentLength k = false.
Proof.
  intros Ht Hn. destruct (caseInsensitiveCompare strContentLength k) eqn:E; [|reflexivity]. exfalso.
  pose proof (lower_of_ci_tok k strContentLength (token_tchars k Ht) eq_refl E) as Hl.
  unfold cl_name, name_is in Hn. rewrite Hl in Hn. discriminate Hn.
Qed.

(* ------------------------------------------------------------------ the class *)
Definition skip_code (n : Z) : bool := mustSkipContentLength (RSetStatusCode emptyResp n).

Definition rop_plain (o : rop) : Prop :=
  match o with
  | ROSet k _ | ROAdd k _ | ROSetCanonical k _ => cl_name k = false
  | ROSetStatusCode n => skip_code n = false
  | _ => True
  end.
Definition hop_plain (o : hop) : Prop :=
  match o with
  | HHdr o => rop_plain o
  | HDel k => cl_name k = false
  | HSkipBody _ => False
  | HError _ code => skip_code code = false
  | _ => True
  end.

(* ------------------------------------------------------------------ the framing triple under header operations *)
Definition triple (r : resp) := (hcl (rh r), hclb (rh r), te_entries r).

Lemma te_setArg h k v : te_name k = false ->
  filter (fun e : bytes * bytes => te_name (fst e)) (setArg h k v) = filter (fun e : bytes * bytes => te_name (fst e)) h.
Proof.
  intros Hk. induction h as [|[k' v'] h IH]; cbn [setArg filter fst]; [now rewrite Hk|].
  destruct (beq k k') eqn:E.
  - apply beq_eq in E. subst k'. cbn [filter fst]. now rewrite Hk.
  - cbn [filter fst]. now rewrite IH.
Qed.
Lemma te_appendArg h k v : te_name k = false ->
  filter (fun e : bytes * bytes => te_name (fst e)) (appendArg h k v) = filter (fun e : bytes * bytes => te_name (fst e)) h.
Proof. intros Hk. unfold appendArg. rewrite filter_app. cbn [filter fst]. rewrite Hk. apply app_nil_r. Qed.
Lemma te_delAll h k : te_name k = false ->
  filter (fun e : bytes * bytes => te_name (fst e)) (delAllArgsStable h k) = filter (fun e : bytes * bytes => te_name (fst e)) h.
Proof.
  intros Hk. induction h as [|[k' v'] h IH]; [reflexivity|]. cbn [delAllArgsStable filter fst].
  destruct (beq k k') eqn:E.
  - apply beq_eq in E. subst k'. now rewrite Hk.
  - cbn [filter fst]. now rewrite IH.
Qed.

Lemma conn_not_te key : caseInsensitiveCompare strConnection key = true -> te_name key = false.
Proof.
  intros E. destruct (te_name key) eqn:Et; [|reflexivity]. exfalso.
  pose proof (name_is_ci "transfer-encoding" strTransferEncoding key eq_refl Et) as Hc.
  apply ci_length in Hc. apply ci_length in E. rewrite <- Hc in E. discriminate E.
Qed.

Lemma triple_special r k v r' : is_token k = true -> cl_name k = false -> RsetSpecialHeader r k v = Some r' -> triple r' = triple r.
Proof.
  intros Ht Hn E. pose proof (not_cl_ci k Ht Hn) as Hci.
  unfold RsetSpecialHeader in E. destruct k as [|c0 k0]; [discriminate|]. cbv zeta in E. unfold ci in E. set (key := c0 :: k0) in *.
  unfold triple, te_entries.
  destruct (N.lor c0 32 =? 99).
  { destruct (caseInsensitiveCompare strContentType key); [injection E as <-; reflexivity|].
    rewrite Hci in E.
    destruct (caseInsensitiveCompare strContentEncoding key); [injection E as <-; reflexivity|].
    destruct (caseInsensitiveCompare strConnection key) eqn:Eco; [|discriminate].
    pose proof (conn_not_te key Eco) as Hte.
    match type of E with context [if ?b then _ else _] => destruct b end; injection E as <-.
    - cbn. now rewrite te_delAll.
    - unfold hsetNonSpecial, hResetConnectionClose. destruct (hclose (rh r)); cbn; rewrite te_setArg by exact Hte; [|reflexivity].
      now rewrite te_delAll. }
  destruct (N.lor c0 32 =? 115).
  { destruct (caseInsensitiveCompare strServer key); [injection E as <-; reflexivity|].
    destruct (caseInsensitiveCompare strSetCookie key); [injection E as <-; reflexivity|discriminate]. }
  destruct (N.lor c0 32 =? 116).
  { destruct (caseInsensitiveCompare strTransferEncoding key); [injection E as <-; reflexivity|].
    destruct (caseInsensitiveCompare strTrailer key); [|discriminate]. injection E as <-.
    unfold RSetTrailerBytes. cbn. rewrite hSetTrailer_hh. unfold hSetTrailerBytes, hAddTrailerBytes. cbn.
    destruct v; [reflexivity|]. destruct (atb_loop _ _ _ _ _); reflexivity. }
  destruct (N.lor c0 32 =? 100); [|discriminate].
  destruct (caseInsensitiveCompare strDate key); [injection E as <-; reflexivity|discriminate].
Qed.

Lemma mustSkip_rstatus r r' : rstatus r' = rstatus r -> mustSkipContentLength r' = mustSkipContentLength r.
Proof. intros E. unfold mustSkipContentLength. rewrite !RStatusCode_unfold, E. reflexivity. Qed.
Lemma mustSkip_set r n : mustSkipContentLength (RSetStatusCode r n) = skip_code n.
Proof. reflexivity. Qed.

Lemma hcl_SCL r n : mustSkipContentLength r = false -> hcl (rh (RSetContentLength r n)) = n.
Proof.
  intros Hm. unfold RSetContentLength. rewrite Hm. destruct (0 <=? n)%Z; [reflexivity|]. destruct (n =? -1)%Z; reflexivity.
Qed.

Definition J3 (r : resp) : Prop := (0 <= hcl (rh r))%Z -> hclb (rh r) <> [] /\ te_entries r = [].

Lemma J3_SCL r n : inv r -> mustSkipContentLength r = false -> J3 (RSetContentLength r n).
Proof.
  intros Hi Hm Hpos. rewrite (hcl_SCL r n Hm) in Hpos.
  destruct (SCL_fixed r n Hm Hpos) as (A & _ & B). rewrite A. split; [|apply B; apply Hi].
  now destruct (dec_digits_spec n Hpos) as (_ & ? & _).
Qed.
Lemma J3_triple r r' : triple r' = triple r -> J3 r -> J3 r'.
Proof. unfold triple, J3. intros E H. injection E as E1 E2 E3. rewrite E1, E2, E3. exact H. Qed.

Lemma triple_plain r k v : is_token k = true -> cl_name k = false ->
  forall r', RsetSpecialHeader r k v = None -> (hh (rh r') = setArg (hh (rh r)) k v \/ hh (rh r') = appendArg (hh (rh r)) k v) ->
  hcl (rh r') = hcl (rh r) -> hclb (rh r') = hclb (rh r) -> triple r' = triple r.
Proof.
  intros Ht Hn r' E Hh H1 H2. unfold triple, te_entries. rewrite H1, H2.
  assert (Hte : te_name k = false). { destruct (te_name k) eqn:Et; [|reflexivity]. rewrite (te_name_special r k v Et) in E. discriminate. }
  destruct Hh as [-> | ->]; [now rewrite te_setArg|now rewrite te_appendArg].
Qed.

Lemma J3_rstep r o : inv r -> mustSkipContentLength r = false -> rop_wf o -> rop_plain o -> J3 r -> J3 (rstep r o).
Proof.
  intros Hi Hm Hw Hp Hj. destruct o; cbn [rstep rop_wf rop_plain] in *; try contradiction;
    try (apply (J3_triple r); [reflexivity|exact Hj]).
  - destruct Hw as (Ht & _ & _). unfold RSet, getHeaderKeyBytes, RSetCanonical.
    destruct (normalized_token k (hdisableNorm (rh r)) Ht) as [Ht' Hl].
    assert (Hn' : cl_name (normalizeHeaderKey k (hdisableNorm (rh r))) = false) by (unfold cl_name; now rewrite (name_is_lower _ _ _ Hl)).
    destruct (RsetSpecialHeader r _ _) as [r'|] eqn:E.
    + apply (J3_triple r); [exact (triple_special _ _ _ _ Ht' Hn' E)|exact Hj].
    + apply (J3_triple r); [|exact Hj]. eapply triple_plain; [exact Ht'|exact Hn'|exact E|left; reflexivity|reflexivity|reflexivity].
  - destruct Hw as (Ht & _ & _). unfold RAdd, getHeaderKeyBytes.
    destruct (normalized_token k (hdisableNorm (rh r)) Ht) as [Ht' Hl].
    assert (Hn' : cl_name (normalizeHeaderKey k (hdisableNorm (rh r))) = false) by (unfold cl_name; now rewrite (name_is_lower _ _ _ Hl)).
    destruct (RsetSpecialHeader r _ _) as [r'|] eqn:E.
    + apply (J3_triple r); [exact (triple_special _ _ _ _ Ht' Hn' E)|exact Hj].
    + apply (J3_triple r); [|exact Hj]. eapply triple_plain; [exact Ht'|exact Hn'|exact E|right; reflexivity|reflexivity|reflexivity].
  - destruct Hw as (Ht & _ & _). unfold RSetCanonical. destruct (RsetSpecialHeader r _ _) as [r'|] eqn:E.
    + apply (J3_triple r); [exact (triple_special _ _ _ _ Ht Hp E)|exact Hj].
    + apply (J3_triple r); [|exact Hj]. eapply triple_plain; [exact Ht|exact Hp|exact E|left; reflexivity|reflexivity|reflexivity].
  - now apply J3_SCL.
  - apply (J3_triple r); [|exact Hj]. unfold triple, te_entries, RResetConnectionClose, hResetConnectionClose.
    destruct (hclose (rh r)); [|reflexivity]. cbn. now rewrite te_delAll.
Qed.

Lemma mustSkip_rstep r o : mustSkipContentLength r = false -> rop_plain o -> mustSkipContentLength (rstep r o) = false.
Proof.
  intros Hm Hp. destruct (match o with ROSetStatusCode n => Some n | _ => None end) as [n|] eqn:Eo.
  - destruct o; try discriminate. injection Eo as ->. cbn [rstep rop_plain] in *. now rewrite mustSkip_set.
  - rewrite (mustSkip_rstatus r); [exact Hm|]. apply rstatus_rstep. intros n ->. discriminate.
Qed.

(* ------------------------------------------------------------------ the Response object *)
Definition J (R : response) : Prop :=
  r_skip R = false /\ mustSkipContentLength (r_hd R) = false /\ (forall s, r_stream R = Some s -> J3 (r_hd R)).

Definition hop_ok (o : hop) : Prop :=
  hop_wf o /\ hop_plain o /\ match o with HDel k => is_token k = true | _ => True end.

Lemma filter_nil_delAll (P : bytes * bytes -> bool) h k : filter P h = [] -> filter P (delAllArgsStable h k) = [].
Proof.
  induction h as [|[k' v'] h IH]; [reflexivity|]. cbn [filter delAllArgsStable]. destruct (P (k', v')) eqn:E; [discriminate|].
  intros H. destruct (beq k k'); [now apply IH|]. cbn [filter]. rewrite E. now apply IH.
Qed.

Lemma J3_RDel r k : is_token k = true -> cl_name k = false -> J3 r -> J3 (RDel r k).
Proof.
  intros Ht Hn Hj. unfold RDel. cbv zeta. unfold getHeaderKeyBytes.
  destruct (normalized_token k (hdisableNorm (rh r)) Ht) as [Ht' Hl]. set (k' := normalizeHeaderKey k (hdisableNorm (rh r))) in *.
  assert (Hk : beq k' strContentLength = false).
  { destruct (beq k' strContentLength) eqn:E; [|reflexivity]. apply beq_eq in E. unfold cl_name, name_is in Hn. rewrite <- Hl, E in Hn. discriminate Hn. }
  rewrite Hk. unfold J3 in *.
  repeat match goal with |- context [if ?b then _ else _] => destruct b end; cbn; intros Hpos; destruct (Hj Hpos) as [A B];
    (split; [exact A|]); unfold te_entries in *; cbn; now apply filter_nil_delAll.
Qed.

Lemma rstatus_hd_RDel r k : mustSkipContentLength (RDel r k) = mustSkipContentLength r.
Proof. apply mustSkip_rstatus. apply rstatus_RDel. Qed.

Lemma J_step R o : Rinv R -> J R -> hop_ok o -> J (hstep R o).
Proof.
  intros Hi (J1 & J2 & J3') (Hw & Hp & Hd). unfold Rinv in Hi.
  destruct o; cbn [hstep hop_wf hop_plain] in *; try contradiction.
  - split; [exact J1|]. split; [now apply mustSkip_rstep|]. cbn [with_hd r_stream r_hd]. intros s Es. apply J3_rstep; try assumption. now apply (J3' s).
  - split; [exact J1|]. cbn [with_hd r_stream r_hd]. split; [now rewrite rstatus_hd_RDel|]. intros s Es. apply J3_RDel; try assumption. now apply (J3' s).
  - split; [exact J1|]. split; [exact J2|]. intros s Es. discriminate Es.
  - split; [exact J1|]. split; [exact J2|]. intros s Es. discriminate Es.
  - split; [exact J1|]. split; [exact J2|]. intros s Es. discriminate Es.
  - split; [exact J1|]. split; [exact J2|]. intros s Es. discriminate Es.
  - unfold SetBodyStream. split; [exact J1|]. split; [cbn [r_hd]; now rewrite mustSkip_SCL|]. cbn [r_stream r_hd]. intros s' _. now apply J3_SCL.
  - split; [reflexivity|]. cbn [CtxError r_hd r_stream]. split; [exact Hp|]. intros s Es. discriminate Es.
  - split; [reflexivity|]. split; [reflexivity|]. intros s Es. discriminate Es.
Qed.

Lemma J_run prog : forall R, Rinv R -> J R -> Forall hop_ok prog -> J (hrun R prog).
Proof.
  induction prog as [|o prog IH]; intros R Hi Hj Hok; [exact Hj|]. inversion Hok as [|? ? Ho Hok']; subst. cbn [hrun fold_left].
  apply IH; [apply hstep_inv; [exact Hi|exact (proj1 Ho)]|now apply J_step|exact Hok'].
Qed.

Lemma J_init c : J (srv_init c).
Proof.
  unfold J, srv_init. cbv zeta. cbn [r_skip r_hd r_stream]. split; [reflexivity|]. split; [|intros s E; discriminate E].
  destruct (c_name c); destruct (c_noNorm c); reflexivity.
Qed.

Lemma finish_triple c q R :
  r_stream (fst (srv_finish c q R)) = r_stream R /\
  r_skip (fst (srv_finish c q R)) = (if q_head q then true else r_skip R) /\
  triple (r_hd (fst (srv_finish c q R))) = triple (r_hd R).
Proof.
  unfold srv_finish. cbv zeta. cbn [fst r_stream r_skip r_hd with_hd].
  assert (Hhd : r_hd (if q_head q then with_skip R true else R) = r_hd R) by (destruct (q_head q); reflexivity).
  split; [destruct (q_head q); reflexivity|]. split; [destruct (q_head q); reflexivity|].
  rewrite Hhd. set (cc := q_close q || c_disableKA c || _ || hclose (rh (r_hd R))).
  assert (T1 : triple (if cc then RSetConnectionClose (r_hd R)
                       else if negb (q_http11 q) then with_rh (r_hd R) (hsetNonSpecial (rh (r_hd R)) strConnection strKeepAlive) else r_hd R) = triple (r_hd R)).
  { destruct cc; [reflexivity|]. destruct (negb (q_http11 q)); [|reflexivity]. unfold triple, te_entries, hsetNonSpecial. cbn. now rewrite te_setArg. }
  destruct (c_name c); [exact T1|]. match goal with |- context [match rserver ?x with _ => _ end] => destruct (rserver x) end; exact T1.
Qed.

(* the guard of the theorems holds for every program of the class *)
Theorem guard_of_class c q m prog : Forall hop_ok prog -> q_head q = is_head m -> guard m (finished c q prog).
Proof.
  intros Hok Hq.
  assert (Hwf : Forall hop_wf prog) by (apply Forall_forall; intros o Ho; rewrite Forall_forall in Hok; exact (proj1 (Hok o Ho))).
  destruct (J_run prog (srv_init c) (srv_init_inv c) (J_init c) Hok) as (J1 & J2 & J3').
  unfold finished. destruct (finish_triple c q (hrun (srv_init c) prog)) as (F1 & F2 & F3). split.
  - rewrite F2, <- Hq. destruct (q_head q); [reflexivity|exact J1].
  - intros s Es _. rewrite F1 in Es. exact (J3_triple _ _ F3 (J3' s Es)).
Qed.
