(* RespWriteMain.v — C03, part 3: the theorems about Response.Write and the serve loop. *)
From Coq Require Import Lia ZifyBool ZifyN ZifyNat.
From FH Require Import Model.Base Gen.GenC05 Gen.GenC06 Gen.GenC30 Model.Ints Model.ByteClassModel Model.Cookie Model.HeaderWrite
  Spec.IntsSpec Proof.IntsProof Spec.HeadLines Proof.HeaderWriteProof Model.RespWrite Spec.RespParse Spec.RespSpec
  Proof.RespParseProof Proof.RespWriteProof.
Open Scope N_scope.
Notation take_line := RespParse.take_line.
Notation lower := RespParse.lower.

Ltac bl H := match type of H with
  | true = negb ?b => destruct b; [discriminate H|]
  | false = negb ?b => destruct b; [|discriminate H]
  end.

Section Main.
  Variables smsg date : bytes.
  Hypothesis Hsmsg : nc smsg.
  Hypothesis Hdate : nc date.

  (* what resp_parse makes of a head written by the model followed by `tail` *)
  Lemma parse_after_head m r tail : inv r -> status_ok r ->
    exists reason,
    resp_parse m (head_of smsg date r ++ tail) =
      match framing_expected m r with
      | FBad => None
      | FNone => Some (mkParsed (RStatusCode r) reason (trimmed (resp_entries date r)) [] [] tail false)
      | FClose => Some (mkParsed (RStatusCode r) reason (trimmed (resp_entries date r)) tail [] [] true)
      | FLength n =>
          let k := Z.to_nat n in
          if (length tail <? k)%nat then None
          else Some (mkParsed (RStatusCode r) reason (trimmed (resp_entries date r)) (firstn k tail) [] (skipn k tail) false)
      | FChunked =>
          match dechunk (S (length tail)) tail [] with
          | Some (body, tr, rest) => Some (mkParsed (RStatusCode r) reason (trimmed (resp_entries date r)) body tr rest false)
          | None => None
          end
      end.
  Proof.
    intros Hi Hst. destruct (head_read smsg date r tail Hi Hsmsg Hdate Hst) as (reason & E1 & E2 & E3).
    exists reason. unfold resp_parse. rewrite E1, E2, E3, (framing_of m date r Hi). reflexivity.
  Qed.

  Definition final_body (R : response) : bytes :=
    match r_stream R with Some s => st_data s | None => bodyBytes R end.

  (* the state in which Response.Write is entered is consistent:
     SkipBody exactly for HEAD, and a body stream with a known size has its Content-Length line and no chunked marker *)
  Definition guard (m : meth) (R : response) : Prop :=
    r_skip R = is_head m /\
    (forall s, r_stream R = Some s -> sendBody R = true -> (0 <= hcl (rh (r_hd R)))%Z ->
       hclb (rh (r_hd R)) <> [] /\ te_entries (r_hd R) = []).

  Definition stream_small (R : response) : Prop :=
    forall s, r_stream R = Some s -> (blen (st_data s) < 16 ^ maxHexIntChars64)%Z.

  Lemma in_scope_ok r : in_scope r -> status_ok r.
  Proof. unfold in_scope, status_ok. lia. Qed.

  Lemma bodyless_nosend m R : guard m R -> in_scope (r_hd R) ->
    sendBody R = negb (bodyless m (RStatusCode (r_hd R))).
  Proof.
    intros [Hs _] Hsc. unfold sendBody, bodyless. rewrite Hs, (mustSkip_scope _ Hsc). unfold no_body_status.
    unfold in_scope in Hsc. destruct (Z.ltb_spec (RStatusCode (r_hd R)) 200); [lia|]. cbn [orb]. now rewrite orb_assoc.
  Qed.

  Lemma framing_none m r : is_head m || no_body_status (RStatusCode r) = true -> framing_expected m r = FNone.
  Proof. intros H. unfold framing_expected. now rewrite H. Qed.

  Theorem write_parses m R wire tail :
    Rinv R -> guard m R -> in_scope (r_hd R) -> stream_small R ->
    respWrite smsg date R = (wire, WrOk) ->
    exists p, resp_parse m (wire ++ tail) = Some p /\
      p_status p = RStatusCode (r_hd R) /\
      p_body p = (if bodyless m (RStatusCode (r_hd R)) then [] else final_body R) /\
      p_trailers p = [] /\ p_rest p = tail /\ p_until_close p = false.
  Proof.
    intros Hi Hg Hsc Hsm Hw. pose proof (bodyless_nosend m R Hg Hsc) as Hsb.
    pose proof Hg as [Hskip Hgs]. unfold Rinv in Hi. unfold respWrite in Hw. cbv zeta in Hw.
    assert (Hnb : sendBody R = false -> is_head m || no_body_status (RStatusCode (r_hd R)) = true).
    { intros E. rewrite E in Hsb. symmetry in Hsb. apply negb_false_iff in Hsb. unfold bodyless in Hsb. unfold no_body_status.
      destruct (is_head m); [reflexivity|]. cbn [orb] in *. destruct (Z.ltb_spec (RStatusCode (r_hd R)) 200); [reflexivity|exact Hsb]. }
    assert (Hyb : sendBody R = true -> is_head m || no_body_status (RStatusCode (r_hd R)) = false /\ mustSkipContentLength (r_hd R) = false).
    { intros E. split.
      - rewrite E in Hsb. symmetry in Hsb. apply negb_true_iff in Hsb. unfold bodyless in Hsb. unfold no_body_status. unfold in_scope in Hsc.
        destruct (is_head m); [discriminate|]. cbn [orb] in *. destruct (Z.ltb_spec (RStatusCode (r_hd R)) 200); [lia|exact Hsb].
      - unfold sendBody in E. apply negb_true_iff in E. apply orb_false_iff in E. tauto. }
    destruct (r_stream R) as [s|] eqn:Es.
    - (* a body stream *)
      specialize (Hsm s Es).
      destruct (Z.geb_spec (hcl (rh (r_hd R))) 0) as [Hcl|Hcl]; [replace (hcl (rh (r_hd R)) >=? 0)%Z with true in Hw by lia|replace (hcl (rh (r_hd R)) >=? 0)%Z with false in Hw by lia].
      + (* known size *)
        destruct (sendBody R) eqn:Esb.
        * destruct (Hyb eq_refl) as [Hfr Hms].
          destruct (fixed_body s (hcl (rh (r_hd R)))) as [b res] eqn:Ef. injection Hw as <- ->.
          assert (Hb : b = st_data s /\ blen (st_data s) = hcl (rh (r_hd R))).
          { unfold fixed_body in Ef. destruct (st_kind s).
            - destruct (Z.ltb_spec (blen (st_data s)) (hcl (rh (r_hd R)))); [discriminate Ef|].
              destruct (Z.eqb_spec (blen (st_data s)) (hcl (rh (r_hd R)))) as [E|E]; [|discriminate Ef].
              destruct (st_fail s && st_with s && nonempty (st_data s)); [discriminate Ef|].
              injection Ef as <-. split; [|exact E]. rewrite <- E. unfold blen. rewrite Nat2Z.id. apply firstn_all.
            - destruct (Z.eqb_spec (blen (st_data s)) (hcl (rh (r_hd R)))) as [E|E]; [|discriminate Ef].
              injection Ef as <-. split; [reflexivity|exact E].
            - destruct (Z.eqb_spec (blen (st_data s)) (hcl (rh (r_hd R)))) as [E|E]; [|discriminate Ef].
              injection Ef as <-. split; [reflexivity|exact E]. }
          destruct Hb as [-> Hlen].
          destruct (Hgs s eq_refl eq_refl ltac:(lia)) as [Hclb Hte].
          destruct (parse_after_head m (r_hd R) (st_data s ++ tail) Hi (in_scope_ok _ Hsc)) as (reason & Ep).
          unfold framing_expected in Ep. rewrite Hfr, Hte in Ep.
          destruct (hclb (rh (r_hd R))) as [|b0 bb] eqn:Eb; [congruence|].
          destruct Hi as [_ (_ & _ & _ & H4)]. unfold clb_ok in H4. rewrite Eb in H4. destruct (H4 ltac:(discriminate)) as [_ Hv].
          rewrite (Hv ltac:(lia)), <- Hlen in Ep. cbv zeta in Ep. unfold blen in Ep. rewrite Nat2Z.id in Ep.
          assert (Hl : (length (st_data s ++ tail) <? length (st_data s))%nat = false) by (rewrite app_length; apply Nat.ltb_ge; lia).
          rewrite Hl in Ep. rewrite firstn_app, firstn_all, Nat.sub_diag, skipn_app, skipn_all, Nat.sub_diag in Ep. cbn [firstn skipn app] in Ep. rewrite app_nil_r in Ep.
          rewrite <- app_assoc. eexists. split; [exact Ep|]. cbn [p_status p_body p_trailers p_rest p_until_close].
          bl Hsb. unfold final_body. rewrite Es. repeat split; reflexivity.
        * injection Hw as <-. destruct (parse_after_head m (r_hd R) tail Hi (in_scope_ok _ Hsc)) as (reason & Ep).
          rewrite (framing_none m _ (Hnb eq_refl)) in Ep. eexists. split; [exact Ep|]. cbn [p_status p_body p_trailers p_rest p_until_close].
          bl Hsb. repeat split; reflexivity.
      + (* unknown size: chunked *)
        set (hd' := RSetContentLength (r_hd R) (-1)) in *.
        assert (Hi' : inv hd') by (now apply RSetContentLength_inv).
        assert (Hst' : RStatusCode hd' = RStatusCode (r_hd R)) by apply RStatusCode_SCL.
        assert (Hso' : status_ok hd'). { unfold status_ok. rewrite Hst'. now apply in_scope_ok. }
        destruct (sendBody R) eqn:Esb.
        * destruct (Hyb eq_refl) as [Hfr Hms].
          destruct (chunked_body s) as [b res] eqn:Ec. destruct res; [|discriminate Hw]. injection Hw as <-.
          assert (Htr : RespTrailerHeader hd' = [13; 10]).
          { unfold RespTrailerHeader. destruct Hi' as [_ (_ & _ & H3 & _)]. rewrite H3. reflexivity. }
          rewrite Htr.
          assert (Hb : exists cs, Forall chunk_ok cs /\ concat cs = st_data s /\ b = concat (map enc_chunk cs) ++ enc_last).
          { unfold chunked_body in Ec. destruct (st_kind s) eqn:Ek.
            - destruct (st_fail s); [discriminate Ec|]. injection Ec as <-.
              exists (reads_of s). split; [apply reads_chunk_ok|]. split; [apply reads_concat|reflexivity].
            - injection Ec as <-. destruct (st_data s) as [|d0 d] eqn:Ed.
              + exists []. split; [constructor|]. split; reflexivity.
              + exists [d0 :: d]. split; [constructor; [split; [discriminate|exact Hsm]|constructor]|].
                split; [cbn [concat]; now rewrite app_nil_r|]. cbn [map concat]. now rewrite app_nil_r.
            - injection Ec as <-. exists (reads_of s). split; [apply reads_chunk_ok|]. split; [apply reads_concat|reflexivity]. }
          destruct Hb as (cs & Hcs & Hcat & ->).
          destruct (SCL_chunked (r_hd R) Hms) as [Hclb Hte]. fold hd' in Hclb, Hte.
          destruct (parse_after_head m hd' ((concat (map enc_chunk cs) ++ enc_last) ++ [13; 10] ++ tail) Hi' Hso') as (reason & Ep).
          unfold framing_expected in Ep. rewrite Hst', Hfr, Hclb in Ep.
          destruct (te_entries hd') as [|e0 es0] eqn:Ete; [congruence|].
          replace ((concat (map enc_chunk cs) ++ enc_last) ++ [13; 10] ++ tail)
            with (concat (map enc_chunk cs) ++ enc_last ++ [13; 10] ++ tail) in Ep by (now rewrite <- app_assoc).
          rewrite (dechunk_message cs tail Hcs) in Ep.
          replace ((head_of smsg date hd' ++ (concat (map enc_chunk cs) ++ enc_last) ++ [13; 10]) ++ tail)
            with (head_of smsg date hd' ++ concat (map enc_chunk cs) ++ enc_last ++ [13; 10] ++ tail)
            by (repeat (rewrite <- ?app_assoc; cbn [app]); reflexivity).
          eexists. split; [exact Ep|]. cbn [p_status p_body p_trailers p_rest p_until_close].
          bl Hsb. unfold final_body. rewrite Es, Hcat. repeat split; reflexivity.
        * injection Hw as <-. destruct (parse_after_head m hd' tail Hi' Hso') as (reason & Ep).
          rewrite (framing_none m hd') in Ep by (rewrite Hst'; now apply Hnb). eexists. split; [exact Ep|].
          cbn [p_status p_body p_trailers p_rest p_until_close]. bl Hsb. repeat split; try reflexivity; try exact Hst'.
    - (* an in-memory body *)
      injection Hw as <-.
      destruct (sendBody R) eqn:Esb.
      + destruct (Hyb eq_refl) as [Hfr Hms]. cbn [orb].
        set (body := bodyBytes R) in *. set (hd' := RSetContentLength (r_hd R) (blen body)).
        assert (Hi' : inv hd') by (now apply RSetContentLength_inv).
        assert (Hst' : RStatusCode hd' = RStatusCode (r_hd R)) by apply RStatusCode_SCL.
        assert (Hso' : status_ok hd'). { unfold status_ok. rewrite Hst'. now apply in_scope_ok. }
        destruct (SCL_fixed (r_hd R) (blen body) Hms ltac:(unfold blen; lia)) as (Hclb & _ & Hte). fold hd' in Hclb, Hte.
        specialize (Hte ltac:(apply Hi)).
        destruct (parse_after_head m hd' (body ++ tail) Hi' Hso') as (reason & Ep).
        unfold framing_expected in Ep. rewrite Hst', Hfr, Hte, Hclb in Ep.
        destruct (dec_digits_spec (blen body) ltac:(unfold blen; lia)) as (_ & Hne & Hv).
        destruct (dec_digits (blen body)) as [|d0 dd] eqn:Ed; [congruence|]. rewrite Hv in Ep. cbv zeta in Ep.
        unfold blen in Ep. rewrite Nat2Z.id in Ep.
        assert (Hl : (length (body ++ tail) <? length body)%nat = false) by (rewrite app_length; apply Nat.ltb_ge; lia).
        rewrite Hl in Ep. rewrite firstn_app, firstn_all, Nat.sub_diag, skipn_app, skipn_all, Nat.sub_diag in Ep. cbn [firstn skipn app] in Ep. rewrite app_nil_r in Ep.
        rewrite <- app_assoc. eexists. split; [exact Ep|]. cbn [p_status p_body p_trailers p_rest p_until_close].
        bl Hsb. unfold final_body. rewrite Es. repeat split; try reflexivity; try exact Hst'.
      + cbn [orb]. rewrite app_nil_r.
        set (hd' := if negb (beq (bodyBytes R) []) then RSetContentLength (r_hd R) (blen (bodyBytes R)) else r_hd R).
        assert (Hi' : inv hd') by (subst hd'; destruct (negb (beq (bodyBytes R) [])); [now apply RSetContentLength_inv|exact Hi]).
        assert (Hst' : RStatusCode hd' = RStatusCode (r_hd R)) by (subst hd'; destruct (negb (beq (bodyBytes R) [])); [apply RStatusCode_SCL|reflexivity]).
        assert (Hso' : status_ok hd'). { unfold status_ok. rewrite Hst'. now apply in_scope_ok. }
        destruct (parse_after_head m hd' tail Hi' Hso') as (reason & Ep).
        rewrite (framing_none m hd') in Ep by (rewrite Hst'; now apply Hnb). eexists. split; [exact Ep|].
        cbn [p_status p_body p_trailers p_rest p_until_close]. bl Hsb. repeat split; try reflexivity; try exact Hst'.
  Qed.
End Main.

(* ------------------------------------------------------------------ the model state vs what the handler asked for *)
Lemma rstatus_special r k v r' : RsetSpecialHeader r k v = Some r' -> rstatus r' = rstatus r.
Proof.
  unfold RsetSpecialHeader. destruct k as [|c0 k0]; [discriminate|]. cbv zeta. unfold ci.
  repeat match goal with
  | |- context [if ?b then _ else _] => destruct b
  | |- context [match parseContentLength ?v with _ => _ end] => destruct (parseContentLength v)
  end; intros E; try discriminate; injection E as <-; reflexivity.
Qed.
Lemma rstatus_SCL r n : rstatus (RSetContentLength r n) = rstatus r.
Proof. unfold RSetContentLength. destruct (mustSkipContentLength r); [reflexivity|]. destruct (0 <=? n)%Z; [reflexivity|]. destruct (n =? -1)%Z; reflexivity. Qed.

Lemma rstatus_rstep r o : (forall n, o <> ROSetStatusCode n) -> rstatus (rstep r o) = rstatus r.
Proof.
  intros Hn. destruct o; cbn [rstep]; try reflexivity.
  - unfold RSet, RSetCanonical. destruct (RsetSpecialHeader _ _ _) eqn:E; [now apply rstatus_special in E|reflexivity].
  - unfold RAdd. destruct (RsetSpecialHeader _ _ _) eqn:E; [now apply rstatus_special in E|reflexivity].
  - unfold RSetCanonical. destruct (RsetSpecialHeader _ _ _) eqn:E; [now apply rstatus_special in E|reflexivity].
  - now elim (Hn n).
  - apply rstatus_SCL.
Qed.
Lemma rstatus_RDel r k : rstatus (RDel r k) = rstatus r.
Proof. unfold RDel. cbv zeta. repeat match goal with |- context [if ?b then _ else _] => destruct b end; reflexivity. Qed.

Definition RStatus_of (s : Z) : Z := if (s =? 0)%Z then StatusOK else s.
Lemma RStatusCode_unfold r : RStatusCode r = RStatus_of (rstatus r). Proof. reflexivity. Qed.

Lemma status_step R o w : RStatusCode (r_hd R) = w_status w -> RStatusCode (r_hd (hstep R o)) = w_status (want_step w o).
Proof.
  intros H. destruct o; cbn [hstep want_step r_hd with_hd with_skip SetBody AppendBody SetBodyRaw ResetBody SetBodyStream CtxError w_status]; try exact H.
  - destruct (match o with ROSetStatusCode n => Some n | _ => None end) as [n|] eqn:Eo.
    + destruct o; try discriminate. injection Eo as ->. cbn [rstep w_status]. reflexivity.
    + assert (Hn : forall n, o <> ROSetStatusCode n) by (intros n ->; discriminate).
      rewrite RStatusCode_unfold, (rstatus_rstep _ _ Hn), <- RStatusCode_unfold.
      destruct o; try exact H. discriminate.
  - rewrite RStatusCode_unfold, rstatus_RDel. exact H.
  - rewrite RStatusCode_unfold, rstatus_SCL. exact H.
  - reflexivity.
  - reflexivity.
Qed.
Lemma status_run prog : forall R w, RStatusCode (r_hd R) = w_status w ->
  RStatusCode (r_hd (hrun R prog)) = w_status (fold_left want_step prog w).
Proof. induction prog as [|o prog IH]; intros R w H; [exact H|]. cbn [hrun fold_left]. apply IH. now apply status_step. Qed.

Lemma status_init c : RStatusCode (r_hd (srv_init c)) = 200%Z.
Proof.
  unfold srv_init. cbv zeta. cbn [r_hd]. destruct (c_name c); destruct (c_noNorm c); reflexivity.
Qed.
Lemma status_finish c q R : RStatusCode (r_hd (fst (srv_finish c q R))) = RStatusCode (r_hd R).
Proof.
  unfold srv_finish. cbv zeta. cbn [fst r_hd with_hd].
  destruct (q_head q); cbn [r_hd with_skip];
  destruct (q_close q || c_disableKA c || _ || hclose (rh (r_hd R))); destruct (negb (q_http11 q)); destruct (c_name c);
  try reflexivity; match goal with |- context [match rserver ?x with _ => _ end] => destruct (rserver x) end; reflexivity.
Qed.

(* bodies *)
Definition want_data (w : want) : bytes := match w_body w with WBytes b => b | WStream _ s => st_data s end.

Definition body_rel (R : response) (w : want) : Prop :=
  match r_stream R with
  | Some s => (exists n, w_body w = WStream n s) /\ r_body R = [] /\ r_raw R = None
  | None => match r_raw R with
            | Some x => w_body w = WBytes x
            | None => w_body w = WBytes (r_body R)
            end
  end.

Lemma body_run prog : forall R w, body_rel R w ->
  final_body (hrun R prog) = want_data (fold_left want_step prog w).
Proof.
  induction prog as [|o prog IH]; intros R w Hb.
  - cbn [hrun fold_left]. unfold final_body, want_data, bodyBytes. unfold body_rel in Hb.
    destruct (r_stream R) as [s|]; [destruct Hb as ((n & ->) & _); reflexivity|].
    destruct (r_raw R) as [x|]; rewrite Hb; reflexivity.
  - cbn [hrun fold_left]. apply IH. destruct o; cbn [hstep want_step].
    + unfold body_rel in *. cbn [with_hd r_stream r_raw r_body]. destruct o; exact Hb.
    + exact Hb.
    + unfold body_rel, SetBody. cbn [r_stream r_raw r_body w_body]. reflexivity.
    + unfold body_rel in *. unfold AppendBody. cbn [r_stream r_raw r_body w_body].
      destruct (r_stream R) as [s|].
      * destruct Hb as ((n & ->) & -> & ->). reflexivity.
      * destruct (r_raw R) as [x|]; rewrite Hb; reflexivity.
    + unfold body_rel, SetBodyRaw. cbn [r_stream r_raw r_body w_body]. reflexivity.
    + unfold body_rel, ResetBody. cbn [r_stream r_raw r_body w_body]. reflexivity.
    + unfold body_rel, SetBodyStream. cbn [r_stream r_raw r_body w_body]. split; [now exists size|]. split; reflexivity.
    + exact Hb.
    + unfold body_rel, CtxError. cbn [r_stream r_raw r_body w_body]. reflexivity.
    + unfold body_rel, emptyResponse. cbn [r_stream r_raw r_body w_body want0]. reflexivity.
Qed.

Lemma final_body_finish c q R : final_body (fst (srv_finish c q R)) = final_body R.
Proof. unfold srv_finish. cbv zeta. cbn [fst]. unfold final_body, bodyBytes. destruct (q_head q); reflexivity. Qed.

(* ------------------------------------------------------------------ the serve loop: handler programs *)
Section Top.
  Variables smsg date : bytes.
  Hypothesis Hsmsg : nc smsg.
  Hypothesis Hdate : nc date.

  (* the response handed to Response.Write *)
  Definition finished (c : srvcfg) (q : reqinfo) (prog : list hop) : response := fst (srv_finish c q (hrun (srv_init c) prog)).

  Lemma finished_inv c q prog : Forall hop_wf prog -> Rinv (finished c q prog).
  Proof. intros Hw. apply srv_finish_inv. apply hrun_inv; [apply srv_init_inv|exact Hw]. Qed.
  Lemma finished_status c q prog : RStatusCode (r_hd (finished c q prog)) = w_status (want_of prog).
  Proof. unfold finished. rewrite status_finish. apply status_run. apply status_init. Qed.
  Lemma finished_body c q prog : final_body (finished c q prog) = want_data (want_of prog).
  Proof.
    unfold finished. rewrite final_body_finish. apply body_run.
    unfold body_rel, srv_init. cbv zeta. cbn [r_stream r_raw r_body want0 w_body]. reflexivity.
  Qed.
  Lemma serve_one_write c q prog wire res cl : serve_one smsg date c q prog = (wire, res, cl) ->
    respWrite smsg date (finished c q prog) = (wire, res) /\ (res = WrErr -> cl = true).
  Proof.
    unfold serve_one, finished. destruct (srv_finish c q (hrun (srv_init c) prog)) as [R cc]. cbn [fst].
    destruct (respWrite smsg date R) as [b r]. intros E. injection E as <- <- <-. split; [reflexivity|].
    intros ->. cbn [wres_eqb negb]. apply orb_true_r.
  Qed.

  Theorem exactly_one_response c q m prog tail wire cl :
    Forall hop_wf prog -> q_head q = is_head m ->
    guard m (finished c q prog) -> stream_small (finished c q prog) ->
    status_in_scope (w_status (want_of prog)) = true ->
    serve_one smsg date c q prog = (wire, WrOk, cl) ->
    exists p, resp_parse m (wire ++ tail) = Some p /\
      p_status p = w_status (want_of prog) /\
      p_body p = (if bodyless m (w_status (want_of prog)) then [] else want_data (want_of prog)) /\
      p_trailers p = [] /\ p_rest p = tail /\ p_until_close p = false.
  Proof.
    intros Hw Hq Hg Hsm Hsc Hs. destruct (serve_one_write _ _ _ _ _ _ Hs) as [Hwr _].
    assert (Hin : in_scope (r_hd (finished c q prog))).
    { unfold in_scope. rewrite finished_status. unfold status_in_scope in Hsc. lia. }
    destruct (write_parses smsg date Hsmsg Hdate m _ wire tail (finished_inv c q prog Hw) Hg Hin Hsm Hwr) as (p & E & A1 & A2 & A3 & A4 & A5).
    exists p. rewrite finished_status in A1, A2. rewrite (finished_body c q prog) in A2. repeat split; assumption.
  Qed.

  (* nothing follows the head when the request was HEAD or the status is 204 / 304 *)
  Theorem no_body_for_head_204_304 c q m prog wire cl :
    Forall hop_wf prog -> q_head q = is_head m ->
    guard m (finished c q prog) -> stream_small (finished c q prog) ->
    status_in_scope (w_status (want_of prog)) = true ->
    bodyless m (w_status (want_of prog)) = true ->
    serve_one smsg date c q prog = (wire, WrOk, cl) ->
    exists p, resp_parse m wire = Some p /\ p_status p = w_status (want_of prog) /\ p_body p = [] /\ p_rest p = [] /\ p_until_close p = false.
  Proof.
    intros Hw Hq Hg Hsm Hsc Hb Hs.
    destruct (exactly_one_response c q m prog [] wire cl Hw Hq Hg Hsm Hsc Hs) as (p & E & A1 & A2 & A3 & A4 & A5).
    rewrite app_nil_r in E. rewrite Hb in A2. exists p. repeat split; assumption.
  Qed.
End Top.

(* two responses written one after the other are read as two: the second starts exactly where the first ends *)
Theorem next_response_starts_at_end date smsg1 smsg2 c q1 q2 m1 m2 prog1 prog2 w1 w2 cl1 cl2 :
  nc date -> nc smsg1 -> nc smsg2 ->
  Forall hop_wf prog1 -> Forall hop_wf prog2 ->
  q_head q1 = is_head m1 -> q_head q2 = is_head m2 ->
  guard m1 (finished c q1 prog1) -> guard m2 (finished c q2 prog2) ->
  stream_small (finished c q1 prog1) -> stream_small (finished c q2 prog2) ->
  status_in_scope (w_status (want_of prog1)) = true -> status_in_scope (w_status (want_of prog2)) = true ->
  serve_one smsg1 date c q1 prog1 = (w1, WrOk, cl1) -> serve_one smsg2 date c q2 prog2 = (w2, WrOk, cl2) ->
  exists p1 p2, parse_seq [m1; m2] (w1 ++ w2) = Some [p1; p2] /\
    p_status p1 = w_status (want_of prog1) /\ p_status p2 = w_status (want_of prog2) /\
    p_body p1 = (if bodyless m1 (w_status (want_of prog1)) then [] else want_data (want_of prog1)) /\
    p_body p2 = (if bodyless m2 (w_status (want_of prog2)) then [] else want_data (want_of prog2)) /\
    p_rest p1 = w2 /\ p_rest p2 = [].
Proof.
  intros Hd Hs1 Hs2 Hw1 Hw2 Hq1 Hq2 Hg1 Hg2 Hm1 Hm2 Hc1 Hc2 E1 E2.
  destruct (exactly_one_response smsg1 date Hs1 Hd c q1 m1 prog1 w2 w1 cl1 Hw1 Hq1 Hg1 Hm1 Hc1 E1) as (p1 & P1 & A1 & A2 & A3 & A4 & A5).
  destruct (exactly_one_response smsg2 date Hs2 Hd c q2 m2 prog2 [] w2 cl2 Hw2 Hq2 Hg2 Hm2 Hc2 E2) as (p2 & P2 & B1 & B2 & B3 & B4 & B5).
  rewrite app_nil_r in P2. exists p1, p2. cbn [parse_seq]. rewrite P1, A4, P2, B4. repeat split; assumption.
Qed.

(* a plain reader that yields a different number of bytes than the declared size: at most the declared size is
   written, they are a prefix of the stream, Write fails (and serve_one closes: serve_one_write) *)
Theorem stream_size_mismatch smsg date R s n :
  r_stream R = Some s -> st_kind s = SKReader -> hcl (rh (r_hd R)) = n -> (0 <= n)%Z -> blen (st_data s) <> n ->
  exists b, respWrite smsg date R = (head_of smsg date (r_hd R) ++ (if sendBody R then b else []), if sendBody R then WrErr else WrOk) /\
            (blen b <= n)%Z /\ b = firstn (length b) (st_data s).
Proof.
  intros Es Ek Hn Hpos Hne. exists (firstn (Z.to_nat n) (st_data s)). unfold respWrite. rewrite Es. cbv zeta. rewrite Hn.
  replace (n >=? 0)%Z with true by lia. split; [|split].
  - destruct (sendBody R); [|now rewrite app_nil_r]. unfold fixed_body. rewrite Ek.
    destruct (Z.ltb_spec (blen (st_data s)) n); [reflexivity|]. destruct (Z.eqb_spec (blen (st_data s)) n); [contradiction|reflexivity].
  - unfold blen. rewrite firstn_length. lia.
  - rewrite firstn_length. destruct (Nat.le_ge_cases (Z.to_nat n) (length (st_data s))) as [H|H].
    + now rewrite Nat.min_l.
    + rewrite Nat.min_r by exact H. now rewrite !firstn_all2 by lia.
Qed.
