(* RespWriteProof.v — proofs for C03: what Model/RespWrite.v writes is read back by the independent reader
   Spec/RespParse.v as exactly the response the handler asked for. *)
From Coq Require Import Lia ZifyBool ZifyN ZifyNat.
From FH Require Import Model.Base Gen.GenC03 Gen.GenC05 Gen.GenC06 Gen.GenC30 Model.Ints Model.ByteClassModel Model.Cookie Model.HeaderWrite
  Spec.IntsSpec Proof.IntsProof Spec.HeadLines Proof.HeaderWriteProof Model.RespWrite Spec.RespParse Spec.RespSpec Proof.RespParseProof.
Open Scope N_scope.
Notation take_line := RespParse.take_line.
Notation lower := RespParse.lower.

(* ------------------------------------------------------------------ field names: fasthttp's comparison vs the reader's *)
Definition first128 := HeaderWriteProof.first128.
Lemma lor_lower_table :
  forallb (fun x => forallb (fun y =>
    (if lower x =? lower y then N.lor x 32 =? N.lor y 32 else true) &&
    (if is_alpha y && (N.lor x 32 =? N.lor y 32) then lower x =? lower y else true)) first128) first128 = true.
Proof. vm_compute. reflexivity. Qed.

Lemma lower_bound x y : lower x = lower y -> x = y \/ (x < 128 /\ y < 128).
Proof.
  unfold RespParse.lower. destruct ((65 <=? x) && (x <=? 90)) eqn:Ex; destruct ((65 <=? y) && (y <=? 90)) eqn:Ey; intros H; lia.
Qed.
Lemma lower_lor x y : lower x = lower y -> N.lor x 32 = N.lor y 32.
Proof.
  intros H. destruct (lower_bound x y H) as [->|[Hx Hy]]; [reflexivity|].
  pose proof lor_lower_table as T. rewrite forallb_forall in T. specialize (T x (in_first128 x Hx)).
  rewrite forallb_forall in T. specialize (T y (in_first128 y Hy)). apply andb_true_iff in T as [T _].
  rewrite H, N.eqb_refl in T. now apply N.eqb_eq.
Qed.
Lemma lt128_log2 a : a <> 0 -> (a < 128 <-> N.log2 a < 7).
Proof. intros Ha. change 128 with (2 ^ 7). apply N.log2_lt_pow2. lia. Qed.
Lemma lor_bound x c : N.lor x 32 = c -> c < 128 -> x < 128.
Proof.
  intros H Hc. destruct (N.eq_dec x 0) as [->|Hx]; [lia|].
  assert (Hc0 : c <> 0). { intros ->. apply N.lor_eq_0_iff in H. lia. }
  assert (Hl : N.log2 x <= N.log2 c). { rewrite <- H, N.log2_lor. lia. }
  apply (lt128_log2 x Hx). apply (lt128_log2 c Hc0) in Hc. lia.
Qed.
Lemma lor_lower x y : is_alpha y = true -> N.lor x 32 = N.lor y 32 -> lower x = lower y.
Proof.
  intros Ha H.
  assert (Hy : y < 128). { unfold is_alpha in Ha. lia. }
  assert (Hy0 : y <> 0). { unfold is_alpha in Ha. lia. }
  assert (Hly0 : N.lor y 32 <> 0). { intros E. apply N.lor_eq_0_iff in E. lia. }
  assert (Hly : N.lor y 32 < 128).
  { apply (lt128_log2 _ Hly0). rewrite N.log2_lor. change (N.log2 32) with 5. apply (lt128_log2 y Hy0) in Hy. lia. }
  assert (Hx : x < 128) by (eapply lor_bound; [exact H|exact Hly]).
  pose proof lor_lower_table as T. rewrite forallb_forall in T. specialize (T x (in_first128 x Hx)).
  rewrite forallb_forall in T. specialize (T y (in_first128 y Hy)). apply andb_true_iff in T as [_ T].
  rewrite Ha, H, N.eqb_refl in T. cbn [andb] in T. now apply N.eqb_eq.
Qed.

Lemma ci_of_lower a : forall b, map lower a = map lower b -> caseInsensitiveCompare a b = true.
Proof.
  induction a as [|x a IH]; intros [|y b] H; try discriminate; [reflexivity|].
  cbn [map] in H. injection H as Hx Hr. cbn [caseInsensitiveCompare]. rewrite (lower_lor _ _ Hx), N.eqb_refl. now apply IH.
Qed.
Lemma lower_of_ci a : forall b, forallb is_alpha b = true -> caseInsensitiveCompare a b = true -> map lower a = map lower b.
Proof.
  induction a as [|x a IH]; intros [|y b] Hb H; try discriminate; [reflexivity|].
  cbn [forallb] in Hb. apply andb_true_iff in Hb as [Hy Hb]. cbn [caseInsensitiveCompare] in H. apply andb_true_iff in H as [Hx H].
  cbn [map]. f_equal; [apply lor_lower; [exact Hy|now apply N.eqb_eq] | now apply IH].
Qed.
Lemma ci_sym a : forall b, caseInsensitiveCompare a b = caseInsensitiveCompare b a.
Proof. induction a as [|x a IH]; intros [|y b]; try reflexivity. cbn [caseInsensitiveCompare]. now rewrite N.eqb_sym, IH. Qed.

Lemma name_is_lower n k k' : map lower k = map lower k' -> name_is n k = name_is n k'.
Proof. unfold name_is. now intros ->. Qed.

(* a name the reader takes for `n` is one fasthttp's comparison takes for the constant c (lower c = n) *)
Lemma name_is_ci n c k : map lower c = s2b n -> name_is n k = true -> caseInsensitiveCompare c k = true.
Proof.
  intros Hc H. unfold name_is in H. apply beq_eq in H. apply ci_of_lower. congruence.
Qed.

Definition cl_name (k : bytes) : bool := name_is "content-length" k.
Definition te_name (k : bytes) : bool := name_is "transfer-encoding" k.

(* ------------------------------------------------------------------ the state invariant behind the framing theorems *)
Definition key_ok (kv : bytes * bytes) : Prop :=
  is_token (fst kv) = true /\ cl_name (fst kv) = false /\ (te_name (fst kv) = true -> kv = (strTransferEncoding, strChunked)).
Definition clb_ok (x : hdr) : Prop :=
  hclb x <> [] -> all_digits (hclb x) = true /\ ((0 <= hcl x)%Z -> dec_value (hclb x) = hcl x).
Definition hinv (x : hdr) : Prop := hproto x = [] /\ Forall key_ok (hh x) /\ htrailer x = [] /\ clb_ok x.
Definition inv (r : resp) : Prop := resp_clean r /\ hinv (rh r).

Lemma key_ok_te : key_ok (strTransferEncoding, strChunked).
Proof. split; [reflexivity|]. split; [reflexivity|]. intros _. reflexivity. Qed.
Lemma key_ok_conn v : key_ok (strConnection, v).
Proof. split; [reflexivity|]. split; [reflexivity|]. cbn [fst]. intros H. discriminate H. Qed.

Lemma setArg_keys_ok h k v : Forall key_ok h -> key_ok (k, v) -> Forall key_ok (setArg h k v).
Proof.
  intros Hh Hk. induction Hh as [|[k' v'] r Hkv Hr IH]; cbn [setArg]; [constructor; [exact Hk|constructor]|].
  destruct (beq k k') eqn:E; [|constructor; assumption].
  apply beq_eq in E. subst k'. constructor; assumption.
Qed.
Lemma appendArg_keys_ok h k v : Forall key_ok h -> key_ok (k, v) -> Forall key_ok (appendArg h k v).
Proof. intros Hh Hk. unfold appendArg. apply Forall_app. split; [exact Hh|constructor; [exact Hk|constructor]]. Qed.
Lemma delAll_keys_ok h k : Forall key_ok h -> Forall key_ok (delAllArgsStable h k).
Proof. induction 1 as [|[k' v'] r Hkv Hr IH]; cbn [delAllArgsStable]; [constructor|]. destruct (beq k k'); [assumption|now constructor]. Qed.

Ltac hi := unfold hinv, clb_ok in *; cbn [hh hcookies hclb hct hproto htrailer hcl hdisableNorm hclose hnoDefCT
  with_hh with_hcookies with_hclb with_hct with_hproto with_htrailer with_hcl with_hdisableNorm with_hclose with_hnoDefCT
  rh rstatusMsg rce rserver rstatus rnoDefDate with_rh with_rstatusMsg with_rce with_rserver with_rstatus with_rnoDefDate] in *.

Lemma RSetContentLength_hinv r n : hinv (rh r) -> hinv (rh (RSetContentLength r n)).
Proof.
  intros (H1 & H2 & H3 & H4). unfold RSetContentLength. destruct (mustSkipContentLength r); [exact (conj H1 (conj H2 (conj H3 H4)))|].
  destruct (Z.leb_spec 0 n).
  - destruct (dec_digits_spec n ltac:(lia)) as (D1 & D2 & D3).
    hi. split; [exact H1|]. split; [now apply delAll_keys_ok|]. split; [exact H3|]. intros _. split; [exact D1|intros _; exact D3].
  - destruct (Z.eqb_spec n (-1)).
    + hi. split; [exact H1|]. split; [apply setArg_keys_ok; [assumption|apply key_ok_te]|]. split; [exact H3|]. intros E. congruence.
    + unfold hSetConnectionClose. hi. split; [exact H1|]. split; [exact H2|]. split; [exact H3|].
      intros E. destruct (H4 E) as [A B]. split; [exact A|]. intros; lia.
Qed.

(* ------------------------------------------------------------------ special headers *)
Lemma ci_length a : forall b, caseInsensitiveCompare a b = true -> length a = length b.
Proof.
  induction a as [|x a IH]; intros [|y b] H; try discriminate; [reflexivity|].
  cbn [caseInsensitiveCompare] in H. apply andb_true_iff in H as [_ H]. cbn [length]. f_equal. now apply IH.
Qed.

Lemma cl_name_special r k v : cl_name k = true -> RsetSpecialHeader r k v <> None.
Proof.
  intros H. pose proof (name_is_ci "content-length" strContentLength k eq_refl H) as Hci.
  destruct k as [|c0 k0]; [discriminate|].
  assert (Hf : N.lor c0 32 = 99).
  { change strContentLength with (67 :: skipn 1 strContentLength) in Hci. cbn [caseInsensitiveCompare] in Hci.
    apply andb_true_iff in Hci as [Hc _]. apply N.eqb_eq in Hc. rewrite <- Hc. reflexivity. }
  unfold RsetSpecialHeader. cbv zeta. rewrite Hf. cbn [N.eqb Pos.eqb]. unfold ci.
  destruct (caseInsensitiveCompare strContentType (c0 :: k0)); [discriminate|]. rewrite Hci.
  destruct (parseContentLength v); discriminate.
Qed.
Lemma te_name_special r k v : te_name k = true -> RsetSpecialHeader r k v = Some r.
Proof.
  intros H. pose proof (name_is_ci "transfer-encoding" strTransferEncoding k eq_refl H) as Hci.
  destruct k as [|c0 k0]; [discriminate|].
  assert (Hf : N.lor c0 32 = 116).
  { change strTransferEncoding with (84 :: skipn 1 strTransferEncoding) in Hci. cbn [caseInsensitiveCompare] in Hci.
    apply andb_true_iff in Hci as [Hc _]. apply N.eqb_eq in Hc. rewrite <- Hc. reflexivity. }
  unfold RsetSpecialHeader. cbv zeta. rewrite Hf. cbn [N.eqb Pos.eqb]. unfold ci. now rewrite Hci.
Qed.

Lemma key_ok_plain r k v : is_token k = true -> RsetSpecialHeader r k v = None -> forall v', key_ok (k, v').
Proof.
  intros Ht Hn v'. split; [exact Ht|]. cbn [fst]. split.
  - destruct (cl_name k) eqn:E; [|reflexivity]. exfalso. now apply (cl_name_special r k v E).
  - intros E. rewrite (te_name_special r k v E) in Hn. discriminate.
Qed.

Lemma wf_init v : wf_bytes v -> wf_bytes (initHeaderValueBytes v).
Proof.
  intros H. unfold initHeaderValueBytes, removeNewLines, wf_bytes in *. apply Forall_forall. intros c Hc.
  apply in_map_iff in Hc as (x & <- & Hx). rewrite Forall_forall in H. specialize (H x Hx). destruct ((x =? 13) || (x =? 10)); lia.
Qed.

Lemma RsetSpecialHeader_hinv r k v r' : hinv (rh r) -> is_token k = true -> name_is "trailer" k = false -> wf_bytes v ->
  RsetSpecialHeader r k v = Some r' -> hinv (rh r').
Proof.
  intros Hi Ht Htr Hwf E. pose proof Hi as (H1 & H2 & H3 & H4).
  unfold RsetSpecialHeader in E. destruct k as [|c0 k0]; [discriminate|]. cbv zeta in E. unfold ci in E.
  set (key := c0 :: k0) in *.
  destruct (N.lor c0 32 =? 99).
  { destruct (caseInsensitiveCompare strContentType key).
    { injection E as <-. unfold RSetContentTypeBytes, hSetContentTypeBytes. hi. exact Hi. }
    destruct (caseInsensitiveCompare strContentLength key) eqn:Ecl.
    { unfold parseContentLength in E. destruct (ParseUint 64 v) as [n|e] eqn:Ep; cbn [pres_opt] in E; injection E as <-; [|exact Hi].
      destruct (parse_ok_is_value 64 v n (or_intror eq_refl) Hwf Ep) as (_ & Hd & Hv & _).
      hi. split; [exact H1|]. split; [now apply delAll_keys_ok|]. split; [exact H3|]. intros _. split; [exact Hd|]. intros _. now rewrite Hv. }
    destruct (caseInsensitiveCompare strContentEncoding key).
    { injection E as <-. unfold RSetContentEncodingBytes. hi. exact Hi. }
    destruct (caseInsensitiveCompare strConnection key) eqn:Eco; [|discriminate].
    (* whatever test decides that the value asks for "close" *)
    match type of E with context [if ?b then _ else _] => destruct b end.
    { injection E as <-. unfold hSetConnectionClose. hi. split; [exact H1|]. split; [now apply delAll_keys_ok|]. split; [exact H3|exact H4]. }
    injection E as <-. unfold hsetNonSpecial, hResetConnectionClose.
    assert (Hk : key_ok (key, v)).
    { split; [exact Ht|]. cbn [fst]. split.
      - destruct (cl_name key) eqn:Ec; [|reflexivity].
        pose proof (name_is_ci "content-length" strContentLength key eq_refl Ec) as Hc. congruence.
      - intros Ete. pose proof (name_is_ci "transfer-encoding" strTransferEncoding key eq_refl Ete) as Hc.
        apply ci_length in Hc. apply ci_length in Eco. rewrite <- Hc in Eco. discriminate Eco. }
    destruct (hclose (rh r)); hi; (split; [exact H1|]); (split; [|split; [exact H3|exact H4]]).
    - apply setArg_keys_ok; [now apply delAll_keys_ok|exact Hk].
    - apply setArg_keys_ok; [exact H2|exact Hk]. }
  destruct (N.lor c0 32 =? 115).
  { destruct (caseInsensitiveCompare strServer key).
    { injection E as <-. unfold RSetServerBytes. hi. exact Hi. }
    destruct (caseInsensitiveCompare strSetCookie key); [|discriminate].
    injection E as <-. hi. exact Hi. }
  destruct (N.lor c0 32 =? 116).
  { destruct (caseInsensitiveCompare strTransferEncoding key); [injection E as <-; exact Hi|].
    destruct (caseInsensitiveCompare strTrailer key) eqn:Et; [|discriminate].
    exfalso. rewrite ci_sym in Et. apply lower_of_ci in Et; [|reflexivity].
    unfold name_is in Htr. rewrite Et in Htr. discriminate Htr. }
  destruct (N.lor c0 32 =? 100); [|discriminate].
  destruct (caseInsensitiveCompare strDate key); [injection E as <-; exact Hi|discriminate].
Qed.

(* ------------------------------------------------------------------ every handler call keeps the invariant *)
Definition rop_wf (o : rop) : Prop :=
  match o with
  | ROSet k v | ROAdd k v | ROSetCanonical k v => is_token k = true /\ name_is "trailer" k = false /\ wf_bytes v
  | ROSetProtocol _ | ROSetTrailer _ | ROAddTrailer _ => False
  | _ => True
  end.

Lemma token_nc k : is_token k = true -> nc k.
Proof. intros H. apply token_valid in H as [_ H]. now apply field_bytes_nc. Qed.

Lemma normalized_token k d : is_token k = true ->
  is_token (normalizeHeaderKey k d) = true /\ map lower (normalizeHeaderKey k d) = map lower k.
Proof.
  intros H. pose proof (token_nc k H) as Hnc.
  assert (Hl : map lower (normalizeHeaderKey k d) = map lower k).
  { pose proof (normalizeHeaderKey_lower k d) as E. rewrite (neutralise_id k Hnc) in E. exact E. }
  split; [|exact Hl]. apply token_valid in H as [Hne Hv]. apply token_valid. split.
  - intros E. rewrite E in Hl. destruct k; [congruence|discriminate].
  - unfold normalizeHeaderKey. rewrite removeNewLines_neutralise, (neutralise_id k Hnc).
    destruct d; [exact Hv|]. rewrite Hv. unfold normalizeHeaderKeyValidated. now destruct (nhk_loop_facts k Hv true) as (_ & _ & ?).
Qed.

Lemma RSetCanonical_hinv r k v : hinv (rh r) -> is_token k = true -> name_is "trailer" k = false -> wf_bytes v ->
  hinv (rh (RSetCanonical r k v)).
Proof.
  intros Hi Ht Htr Hwf. unfold RSetCanonical. destruct (RsetSpecialHeader r k (initHeaderValueBytes v)) as [r'|] eqn:E.
  - eapply RsetSpecialHeader_hinv; [exact Hi|exact Ht|exact Htr|apply wf_init; exact Hwf|exact E].
  - destruct Hi as (H1 & H2 & H3 & H4). unfold hsetNonSpecial. hi. split; [exact H1|]. split; [|split; [exact H3|exact H4]].
    apply setArg_keys_ok; [exact H2|]. eapply key_ok_plain; [exact Ht|exact E].
Qed.

Lemma rop_wf_pre o : rop_wf o -> rop_pre o.
Proof. destruct o; cbn [rop_wf rop_pre]; try exact (fun _ => I). intros (H & _). now apply token_nc. Qed.

Lemma rstep_hinv r o : hinv (rh r) -> rop_wf o -> hinv (rh (rstep r o)).
Proof.
  intros Hi Hw. pose proof Hi as (H1 & H2 & H3 & H4). destruct o; cbn [rstep rop_wf] in *; try contradiction.
  - destruct Hw as (Ht & Htr & Hwf). unfold RSet, getHeaderKeyBytes.
    destruct (normalized_token k (hdisableNorm (rh r)) Ht) as [Ht' Hl].
    apply RSetCanonical_hinv; [exact Hi|exact Ht'| |exact Hwf]. now rewrite (name_is_lower _ _ _ Hl).
  - destruct Hw as (Ht & Htr & Hwf). unfold RAdd, getHeaderKeyBytes.
    destruct (normalized_token k (hdisableNorm (rh r)) Ht) as [Ht' Hl].
    destruct (RsetSpecialHeader r _ _) as [r'|] eqn:E.
    + eapply RsetSpecialHeader_hinv; [exact Hi|exact Ht'| |apply wf_init; exact Hwf|exact E]. now rewrite (name_is_lower _ _ _ Hl).
    + hi. split; [exact H1|]. split; [|split; [exact H3|exact H4]].
      apply appendArg_keys_ok; [exact H2|]. eapply key_ok_plain; [exact Ht'|exact E].
  - destruct Hw as (Ht & Htr & Hwf). now apply RSetCanonical_hinv.
  - unfold RSetStatusCode. hi. exact Hi.
  - unfold RSetStatusMessage. hi. exact Hi.
  - unfold RSetContentTypeBytes, hSetContentTypeBytes. hi. exact Hi.
  - unfold RSetContentEncodingBytes. hi. exact Hi.
  - unfold RSetServerBytes. hi. exact Hi.
  - now apply RSetContentLength_hinv.
  - unfold RSetConnectionClose, hSetConnectionClose. hi. exact Hi.
  - unfold RResetConnectionClose, hResetConnectionClose. destruct (hclose (rh r)); [|exact Hi].
    hi. split; [exact H1|]. split; [now apply delAll_keys_ok|]. split; [exact H3|exact H4].
  - unfold RSetCookie. hi. exact Hi.
  - hi. exact Hi.
  - hi. exact Hi.
  - hi. exact Hi.
  - hi. exact Hi.
Qed.

Lemma rstep_inv r o : inv r -> rop_wf o -> inv (rstep r o).
Proof. intros [Hc Hi] Hw. split; [apply rstep_clean; [exact Hc|now apply rop_wf_pre]|now apply rstep_hinv]. Qed.

Lemma RSetContentLength_inv r n : inv r -> inv (RSetContentLength r n).
Proof. intros [Hc Hi]. split; [now apply RSetContentLength_clean|now apply RSetContentLength_hinv]. Qed.

Lemma RDel_inv r k : inv r -> inv (RDel r k).
Proof.
  intros [Hc Hi]. pose proof Hc as (Hh & Hm & He & Hs). pose proof Hh as (C1 & C2 & C3 & C4 & C5 & C6).
  pose proof Hi as (H1 & H2 & H3 & H4). unfold RDel. cbv zeta.
  set (k' := getHeaderKeyBytes k (hdisableNorm (rh r))).
  repeat match goal with |- context [if ?b then _ else _] => destruct b end;
    (split; [rc; hc; repeat split; try assumption; try constructor; try reflexivity; try (apply delAllArgsStable_clean; assumption)
            | hi; (split; [assumption|]); (split; [apply delAll_keys_ok; assumption|]); (split; [try assumption; reflexivity|]);
              try assumption; try (intros E; congruence)]).
Qed.

(* ------------------------------------------------------------------ the Response object *)
Definition hop_wf (o : hop) : Prop := match o with HHdr o => rop_wf o | _ => True end.
Definition Rinv (R : response) : Prop := inv (r_hd R).

Lemma inv_empty : inv emptyResp.
Proof. split; [apply emptyResp_clean|]. split; [reflexivity|]. split; [constructor|]. split; [reflexivity|]. intros E. now elim E. Qed.

Lemma hstep_inv R o : Rinv R -> hop_wf o -> Rinv (hstep R o).
Proof.
  unfold Rinv. intros Hi Hw. destruct o; cbn [hstep hop_wf r_hd with_hd with_skip SetBody AppendBody SetBodyRaw ResetBody SetBodyStream CtxError] in *;
    try exact Hi.
  - now apply rstep_inv.
  - now apply RDel_inv.
  - now apply RSetContentLength_inv.
  - apply (rstep_inv _ (ROSetContentType defaultContentType)); [|exact I].
    apply (rstep_inv _ (ROSetStatusCode code)); [apply inv_empty|exact I].
  - cbn [emptyResponse r_hd]. apply inv_empty.
Qed.
Lemma hrun_inv prog : forall R, Rinv R -> Forall hop_wf prog -> Rinv (hrun R prog).
Proof.
  induction prog as [|o prog IH]; intros R Hi Hw; [exact Hi|]. inversion Hw; subst. cbn [hrun fold_left].
  apply IH; [now apply hstep_inv|assumption].
Qed.

Lemma srv_init_inv c : Rinv (srv_init c).
Proof.
  unfold Rinv, srv_init. cbv zeta. cbn [r_hd].
  assert (H0 : inv (with_rnoDefDate (with_rh emptyResp (with_hnoDefCT (rh emptyResp) (c_noCT c))) (c_noDate c))).
  { apply (rstep_inv _ (ROSetNoDefaultDate (c_noDate c))); [|exact I].
    apply (rstep_inv _ (ROSetNoDefaultContentType (c_noCT c))); [apply inv_empty|exact I]. }
  set (h0 := with_rnoDefDate _ _) in *.
  assert (H1 : inv (if c_noNorm c then with_rh h0 (with_hdisableNorm (rh h0) true) else h0)).
  { destruct (c_noNorm c); [|exact H0]. apply (rstep_inv _ RODisableNormalizing); [exact H0|exact I]. }
  destruct (c_name c) as [|a n]; [exact H1|]. apply (rstep_inv _ (ROSetServer (a :: n))); [exact H1|exact I].
Qed.

Lemma srv_finish_inv c q R : Rinv R -> Rinv (fst (srv_finish c q R)).
Proof.
  unfold Rinv, srv_finish. cbv zeta. intros Hi. cbn [fst r_hd with_hd].
  set (R1 := if q_head q then with_skip R true else R).
  assert (H1 : inv (r_hd R1)). { subst R1. destruct (q_head q); exact Hi. }
  set (cc := q_close q || c_disableKA c || _ || hclose (rh (r_hd R1))).
  assert (H2 : inv (if cc then RSetConnectionClose (r_hd R1)
                    else if negb (q_http11 q) then with_rh (r_hd R1) (hsetNonSpecial (rh (r_hd R1)) strConnection strKeepAlive)
                    else r_hd R1)).
  { destruct cc; [apply (rstep_inv _ ROSetConnectionClose); [exact H1|exact I]|].
    destruct (negb (q_http11 q)); [|exact H1]. destruct H1 as [Hc (A1 & A2 & A3 & A4)]. split.
    - apply with_rh_clean; [exact Hc|]. apply hsetNonSpecial_clean; [apply Hc|reflexivity|reflexivity].
    - unfold hsetNonSpecial. hi. split; [exact A1|]. split; [apply setArg_keys_ok; [exact A2|apply key_ok_conn]|]. split; [exact A3|exact A4]. }
  set (hd := if cc then _ else _) in *.
  destruct (c_name c) as [|a n]; [exact H2|]. destruct (rserver hd); [|exact H2].
  apply (rstep_inv _ (ROSetServer (a :: n))); [exact H2|exact I].
Qed.

(* ------------------------------------------------------------------ reading the head back *)
Lemma render_lines_length es : (length es <= length (render_lines es))%nat.
Proof. induction es as [|[k v] es IH]; [cbn; lia|]. cbn [render_lines length]. repeat (rewrite app_length; cbn [length]). lia. Qed.

Lemma entries_tok date r : inv r -> nc date -> Forall entry_tok (resp_entries date r).
Proof.
  intros [Hc (H1 & H2 & H3 & H4)] Hd.
  pose proof (resp_entries_clean date r Hc Hd) as Hcl. unfold es_clean in Hcl.
  assert (Ht : Forall (fun e => is_token (fst e) = true) (resp_entries date r)).
  { unfold resp_entries. cbv zeta. rewrite H3. repeat (apply Forall_app; split).
    - unfold opt_line. destruct (rserver r); repeat constructor.
    - unfold if_line. destruct (negb (rnoDefDate r)); repeat constructor.
    - destruct (negb (hcl (rh r) =? 0)%Z || negb (beq (hct (rh r)) [])); [|constructor]. unfold opt_line. destruct (RContentType r); repeat constructor.
    - unfold opt_line. destruct (rce r); repeat constructor.
    - unfold opt_line. destruct (hclb (rh r)); repeat constructor.
    - apply Forall_forall. intros e He. apply filter_In in He as [He _]. rewrite Forall_forall in H2. now destruct (H2 e He).
    - constructor.
    - apply Forall_forall. intros e He. apply in_map_iff in He as (x & <- & _). reflexivity.
    - unfold if_line. destruct (hclose (rh r)); repeat constructor. }
  rewrite Forall_forall in *. intros e He. destruct (Hcl e He) as [A B]. split; [now apply Ht|split; assumption].
Qed.

Definition status_ok (r : resp) : Prop := (100 <= RStatusCode r <= 999)%Z.

Lemma head_read smsg date r tail : inv r -> nc smsg -> nc date -> status_ok r ->
  exists reason,
    take_line (head_of smsg date r ++ tail) = Some (resp_first (fun _ => smsg) r, render_lines (resp_entries date r) ++ [13; 10] ++ tail) /\
    parse_status_line (resp_first (fun _ => smsg) r) = Some (RStatusCode r, reason) /\
    parse_fields (S (length (render_lines (resp_entries date r) ++ [13; 10] ++ tail))) (render_lines (resp_entries date r) ++ [13; 10] ++ tail)
      = Some (trimmed (resp_entries date r), tail).
Proof.
  intros Hi Hs Hd Hst. pose proof Hi as [Hc (H1 & H2 & H3 & H4)].
  exists (match rstatusMsg r with [] => smsg | _ => rstatusMsg r end).
  split; [|split].
  - unfold head_of. rewrite RespAppendBytes_shape. unfold render_head.
    replace ((resp_first (fun _ : Z => smsg) r ++ [13; 10] ++ render_lines (resp_entries date r) ++ [13; 10]) ++ tail)
      with (resp_first (fun _ : Z => smsg) r ++ 13 :: 10 :: (render_lines (resp_entries date r) ++ [13; 10] ++ tail))
      by (repeat (rewrite <- ?app_assoc; cbn [app]); reflexivity).
    apply take_line_render. apply resp_first_clean; [intros _; exact Hs|exact Hc].
  - unfold resp_first. cbv zeta. unfold status_ok in Hst.
    destruct (Z.ltb_spec (RStatusCode r) 0); [lia|]. unfold hProtocol. rewrite H1.
    now apply status_line_parse.
  - apply parse_fields_render; [now apply entries_tok|]. rewrite app_length. pose proof (render_lines_length (resp_entries date r)). lia.
Qed.

(* ------------------------------------------------------------------ which framing the reader decides on *)
Lemma values_trimmed n es :
  values_of n (trimmed es) = map (fun e => trim_ows (snd e)) (filter (fun e => name_is n (fst e)) es).
Proof.
  unfold values_of, trimmed. induction es as [|[k v] es IH]; [reflexivity|]. cbn [map filter fst snd].
  destruct (name_is n k); cbn [map snd]; now rewrite IH.
Qed.

Lemma filter_none {A} (P : A -> bool) l : Forall (fun e => P e = false) l -> filter P l = [].
Proof. induction 1 as [|x l Hx Hl IH]; [reflexivity|]. cbn [filter]. now rewrite Hx. Qed.

Definition te_entries (r : resp) : list (bytes * bytes) := filter (fun e => te_name (fst e)) (hh (rh r)).

Lemma drop_ows_digits s : all_digits s = true -> drop_ows s = s.
Proof. destruct s as [|c r]; [reflexivity|]. cbn [all_digits forallb drop_ows]. unfold is_digit, is_ows. intros H. destruct ((c =? 32) || (c =? 9)) eqn:E; [lia|reflexivity]. Qed.
Lemma trim_ows_digits s : all_digits s = true -> trim_ows s = s.
Proof.
  intros H. unfold trim_ows. rewrite (drop_ows_digits s H).
  assert (Hr : all_digits (rev s) = true). { unfold all_digits in *. now rewrite rev_forallb. }
  rewrite (drop_ows_digits _ Hr). apply rev_involutive.
Qed.

Lemma flt_opt n k s : name_is n k = false -> filter (fun e : bytes * bytes => name_is n (fst e)) (opt_line k s) = [].
Proof. intros H. unfold opt_line. destruct s; [reflexivity|]. cbn [filter fst]. now rewrite H. Qed.
Lemma flt_if n (b : bool) k v : name_is n k = false -> filter (fun e : bytes * bytes => name_is n (fst e)) (if_line b k v) = [].
Proof. intros H. unfold if_line. destruct b; [|reflexivity]. cbn [filter fst]. now rewrite H. Qed.
Lemma flt_cookies n (cs : kvs) : name_is n strSetCookie = false ->
  filter (fun e : bytes * bytes => name_is n (fst e)) (map (fun kv : bytes * bytes => (strSetCookie, snd kv)) cs) = [].
Proof. intros H. induction cs as [|c cs IH]; [reflexivity|]. cbn [map filter fst]. now rewrite H. Qed.
Lemma flt_ct n (c : bool) s : name_is n strContentType = false ->
  filter (fun e : bytes * bytes => name_is n (fst e)) (if c then opt_line strContentType s else []) = [].
Proof. intros H. destruct c; [now apply flt_opt|reflexivity]. Qed.

Lemma cl_values date r : inv r ->
  values_of "content-length" (trimmed (resp_entries date r)) = match hclb (rh r) with [] => [] | b => [b] end.
Proof.
  intros [Hc (H1 & H2 & H3 & H4)]. rewrite values_trimmed. unfold resp_entries. cbv zeta. rewrite H3.
  rewrite !filter_app.
  rewrite (flt_opt "content-length" strServer) by reflexivity.
  rewrite (flt_if "content-length" _ strDate) by reflexivity.
  rewrite (flt_ct "content-length") by reflexivity.
  rewrite (flt_opt "content-length" strContentEncoding) by reflexivity.
  rewrite (flt_cookies "content-length") by reflexivity.
  rewrite (flt_if "content-length" _ strConnection) by reflexivity.
  assert (Eh : filter (fun e : bytes * bytes => name_is "content-length" (fst e)) (filter (resp_h_keep [] (rnoDefDate r)) (hh (rh r))) = []).
  { apply filter_none. apply Forall_forall. intros e He. apply filter_In in He as [He _].
    rewrite Forall_forall in H2. now destruct (H2 e He) as (_ & ? & _). }
  rewrite Eh. cbn [trailer_entry filter app]. rewrite ?app_nil_r.
  unfold opt_line. destruct (hclb (rh r)) as [|b0 b] eqn:E; [reflexivity|].
  cbn [filter fst]. change (name_is "content-length" strContentLength) with true. cbn [map snd].
  unfold clb_ok in H4. rewrite E in H4. destruct (H4 ltac:(discriminate)) as [Hd _]. now rewrite (trim_ows_digits _ Hd).
Qed.

Lemma te_keep nd k v : te_name k = true -> key_ok (k, v) -> resp_h_keep [] nd (k, v) = true.
Proof. intros Ht (_ & _ & H). specialize (H Ht). injection H as -> ->. unfold resp_h_keep. cbn [fst in_trailer existsb negb andb]. destruct nd; reflexivity. Qed.

Lemma te_values date r : inv r ->
  values_of "transfer-encoding" (trimmed (resp_entries date r)) = map (fun _ => strChunked) (te_entries r).
Proof.
  intros [Hc (H1 & H2 & H3 & H4)]. rewrite values_trimmed. unfold resp_entries. cbv zeta. rewrite H3.
  rewrite !filter_app.
  rewrite (flt_opt "transfer-encoding" strServer) by reflexivity.
  rewrite (flt_if "transfer-encoding" _ strDate) by reflexivity.
  rewrite (flt_ct "transfer-encoding") by reflexivity.
  rewrite (flt_opt "transfer-encoding" strContentEncoding) by reflexivity.
  rewrite (flt_opt "transfer-encoding" strContentLength) by reflexivity.
  rewrite (flt_cookies "transfer-encoding") by reflexivity.
  rewrite (flt_if "transfer-encoding" _ strConnection) by reflexivity.
  cbn [trailer_entry filter app]. rewrite ?app_nil_r. unfold te_entries.
  clear H4 Hc H1 H3. induction H2 as [|[k v] h Hk Hh IH]; [reflexivity|].
  cbn [filter fst]. destruct (te_name k) eqn:Et.
  - rewrite (te_keep _ k v Et Hk). cbn [filter fst]. unfold te_name in Et. rewrite Et. cbn [map snd]. fold (te_name k) in Et.
    destruct Hk as (_ & _ & Hkv). specialize (Hkv Et). injection Hkv as -> ->. f_equal. exact IH.
  - destruct (resp_h_keep [] (rnoDefDate r) (k, v)); [|exact IH]. cbn [filter fst]. unfold te_name in Et. rewrite Et. exact IH.
Qed.

Lemma chunked_final l : l <> [] -> final_coding_is_chunked (map (fun _ : bytes * bytes => strChunked) l) = true.
Proof.
  intros Hl. unfold final_coding_is_chunked.
  assert (E : flat_map (split_commas []) (map (fun _ : bytes * bytes => strChunked) l) = map (fun _ => strChunked) l).
  { clear Hl. induction l as [|x l IH]; [reflexivity|]. cbn [map flat_map]. rewrite IH. reflexivity. }
  rewrite E. rewrite <- map_rev. destruct (rev l) as [|x t] eqn:Er.
  - apply (f_equal (@length _)) in Er. rewrite rev_length in Er. destruct l; [congruence|discriminate].
  - reflexivity.
Qed.

Definition framing_expected (m : meth) (r : resp) : framing :=
  if is_head m || no_body_status (RStatusCode r) then FNone
  else match te_entries r, hclb (rh r) with
       | _ :: _, _ :: _ => FBad
       | _ :: _, [] => FChunked
       | [], [] => FClose
       | [], b => FLength (dec_value b)
       end.

Lemma framing_of m date r : inv r -> decide_framing m (RStatusCode r) (trimmed (resp_entries date r)) = framing_expected m r.
Proof.
  intros Hi. unfold decide_framing, framing_expected. destruct (is_head m || no_body_status (RStatusCode r)); [reflexivity|].
  rewrite (cl_values date r Hi), (te_values date r Hi).
  destruct Hi as [_ (_ & _ & _ & H4)]. unfold clb_ok in H4.
  destruct (te_entries r) as [|e es] eqn:Ee; destruct (hclb (rh r)) as [|b0 b] eqn:Eb; cbn [map]; try reflexivity.
  - destruct (H4 ltac:(discriminate)) as [Hd _]. rewrite Hd. reflexivity.
  - change (strChunked :: map (fun _ => strChunked) es) with (map (fun _ : bytes * bytes => strChunked) (e :: es)).
    now rewrite chunked_final.
Qed.

(* ------------------------------------------------------------------ the body-less statuses come from the source *)
(* mscl_ints (Gen/GenC03.v) are the integer constants of ResponseHeader.mustSkipContentLength in source order:
     if statusCode < 100 || statusCode == StatusOK { return false }
     return statusCode == StatusNotModified || statusCode == StatusNoContent || statusCode < 200
   Any status added to or removed from that function changes the list and breaks this lemma (and with it every theorem). *)
Definition mscl_of (l : list Z) (sc : Z) : option bool :=
  match l with
  | [a; b; c; d; e] => Some (if (sc <? a) || (sc =? b) then false else (sc =? c) || (sc =? d) || (sc <? e))%Z
  | _ => None
  end.
Lemma mustSkip_from_source r : mscl_of mscl_ints (RStatusCode r) = Some (mustSkipContentLength r).
Proof. reflexivity. Qed.

(* for every status an HTTP/1.1 message can carry (>= 100) fasthttp's body-less set is the RFC's (1xx, 204, 304) *)
Lemma some_inj {A} (a b : A) : Some a = Some b -> a = b. Proof. congruence. Qed.
Lemma mustSkip_rfc r : (100 <= RStatusCode r)%Z -> mustSkipContentLength r = no_body_status (RStatusCode r).
Proof.
  intros H. rewrite <- (some_inj _ _ (mustSkip_from_source r)). unfold mscl_ints. unfold no_body_status.
  destruct (Z.ltb_spec (RStatusCode r) 100); [lia|]. cbn [orb].
  destruct (Z.eqb_spec (RStatusCode r) 200) as [E|Hn]; [rewrite E; reflexivity|].
  destruct (RStatusCode r <? 200)%Z, (RStatusCode r =? 204)%Z, (RStatusCode r =? 304)%Z; reflexivity.
Qed.

(* ------------------------------------------------------------------ facts about SetContentLength as Write uses it *)
Lemma RStatusCode_SCL r n : RStatusCode (RSetContentLength r n) = RStatusCode r.
Proof.
  unfold RSetContentLength. destruct (mustSkipContentLength r); [reflexivity|].
  destruct (0 <=? n)%Z; [reflexivity|]. destruct (n =? -1)%Z; reflexivity.
Qed.
Lemma mustSkip_SCL r n : mustSkipContentLength (RSetContentLength r n) = mustSkipContentLength r.
Proof. unfold mustSkipContentLength. now rewrite RStatusCode_SCL. Qed.

Definition in_scope (r : resp) : Prop := (200 <= RStatusCode r <= 999)%Z.

Lemma mustSkip_scope r : in_scope r -> mustSkipContentLength r = no_body_status (RStatusCode r).
Proof. intros H. apply mustSkip_rfc. unfold in_scope in H. lia. Qed.

Lemma te_entries_del r : Forall key_ok (hh (rh r)) ->
  filter (fun e : bytes * bytes => te_name (fst e)) (delAllArgsStable (hh (rh r)) strTransferEncoding) = [].
Proof.
  induction 1 as [|[k v] h Hk Hh IH]; [reflexivity|]. cbn [delAllArgsStable].
  destruct (beq strTransferEncoding k) eqn:E; [exact IH|]. cbn [filter fst].
  destruct (te_name k) eqn:Et; [|exact IH]. destruct Hk as (_ & _ & Hkv). specialize (Hkv Et). injection Hkv as -> _.
  now rewrite beq_refl in E.
Qed.
Lemma setArg_in h k v : In (k, v) (setArg h k v).
Proof.
  induction h as [|[k' v'] h IH]; cbn [setArg]; [now left|]. destruct (beq k k') eqn:E; [|right; exact IH].
  apply beq_eq in E. subst. now left.
Qed.

Lemma SCL_fixed r n : mustSkipContentLength r = false -> (0 <= n)%Z ->
  hclb (rh (RSetContentLength r n)) = dec_digits n /\ hcl (rh (RSetContentLength r n)) = n /\
  (Forall key_ok (hh (rh r)) -> te_entries (RSetContentLength r n) = []).
Proof.
  intros Hm Hn. unfold RSetContentLength. rewrite Hm. destruct (Z.leb_spec 0 n); [|lia]. hi.
  split; [reflexivity|]. split; [reflexivity|]. intros Hk. unfold te_entries. hi. now apply te_entries_del.
Qed.
Lemma SCL_chunked r : mustSkipContentLength r = false ->
  hclb (rh (RSetContentLength r (-1))) = [] /\ te_entries (RSetContentLength r (-1)) <> [].
Proof.
  intros Hm. unfold RSetContentLength. rewrite Hm. change (0 <=? -1)%Z with false. change (-1 =? -1)%Z with true. cbv iota. hi. split; [reflexivity|].
  unfold te_entries. hi. intros E.
  pose proof (setArg_in (hh (rh r)) strTransferEncoding strChunked) as Hin.
  assert (Hf : In (strTransferEncoding, strChunked) (filter (fun e : bytes * bytes => te_name (fst e)) (setArg (hh (rh r)) strTransferEncoding strChunked))).
  { apply filter_In. split; [exact Hin|reflexivity]. }
  rewrite E in Hf. exact Hf.
Qed.

(* ------------------------------------------------------------------ the pieces of a stream *)
Lemma split_buf_concat fuel : forall p, concat (split_buf fuel p) = p.
Proof.
  induction fuel as [|f IH]; intros p; cbn [split_buf]; [cbn; now rewrite app_nil_r|].
  destruct (length p <=? copyBufSize)%nat; [cbn; now rewrite app_nil_r|].
  cbn [concat]. rewrite IH. apply firstn_skipn.
Qed.
Lemma split_buf_small fuel : forall p, (length p <= fuel * copyBufSize + copyBufSize)%nat ->
  Forall (fun c => (length c <= copyBufSize)%nat) (split_buf fuel p).
Proof.
  induction fuel as [|f IH]; intros p Hp; cbn [split_buf].
  - constructor; [cbn in Hp; lia|constructor].
  - destruct (Nat.leb_spec (length p) copyBufSize); [constructor; [lia|constructor]|].
    constructor; [rewrite firstn_length; lia|]. apply IH. rewrite skipn_length. cbn [Nat.mul] in Hp. lia.
Qed.
Lemma concat_filter_nonempty l : concat (filter nonempty l) = concat l.
Proof. induction l as [|c l IH]; [reflexivity|]. cbn [filter]. destruct c; cbn [nonempty concat app]; [exact IH|]. now rewrite IH. Qed.
Lemma concat_flat_map_split ps : concat (flat_map (fun p => split_buf (length p) p) ps) = concat ps.
Proof. induction ps as [|p ps IH]; [reflexivity|]. cbn [flat_map concat]. now rewrite concat_app, split_buf_concat, IH. Qed.

Lemma reads_concat s : concat (reads_of s) = st_data s.
Proof.
  unfold reads_of. rewrite concat_filter_nonempty. destruct (st_kind s); try apply concat_flat_map_split. apply split_buf_concat.
Qed.

Lemma pow_hex_big : (Z.of_nat copyBufSize < 16 ^ maxHexIntChars64)%Z.
Proof. unfold copyBufSize, maxHexIntChars64. cbn. lia. Qed.

Lemma reads_chunk_ok s : Forall chunk_ok (reads_of s).
Proof.
  unfold reads_of. apply Forall_forall. intros c Hc. apply filter_In in Hc as [Hin Hne].
  assert (Hs : (length c <= copyBufSize)%nat).
  { destruct (st_kind s).
    - apply in_flat_map in Hin as (p & _ & Hp). pose proof (split_buf_small (length p) p ltac:(unfold copyBufSize; lia)) as F. rewrite Forall_forall in F. now apply F.
    - apply in_flat_map in Hin as (p & _ & Hp). pose proof (split_buf_small (length p) p ltac:(unfold copyBufSize; lia)) as F. rewrite Forall_forall in F. now apply F.
    - pose proof (split_buf_small (length (st_data s)) (st_data s) ltac:(unfold copyBufSize; lia)) as F. rewrite Forall_forall in F. now apply F. }
  split; [destruct c; [discriminate|discriminate]|]. unfold blen. pose proof pow_hex_big. lia.
Qed.
