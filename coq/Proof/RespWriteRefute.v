(* RespWriteRefute.v — C03: handler programs on which the faithful model (and, in the harness, the real server)
   breaks the property.  Each is the witness of a finding in findings/C03.txt; every witness satisfies all the
   hypotheses of the theorems except the consistency guard (or raw_free), which is therefore necessary. *)
From Coq Require Import Lia ZifyBool ZifyN ZifyNat.
From FH Require Import Model.Base Model.HeaderWrite Proof.HeaderWriteProof Model.RespWrite Spec.RespParse Spec.RespSpec
  Proof.RespParseProof Proof.RespWriteProof Proof.RespWriteMain.
Open Scope N_scope.
Open Scope string_scope. Open Scope list_scope.

Definition d0 : bytes := s2b "Thu, 01 Jan 1970 00:00:00 GMT".
Definition ok : bytes := s2b "OK".
Definition cfg0 : srvcfg := mkCfg (s2b "fasthttp") false false false false.
Definition q_get : reqinfo := mkRq false true false.
Definition second : list hop := [HSetBody (s2b "second")].
Definition second_wire : bytes := fst (fst (serve_one ok d0 cfg0 q_get second)).

Ltac wf_prog := repeat constructor; cbn [hop_wf rop_wf]; repeat split; try reflexivity; repeat constructor.

(* fixed in /repo 6f630cd: SetBodyStream(r, -1) then Header.Set("Content-Length", "5") now drops the chunked marker *)
Definition prog_manual_cl : list hop :=
  [HSetBodyStream (-1) (mkStream SKReader [s2b "hello"] false false); HHdr (ROSet (s2b "Content-Length") (s2b "5"))].
Lemma fixed_manual_cl :
  Forall hop_wf prog_manual_cl /\ guard MGet (finished cfg0 q_get prog_manual_cl) /\
  exists wire, serve_one ok d0 cfg0 q_get prog_manual_cl = (wire, WrOk, false) /\
    values_of "transfer-encoding" (match head_parse wire with Some (_, fs, _) => fs | None => [] end) = [] /\
    option_map (fun p => (p_body p, p_rest p)) (resp_parse MGet wire) = Some (s2b "hello", []).
Proof.
  split; [wf_prog|]. split.
  - split; [reflexivity|]. intros s E _ _. vm_compute in E. injection E as <-. vm_compute. split; [discriminate|reflexivity].
  - eexists. split; [vm_compute; reflexivity|]. vm_compute. split; reflexivity.
Qed.

(* Response.SkipBody = true on the answer to a GET: the head announces 5 body bytes, none is sent; since /repo a4aa200
   the connection is closed after it (before, the next response was read as this body) *)
Definition prog_skipbody : list hop := [HSetBody (s2b "hello"); HSkipBody true].
Lemma refuted_skipbody :
  Forall hop_wf prog_skipbody /\ w_status (want_of prog_skipbody) = 200%Z /\
  exists wire, serve_one ok d0 cfg0 q_get prog_skipbody = (wire, WrOk, true) /\
    values_of "content-length" (match head_parse wire with Some (_, fs, _) => fs | None => [] end) = [s2b "5"] /\
    match head_parse wire with Some (_, _, after) => after | None => [1] end = [] /\
    resp_parse MGet wire = None.
Proof.
  split; [wf_prog|]. split; [reflexivity|].
  eexists. split; [vm_compute; reflexivity|]. vm_compute. repeat split; reflexivity.
Qed.

(* SetStatusCode(304); SetBodyStream(r, 0); SetStatusCode(200): no Content-Length, no Transfer-Encoding, kept alive *)
Definition prog_length_lost : list hop :=
  [HHdr (ROSetStatusCode 304); HSetBodyStream 0 (mkStream SKReader [] false false); HHdr (ROSetStatusCode 200)].
Lemma refuted_length_lost :
  Forall hop_wf prog_length_lost /\ w_status (want_of prog_length_lost) = 200%Z /\
  exists wire, serve_one ok d0 cfg0 q_get prog_length_lost = (wire, WrOk, false) /\
    option_map (fun p => (p_until_close p, beq (p_body p) second_wire)) (resp_parse MGet (wire ++ second_wire)) = Some (true, true).
Proof.
  split; [wf_prog|]. split; [reflexivity|].
  eexists. split; [vm_compute; reflexivity|]. vm_compute. reflexivity.
Qed.

(* fixed in /repo 8762a11: SetBodyRaw("XYZ"); AppendBody("d") now sends "XYZd" *)
Definition prog_raw_append : list hop := [HSetBodyRaw (s2b "XYZ"); HAppendBody (s2b "d")].
Lemma fixed_raw_append :
  want_data (want_of prog_raw_append) = s2b "XYZd" /\
  exists wire, serve_one ok d0 cfg0 q_get prog_raw_append = (wire, WrOk, false) /\
    option_map p_body (resp_parse MGet wire) = Some (s2b "XYZd").
Proof. split; [reflexivity|]. eexists. split; [vm_compute; reflexivity|]. vm_compute. reflexivity. Qed.

(* SetBodyStream(bytes.NewReader(20 bytes), 5): the WriteTo copy is not limited *)
Definition twenty : bytes := s2b "01234567890123456789".
Definition prog_writerto_oversize : list hop := [HSetBodyStream 5 (mkStream SKWriterTo [twenty] false false)].
Lemma refuted_writerto_oversize :
  exists wire, serve_one ok d0 cfg0 q_get prog_writerto_oversize = (wire, WrErr, true) /\
    option_map (fun x => match x with (st, fs, after) => (st, values_of "content-length" fs, length after) end) (head_parse wire)
      = Some (200%Z, [s2b "5"], 20%nat).
Proof. eexists. split; [vm_compute; reflexivity|]. vm_compute. reflexivity. Qed.
