(* Proofs for C19 over all fault sequences and configurations. *)
From Coq Require Import Lia ZifyBool.
From FH Require Import Model.Base Gen.GenC19 Model.Retry Spec.RetrySpec.
Open Scope Z_scope.

Lemma eff_attempts_pos c : 1 <= eff_attempts c.
Proof. unfold eff_attempts. destruct (max_attempts c <=? 0) eqn:E; [unfold DefaultMaxIdemponentCallAttempts|]; lia. Qed.

Lemma guard_false t d n : (t >? 0) && (d - n <=? 0) = false -> (t >? 0) = true -> n < d.
Proof. intros H T. rewrite T in H. cbn in H. apply Z.leb_gt in H. lia. Qed.

(* shape of one iteration *)
Lemma iteration_inl c f s x : iteration c f s = inl x ->
  (calls x = calls (r s) /\ sent x = sent (r s) /\ starts x = starts (r s)) \/
  (calls x = calls (r s) + 1 /\ sent (r s) <= sent x <= sent (r s) + 1 /\
   starts x = starts (r s) ++ [(now s, deadline s)] /\ ((timeout c >? 0) = true -> now s < deadline s)).
Proof.
  unfold iteration. destruct ((timeout c >? 0) && (deadline s - now s <=? 0)) eqn:ED.
  - intros [= <-]. left. cbn. auto.
  - pose proof (guard_false _ _ _ ED) as DL.
    destruct (roundtrip (is_head (meth c)) f) as [[retry e] snt]. destruct snt.
    all: repeat match goal with |- context [if ?b then _ else _] => destruct b end;
      try destruct (ask_callback c (attempts s + 1)) as [[reset retry2] called];
      repeat match goal with |- context [if ?b then _ else _] => destruct b end;
      intros [= <-]; right; cbn; repeat split; auto; lia.
Qed.

Lemma iteration_inr c f s s' : iteration c f s = inr s' ->
  attempts s' = attempts s + 1 /\ attempts s' < eff_attempts c /\
  calls (r s') = calls (r s) + 1 /\ sent (r s) <= sent (r s') <= sent (r s) + 1 /\
  starts (r s') = starts (r s) ++ [(now s, deadline s)] /\ ((timeout c >? 0) = true -> now s < deadline s) /\
  body_stream c = false /\
  (exists reset retry2 called, ask_callback c (attempts s + 1) = ((reset, retry2), called) /\ retry2 = true /\
     deadline s' = (if (timeout c >? 0) && reset then now s' + timeout c else deadline s)) /\
  (exists e snt, roundtrip (is_head (meth c)) f = (true, e, snt) /\ e <> ENone).
Proof.
  unfold iteration. destruct ((timeout c >? 0) && (deadline s - now s <=? 0)) eqn:ED; [discriminate|].
  pose proof (guard_false _ _ _ ED) as DL.
  destruct (roundtrip (is_head (meth c)) f) as [[retry e] snt] eqn:RT.
  destruct (errc_eqb e ENone || negb retry) eqn:E1; [discriminate|].
  destruct (body_stream c) eqn:BS; [discriminate|].
  destruct (attempts s + 1 >=? eff_attempts c) eqn:EA; [discriminate|].
  destruct (ask_callback c (attempts s + 1)) as [[reset retry2] called] eqn:CB.
  destruct (negb retry2) eqn:ER; [discriminate|]. intros [= <-]. cbn.
  repeat split; auto; try lia.
  - destruct snt; lia.
  - destruct snt; lia.
  - exists reset, retry2, called. repeat split; auto. destruct retry2; [reflexivity|discriminate].
  - exists e, snt. destruct retry; [|cbn in E1; rewrite orb_true_r in E1; discriminate].
    split; [reflexivity|]. intros ->. cbn in E1. discriminate.
Qed.
