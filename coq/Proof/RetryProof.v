(* Proofs for C19 over all fault sequences and configurations. *)
From Coq Require Import Lia ZifyBool.
From FH Require Import Model.Base Gen.GenC19 Model.Retry Spec.RetrySpec.
Open Scope Z_scope.

Lemma eff_attempts_pos c : 1 <= eff_attempts c.
Proof. unfold eff_attempts. destruct (max_attempts c <=? 0) eqn:E; [unfold DefaultMaxIdemponentCallAttempts|]; lia. Qed.

Lemma guard_false t d n : (t >? 0) && (d - n <=? 0) = false -> (t >? 0) = true -> n < d.
Proof. intros H T. rewrite T in H. cbn in H. apply Z.leb_gt in H. lia. Qed.

(* shape of one iteration *)
Lemma iteration_inl c f s x : iteration c f s = inl x ->
  (calls x = calls (r s) /\ sent x = sent (r s) /\ starts x = starts (r s)) \/
  (calls x = calls (r s) + 1 /\ sent (r s) <= sent x <= sent (r s) + 1 /\
   starts x = starts (r s) ++ [(now s, deadline s)] /\ ((timeout c >? 0) = true -> now s < deadline s)).
Proof.
  unfold iteration. destruct ((timeout c >? 0) && (deadline s - now s <=? 0)) eqn:ED.
  - intros [= <-]. left. cbn. auto.
  - pose proof (guard_false _ _ _ ED) as DL.
    destruct (roundtrip (is_head (meth c)) f) as [[retry e] snt]. destruct snt.
    all: repeat match goal with |- context [if ?b then _ else _] => destruct b end;
      try destruct (ask_callback c (attempts s + 1)) as [[reset retry2] called];
      repeat match goal with |- context [if ?b then _ else _] => destruct b end;
      intros [= <-]; right; cbn; repeat split; auto; lia.
Qed.

Lemma iteration_inr c f s s' : iteration c f s = inr s' ->
  attempts s' = attempts s + 1 /\ attempts s' < eff_attempts c /\
  calls (r s') = calls (r s) + 1 /\ sent (r s) <= sent (r s') <= sent (r s) + 1 /\
  starts (r s') = starts (r s) ++ [(now s, deadline s)] /\ ((timeout c >? 0) = true -> now s < deadline s) /\
  body_stream c = false /\
  (exists reset retry2 called, ask_callback c (attempts s + 1) = ((reset, retry2), called) /\ retry2 = true /\
     deadline s' = (if (timeout c >? 0) && reset then now s' + timeout c else deadline s)) /\
  (exists e snt, roundtrip (is_head (meth c)) f = (true, e, snt) /\ e <> ENone).
Proof.
  unfold iteration. destruct ((timeout c >? 0) && (deadline s - now s <=? 0)) eqn:ED; [discriminate|].
  pose proof (guard_false _ _ _ ED) as DL.
  destruct (roundtrip (is_head (meth c)) f) as [[retry e] snt] eqn:RT.
  destruct (errc_eqb e ENone || negb retry) eqn:E1; [discriminate|].
  destruct (body_stream c) eqn:BS; [discriminate|].
  destruct (attempts s + 1 >=? eff_attempts c) eqn:EA; [discriminate|].
  destruct (ask_callback c (attempts s + 1)) as [[reset retry2] called] eqn:CB.
  destruct (negb retry2) eqn:ER; [discriminate|]. intros [= <-]. cbn.
  repeat split; auto; try lia.
  - destruct snt; lia.
  - destruct snt; lia.
  - exists reset, retry2, called. repeat split; auto. destruct retry2; [reflexivity|discriminate].
  - exists e, snt. destruct retry; [|cbn in E1; rewrite orb_true_r in E1; discriminate].
    split; [reflexivity|]. intros ->. cbn in E1. discriminate.
Qed.

(* ---------- C19_attempts_bounded ---------- *)
Lemma loop_calls c fs : forall s,
  calls (r s) <= calls (loop c fs s) <= calls (r s) + Z.max 1 (eff_attempts c - attempts s) /\
  0 <= sent (loop c fs s) - sent (r s) <= calls (loop c fs s) - calls (r s).
Proof.
  induction fs as [|f rest IH]; intros s; cbn.
  - destruct (iteration c FNone s) as [x|s'] eqn:E.
    + destruct (iteration_inl _ _ _ _ E) as [(A & B & _)|(A & B & _)]; lia.
    + destruct (iteration_inr _ _ _ _ E) as (A & B & C & D & _); lia.
  - destruct (iteration c f s) as [x|s'] eqn:E.
    + destruct (iteration_inl _ _ _ _ E) as [(A & B & _)|(A & B & _)]; lia.
    + destruct (iteration_inr _ _ _ _ E) as (A & B & C & D & _). specialize (IH s'). lia.
Qed.

Lemma Do_calls c fs : calls (Do c fs) = calls (loop c fs (start c)) /\ sent (Do c fs) = sent (loop c fs (start c)) /\
  starts (Do c fs) = starts (loop c fs (start c)).
Proof. unfold Do. destruct (err (loop c fs (start c))); cbn; auto. Qed.

Theorem attempts_bounded c fs :
  0 <= sent (Do c fs) <= calls (Do c fs) /\ calls (Do c fs) <= Z.max 1 (eff_attempts c).
Proof.
  destruct (Do_calls c fs) as (-> & -> & _). pose proof (loop_calls c fs (start c)) as H. cbn in H. lia.
Qed.

Theorem default_attempts c fs : max_attempts c <= 0 -> sent (Do c fs) <= 5.
Proof.
  intros H. pose proof (attempts_bounded c fs) as B. unfold eff_attempts in B.
  destruct (max_attempts c <=? 0) eqn:E; [|lia]. unfold DefaultMaxIdemponentCallAttempts in B. lia.
Qed.

(* ---------- at most one call when nothing asks for a retry ---------- *)
Lemma loop_once c fs s : (forall f s', iteration c f s <> inr s') -> calls (loop c fs s) <= calls (r s) + 1.
Proof.
  intros H. destruct fs as [|f rest]; cbn.
  - destruct (iteration c FNone s) as [x|s'] eqn:E; [|exfalso; eapply H; eauto].
    destruct (iteration_inl _ _ _ _ E) as [(A & _)|(A & _)]; lia.
  - destruct (iteration c f s) as [x|s'] eqn:E; [|exfalso; eapply H; eauto].
    destruct (iteration_inl _ _ _ _ E) as [(A & _)|(A & _)]; lia.
Qed.

Lemma tbl_at_allows t n : tbl_allows t = false -> snd (tbl_at t n) = false.
Proof.
  unfold tbl_allows, tbl_at. intros H. destruct (nth_in_or_default (Z.to_nat (n - 1)) t (false, false)) as [I| ->]; [|reflexivity].
  destruct (snd (nth (Z.to_nat (n - 1)) t (false, false))) eqn:E; [|reflexivity].
  assert (X : existsb (fun p => snd p) t = true) by (apply existsb_exists; eauto). congruence.
Qed.

Lemma tbl_at_resets t n : tbl_resets t = false -> fst (tbl_at t n) = false.
Proof.
  unfold tbl_resets, tbl_at. intros H. destruct (nth_in_or_default (Z.to_nat (n - 1)) t (false, false)) as [I| ->]; [|reflexivity].
  destruct (fst (nth (Z.to_nat (n - 1)) t (false, false))) eqn:E; [|reflexivity].
  assert (X : existsb (fun p => fst p) t = true) by (apply existsb_exists; eauto). congruence.
Qed.

Lemma ask_not_allowed c n : callbacks_allow c = false -> (has_callback c = true \/ is_idempotent (meth c) = false) ->
  snd (fst (ask_callback c n)) = false.
Proof.
  unfold callbacks_allow, has_callback, ask_callback.
  destruct (retry_if_err_up c) as [t|]; [intros H _; cbn; now apply tbl_at_allows|].
  destruct (retry_if_err c) as [t|]; [intros H _; cbn; now apply tbl_at_allows|].
  destruct (retry_if c) as [b|]; cbn; [intros -> _; reflexivity|]. intros _ [H|H]; [discriminate|exact H].
Qed.

Lemma ask_no_reset c n : callbacks_reset c = false -> fst (fst (ask_callback c n)) = false.
Proof.
  unfold callbacks_reset, ask_callback.
  destruct (retry_if_err_up c) as [t|]; [intros H; cbn; now apply tbl_at_resets|].
  destruct (retry_if_err c) as [t|]; [intros H; cbn; now apply tbl_at_resets|].
  destruct (retry_if c); reflexivity.
Qed.

Theorem not_allowed_once c fs : callbacks_allow c = false -> (has_callback c = true \/ is_idempotent (meth c) = false) ->
  calls (Do c fs) <= 1 /\ sent (Do c fs) <= 1.
Proof.
  intros A B. pose proof (attempts_bounded c fs) as [S _].
  assert (calls (Do c fs) <= 1); [|lia].
  destruct (Do_calls c fs) as (-> & _). pose proof (loop_once c fs (start c)) as H. cbn in H. apply H.
  intros f s' E. destruct (iteration_inr _ _ _ _ E) as (_ & _ & _ & _ & _ & _ & _ & (reset & retry2 & called & CB & R2 & _) & _).
  pose proof (ask_not_allowed c (attempts (start c) + 1) A B) as X. rewrite CB in X. cbn in X. congruence.
Qed.

Lemma is_idempotent_names m : is_idempotent m = named_idempotent (method_of m).
Proof. reflexivity. Qed.

Theorem stream_once c fs : body_stream c = true -> calls (Do c fs) <= 1 /\ sent (Do c fs) <= 1.
Proof.
  intros A. pose proof (attempts_bounded c fs) as [S _].
  assert (calls (Do c fs) <= 1); [|lia].
  destruct (Do_calls c fs) as (-> & _). pose proof (loop_once c fs (start c)) as H. cbn in H. apply H.
  intros f s' E. destruct (iteration_inr _ _ _ _ E) as (_ & _ & _ & _ & _ & _ & BS & _). congruence.
Qed.

(* ---------- ErrBodyTooLarge ends the loop ---------- *)
Lemma loop_too_large c : is_head (meth c) = false -> forall fs i s, nth_error fs i = Some FTooLarge ->
  calls (loop c fs s) <= calls (r s) + Z.of_nat i + 1.
Proof.
  intros NH. induction fs as [|f rest IH]; intros i s H; [destruct i; discriminate|].
  cbn. destruct (iteration c f s) as [x|s'] eqn:E.
  - destruct (iteration_inl _ _ _ _ E) as [(A & _)|(A & _)]; lia.
  - destruct (iteration_inr _ _ _ _ E) as (_ & _ & C & _ & _ & _ & _ & _ & (e & snt & RT & _)).
    destruct i as [|j]; cbn in H.
    + injection H as ->. rewrite NH in RT. cbn in RT. discriminate.
    + specialize (IH j s' H). lia.
Qed.

Theorem too_large_last c fs i : is_head (meth c) = false -> nth_error fs i = Some FTooLarge ->
  calls (Do c fs) <= Z.of_nat i + 1.
Proof.
  intros NH H. destruct (Do_calls c fs) as (-> & _). pose proof (loop_too_large c NH fs i (start c) H) as X. cbn in X. lia.
Qed.

(* ---------- deadline ---------- *)
Lemma loop_starts c : (timeout c >? 0) = true -> forall fs s,
  exists l, starts (loop c fs s) = starts (r s) ++ l /\ Forall (fun p => fst p < snd p) l /\
            (callbacks_reset c = false -> Forall (fun p => snd p = deadline s) l).
Proof.
  intros T. induction fs as [|f rest IH]; intros s; cbn.
  - destruct (iteration c FNone s) as [x|s'] eqn:E.
    + destruct (iteration_inl _ _ _ _ E) as [(_ & _ & A)|(_ & _ & A & DL)].
      * exists []. rewrite A, app_nil_r. auto.
      * exists [(now s, deadline s)]. rewrite A. repeat split; auto.
    + destruct (iteration_inr _ _ _ _ E) as (_ & _ & _ & _ & A & DL & _).
      exists [(now s, deadline s)]. rewrite A. repeat split; auto.
  - destruct (iteration c f s) as [x|s'] eqn:E.
    + destruct (iteration_inl _ _ _ _ E) as [(_ & _ & A)|(_ & _ & A & DL)].
      * exists []. rewrite A, app_nil_r. auto.
      * exists [(now s, deadline s)]. rewrite A. repeat split; auto.
    + destruct (iteration_inr _ _ _ _ E) as (_ & _ & _ & _ & A & DL & _ & (reset & retry2 & called & CB & _ & DS) & _).
      destruct (IH s') as (l & L1 & L2 & L3). exists ((now s, deadline s) :: l).
      rewrite L1, A, <- app_assoc. cbn. repeat split; auto.
      intros NR. constructor; [reflexivity|].
      pose proof (ask_no_reset c (attempts s + 1) NR) as X. rewrite CB in X. cbn in X. subst reset.
      rewrite andb_false_r in DS. rewrite <- DS. auto.
Qed.

(* every attempt starts before the deadline in force ... *)
Theorem deadline_respected c fs : timeout c > 0 -> Forall (fun p => fst p < snd p) (starts (Do c fs)).
Proof.
  intros T. destruct (Do_calls c fs) as (_ & _ & ->).
  assert (T' : (timeout c >? 0) = true) by lia.
  destruct (loop_starts c T' fs (start c)) as (l & L1 & L2 & _). rewrite L1. cbn. exact L2.
Qed.

(* ... and that deadline is the original one unless a callback can ask for a reset *)
Theorem deadline_not_extended c fs : timeout c > 0 -> callbacks_reset c = false ->
  Forall (fun p => fst p < timeout c) (starts (Do c fs)).
Proof.
  intros T NR. destruct (Do_calls c fs) as (_ & _ & ->).
  assert (T' : (timeout c >? 0) = true) by lia.
  destruct (loop_starts c T' fs (start c)) as (l & L1 & L2 & L3). rewrite L1. cbn.
  specialize (L3 NR). cbn in L3. rewrite Forall_forall in *. intros p I. rewrite <- (L3 p I). apply L2, I.
Qed.
