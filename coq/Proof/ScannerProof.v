(* ScannerProof.v — the headerScanner analysed over a buffer seen as a list of lines.
   Result: on a block that ends in CRLF CRLF and does not start with SP/HT, scan_next never panics,
   never runs out of fuel, consumes whole non-blank lines and stops exactly at the first blank line.
   The unguarded s.b[s.r] of skipSpace is safe because a continuation is never the block's last line. *)
From Coq Require Import Lia.
From FH Require Import Model.Base Gen.GenC09 Model.Lines Spec.HeadSpec Proof.LinesProof.
Open Scope nat_scope.

(* ---------- totality vocabulary ---------- *)
Definition total {A} (m : R A) : Prop := exists a, m = Ok a.

Lemma total_ok {A} (a : A) : total (Ok a).
Proof. now exists a. Qed.

Lemma total_bind {A B} (m : R A) (f : A -> R B) :
  total m -> (forall a, m = Ok a -> total (f a)) -> total (bind m f).
Proof. intros [a ->] Hf. cbn. now apply Hf. Qed.

Lemma total_slice b lo hi : lo <= hi -> hi <= length b -> total (slice b lo hi).
Proof. intros. rewrite slice_ok by assumption. apply total_ok. Qed.

(* ---------- lines ---------- *)
Definition no_lf (l : bytes) : Prop := index_byte l LF = None.
Definition join (ls : list bytes) : bytes := concat (map (fun l => l ++ [LF]) ls).

Lemma join_cons l ls : join (l :: ls) = l ++ LF :: join ls.
Proof. unfold join. cbn. now rewrite <- app_assoc. Qed.

Lemma join_app a b : join (a ++ b) = join a ++ join b.
Proof. unfold join. now rewrite map_app, concat_app. Qed.

Lemma join_length_ge ls : length ls <= length (join ls).
Proof.
  induction ls as [|l ls IH]; [cbn; lia|]. rewrite join_cons, app_length. cbn. lia.
Qed.

(* every buffer that is empty or ends in LF is a join of LF-free lines *)
Lemma lines_of b : (b = [] \/ exists b', b = b' ++ [LF]) -> exists ls, b = join ls /\ Forall no_lf ls.
Proof.
  remember (length b) as n eqn:Hn. revert b Hn.
  induction n as [n IH] using lt_wf_ind. intros b Hn [->|[b' ->]].
  - exists []. split; [reflexivity|constructor].
  - destruct (index_byte (b' ++ [LF]) LF) as [i|] eqn:Ei.
    + destruct (index_byte_split _ _ _ Ei) as (l & r & E & Hli & Hl).
      assert (Hr : r = [] \/ exists r', r = r' ++ [LF]).
      { destruct r as [|x r] using rev_ind; [now left|]. right. exists r.
        clear IHr. change (l ++ LF :: r ++ [x]) with (l ++ (LF :: r) ++ [x]) in E.
        rewrite app_assoc in E. apply app_inj_tail in E as [_ ->]. reflexivity. }
      destruct (IH (length r)) with (b := r) as (ls & -> & Hls); [|reflexivity|exact Hr|].
      * subst n. rewrite E, app_length. cbn. lia.
      * exists (l :: ls). rewrite join_cons. split; [exact E|]. constructor; assumption.
    + exfalso. apply index_byte_none_in in Ei. apply Ei. apply in_or_app. right. now left.
Qed.

Definition starts_spht (l : bytes) : bool := match l with c :: _ => is_sp_ht c | [] => false end.

(* remaining lines at a scanner position: non-empty, the last one is the CR of the final CRLF *)
Definition tail_inv (rem : list bytes) : Prop := rem <> [] /\ last rem [] = [CR] /\ Forall no_lf rem.

Lemma tail_inv_tail l rem : tail_inv (l :: rem) -> l <> [CR] -> tail_inv rem.
Proof.
  intros (_ & Hl & Hf) Hne. inversion Hf; subst.
  destruct rem as [|l2 rem]; [cbn in Hl; congruence|].
  split; [discriminate|]. split; [exact Hl|assumption].
Qed.

(* a block that ends in CRLF CRLF *)
Lemma block_lines q : exists ls, q ++ [CR; LF; CR; LF] = join ls /\ tail_inv ls.
Proof.
  destruct (lines_of (q ++ [CR; LF])) as (ls0 & E & Hls0).
  { right. exists (q ++ [CR]). rewrite <- app_assoc. reflexivity. }
  exists (ls0 ++ [[CR]]). split.
  - rewrite join_app, <- E. unfold join. cbn. rewrite <- app_assoc. reflexivity.
  - split; [destruct ls0; discriminate|]. split; [apply last_last|].
    apply Forall_app. split; [exact Hls0|]. constructor; [reflexivity|constructor].
Qed.

(* a block whose last line is the lone CR of a CRLF blank line (what the request side accepts since f7a0f16) *)
Lemma block_lines_lf q : exists ls, q ++ [LF; CR; LF] = join ls /\ tail_inv ls.
Proof.
  destruct (lines_of (q ++ [LF])) as (ls0 & E & Hls0); [right; eauto|].
  exists (ls0 ++ [[CR]]). split.
  - rewrite join_app, <- E. unfold join. cbn. rewrite <- app_assoc. reflexivity.
  - split; [destruct ls0; discriminate|]. split; [apply last_last|].
    apply Forall_app. split; [exact Hls0|]. constructor; [reflexivity|constructor].
Qed.

(* ---------- positions ---------- *)
Lemma skipn_at {A} (P X : list A) : skipn (length P) (P ++ X) = X.
Proof. rewrite skipn_app, Nat.sub_diag, skipn_all. reflexivity. Qed.

Lemma firstn_at {A} (P X : list A) : firstn (length P) (P ++ X) = P.
Proof. rewrite firstn_app, Nat.sub_diag, firstn_all. cbn. apply app_nil_r. Qed.

Lemma idx_at P X i c : nth_error X i = Some c -> idx (P ++ X) (length P + i) = Ok c.
Proof.
  intros H. unfold idx. rewrite nth_error_app2 by lia.
  replace (length P + i - length P) with i by lia. now rewrite H.
Qed.

(* ---------- readLine over lines ---------- *)
Lemma readLine_lines P l X : no_lf l ->
  readLine (P ++ l ++ LF :: X) (length P) = Ok (strip_cr l, length P + length l + 1).
Proof.
  intros Hl. unfold readLine.
  rewrite slice_from by (rewrite app_length; lia). rewrite skipn_at. cbn [bind].
  rewrite (index_byte_here _ _ _ Hl).
  rewrite slice_ok by (rewrite ?app_length; cbn; lia).
  replace (length P + length l - length P) with (length l) by lia.
  rewrite skipn_at, firstn_at. cbn [bind].
  destruct l as [|x l'] using rev_ind.
  - cbn. now rewrite Nat.add_0_r.
  - clear IHl'. rewrite app_length. cbn [length].
    replace (0 <? length l' + 1) with true by (symmetry; apply Nat.ltb_lt; lia).
    replace (length l' + 1 - 1) with (length l') by lia.
    rewrite idx_app. cbn [bind]. rewrite strip_cr_snoc.
    destruct (N.eqb x CR).
    + rewrite slice_to by (rewrite app_length; lia). rewrite firstn_at. reflexivity.
    + reflexivity.
Qed.

(* ---------- skipSpace over lines ---------- *)
Fixpoint take_while (f : N -> bool) (b : bytes) : bytes :=
  match b with [] => [] | c :: r => if f c then c :: take_while f r else [] end.

Lemma take_drop f b : take_while f b ++ drop_while f b = b.
Proof. induction b as [|c b IH]; cbn; [reflexivity|]. destruct (f c); cbn; [now rewrite IH|reflexivity]. Qed.

Lemma no_lf_app_r a b : no_lf (a ++ b) -> no_lf b.
Proof.
  unfold no_lf. induction a as [|x a IH]; cbn; [auto|].
  destruct (N.eqb x LF); [discriminate|]. destruct (index_byte (a ++ b) LF); [discriminate|]. auto.
Qed.

Lemma is_sp_ht_LF : is_sp_ht LF = false.
Proof. reflexivity. Qed.

Lemma skipSpace_loop_lines fuel P l X skipped :
  length (take_while is_sp_ht l) < fuel ->
  skipSpace_loop fuel (P ++ l ++ LF :: X) (length P) skipped =
    Ok (length P + length (take_while is_sp_ht l),
        skipped || negb (length (take_while is_sp_ht l) =? 0)).
Proof.
  revert P l skipped; induction fuel as [|fuel IH]; intros P l skipped Hf; [lia|].
  cbn [skipSpace_loop]. destruct l as [|c l].
  - cbn [app take_while length]. rewrite idx_app. cbn [bind]. rewrite is_sp_ht_LF.
    rewrite Nat.add_0_r, orb_false_r. reflexivity.
  - cbn [app take_while] in *. rewrite idx_app. cbn [bind]. revert Hf. destruct (is_sp_ht c) eqn:Ec; intros Hf.
    + cbn [length] in *.
      replace (P ++ c :: l ++ LF :: X) with ((P ++ [c]) ++ l ++ LF :: X) by (rewrite <- app_assoc; reflexivity).
      replace (S (length P)) with (length (P ++ [c])) by (rewrite app_length; cbn; lia).
      rewrite IH by lia. rewrite app_length. cbn [length]. rewrite orb_true_r. f_equal. f_equal. lia.
    + cbn [length]. rewrite Nat.add_0_r, orb_false_r. reflexivity.
Qed.

Lemma take_while_length f b : length (take_while f b) <= length b.
Proof. induction b as [|c b IH]; cbn; [lia|]. destruct (f c); cbn; lia. Qed.

Lemma skipSpace_lines P l X :
  skipSpace (P ++ l ++ LF :: X) (length P) =
    Ok (length P + length (take_while is_sp_ht l), negb (length (take_while is_sp_ht l) =? 0)).
Proof.
  unfold skipSpace. rewrite skipSpace_loop_lines; [reflexivity|].
  pose proof (take_while_length is_sp_ht l). rewrite !app_length. cbn. lia.
Qed.

Lemma take_while_nil_iff l : length (take_while is_sp_ht l) =? 0 = negb (starts_spht l).
Proof. destruct l as [|c l]; cbn; [reflexivity|]. destruct (is_sp_ht c); reflexivity. Qed.

Lemma take_while_not_start l : starts_spht l = false -> take_while is_sp_ht l = [].
Proof. destruct l as [|c l]; cbn; [reflexivity|]. now intros ->. Qed.

(* ---------- the continuation loop ---------- *)
Lemma cont_loop_lines fuel P rem mline :
  tail_inv rem -> length rem < fuel ->
  exists used rem' mline',
    rem = used ++ rem' /\ Forall (fun l => starts_spht l = true) used /\
    tail_inv rem' /\ starts_spht (hd [] rem') = false /\ (exists X, mline' = mline ++ X) /\
    cont_loop fuel (P ++ join rem) (length P) mline = Ok (mline', length P + length (join used)).
Proof.
  revert P rem mline; induction fuel as [|fuel IH]; intros P rem mline Hinv Hf; [lia|].
  destruct rem as [|l rem]; [destruct Hinv as [H _]; congruence|].
  cbn [cont_loop]. rewrite join_cons. rewrite skipSpace_lines. cbn [bind].
  rewrite take_while_nil_iff, negb_involutive.
  destruct (starts_spht l) eqn:Es.
  - (* a continuation line: consumed entirely *)
    assert (Hne : l <> [CR]) by (intros ->; discriminate).
    pose proof (tail_inv_tail _ _ Hinv Hne) as Hinv'.
    destruct Hinv as (_ & _ & Hfa). inversion Hfa as [|? ? Hl Hfa']; subst.
    pose proof (take_drop is_sp_ht l) as Etd.
    assert (Hrl : readLine (P ++ l ++ LF :: join rem) (length P + length (take_while is_sp_ht l)) =
                  Ok (strip_cr (drop_while is_sp_ht l), length P + length l + 1)).
    { rewrite <- Etd at 1. rewrite <- app_assoc, app_assoc.
      replace (length P + length (take_while is_sp_ht l)) with (length (P ++ take_while is_sp_ht l)) by (rewrite app_length; reflexivity).
      rewrite readLine_lines.
      - f_equal. f_equal. rewrite app_length. rewrite <- Etd at 3. rewrite app_length. lia.
      - apply (no_lf_app_r (take_while is_sp_ht l)). now rewrite Etd. }
    rewrite Hrl. cbn [bind].
    replace (P ++ l ++ LF :: join rem) with ((P ++ l ++ [LF]) ++ join rem) by (rewrite <- !app_assoc; reflexivity).
    replace (length P + length l + 1) with (length (P ++ l ++ [LF])) by (rewrite !app_length; cbn; lia).
    cbn [length] in Hf.
    destruct (IH (P ++ l ++ [LF]) rem (mline ++ [SP] ++ trim (strip_cr (drop_while is_sp_ht l))) Hinv' ltac:(lia))
      as (used & rem' & mline' & E & Hu & Hi & Hs & [X HX] & Hc).
    exists (l :: used), rem', mline'. rewrite Hc. subst rem.
    split; [reflexivity|]. split; [constructor; assumption|]. split; [exact Hi|]. split; [exact Hs|].
    split; [rewrite HX, <- app_assoc; eauto|].
    f_equal. f_equal. rewrite join_cons. rewrite !app_length. cbn [length]. lia.
  - exists [], (l :: rem), mline. cbn [app hd join concat map length].
    split; [reflexivity|]. split; [constructor|]. split; [exact Hinv|]. split; [exact Es|].
    split; [exists []; now rewrite app_nil_r|].
    rewrite (take_while_not_start l Es). cbn [length]. reflexivity.
Qed.

(* ---------- trim keeps the colon ---------- *)
Lemma drop_while_keeps f a c z : f c = false -> exists w, drop_while f (a ++ c :: z) = w ++ c :: z.
Proof.
  intros Hc. induction a as [|x a IH]; cbn.
  - rewrite Hc. now exists [].
  - destruct (f x); [exact IH|]. now exists (x :: a).
Qed.

Lemma colon_in_trim line x t colon :
  line = x :: t -> is_sp_ht x = false -> index_byte line COLON = Some colon -> colon < length (trim line).
Proof.
  intros -> Hx Hc. unfold trim. cbn [drop_while]. rewrite Hx.
  destruct (index_byte_split _ _ _ Hc) as (p & s & E & Hp & _). rewrite E.
  unfold drop_while_right. rewrite rev_app_distr. cbn [rev]. rewrite <- app_assoc. cbn [app].
  destruct (drop_while_keeps is_sp_ht (rev s) COLON (rev p) eq_refl) as [w ->].
  rewrite rev_app_distr. cbn [rev]. rewrite rev_involutive, !app_length. cbn [length]. lia.
Qed.

Lemma strip_cr_head l x t : strip_cr l = x :: t -> exists t', l = x :: t'.
Proof.
  destruct l as [|y l0]; [discriminate|]. unfold strip_cr.
  destruct (N.eqb (last (y :: l0) 0%N) CR).
  - destruct l0 as [|z l1]; [discriminate|]. cbn [removelast]. intros [= -> _]. eauto.
  - intros [= -> _]. eauto.
Qed.

Lemma early_not_space c rest :
  (isASCIILetter c || N.eqb c LF) || beq (c :: rest) strCRLF = true -> is_sp_ht c = false.
Proof.
  intros H. unfold is_sp_ht. destruct (N.eqb c SP) eqn:E1.
  - apply N.eqb_eq in E1. subst. cbn in H. destruct rest; discriminate.
  - destruct (N.eqb c HT) eqn:E2; [|reflexivity].
    apply N.eqb_eq in E2. subst. cbn in H. destruct rest; discriminate.
Qed.

(* ---------- readContinuedLineSlice over lines ---------- *)
Definition consumed_cont (P : bytes) (l : bytes) (rem : list bytes) (r' : nat) : Prop :=
  exists used rem', rem = used ++ rem' /\ Forall (fun l => starts_spht l = true) used /\
    tail_inv rem' /\ starts_spht (hd [] rem') = false /\ r' = length P + length l + 1 + length (join used).

Lemma rcls_lines P l rem :
  tail_inv (l :: rem) ->
  exists res, readContinuedLineSlice (P ++ join (l :: rem)) (length P) = Ok res /\
    match res with
    | CLBlank r' => blank_line l = true /\ r' = length P + length l + 1
    | CLNoColon r' => blank_line l = false
    | CLLine kv colon r' =>
        blank_line l = false /\ index_byte (strip_cr l) COLON = Some colon /\
        (exists X, kv = trim (strip_cr l) ++ X) /\ consumed_cont P l rem r'
    end.
Proof.
  intros Hinv. unfold readContinuedLineSlice. rewrite join_cons.
  assert (Hl : no_lf l) by (destruct Hinv as (_ & _ & Hf); now inversion Hf).
  rewrite readLine_lines by exact Hl. cbn [bind].
  destruct (strip_cr l) as [|x line'] eqn:Es.
  - eexists. split; [reflexivity|]. split; [now apply strip_cr_blank|reflexivity].
  - assert (Hnb : blank_line l = false).
    { destruct (blank_line l) eqn:Eb; [|reflexivity]. apply strip_cr_blank in Eb. congruence. }
    destruct (index_byte (x :: line') COLON) as [colon|] eqn:Ec.
    2:{ eexists. split; [reflexivity|exact Hnb]. }
    assert (Hne : l <> [CR]) by (intros ->; discriminate).
    pose proof (tail_inv_tail _ _ Hinv Hne) as Hinv'.
    destruct rem as [|l2 rem2]; [destruct Hinv' as [H _]; congruence|].
    set (b := P ++ l ++ LF :: join (l2 :: rem2)).
    set (r1 := length P + length l + 1).
    assert (Eb : b = (P ++ l ++ [LF]) ++ join (l2 :: rem2)) by (unfold b; rewrite <- !app_assoc; reflexivity).
    assert (Er1 : r1 = length (P ++ l ++ [LF])) by (unfold r1; rewrite !app_length; cbn; lia).
    (* the continuation loop, whenever it runs *)
    assert (Hcont : exists mline' r', cont_loop (S (length b)) b r1 (trim (x :: line')) = Ok (mline', r') /\
                      (exists X, mline' = trim (x :: line') ++ X) /\ consumed_cont P l (l2 :: rem2) r').
    { destruct (cont_loop_lines (S (length b)) (P ++ l ++ [LF]) (l2 :: rem2) (trim (x :: line')) Hinv')
        as (used & rem' & mline' & E & Hu & Hi & Hs & HX & Hc).
      - rewrite Eb, app_length. pose proof (join_length_ge (l2 :: rem2)). lia.
      - rewrite <- Eb, <- Er1 in Hc.
        exists mline', (r1 + length (join used)). split; [exact Hc|]. split; [exact HX|].
        exists used, rem'. split; [exact E|]. split; [exact Hu|]. split; [exact Hi|]. split; [exact Hs|]. reflexivity. }
    destruct Hcont as (mline' & r' & Hc & HX & Hcc).
    (* the early-return test *)
    destruct (1 <? length b - r1) eqn:Eg.
    + apply Nat.ltb_lt in Eg.
      rewrite slice_ok by lia. replace (r1 + 2 - r1) with 2 by lia. cbn [bind].
      assert (Esk : skipn r1 b = l2 ++ LF :: join rem2).
      { rewrite Eb, Er1, skipn_at. apply join_cons. }
      rewrite Esk.
      destruct (l2 ++ LF :: join rem2) as [|c T1] eqn:ET; [destruct l2; discriminate|].
      change (firstn 2 (c :: T1)) with (c :: firstn 1 T1).
      destruct ((isASCIILetter c || N.eqb c LF) || beq (c :: firstn 1 T1) strCRLF) eqn:Eearly.
      * eexists. split; [reflexivity|]. split; [exact Hnb|]. split; [reflexivity|].
        split; [exists []; now rewrite app_nil_r|].
        exists [], (l2 :: rem2). cbn [app hd join concat map length].
        split; [reflexivity|]. split; [constructor|]. split; [exact Hinv'|].
        split; [|unfold r1; lia].
        apply early_not_space in Eearly.
        destruct l2 as [|c2 l2']; [reflexivity|]. cbn in ET. injection ET as -> _. exact Eearly.
      * rewrite Hc. cbn [bind]. eexists. split; [reflexivity|].
        split; [exact Hnb|]. split; [reflexivity|].
        split; [exact HX|exact Hcc].
    + rewrite Hc. cbn [bind]. eexists. split; [reflexivity|].
      split; [exact Hnb|]. split; [reflexivity|]. split; [exact HX|exact Hcc].
Qed.

(* ---------- scan_next over lines ---------- *)
Lemma scan_next_lines P l rem :
  tail_inv (l :: rem) -> starts_spht l = false ->
  exists res, scan_next (P ++ join (l :: rem)) (length P) = Ok res /\
    match res with
    | NStop None r' => blank_line l = true /\ r' = length P + length l + 1
    | NStop (Some _) _ => True
    | NKV k v inner r' => blank_line l = false /\ consumed_cont P l rem r'
    end.
Proof.
  intros Hinv Hst. unfold scan_next.
  destruct (rcls_lines P l rem Hinv) as (res & -> & Hres). cbn [bind].
  destruct res as [r'|r'|kv colon r'].
  - eexists. split; [reflexivity|exact Hres].
  - eexists. split; [reflexivity|exact I].
  - destruct Hres as (Hnb & Hcolon & [X HX] & Hcc).
    destruct (strip_cr l) as [|x t] eqn:Es; [discriminate|].
    destruct (strip_cr_head _ _ _ Es) as [t' El].
    assert (Hx : is_sp_ht x = false) by (subst l; exact Hst).
    pose proof (colon_in_trim _ x t colon eq_refl Hx Hcolon) as Hlt.
    assert (Hkv : colon < length kv) by (rewrite HX, app_length; lia).
    destruct kv as [|k0 kv']; [cbn in Hkv; lia|].
    rewrite slice_to by lia. cbn [bind].
    rewrite slice_from by lia. cbn [bind].
    destruct (isValidHeaderKey (firstn colon (k0 :: kv'))) as [valid inner].
    destruct valid; cbn [negb].
    + eexists. split; [reflexivity|]. split; assumption.
    + eexists. split; [reflexivity|exact I].
Qed.

(* the first line of a block that does not start with SP/HT *)
Lemma hd_ok_first b ls c t : b = join ls -> b = c :: t -> is_sp_ht c = false -> starts_spht (hd [] ls) = false.
Proof.
  intros -> E Hc. destruct ls as [|l ls]; [discriminate|]. rewrite join_cons in E.
  destruct l as [|c' l']; [reflexivity|]. cbn in E. injection E as -> _. exact Hc.
Qed.

(* offsets: the spec's state machine over whole lines *)
Lemma head_len_lines_skip l rest n :
  no_lf l -> blank_line l = false ->
  head_len_aux true CurEmpty (join (l :: rest)) n = head_len_aux true CurEmpty (join rest) (n + length l + 1).
Proof.
  intros Hl Hb. rewrite join_cons, head_len_aux_line by exact Hl. now rewrite cur_after_blank, Hb.
Qed.

Lemma head_len_lines_stop l rest n :
  no_lf l -> blank_line l = true ->
  head_len_aux true CurEmpty (join (l :: rest)) n = Some (n + length l + 1).
Proof.
  intros Hl Hb. rewrite join_cons, head_len_aux_line by exact Hl. now rewrite cur_after_blank, Hb.
Qed.

Lemma spht_not_blank l : starts_spht l = true -> blank_line l = false.
Proof.
  destruct l as [|c [|d l]]; cbn; try discriminate; try reflexivity.
  intros H. destruct (N.eqb c CR) eqn:E; [|reflexivity]. apply N.eqb_eq in E. subst. discriminate.
Qed.

Lemma head_len_lines_used used rest n :
  Forall no_lf used -> Forall (fun l => starts_spht l = true) used ->
  head_len_aux true CurEmpty (join (used ++ rest)) n = head_len_aux true CurEmpty (join rest) (n + length (join used)).
Proof.
  revert n; induction used as [|l used IH]; intros n Hn Hs.
  - cbn [app join concat map length]. now rewrite Nat.add_0_r.
  - inversion Hn; subst. inversion Hs; subst. cbn [app].
    rewrite head_len_lines_skip by (auto using spht_not_blank).
    rewrite IH by assumption. f_equal. rewrite join_cons, app_length. cbn [length]. lia.
Qed.
