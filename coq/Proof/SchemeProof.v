(* SchemeProof.v — invariants of Model/Scheme.v over all histories (property C21). *)
From Coq Require Import Lia ZifyBool ZifyN ZifyNat.
From FH Require Import Model.Base Gen.GenC21 Model.Scheme Spec.SchemeSpec.
Open Scope N_scope.

(* ---- the model's scheme test and address completion agree with the specification -------------------------- *)
Lemma isHTTPS_spec s : isHTTPS s = https_scheme s.
Proof. reflexivity. Qed.

Lemma last_index_from_pos s : forall i acc, (0 <= i)%Z -> (acc < i)%Z ->
  (last_index_from i COLON s acc >? 0)%Z = has_colon_after_first (0 <? i)%Z s || (acc >? 0)%Z.
Proof.
  induction s as [|x r IH]; intros i acc Hi Hacc; cbn [last_index_from has_colon_after_first].
  - reflexivity.
  - rewrite IH by (destruct (x =? COLON); lia).
    replace (0 <? i + 1)%Z with true by lia.
    destruct (x =? COLON) eqn:E; cbn [andb orb].
    + rewrite andb_true_r. destruct (0 <? i)%Z eqn:E1, (has_colon_after_first true r); cbn; try lia.
    + rewrite andb_false_r. reflexivity.
Qed.

Lemma AddMissingPort_spec addr tls : AddMissingPort addr tls = own_addr addr tls.
Proof.
  unfold AddMissingPort, own_addr, authority_has_port.
  destruct addr as [|c0 rest]; [reflexivity|].
  destruct (c0 =? LBR).
  - destruct (last (c0 :: rest) 0 =? RBR); cbn [negb]; [destruct tls|]; reflexivity.
  - unfold last_index_byte. rewrite last_index_from_pos by lia.
    replace ((-1 >? 0)%Z) with false by reflexivity. rewrite orb_false_r.
    replace (0 <? 0)%Z with false by reflexivity.
    destruct (has_colon_after_first false (c0 :: rest)); [|destruct tls]; reflexivity.
Qed.

(* ---- invariant ------------------------------------------------------------------------------------------- *)
(* the kind of connection host client hc gets from dialAddr *)
Definition hck (hc : hostclient) : connkind := dialAddr (hc_tls hc) (hc_wt hc).

(* both branches of dialAddr (lazy tls.Client, explicit handshake helper) hand back a TLS connection exactly when isTLS *)
Lemma kind_tls_dialAddr t wt : kind_tls (dialAddr t wt) = t.
Proof. destruct t, wt; reflexivity. Qed.

Definition pool_ok (tr : list event) (hc : hostclient) : Prop :=
  forall c, In c (hc_pool hc) -> In (EDial (c_id c) (hc_addr hc) (hck hc)) tr.

Definition confT := hostclient -> option hostclient.

(* hc has the configuration ConfigureClient left on the HostClient built for (key, tls) *)
Definition created (conf : confT) (cwt : bool) (k : bytes) (tls : bool) (hc : hostclient) : Prop :=
  exists hx, conf (dflt k tls cwt) = Some hx /\ hc_addr hc = hc_addr hx /\ hc_tls hc = hc_tls hx /\ hc_wt hc = hc_wt hx.

Definition map_ok (conf : confT) (cwt tls : bool) (tr : list event) (m : hmap) : Prop :=
  forall k hc, In (k, hc) m -> created conf cwt k tls hc /\ pool_ok tr hc.

Definition fresh (tr : list event) (next : N) : Prop :=
  forall cid a t, In (EDial cid a t) tr -> cid < next.

Definition dials_fun (tr : list event) : Prop :=
  forall cid a t a' t', In (EDial cid a t) tr -> In (EDial cid a' t') tr -> a = a' /\ t = t'.

Definition hc_rel (tr : list event) (p : hcfg) (hc : hostclient) : Prop :=
  hc_addr hc = fst (fst p) /\ hc_tls hc = snd (fst p) /\ hc_wt hc = snd p /\ pool_ok tr hc.

(* where a written request may have gone *)
Definition write_ok (conf : confT) (cwt : bool) (hcs0 : list hcfg) (tr : list event) (cid : N) (r : req) : Prop :=
  exists addr wt, In (EDial cid addr (dialAddr (isHTTPS (r_scheme r)) wt)) tr /\
    match r_via r with
    | ViaClient => exists hx, conf (dflt (r_host r) (isHTTPS (r_scheme r)) cwt) = Some hx /\
                              addr = hc_addr hx /\ wt = hc_wt hx /\ hc_tls hx = isHTTPS (r_scheme r)
    | _ => exists i, nth_error hcs0 i = Some (addr, isHTTPS (r_scheme r), wt)
    end.

Record Inv (hcs0 : list hcfg) (w : world) (tr : list event) : Prop := {
  inv_m : map_ok (w_conf w) (w_cwt w) false tr (w_m w);
  inv_ms : map_ok (w_conf w) (w_cwt w) true tr (w_ms w);
  inv_hcs : Forall2 (hc_rel tr) hcs0 (w_hcs w);
  inv_fresh : fresh tr (w_next w);
  inv_fun : dials_fun tr;
  inv_writes : forall cid r, In (EWrite cid r) tr -> write_ok (w_conf w) (w_cwt w) hcs0 tr cid r }.

(* monotonicity in the trace *)
Lemma pool_ok_mono tr evs hc : pool_ok tr hc -> pool_ok (tr ++ evs) hc.
Proof. intros H c Hc. apply in_or_app. left. now apply H. Qed.
Lemma map_ok_mono conf cwt tls tr evs m : map_ok conf cwt tls tr m -> map_ok conf cwt tls (tr ++ evs) m.
Proof. intros H k hc Hin. destruct (H k hc Hin) as (A & B). split; auto using pool_ok_mono. Qed.
Lemma hc_rel_mono tr evs p hc : hc_rel tr p hc -> hc_rel (tr ++ evs) p hc.
Proof. intros (A & B & C & D). repeat split; auto using pool_ok_mono. Qed.
Lemma hcs_mono tr evs l0 l : Forall2 (hc_rel tr) l0 l -> Forall2 (hc_rel (tr ++ evs)) l0 l.
Proof. induction 1; constructor; auto using hc_rel_mono. Qed.
Lemma write_ok_mono conf cwt hcs0 tr evs cid r : write_ok conf cwt hcs0 tr cid r -> write_ok conf cwt hcs0 (tr ++ evs) cid r.
Proof. intros (a & wt & H1 & H2). exists a, wt. split; [apply in_or_app; now left | exact H2]. Qed.

(* ---- one attempt ------------------------------------------------------------------------------------------ *)
(* what a (sequence of) attempt(s) of host client hc on request r guarantees about the events it appends *)
Definition step_ok (hc : hostclient) (r : req) (tr : list event) (next : N)
           (hc1 : hostclient) (next1 : N) (evs : list event) : Prop :=
  hc_addr hc1 = hc_addr hc /\ hc_tls hc1 = hc_tls hc /\ hc_wt hc1 = hc_wt hc /\
  pool_ok (tr ++ evs) hc1 /\ fresh (tr ++ evs) next1 /\ dials_fun (tr ++ evs) /\
  (forall cid a t, In (EDial cid a t) evs -> a = hc_addr hc /\ t = hck hc) /\
  (forall cid r', In (EWrite cid r') evs ->
     r' = r /\ hc_tls hc = isHTTPS (r_scheme r) /\ In (EDial cid (hc_addr hc) (hck hc)) (tr ++ evs)).

Lemma fresh_weaken tr n m : fresh tr n -> n <= m -> fresh tr m.
Proof. intros H Hle cid a t Hin. specialize (H cid a t Hin). lia. Qed.

Definition quiet (evs : list event) : Prop := forall e, In e evs -> exists r x, e = ERefuse r x.

Lemma quiet_dial tr evs cid a t : quiet evs -> In (EDial cid a t) (tr ++ evs) -> In (EDial cid a t) tr.
Proof. intros Hq Hin. apply in_app_or in Hin as [Hin|Hin]; [exact Hin|]. destruct (Hq _ Hin) as (r & x & E). discriminate. Qed.

Lemma step_ok_quiet hc r tr next evs :
  quiet evs -> pool_ok tr hc -> fresh tr next -> dials_fun tr -> step_ok hc r tr next hc next evs.
Proof.
  intros Hq Hpool Hfresh Hfun. unfold step_ok.
  split; [reflexivity|]. split; [reflexivity|]. split; [reflexivity|].
  split; [apply pool_ok_mono; exact Hpool|].
  split; [intros cid a t Hin; apply quiet_dial in Hin; eauto|].
  split; [intros cid a t a' t' H1 H2; apply quiet_dial in H1, H2; eauto|].
  split.
  - intros cid a t Hin. destruct (Hq _ Hin) as (r0 & x & E). discriminate.
  - intros cid r' Hin. destruct (Hq _ Hin) as (r0 & x & E). discriminate.
Qed.

Lemma hc_once_ok hc r rep tr next hc1 next1 evs out retry :
  pool_ok tr hc -> fresh tr next -> dials_fun tr ->
  hc_once hc r rep next = (hc1, next1, evs, out, retry) ->
  step_ok hc r tr next hc1 next1 evs.
Proof.
  intros Hpool Hfresh Hfun. unfold hc_once.
  destruct (negb (Bool.eqb (hc_tls hc) (isHTTPS (r_scheme r)))) eqn:Hchk.
  - (* refused: nothing dialled, nothing written *)
    intros [= <- <- <- <- <-]. apply step_ok_quiet; auto. intros e [<-|[]]; eauto.
  - apply negb_false_iff, eqb_prop in Hchk.
    destruct (hc_pool hc) as [|c rest] eqn:Hp.
    + (* dial a new connection *)
      fold (hck hc).
      assert (Hfresh' : fresh (tr ++ [EDial next (hc_addr hc) (hck hc); EWrite next r]) (next + 1)).
      { intros cid a t Hin. apply in_app_or in Hin as [Hin|[Hin|[Hin|[]]]].
        - specialize (Hfresh _ _ _ Hin). lia.
        - injection Hin as <- _ _. lia.
        - discriminate. }
      assert (Hfun' : dials_fun (tr ++ [EDial next (hc_addr hc) (hck hc); EWrite next r])).
      { intros cid a t a' t' H1 H2.
        apply in_app_or in H1 as [H1|[H1|[H1|[]]]]; apply in_app_or in H2 as [H2|[H2|[H2|[]]]]; try discriminate.
        - eapply Hfun; eauto.
        - injection H2 as <- <- <-. specialize (Hfresh _ _ _ H1). lia.
        - injection H1 as <- <- <-. specialize (Hfresh _ _ _ H2). lia.
        - injection H1 as <- <- <-. injection H2 as <- <-. auto. }
      assert (Hd : forall cid a t, In (EDial cid a t) [EDial next (hc_addr hc) (hck hc); EWrite next r] ->
                                   a = hc_addr hc /\ t = hck hc).
      { intros cid a t [H|[H|[]]]; [injection H as _ <- <-; auto | discriminate]. }
      assert (Hw : forall cid r', In (EWrite cid r') [EDial next (hc_addr hc) (hck hc); EWrite next r] ->
                 r' = r /\ hc_tls hc = isHTTPS (r_scheme r) /\
                 In (EDial cid (hc_addr hc) (hck hc)) (tr ++ [EDial next (hc_addr hc) (hck hc); EWrite next r])).
      { intros cid r' [H|[H|[]]]; [discriminate|]. injection H as <- <-. repeat split; auto.
        apply in_or_app. right. now left. }
      cbn [app].
      destruct rep; intros [= <- <- <- <- <-]; unfold step_ok, hck; cbn [hc_addr hc_tls hc_wt hc_pool]; fold (hck hc);
        (split; [reflexivity|]); (split; [reflexivity|]); (split; [reflexivity|]);
        (split; [|split; [exact Hfresh'|split; [exact Hfun'|split; [exact Hd|exact Hw]]]]).
      * intros c' [<-|[]]. cbn. apply in_or_app. right. now left.
      * intros c' [].
      * intros c' [].
    + (* reuse the first idle connection *)
      assert (Hc : In (EDial (c_id c) (hc_addr hc) (hck hc)) tr) by (apply Hpool; rewrite Hp; now left).
      assert (Hfresh' : fresh (tr ++ [EWrite (c_id c) r]) next).
      { intros cid a t Hin. apply in_app_or in Hin as [Hin|[Hin|[]]]; [eauto|discriminate]. }
      assert (Hfun' : dials_fun (tr ++ [EWrite (c_id c) r])).
      { intros cid a t a' t' H1 H2.
        apply in_app_or in H1 as [H1|[H1|[]]]; [|discriminate].
        apply in_app_or in H2 as [H2|[H2|[]]]; [|discriminate]. eapply Hfun; eauto. }
      assert (Hd : forall cid a t, In (EDial cid a t) [EWrite (c_id c) r] -> a = hc_addr hc /\ t = hck hc).
      { intros cid a t [H|[]]. discriminate. }
      assert (Hw : forall cid r', In (EWrite cid r') [EWrite (c_id c) r] ->
                 r' = r /\ hc_tls hc = isHTTPS (r_scheme r) /\
                 In (EDial cid (hc_addr hc) (hck hc)) (tr ++ [EWrite (c_id c) r])).
      { intros cid r' [H|[]]. injection H as <- <-. repeat split; auto. apply in_or_app. now left. }
      assert (Hrest : forall c', In c' rest -> In (EDial (c_id c') (hc_addr hc) (hck hc)) (tr ++ [EWrite (c_id c) r])).
      { intros c' Hin. apply in_or_app. left. apply Hpool. rewrite Hp. now right. }
      cbn [app].
      destruct rep; intros [= <- <- <- <- <-]; unfold step_ok, hck; cbn [hc_addr hc_tls hc_wt hc_pool]; fold (hck hc);
        (split; [reflexivity|]); (split; [reflexivity|]); (split; [reflexivity|]);
        (split; [|split; [exact Hfresh'|split; [exact Hfun'|split; [exact Hd|exact Hw]]]]).
      * intros c' Hin. apply in_app_or in Hin as [Hin|[<-|[]]]; [now apply Hrest|]. apply in_or_app. now left.
      * exact Hrest.
      * exact Hrest.
Qed.

Lemma step_ok_trans hc r tr next hc1 next1 evs hc2 next2 evs2 :
  step_ok hc r tr next hc1 next1 evs ->
  step_ok hc1 r (tr ++ evs) next1 hc2 next2 evs2 ->
  step_ok hc r tr next hc2 next2 (evs ++ evs2).
Proof.
  intros (A1 & B1 & W1 & C1 & D1 & E1 & F1 & G1) (A2 & B2 & W2 & C2 & D2 & E2 & F2 & G2).
  assert (HK : hck hc1 = hck hc) by (unfold hck; congruence).
  unfold step_ok. rewrite app_assoc.
  split; [congruence|]. split; [congruence|]. split; [congruence|]. split; [exact C2|]. split; [exact D2|]. split; [exact E2|]. split.
  - intros cid a t H. apply in_app_or in H as [H|H]; [apply (F1 _ _ _ H) | destruct (F2 _ _ _ H); split; congruence].
  - intros cid r' H. apply in_app_or in H as [H|H].
    + destruct (G1 _ _ H) as (X1 & X2 & X3). split; [exact X1|]. split; [exact X2|]. apply in_or_app. now left.
    + destruct (G2 _ _ H) as (X1 & X2 & X3). split; [exact X1|]. split; [congruence|]. rewrite A1, HK in X3. exact X3.
Qed.

Lemma hc_attempts_ok fuel : forall hc r reps tr next hc1 next1 evs out,
  pool_ok tr hc -> fresh tr next -> dials_fun tr ->
  hc_attempts fuel hc r reps next = (hc1, next1, evs, out) ->
  step_ok hc r tr next hc1 next1 evs.
Proof.
  induction fuel as [|f IH]; intros hc r reps tr next hc1 next1 evs out Hpool Hfresh Hfun; cbn [hc_attempts].
  - intros [= <- <- <- <-]. apply step_ok_quiet; auto. intros e [].
  - destruct (hc_once hc r match reps with [] => RKeep | x :: _ => x end next) as [[[[hca nexta] evsa] outa] retry] eqn:Ho.
    pose proof (hc_once_ok _ _ _ _ _ _ _ _ _ _ Hpool Hfresh Hfun Ho) as Hs.
    destruct outa as [|e].
    + intros [= <- <- <- <-]. exact Hs.
    + destruct (negb retry); [intros [= <- <- <- <-]; exact Hs|].
      destruct f as [|f']; [intros [= <- <- <- <-]; exact Hs|].
      destruct (hc_attempts (S f') hca r (tl reps) nexta) as [[[hcb nextb] evsb] outb] eqn:Hr.
      intros [= <- <- <- <-].
      pose proof Hs as (A1 & B1 & W1 & C1 & D1 & E1 & F1 & G1).
      eapply step_ok_trans; [exact Hs|].
      eapply IH; eauto.
Qed.

(* the scheme check in isolation: a mismatching request is refused before any connection is chosen *)
Lemma hc_once_refuses hc r rep next :
  hc_tls hc <> isHTTPS (r_scheme r) ->
  hc_once hc r rep next = (hc, next, [ERefuse r ESchemeMismatch], OErr ESchemeMismatch, false).
Proof.
  intros H. unfold hc_once. destruct (Bool.eqb (hc_tls hc) (isHTTPS (r_scheme r))) eqn:E; [|reflexivity].
  apply eqb_prop in E. contradiction.
Qed.

Lemma hc_do_refuses hc r reps next :
  hc_tls hc <> isHTTPS (r_scheme r) ->
  hc_do hc r reps next = (hc, next, [ERefuse r ESchemeMismatch], OErr ESchemeMismatch).
Proof.
  intros H. unfold hc_do, maxAttempts.
  destruct (Z.to_nat DefaultMaxIdemponentCallAttempts) eqn:E; [vm_compute in E; discriminate|].
  cbn [hc_attempts]. rewrite hc_once_refuses by exact H. reflexivity.
Qed.

(* ---- maps -------------------------------------------------------------------------------------------------- *)
Lemma lookup_in k m hc : lookup k m = Some hc -> In (k, hc) m.
Proof.
  induction m as [|[k' v] m IH]; cbn; [discriminate|].
  destruct (beq k k') eqn:E.
  - intros [= <-]. apply beq_eq in E. subst. now left.
  - intros H. right. auto.
Qed.

Lemma upd_in k v m k' hc' : In (k', hc') (upd k v m) -> In (k', hc') m \/ (k' = k /\ hc' = v).
Proof.
  induction m as [|[k0 v0] m IH]; cbn.
  - intros [[= <- <-]|[]]. now right.
  - destruct (beq k k0) eqn:E.
    + intros [[= <- <-]|H]; [right; apply beq_eq in E; auto | left; now right].
    + intros [[= <- <-]|H]; [left; now left|]. destruct (IH H) as [X|X]; [left; now right | now right].
Qed.

Lemma Forall2_set_nth {A B} (R R' : A -> B -> Prop) l0 l i y y1 :
  Forall2 R l0 l -> nth_error l i = Some y ->
  (forall x z, R x z -> R' x z) ->
  (forall x, nth_error l0 i = Some x -> R x y -> R' x y1) ->
  Forall2 R' l0 (set_nth i y1 l).
Proof.
  intros H. revert i. induction H as [|x z l0 l Hxz H IH]; intros i Hn Hmono Hy; cbn.
  - destruct i; discriminate.
  - destruct i as [|j]; cbn in *.
    + injection Hn as <-. constructor; [apply Hy; auto|]. clear -H Hmono. induction H; constructor; auto.
    + constructor; [auto|]. apply IH; auto.
Qed.

Lemma Forall2_nth {A B} (R : A -> B -> Prop) l0 l i y :
  Forall2 R l0 l -> nth_error l i = Some y -> exists x, nth_error l0 i = Some x /\ R x y.
Proof.
  intros H. revert i. induction H; intros [|j] Hn; cbn in *; try discriminate.
  - injection Hn as <-. eauto.
  - eauto.
Qed.

(* ---- the doers preserve the invariant ------------------------------------------------------------------------ *)
Lemma quiet_inv hcs0 w tr evs : quiet evs -> Inv hcs0 w tr -> Inv hcs0 w (tr ++ evs).
Proof.
  intros Hq HI. destruct HI. constructor; auto using map_ok_mono, hcs_mono.
  - intros cid a t Hin. apply quiet_dial in Hin; eauto.
  - intros cid a t a' t' H1 H2. apply quiet_dial in H1, H2; eauto.
  - intros cid r' Hin. apply in_app_or in Hin as [Hin|Hin]; [apply write_ok_mono; auto|].
    destruct (Hq _ Hin) as (r0 & x & E). discriminate.
Qed.

Lemma quiet_one r e : quiet [ERefuse r e].
Proof. intros x [<-|[]]. eauto. Qed.

Definition same_cfg (w1 w : world) : Prop := w_cwt w1 = w_cwt w /\ w_conf w1 = w_conf w.

Lemma client_do_inv hcs0 w tr r reps w1 evs out :
  r_via r = ViaClient -> Inv hcs0 w tr -> client_do w r reps = (w1, evs, out) ->
  Inv hcs0 w1 (tr ++ evs) /\ same_cfg w1 w.
Proof.
  intros Hvia HI. unfold client_do.
  destruct (contains COMMA (r_host r)); [intros [= <- <- <-]; split; [apply quiet_inv; auto using quiet_one | split; reflexivity]|].
  destruct (negb (isHTTPS (r_scheme r)) && negb (isHTTP (r_scheme r)));
    [intros [= <- <- <-]; split; [apply quiet_inv; auto using quiet_one | split; reflexivity]|].
  set (tls := isHTTPS (r_scheme r)).
  set (m := if tls then w_ms w else w_m w).
  assert (Hm : map_ok (w_conf w) (w_cwt w) tls tr m) by (destruct HI; subst m; destruct tls; auto).
  set (found := match lookup (r_host r) m with Some hc => Some hc | None => _ end).
  assert (Hf : forall hc, found = Some hc -> created (w_conf w) (w_cwt w) (r_host r) tls hc /\ pool_ok tr hc).
  { subst found. destruct (lookup (r_host r) m) eqn:El.
    - intros hc [= <-]. apply lookup_in in El. apply (Hm _ _ El).
    - destruct (w_conf w (dflt (r_host r) tls (w_cwt w))) as [hx|] eqn:Ec; [|discriminate].
      intros hc [= <-]. split; [exists hx; cbn; auto | intros c []]. }
  destruct found as [hc|]; [|intros [= <- <- <-]; split; [apply quiet_inv; auto using quiet_one | split; reflexivity]].
  destruct (Hf hc eq_refl) as (Hcr & Hpool).
  destruct (hc_do hc r reps (w_next w)) as [[[hc1 next1] evs1] out1] eqn:Hdo.
  intros [= <- <- <-]. split; [|split; reflexivity].
  destruct HI as [Im Ims Ihcs Ifresh Ifun Iwr].
  pose proof (hc_attempts_ok _ _ _ _ _ _ _ _ _ _ Hpool Ifresh Ifun Hdo) as (A & B & W & C & D & E & F & G).
  assert (Hm1 : map_ok (w_conf w) (w_cwt w) tls (tr ++ evs1) (upd (r_host r) hc1 m)).
  { intros k' hc' Hin. apply upd_in in Hin as [Hin|[-> ->]].
    - apply (map_ok_mono _ _ _ _ _ _ Hm _ _ Hin).
    - split; [|exact C]. destruct Hcr as (hx & X1 & X2 & X3 & X4). exists hx. repeat split; congruence. }
  constructor; cbn [w_cwt w_conf w_m w_ms w_hcs w_next]; auto using hcs_mono.
  - destruct tls eqn:Et; [apply map_ok_mono; auto | exact Hm1].
  - destruct tls eqn:Et; [exact Hm1 | apply map_ok_mono; auto].
  - intros cid r' Hin. apply in_app_or in Hin as [Hin|Hin]; [apply write_ok_mono; auto|].
    destruct (G _ _ Hin) as (-> & Heq & Hd). exists (hc_addr hc), (hc_wt hc).
    unfold hck in Hd. rewrite Heq in Hd. split; [exact Hd|].
    rewrite Hvia. destruct Hcr as (hx & X1 & X2 & X3 & X4). exists hx. fold tls.
    split; [exact X1|]. split; [exact X2|]. split; [exact X4|]. rewrite <- X3. exact Heq.
Qed.

Lemma host_do_inv i hcs0 w tr r reps w1 evs out :
  r_via r <> ViaClient -> Inv hcs0 w tr -> host_do i w r reps = (w1, evs, out) ->
  Inv hcs0 w1 (tr ++ evs) /\ same_cfg w1 w.
Proof.
  intros Hvia HI. unfold host_do.
  destruct (nth_error (w_hcs w) i) as [hc|] eqn:En.
  - destruct (hc_do hc r reps (w_next w)) as [[[hc1 next1] evs1] out1] eqn:Hdo.
    intros [= <- <- <-]. split; [|split; reflexivity].
    destruct HI as [Im Ims Ihcs Ifresh Ifun Iwr].
    destruct (Forall2_nth _ _ _ _ _ Ihcs En) as (p & Hp & Hrel). destruct Hrel as (Ra & Rt & Rw & Rp).
    pose proof (hc_attempts_ok _ _ _ _ _ _ _ _ _ _ Rp Ifresh Ifun Hdo) as (A & B & W & C & D & E & F & G).
    constructor; cbn [w_cwt w_conf w_m w_ms w_hcs w_next]; auto using map_ok_mono.
    + eapply Forall2_set_nth; eauto using hc_rel_mono.
      intros x Hx _. rewrite Hp in Hx. injection Hx as <-. unfold hc_rel.
      split; [congruence|]. split; [congruence|]. split; [congruence|]. exact C.
    + intros cid r' Hin. apply in_app_or in Hin as [Hin|Hin]; [apply write_ok_mono; auto|].
      destruct (G _ _ Hin) as (-> & Heq & Hd). exists (hc_addr hc), (hc_wt hc).
      unfold hck in Hd. rewrite Heq in Hd. split; [exact Hd|].
      assert (X : exists j, nth_error hcs0 j = Some (hc_addr hc, isHTTPS (r_scheme r), hc_wt hc)).
      { exists i. rewrite Hp. destruct p as [[pa pt] pw]. cbn [fst snd] in Ra, Rt, Rw. rewrite <- Ra, <- Rt, <- Rw, <- Heq. reflexivity. }
      destruct (r_via r); [contradiction|exact X|exact X].
  - intros [= <- <- <-]. split; [apply quiet_inv; auto using quiet_one | split; reflexivity].
Qed.


Lemma follow_inv (P : req -> Prop) (d : doer) hcs0 :
  (forall w tr r reps w1 evs out, P r -> Inv hcs0 w tr -> d w r reps = (w1, evs, out) ->
                                  Inv hcs0 w1 (tr ++ evs) /\ same_cfg w1 w) ->
  forall hops w tr count maxred w1 evs out,
    Forall (fun h => P (fst h)) hops -> Inv hcs0 w tr ->
    follow d w hops count maxred = (w1, evs, out) -> Inv hcs0 w1 (tr ++ evs) /\ same_cfg w1 w.
Proof.
  intros Hd. induction hops as [|[r reps] rest IH]; intros w tr count maxred w1 evs out HP HI; cbn [follow].
  - intros [= <- <- <-]. rewrite app_nil_r. split; [assumption | split; reflexivity].
  - inversion HP as [|? ? Hr Hrest]; subst. cbn in Hr.
    destruct (d w r reps) as [[wa evsa] outa] eqn:Hda.
    pose proof (Hd _ _ _ _ _ _ _ Hr HI Hda) as (HIa & Hca).
    destruct outa; [|intros [= <- <- <-]; auto].
    destruct rest as [|h rest']; [intros [= <- <- <-]; auto|].
    destruct (count + 1 >? maxred)%Z; [intros [= <- <- <-]; auto|].
    destruct (follow d wa (h :: rest') (count + 1)%Z maxred) as [[wb evsb] outb] eqn:Hf.
    intros [= <- <- <-]. rewrite app_assoc.
    destruct (IH _ _ _ _ _ _ _ Hrest HIa Hf) as (X & Y). split; [exact X | destruct Y, Hca; split; congruence].
Qed.

(* histories whose requests carry the tag of the API they are submitted through *)
Definition tagged (c : call) : Prop :=
  match c with
  | CClient _ hops => Forall (fun h => r_via (fst h) = ViaClient) hops
  | CHost _ _ hops => Forall (fun h => r_via (fst h) <> ViaClient) hops
  | CLB _ h => r_via (fst h) <> ViaClient
  end.

Lemma run_call_inv hcs0 w tr c w1 evs out :
  tagged c -> Inv hcs0 w tr -> run_call w c = (w1, evs, out) -> Inv hcs0 w1 (tr ++ evs) /\ same_cfg w1 w.
Proof.
  destruct c as [maxred hops|i maxred hops|i [r reps]]; cbn [run_call tagged]; intros Ht HI H.
  - eapply (follow_inv (fun r => r_via r = ViaClient) client_do); eauto. intros; eapply client_do_inv; eauto.
  - eapply (follow_inv (fun r => r_via r <> ViaClient) (host_do i)); eauto. intros; eapply host_do_inv; eauto.
  - eapply host_do_inv; eauto.
Qed.

Lemma run_inv hcs0 : forall cs w tr w1 evs outs,
  Forall tagged cs -> Inv hcs0 w tr -> run w cs = (w1, evs, outs) -> Inv hcs0 w1 (tr ++ evs) /\ same_cfg w1 w.
Proof.
  induction cs as [|c rest IH]; intros w tr w1 evs outs Ht HI; cbn [run].
  - intros [= <- <- <-]. rewrite app_nil_r. split; [assumption | split; reflexivity].
  - inversion Ht; subst.
    destruct (run_call w c) as [[wa evsa] outa] eqn:Hc.
    destruct (run wa rest) as [[wb evsb] outsb] eqn:Hr.
    intros [= <- <- <-]. rewrite app_assoc.
    destruct (run_call_inv _ _ _ _ _ _ _ H1 HI Hc) as (HIa & Hca).
    destruct (IH _ _ _ _ _ H2 HIa Hr) as (X & Y). split; [exact X | destruct Y, Hca; split; congruence].
Qed.

Lemma init_inv cwt conf hcs0 : Inv hcs0 (init_conf cwt conf hcs0) [].
Proof.
  constructor; cbn [init_conf w_cwt w_conf w_m w_ms w_hcs w_next].
  - intros k hc [].
  - intros k hc [].
  - induction hcs0 as [|p l IH]; cbn [map]; constructor; auto. unfold hc_rel, mk_hc. cbn. repeat split. intros c [].
  - intros cid a t [].
  - intros cid a t a' t' [].
  - intros cid r [].
Qed.

Theorem trace_inv cwt conf hcs cs : Forall tagged cs ->
  exists w, Inv hcs w (trace_conf cwt conf hcs cs) /\ w_cwt w = cwt /\ w_conf w = conf.
Proof.
  intros Ht. unfold trace_conf. destruct (run (init_conf cwt conf hcs) cs) as [[w evs] outs] eqn:Hr. exists w. cbn.
  change evs with ([] ++ evs).
  destruct (run_inv hcs cs _ [] _ _ _ Ht (init_inv cwt conf hcs) Hr) as (X & Y & Z). cbn in Y, Z. auto.
Qed.

(* ConfigureClient functions that leave the address alone (they may still flip IsTLS or the timeouts, or fail) *)
Definition conf_keeps_addr (conf : confT) : Prop := forall hc hx, conf hc = Some hx -> hc_addr hx = hc_addr hc.

Lemma conf_id_keeps_addr : conf_keeps_addr conf_id.
Proof. intros hc hx [= <-]. reflexivity. Qed.

(* ---- the specification's observation of a model trace ------------------------------------------------------- *)
Definition via_clientb (r : req) : bool := match r_via r with ViaClient => true | _ => false end.
Definition obs_dials (tr : list event) : list dialrec :=
  flat_map (fun e => match e with EDial c a k => [{| d_cid := c; d_addr := a; d_tls := kind_tls k |}] | _ => [] end) tr.
Definition obs_writes (tr : list event) : list writerec :=
  flat_map (fun e => match e with
                     | EWrite c r => [{| wr_cid := c; wr_rid := r_id r; wr_scheme := r_scheme r; wr_host := r_host r;
                                         wr_via_client := via_clientb r |}]
                     | _ => [] end) tr.

Lemma obs_dials_in tr d : In d (obs_dials tr) <-> exists k, In (EDial (d_cid d) (d_addr d) k) tr /\ d_tls d = kind_tls k.
Proof.
  unfold obs_dials. rewrite in_flat_map. split.
  - intros (e & He & Hin). destruct e; cbn in Hin; try contradiction. destruct Hin as [<-|[]]. cbn. eauto.
  - intros (k & H & E). exists (EDial (d_cid d) (d_addr d) k). split; [exact H|]. left. destruct d. cbn in *. congruence.
Qed.

Lemma obs_dial_intro tr c a k : In (EDial c a k) tr -> In {| d_cid := c; d_addr := a; d_tls := kind_tls k |} (obs_dials tr).
Proof. intros H. apply obs_dials_in. exists k. cbn. auto. Qed.

Lemma obs_writes_in tr w : In w (obs_writes tr) ->
  exists r, In (EWrite (wr_cid w) r) tr /\ wr_scheme w = r_scheme r /\ wr_host w = r_host r /\ wr_via_client w = via_clientb r.
Proof.
  unfold obs_writes. rewrite in_flat_map. intros (e & He & Hin). destruct e; cbn in Hin; try contradiction.
  destruct Hin as [<-|[]]. cbn. eauto.
Qed.

(* for EVERY timeout configuration (cwt = Client.WriteTimeout != 0, each stand-alone HostClient's own flag in hcs) and EVERY
   address-preserving ConfigureClient function *)
Theorem https_only_conf cwt conf hcs cs : conf_keeps_addr conf -> Forall tagged cs ->
  https_only_on_tls (obs_dials (trace_conf cwt conf hcs cs)) (obs_writes (trace_conf cwt conf hcs cs)).
Proof.
  intros Hk Ht w Hw Hs. destruct (trace_inv cwt conf hcs cs Ht) as (wd & HI & Hc & Hcf).
  destruct (obs_writes_in _ _ Hw) as (r & Hin & Es & Eh & Ev).
  destruct (inv_writes _ _ _ HI _ _ Hin) as (addr & wt & Hd & Hv).
  rewrite isHTTPS_spec, <- Es, Hs in Hd, Hv. exists addr. split.
  - apply obs_dial_intro in Hd. rewrite kind_tls_dialAddr in Hd. exact Hd.
  - rewrite Ev. unfold via_clientb. destruct (r_via r); try discriminate. intros _.
    destruct Hv as (hx & X1 & -> & _). rewrite Hcf in X1. rewrite (Hk _ _ X1). cbn. rewrite Eh. apply AddMissingPort_spec.
Qed.

Theorem http_never_conf cwt conf hcs cs : conf_keeps_addr conf -> Forall tagged cs ->
  http_never_on_tls (obs_dials (trace_conf cwt conf hcs cs)) (obs_writes (trace_conf cwt conf hcs cs)).
Proof.
  intros Hk Ht w Hw Hs. destruct (trace_inv cwt conf hcs cs Ht) as (wd & HI & Hc & Hcf).
  destruct (obs_writes_in _ _ Hw) as (r & Hin & Es & Eh & Ev).
  destruct (inv_writes _ _ _ HI _ _ Hin) as (addr & wt & Hd & Hv).
  rewrite isHTTPS_spec, <- Es, Hs in Hd, Hv. exists addr. split.
  - apply obs_dial_intro in Hd. rewrite kind_tls_dialAddr in Hd. exact Hd.
  - rewrite Ev. unfold via_clientb. destruct (r_via r); try discriminate. intros _.
    destruct Hv as (hx & X1 & -> & _). rewrite Hcf in X1. rewrite (Hk _ _ X1). cbn. rewrite Eh. apply AddMissingPort_spec.
Qed.

(* whatever ConfigureClient does (flip IsTLS, change Addr, change timeouts, fail): the TLS flag of the connection a request is
   written to always equals the request's https-ness *)
Theorem tls_matches_any_conf cwt conf hcs cs cid r : Forall tagged cs ->
  In (EWrite cid r) (trace_conf cwt conf hcs cs) ->
  exists addr k, In (EDial cid addr k) (trace_conf cwt conf hcs cs) /\ kind_tls k = https_scheme (r_scheme r).
Proof.
  intros Ht Hin. destruct (trace_inv cwt conf hcs cs Ht) as (wd & HI & _).
  destruct (inv_writes _ _ _ HI _ _ Hin) as (addr & wt & Hd & _).
  exists addr, (dialAddr (isHTTPS (r_scheme r)) wt). split; [exact Hd | apply kind_tls_dialAddr].
Qed.

Theorem https_only cwt hcs cs : Forall tagged cs ->
  https_only_on_tls (obs_dials (trace cwt hcs cs)) (obs_writes (trace cwt hcs cs)).
Proof. apply https_only_conf, conf_id_keeps_addr. Qed.

Theorem http_never cwt hcs cs : Forall tagged cs ->
  http_never_on_tls (obs_dials (trace cwt hcs cs)) (obs_writes (trace cwt hcs cs)).
Proof. apply http_never_conf, conf_id_keeps_addr. Qed.

Theorem dials_functional cwt conf hcs cs : Forall tagged cs -> dial_functional (obs_dials (trace_conf cwt conf hcs cs)).
Proof.
  intros Ht d1 d2 H1 H2 Hc. destruct (trace_inv cwt conf hcs cs Ht) as (wd & HI & _).
  apply obs_dials_in in H1 as (k1 & H1 & E1). apply obs_dials_in in H2 as (k2 & H2 & E2). rewrite Hc in H1.
  destruct (inv_fun _ _ _ HI _ _ _ _ _ H1 H2) as [Ea Ek]. subst k2.
  destruct d1, d2. cbn in *. congruence.
Qed.

(* which branch of dialAddr produced the connection a request travelled on: the lazy tls.Client wrapper when the sending client's
   WriteTimeout is 0, the explicitly handshaked wrapper otherwise — a TLS connection in both cases, never the raw one *)
Theorem https_write_kind cwt hcs cs cid r : Forall tagged cs ->
  In (EWrite cid r) (trace cwt hcs cs) -> https_scheme (r_scheme r) = true ->
  exists (addr : bytes) (wt : bool), In (EDial cid addr (if wt then KTLSHandshaked else KTLSLazy)) (trace cwt hcs cs) /\
                  (r_via r = ViaClient -> wt = cwt) /\
                  (r_via r <> ViaClient -> exists i, nth_error hcs i = Some (addr, true, wt)).
Proof.
  intros Ht Hin Hs. destruct (trace_inv cwt conf_id hcs cs Ht) as (wd & HI & Hc & Hcf).
  destruct (inv_writes _ _ _ HI _ _ Hin) as (addr & wt & Hd & Hx).
  rewrite isHTTPS_spec, Hs in Hd, Hx. exists addr, wt. split; [destruct wt; exact Hd|].
  destruct (r_via r); split; intros Hv; try congruence; try contradiction; try exact Hx.
  destruct Hx as (hx & X1 & _ & -> & _). rewrite Hcf in X1. injection X1 as <-. cbn. exact Hc.
Qed.

(* requests that went through a stand-alone HostClient (directly, after redirects, or through the LBClient)
   were carried by a HostClient whose IsTLS equals the request's https-ness, on a connection to its Addr *)
Theorem hostclient_writes_match cwt conf hcs cs cid r : Forall tagged cs ->
  In (EWrite cid r) (trace_conf cwt conf hcs cs) -> r_via r <> ViaClient ->
  exists i addr wt, nth_error hcs i = Some (addr, https_scheme (r_scheme r), wt) /\
                    In (EDial cid addr (dialAddr (https_scheme (r_scheme r)) wt)) (trace_conf cwt conf hcs cs).
Proof.
  intros Ht Hin Hv. destruct (trace_inv cwt conf hcs cs Ht) as (wd & HI & _).
  destruct (inv_writes _ _ _ HI _ _ Hin) as (addr & wt & Hd & Hx).
  destruct (r_via r); [contradiction| |]; destruct Hx as (i & Hi); exists i, addr, wt; rewrite <- isHTTPS_spec; auto.
Qed.

(* ... and a mismatching request is refused on the spot, also in the middle of a redirect chain:
   the chain stops, nothing is dialled or written, the world is unchanged *)
Theorem host_refuses i w hc r reps rest count maxred :
  nth_error (w_hcs w) i = Some hc -> hc_tls hc <> https_scheme (r_scheme r) ->
  follow (host_do i) w ((r, reps) :: rest) count maxred =
    ({| w_cwt := w_cwt w; w_conf := w_conf w; w_m := w_m w; w_ms := w_ms w; w_hcs := set_nth i hc (w_hcs w); w_next := w_next w |},
     [ERefuse r ESchemeMismatch], OErr ESchemeMismatch).
Proof.
  intros Hn Hm. cbn [follow]. unfold host_do. rewrite Hn.
  rewrite hc_do_refuses by (rewrite isHTTPS_spec; exact Hm). reflexivity.
Qed.
