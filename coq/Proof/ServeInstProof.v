(* ServeInstProof.v — the concrete request reader of Model/ServeInst.v satisfies the framer laws. *)
From FH Require Import Model.Base Model.ReqHead Model.Body Model.Serve Model.ServeInst.
From Coq Require Import Lia.
Open Scope nat_scope.

Lemma inst_framer_ok hc bsize maxb : framer_ok (inst_framer hc bsize maxb).
Proof.
  split.
  - intros b q hn. cbn. unfold inst_fhead. destruct b as [|x b]; [discriminate|].
    destruct (req_head_parse hc (x :: b)) as [[hd n]| |e| |]; try discriminate.
    + destruct ((n =? 0) || (length (x :: b) <? n)) eqn:Hc; [discriminate|].
      intros H; injection H as <- <-. apply orb_false_iff in Hc as [H1 H2].
      apply Nat.eqb_neq in H1. apply Nat.ltb_ge in H2. lia.
    + destruct (bsize <=? N.of_nat (length (x :: b)))%N; discriminate.
  - intros q b bn. cbn. unfold inst_fbody.
    destruct (reqReadBody trailer_reject (q_cl q) maxb b) as [d rest pk|e d pk| |]; try discriminate.
    + destruct (length b <? length rest) eqn:Hc; [discriminate|]. intros H; injection H as <-. lia.
    + destruct e; discriminate.
Qed.
