(* ServeProof.v — proofs about Model/Serve.v for C10 / C14 / C17.
   Everything is proved for an arbitrary framer satisfying framer_ok, configuration and environment. *)
From FH Require Import Model.Base Gen.GenC10 Model.ConnOpt Model.Serve Spec.ServeSpec Proof.ConnOptProof.
From Coq Require Import Lia.
Open Scope nat_scope.

(* ---------- reading ---------- *)
Lemma fill1_some cs c cs' : fill1 cs = Some (c, cs') -> c <> [] /\ concat cs = c ++ concat cs'.
Proof.
  induction cs as [|x cs IH]; cbn; [discriminate|].
  destruct x as [|y x]; intros H.
  - apply IH in H. cbn. exact H.
  - injection H as <- <-. split; [discriminate|reflexivity].
Qed.

Lemma fill1_none cs : fill1 cs = None -> concat cs = [].
Proof.
  induction cs as [|x cs IH]; cbn; [reflexivity|].
  destruct x as [|y x]; [|discriminate]. intros H. cbn. auto.
Qed.

Lemma peek1_some b cs b' cs' : peek1 b cs = Some (b', cs') -> b' <> [] /\ b ++ concat cs = b' ++ concat cs'.
Proof.
  destruct b as [|x b]; cbn.
  - intros H. apply fill1_some in H. exact H.
  - intros H. injection H as <- <-. split; [discriminate|reflexivity].
Qed.

Lemma peek1_none b cs : peek1 b cs = None -> b ++ concat cs = [].
Proof.
  destruct b as [|x b]; cbn; [|discriminate]. apply fill1_none.
Qed.

Lemma fbr_chunks_some cs cs0 : fbr_chunks cs = Some cs0 -> concat cs0 = concat cs.
Proof.
  unfold fbr_chunks. destruct (fill1 cs) as [[c cs']|] eqn:H1; [|discriminate].
  apply fill1_some in H1 as [Hc H1]. rewrite H1.
  destruct c as [|x c]; [congruence|].
  destruct c as [|y c].
  - destruct (fill1 cs') as [[d cs'']|] eqn:H2; intros H; injection H as <-.
    + apply fill1_some in H2 as [_ H2]. rewrite H2. reflexivity.
    + apply fill1_none in H2. rewrite H2. reflexivity.
  - intros H; injection H as <-. reflexivity.
Qed.

Section Loop.
Variable F : framer.
Variable cfg : scfg.
Variable E : env.
Hypothesis HF : framer_ok F.

Lemma read_head_ok b cs q hn b' cs' :
  read_head F b cs = RhOk q hn b' cs' ->
  b' ++ concat cs' = b ++ concat cs /\ fhead F b' = FhOk q hn /\ 0 < hn <= length b'.
Proof.
  revert b. induction cs as [|c cs IH]; intros b; cbn.
  - destruct (fhead F b) as [q0 hn0| |e] eqn:Hh; try discriminate.
    intros H; injection H as <- <- <- <-. repeat split; auto; apply (proj1 HF) in Hh; lia.
  - destruct (fhead F b) as [q0 hn0| |e] eqn:Hh; try discriminate.
    + intros H; injection H as <- <- <- <-. repeat split; auto; apply (proj1 HF) in Hh; lia.
    + intros H. apply IH in H as (H1 & H2 & H3). cbn. rewrite H1, <- app_assoc. auto.
Qed.

Lemma read_body_ok q b cs bn b' cs' :
  read_body F q b cs = RbOk bn b' cs' ->
  b' ++ concat cs' = b ++ concat cs /\ fbody F q b' = FbOk bn /\ bn <= length b'.
Proof.
  revert b. induction cs as [|c cs IH]; intros b; cbn.
  - destruct (fbody F q b) as [bn0| |e] eqn:Hh; try discriminate.
    intros H; injection H as <- <- <-. repeat split; auto; apply (proj2 HF) in Hh; lia.
  - destruct (fbody F q b) as [bn0| |e] eqn:Hh; try discriminate.
    + intros H; injection H as <- <- <-. repeat split; auto; apply (proj2 HF) in Hh; lia.
    + intros H. apply IH in H as (H1 & H2 & H3). cbn. rewrite H1, <- app_assoc. auto.
Qed.


(* ---------- the end of the loop body ---------- *)
Ltac fr_split num q cont cc0 st0 br b dirty nr0 :=
  unfold finish_request; cbv zeta;
  destruct (h_noresp (req_hstate E num q cont st0 nr0)) eqn:Hnr,
           (h_hijack (req_hstate E num q cont st0 nr0)) eqn:Hhj,
           (close_decision cfg E num q cc0 (req_hstate E num q cont st0 nr0)) eqn:Hcc,
           cont, br, (isnil b) eqn:Hb, (reduce_mem cfg) eqn:Hrm, (stop_at_idle E num) eqn:Hst, dirty.

Notation FR num q cont cc0 st0 br fbr b cs t off dirty nr0 :=
  (finish_request cfg E num q cont cc0 st0 br fbr b cs t off dirty nr0).

Lemma fr_next num q cont cc0 st0 br fbr b cs t off dirty nr0 s' :
  (cont = false -> cc0 = true) ->
  snd (FR num q cont cc0 st0 br fbr b cs t off dirty nr0) = Next s' ->
  l_num s' = num /\ l_br s' = br /\ l_fbr s' = fbr /\ l_rd s' = {| buf := b; chunks := cs; tl := t |} /\ l_off s' = off /\
  l_dirty s' = unflushed_from dirty (fst (FR num q cont cc0 st0 br fbr b cs t off dirty nr0)) /\
  cont = true /\ l_noresp s' = false.
Proof.
  intros Hc0.
  assert (Hc : cont = false -> close_decision cfg E num q cc0 (req_hstate E num q cont st0 nr0) = true).
  { intros Hx. rewrite (Hc0 Hx). reflexivity. }
  fr_split num q cont cc0 st0 br b dirty nr0; cbn; intros H; try discriminate;
    try (specialize (Hc eq_refl); discriminate); injection H as <-; cbn; auto 10.
Qed.

Lemma fr_sts num q cont cc0 st0 br fbr b cs t off dirty nr0 :
  match snd (FR num q cont cc0 st0 br fbr b cs t off dirty nr0) with
  | Next _ => sts (fst (FR num q cont cc0 st0 br fbr b cs t off dirty nr0)) = [StIdle]
  | ExitHijack => sts (fst (FR num q cont cc0 st0 br fbr b cs t off dirty nr0)) = []
  | Exit => sts (fst (FR num q cont cc0 st0 br fbr b cs t off dirty nr0)) = [] \/
            sts (fst (FR num q cont cc0 st0 br fbr b cs t off dirty nr0)) = [StIdle]
  end.
Proof.
  fr_split num q cont cc0 st0 br b dirty nr0; cbn; auto.
Qed.

Definition no_active (l : list event) : bool :=
  forallb (fun e => match e with St StActive => false | _ => true end) l.

Lemma fr_no_active num q cont cc0 st0 br fbr b cs t off dirty nr0 :
  no_active (fst (FR num q cont cc0 st0 br fbr b cs t off dirty nr0)) = true.
Proof.
  fr_split num q cont cc0 st0 br b dirty nr0; cbn; auto.
Qed.

(* hijack: nothing is left unflushed; the response (unless suppressed) precedes; the reader handed over holds b, cs *)
Lemma fr_hijack num q cont cc0 st0 br fbr b cs t off dirty nr0 :
  snd (FR num q cont cc0 st0 br fbr b cs t off dirty nr0) = ExitHijack ->
  let pre := removelast (fst (FR num q cont cc0 st0 br fbr b cs t off dirty nr0)) in
  fst (FR num q cont cc0 st0 br fbr b cs t off dirty nr0) = pre ++ [HijackEv (hj_src_of br fbr) b cs] /\
  unflushed_from dirty pre = false /\
  forallb (fun e => negb (is_hijack_ev e)) pre = true /\
  cont = true /\ h_hijack (req_hstate E num q cont st0 nr0) = true /\
  (h_noresp (req_hstate E num q cont st0 nr0) = false ->
     In (Resp (resp_of num q cont (req_hstate E num q cont st0 nr0) false)) pre) /\
  In (Dispatch num q) pre.
Proof.
  assert (Hc : cont = false -> h_hijack (req_hstate E num q cont st0 nr0) = false).
  { intros ->. reflexivity. }
  fr_split num q cont cc0 st0 br b dirty nr0; cbn; intros H; try discriminate;
    try (specialize (Hc eq_refl); discriminate); repeat split; auto; try discriminate.
Qed.


(* ---------- one iteration, decomposed ---------- *)
Lemma skipn_app_le {A} n (l1 l2 : list A) : n <= length l1 -> skipn n (l1 ++ l2) = skipn n l1 ++ l2.
Proof.
  intros H. rewrite skipn_app. replace (n - length l1) with 0 by lia. reflexivity.
Qed.

Lemma skipn_skipn' {A} x y (l : list A) : skipn x (skipn y l) = skipn (y + x) l.
Proof.
  revert l. induction y as [|y IH]; intros l; cbn; [reflexivity|].
  destruct l; [now rewrite skipn_nil|]. apply IH.
Qed.

Lemma release_rule_spec b fbr :
  exists br' fbr', release_rule cfg b fbr = (br', fbr', b) /\ (br' = false -> b = []) /\ (br' = true -> fbr' = fbr).
Proof.
  unfold release_rule. destruct (negb (stream_body cfg) && reduce_mem cfg && isnil b) eqn:Hc.
  - destruct b as [|x b]; [|rewrite !andb_false_r in Hc; discriminate].
    exists false, false. split; [reflexivity|]. split; [reflexivity|discriminate].
  - exists true, fbr. split; [reflexivity|]. split; [discriminate|reflexivity].
Qed.

Lemma first_byte_got s b0 cs0 fbr :
  (l_br s = false -> buf (l_rd s) = []) ->
  first_byte cfg s = FbGot b0 cs0 fbr ->
  b0 <> [] /\ b0 ++ concat cs0 = remaining (l_rd s).
Proof.
  intros Hbr. unfold first_byte. cbv zeta.
  destruct (negb (reduce_mem cfg) || l_br s) eqn:Hc.
  - destruct (peek1 (buf (l_rd s)) (chunks (l_rd s))) as [[b cs]|] eqn:Hp.
    + intros H; injection H as <- <- <-. apply peek1_some in Hp as [H1 H2]. split; auto.
    + destruct (tl (l_rd s)); [discriminate|]. destruct (1 <? l_num s + 1)%N; discriminate.
  - apply orb_false_iff in Hc as [_ Hc]. specialize (Hbr Hc).
    destruct (fbr_chunks (chunks (l_rd s))) as [cs1|] eqn:Hfc; [|discriminate].
    destruct (peek1 [] cs1) as [[b cs]|] eqn:Hp; [|discriminate].
    intros H; injection H as <- <- <-. apply peek1_some in Hp as [H1 H2]. split; auto.
    rewrite <- H2. cbn. apply fbr_chunks_some in Hfc. rewrite Hfc. unfold remaining. rewrite Hbr. reflexivity.
Qed.

(* what an iteration does after the prelude [fl ++ mid]: *)
Definition iter_tail (s : lst) (S : bytes) (fbr0 : bool) (d0 : bool) (mid tailev : list event) (r : iter_end) : Prop :=
  (r = Exit /\ mid = [] /\ tailev = if d0 then [Drop] else [])
  \/ (r = Exit /\ exists e, tailev = [Resp (err_resp e); Flush])
  \/ exists q cont cc0 st0 br fbr b cs off,
       tailev = fst (FR (l_num s + 1)%N q cont cc0 st0 br fbr b cs (tl (l_rd s)) off (unflushed_from d0 mid) (l_noresp s)) /\
       r = snd (FR (l_num s + 1)%N q cont cc0 st0 br fbr b cs (tl (l_rd s)) off (unflushed_from d0 mid) (l_noresp s)) /\
       (cont = false -> cc0 = true) /\ (fbr = true -> fbr0 = true) /\ (cont = true -> st0 = StatusOK /\ cc0 = false) /\
       (cont = true -> exists k, framed F S q k /\ b ++ concat cs = skipn k S /\ 0 < k <= length S /\
                                 off = l_off s + k /\ (br = false -> b = [])).

Lemma after_head_spec s S fbr dirty q hn p1 b2 cs1 evs r :
  is_prefix p1 S -> fhead F p1 = FhOk q hn -> 0 < hn <= length S ->
  b2 ++ concat cs1 = skipn hn S ->
  after_head F cfg E s fbr dirty q hn b2 cs1 = (evs, r) ->
  exists mid tailev, evs = mid ++ tailev /\ (mid = [] \/ mid = [Resp continue_resp; Flush]) /\
                     iter_tail s S fbr dirty mid tailev r.
Proof.
  intros Hp1 Hh Hhn Hb2. unfold after_head. cbv zeta.
  destruct (release_rule_spec b2 fbr) as (br & fbr' & Hrr & Hrr1 & Hrr2).
  assert (Hbody : forall b3 bn b4 cs4 fbr0 d evs0 r0 mid,
            read_body F q b3 cs1 = RbOk bn b4 cs4 -> b3 = b2 ->
            (let '(br2, fbr2, b6) := release_rule cfg (skipn bn b4) fbr0 in
             finish_request cfg E (l_num s + 1)%N q true false StatusOK br2 fbr2 b6 cs4 (tl (l_rd s)) (l_off s + hn + bn) d (l_noresp s)) = (evs0, r0) ->
            d = unflushed_from dirty mid -> (fbr0 = true -> fbr = true) ->
            iter_tail s S fbr dirty mid evs0 r0).
  { intros b3 bn b4 cs4 fbr0 d evs0 r0 mid Hrb -> Hfr Hd Hfb.
    apply read_body_ok in Hrb as (H1 & H2 & H3).
    destruct (release_rule_spec (skipn bn b4) fbr0) as (br2 & fbr2 & Hr2 & Hr3 & Hr4). rewrite Hr2 in Hfr.
    right. right. exists q, true, false, StatusOK, br2, fbr2, (skipn bn b4), cs4, (l_off s + hn + bn).
    subst d. rewrite Hfr. cbn. repeat split; try discriminate.
    { intros Hx. destruct br2.
      - apply Hfb. rewrite <- (Hr4 eq_refl). exact Hx.
      - unfold release_rule in Hr2.
        destruct (negb (stream_body cfg) && reduce_mem cfg && isnil (skipn bn b4)); congruence. }
    intros _. exists (hn + bn).
    assert (Hlen : bn <= length (skipn hn S)).
    { rewrite <- Hb2, <- H1, app_length. lia. }
    rewrite skipn_length in Hlen.
    repeat split; try lia; auto.
    - exists p1, hn, b4, bn. repeat split; auto. exists (concat cs4). rewrite <- Hb2, <- H1. reflexivity.
    - rewrite <- skipn_app_le by exact H3. rewrite H1, Hb2, skipn_skipn'. reflexivity.
  }
  destruct (q_expect q).
  - rewrite Hrr.
    assert (Hgo : forall evs0 r0,
      match read_body F q b2 cs1 with
      | RbOk bn b4 cs4 =>
          let '(br2, fbr2, b6) := release_rule cfg (skipn bn b4) (br && fbr') in
          ([Resp continue_resp; Flush] ++ fst (finish_request cfg E (l_num s + 1)%N q true false StatusOK br2 fbr2 b6 cs4 (tl (l_rd s)) (l_off s + hn + bn) false (l_noresp s)),
           snd (finish_request cfg E (l_num s + 1)%N q true false StatusOK br2 fbr2 b6 cs4 (tl (l_rd s)) (l_off s + hn + bn) false (l_noresp s)))
      | RbErr e => ([Resp continue_resp; Flush] ++ fst (error_exit e), Exit)
      | RbEnd b' => ([Resp continue_resp; Flush] ++ fst (error_exit (match body_end F q b' (tl (l_rd s)) with Some e => e | None => EcOther end)), Exit)
      end = (evs0, r0) ->
      exists mid tailev, evs0 = mid ++ tailev /\ (mid = [] \/ mid = [Resp continue_resp; Flush]) /\ iter_tail s S fbr dirty mid tailev r0).
    { intros evs0 r0. destruct (read_body F q b2 cs1) as [bn b4 cs4|e|b'] eqn:Hrb.
      - destruct (release_rule cfg (skipn bn b4) (br && fbr')) as [[br2 fbr2] b6] eqn:Hr2.
        intros H; injection H as <- <-.
        exists [Resp continue_resp; Flush]. eexists. split; [reflexivity|]. split; [auto|].
        eapply Hbody with (fbr0 := br && fbr') (d := false); eauto.
        { rewrite Hr2. apply surjective_pairing. }
        { intros Hx. apply andb_true_iff in Hx as [Hx1 Hx2]. rewrite <- (Hrr2 Hx1). exact Hx2. }
      - intros H; injection H as <- <-. exists [Resp continue_resp; Flush]. eexists. split; [reflexivity|]. split; [auto|].
        right. left. split; auto. eexists; reflexivity.
      - intros H; injection H as <- <-. exists [Resp continue_resp; Flush]. eexists. split; [reflexivity|]. split; [auto|].
        right. left. split; auto. eexists; reflexivity. }
    assert (Hrej : forall st evs0 r0,
      finish_request cfg E (l_num s + 1)%N q false true st br fbr' [] cs1 (tl (l_rd s)) (l_off s + hn) dirty (l_noresp s) = (evs0, r0) ->
      exists mid tailev, evs0 = mid ++ tailev /\ (mid = [] \/ mid = [Resp continue_resp; Flush]) /\ iter_tail s S fbr dirty mid tailev r0).
    { intros st evs0 r0 Hfr. exists [], evs0. split; [reflexivity|]. split; [auto|].
      right. right. exists q, false, true, st, br, fbr', [], cs1, (l_off s + hn).
      change (unflushed_from dirty []) with dirty. rewrite Hfr.
      repeat split; auto; try discriminate.
      intros Hx. destruct br.
      - rewrite <- (Hrr2 eq_refl). exact Hx.
      - unfold release_rule in Hrr.
        destruct (negb (stream_body cfg) && reduce_mem cfg && isnil b2); congruence. }
    destruct (xmode cfg).
    + apply Hgo.
    + destruct (Z.eqb (expect_status E (l_num s + 1)%N q) StatusContinue); [apply Hgo|apply Hrej].
    + destruct (continue_ok E (l_num s + 1)%N q); [apply Hgo|apply Hrej].
  - destruct (read_body F q b2 cs1) as [bn b3 cs3|e|b'] eqn:Hrb.
    + intros Hfr. exists [], evs. split; [reflexivity|]. split; [auto|].
      eapply Hbody with (fbr0 := fbr) (d := dirty); eauto.
    + intros H; injection H as <- <-. exists [], [Resp (err_resp e); Flush]. split; [reflexivity|]. split; [auto|].
      right. left. split; auto. eexists; reflexivity.
    + destruct (body_end F q b' (tl (l_rd s))) as [e|]; intros H; injection H as <- <-.
      * exists [], [Resp (err_resp e); Flush]. split; [reflexivity|]. split; [auto|].
        right. left. split; auto. eexists; reflexivity.
      * exists [], (if dirty then [Drop] else []). split; [reflexivity|]. split; [auto|]. left. auto.
Qed.


Lemma serve_req_spec s b0 cs0 fbr evs r :
  b0 ++ concat cs0 = remaining (l_rd s) ->
  serve_req F cfg E s b0 cs0 fbr = (evs, r) ->
  exists fl mid tailev,
    evs = fl ++ mid ++ tailev /\ (fl = [] \/ (fl = [Flush] /\ l_dirty s = true)) /\
    (mid = [] \/ mid = [Resp continue_resp; Flush]) /\
    iter_tail s (remaining (l_rd s)) fbr (unflushed_from (l_dirty s) fl) mid tailev r.
Proof.
  intros HS. unfold serve_req. cbv zeta.
  set (need0 := match fhead F b0 with FhMore => true | _ => false end).
  set (fl := if l_dirty s && need0 then [Flush] else []).
  assert (Hfl : fl = [] \/ (fl = [Flush] /\ l_dirty s = true)).
  { unfold fl. destruct (l_dirty s), need0; cbn; auto. }
  assert (Hd : l_dirty s && negb need0 = unflushed_from (l_dirty s) fl).
  { unfold fl. destruct (l_dirty s), need0; reflexivity. }
  rewrite Hd.
  destruct (read_head F b0 cs0) as [q hn b1 cs1|e|b'] eqn:Hrh.
  - apply read_head_ok in Hrh as (H1 & H2 & H3).
    destruct (after_head F cfg E s fbr (unflushed_from (l_dirty s) fl) q hn (skipn hn b1) cs1) as [evs0 r0] eqn:Hah.
    intros H; injection H as <- <-.
    eapply after_head_spec with (S := remaining (l_rd s)) (p1 := b1) in Hah; eauto.
    + destruct Hah as (mid & tailev & -> & Hmid & Ht). exists fl, mid, tailev. auto.
    + exists (concat cs1). rewrite H1, HS. reflexivity.
    + rewrite <- HS, <- H1, app_length. lia.
    + rewrite <- skipn_app_le by lia. rewrite H1, HS. reflexivity.
  - intros H; injection H as <- <-. exists fl, [], [Resp (err_resp e); Flush]. repeat split; auto.
    right. left. split; auto. eexists; reflexivity.
  - destruct (head_end F b' (tl (l_rd s))) as [e|]; intros H; injection H as <- <-.
    + exists fl, [], [Resp (err_resp e); Flush]. repeat split; auto. right. left. split; auto. eexists; reflexivity.
    + exists fl, [], (if unflushed_from (l_dirty s) fl then [Drop] else []). repeat split; auto. left. auto.
Qed.

Definition linv (s : lst) : Prop := (l_br s = false -> buf (l_rd s) = []) /\ l_noresp s = false.

Lemma iter_decomp s evs r :
  linv s ->
  serve_iter F cfg E s = (evs, r) ->
  (r = Exit /\ evs = (if l_dirty s then [Drop] else []))
  \/ (r = Exit /\ evs = [Resp (err_resp EcTimeout); Flush])
  \/ exists avail fl mid tailev,
       evs = St StActive :: ParseAt (l_off s) avail :: fl ++ mid ++ tailev /\
       1 <= avail <= length (remaining (l_rd s)) /\
       (fl = [] \/ (fl = [Flush] /\ l_dirty s = true)) /\ (mid = [] \/ mid = [Resp continue_resp; Flush]) /\
       exists fbr0, (fbr0 = true -> reduce_mem cfg = true \/ l_fbr s = true) /\
       iter_tail s (remaining (l_rd s)) fbr0 (unflushed_from (l_dirty s) fl) mid tailev r.
Proof.
  intros Hinv. unfold serve_iter.
  destruct (first_byte cfg s) as [b0 cs0 fbr| |] eqn:Hfb.
  - destruct (gone_at_start E (l_num s + 1)%N); [intros H; injection H as <- <-; left; auto|].
    assert (Hfbr : fbr = true -> reduce_mem cfg = true \/ l_fbr s = true).
    { revert Hfb. unfold first_byte. cbv zeta. destruct (negb (reduce_mem cfg) || l_br s) eqn:Hc.
      - destruct (peek1 (buf (l_rd s)) (chunks (l_rd s))) as [[b cs]|].
        + intros H; injection H as <- <- <-. auto.
        + destruct (tl (l_rd s)); [discriminate|]. destruct (1 <? l_num s + 1)%N; discriminate.
      - apply orb_false_iff in Hc as [Hc _]. apply negb_false_iff in Hc. auto. }
    apply first_byte_got in Hfb as [Hne HS]; [|exact (proj1 Hinv)].
    destruct (serve_req F cfg E s b0 cs0 fbr) as [evs0 r0] eqn:Hsr.
    intros H; injection H as <- <-. right. right.
    apply serve_req_spec in Hsr as (fl & mid & tailev & -> & H1 & H2 & H3); [|exact HS].
    exists (length b0), fl, mid, tailev. repeat split; auto.
    + destruct b0; [congruence|cbn; lia].
    + rewrite <- HS, app_length. lia.
    + exists fbr. auto.
  - intros H; injection H as <- <-. left. auto.
  - intros H; injection H as <- <-. right. left. auto.
Qed.


(* ---------- facts about trace functions ---------- *)
Lemma sts_app a b : sts (a ++ b) = sts a ++ sts b.
Proof. induction a as [|x a IH]; cbn; [reflexivity|]. destruct x; cbn; rewrite ?IH; reflexivity. Qed.

Lemma unflushed_app d a b : unflushed_from d (a ++ b) = unflushed_from (unflushed_from d a) b.
Proof. revert d. induction a as [|x a IH]; intros d; cbn; [reflexivity|]. destruct x; apply IH. Qed.

Lemma no_active_app a b : no_active (a ++ b) = no_active a && no_active b.
Proof. unfold no_active. apply forallb_app. Qed.

Lemma active_skip total a b : no_active a = true -> active_has_byte total (a ++ b) = active_has_byte total b.
Proof.
  induction a as [|x a IH]; cbn; [reflexivity|]. intros H. apply andb_true_iff in H as [H1 H2].
  destruct x as [st| | | | | | | | |]; auto. destruct st; auto. discriminate.
Qed.

(* ---------- what one iteration guarantees ---------- *)
Definition sinv (S0 : bytes) (s : lst) : Prop :=
  remaining (l_rd s) = skipn (l_off s) S0 /\ l_off s <= length S0.

Lemma fl_mid_facts fl mid (d : bool) :
  (fl = [] \/ (fl = [Flush] /\ d = true)) -> (mid = [] \/ mid = [Resp continue_resp; Flush]) ->
  sts fl = [] /\ sts mid = [] /\ no_active fl = true /\ no_active mid = true.
Proof. intros [->|[-> _]] [->| ->]; cbn; auto. Qed.

Lemma iter_next s evs s' :
  linv s -> serve_iter F cfg E s = (evs, Next s') ->
  linv s' /\ l_num s' = (l_num s + 1)%N /\
  (exists k, 0 < k <= length (remaining (l_rd s)) /\ remaining (l_rd s') = skipn k (remaining (l_rd s)) /\
             l_off s' = l_off s + k) /\
  l_dirty s' = unflushed_from (l_dirty s) evs /\ sts evs = [StActive; StIdle] /\
  (l_fbr s' = true -> reduce_mem cfg = true \/ l_fbr s = true).
Proof.
  intros Hinv Hrun. apply iter_decomp in Hrun; [|exact Hinv].
  destruct Hrun as [[H _]|[[H _]|Hrun]]; try discriminate.
  destruct Hrun as (avail & fl & mid & tailev & -> & Hav & Hfl & Hmid & fbr0 & Hfbr0 & Ht).
  destruct (fl_mid_facts _ _ _ Hfl Hmid) as (S1 & S2 & _ & _).
  destruct Ht as [[H _]|[[H _]|Ht]]; try discriminate.
  destruct Ht as (q & cont & cc0 & st0 & br & fbr & b & cs & off & -> & Hr & Hc0 & Hfb & Hst0 & Hk).
  symmetry in Hr. pose proof (fr_sts (l_num s + 1)%N q cont cc0 st0 br fbr b cs (tl (l_rd s)) off
     (unflushed_from (unflushed_from (l_dirty s) fl) mid) (l_noresp s)) as Hsts. rewrite Hr in Hsts.
  apply fr_next in Hr as (N1 & N2 & N3 & N4 & N5 & N6 & N7 & N8); [|exact Hc0].
  destruct (Hk N7) as (k & _ & Hk2 & Hk3 & Hk4 & Hk5).
  repeat split.
  - unfold linv. rewrite N2, N4. cbn. exact Hk5.
  - exact N8.
  - exact N1.
  - exists k. split; [exact Hk3|]. rewrite N4, N5. unfold remaining at 1. cbn. auto.
  - rewrite N6. cbn. rewrite !unflushed_app. reflexivity.
  - cbn. rewrite !sts_app, S1, S2, Hsts. reflexivity.
  - rewrite N3. intros Hx. auto.
Qed.


Lemma iter_sts s evs r :
  linv s -> serve_iter F cfg E s = (evs, r) ->
  match r with
  | Next _ => sts evs = [StActive; StIdle]
  | ExitHijack => sts evs = [StActive]
  | Exit => sts evs = [] \/ sts evs = [StActive] \/ sts evs = [StActive; StIdle]
  end.
Proof.
  intros Hinv Hrun. apply iter_decomp in Hrun; [|exact Hinv].
  destruct Hrun as [[-> ->]|[[-> ->]|Hrun]].
  - left. destruct (l_dirty s); reflexivity.
  - left. reflexivity.
  - destruct Hrun as (avail & fl & mid & tailev & -> & Hav & Hfl & Hmid & fbr0 & Hfbr0 & Ht).
    destruct (fl_mid_facts _ _ _ Hfl Hmid) as (S1 & S2 & _ & _).
    cbn. rewrite !sts_app, S1, S2. cbn.
    destruct Ht as [(-> & _ & ->)|[(-> & e & ->)|Ht]].
    + right. left. destruct (unflushed_from (l_dirty s) fl); reflexivity.
    + right. left. reflexivity.
    + destruct Ht as (q & cont & cc0 & st0 & br & fbr & b & cs & off & -> & -> & _).
      pose proof (fr_sts (l_num s + 1)%N q cont cc0 st0 br fbr b cs (tl (l_rd s)) off
                    (unflushed_from (unflushed_from (l_dirty s) fl) mid) (l_noresp s)) as Hsts.
      destruct (snd (FR (l_num s + 1)%N q cont cc0 st0 br fbr b cs (tl (l_rd s)) off
                    (unflushed_from (unflushed_from (l_dirty s) fl) mid) (l_noresp s))).
      * rewrite Hsts. reflexivity.
      * destruct Hsts as [-> | ->]; auto.
      * rewrite Hsts. reflexivity.
Qed.

Lemma iter_active S0 s evs r rest :
  linv s -> sinv S0 s -> serve_iter F cfg E s = (evs, r) ->
  active_has_byte (length S0) (evs ++ rest) = active_has_byte (length S0) rest.
Proof.
  intros Hinv [Hs1 Hs2] Hrun. apply iter_decomp in Hrun; [|exact Hinv].
  destruct Hrun as [[-> ->]|[[-> ->]|Hrun]].
  - destruct (l_dirty s); reflexivity.
  - reflexivity.
  - destruct Hrun as (avail & fl & mid & tailev & -> & Hav & Hfl & Hmid & fbr0 & Hfbr0 & Ht).
    destruct (fl_mid_facts _ _ _ Hfl Hmid) as (_ & _ & A1 & A2).
    assert (Hna : no_active (fl ++ mid ++ tailev) = true).
    { rewrite !no_active_app, A1, A2. cbn.
      destruct Ht as [(-> & _ & ->)|[(-> & e & ->)|Ht]].
      - destruct (unflushed_from (l_dirty s) fl); reflexivity.
      - reflexivity.
      - destruct Ht as (q & cont & cc0 & st0 & br & fbr & b & cs & off & -> & _). apply fr_no_active. }
    cbn [app active_has_byte].
    assert (Hle : (1 <=? avail) = true) by (apply Nat.leb_le; lia).
    assert (Hle2 : (l_off s + avail <=? length S0) = true).
    { apply Nat.leb_le. rewrite Hs1, skipn_length in Hav. lia. }
    rewrite Hle, Hle2. cbn [andb].
    change (ParseAt (l_off s) avail :: (fl ++ mid ++ tailev) ++ rest)
      with ((ParseAt (l_off s) avail :: fl ++ mid ++ tailev) ++ rest).
    apply active_skip. cbn. exact Hna.
Qed.

(* ---------- the loop ---------- *)
Lemma sinv_next S0 s s' k :
  sinv S0 s -> 0 < k <= length (remaining (l_rd s)) -> remaining (l_rd s') = skipn k (remaining (l_rd s)) ->
  l_off s' = l_off s + k -> sinv S0 s'.
Proof.
  intros [H1 H2] Hk Hr Ho. split.
  - rewrite Hr, H1, skipn_skipn', Ho. reflexivity.
  - rewrite H1, skipn_length in Hk. lia.
Qed.

Lemma loop_fuel fuel s :
  linv s -> length (remaining (l_rd s)) < fuel -> snd (serve_loop F cfg E fuel s) <> LOutOfFuel.
Proof.
  revert s. induction fuel as [|f IH]; intros s Hinv Hlen; [lia|].
  cbn. destruct (serve_iter F cfg E s) as [e1 r] eqn:Hit.
  destruct r as [s'| |]; cbn; try discriminate.
  apply iter_next in Hit as (I1 & _ & (k & Hk & Hr & _) & _); [|exact Hinv].
  specialize (IH s' I1). destruct (serve_loop F cfg E f s') as [e2 r2]. cbn in *. apply IH.
  rewrite Hr, skipn_length. lia.
Qed.

(* C14: from automaton state ANew or AIdle the loop's reports followed by the caller's lead to ADone *)
Lemma loop_lang fuel s a :
  linv s -> (a = ANew \/ a = AIdle) ->
  snd (serve_loop F cfg E fuel s) <> LOutOfFuel ->
  arun a (sts (fst (serve_loop F cfg E fuel s) ++ after_loop cfg (snd (serve_loop F cfg E fuel s)))) = ADone.
Proof.
  revert s a. induction fuel as [|f IH]; intros s a Hinv Ha; cbn; [congruence|].
  destruct (serve_iter F cfg E s) as [e1 r] eqn:Hit.
  pose proof (iter_sts _ _ _ Hinv Hit) as Hs.
  destruct r as [s'| |].
  - apply iter_next in Hit as (I1 & _); [|exact Hinv].
    specialize (IH s' AIdle I1 (or_intror eq_refl)).
    destruct (serve_loop F cfg E f s') as [e2 r2]. cbn in *. intros Hne.
    rewrite <- app_assoc, sts_app, Hs. unfold arun in *. rewrite fold_left_app.
    destruct Ha as [-> | ->]; cbn; apply IH; exact Hne.
  - cbn. intros _. rewrite sts_app. cbn.
    destruct Hs as [-> |[-> | ->]]; destruct Ha as [-> | ->]; reflexivity.
  - cbn. intros _. rewrite sts_app, Hs. destruct (keep_hijacked cfg); destruct Ha as [-> | ->]; reflexivity.
Qed.

Lemma loop_active S0 fuel s rest :
  linv s -> sinv S0 s ->
  active_has_byte (length S0) (fst (serve_loop F cfg E fuel s) ++ rest) = active_has_byte (length S0) rest.
Proof.
  revert s. induction fuel as [|f IH]; intros s Hinv Hsinv; cbn; [reflexivity|].
  destruct (serve_iter F cfg E s) as [e1 r] eqn:Hit.
  pose proof (iter_active S0 s e1 r) as Ha.
  destruct r as [s'| |]; cbn; try (apply Ha; auto).
  apply iter_next in Hit as Hn; [|exact Hinv]. destruct Hn as (I1 & _ & (k & Hk & Hr & Ho) & _).
  specialize (IH s' I1 (sinv_next _ _ _ _ Hsinv Hk Hr Ho)).
  destruct (serve_loop F cfg E f s') as [e2 r2]. cbn in *.
  rewrite <- app_assoc. rewrite Ha by auto. apply IH.
Qed.


(* ---------- C17: hijacking ---------- *)
Definition no_hijack (l : list event) : bool := forallb (fun e => negb (is_hijack_ev e)) l.

Lemma no_hijack_app a b : no_hijack (a ++ b) = no_hijack a && no_hijack b.
Proof. apply forallb_app. Qed.

Lemma fr_nohijack num q cont cc0 st0 br fbr b cs t off dirty nr0 :
  snd (FR num q cont cc0 st0 br fbr b cs t off dirty nr0) <> ExitHijack ->
  no_hijack (fst (FR num q cont cc0 st0 br fbr b cs t off dirty nr0)) = true.
Proof.
  fr_split num q cont cc0 st0 br b dirty nr0; cbn; auto; congruence.
Qed.

(* what is known at the moment the hijack handler is started *)
Record hijack_facts (S0 : bytes) (d0 : bool) (pre : list event) (src : hj_src) (hb : bytes) (hcs : list bytes) : Prop := {
  hf_nohj : no_hijack pre = true;
  hf_flushed : unflushed_from d0 pre = false;
  hf_req : exists num q off k,
      In (Dispatch num q) pre /\ framed F (skipn off S0) q k /\
      hb ++ concat hcs = skipn (off + k) S0 /\ off + k <= length S0 /\
      h_hijack (req_hstate E num q true StatusOK false) = true /\
      (h_noresp (req_hstate E num q true StatusOK false) = false ->
         In (Resp (resp_of num q true (req_hstate E num q true StatusOK false) false)) pre);
  hf_conn : src = HjConn -> hb = []
}.

Lemma iter_nohijack s evs r :
  linv s -> serve_iter F cfg E s = (evs, r) -> r <> ExitHijack -> no_hijack evs = true.
Proof.
  intros Hinv Hrun Hr. apply iter_decomp in Hrun; [|exact Hinv].
  destruct Hrun as [[-> ->]|[[-> ->]|Hrun]].
  - destruct (l_dirty s); reflexivity.
  - reflexivity.
  - destruct Hrun as (avail & fl & mid & tailev & -> & Hav & Hfl & Hmid & fbr0 & Hfbr0 & Ht).
    assert (H1 : no_hijack fl = true) by (destruct Hfl as [->|[-> _]]; reflexivity).
    assert (H2 : no_hijack mid = true) by (destruct Hmid as [->| ->]; reflexivity).
    cbn. fold (no_hijack (fl ++ mid ++ tailev)). rewrite !no_hijack_app, H1, H2. cbn.
    destruct Ht as [(-> & _ & ->)|[(-> & e & ->)|Ht]].
    + destruct (unflushed_from (l_dirty s) fl); reflexivity.
    + reflexivity.
    + destruct Ht as (q & cont & cc0 & st0 & br & fbr & b & cs & off & -> & -> & _). apply fr_nohijack. exact Hr.
Qed.

Lemma iter_hijack S0 s evs :
  linv s -> sinv S0 s -> serve_iter F cfg E s = (evs, ExitHijack) ->
  exists pre src hb hcs, evs = pre ++ [HijackEv src hb hcs] /\ hijack_facts S0 (l_dirty s) pre src hb hcs /\
                         (src = HjBrFbr -> reduce_mem cfg = true \/ l_fbr s = true).
Proof.
  intros Hinv [Hs1 Hs2] Hrun. apply iter_decomp in Hrun; [|exact Hinv].
  destruct Hrun as [[H _]|[[H _]|Hrun]]; try discriminate.
  destruct Hrun as (avail & fl & mid & tailev & -> & Hav & Hfl & Hmid & fbr0 & Hfbr0 & Ht).
  destruct Ht as [[H _]|[[H _]|Ht]]; try discriminate.
  destruct Ht as (q & cont & cc0 & st0 & br & fbr & b & cs & off & -> & Hr & Hc0 & Hfb & Hst0 & Hk).
  pose proof (proj2 Hinv) as Hnr0. rewrite Hnr0 in Hr. rewrite Hnr0.
  symmetry in Hr. apply fr_hijack in Hr as (R1 & R2 & R3 & R4 & R5 & R6 & R7).
  destruct (Hst0 R4) as [-> ->]. destruct (Hk R4) as (k & K1 & K2 & K3 & K4 & K5). subst cont.
  set (d := unflushed_from (unflushed_from (l_dirty s) fl) mid) in *.
  set (pre0 := removelast (fst (FR (l_num s + 1)%N q true false StatusOK br fbr b cs (tl (l_rd s)) off d false))) in *.
  exists (St StActive :: ParseAt (l_off s) avail :: fl ++ mid ++ pre0), (hj_src_of br fbr), b, cs.
  split.
  - rewrite R1. cbn. rewrite <- !app_assoc. reflexivity.
  - split.
    + assert (H1 : no_hijack fl = true) by (destruct Hfl as [->|[-> _]]; reflexivity).
      assert (H2 : no_hijack mid = true) by (destruct Hmid as [->| ->]; reflexivity).
      constructor.
      * cbn. fold (no_hijack (fl ++ mid ++ pre0)). rewrite !no_hijack_app, H1, H2. exact R3.
      * cbn. rewrite !unflushed_app. exact R2.
      * exists (l_num s + 1)%N, q, (l_off s), k. repeat split.
        -- right. right. rewrite !in_app_iff. right. right. exact R7.
        -- rewrite <- Hs1. exact K1.
        -- rewrite K2, Hs1, skipn_skipn'. reflexivity.
        -- rewrite Hs1, skipn_length in K3. lia.
        -- exact R5.
        -- intros Hn. right. right. rewrite !in_app_iff. right. right. apply R6. exact Hn.
      * unfold hj_src_of. destruct br; [destruct fbr; discriminate|]. intros _. apply K5. reflexivity.
    + unfold hj_src_of. destruct br; [|discriminate]. destruct fbr; [|discriminate]. intros _. apply Hfbr0, Hfb. reflexivity.
Qed.

Lemma loop_hijack S0 fuel s :
  linv s -> sinv S0 s -> (l_fbr s = true -> reduce_mem cfg = true) ->
  snd (serve_loop F cfg E fuel s) = LHijack ->
  exists pre src hb hcs,
    fst (serve_loop F cfg E fuel s) = pre ++ [HijackEv src hb hcs] /\
    hijack_facts S0 (l_dirty s) pre src hb hcs /\ (src = HjBrFbr -> reduce_mem cfg = true).
Proof.
  revert s. induction fuel as [|f IH]; intros s Hinv Hsinv Hfbr; cbn; [discriminate|].
  destruct (serve_iter F cfg E s) as [e1 r] eqn:Hit.
  destruct r as [s'| |]; cbn; try discriminate.
  - pose proof (iter_nohijack _ _ _ Hinv Hit) as Hnh.
    apply iter_next in Hit as (I1 & _ & (k & Hk & Hr & Ho) & Hd & _ & Hf); [|exact Hinv].
    specialize (IH s' I1 (sinv_next _ _ _ _ Hsinv Hk Hr Ho)).
    destruct (serve_loop F cfg E f s') as [e2 r2]. cbn in *. intros Hh.
    destruct IH as (pre & src & hb & hcs & -> & [F1 F2 F3 F4] & F5); auto.
    { intros Hx. destruct (Hf Hx); auto. }
    exists (e1 ++ pre), src, hb, hcs. split; [rewrite app_assoc; reflexivity|]. split; [|exact F5].
    constructor.
    + rewrite no_hijack_app, Hnh, F1 by discriminate. reflexivity.
    + rewrite unflushed_app, <- Hd. exact F2.
    + destruct F3 as (num & q & off & k0 & G1 & G2 & G3 & G4 & G5 & G6).
      exists num, q, off, k0. repeat split; auto.
      * apply in_or_app. right. exact G1.
      * intros Hn. apply in_or_app. right. apply G6. exact Hn.
    + exact F4.
  - intros _. apply iter_hijack with (S0 := S0) in Hit as (pre & src & hb & hcs & -> & Hf & Hs); auto.
    exists pre, src, hb, hcs. split; [reflexivity|]. split; [exact Hf|]. intros Hx. destruct (Hs Hx); auto.
Qed.

Lemma loop_exit_nohijack fuel s :
  linv s -> snd (serve_loop F cfg E fuel s) <> LHijack -> no_hijack (fst (serve_loop F cfg E fuel s)) = true.
Proof.
  revert s. induction fuel as [|f IH]; intros s Hinv; cbn; [reflexivity|].
  destruct (serve_iter F cfg E s) as [e1 r] eqn:Hit.
  destruct r as [s'| |]; cbn.
  - pose proof (iter_nohijack _ _ _ Hinv Hit) as Hnh.
    apply iter_next in Hit as (I1 & _); [|exact Hinv]. specialize (IH s' I1).
    destruct (serve_loop F cfg E f s') as [e2 r2]. cbn in *. intros Hne.
    unfold no_hijack in *. rewrite forallb_app, Hnh by discriminate. cbn. apply IH. exact Hne.
  - intros _. apply (iter_nohijack _ _ _ Hinv Hit). discriminate.
  - congruence.
Qed.

(* ---------- C10: persistence matches the Connection header ---------- *)
(* the handler's Set("Connection", v) values carry a close option only when they are exactly "close" *)
Definition handler_guard : Prop := forall num q, ops_guard (handler E num q).

Lemma req_hstate_clean num q cont st0 nr0 : handler_guard -> conn_clean (h_rh (req_hstate E num q cont st0 nr0)).
Proof.
  intros Hg. unfold req_hstate. destruct cont; [apply run_handler_clean, Hg|apply conn_clean_init].
Qed.

Lemma resp_close_true num q cont h : has_close (r_conn (resp_of num q cont h true)) = true.
Proof. apply written_set_close. Qed.

Lemma resp_close_false num q cont cc0 st0 nr0 :
  handler_guard ->
  close_decision cfg E num q cc0 (req_hstate E num q cont st0 nr0) = false ->
  has_close (r_conn (resp_of num q cont (req_hstate E num q cont st0 nr0) false)) = false.
Proof.
  intros Hg Hcc. cbn [resp_of r_conn]. unfold final_rhdr.
  assert (Hcl : rh_close (h_rh (req_hstate E num q cont st0 nr0)) = false).
  { unfold close_decision in Hcc. repeat (apply orb_false_iff in Hcc as [Hcc ?]). assumption. }
  destruct (negb (q_http11 q)).
  - apply written_no_close; [apply conn_clean_keepalive|exact Hcl].
  - apply written_no_close; [apply req_hstate_clean, Hg|exact Hcl].
Qed.

Definition nofinal (l : list event) : bool :=
  forallb (fun e => match e with Resp r => is_interim r | _ => true end) l.

Lemma conn_ok_skip a x : nofinal a = true -> conn_ok (a ++ x) = conn_ok x.
Proof.
  induction a as [|e a IH]; cbn; [reflexivity|]. intros H. apply andb_true_iff in H as [H1 H2].
  destruct e; auto. rewrite H1. cbn. auto.
Qed.

Lemma fr_conn_ok num q cont cc0 st0 br fbr b cs t off dirty nr0 post :
  handler_guard ->
  (snd (FR num q cont cc0 st0 br fbr b cs t off dirty nr0) = Exit -> forallb closing_ev post = true) ->
  conn_ok post = true ->
  conn_ok (fst (FR num q cont cc0 st0 br fbr b cs t off dirty nr0) ++ post) = true.
Proof.
  intros Hg.
  pose proof (resp_close_true num q cont (req_hstate E num q cont st0 nr0)) as Hct.
  pose proof (resp_close_false num q cont cc0 st0 nr0 Hg) as Hcf.
  fr_split num q cont cc0 st0 br b dirty nr0; cbn [fst snd app conn_ok negb andb orb]; intros Hp Hc;
    try specialize (Hp eq_refl); try specialize (Hcf eq_refl);
    rewrite ?Hct, ?Hcf; cbn [forallb closing_ev stays_open skip_flush andb]; rewrite ?Hp, ?Hc, ?orb_true_r; reflexivity.
Qed.

Lemma fr_reasons_ok num q cont cc0 st0 br fbr b cs t off dirty nr0 post :
  nr0 = false -> (cont = true -> st0 = StatusOK /\ cc0 = false) ->
  (snd (FR num q cont cc0 st0 br fbr b cs t off dirty nr0) = Exit -> forallb closing_ev post = true) ->
  reasons_ok cfg E post = true ->
  reasons_ok cfg E (fst (FR num q cont cc0 st0 br fbr b cs t off dirty nr0) ++ post) = true.
Proof.
  intros -> Hst0.
  pose proof (resp_close_true num q cont (req_hstate E num q cont st0 false)) as Hct.
  assert (Hrs : cont = true ->
            (close_reason cfg E num q = true -> close_decision cfg E num q cc0 (req_hstate E num q cont st0 false) = true) /\
            response_suppressed E num q = h_noresp (req_hstate E num q cont st0 false) && h_hijack (req_hstate E num q cont st0 false)).
  { intros Hc. destruct (Hst0 Hc) as [-> ->]. subst cont. split; [|reflexivity].
    unfold close_reason, close_decision, handler_state. intros H.
    repeat (apply orb_true_iff in H as [H|H]); rewrite H, ?orb_true_r; reflexivity. }
  fr_split num q cont cc0 st0 br b dirty false; cbn [fst snd app reasons_ok negb andb orb]; intros Hp Hc;
    try specialize (Hp eq_refl);
    try (destruct (Hrs eq_refl) as [Hrs1 ->]; rewrite ?Hnr, ?Hhj; cbn [andb negb];
         try (destruct (close_reason cfg E num q); [specialize (Hrs1 eq_refl); try discriminate|]; cbn [andb]));
    rewrite ?Hct; cbn [forallb closing_ev andb reasons_ok]; rewrite ?Hp, ?Hc, ?andb_false_r; reflexivity.
Qed.

Lemma fr_http10_ok num q cont cc0 st0 br fbr b cs t off dirty nr0 post :
  http10_ok post = true ->
  http10_ok (fst (FR num q cont cc0 st0 br fbr b cs t off dirty nr0) ++ post) = true.
Proof.
  assert (Hk : forall cc, keepalive_marked (q_http11 q) (resp_of num q cont (req_hstate E num q cont st0 nr0) cc) = true).
  { intros cc. unfold keepalive_marked. cbn [resp_of r_conn]. unfold final_rhdr. destruct cc.
    - rewrite written_set_close. rewrite orb_true_r. reflexivity.
    - destruct (q_http11 q); [reflexivity|]. cbn [negb orb].
      unfold rhdr_written, rhdr_set_nonspecial. cbn [rh_conn rh_close]. rewrite has_option_app.
      apply orb_true_iff; right. apply orb_true_iff; left. exact has_keepalive_keepalive. }
  fr_split num q cont cc0 st0 br b dirty nr0; cbn [fst snd app http10_ok negb andb orb]; intros Hc; rewrite ?Hk, ?Hc; reflexivity.
Qed.

Definition nodisp (l : list event) : bool :=
  forallb (fun e => match e with Dispatch _ _ => false | _ => true end) l.

Lemma reasons_ok_skip a x : nodisp a = true -> reasons_ok cfg E (a ++ x) = reasons_ok cfg E x.
Proof.
  induction a as [|e a IH]; cbn; [reflexivity|]. intros H. apply andb_true_iff in H as [H1 H2].
  destruct e; auto. discriminate.
Qed.

Lemma http10_ok_skip a x : nodisp a = true -> http10_ok (a ++ x) = http10_ok x.
Proof.
  induction a as [|e a IH]; cbn; [reflexivity|]. intros H. apply andb_true_iff in H as [H1 H2].
  destruct e; auto. discriminate.
Qed.


(* ---------- C14 at the level of serve_conn ---------- *)
Lemma lst_init_inv rd : linv (lst_init rd) /\ sinv (remaining rd) (lst_init rd) /\
                        remaining (l_rd (lst_init rd)) = remaining rd.
Proof.
  unfold linv, sinv, lst_init, remaining. cbn. repeat split; auto; lia.
Qed.

Lemma serve_conn_admit en rd :
  serve_conn F cfg E en Admit rd =
  St StNew :: fst (serve_loop F cfg E (S (length (remaining rd))) (lst_init rd))
           ++ after_loop cfg (snd (serve_loop F cfg E (S (length (remaining rd))) (lst_init rd))).
Proof.
  unfold serve_conn, serve_conn_fuel.
  destruct (serve_loop F cfg E (S (length (remaining rd))) (lst_init rd)). reflexivity.
Qed.

Lemma serve_conn_fuel_ok rd :
  snd (serve_loop F cfg E (S (length (remaining rd))) (lst_init rd)) <> LOutOfFuel.
Proof.
  destruct (lst_init_inv rd) as (I1 & _ & I3). apply loop_fuel; [exact I1|]. rewrite I3. lia.
Qed.

Theorem state_language en ad rd : accepts (sts (serve_conn F cfg E en ad rd)) = true.
Proof.
  destruct ad.
  - rewrite serve_conn_admit. destruct (lst_init_inv rd) as (I1 & _).
    pose proof (loop_lang (S (length (remaining rd))) (lst_init rd) ANew I1 (or_introl eq_refl) (serve_conn_fuel_ok rd)) as H.
    unfold accepts. cbn [sts]. unfold arun in *. cbn [fold_left astep]. rewrite H. reflexivity.
  - destruct en; reflexivity.
  - destruct en; reflexivity.
  - destruct en; reflexivity.
Qed.

Theorem active_after_first_byte en ad rd :
  active_has_byte (length (remaining rd)) (serve_conn F cfg E en ad rd) = true.
Proof.
  destruct ad.
  - rewrite serve_conn_admit. destruct (lst_init_inv rd) as (I1 & I2 & _). cbn [active_has_byte].
    rewrite loop_active by auto.
    destruct (snd (serve_loop F cfg E (S (length (remaining rd))) (lst_init rd))); cbn; auto.
    destruct (keep_hijacked cfg); reflexivity.
  - destruct en; reflexivity.
  - destruct en; reflexivity.
  - destruct en; reflexivity.
Qed.

(* a trace predicate that (1) ignores the prelude of an iteration, (2) accepts an error response followed by
   closing events, (3) is preserved by the end of the loop body *)
Section TracePred.
Variable P : list event -> bool.
Hypothesis P_prelude : forall a x,
  forallb (fun e => match e with Dispatch _ _ => false | Resp r => is_interim r | _ => true end) a = true ->
  P (a ++ x) = P x.
Hypothesis P_err : forall r post, r_conn r = [strClose] -> forallb closing_ev post = true -> P post = true ->
  P (Resp r :: Flush :: post) = true.
Hypothesis P_fr : forall num q cont cc0 st0 br fbr b cs t off dirty post nr0, nr0 = false ->
  (cont = true -> st0 = StatusOK /\ cc0 = false) ->
  (snd (FR num q cont cc0 st0 br fbr b cs t off dirty nr0) = Exit -> forallb closing_ev post = true) ->
  P post = true -> P (fst (FR num q cont cc0 st0 br fbr b cs t off dirty nr0) ++ post) = true.

Lemma iter_pred s evs r post :
  linv s -> serve_iter F cfg E s = (evs, r) ->
  (r = Exit -> forallb closing_ev post = true) -> P post = true -> P (evs ++ post) = true.
Proof.
  intros Hinv Hrun Hp Hc. apply iter_decomp in Hrun; [|exact Hinv].
  destruct Hrun as [[-> ->]|[[-> ->]|Hrun]].
  - destruct (l_dirty s); [|exact Hc]. rewrite (P_prelude [Drop]); auto.
  - cbn. apply P_err; auto.
  - destruct Hrun as (avail & fl & mid & tailev & -> & Hav & Hfl & Hmid & fbr0 & Hfbr0 & Ht).
    change (St StActive :: ParseAt (l_off s) avail :: fl ++ mid ++ tailev)
      with ((St StActive :: ParseAt (l_off s) avail :: fl) ++ mid ++ tailev).
    rewrite <- !app_assoc. rewrite P_prelude by (destruct Hfl as [->|[-> _]]; reflexivity).
    rewrite P_prelude by (destruct Hmid as [->| ->]; reflexivity).
    destruct Ht as [(-> & _ & ->)|[(-> & e & ->)|Ht]].
    + destruct (unflushed_from (l_dirty s) fl); [|exact Hc]. rewrite (P_prelude [Drop]); auto.
    + cbn. apply P_err; auto.
    + destruct Ht as (q & cont & cc0 & st0 & br & fbr & b & cs & off & -> & -> & _ & _ & Hst0 & _).
      apply P_fr; auto. exact (proj2 Hinv).
Qed.

Hypothesis P_nil_like : forall l, forallb (fun e => match e with Dispatch _ _ | Resp _ => false | _ => true end) l = true -> P l = true.

Lemma loop_pred fuel s :
  linv s -> P (fst (serve_loop F cfg E fuel s) ++ after_loop cfg (snd (serve_loop F cfg E fuel s))) = true.
Proof.
  revert s. induction fuel as [|f IH]; intros s Hinv; cbn; [apply P_nil_like; reflexivity|].
  destruct (serve_iter F cfg E s) as [e1 r] eqn:Hit.
  destruct r as [s'| |].
  - pose proof Hit as Hit'. apply iter_next in Hit' as (I1 & _); [|exact Hinv]. specialize (IH s' I1).
    destruct (serve_loop F cfg E f s') as [e2 r2]. cbn in *. rewrite <- app_assoc.
    eapply iter_pred; [exact Hinv | exact Hit | intros; discriminate | exact IH].
  - cbn. eapply iter_pred; [exact Hinv | exact Hit | reflexivity | apply P_nil_like; reflexivity].
  - cbn. eapply iter_pred; [exact Hinv | exact Hit | intros; discriminate |].
    apply P_nil_like. destruct (keep_hijacked cfg); reflexivity.
Qed.

Lemma serve_conn_pred en ad rd :
  (forall st x, P (St st :: x) = P x) -> P (serve_conn F cfg E en ad rd) = true.
Proof.
  intros Hst. destruct ad.
  - rewrite serve_conn_admit, Hst. apply loop_pred. apply lst_init_inv.
  - cbn. apply P_err; try reflexivity. apply P_nil_like; reflexivity.
  - destruct en; cbn; rewrite ?Hst; (apply P_err; [reflexivity|reflexivity|]); rewrite ?Hst; apply P_nil_like; reflexivity.
  - destruct en; cbn; rewrite ?Hst; apply P_nil_like; reflexivity.
Qed.
End TracePred.

(* ---------- C10 at the level of serve_conn ---------- *)
Lemma prelude_nofinal a :
  forallb (fun e => match e with Dispatch _ _ => false | Resp r => is_interim r | _ => true end) a = true ->
  nofinal a = true /\ nodisp a = true.
Proof.
  induction a as [|e a IH]; [cbn; auto|]. intros H. cbn in H. apply andb_true_iff in H as [H1 H2].
  destruct (IH H2) as [I1 I2]. unfold nofinal, nodisp in *. cbn [forallb]. rewrite I1, I2.
  destruct e; try discriminate; cbn; auto. rewrite H1. auto.
Qed.

Lemma nilike_conn_ok l :
  forallb (fun e => match e with Dispatch _ _ | Resp _ => false | _ => true end) l = true -> conn_ok l = true.
Proof.
  induction l as [|e l IH]; cbn; [reflexivity|]. intros H. apply andb_true_iff in H as [H1 H2].
  destruct e; try discriminate; auto.
Qed.
Lemma nilike_reasons_ok l :
  forallb (fun e => match e with Dispatch _ _ | Resp _ => false | _ => true end) l = true -> reasons_ok cfg E l = true.
Proof.
  induction l as [|e l IH]; cbn; [reflexivity|]. intros H. apply andb_true_iff in H as [H1 H2].
  destruct e; try discriminate; auto.
Qed.
Lemma nilike_http10_ok l :
  forallb (fun e => match e with Dispatch _ _ | Resp _ => false | _ => true end) l = true -> http10_ok l = true.
Proof.
  induction l as [|e l IH]; cbn; [reflexivity|]. intros H. apply andb_true_iff in H as [H1 H2].
  destruct e; try discriminate; auto.
Qed.

Theorem conn_ok_run en ad rd : handler_guard -> conn_ok (serve_conn F cfg E en ad rd) = true.
Proof.
  intros Hg. apply serve_conn_pred.
  - intros a x H. apply conn_ok_skip. apply prelude_nofinal. exact H.
  - intros r post Hr Hp Hc. cbn [conn_ok]. rewrite Hr, has_close_strClose. cbn [forallb closing_ev andb].
    rewrite Hp, Hc, orb_true_r. reflexivity.
  - intros. apply fr_conn_ok; auto.
  - apply nilike_conn_ok.
  - reflexivity.
Qed.

Theorem reasons_ok_run en ad rd : reasons_ok cfg E (serve_conn F cfg E en ad rd) = true.
Proof.
  apply serve_conn_pred.
  - intros a x H. apply reasons_ok_skip. apply prelude_nofinal. exact H.
  - intros r post Hr Hp Hc. exact Hc.
  - intros. apply fr_reasons_ok; auto.
  - apply nilike_reasons_ok.
  - reflexivity.
Qed.

Theorem http10_ok_run en ad rd : http10_ok (serve_conn F cfg E en ad rd) = true.
Proof.
  apply serve_conn_pred.
  - intros a x H. apply http10_ok_skip. apply prelude_nofinal. exact H.
  - intros r post Hr Hp Hc. exact Hc.
  - intros. apply fr_http10_ok; auto.
  - apply nilike_http10_ok.
  - reflexivity.
Qed.

(* ---------- C17 at the level of serve_conn ---------- *)
Definition hijack_tail : list event := St StHijacked :: (if keep_hijacked cfg then [] else [HijackClose]).

Theorem hijack_shape en ad rd src hb hcs :
  In (HijackEv src hb hcs) (serve_conn F cfg E en ad rd) ->
  exists pre,
    serve_conn F cfg E en ad rd = St StNew :: pre ++ HijackEv src hb hcs :: hijack_tail /\
    hijack_facts (remaining rd) false pre src hb hcs /\ (src = HjBrFbr -> reduce_mem cfg = true).
Proof.
  destruct ad.
  2:{ cbn. intros H. repeat (destruct H as [H|H]; [discriminate|]). destruct H. }
  2:{ destruct en; cbn; intros H; repeat (destruct H as [H|H]; [discriminate|]); destruct H. }
  2:{ destruct en; cbn; intros H; repeat (destruct H as [H|H]; [discriminate|]); destruct H. }
  rewrite serve_conn_admit. destruct (lst_init_inv rd) as (I1 & I2 & I3).
  set (fuel := S (length (remaining rd))).
  destruct (snd (serve_loop F cfg E fuel (lst_init rd))) eqn:Hr.
  - (* the loop exited without hijacking: no such event *)
    intros H. exfalso. destruct H as [H|H]; [discriminate|]. apply in_app_or in H as [H|H].
    + pose proof (loop_exit_nohijack fuel (lst_init rd) I1) as Hn. rewrite Hr in Hn. specialize (Hn ltac:(discriminate)).
      unfold no_hijack in Hn. rewrite forallb_forall in Hn. specialize (Hn _ H). discriminate.
    + cbn in H. repeat (destruct H as [H|H]; [discriminate|]). destruct H.
  - intros H.
    destruct (loop_hijack (remaining rd) fuel (lst_init rd) I1 I2) as (pre & src' & hb' & hcs' & Hev & Hf & Hs); auto.
    { cbn. discriminate. }
    rewrite Hev in *. exists pre.
    assert (Heq : HijackEv src hb hcs = HijackEv src' hb' hcs').
    { destruct H as [H|H]; [discriminate|]. apply in_app_or in H as [H|H].
      - apply in_app_or in H as [H|H].
        + exfalso. destruct Hf as [Hn _ _ _]. unfold no_hijack in Hn. rewrite forallb_forall in Hn. specialize (Hn _ H). discriminate.
        + destruct H as [H|[]]. auto.
      - exfalso. cbn in H. destruct H as [H|H]; [discriminate|]. destruct (keep_hijacked cfg); cbn in H; [destruct H|].
        destruct H as [H|[]]. discriminate. }
    injection Heq as -> -> ->. split; [|split; [exact Hf|exact Hs]].
    unfold hijack_tail. cbn. rewrite <- app_assoc. reflexivity.
  - exfalso. apply (serve_conn_fuel_ok rd). exact Hr.
Qed.

(* corollaries in the shape of the C17 theorems *)
Theorem response_before_handler en ad rd src hb hcs :
  In (HijackEv src hb hcs) (serve_conn F cfg E en ad rd) ->
  exists pre post num q,
    serve_conn F cfg E en ad rd = pre ++ HijackEv src hb hcs :: post /\
    unflushed_from false pre = false /\
    In (Dispatch num q) pre /\ h_hijack (req_hstate E num q true StatusOK false) = true /\
    (h_noresp (req_hstate E num q true StatusOK false) = false ->
       In (Resp (resp_of num q true (req_hstate E num q true StatusOK false) false)) pre).
Proof.
  intros H. apply hijack_shape in H as (pre & Heq & [F1 F2 F3 F4] & _).
  destruct F3 as (num & q & off & k & G1 & G2 & G3 & G4 & G5 & G6).
  exists (St StNew :: pre), hijack_tail, num, q. repeat split; auto.
  - right. exact G1.
  - intros Hn. right. apply G6. exact Hn.
Qed.

Theorem bytes_intact en ad rd src hb hcs :
  In (HijackEv src hb hcs) (serve_conn F cfg E en ad rd) ->
  exists pre post num q off k,
    serve_conn F cfg E en ad rd = pre ++ HijackEv src hb hcs :: post /\
    In (Dispatch num q) pre /\ h_hijack (req_hstate E num q true StatusOK false) = true /\
    framed F (skipn off (remaining rd)) q k /\
    hb ++ concat hcs = skipn (off + k) (remaining rd) /\
    forall n, hijack_in hb hcs n = firstn n (skipn (off + k) (remaining rd)).
Proof.
  intros H. apply hijack_shape in H as (pre & Heq & [F1 F2 F3 F4] & _).
  destruct F3 as (num & q & off & k & G1 & G2 & G3 & G4 & G5 & G6).
  exists (St StNew :: pre), hijack_tail, num, q, off, k. repeat split; auto.
  - right. exact G1.
  - intros n. unfold hijack_in. rewrite G3. reflexivity.
Qed.

Theorem server_silent_after en ad rd src hb hcs :
  In (HijackEv src hb hcs) (serve_conn F cfg E en ad rd) ->
  exists pre post,
    serve_conn F cfg E en ad rd = pre ++ HijackEv src hb hcs :: post /\
    forallb (fun e => negb (is_hijack_ev e)) pre = true /\
    forallb (fun e => negb (loop_io e)) post = true.
Proof.
  intros H. apply hijack_shape in H as (pre & Heq & [F1 F2 F3 F4] & _).
  exists (St StNew :: pre), hijack_tail. repeat split; auto.
  unfold hijack_tail. destruct (keep_hijacked cfg); reflexivity.
Qed.

Theorem closed_unless_kept en ad rd src hb hcs :
  In (HijackEv src hb hcs) (serve_conn F cfg E en ad rd) ->
  exists pre,
    serve_conn F cfg E en ad rd =
      pre ++ HijackEv src hb hcs :: St StHijacked :: (if keep_hijacked cfg then [] else [HijackClose]) /\
    ~ In Close (serve_conn F cfg E en ad rd).
Proof.
  intros H. pose proof H as H0. apply hijack_shape in H as (pre & Heq & [F1 F2 F3 F4] & _).
  exists (St StNew :: pre). split; [exact Heq|].
  (* Close is only produced by after_loop LExit / the rejections: not in a hijacked run *)
  destruct ad.
  2:{ exfalso. cbn in H0. repeat (destruct H0 as [H0|H0]; [discriminate|]). destruct H0. }
  2:{ exfalso. destruct en; cbn in H0; repeat (destruct H0 as [H0|H0]; [discriminate|]); destruct H0. }
  2:{ exfalso. destruct en; cbn in H0; repeat (destruct H0 as [H0|H0]; [discriminate|]); destruct H0. }
  clear Heq. rewrite serve_conn_admit in *.
  assert (Hnc : forall fuel s, ~ In Close (fst (serve_loop F cfg E fuel s))).
  { induction fuel as [|f IH]; intros s; cbn; [tauto|].
    destruct (serve_iter F cfg E s) as [e1 r] eqn:Hit.
    assert (Hc1 : ~ In Close e1).
    { clear IH. unfold serve_iter in Hit. destruct (first_byte cfg s).
      - destruct (gone_at_start E (l_num s + 1)%N); [injection Hit as <- _; destruct (l_dirty s); cbn; intuition discriminate|].
        injection Hit as <- _. unfold serve_req. cbv zeta. cbn [fst]. intros Hin.
        destruct Hin as [Hin|[Hin|Hin]]; try discriminate.
        apply in_app_or in Hin as [Hin|Hin].
        { destruct (l_dirty s && _); cbn in Hin; intuition discriminate. }
        revert Hin.
        assert (Hfr : forall num q cont cc0 st0 br fbr0 b0 cs0 t off d nr0, ~ In Close (fst (FR num q cont cc0 st0 br fbr0 b0 cs0 t off d nr0))).
        { intros num q cont cc0 st0 br fbr0 b0 cs0 t off d nr0.
          fr_split num q cont cc0 st0 br b0 d nr0; cbn; intuition discriminate. }
        assert (Hsil : forall d, ~ In Close (fst (silent_exit d))) by (intros []; cbn; intuition discriminate).
        assert (Herr : forall e, ~ In Close (fst (error_exit e))) by (intros e; cbn; intuition discriminate).
        destruct (read_head F b cs) as [q hn b1 cs1|e|b']; [|apply Herr|destruct (head_end F b' (tl (l_rd s))); [apply Herr|apply Hsil]].
        unfold after_head. cbv zeta.
        destruct (q_expect q).
        + destruct (release_rule cfg (skipn hn b1) fbr) as [[br fbr'] b3].
          assert (Hgo : ~ In Close (fst (match read_body F q b3 cs1 with
             | RbOk bn b4 cs4 => let '(br2, fbr2, b6) := release_rule cfg (skipn bn b4) (br && fbr') in
                 ([Resp continue_resp; Flush] ++ fst (FR (l_num s + 1)%N q true false StatusOK br2 fbr2 b6 cs4 (tl (l_rd s)) (l_off s + hn + bn) false (l_noresp s)),
                  snd (FR (l_num s + 1)%N q true false StatusOK br2 fbr2 b6 cs4 (tl (l_rd s)) (l_off s + hn + bn) false (l_noresp s)))
             | RbErr e => ([Resp continue_resp; Flush] ++ fst (error_exit e), Exit)
             | RbEnd b' => ([Resp continue_resp; Flush] ++ fst (error_exit match body_end F q b' (tl (l_rd s)) with Some e => e | None => EcOther end), Exit)
             end))).
          { destruct (read_body F q b3 cs1) as [bn b4 cs4|e|b'].
            - destruct (release_rule cfg (skipn bn b4) (br && fbr')) as [[br2 fbr2] b6]. cbn [fst].
              intros Hin. destruct Hin as [Hin|[Hin|Hin]]; try discriminate. revert Hin. apply Hfr.
            - cbn. intuition discriminate.
            - cbn. intuition discriminate. }
          destruct (xmode cfg); [exact Hgo| |].
          * destruct (Z.eqb _ _); [exact Hgo|apply Hfr].
          * destruct (continue_ok E _ q); [exact Hgo|apply Hfr].
        + destruct (read_body F q (skipn hn b1) cs1) as [bn b3 cs3|e|b']; [|apply Herr|destruct (body_end F q b' (tl (l_rd s))); [apply Herr|apply Hsil]].
          destruct (release_rule cfg (skipn bn b3) fbr) as [[br fbr'] b5]. apply Hfr.
      - injection Hit as <- _. destruct (l_dirty s); cbn; intuition discriminate.
      - injection Hit as <- _. cbn; intuition discriminate. }
    destruct r as [s'| |]; cbn; auto.
    specialize (IH s'). destruct (serve_loop F cfg E f s') as [e2 r2]. cbn in *.
    intros Hin. apply in_app_or in Hin as [Hin|Hin]; auto. }
  intros Hin. destruct Hin as [Hin|Hin]; [discriminate|]. apply in_app_or in Hin as [Hin|Hin].
  - exact (Hnc _ _ Hin).
  - (* after_loop: Close only for LExit, but then there is no HijackEv *)
    destruct (snd (serve_loop F cfg E (S (length (remaining rd))) (lst_init rd))) eqn:Hr.
    + destruct (lst_init_inv rd) as (I1 & _).
      pose proof (loop_exit_nohijack (S (length (remaining rd))) (lst_init rd) I1) as Hn.
      rewrite Hr in Hn. specialize (Hn ltac:(discriminate)).
      destruct H0 as [H0|H0]; [discriminate|]. apply in_app_or in H0 as [H0|H0].
      * unfold no_hijack in Hn. rewrite forallb_forall in Hn. specialize (Hn _ H0). discriminate.
      * cbn in H0. intuition discriminate.
    + cbn in Hin. destruct Hin as [Hin|Hin]; [discriminate|]. destruct (keep_hijacked cfg); cbn in Hin; intuition discriminate.
    + cbn in Hin. intuition discriminate.
Qed.

(* reads after the handler returned (KeepHijackedConns) continue the stream where the handler stopped *)
Theorem late_reads_intact en ad rd src hb hcs :
  In (HijackEv src hb hcs) (serve_conn F cfg E en ad rd) ->
  keep_hijacked cfg = true ->
  forall k, hijack_late (reduce_mem cfg) (keep_hijacked cfg) src hb hcs k = LateAll (skipn k (hb ++ concat hcs)).
Proof.
  intros H Hk k. apply hijack_shape in H as (pre & _ & _ & Hs).
  unfold hijack_late, ctx_released. rewrite Hk. cbn. destruct src; auto. rewrite (Hs eq_refl). reflexivity.
Qed.

End Loop.

(* a word the automaton accepts has exactly one terminal report, at the end (or is empty) *)
Lemma arun_dead l : fold_left astep l ADead = ADead.
Proof. induction l as [|x l IH]; [reflexivity|]. cbn. destruct x; exact IH. Qed.

Lemma arun_done l : l <> [] -> fold_left astep l ADone = ADead.
Proof.
  destruct l as [|x l]; [congruence|]. intros _. cbn.
  replace (astep ADone x) with ADead by (destruct x; reflexivity). apply arun_dead.
Qed.

Lemma arun_live a l :
  (fold_left astep l a = ANew \/ fold_left astep l a = AActive \/ fold_left astep l a = AIdle) ->
  forallb (fun s => negb (is_terminal s)) l = true.
Proof.
  revert a. induction l as [|x l IH]; intros a H; [reflexivity|].
  cbn in H. cbn.
  destruct (is_terminal x) eqn:Hx.
  - exfalso. assert (Hd : astep a x = ADone \/ astep a x = ADead) by (destruct a, x; cbn in *; auto; discriminate).
    destruct Hd as [Hd|Hd]; rewrite Hd in H.
    + destruct l as [|y l]; [cbn in H; intuition discriminate|].
      rewrite arun_done in H by discriminate. intuition discriminate.
    + rewrite arun_dead in H. intuition discriminate.
  - cbn. eapply IH. exact H.
Qed.

Theorem accepts_terminal_once l : accepts l = true -> terminal_once l.
Proof.
  unfold accepts, arun. destruct l as [|x l] using rev_ind; [left; reflexivity|]. clear IHl.
  intros H. right. exists l, x. split; [reflexivity|].
  rewrite fold_left_app in H. cbn in H.
  destruct (fold_left astep l A0) eqn:Ha; destruct x; cbn in H; try discriminate; split; try reflexivity;
    try (apply (arun_live A0); rewrite Ha; auto).
  all: exfalso; destruct l as [|y l] using rev_ind; [discriminate|];
    rewrite fold_left_app in Ha; cbn in Ha;
    destruct (fold_left astep l A0), y; discriminate.
Qed.

(* ---------- witnesses for the refuted statements ---------- *)
(* a toy reader: every byte 'R' is a complete request; any other first byte is an error *)
Definition toy_q : req_sum :=
  {| q_head := false; q_http11 := true; q_close := false; q_expect := false; q_cl := (-2)%Z; q_tag := [] |}.
Definition toy_framer : framer :=
  {| fhead := fun b => match b with [] => FhMore | x :: _ => if (x =? 82)%N then FhOk toy_q 1 else FhErr EcOther end;
     fbody := fun _ _ => FbOk 0;
     head_end := fun _ _ => None;
     body_end := fun _ _ _ => None |}.
Lemma toy_framer_ok : framer_ok toy_framer.
Proof.
  split.
  - intros b q hn. cbn. destruct b as [|x b]; [discriminate|]. destruct (x =? 82)%N; [|discriminate].
    intros H; injection H as <- <-. cbn. lia.
  - intros q b bn. cbn. intros H; injection H as <-. lia.
Qed.

Definition toy_env (ops : list hop) : env :=
  {| handler := fun _ _ => ops; expect_status := fun _ _ => 100%Z; continue_ok := fun _ _ => true;
     stop_at_close := fun _ => false; stop_at_idle := fun _ => false; gone_at_start := fun _ => false |}.

(* regression witness: KeepHijackedConns + ReduceMemoryUsage + bytes buffered behind the hijacking request.
   The reader handed over goes through ctx.fbr; if hijackConnHandler reset the ctx (as it did before the
   repair), reads after the handler would panic; ctx_released is false, so they continue the stream. *)
Example late_reads_witness :
  let cfg := {| reduce_mem := true; stream_body := false; disable_keepalive := false; close_on_shutdown := false;
                keep_hijacked := true; max_reqs := 0%N; xmode := XNone |} in
  In (HijackEv HjBrFbr [1; 2; 3]%N []) (serve_conn toy_framer cfg (toy_env [HijackOp]) ViaServe Admit
                                                   {| buf := []; chunks := [[82; 1; 2; 3]%N]; tl := Eof |})
  /\ ctx_released true true HjBrFbr = false
  /\ hijack_late true true HjBrFbr [1; 2; 3]%N [] 1 = LateAll [2; 3]%N.
Proof. vm_compute. tauto. Qed.

(* ---------- C10: guard and refutation ---------- *)
Lemma clean_handler_guard (E : env) :
  (forall num q v, In (SetHdrConn v) (handler E num q) -> clean v = true) -> handler_guard E.
Proof.
  intros H num q v Hin. apply clean_value_guard. eapply H. exact Hin.
Qed.

