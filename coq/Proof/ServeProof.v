(* ServeProof.v — proofs about Model/Serve.v for C10 / C14 / C17.
   Everything is proved for an arbitrary framer satisfying framer_ok, configuration and environment. *)
From FH Require Import Model.Base Gen.GenC10 Model.ConnOpt Model.Serve Spec.ServeSpec.
From Coq Require Import Lia.
Open Scope nat_scope.

(* ---------- reading ---------- *)
Lemma fill1_some cs c cs' : fill1 cs = Some (c, cs') -> c <> [] /\ concat cs = c ++ concat cs'.
Proof.
  induction cs as [|x cs IH]; cbn; [discriminate|].
  destruct x as [|y x]; intros H.
  - apply IH in H. cbn. exact H.
  - injection H as <- <-. split; [discriminate|reflexivity].
Qed.

Lemma fill1_none cs : fill1 cs = None -> concat cs = [].
Proof.
  induction cs as [|x cs IH]; cbn; [reflexivity|].
  destruct x as [|y x]; [|discriminate]. intros H. cbn. auto.
Qed.

Lemma peek1_some b cs b' cs' : peek1 b cs = Some (b', cs') -> b' <> [] /\ b ++ concat cs = b' ++ concat cs'.
Proof.
  destruct b as [|x b]; cbn.
  - intros H. apply fill1_some in H. exact H.
  - intros H. injection H as <- <-. split; [discriminate|reflexivity].
Qed.

Lemma peek1_none b cs : peek1 b cs = None -> b ++ concat cs = [].
Proof.
  destruct b as [|x b]; cbn; [|discriminate]. apply fill1_none.
Qed.

Lemma fbr_chunks_some cs cs0 : fbr_chunks cs = Some cs0 -> concat cs0 = concat cs.
Proof.
  unfold fbr_chunks. destruct (fill1 cs) as [[c cs']|] eqn:H1; [|discriminate].
  apply fill1_some in H1 as [Hc H1]. rewrite H1.
  destruct c as [|x c]; [congruence|].
  destruct c as [|y c].
  - destruct (fill1 cs') as [[d cs'']|] eqn:H2; intros H; injection H as <-.
    + apply fill1_some in H2 as [_ H2]. rewrite H2. reflexivity.
    + apply fill1_none in H2. rewrite H2. reflexivity.
  - intros H; injection H as <-. reflexivity.
Qed.

Section Loop.
Variable F : framer.
Variable cfg : scfg.
Variable E : env.
Hypothesis HF : framer_ok F.

Lemma read_head_ok b cs q hn b' cs' :
  read_head F b cs = RhOk q hn b' cs' ->
  b' ++ concat cs' = b ++ concat cs /\ fhead F b' = FhOk q hn /\ 0 < hn <= length b'.
Proof.
  revert b. induction cs as [|c cs IH]; intros b; cbn.
  - destruct (fhead F b) as [q0 hn0| |e] eqn:Hh; try discriminate.
    intros H; injection H as <- <- <- <-. repeat split; auto; apply (proj1 HF) in Hh; lia.
  - destruct (fhead F b) as [q0 hn0| |e] eqn:Hh; try discriminate.
    + intros H; injection H as <- <- <- <-. repeat split; auto; apply (proj1 HF) in Hh; lia.
    + intros H. apply IH in H as (H1 & H2 & H3). cbn. rewrite H1, <- app_assoc. auto.
Qed.

Lemma read_body_ok q b cs bn b' cs' :
  read_body F q b cs = RbOk bn b' cs' ->
  b' ++ concat cs' = b ++ concat cs /\ fbody F q b' = FbOk bn /\ bn <= length b'.
Proof.
  revert b. induction cs as [|c cs IH]; intros b; cbn.
  - destruct (fbody F q b) as [bn0| |e] eqn:Hh; try discriminate.
    intros H; injection H as <- <- <-. repeat split; auto; apply (proj2 HF) in Hh; lia.
  - destruct (fbody F q b) as [bn0| |e] eqn:Hh; try discriminate.
    + intros H; injection H as <- <- <-. repeat split; auto; apply (proj2 HF) in Hh; lia.
    + intros H. apply IH in H as (H1 & H2 & H3). cbn. rewrite H1, <- app_assoc. auto.
Qed.


(* ---------- the end of the loop body ---------- *)
Ltac fr_split num q cont cc0 st0 br b dirty :=
  unfold finish_request; cbv zeta;
  destruct (h_noresp (req_hstate E num q cont st0)) eqn:Hnr,
           (h_hijack (req_hstate E num q cont st0)) eqn:Hhj,
           (close_decision cfg E num q cc0 (req_hstate E num q cont st0)) eqn:Hcc,
           cont, br, (isnil b) eqn:Hb, (reduce_mem cfg) eqn:Hrm, (stop_at_idle E num) eqn:Hst, dirty.

Notation FR num q cont cc0 st0 br fbr b cs t off dirty :=
  (finish_request cfg E num q cont cc0 st0 br fbr b cs t off dirty).

Lemma fr_next num q cont cc0 st0 br fbr b cs t off dirty s' :
  (cont = false -> cc0 = true) ->
  snd (FR num q cont cc0 st0 br fbr b cs t off dirty) = Next s' ->
  l_num s' = num /\ l_br s' = br /\ l_fbr s' = fbr /\ l_rd s' = {| buf := b; chunks := cs; tl := t |} /\ l_off s' = off /\
  l_dirty s' = unflushed_from dirty (fst (FR num q cont cc0 st0 br fbr b cs t off dirty)) /\
  cont = true.
Proof.
  intros Hc0.
  assert (Hc : cont = false -> close_decision cfg E num q cc0 (req_hstate E num q cont st0) = true).
  { intros Hx. rewrite (Hc0 Hx). reflexivity. }
  fr_split num q cont cc0 st0 br b dirty; cbn; intros H; try discriminate;
    try (specialize (Hc eq_refl); discriminate); injection H as <-; cbn; auto 10.
Qed.

Lemma fr_sts num q cont cc0 st0 br fbr b cs t off dirty :
  match snd (FR num q cont cc0 st0 br fbr b cs t off dirty) with
  | Next _ => sts (fst (FR num q cont cc0 st0 br fbr b cs t off dirty)) = [StIdle]
  | ExitHijack => sts (fst (FR num q cont cc0 st0 br fbr b cs t off dirty)) = []
  | Exit => sts (fst (FR num q cont cc0 st0 br fbr b cs t off dirty)) = [] \/
            sts (fst (FR num q cont cc0 st0 br fbr b cs t off dirty)) = [StIdle]
  end.
Proof.
  fr_split num q cont cc0 st0 br b dirty; cbn; auto.
Qed.

Lemma fr_no_active num q cont cc0 st0 br fbr b cs t off dirty total :
  active_has_byte total (fst (FR num q cont cc0 st0 br fbr b cs t off dirty)) = true.
Proof.
  fr_split num q cont cc0 st0 br b dirty; cbn; auto.
Qed.

(* hijack: nothing is left unflushed; the response (unless suppressed) precedes; the reader handed over holds b, cs *)
Lemma fr_hijack num q cont cc0 st0 br fbr b cs t off dirty :
  snd (FR num q cont cc0 st0 br fbr b cs t off dirty) = ExitHijack ->
  let pre := removelast (fst (FR num q cont cc0 st0 br fbr b cs t off dirty)) in
  fst (FR num q cont cc0 st0 br fbr b cs t off dirty) = pre ++ [HijackEv (hj_src_of br fbr) b cs] /\
  unflushed_from dirty pre = false /\
  forallb (fun e => negb (is_hijack_ev e)) pre = true /\
  cont = true /\ h_hijack (req_hstate E num q cont st0) = true /\
  (h_noresp (req_hstate E num q cont st0) = false ->
     In (Resp (resp_of num q cont (req_hstate E num q cont st0) false)) pre).
Proof.
  assert (Hc : cont = false -> h_hijack (req_hstate E num q cont st0) = false).
  { intros ->. reflexivity. }
  fr_split num q cont cc0 st0 br b dirty; cbn; intros H; try discriminate;
    try (specialize (Hc eq_refl); discriminate); repeat split; auto; try discriminate.
Qed.


(* ---------- one iteration, decomposed ---------- *)
Lemma skipn_app_le {A} n (l1 l2 : list A) : n <= length l1 -> skipn n (l1 ++ l2) = skipn n l1 ++ l2.
Proof.
  intros H. rewrite skipn_app. replace (n - length l1) with 0 by lia. reflexivity.
Qed.

Lemma release_rule_spec b fbr :
  exists br' fbr', release_rule cfg b fbr = (br', fbr', b) /\ (br' = false -> b = []) /\ (br' = true -> fbr' = fbr).
Proof.
  unfold release_rule. destruct (negb (stream_body cfg) && reduce_mem cfg && isnil b) eqn:Hc.
  - destruct b; [|rewrite !andb_false_r in Hc; discriminate]. exists false, false. auto.
  - exists true, fbr. repeat split; auto; discriminate.
Qed.

Definition iter_tail (s : lst) (S : bytes) (fl mid tailev : list event) (r : iter_end) : Prop :=
  (r = Exit /\ mid = [] /\ tailev = if unflushed_from (l_dirty s) fl then [Drop] else [])
  \/ (r = Exit /\ exists e, tailev = [Resp (err_resp e); Flush])
  \/ exists q cont cc0 st0 br fbr b cs off,
       tailev = fst (FR (l_num s + 1)%N q cont cc0 st0 br fbr b cs (tl (l_rd s)) off (unflushed_from (l_dirty s) (fl ++ mid))) /\
       r = snd (FR (l_num s + 1)%N q cont cc0 st0 br fbr b cs (tl (l_rd s)) off (unflushed_from (l_dirty s) (fl ++ mid))) /\
       (cont = false -> cc0 = true) /\
       (cont = true -> exists k, framed F S q k /\ b ++ concat cs = skipn k S /\ 0 < k <= length S /\
                                 off = l_off s + k /\ (br = false -> b = [])).

Lemma iter_decomp s evs r :
  (l_br s = false -> buf (l_rd s) = []) ->
  serve_iter F cfg E s = (evs, r) ->
  let S := remaining (l_rd s) in
  (r = Exit /\ evs = (if l_dirty s then [Drop] else []))
  \/ (r = Exit /\ evs = [Resp (err_resp EcTimeout); Flush])
  \/ exists avail fl mid tailev,
       evs = St StActive :: ParseAt (l_off s) avail :: fl ++ mid ++ tailev /\ 1 <= avail <= length S /\
       (fl = [] \/ (fl = [Flush] /\ l_dirty s = true)) /\ (mid = [] \/ mid = [Resp continue_resp; Flush]) /\
       iter_tail s S fl mid tailev r.
Proof.
  intros Hbr. unfold serve_iter. cbv zeta.
  set (rd := l_rd s). set (S := remaining rd).
  (* phase 1: the first byte *)
  assert (Hfirst : forall b0 cs0, b0 <> [] -> b0 ++ concat cs0 = S -> 1 <= length b0 <= length S).
  { intros b0 cs0 Hne He. rewrite <- He, app_length. destruct b0; [congruence|cbn; lia]. }
  match goal with |- (match ?first with _ => _ end = _ -> _) => destruct first as [[[[b0 cs0] fbr]|]|r0] eqn:Hf end.
  2:{ intros H. injection H as <- <-. left. unfold silent_exit. auto. }
  2:{ (* exits before any byte *)
      intros H. subst r0.
      destruct (negb (reduce_mem cfg) || l_br s).
      - destruct (peek1 (buf rd) (chunks rd)) as [[b cs]|]; [discriminate|].
        destruct (tl rd).
        + injection Hf as <- <-. left. unfold silent_exit; auto.
        + destruct (1 <? l_num s + 1)%N; injection Hf as <- <-; [left; unfold silent_exit; auto|right; left; auto].
      - destruct (fbr_chunks (chunks rd)) as [cs0|]; [|injection Hf as <- <-; left; unfold silent_exit; auto].
        destruct (peek1 [] cs0) as [[b cs]|]; [discriminate|]. injection Hf as <- <-; left; unfold silent_exit; auto. }
  assert (Hb0 : b0 <> [] /\ b0 ++ concat cs0 = S).
  { destruct (negb (reduce_mem cfg) || l_br s) eqn:Hc.
    - destruct (peek1 (buf rd) (chunks rd)) as [[b cs]|] eqn:Hp.
      + injection Hf as <- <- <-. apply peek1_some in Hp as [H1 H2]. split; auto.
      + destruct (tl rd); [discriminate|]. destruct (1 <? l_num s + 1)%N; discriminate.
    - apply orb_false_iff in Hc as [_ Hc]. specialize (Hbr Hc).
      destruct (fbr_chunks (chunks rd)) as [cs1|] eqn:Hfc; [|discriminate].
      destruct (peek1 [] cs1) as [[b cs]|] eqn:Hp; [|discriminate].
      injection Hf as <- <- <-. apply peek1_some in Hp as [H1 H2]. split; auto.
      rewrite <- H2. cbn. apply fbr_chunks_some in Hfc. rewrite Hfc. unfold S, remaining. fold rd. rewrite Hbr. reflexivity. }
  destruct Hb0 as [Hne HS]. clear Hf.
  pose proof (Hfirst _ _ Hne HS) as Hav.
  intros Hrun. right. right. exists (length b0).
  set (need0 := match fhead F b0 with FhMore => true | _ => false end) in *.
  exists (if l_dirty s && need0 then [Flush] else []).
  assert (Hfl : (if l_dirty s && need0 then [Flush] else []) = [] \/
                ((if l_dirty s && need0 then [Flush] else []) = [Flush] /\ l_dirty s = true)).
  { destruct (l_dirty s), need0; cbn; auto. }
  assert (Hd : unflushed_from (l_dirty s) (if l_dirty s && need0 then [Flush] else []) = l_dirty s && negb need0).
  { destruct (l_dirty s), need0; reflexivity. }
  (* phase 2: the head *)
  destruct (read_head F b0 cs0) as [q hn b1 cs1|e|b'] eqn:Hrh.
  3:{ exists [], (snd (A:=list event) (B:=iter_end) (match head_end F b' (tl rd) with None => silent_exit (l_dirty s && negb need0) | Some e => error_exit e end), Exit) .
      exfalso. Abort.

End Loop.
