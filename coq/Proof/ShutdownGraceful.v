(* C15: what holds when Shutdown returns nil; every started handler is answered on the guarded schedules, and the two
   schedules on which it is not; Done; idle connections. *)
From Coq Require Import List ZArith Bool Arith Lia ZifyBool ZifyNat.
From FH Require Import Model.Shutdown Proof.ShutdownProof.
Import ListNotations.
Open Scope Z_scope.

(* ---- Shutdown returned nil ---------------------------------------------------------------------------------------- *)
Lemma returned_nil cf s : reach cf s -> sd s = SReturnedNil ->
  Forall (fun r => pc r = CClosed) (conns s) /\ Forall (fun lp => lrunning lp = false /\ lnopen lp = false) (loops s) /\
  n_handlers s = 0 /\ open s = 0 /\ serving s = 0 /\ stop s = false.
Proof.
  intros R Hs. pose proof (inv_reach _ _ R) as I. destruct (i_ret _ I Hs) as [Hc Hl].
  assert (Hln : Forall (fun lp => lnopen lp = false) (loops s)).
  { destruct (loops s) eqn:El; [constructor|]. rewrite <- El. apply (i_ln _ I); [rewrite Hs; reflexivity|congruence]. }
  split; [exact Hc|]. split; [|split; [|split; [|split]]].
  - rewrite Forall_forall in *. intros lp Hin. split; auto.
  - unfold n_handlers. apply sumf_zero_all_conv. intros r Hin. rewrite Forall_forall in Hc. unfold in_handler. rewrite (Hc _ Hin). reflexivity.
  - rewrite (i_open _ I). apply sumf_zero_all_conv. intros r Hin. rewrite Forall_forall in Hc. unfold cnt_open. rewrite (Hc _ Hin). reflexivity.
  - rewrite (i_serving _ I). apply sumf_zero_all_conv. intros lp Hin. rewrite Forall_forall in Hl. rewrite (Hl _ Hin). reflexivity.
  - rewrite (i_stop _ I), Hs. reflexivity.
Qed.

(* ---- Done ------------------------------------------------------------------------------------------------------------- *)
Lemma done_closed cf s : reach cf s -> past_close_done (sd s) = true \/ (sd s = SReturnedNil /\ loops s <> []) -> doneClosed s = true.
Proof. intros R. exact (i_done _ (inv_reach _ _ R)). Qed.

(* a handler that runs while Shutdown is past close(s.done) sees a closed channel; the stop flag is what the loop checks *)
Lemma stop_flag cf s : reach cf s -> stop s = sd_active (sd s).
Proof. intros R. exact (i_stop _ (inv_reach _ _ R)). Qed.

(* ---- started handlers ------------------------------------------------------------------------------------------------------ *)
Lemma accounting cf s : reach cf s -> Forall cwf (conns s).
Proof. intros R. exact (i_wf _ (inv_reach _ _ R)). Qed.

(* per connection, as long as Shutdown has not given up (returned ctx.Err()) *)
Definition closed_ok_pc (p : cpc) : bool :=
  match p with CLoopTop | CPeek | CGotByte | CActive | CStopSeen | CStoredT | CExiting | CUnreg | CClosed => true | _ => false end.

Definition idle_marked_pc (p : cpc) : bool :=
  match p with CLoopTop | CPeek | CGotByte | CStoredT | CExiting => true | _ => false end.

Record cinv (p : spc) (r : conn) : Prop := mkCI {
  c_lost : lost r = 0;
  (* a connection closed by closeIdleConns: nothing in the writer, and its goroutine can only leave *)
  c_closed : srvClosed r = true ->
               inmap r = false /\ unflushed r = 0 /\ closed_ok_pc (pc r) = true /\ p <> SNotCalled /\
               (match pc r with CGotByte | CActive | CStopSeen | CExiting | CUnreg | CClosed => True | _ => buffered r = 0 end);
  (* a connection marked idle (or fresh): nothing in the writer, nothing buffered unless it has just been read *)
  c_marked : inmap r = true -> ival r <> 0 ->
               idle_marked_pc (pc r) = true /\ unflushed r = 0 /\ (match pc r with CGotByte | CExiting => True | _ => buffered r = 0 end);
  c_exit : match pc r with CExiting | CUnreg | CClosed | CAccepted | CQueued => unflushed r = 0 | _ => True end;
  c_early : match pc r with CAccepted | CQueued => buffered r = 0 /\ srvClosed r = false /\ inmap r = false | _ => True end;
  c_track : match pc r with CAccepted | CQueued | CUnreg | CClosed => True | _ => inmap r = false -> srvClosed r = true end
}.

Definition sinv (s : st) : Prop := sd s <> SReturnedErr -> Forall (cinv (sd s)) (conns s).

Ltac gcase F W Hstep c :=
  let r := fresh "r" in let Hn := fresh "Hn" in
  destruct (nth_error (conns _) c) as [r|] eqn:Hn; [|discriminate Hstep];
  let Hg := fresh "Hg" in let Hw := fresh "Hw" in
  pose proof (Forall_nth _ _ _ _ F Hn) as Hg; pose proof (Forall_nth _ _ _ _ W Hn) as Hw;
  destruct Hg as [G1 G2 G3 G4 G5 G6]; unfold cwf in Hw;
  destruct r as [p lid im iv ts sc cc infl buf unf hjk stt del lst lsc abn];
  unfold set_pc, flush_exit, exit_loop in Hstep;
  cbn [pc loopid inmap ival tstart srvClosed cliClosed inflight buffered unflushed hijack started delivered lost lostc abandoned] in *.

Ltac gfin F := unfold set_conns; cbn [conns sd]; apply Forall_upd; [exact F|];
  constructor; unfold inprog, closed_ok_pc, idle_marked_pc in *;
  cbn [pc loopid inmap ival tstart srvClosed cliClosed inflight buffered unflushed hijack started delivered lost lostc abandoned] in *;
  repeat match goal with |- context[if ?b then _ else _] => destruct b eqn:? end;
  try lia; try congruence; try (intros; try discriminate; intuition (try lia; try congruence; try discriminate)).

Lemma cinv_mono p p' r : (p <> SNotCalled -> p' <> SNotCalled) -> cinv p r -> cinv p' r.
Proof. intros H [G1 G2 G3 G4 G5 G6]. constructor; auto. intros Hs. destruct (G2 Hs) as (A & B & C & D & E). repeat split; auto. Qed.

Lemma sinv_step cf s l s' : inv s -> sinv s -> step cf s l = Some s' -> sinv s'.
Proof.
  intros I S Hstep Hne.
  assert (Hne0 : sd s <> SReturnedErr).
  { intros E. apply Hne. destruct l; cbn [step] in Hstep; unfold shutdown_begun in Hstep; rewrite ?E in Hstep; try discriminate Hstep;
    repeat match type of Hstep with
    | context[match ?x with _ => _ end] => destruct x eqn:?; try discriminate Hstep
    | context[if ?x then _ else _] => destruct x eqn:?; try discriminate Hstep
    end; injection Hstep as <-; cbn; first [exact E | reflexivity]. }
  pose proof (S Hne0) as F. pose proof (i_wf _ I) as W. clear S.
  destruct l; cbn [step] in Hstep.
  - destruct (shutdown_begun s); [discriminate|]. injection Hstep as <-. exact F.
  - destruct (nth_error (loops s) k) as [lp|]; [|discriminate]. destruct (_ && _); [|discriminate]. injection Hstep as <-. cbn [conns sd].
    apply Forall_app. split; [exact F|]. constructor; [|constructor]. constructor; cbn; try lia; try discriminate; auto.
  - gcase F W Hstep c. destruct p; try discriminate Hstep. destruct (nth_error (loops s) lid); [|discriminate]. injection Hstep as <-. gfin F.
  - destruct (nth_error (loops s) k) as [lp|]; [|discriminate]. destruct (_ && _); [|discriminate]. injection Hstep as <-. exact F.
  - (* LRegIdle *) gcase F W Hstep c. destruct p; try discriminate Hstep. injection Hstep as <-. gfin F.
  - (* LSetDeadline *) gcase F W Hstep c. destruct p; try discriminate Hstep. destruct (deadlines cf && sc) eqn:E; injection Hstep as <-; gfin F.
  - (* LPeekOk *) gcase F W Hstep c. destruct p; try discriminate Hstep. destruct (0 <? buf) eqn:E1; [|destruct (negb sc && (0 <? infl)) eqn:E2; [|discriminate]]; injection Hstep as <-; gfin F.
  - (* LPeekFail *) gcase F W Hstep c. destruct p; try discriminate Hstep. destruct (_ && _) eqn:E; [|discriminate]. injection Hstep as <-. gfin F.
  - (* LStore0 *) gcase F W Hstep c. destruct p; try discriminate Hstep. injection Hstep as <-. gfin F.
  - (* LLoadStop: a connection that closeIdleConns has closed can only be here while Shutdown runs, so it sees the stop flag *)
    gcase F W Hstep c. destruct p; try discriminate Hstep.
    destruct sc.
    + destruct (G2 eq_refl) as (A & B & C & D & E).
      assert (Hst : stop s = true).
      { rewrite (i_stop _ I). destruct (sd s) eqn:Es; try reflexivity; try congruence.
        exfalso. destruct (i_ret _ I Es) as [Hc _]. pose proof (Forall_nth _ _ _ _ Hc Hn) as Hp. discriminate Hp. }
      rewrite Hst in Hstep. injection Hstep as <-. gfin F.
    + destruct (stop s); injection Hstep as <-; gfin F.
  - (* LLookup *) gcase F W Hstep c. destruct p; try discriminate Hstep. destruct im; injection Hstep as <-; gfin F.
  - (* LReadReq *) gcase F W Hstep c. destruct p; try discriminate Hstep.
    assert (Hsc : sc = false). { destruct sc; [|reflexivity]. destruct (G2 eq_refl) as (_ & _ & H & _). discriminate H. }
    subst sc. rewrite andb_false_r in Hstep. destruct (0 <? buf) eqn:E2; [|discriminate]. injection Hstep as <-. gfin F.
  - gcase F W Hstep c. destruct p; try discriminate Hstep. injection Hstep as <-. gfin F.
  - gcase F W Hstep c. destruct p; try discriminate Hstep. injection Hstep as <-. gfin F.
  - gcase F W Hstep c. destruct p; try discriminate Hstep. injection Hstep as <-. gfin F.
  - (* LWrite *)
    gcase F W Hstep c. destruct p; try discriminate Hstep.
    assert (Hsc : sc = false). { destruct sc; [|reflexivity]. destruct (G2 eq_refl) as (_ & _ & H & _). discriminate H. }
    subst sc. cbn [orb] in Hstep.
    destruct ((buf <=? 0) || (close || closeOnShutdown cf && stop s) || hjk) eqn:E1.
    + destruct cc; injection Hstep as <-; gfin F.
    + injection Hstep as <-. gfin F.
  - (* LStoreT *) gcase F W Hstep c. destruct p; try discriminate Hstep. injection Hstep as <-. gfin F.
  - (* LCheckStop *) gcase F W Hstep c. destruct p; try discriminate Hstep. destruct (stop s); [destruct (sc || cc) eqn:Ecc|]; injection Hstep as <-; gfin F.
  - gcase F W Hstep c. destruct p; try discriminate Hstep. injection Hstep as <-. gfin F.
  - gcase F W Hstep c. destruct p; try discriminate Hstep. injection Hstep as <-. cbn [conns sd]. apply Forall_upd; [exact F|].
    constructor; unfold inprog, closed_ok_pc, idle_marked_pc in *; cbn in *; try lia; try congruence; auto; intuition (try lia; try congruence; try discriminate).
  - (* LSetStop *) destruct (sd s) eqn:Es; try discriminate Hstep. destruct (loops s); injection Hstep as <-; cbn [conns sd set_sd];
      (eapply Forall_impl; [|exact F]; intros r; apply cinv_mono; intros _; discriminate).
  - destruct (sd s) eqn:Es; try discriminate Hstep. injection Hstep as <-. cbn [conns sd]. eapply Forall_impl; [|exact F]. intros r; apply cinv_mono; intros _; discriminate.
  - destruct (sd s) eqn:Es; try discriminate Hstep. injection Hstep as <-. cbn [conns sd]. eapply Forall_impl; [|exact F]. intros r; apply cinv_mono; intros _; discriminate.
  - (* LCloseIdle *)
    destruct (sd s) eqn:Es; try discriminate Hstep. injection Hstep as <-. cbn [conns sd].
    apply Forall_forall. intros r' Hin. apply in_map_iff in Hin as (r & <- & Hr). rewrite Forall_forall in F. pose proof (F _ Hr) as HF.
    apply (cinv_mono SLoop SReadServing) in HF; [|intros _; discriminate]. destruct HF as [G1 G2 G3 G4 G5 G6].
    unfold close_if_idle. destruct (inmap r && negb (ival r =? 0) && (ival r <=? now s)) eqn:E; [|constructor; auto].
    apply andb_true_iff in E as [E E3]. apply andb_true_iff in E as [E1 E2]. apply negb_true_iff in E2.
    assert (Hiv : ival r <> 0) by lia. destruct (G3 E1 Hiv) as (M1 & M2 & M3). unfold idle_marked_pc in M1.
    constructor; cbn [pc loopid inmap ival tstart srvClosed cliClosed inflight buffered unflushed hijack started delivered lost lostc abandoned]; auto; try discriminate.
    + intros _. split; [reflexivity|]. split; [exact M2|]. split; [unfold closed_ok_pc; destruct (pc r); try discriminate M1; reflexivity|].
      split; [discriminate|]. destruct (pc r); try discriminate M1; auto.
    + destruct (pc r); try discriminate M1; auto.
    + destruct (pc r); auto.
  - destruct (sd s) eqn:Es; try discriminate Hstep. injection Hstep as <-. cbn [conns sd set_sd]. eapply Forall_impl; [|exact F]. intros r; apply cinv_mono; intros _; destruct (serving s =? 0); discriminate.
  - destruct (sd s) eqn:Es; try discriminate Hstep. destruct (open s =? 0); injection Hstep as <-; cbn [conns sd set_sd]; (eapply Forall_impl; [|exact F]; intros r; apply cinv_mono; intros _; discriminate).
  - destruct (sd s) eqn:Es; try discriminate Hstep. injection Hstep as <-. cbn [conns sd set_sd]. eapply Forall_impl; [|exact F]. intros r; apply cinv_mono; intros _; discriminate.
  - destruct (sd s) eqn:Es; try discriminate Hstep. injection Hstep as <-. cbn [sd] in Hne. congruence.
  - (* LSend *) gcase F W Hstep c. destruct cc; [discriminate|]. injection Hstep as <-. gfin F.
  - gcase F W Hstep c. injection Hstep as <-. gfin F.
  - destruct (d <? 0); [discriminate|]. injection Hstep as <-. exact F.
Qed.

Lemma sinv_reach cf s : reach cf s -> sinv s.
Proof.
  induction 1 as [|s l s' R IH Hs]; [intros _; constructor|]. exact (sinv_step _ _ _ _ (inv_reach _ _ R) IH Hs).
Qed.

(* As long as Shutdown has not returned an error, no response of a started handler is made undeliverable by the server - for every
   interleaving, with pipelining, with requests arriving while idle connections are being closed ... *)
Lemma nothing_lost cf s : reach cf s -> sd s <> SReturnedErr -> Forall (fun r => lost r = 0) (conns s).
Proof. intros R Hne. eapply Forall_impl; [|exact (sinv_reach _ _ R Hne)]. intros r H. apply H. Qed.

(* ... so when a connection is done, every handler started on it has its response at the client, unless the client went away *)
Lemma started_handlers_answered cf s : reach cf s -> sd s <> SReturnedErr ->
  Forall (fun r => pc r = CClosed -> started r = delivered r + lostc r) (conns s).
Proof.
  intros R Hne. pose proof (sinv_reach _ _ R Hne) as F. pose proof (accounting _ _ R) as W.
  rewrite Forall_forall in *. intros r Hr Hp. destruct (F _ Hr) as [G1 _ _ G4 _ _]. destruct (W _ Hr) as (Ha & _).
  unfold inprog in Ha. rewrite Hp in Ha, G4. lia.
Qed.

Lemma answered_when_returned cf s : reach cf s -> sd s = SReturnedNil ->
  Forall (fun r => started r = delivered r + lostc r /\ lost r = 0) (conns s).
Proof.
  intros R Hs. destruct (returned_nil _ _ R Hs) as (Hc & _).
  assert (Hne : sd s <> SReturnedErr) by congruence.
  pose proof (started_handlers_answered _ _ R Hne) as H. pose proof (nothing_lost _ _ R Hne) as HL. rewrite Forall_forall in *. intros r Hr.
  split; [exact (H _ Hr (Hc _ Hr))|exact (HL _ Hr)].
Qed.

(* the schedule of the repaired finding shutdown-drops-unflushed-pipelined-response (66dbd41): two requests in one segment, Shutdown while
   the first handler runs; its response is held back in the writer (another request is buffered) and is now flushed by the stop check *)
Definition unflushed_trace : list label :=
  [LServeStart; LAccept 0; LOpenInc 0; LSend 0; LSend 0; LRegIdle 0; LSetDeadline 0; LPeekOk 0; LStore0 0; LLoadStop 0; LReadReq 0;
   LSetStop; LCloseListeners; LAcceptFail 0; LCloseDone; LCloseIdle; LReadServing; LReadOpen;
   LHandlerEnd 0; LWrite 0 false; LStoreT 0; LCheckStop 0; LUnregIdle 0; LOpenDec 0; LTicker; LCloseIdle; LReadServing; LReadOpen].

(* the schedule of the repaired finding closeidle-closes-conn-with-request-in-hand (3ea360e): the next request of an idle keep-alive connection
   has just been read when closeIdleConns closes the connection (still marked idle); the goroutine now finds the connection untracked
   and leaves without starting the handler *)
Definition closeidle_trace : list label :=
  [LServeStart; LAccept 0; LOpenInc 0; LSend 0; LRegIdle 0; LSetDeadline 0; LPeekOk 0; LStore0 0; LLoadStop 0; LReadReq 0;
   LHandlerEnd 0; LWrite 0 false; LStoreT 0; LCheckStop 0; LSetDeadline 0; LSend 0; LPeekOk 0;
   LSetStop; LCloseListeners; LAcceptFail 0; LCloseDone; LCloseIdle; LReadServing; LReadOpen;
   LStore0 0; LLoadStop 0; LLookup 0; LUnregIdle 0; LOpenDec 0; LTicker; LCloseIdle; LReadServing; LReadOpen].

(* the schedule of the repaired finding closeidle-drops-unflushed-response-of-pipelined-conn (ce44e94): two requests in one segment; the first is
   answered, its response stays in the writer because the second is buffered; the connection is NOT marked idle any more, so the closeIdleConns
   pass of a Shutdown that begins now leaves it alone; the second request is served, the stop check flushes both responses *)
Definition closeidle_unflushed_trace : list label :=
  [LServeStart; LAccept 0; LOpenInc 0; LSend 0; LSend 0; LRegIdle 0; LSetDeadline 0; LPeekOk 0; LStore0 0; LLoadStop 0; LReadReq 0;
   LHandlerEnd 0; LWrite 0 false; LStoreT 0; LCheckStop 0;
   LSetStop; LCloseListeners; LAcceptFail 0; LCloseDone; LCloseIdle; LReadServing; LReadOpen;
   LSetDeadline 0; LPeekOk 0; LStore0 0; LLoadStop 0; LLookup 0; LReadReq 0; LHandlerEnd 0; LWrite 0 false; LStoreT 0; LCheckStop 0;
   LUnregIdle 0; LOpenDec 0; LTicker; LCloseIdle; LReadServing; LReadOpen].

Lemma unflushed_is_flushed_now :
  match run (mkCfg false false) init unflushed_trace with
  | Some s => sd s = SReturnedNil /\ map started (conns s) = [1] /\ map delivered (conns s) = [1] /\ n_lost s = 0
  | None => False
  end.
Proof. vm_compute. repeat split; reflexivity. Qed.

Lemma pipelined_conn_is_not_closed_as_idle_now :
  (match run (mkCfg false false) init closeidle_unflushed_trace with
   | Some s => sd s = SReturnedNil /\ map started (conns s) = [2] /\ map delivered (conns s) = [2] /\ n_lost s = 0 /\ map srvClosed (conns s) = [false]
   | None => False
   end) /\
  (match run (mkCfg true false) init closeidle_unflushed_trace with
   | Some s => sd s = SReturnedNil /\ map started (conns s) = [2] /\ map delivered (conns s) = [2] /\ n_lost s = 0
   | None => False
   end).
Proof. split; vm_compute; repeat split; reflexivity. Qed.

Lemma closeidle_request_in_hand_is_not_served_now :
  match run (mkCfg false false) init closeidle_trace with
  | Some s => sd s = SReturnedNil /\ map started (conns s) = [1] /\ map delivered (conns s) = [1] /\ n_lost s = 0
  | None => False
  end.
Proof. vm_compute. repeat split; reflexivity. Qed.

(* ---- idle connections ------------------------------------------------------------------------------------------------------- *)
(* one closeIdleConns pass closes every connection that is marked idle since a past time (and takes it out of the map) *)
Lemma close_pass cf s s' : step cf s LCloseIdle = Some s' ->
  length (conns s') = length (conns s) /\
  forall c r, nth_error (conns s) c = Some r -> inmap r = true -> ival r <> 0 -> ival r <= now s ->
    exists r', nth_error (conns s') c = Some r' /\ srvClosed r' = true /\ inmap r' = false /\ pc r' = pc r.
Proof.
  intros Hs. cbn [step] in Hs. destruct (sd s); try discriminate. injection Hs as <-. cbn [conns]. split; [apply map_length|].
  intros c r Hn H1 H2 H3. exists (close_if_idle (now s) r). split; [rewrite nth_error_map, Hn; reflexivity|].
  unfold close_if_idle. rewrite H1. replace (ival r =? 0) with false by lia. replace (ival r <=? now s) with true by lia. cbn. auto.
Qed.

(* a connection that was waiting for its next request when it was closed leaves by itself: no client action, no timeout *)
Lemma closed_idle_conn_exits cf s c r : nth_error (conns s) c = Some r -> pc r = CPeek -> srvClosed r = true -> buffered r <= 0 ->
  exists s', run cf s [LPeekFail c; LUnregIdle c; LOpenDec c] = Some s' /\ open s' = open s - 1 /\
             exists r', nth_error (conns s') c = Some r' /\ pc r' = CClosed /\ started r' = started r /\ delivered r' = delivered r.
Proof.
  intros Hn Hp Hc Hb. destruct r as [p lid im iv ts sc cc infl buf unf hjk stt del lst lsc abn]. cbn in Hp, Hc, Hb. subst p sc.
  cbn [run step]. rewrite Hn. cbn [pc buffered srvClosed inflight cliClosed]. replace (buf <=? 0) with true by lia. cbn [andb orb].
  unfold set_conns, exit_loop. cbn [conns]. rewrite (nth_error_upd_same _ _ _ _ Hn). cbn [pc].
  cbn [conns]. erewrite nth_error_upd_same by (eapply nth_error_upd_same; eauto). cbn [pc].
  eexists. split; [reflexivity|]. cbn [open conns]. split; [reflexivity|].
  eexists. split; [eapply nth_error_upd_same; eapply nth_error_upd_same; eapply nth_error_upd_same; eauto|]. cbn. auto.
Qed.

(* Shutdown with two idle keep-alive connections and one running handler: the idle ones are closed by the first pass, Shutdown
   returns right after the handler's response, and no label of a client or of the clock is needed *)
Definition graceful_trace : list label :=
  [LServeStart; LAccept 0; LOpenInc 0; LSend 0; LRegIdle 0; LSetDeadline 0; LPeekOk 0; LStore0 0; LLoadStop 0; LReadReq 0;
   LHandlerEnd 0; LWrite 0 false; LStoreT 0; LCheckStop 0; LSetDeadline 0;
   LAccept 0; LOpenInc 1; LSend 1; LRegIdle 1; LSetDeadline 1; LPeekOk 1; LStore0 1; LLoadStop 1; LReadReq 1;
   LHandlerEnd 1; LWrite 1 false; LStoreT 1; LCheckStop 1; LSetDeadline 1;
   LAccept 0; LOpenInc 2; LSend 2; LRegIdle 2; LSetDeadline 2; LPeekOk 2; LStore0 2; LLoadStop 2; LReadReq 2].
Definition graceful_shutdown : list label :=
  [LSetStop; LCloseListeners; LAcceptFail 0; LCloseDone; LCloseIdle; LReadServing; LReadOpen;
   LPeekFail 0; LUnregIdle 0; LOpenDec 0; LPeekFail 1; LUnregIdle 1; LOpenDec 1;
   LHandlerEnd 2; LWrite 2 false; LStoreT 2; LCheckStop 2; LUnregIdle 2; LOpenDec 2;
   LTicker; LCloseIdle; LReadServing; LReadOpen].

Lemma graceful_example :
  match run (mkCfg false false) init graceful_trace with
  | Some s1 =>
      match run (mkCfg false false) s1 graceful_shutdown with
      | Some s => sd s = SReturnedNil /\ map started (conns s) = [1; 1; 1] /\ map delivered (conns s) = [1; 1; 1]
                  /\ map srvClosed (conns s) = [true; true; false] /\ n_lost s = 0 /\ doneClosed s = true
      | None => False
      end
  | None => False
  end.
Proof. vm_compute. repeat split; reflexivity. Qed.

(* ---- statements in the vocabulary of Spec/ShutdownSpec.v ------------------------------------------------------------------------- *)
From FH Require Import Spec.ShutdownSpec.

Lemma returns_at_rest cf s : reach cf s -> sd s = SReturnedNil -> at_rest s.
Proof. exact (returned_nil cf s). Qed.

Lemma done_closed' cf s : reach cf s -> done_must_be_closed s -> doneClosed s = true.
Proof.
  intros R H. apply (done_closed _ _ R). unfold done_must_be_closed in H. destruct (sd s) eqn:E; try contradiction; cbn; auto.
Qed.

Lemma answered_when_done cf s : reach cf s -> sd s <> SReturnedErr -> Forall (fun r => pc r = CClosed -> answered r) (conns s).
Proof. exact (started_handlers_answered cf s). Qed.

Lemma answered_at_return cf s : reach cf s -> sd s = SReturnedNil -> Forall (fun r => answered r /\ lost r = 0) (conns s).
Proof. exact (answered_when_returned cf s). Qed.

(* once Shutdown has given up the guarantee is gone: the stop flag is reset, a connection closed as idle with a request in hand serves it *)
Definition gave_up_trace : list label :=
  [LServeStart; LAccept 0; LOpenInc 0; LSend 0; LRegIdle 0; LSetDeadline 0; LPeekOk 0; LStore0 0; LLoadStop 0; LReadReq 0;
   LHandlerEnd 0; LWrite 0 false; LStoreT 0; LCheckStop 0; LSetDeadline 0;
   LAccept 0; LOpenInc 1; LSend 1; LRegIdle 1; LSetDeadline 1; LPeekOk 1; LStore0 1; LLoadStop 1; LReadReq 1;
   LSend 0; LPeekOk 0;
   LSetStop; LCloseListeners; LAcceptFail 0; LCloseDone; LCloseIdle; LReadServing; LReadOpen; LCtxExpire;
   LStore0 0; LLoadStop 0; LReadReq 0; LHandlerEnd 0; LWrite 0 false].

Lemma after_error_return_a_response_can_be_lost :
  match run (mkCfg false false) init gave_up_trace with
  | Some s => sd s = SReturnedErr /\ map lost (conns s) = [1; 0]
  | None => False
  end.
Proof. vm_compute. repeat split; reflexivity. Qed.

Lemma idle_closed_by_pass cf s s' : step cf s LCloseIdle = Some s' ->
  forall c r, nth_error (conns s) c = Some r -> idle_keepalive s r ->
    exists r', nth_error (conns s') c = Some r' /\ srvClosed r' = true /\ pc r' = CPeek /\ buffered r' <= 0.
Proof.
  intros Hs c r Hn (Hp & Hm & Hi & Ht & Hb). destruct (close_pass _ _ _ Hs) as [_ H]. destruct (H _ _ Hn Hm Hi Ht) as (r' & Hn' & Hc & _ & Hp').
  exists r'. split; [exact Hn'|]. split; [exact Hc|]. split; [congruence|].
  cbn [step] in Hs. destruct (sd s); try discriminate. injection Hs as <-. cbn [conns] in Hn'. rewrite nth_error_map, Hn in Hn'. injection Hn' as <-.
  unfold close_if_idle. destruct (_ && _); cbn; exact Hb.
Qed.
