(* C15: what holds when Shutdown returns nil; every started handler is answered on the guarded schedules, and the two
   schedules on which it is not; Done; idle connections. *)
From Coq Require Import List ZArith Bool Arith Lia ZifyBool ZifyNat.
From FH Require Import Model.Shutdown Proof.ShutdownProof Proof.ShutdownReuse.
Import ListNotations.
Open Scope Z_scope.

(* ---- a call of Shutdown returned nil ---------------------------------------------------------------------------------------- *)
(* No call is running, no timed-out call is pending, no listener registered since: everything is at rest. *)
Lemma at_rest_untainted cf s : reach cf s -> sd_running s = false -> tainted (dn s) = false -> Forall (fun lp => inln lp = false) (loops s) ->
  Forall (fun r => pc r = CClosed) (conns s) /\ Forall (fun lp => lrunning lp = false /\ lnopen lp = false) (loops s) /\
  n_handlers s = 0 /\ open s = 0 /\ serving s = 0 /\ stop s = false.
Proof.
  intros R H1 H2 H3. pose proof (inv_reach _ _ R) as I. destruct (d_rest _ (dinv_reach _ _ R) H1 H2 H3) as [Hc Hl].
  split; [exact Hc|]. split; [exact Hl|]. split; [|split; [|split]].
  - unfold n_handlers. apply sumf_zero_all_conv. intros r Hin. rewrite Forall_forall in Hc. unfold in_handler. rewrite (Hc _ Hin). reflexivity.
  - rewrite (i_open _ I). apply sumf_zero_all_conv. intros r Hin. rewrite Forall_forall in Hc. unfold cnt_open. rewrite (Hc _ Hin). reflexivity.
  - rewrite (i_serving _ I). apply sumf_zero_all_conv. intros lp Hin. rewrite Forall_forall in Hl. destruct (Hl _ Hin) as [H _]. rewrite H. reflexivity.
  - rewrite (i_stop _ I). rewrite <- sd_running_active. exact H1.
Qed.

(* these premises hold at the moment a call returns nil - through its loop always, through the `s.ln == nil` shortcut unless a timed-out call is pending *)
Lemma return_through_loop cf s s' : reach cf s -> step cf s LReadOpen = Some s' -> sd s' = SReturnedNil ->
  sd_running s' = false /\ tainted (dn s') = false /\ Forall (fun lp => inln lp = false) (loops s').
Proof.
  intros R Hs Hr. pose proof (inv_reach _ _ R) as I. cbn [step] in Hs. destruct (sd s) eqn:Es; try discriminate.
  destruct (open s =? 0); injection Hs as <-; cbn in Hr; try discriminate. cbn. repeat split.
  eapply Forall_impl; [|apply (i_ln _ I); rewrite Es; reflexivity]. intros lp [_ H]. exact H.
Qed.

Lemma return_through_shortcut cf s s' : step cf s LSetStop = Some s' -> sd s' = SReturnedNil ->
  sd_running s' = false /\ tainted (dn s') = tainted (dn s) /\ Forall (fun lp => inln lp = false) (loops s').
Proof.
  intros Hs Hr. cbn [step] in Hs. destruct (sd_running s); [discriminate|]. destruct (existsb inln (loops s)) eqn:Ex; injection Hs as <-; cbn in Hr; try discriminate.
  cbn. repeat split. apply Forall_forall. intros lp Hin. destruct (inln lp) eqn:E; [|reflexivity].
  assert (existsb inln (loops s) = true) by (apply existsb_exists; exists lp; auto). congruence.
Qed.

(* ---- Done --------------------------------------------------------------------------------------------------------------- *)
(* In EVERY Serve / Shutdown cycle: once a call is past close(s.done) - and also after it gave up - the channel ctx.Done() gave to any
   handler that is running has been closed. *)
Lemma done_closed cf s : reach cf s -> past_close_done (sd s) = true ->
  Forall (fun r => pc r = CHandler -> exists ch, cdone r = Some ch /\ chan_closed (dn s) ch = true) (conns s).
Proof.
  intros R Hp. pose proof (dinv_reach _ _ R) as D. pose proof (d_pcd _ D Hp) as Hf. destruct (d_flag _ D Hf) as (ch0 & Hd & Hc0).
  eapply Forall_impl; [|exact (d_cap _ D)]. intros r Hr Hh. destruct (Hr Hh) as (ch & Hc & [Ho|Ho]); exists ch; split; auto. congruence.
Qed.

(* a handler never gets a nil channel *)
Lemma done_not_nil cf s : reach cf s -> Forall (fun r => pc r = CHandler -> cdone r <> None) (conns s).
Proof.
  intros R. eapply Forall_impl; [|exact (d_cap _ (dinv_reach _ _ R))]. intros r Hr Hh. destruct (Hr Hh) as (ch & Hc & _). congruence.
Qed.

Lemma stop_flag cf s : reach cf s -> stop s = sd_active (sd s).
Proof. intros R. exact (i_stop _ (inv_reach _ _ R)). Qed.

(* ---- started handlers ------------------------------------------------------------------------------------------------------ *)
Lemma accounting cf s : reach cf s -> Forall cwf (conns s).
Proof. intros R. exact (i_wf _ (inv_reach _ _ R)). Qed.

(* per connection, as long as Shutdown has not given up (returned ctx.Err()) *)
Definition closed_ok_pc (p : cpc) : bool :=
  match p with CLoopTop | CPeek | CGotByte | CActive | CStopSeen | CStoredT | CExiting | CUnreg | CClosed => true | _ => false end.

Definition idle_marked_pc (p : cpc) : bool :=
  match p with CLoopTop | CPeek | CGotByte | CStoredT | CExiting => true | _ => false end.

Record cinv (p : spc) (r : conn) : Prop := mkCI {
  c_lost : lost r = 0;
  (* a connection closed by closeIdleConns: nothing in the writer, and its goroutine can only leave *)
  c_closed : srvClosed r = true ->
               inmap r = false /\ unflushed r = 0 /\ closed_ok_pc (pc r) = true /\ (sd_active p = true \/ pc r = CClosed) /\
               (match pc r with CGotByte | CActive | CStopSeen | CExiting | CUnreg | CClosed => True | _ => buffered r = 0 end);
  (* a connection marked idle (or fresh): nothing in the writer, nothing buffered unless it has just been read *)
  c_marked : inmap r = true -> ival r <> 0 ->
               idle_marked_pc (pc r) = true /\ unflushed r = 0 /\ (match pc r with CGotByte | CExiting => True | _ => buffered r = 0 end);
  c_exit : match pc r with CExiting | CUnreg | CClosed | CAccepted | CQueued => unflushed r = 0 | _ => True end;
  c_early : match pc r with CAccepted | CQueued => buffered r = 0 /\ srvClosed r = false /\ inmap r = false | _ => True end;
  c_track : match pc r with CAccepted | CQueued | CUnreg | CClosed => True | _ => inmap r = false -> srvClosed r = true end
}.

Definition sinv (s : st) : Prop := failed (dn s) = false -> Forall (cinv (sd s)) (conns s).

Ltac gcase F W Hstep c :=
  let r := fresh "r" in let Hn := fresh "Hn" in
  destruct (nth_error (conns _) c) as [r|] eqn:Hn; [|discriminate Hstep];
  let Hg := fresh "Hg" in let Hw := fresh "Hw" in
  pose proof (Forall_nth _ _ _ _ F Hn) as Hg; pose proof (Forall_nth _ _ _ _ W Hn) as Hw;
  destruct Hg as [G1 G2 G3 G4 G5 G6]; unfold cwf in Hw;
  destruct r as [p lid im iv ts sc cc infl buf unf hjk stt del lst lsc abn cdn];
  unfold set_pc, flush_exit, exit_loop in Hstep;
  cbn [pc loopid inmap ival tstart srvClosed cliClosed inflight buffered unflushed hijack started delivered lost lostc abandoned cdone] in *.

Ltac gfin F := unfold set_conns; cbn [conns sd]; apply Forall_upd; [exact F|];
  constructor; unfold inprog, closed_ok_pc, idle_marked_pc in *;
  cbn [pc loopid inmap ival tstart srvClosed cliClosed inflight buffered unflushed hijack started delivered lost lostc abandoned cdone] in *;
  repeat match goal with |- context[if ?b then _ else _] => destruct b eqn:? end;
  try lia; try congruence; try (intros; try discriminate; intuition (try lia; try congruence; try discriminate)).

Lemma cinv_mono p p' r : (sd_active p = true -> sd_active p' = true) -> cinv p r -> cinv p' r.
Proof. intros H [G1 G2 G3 G4 G5 G6]. constructor; auto. intros Hs. destruct (G2 Hs) as (A & B & C & [D|D] & E); repeat split; auto. Qed.

Lemma cinv_closed p p' r : pc r = CClosed -> cinv p r -> cinv p' r.
Proof. intros H [G1 G2 G3 G4 G5 G6]. constructor; auto. intros Hs. destruct (G2 Hs) as (A & B & C & D & E); repeat split; auto. Qed.

(* `failed` is only ever set *)
Lemma failed_mono cf s l s' : step cf s l = Some s' -> failed (dn s') = false -> failed (dn s) = false.
Proof.
  intros Hstep Hf. destruct l; cbn [step] in Hstep; unfold set_conns, set_sd in Hstep;
    repeat match type of Hstep with
    | context[match ?x with _ => _ end] => destruct x eqn:?; try discriminate Hstep
    | context[if ?x then _ else _] => destruct x eqn:?; try discriminate Hstep
    end; injection Hstep as <-; cbn in Hf; try exact Hf; try discriminate Hf.
  - unfold serve_done in Hf. destruct (done (dn s)); exact Hf.
  - unfold close_done in Hf. destruct (done (dn s)); [destruct (dflag (dn s))|]; exact Hf.
Qed.

Lemma sinv_step cf s l s' : inv s -> sinv s -> step cf s l = Some s' -> sinv s'.
Proof.
  intros I S Hstep Hne.
  assert (Hne0 : failed (dn s) = false) by exact (failed_mono _ _ _ _ Hstep Hne).
  pose proof (S Hne0) as F. pose proof (i_wf _ I) as W. clear S.
  destruct l; cbn [step] in Hstep.
  - destruct (sd_running s); [discriminate|]. injection Hstep as <-. exact F.
  - destruct (nth_error (loops s) k) as [lp|]; [|discriminate]. destruct (_ && _); [|discriminate]. injection Hstep as <-. cbn [conns sd].
    apply Forall_app. split; [exact F|]. constructor; [|constructor]. constructor; cbn; try lia; try discriminate; auto.
  - gcase F W Hstep c. destruct p; try discriminate Hstep. destruct (nth_error (loops s) lid); [|discriminate]. injection Hstep as <-. gfin F.
  - destruct (nth_error (loops s) k) as [lp|]; [|discriminate]. destruct (_ && _); [|discriminate]. injection Hstep as <-. exact F.
  - (* LRegIdle *) gcase F W Hstep c. destruct p; try discriminate Hstep. injection Hstep as <-. gfin F.
  - (* LSetDeadline *) gcase F W Hstep c. destruct p; try discriminate Hstep. destruct (deadlines cf && sc) eqn:E; injection Hstep as <-; gfin F.
  - (* LPeekOk *) gcase F W Hstep c. destruct p; try discriminate Hstep. destruct (0 <? buf) eqn:E1; [|destruct (negb sc && (0 <? infl)) eqn:E2; [|discriminate]]; injection Hstep as <-; gfin F.
  - (* LPeekFail *) gcase F W Hstep c. destruct p; try discriminate Hstep. destruct (_ && _) eqn:E; [|discriminate]. injection Hstep as <-. gfin F.
  - (* LStore0 *) gcase F W Hstep c. destruct p; try discriminate Hstep. injection Hstep as <-. gfin F.
  - (* LLoadStop: a connection that closeIdleConns has closed can only be here while Shutdown runs, so it sees the stop flag *)
    gcase F W Hstep c. destruct p; try discriminate Hstep.
    destruct sc.
    + destruct (G2 eq_refl) as (A & B & C & D & E).
      assert (Hst : stop s = true).
      { rewrite (i_stop _ I). destruct D as [D|D]; [exact D|discriminate D]. }
      rewrite Hst in Hstep. injection Hstep as <-. gfin F.
    + destruct (stop s); injection Hstep as <-; gfin F.
  - (* LLookup *) gcase F W Hstep c. destruct p; try discriminate Hstep. destruct im; injection Hstep as <-; gfin F.
  - (* LReadReq *) gcase F W Hstep c. destruct p; try discriminate Hstep.
    assert (Hsc : sc = false). { destruct sc; [|reflexivity]. destruct (G2 eq_refl) as (_ & _ & H & _). discriminate H. }
    subst sc. rewrite andb_false_r in Hstep. destruct (0 <? buf) eqn:E2; [|discriminate]. injection Hstep as <-. gfin F.
  - gcase F W Hstep c. destruct p; try discriminate Hstep. injection Hstep as <-. gfin F.
  - gcase F W Hstep c. destruct p; try discriminate Hstep. injection Hstep as <-. gfin F.
  - gcase F W Hstep c. destruct p; try discriminate Hstep. injection Hstep as <-. gfin F.
  - (* LWrite *)
    gcase F W Hstep c. destruct p; try discriminate Hstep.
    assert (Hsc : sc = false). { destruct sc; [|reflexivity]. destruct (G2 eq_refl) as (_ & _ & H & _). discriminate H. }
    subst sc. cbn [orb] in Hstep.
    destruct ((buf <=? 0) || (close || closeOnShutdown cf && stop s) || hjk || reduceMem cf) eqn:E1.
    + destruct cc; injection Hstep as <-; gfin F.
    + injection Hstep as <-. gfin F.
  - (* LStoreT *) gcase F W Hstep c. destruct p; try discriminate Hstep. injection Hstep as <-. gfin F.
  - (* LCheckStop *) gcase F W Hstep c. destruct p; try discriminate Hstep. destruct (stop s); [destruct (sc || cc) eqn:Ecc|]; injection Hstep as <-; gfin F.
  - gcase F W Hstep c. destruct p; try discriminate Hstep. injection Hstep as <-. gfin F.
  - gcase F W Hstep c. destruct p; try discriminate Hstep. injection Hstep as <-. cbn [conns sd]. apply Forall_upd; [exact F|].
    constructor; unfold inprog, closed_ok_pc, idle_marked_pc in *; cbn in *; try lia; try congruence; auto; intuition (try lia; try congruence; try discriminate).
  - (* LSetStop *) destruct (sd_running s) eqn:Er; [discriminate|]. rewrite sd_running_active in Er.
    destruct (existsb inln (loops s)); injection Hstep as <-; cbn [conns sd set_sd];
      (eapply Forall_impl; [|exact F]; intros r; apply cinv_mono; intros Ha; congruence).
  - destruct (sd s) eqn:Es; try discriminate Hstep. injection Hstep as <-. cbn [conns sd]. eapply Forall_impl; [|exact F]. intros r; apply cinv_mono; intros _; reflexivity.
  - destruct (sd s) eqn:Es; try discriminate Hstep. injection Hstep as <-. cbn [conns sd]. eapply Forall_impl; [|exact F]. intros r; apply cinv_mono; intros _; reflexivity.
  - (* LCloseIdle *)
    destruct (sd s) eqn:Es; try discriminate Hstep. injection Hstep as <-. cbn [conns sd].
    apply Forall_forall. intros r' Hin. apply in_map_iff in Hin as (r & <- & Hr). rewrite Forall_forall in F. pose proof (F _ Hr) as HF.
    apply (cinv_mono SLoop SReadServing) in HF; [|intros _; reflexivity]. destruct HF as [G1 G2 G3 G4 G5 G6].
    unfold close_if_idle. destruct (inmap r && negb (ival r =? 0) && (ival r <=? now s)) eqn:E; [|constructor; auto].
    apply andb_true_iff in E as [E E3]. apply andb_true_iff in E as [E1 E2]. apply negb_true_iff in E2.
    assert (Hiv : ival r <> 0) by lia. destruct (G3 E1 Hiv) as (M1 & M2 & M3). unfold idle_marked_pc in M1.
    constructor; cbn [pc loopid inmap ival tstart srvClosed cliClosed inflight buffered unflushed hijack started delivered lost lostc abandoned]; auto; try discriminate.
    + intros _. split; [reflexivity|]. split; [exact M2|]. split; [unfold closed_ok_pc; destruct (pc r); try discriminate M1; reflexivity|].
      split; [left; reflexivity|]. destruct (pc r); try discriminate M1; auto.
    + destruct (pc r); try discriminate M1; auto.
    + destruct (pc r); auto.
  - destruct (sd s) eqn:Es; try discriminate Hstep. injection Hstep as <-. cbn [conns sd set_sd]. eapply Forall_impl; [|exact F]. intros r; apply cinv_mono; intros _; destruct (serving s =? 0); reflexivity.
  - destruct (sd s) eqn:Es; try discriminate Hstep. destruct (open s =? 0) eqn:E0; injection Hstep as <-; cbn [conns sd set_sd].
    + destruct (rest_from_counters s I (i_ro _ I Es) ltac:(lia)) as [Hc _].
      apply Forall_forall. intros r Hr. rewrite Forall_forall in F, Hc. exact (cinv_closed _ _ r (Hc _ Hr) (F _ Hr)).
    + eapply Forall_impl; [|exact F]. intros r; apply cinv_mono; intros _; reflexivity.

  - destruct (sd s) eqn:Es; try discriminate Hstep. injection Hstep as <-. cbn [conns sd set_sd]. eapply Forall_impl; [|exact F]. intros r; apply cinv_mono; intros _; reflexivity.
  - destruct (sd s) eqn:Es; try discriminate Hstep. injection Hstep as <-. cbn in Hne. discriminate Hne.
  - (* LSend *) gcase F W Hstep c. destruct cc; [discriminate|]. injection Hstep as <-. gfin F.
  - gcase F W Hstep c. injection Hstep as <-. gfin F.
  - destruct (d <? 0); [discriminate|]. injection Hstep as <-. exact F.
Qed.

Lemma sinv_reach cf s : reach cf s -> sinv s.
Proof.
  induction 1 as [|s l s' R IH Hs]; [intros _; constructor|]. exact (sinv_step _ _ _ _ (inv_reach _ _ R) IH Hs).
Qed.

(* As long as Shutdown has not returned an error, no response of a started handler is made undeliverable by the server - for every
   interleaving, with pipelining, with requests arriving while idle connections are being closed ... *)
Lemma taint_failed cf s : reach cf s -> tainted (dn s) = true -> failed (dn s) = true.
Proof.
  induction 1 as [|s l s' R IH Hstep]; [discriminate|]. intros Ht.
  destruct l; cbn [step] in Hstep; unfold set_conns, set_sd in Hstep;
    repeat match type of Hstep with
    | context[match ?x with _ => _ end] => destruct x eqn:?; try discriminate Hstep
    | context[if ?x then _ else _] => destruct x eqn:?; try discriminate Hstep
    end; injection Hstep as <-; cbn in Ht |- *; try (apply IH; exact Ht); try discriminate Ht; try reflexivity.
  - unfold serve_done in *. destruct (done (dn s)); cbn in *; apply IH; exact Ht.
  - unfold close_done in *. destruct (done (dn s)); [destruct (dflag (dn s))|]; cbn in *; apply IH; exact Ht.
Qed.

Lemma nothing_lost cf s : reach cf s -> failed (dn s) = false -> Forall (fun r => lost r = 0) (conns s).
Proof. intros R Hne. eapply Forall_impl; [|exact (sinv_reach _ _ R Hne)]. intros r H. apply H. Qed.

(* ... so when a connection is done, every handler started on it has its response at the client, unless the client went away *)
Lemma started_handlers_answered cf s : reach cf s -> failed (dn s) = false ->
  Forall (fun r => pc r = CClosed -> started r = delivered r + lostc r) (conns s).
Proof.
  intros R Hne. pose proof (sinv_reach _ _ R Hne) as F. pose proof (accounting _ _ R) as W.
  rewrite Forall_forall in *. intros r Hr Hp. destruct (F _ Hr) as [G1 _ _ G4 _ _]. destruct (W _ Hr) as (Ha & _).
  unfold inprog in Ha. rewrite Hp in Ha, G4. lia.
Qed.

Lemma answered_when_returned cf s : reach cf s -> failed (dn s) = false ->
  sd_running s = false -> Forall (fun lp => inln lp = false) (loops s) ->
  Forall (fun r => started r = delivered r + lostc r /\ lost r = 0) (conns s).
Proof.
  intros R Hf Hr Hl.
  assert (Ht : tainted (dn s) = false). { destruct (tainted (dn s)) eqn:E; [|reflexivity]. pose proof (taint_failed _ _ R E). congruence. }
  destruct (at_rest_untainted _ _ R Hr Ht Hl) as (Hc & _).
  pose proof (started_handlers_answered _ _ R Hf) as H. pose proof (nothing_lost _ _ R Hf) as HL. rewrite Forall_forall in *. intros r Hr0.
  split; [exact (H _ Hr0 (Hc _ Hr0))|exact (HL _ Hr0)].
Qed.

(* the schedule of the repaired finding shutdown-drops-unflushed-pipelined-response (66dbd41): two requests in one segment, Shutdown while
   the first handler runs; its response is held back in the writer (another request is buffered) and is now flushed by the stop check *)
Definition unflushed_trace : list label :=
  [LServeStart; LAccept 0; LOpenInc 0; LSend 0; LSend 0; LRegIdle 0; LSetDeadline 0; LPeekOk 0; LStore0 0; LLoadStop 0; LReadReq 0;
   LSetStop; LCloseListeners; LAcceptFail 0; LCloseDone; LCloseIdle; LReadServing; LReadOpen;
   LHandlerEnd 0; LWrite 0 false; LStoreT 0; LCheckStop 0; LUnregIdle 0; LOpenDec 0; LTicker; LCloseIdle; LReadServing; LReadOpen].

(* the schedule of the repaired finding closeidle-closes-conn-with-request-in-hand (3ea360e): the next request of an idle keep-alive connection
   has just been read when closeIdleConns closes the connection (still marked idle); the goroutine now finds the connection untracked
   and leaves without starting the handler *)
Definition closeidle_trace : list label :=
  [LServeStart; LAccept 0; LOpenInc 0; LSend 0; LRegIdle 0; LSetDeadline 0; LPeekOk 0; LStore0 0; LLoadStop 0; LReadReq 0;
   LHandlerEnd 0; LWrite 0 false; LStoreT 0; LCheckStop 0; LSetDeadline 0; LSend 0; LPeekOk 0;
   LSetStop; LCloseListeners; LAcceptFail 0; LCloseDone; LCloseIdle; LReadServing; LReadOpen;
   LStore0 0; LLoadStop 0; LLookup 0; LUnregIdle 0; LOpenDec 0; LTicker; LCloseIdle; LReadServing; LReadOpen].

(* the schedule of the repaired finding closeidle-drops-unflushed-response-of-pipelined-conn (ce44e94): two requests in one segment; the first is
   answered, its response stays in the writer because the second is buffered; the connection is NOT marked idle any more, so the closeIdleConns
   pass of a Shutdown that begins now leaves it alone; the second request is served, the stop check flushes both responses *)
Definition closeidle_unflushed_trace : list label :=
  [LServeStart; LAccept 0; LOpenInc 0; LSend 0; LSend 0; LRegIdle 0; LSetDeadline 0; LPeekOk 0; LStore0 0; LLoadStop 0; LReadReq 0;
   LHandlerEnd 0; LWrite 0 false; LStoreT 0; LCheckStop 0;
   LSetStop; LCloseListeners; LAcceptFail 0; LCloseDone; LCloseIdle; LReadServing; LReadOpen;
   LSetDeadline 0; LPeekOk 0; LStore0 0; LLoadStop 0; LLookup 0; LReadReq 0; LHandlerEnd 0; LWrite 0 false; LStoreT 0; LCheckStop 0;
   LUnregIdle 0; LOpenDec 0; LTicker; LCloseIdle; LReadServing; LReadOpen].

Lemma unflushed_is_flushed_now :
  match run (mkCfg false false false) init unflushed_trace with
  | Some s => sd s = SReturnedNil /\ map started (conns s) = [1] /\ map delivered (conns s) = [1] /\ n_lost s = 0
  | None => False
  end.
Proof. vm_compute. repeat split; reflexivity. Qed.

Lemma pipelined_conn_is_not_closed_as_idle_now :
  (match run (mkCfg false false false) init closeidle_unflushed_trace with
   | Some s => sd s = SReturnedNil /\ map started (conns s) = [2] /\ map delivered (conns s) = [2] /\ n_lost s = 0 /\ map srvClosed (conns s) = [false]
   | None => False
   end) /\
  (match run (mkCfg true false false) init closeidle_unflushed_trace with
   | Some s => sd s = SReturnedNil /\ map started (conns s) = [2] /\ map delivered (conns s) = [2] /\ n_lost s = 0
   | None => False
   end).
Proof. split; vm_compute; repeat split; reflexivity. Qed.

Lemma closeidle_request_in_hand_is_not_served_now :
  match run (mkCfg false false false) init closeidle_trace with
  | Some s => sd s = SReturnedNil /\ map started (conns s) = [1] /\ map delivered (conns s) = [1] /\ n_lost s = 0
  | None => False
  end.
Proof. vm_compute. repeat split; reflexivity. Qed.

(* ---- idle connections ------------------------------------------------------------------------------------------------------- *)
(* one closeIdleConns pass closes every connection that is marked idle since a past time (and takes it out of the map) *)
Lemma close_pass cf s s' : step cf s LCloseIdle = Some s' ->
  length (conns s') = length (conns s) /\
  forall c r, nth_error (conns s) c = Some r -> inmap r = true -> ival r <> 0 -> ival r <= now s ->
    exists r', nth_error (conns s') c = Some r' /\ srvClosed r' = true /\ inmap r' = false /\ pc r' = pc r.
Proof.
  intros Hs. cbn [step] in Hs. destruct (sd s); try discriminate. injection Hs as <-. cbn [conns]. split; [apply map_length|].
  intros c r Hn H1 H2 H3. exists (close_if_idle (now s) r). split; [rewrite nth_error_map, Hn; reflexivity|].
  unfold close_if_idle. rewrite H1. replace (ival r =? 0) with false by lia. replace (ival r <=? now s) with true by lia. cbn. auto.
Qed.

(* a connection that was waiting for its next request when it was closed leaves by itself: no client action, no timeout *)
Lemma closed_idle_conn_exits cf s c r : nth_error (conns s) c = Some r -> pc r = CPeek -> srvClosed r = true -> buffered r <= 0 ->
  exists s', run cf s [LPeekFail c; LUnregIdle c; LOpenDec c] = Some s' /\ open s' = open s - 1 /\
             exists r', nth_error (conns s') c = Some r' /\ pc r' = CClosed /\ started r' = started r /\ delivered r' = delivered r.
Proof.
  intros Hn Hp Hc Hb. destruct r as [p lid im iv ts sc cc infl buf unf hjk stt del lst lsc abn]. cbn in Hp, Hc, Hb. subst p sc.
  cbn [run step]. rewrite Hn. cbn [pc buffered srvClosed inflight cliClosed]. replace (buf <=? 0) with true by lia. cbn [andb orb].
  unfold set_conns, exit_loop. cbn [conns]. rewrite (nth_error_upd_same _ _ _ _ Hn). cbn [pc].
  cbn [conns]. erewrite nth_error_upd_same by (eapply nth_error_upd_same; eauto). cbn [pc].
  eexists. split; [reflexivity|]. cbn [open conns]. split; [reflexivity|].
  eexists. split; [eapply nth_error_upd_same; eapply nth_error_upd_same; eapply nth_error_upd_same; eauto|]. cbn. auto.
Qed.

(* Shutdown with two idle keep-alive connections and one running handler: the idle ones are closed by the first pass, Shutdown
   returns right after the handler's response, and no label of a client or of the clock is needed *)
Definition graceful_trace : list label :=
  [LServeStart; LAccept 0; LOpenInc 0; LSend 0; LRegIdle 0; LSetDeadline 0; LPeekOk 0; LStore0 0; LLoadStop 0; LReadReq 0;
   LHandlerEnd 0; LWrite 0 false; LStoreT 0; LCheckStop 0; LSetDeadline 0;
   LAccept 0; LOpenInc 1; LSend 1; LRegIdle 1; LSetDeadline 1; LPeekOk 1; LStore0 1; LLoadStop 1; LReadReq 1;
   LHandlerEnd 1; LWrite 1 false; LStoreT 1; LCheckStop 1; LSetDeadline 1;
   LAccept 0; LOpenInc 2; LSend 2; LRegIdle 2; LSetDeadline 2; LPeekOk 2; LStore0 2; LLoadStop 2; LReadReq 2].
Definition graceful_shutdown : list label :=
  [LSetStop; LCloseListeners; LAcceptFail 0; LCloseDone; LCloseIdle; LReadServing; LReadOpen;
   LPeekFail 0; LUnregIdle 0; LOpenDec 0; LPeekFail 1; LUnregIdle 1; LOpenDec 1;
   LHandlerEnd 2; LWrite 2 false; LStoreT 2; LCheckStop 2; LUnregIdle 2; LOpenDec 2;
   LTicker; LCloseIdle; LReadServing; LReadOpen].

Lemma graceful_example :
  match run (mkCfg false false false) init graceful_trace with
  | Some s1 =>
      match run (mkCfg false false false) s1 graceful_shutdown with
      | Some s => sd s = SReturnedNil /\ map started (conns s) = [1; 1; 1] /\ map delivered (conns s) = [1; 1; 1]
                  /\ map srvClosed (conns s) = [true; true; false] /\ n_lost s = 0 /\ closedch (dn s) = [O] /\ done (dn s) = None
      | None => False
      end
  | None => False
  end.
Proof. vm_compute. repeat split; reflexivity. Qed.

(* ---- statements in the vocabulary of Spec/ShutdownSpec.v ------------------------------------------------------------------------- *)
From FH Require Import Spec.ShutdownSpec.

Lemma returns_at_rest cf s : reach cf s -> just_shut_down s -> at_rest s.
Proof. intros R (A & B & C). exact (at_rest_untainted cf s R A B C). Qed.

Lemma done_closed' cf s : reach cf s -> shutdown_past_close_done s -> Forall (done_closed_for s) (conns s).
Proof.
  intros R H. apply (done_closed _ _ R). unfold shutdown_past_close_done in H. destruct (sd s); try contradiction; reflexivity.
Qed.

Lemma answered_when_done cf s : reach cf s -> failed (dn s) = false -> Forall (fun r => pc r = CClosed -> answered r) (conns s).
Proof. exact (started_handlers_answered cf s). Qed.

Lemma answered_at_return cf s : reach cf s -> failed (dn s) = false -> just_shut_down s -> Forall (fun r => answered r /\ lost r = 0) (conns s).
Proof. intros R Hf (A & _ & C). exact (answered_when_returned cf s R Hf A C). Qed.

(* once Shutdown has given up the guarantee is gone: the stop flag is reset, a connection closed as idle with a request in hand serves it *)
Definition gave_up_trace : list label :=
  [LServeStart; LAccept 0; LOpenInc 0; LSend 0; LRegIdle 0; LSetDeadline 0; LPeekOk 0; LStore0 0; LLoadStop 0; LReadReq 0;
   LHandlerEnd 0; LWrite 0 false; LStoreT 0; LCheckStop 0; LSetDeadline 0;
   LAccept 0; LOpenInc 1; LSend 1; LRegIdle 1; LSetDeadline 1; LPeekOk 1; LStore0 1; LLoadStop 1; LReadReq 1;
   LSend 0; LPeekOk 0;
   LSetStop; LCloseListeners; LAcceptFail 0; LCloseDone; LCloseIdle; LReadServing; LReadOpen; LCtxExpire;
   LStore0 0; LLoadStop 0; LReadReq 0; LHandlerEnd 0; LWrite 0 false].

Lemma after_error_return_a_response_can_be_lost :
  match run (mkCfg false false false) init gave_up_trace with
  | Some s => sd s = SReturnedErr /\ map lost (conns s) = [1; 0]
  | None => False
  end.
Proof. vm_compute. repeat split; reflexivity. Qed.

Lemma idle_closed_by_pass cf s s' : step cf s LCloseIdle = Some s' ->
  forall c r, nth_error (conns s) c = Some r -> idle_keepalive s r ->
    exists r', nth_error (conns s') c = Some r' /\ srvClosed r' = true /\ pc r' = CPeek /\ buffered r' <= 0.
Proof.
  intros Hs c r Hn (Hp & Hm & Hi & Ht & Hb). destruct (close_pass _ _ _ Hs) as [_ H]. destruct (H _ _ Hn Hm Hi Ht) as (r' & Hn' & Hc & _ & Hp').
  exists r'. split; [exact Hn'|]. split; [exact Hc|]. split; [congruence|].
  cbn [step] in Hs. destruct (sd s); try discriminate. injection Hs as <-. cbn [conns] in Hn'. rewrite nth_error_map, Hn in Hn'. injection Hn' as <-.
  unfold close_if_idle. destruct (_ && _); cbn; exact Hb.
Qed.

(* ---- reuse: two Serve / Shutdown cycles on one Server, then a timed-out call and a call after it ------------------------------------ *)
Definition one_request (c k : nat) : list label :=
  [LAccept k; LOpenInc c; LSend c; LRegIdle c; LSetDeadline c; LPeekOk c; LStore0 c; LLoadStop c; LReadReq c].
Definition begin_shutdown (k : nat) : list label :=
  [LSetStop; LCloseListeners; LAcceptFail k; LCloseDone; LCloseIdle; LReadServing; LReadOpen].
Definition answer_and_leave (c : nat) : list label :=
  [LHandlerEnd c; LWrite c false; LStoreT c; LCheckStop c; LUnregIdle c; LOpenDec c].
Definition next_pass : list label := [LTicker; LCloseIdle; LReadServing; LReadOpen].

Definition cycle1 : list label := [LServeStart] ++ one_request 0 0 ++ begin_shutdown 0 ++ answer_and_leave 0 ++ next_pass.
Definition cycle2_until_done_closed : list label := [LServeStart] ++ one_request 1 1 ++ begin_shutdown 1.

Lemma reuse_example :
  match run (mkCfg false false false) init cycle1 with
  | Some s1 =>
      (* first cycle over: returned nil, s.done = nil, s.doneClosed = false, channel 0 closed *)
      sd s1 = SReturnedNil /\ done (dn s1) = None /\ dflag (dn s1) = false /\ closedch (dn s1) = [O] /\
      match run (mkCfg false false false) s1 cycle2_until_done_closed with
      | Some s2 =>
          (* second cycle: Serve made a fresh channel, the handler in flight holds it, this Shutdown has closed it *)
          sd s2 = SWait /\ map cdone (conns s2) = [Some O; Some 1%nat] /\ n_handlers s2 = 1 /\
          done (dn s2) = Some 1%nat /\ chan_closed (dn s2) 1 = true /\
          (* the context expires; a further Shutdown call takes the `s.ln == nil` shortcut and returns nil at once although the handler
             still runs ("When ShutdownWithContext returns errors, any operation to the Server is unavailable"): the pending failure is
             what `just_shut_down` excludes; the handler's channel stays closed *)
          match run (mkCfg false false false) s2 [LCtxExpire; LSetStop] with
          | Some s3 => sd s3 = SReturnedNil /\ tainted (dn s3) = true /\ n_handlers s3 = 1 /\ chan_closed (dn s3) 1 = true /\
                       (* Serve once more on the tainted server: it keeps the closed channel *)
                       match run (mkCfg false false false) s3 ([LServeStart] ++ one_request 2 2) with
                       | Some s4 => map cdone (conns s4) = [Some O; Some 1%nat; Some 1%nat] /\ chan_closed (dn s4) 1 = true
                       | None => False
                       end
          | None => False
          end
      | None => False
      end
  | None => False
  end.
Proof. vm_compute. repeat split; reflexivity. Qed.

(* a NEW connection starts with the marker connTime+5s: left silent for 5 s it is idle for closeIdleConns as well.  Its FIRST request has just been
   read (Peek returned, Store(0) not yet done) when Shutdown's pass closes it: the goroutine finds it untracked and leaves, no handler is started *)
Definition fresh_conn_trace : list label :=
  [LServeStart; LAccept 0; LOpenInc 0; LRegIdle 0; LSetDeadline 0; LTick 5; LSend 0; LPeekOk 0;
   LSetStop; LCloseListeners; LAcceptFail 0; LCloseDone; LCloseIdle; LReadServing; LReadOpen;
   LStore0 0; LLoadStop 0; LLookup 0; LUnregIdle 0; LOpenDec 0; LTicker; LCloseIdle; LReadServing; LReadOpen].

Lemma fresh_conn_first_request_is_not_served :
  (match run (mkCfg false false false) init (firstn 13 fresh_conn_trace) with
   | Some s => map srvClosed (conns s) = [true] /\ map pc (conns s) = [CGotByte]       (* closed as idle with its first request in hand *)
   | None => False
   end) /\
  (match run (mkCfg false false false) init fresh_conn_trace with
   | Some s => sd s = SReturnedNil /\ map started (conns s) = [0] /\ n_lost s = 0
   | None => False
   end) /\
  (* without the 5 s the pass leaves the new connection alone and the request is served *)
  (match run (mkCfg false false false) init [LServeStart; LAccept 0; LOpenInc 0; LRegIdle 0; LSetDeadline 0; LSend 0; LPeekOk 0;
                                        LSetStop; LCloseListeners; LAcceptFail 0; LCloseDone; LCloseIdle; LReadServing; LReadOpen;
                                        LStore0 0; LLoadStop 0; LLookup 0; LReadReq 0] with
   | Some s => map srvClosed (conns s) = [false] /\ n_handlers s = 1
   | None => False
   end).
Proof. vm_compute. repeat split; reflexivity. Qed.
