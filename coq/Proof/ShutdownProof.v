(* Proofs for C15 over the LTS of Model/Shutdown.v: counting invariants for s.open / s.serving, what holds when Shutdown
   returns nil, what happened to started handlers. *)
From Coq Require Import List ZArith Bool Arith Lia ZifyBool ZifyNat.
From FH Require Import Model.Shutdown.
Import ListNotations.
Open Scope Z_scope.

(* ---- lists -------------------------------------------------------------------------------------------------- *)
Lemma sumf_app {A} (f : A -> Z) l1 l2 : sumf f (l1 ++ l2) = sumf f l1 + sumf f l2.
Proof. induction l1 as [|x l1 IH]; cbn [sumf app]; lia. Qed.

Lemma sumf_upd {A} (f : A -> Z) l c r r' :
  nth_error l c = Some r -> sumf f (upd l c r') = sumf f l - f r + f r'.
Proof.
  revert c; induction l as [|x l IH]; intros [|c] H; cbn in H; try discriminate.
  - injection H as ->. cbn [upd sumf]. lia.
  - cbn [upd sumf]. rewrite (IH _ H). lia.
Qed.

Lemma sumf_map {A} (f : A -> Z) (g : A -> A) l : (forall x, f (g x) = f x) -> sumf f (map g l) = sumf f l.
Proof. intros H. induction l as [|x l IH]; cbn [sumf map]; [reflexivity|]. rewrite H, IH. reflexivity. Qed.

Lemma sumf_nonneg {A} (f : A -> Z) l : (forall x, 0 <= f x) -> 0 <= sumf f l.
Proof. intros H; induction l as [|x l IH]; cbn [sumf]; [lia|]. specialize (H x). lia. Qed.

Lemma sumf_zero_all {A} (f : A -> Z) l : (forall x, 0 <= f x) -> sumf f l = 0 -> forall x, In x l -> f x = 0.
Proof.
  intros H. induction l as [|y l IH]; cbn [sumf]; intros Hs x Hin; [destruct Hin|].
  pose proof (sumf_nonneg f l H). pose proof (H y). destruct Hin as [->|Hin]; [lia|]. apply IH; [lia|exact Hin].
Qed.

Lemma sumf_pos_in {A} (f : A -> Z) l x : (forall y, 0 <= f y) -> In x l -> f x <= sumf f l.
Proof.
  intros H. induction l as [|y l IH]; cbn [sumf]; intros Hin; [destruct Hin|].
  pose proof (sumf_nonneg f l H). pose proof (H y). destruct Hin as [->|Hin]; [lia|]. specialize (IH Hin). lia.
Qed.

Lemma nth_error_upd_same {A} (l : list A) c x r : nth_error l c = Some r -> nth_error (upd l c x) c = Some x.
Proof. revert c; induction l as [|y l IH]; intros [|c] H; cbn in *; try discriminate; auto. Qed.

Lemma nth_error_upd_other {A} (l : list A) c c' x : c <> c' -> nth_error (upd l c x) c' = nth_error l c'.
Proof. revert c c'; induction l as [|y l IH]; intros [|c] [|c'] H; cbn; auto; try congruence. Qed.

Lemma length_upd {A} (l : list A) c x : length (upd l c x) = length l.
Proof. revert c; induction l as [|y l IH]; intros [|c]; cbn; auto. Qed.

Lemma Forall_upd {A} (P : A -> Prop) l c x : Forall P l -> P x -> Forall P (upd l c x).
Proof. intros H; revert c; induction H as [|y l Hy Hl IH]; intros [|c] Hx; cbn; constructor; auto. Qed.

Lemma Forall_nth {A} (P : A -> Prop) l c r : Forall P l -> nth_error l c = Some r -> P r.
Proof. intros H Hn. rewrite Forall_forall in H. apply H. eapply nth_error_In; eauto. Qed.

Lemma In_upd {A} (l : list A) c x y : In y (upd l c x) -> y = x \/ In y l.
Proof. revert c; induction l as [|z l IH]; intros [|c] H; cbn in *; auto; destruct H as [H|H]; auto. destruct (IH _ H); auto. Qed.

Lemma loops_upd_lookup (ls : list loop) k lp' k' lp0 :
  nth_error (upd ls k lp') k' = Some lp0 ->
  (k' = k /\ lp0 = lp' /\ exists lp, nth_error ls k = Some lp) \/ (k' <> k /\ nth_error ls k' = Some lp0).
Proof.
  intros H. destruct (Nat.eq_dec k k') as [->|Hne].
  - left. destruct (nth_error ls k') as [lp|] eqn:E.
    + rewrite (nth_error_upd_same _ _ _ _ E) in H. injection H as <-. eauto.
    + exfalso. assert (Hl : (length (upd ls k' lp') <= k')%nat) by (rewrite length_upd; now apply nth_error_None).
      apply nth_error_None in Hl. congruence.
  - right. rewrite nth_error_upd_other in H by exact Hne. auto.
Qed.

Lemma nth_error_app_last {A} (l : list A) x k y : nth_error (l ++ [x]) k = Some y ->
  (nth_error l k = Some y) \/ (k = length l /\ y = x).
Proof.
  intros H. destruct (Nat.lt_ge_cases k (length l)) as [Hlt|Hge].
  - left. now rewrite nth_error_app1 in H.
  - right. rewrite nth_error_app2 in H by lia. destruct (k - length l)%nat as [|j] eqn:E.
    + cbn in H. injection H as <-. split; [lia|reflexivity].
    + cbn in H. destruct j; discriminate.
Qed.

(* ---- what is counted ---------------------------------------------------------------------------------------------- *)
Definition cnt_open (r : conn) : Z :=
  match pc r with CAccepted | CClosed => 0 | _ => 1 end.

Definition acc_at (k : nat) (r : conn) : Z :=
  match pc r with CAccepted => if Nat.eqb (loopid r) k then 1 else 0 | _ => 0 end.

Definition inprog (r : conn) : Z := match pc r with CHandler | CWrite => 1 | _ => 0 end.

(* per connection: the ghost accounting of started handlers *)
Definition cwf (r : conn) : Prop :=
  started r = delivered r + lost r + lostc r + unflushed r + inprog r /\
  0 <= delivered r /\ 0 <= lost r /\ 0 <= lostc r /\ 0 <= unflushed r /\ 0 <= buffered r /\ 0 <= inflight r.

Definition sd_active (p : spc) : bool :=
  match p with SStopSet | SLnClosed | SLoop | SReadServing | SReadOpen | SWait => true | _ => false end.

Definition past_close_listeners (p : spc) : bool :=
  match p with SNotCalled | SStopSet => false | _ => true end.

Definition past_close_done (p : spc) : bool :=
  match p with SLoop | SReadServing | SReadOpen | SWait | SReturnedErr => true | _ => false end.

Record inv (s : st) : Prop := mkInv {
  i_open : open s = sumf cnt_open (conns s);
  i_serving : serving s = sumf (fun lp => b2z (lrunning lp)) (loops s);
  i_loopid : Forall (fun r => (loopid r < length (loops s))%nat) (conns s);
  i_acc : forall k lp, nth_error (loops s) k = Some lp ->
            sumf (acc_at k) (conns s) = b2z (lbusy lp) /\ (lbusy lp = true -> lrunning lp = true);
  i_ln : past_close_listeners (sd s) = true -> (loops s <> [] -> Forall (fun lp => lnopen lp = false) (loops s));
  i_ro : sd s = SReadOpen -> serving s = 0;
  i_ret : sd s = SReturnedNil -> Forall (fun r => pc r = CClosed) (conns s) /\ Forall (fun lp => lrunning lp = false) (loops s);
  i_done : past_close_done (sd s) = true \/ (sd s = SReturnedNil /\ loops s <> []) -> doneClosed s = true;
  i_stop : stop s = sd_active (sd s);
  i_wf : Forall cwf (conns s);
  i_noloops : loops s = [] -> conns s = [] /\ (sd s = SNotCalled \/ sd s = SReturnedNil)
}.

Lemma inv_init : inv init.
Proof.
  constructor; cbn; auto; try discriminate.
  - intros [|k] lp H; discriminate.
  - intros [H|[H _]]; discriminate.
Qed.

Lemma b2z_range b : 0 <= b2z b <= 1.
Proof. destruct b; cbn; lia. Qed.

Lemma acc_at_nonneg k r : 0 <= acc_at k r.
Proof. unfold acc_at. destruct (pc r); try lia. destruct (Nat.eqb (loopid r) k); lia. Qed.

Lemma cnt_open_nonneg r : 0 <= cnt_open r.
Proof. unfold cnt_open. destruct (pc r); lia. Qed.

(* a step of connection thread c that is not the acceptor's *)
Lemma inv_conn s c r r' oo :
  inv s -> nth_error (conns s) c = Some r -> loopid r' = loopid r ->
  (forall k, acc_at k r' = acc_at k r) ->
  oo = open s - cnt_open r + cnt_open r' ->
  (pc r = CClosed -> pc r' = CClosed) -> cwf r' ->
  inv (mkSt (stop s) (doneClosed s) (serving s) oo (now s) (sd s) (upd (conns s) c r') (loops s)).
Proof.
  intros I Hn Hl Hp Ho Hc Hw. constructor; cbn [stop doneClosed serving open now sd conns loops].
  - rewrite (sumf_upd _ _ _ _ _ Hn). rewrite <- (i_open _ I). exact Ho.
  - apply (i_serving _ I).
  - apply Forall_upd; [apply (i_loopid _ I)|]. rewrite Hl. exact (Forall_nth _ _ _ _ (i_loopid _ I) Hn).
  - intros k lp Hk. rewrite (sumf_upd _ _ _ _ _ Hn). destruct (i_acc _ I _ _ Hk) as [H1 H2]. split; [|exact H2].
    rewrite Hp. lia.
  - apply (i_ln _ I).
  - apply (i_ro _ I).
  - intros Hs. destruct (i_ret _ I Hs) as [H1 H2]. split; [|exact H2]. apply Forall_upd; [exact H1|].
    apply Hc. exact (Forall_nth _ _ _ _ H1 Hn).
  - apply (i_done _ I).
  - apply (i_stop _ I).
  - apply Forall_upd; [apply (i_wf _ I)|exact Hw].
  - intros Hl0. destruct (i_noloops _ I Hl0) as [Hc0 Hs]. rewrite Hc0 in Hn. destruct c; discriminate.
Qed.

(* a step of the Shutdown thread or of the clock that leaves connections and loops alone *)
Lemma inv_sd s st' dc p :
  inv s ->
  (past_close_listeners p = true -> Forall (fun lp => lnopen lp = false) (loops s)) ->
  (p = SReadOpen -> serving s = 0) ->
  (p = SReturnedNil -> Forall (fun r => pc r = CClosed) (conns s) /\ Forall (fun lp => lrunning lp = false) (loops s)) ->
  (past_close_done p = true \/ (p = SReturnedNil /\ loops s <> []) -> dc = true) ->
  st' = sd_active p ->
  (loops s = [] -> p = SNotCalled \/ p = SReturnedNil) ->
  forall t, inv (mkSt st' dc (serving s) (open s) t p (conns s) (loops s)).
Proof.
  intros I H1 H2 H3 H4 H5 H6 t. constructor; cbn [stop doneClosed serving open now sd conns loops]; auto; try apply I.
  intros Hl. destruct (i_noloops _ I Hl). auto.
Qed.

(* ---- preservation --------------------------------------------------------------------------------------------------- *)
Ltac conn_case I Hstep c :=
  let r := fresh "r" in let Hn := fresh "Hn" in
  destruct (nth_error (conns _) c) as [r|] eqn:Hn; [|discriminate Hstep];
  let Hwf := fresh "Hwf" in
  pose proof (Forall_nth _ _ _ _ (i_wf _ I) Hn) as Hwf;
  unfold cwf in Hwf;
  destruct r as [p lid im iv ts sc cc infl buf unf hjk stt del lst lsc abn];
  unfold set_pc, flush_exit, exit_loop in Hstep;
  cbn [pc loopid inmap ival tstart srvClosed cliClosed inflight buffered unflushed hijack started delivered lost lostc abandoned] in Hstep, Hwf.

Ltac brk_h H := repeat match type of H with
   | context[if ?b then _ else _] => destruct b eqn:?
   end.

Ltac fin I Hn := unfold set_conns; eapply inv_conn; [exact I|exact Hn|reflexivity|(let k := fresh in intros k; unfold acc_at; cbn; reflexivity)|unfold cnt_open; cbn; try lia; try (match goal with |- context[match ?q with _ => _ end] => destruct q end; lia)|cbn; try discriminate; auto|
   unfold cwf, inprog in *; cbn in *; repeat match goal with |- context[if ?b then _ else _] => destruct b end; lia].

Lemma sumf_zero_all_conv {A} (f : A -> Z) l : (forall x, In x l -> f x = 0) -> sumf f l = 0.
Proof. induction l as [|y l IH]; cbn [sumf]; intros H; [reflexivity|]. rewrite (H y (or_introl eq_refl)), IH; [reflexivity|]. intros x Hx. apply H. now right. Qed.

Lemma inv_step cf s l s' : inv s -> step cf s l = Some s' -> inv s'.
Proof.
  intros I Hstep. destruct l; cbn [step] in Hstep.
  - (* LServeStart *)
    destruct (shutdown_begun s) eqn:Eb; [discriminate|]. injection Hstep as <-.
    assert (Es : sd s = SNotCalled) by (unfold shutdown_begun in Eb; destruct (sd s); try discriminate; reflexivity).
    constructor; cbn [stop doneClosed serving open now sd conns loops].
    + apply (i_open _ I).
    + rewrite sumf_app. cbn. rewrite (i_serving _ I). lia.
    + eapply Forall_impl; [|exact (i_loopid _ I)]. intros r Hr. cbn beta in Hr. rewrite app_length. cbn [length]. lia.
    + intros k lp Hk. apply nth_error_app_last in Hk as [Hk|[-> ->]]; [exact (i_acc _ I _ _ Hk)|].
      cbn. split; [|discriminate]. apply sumf_zero_all_conv. intros r Hin. unfold acc_at.
      pose proof (i_loopid _ I) as Hf. rewrite Forall_forall in Hf. specialize (Hf _ Hin).
      destruct (pc r); try reflexivity. destruct (Nat.eqb (loopid r) (length (loops s))) eqn:E; [apply Nat.eqb_eq in E; lia|reflexivity].
    + rewrite Es. discriminate.
    + rewrite Es. discriminate.
    + rewrite Es. discriminate.
    + rewrite Es. intros [H|[H _]]; discriminate.
    + apply (i_stop _ I).
    + apply (i_wf _ I).
    + intros H. destruct (loops s); discriminate.
  - (* LAccept *)
    destruct (nth_error (loops s) k) as [lp|] eqn:Hk; [|discriminate].
    destruct (lrunning lp && negb (lbusy lp) && lnopen lp) eqn:E; [|discriminate]. injection Hstep as <-.
    apply andb_true_iff in E as [E E3]. apply andb_true_iff in E as [E1 E2]. apply negb_true_iff in E2.
    constructor; cbn [stop doneClosed serving open now sd conns loops].
    + rewrite sumf_app. cbn. rewrite (i_open _ I). lia.
    + rewrite (sumf_upd _ _ _ _ _ Hk). cbn. rewrite E1. rewrite (i_serving _ I). cbn. lia.
    + rewrite length_upd. apply Forall_app. split; [apply (i_loopid _ I)|]. constructor; [|constructor]. cbn. apply nth_error_Some. congruence.
    + intros k' lp' Hk'. rewrite sumf_app. cbn [sumf]. unfold acc_at at 2. cbn [pc loopid].
      apply loops_upd_lookup in Hk' as [(-> & -> & _)|(Hne & Hk')].
      * rewrite Nat.eqb_refl. destruct (i_acc _ I _ _ Hk) as [Ha _]. rewrite Ha, E2. cbn. split; [lia|reflexivity].
      * destruct (Nat.eqb k k') eqn:E; [apply Nat.eqb_eq in E; congruence|]. destruct (i_acc _ I _ _ Hk') as [Ha Hb]. split; [lia|exact Hb].
    + intros Hp Hne. exfalso. assert (Hl : loops s <> []) by (intros H; rewrite H in Hk; destruct k; discriminate).
      pose proof (i_ln _ I Hp Hl) as Hf. rewrite Forall_forall in Hf. rewrite (Hf lp) in E3 by (eapply nth_error_In; eauto). discriminate.
    + apply (i_ro _ I).
    + intros Hs. destruct (i_ret _ I Hs) as [_ Hr]. rewrite Forall_forall in Hr. rewrite (Hr lp) in E1 by (eapply nth_error_In; eauto). discriminate.
    + intros H. apply (i_done _ I). destruct H as [H|[H1 H2]]; [left; exact H|right; split; [exact H1|]]. intros H; rewrite H in Hk; destruct k; discriminate.
    + apply (i_stop _ I).
    + apply Forall_app. split; [apply (i_wf _ I)|]. constructor; [|constructor]. unfold cwf, inprog. cbn. lia.
    + intros H. exfalso. assert (length (upd (loops s) k (mkLoop true true (lnopen lp))) = 0%nat) by (rewrite H; reflexivity).
      rewrite length_upd in H0. destruct (loops s); [destruct k; discriminate|discriminate].
  - (* LOpenInc *)
    conn_case I Hstep c. destruct p; try discriminate Hstep.
    destruct (nth_error (loops s) lid) as [lp|] eqn:Hk; [|discriminate]. injection Hstep as <-.
    destruct (i_acc _ I _ _ Hk) as [Ha Hb].
    assert (Hin : In (mkConn CAccepted lid im iv ts sc cc infl buf unf hjk stt del lst lsc abn) (conns s)) by (eapply nth_error_In; eauto).
    assert (Hbusy : lbusy lp = true).
    { pose proof (sumf_pos_in (acc_at lid) (conns s) _ (acc_at_nonneg lid) Hin) as H. unfold acc_at at 1 in H. cbn in H. rewrite Nat.eqb_refl in H.
      rewrite Ha in H. destruct (lbusy lp); [reflexivity|cbn in H; lia]. }
    constructor; cbn [stop doneClosed serving open now sd conns loops].
    + rewrite (sumf_upd _ _ _ _ _ Hn). rewrite (i_open _ I). unfold cnt_open. cbn. lia.
    + rewrite (sumf_upd _ _ _ _ _ Hk). cbn. rewrite (i_serving _ I). lia.
    + rewrite length_upd. apply Forall_upd; [apply (i_loopid _ I)|]. cbn. exact (Forall_nth _ _ _ _ (i_loopid _ I) Hn).
    + intros k' lp' Hk'. rewrite (sumf_upd _ _ _ _ _ Hn). unfold acc_at at 2 3. cbn [pc loopid].
      apply loops_upd_lookup in Hk' as [(-> & -> & _)|(Hne & Hk')].
      * rewrite Nat.eqb_refl. rewrite Ha, Hbusy. cbn. split; [lia|discriminate].
      * destruct (Nat.eqb lid k') eqn:E; [apply Nat.eqb_eq in E; congruence|]. destruct (i_acc _ I _ _ Hk') as [Ha' Hb']. split; [lia|exact Hb'].
    + intros Hp Hne. assert (Hl : loops s <> []) by (intros H; rewrite H in Hk; destruct lid; discriminate).
      pose proof (i_ln _ I Hp Hl) as Hf. apply Forall_upd; [exact Hf|]. cbn. rewrite Forall_forall in Hf. apply Hf. eapply nth_error_In; eauto.
    + apply (i_ro _ I).
    + intros Hs. destruct (i_ret _ I Hs) as [Hr _]. rewrite Forall_forall in Hr. specialize (Hr _ Hin). discriminate.
    + intros H. apply (i_done _ I). destruct H as [H|[H1 H2]]; [left; exact H|right; split; [exact H1|]]. intros H; rewrite H in Hk; destruct lid; discriminate.
    + apply (i_stop _ I).
    + apply Forall_upd; [apply (i_wf _ I)|]. unfold cwf, inprog in *. cbn in *. exact Hwf.
    + intros H. exfalso. assert (length (upd (loops s) lid (mkLoop (lrunning lp) false (lnopen lp))) = 0%nat) by (rewrite H; reflexivity).
      rewrite length_upd in H0. destruct (loops s); [destruct lid; discriminate|discriminate].
  - (* LAcceptFail *)
    destruct (nth_error (loops s) k) as [lp|] eqn:Hk; [|discriminate].
    destruct (lrunning lp && negb (lbusy lp) && negb (lnopen lp)) eqn:E; [|discriminate]. injection Hstep as <-.
    apply andb_true_iff in E as [E E3]. apply andb_true_iff in E as [E1 E2]. apply negb_true_iff in E2. apply negb_true_iff in E3.
    assert (Hl : loops s <> []) by (intros H; rewrite H in Hk; destruct k; discriminate).
    constructor; cbn [stop doneClosed serving open now sd conns loops].
    + apply (i_open _ I).
    + rewrite (sumf_upd _ _ _ _ _ Hk). cbn. rewrite E1. rewrite (i_serving _ I). cbn. lia.
    + rewrite length_upd. apply (i_loopid _ I).
    + intros k' lp' Hk'. apply loops_upd_lookup in Hk' as [(-> & -> & _)|(Hne & Hk')]; [|exact (i_acc _ I _ _ Hk')].
      destruct (i_acc _ I _ _ Hk) as [Ha _]. rewrite Ha, E2. cbn. split; [reflexivity|discriminate].
    + intros Hp Hne. apply Forall_upd; [exact (i_ln _ I Hp Hl)|reflexivity].
    + intros Hs. pose proof (i_ro _ I Hs) as H0. rewrite (i_serving _ I) in H0.
      pose proof (sumf_zero_all (fun lp => b2z (lrunning lp)) (loops s) (fun x => proj1 (b2z_range (lrunning x))) H0 lp (nth_error_In _ _ Hk)) as H.
      cbn in H. rewrite E1 in H. discriminate.
    + intros Hs. destruct (i_ret _ I Hs) as [Hr1 Hr2]. split; [exact Hr1|]. apply Forall_upd; [exact Hr2|reflexivity].
    + intros H. apply (i_done _ I). destruct H as [H|[H1 H2]]; [left; exact H|right; split; [exact H1|exact Hl]].
    + apply (i_stop _ I).
    + apply (i_wf _ I).
    + intros H. exfalso. assert (length (upd (loops s) k (mkLoop false false false)) = 0%nat) by (rewrite H; reflexivity).
      rewrite length_upd in H0. destruct (loops s); [destruct k; discriminate|discriminate].
  - (* LRegIdle *) conn_case I Hstep c. destruct p; try discriminate Hstep. injection Hstep as <-. fin I Hn.
  - (* LSetDeadline *) conn_case I Hstep c. destruct p; try discriminate Hstep. brk_h Hstep; injection Hstep as <-; fin I Hn.
  - (* LPeekOk *) conn_case I Hstep c. destruct p; try discriminate Hstep. brk_h Hstep; try discriminate Hstep; injection Hstep as <-; fin I Hn.
  - (* LPeekFail *) conn_case I Hstep c. destruct p; try discriminate Hstep. brk_h Hstep; try discriminate Hstep; injection Hstep as <-; fin I Hn.
  - (* LStore0 *) conn_case I Hstep c. destruct p; try discriminate Hstep. injection Hstep as <-. fin I Hn.
  - (* LLoadStop *) conn_case I Hstep c. destruct p; try discriminate Hstep. destruct (stop s) eqn:Est; injection Hstep as <-; fin I Hn.
  - (* LLookup *) conn_case I Hstep c. destruct p; try discriminate Hstep. destruct im; injection Hstep as <-; fin I Hn.
  - (* LReadReq *) conn_case I Hstep c. destruct p; try discriminate Hstep. brk_h Hstep; try discriminate Hstep; injection Hstep as <-; fin I Hn.
  - (* LHandlerEnd *) conn_case I Hstep c. destruct p; try discriminate Hstep. injection Hstep as <-. fin I Hn.
  - (* LAbandon *) conn_case I Hstep c. destruct p; try discriminate Hstep. injection Hstep as <-. fin I Hn.
  - (* LHijack *) conn_case I Hstep c. destruct p; try discriminate Hstep. injection Hstep as <-. fin I Hn.
  - (* LWrite *) conn_case I Hstep c. destruct p; try discriminate Hstep. brk_h Hstep; try discriminate Hstep; injection Hstep as <-; fin I Hn.
  - (* LStoreT *) conn_case I Hstep c. destruct p; try discriminate Hstep. injection Hstep as <-. fin I Hn.
  - (* LCheckStop *) conn_case I Hstep c. destruct p; try discriminate Hstep. brk_h Hstep; injection Hstep as <-; fin I Hn.
  - (* LUnregIdle *) conn_case I Hstep c. destruct p; try discriminate Hstep. injection Hstep as <-. fin I Hn.
  - (* LOpenDec *) conn_case I Hstep c. destruct p; try discriminate Hstep. injection Hstep as <-. fin I Hn.
  - (* LSetStop *)
    destruct (sd s) eqn:Es; try discriminate Hstep. destruct (loops s) as [|lp0 ls] eqn:El.
    + injection Hstep as <-. unfold set_sd. destruct (i_noloops _ I El) as [Hc _]. pose proof (i_stop _ I) as Hst. rewrite Es in Hst. cbn in Hst.
      rewrite Hst. apply inv_sd; auto; try discriminate.
      * intros _. rewrite El. constructor.
      * intros _. rewrite Hc, El. split; constructor.
      * intros [H|[_ H]]; [discriminate|]. rewrite El in H. congruence.
    + injection Hstep as <-. rewrite <- El. apply inv_sd; auto; try discriminate.
      * intros [H|[H _]]; discriminate.
      * intros H. rewrite El in H. discriminate.
  - (* LCloseListeners *)
    destruct (sd s) eqn:Es; try discriminate Hstep. injection Hstep as <-.
    pose proof (i_stop _ I) as Hst. rewrite Es in Hst. cbn in Hst.
    constructor; cbn [stop doneClosed serving open now sd conns loops].
    + apply (i_open _ I).
    + rewrite (i_serving _ I). clear. induction (loops s) as [|x l IH]; cbn [sumf map]; [reflexivity|]. cbn [lrunning]. lia.
    + rewrite map_length. apply (i_loopid _ I).
    + intros k lp Hk. rewrite nth_error_map in Hk. destruct (nth_error (loops s) k) as [lp0|] eqn:E; [|discriminate].
      cbn in Hk. injection Hk as <-. cbn. exact (i_acc _ I _ _ E).
    + intros _ _. apply Forall_forall. intros lp Hin. apply in_map_iff in Hin as (x & <- & _). reflexivity.
    + discriminate.
    + discriminate.
    + intros [H|[H _]]; discriminate.
    + exact Hst.
    + apply (i_wf _ I).
    + intros Hl. destruct (loops s) eqn:El; [|discriminate]. destruct (i_noloops _ I El) as [_ [H|H]]; congruence.
  - (* LCloseDone *)
    destruct (sd s) eqn:Es; try discriminate Hstep. injection Hstep as <-.
    pose proof (i_stop _ I) as Hst. rewrite Es in Hst. cbn in Hst. rewrite Hst.
    apply inv_sd; auto; try discriminate.
    + intros _. destruct (loops s) eqn:El; [constructor|]. rewrite <- El. apply (i_ln _ I); [rewrite Es; reflexivity|congruence].
    + intros Hl. destruct (i_noloops _ I Hl) as [_ [H|H]]; congruence.
  - (* LCloseIdle *)
    destruct (sd s) eqn:Es; try discriminate Hstep. injection Hstep as <-.
    assert (Hpc : forall t r, pc (close_if_idle t r) = pc r) by (intros t r; unfold close_if_idle; destruct (_ && _); reflexivity).
    assert (Hlid : forall t r, loopid (close_if_idle t r) = loopid r) by (intros t r; unfold close_if_idle; destruct (_ && _); reflexivity).
    constructor; cbn [stop doneClosed serving open now sd conns loops].
    + rewrite sumf_map; [apply (i_open _ I)|]. intros r. unfold cnt_open. now rewrite Hpc.
    + apply (i_serving _ I).
    + apply Forall_forall. intros r Hin. apply in_map_iff in Hin as (x & <- & Hx). rewrite Hlid.
      pose proof (i_loopid _ I) as Hf. rewrite Forall_forall in Hf. auto.
    + intros k lp Hk. rewrite sumf_map; [exact (i_acc _ I _ _ Hk)|]. intros r. unfold acc_at. now rewrite Hpc, Hlid.
    + intros _. apply (i_ln _ I). rewrite Es. reflexivity.
    + discriminate.
    + discriminate.
    + intros _. apply (i_done _ I). left. rewrite Es. reflexivity.
    + pose proof (i_stop _ I) as Hst. rewrite Es in Hst. exact Hst.
    + apply Forall_forall. intros r Hin. apply in_map_iff in Hin as (x & <- & Hx).
      pose proof (i_wf _ I) as Hf. rewrite Forall_forall in Hf. specialize (Hf _ Hx).
      unfold close_if_idle. destruct (_ && _); [|exact Hf]. unfold cwf, inprog in *. cbn. exact Hf.
    + intros Hl. destruct (i_noloops _ I Hl) as [_ [H|H]]; congruence.
  - (* LReadServing *)
    destruct (sd s) eqn:Es; try discriminate Hstep. injection Hstep as <-. unfold set_sd.
    pose proof (i_stop _ I) as Hst. rewrite Es in Hst. cbn in Hst. rewrite Hst.
    assert (Hln : Forall (fun lp => lnopen lp = false) (loops s)).
    { destruct (loops s) eqn:El; [constructor|]. rewrite <- El. apply (i_ln _ I); [rewrite Es; reflexivity|congruence]. }
    assert (Hd : doneClosed s = true) by (apply (i_done _ I); left; rewrite Es; reflexivity).
    destruct (serving s =? 0) eqn:E0.
    + apply inv_sd; auto; try discriminate. lia. intros Hl. destruct (i_noloops _ I Hl) as [_ [H|H]]; congruence.
    + apply inv_sd; auto; try discriminate. intros Hl. destruct (i_noloops _ I Hl) as [_ [H|H]]; congruence.
  - (* LReadOpen *)
    destruct (sd s) eqn:Es; try discriminate Hstep.
    pose proof (i_stop _ I) as Hst. rewrite Es in Hst. cbn in Hst.
    assert (Hln : Forall (fun lp => lnopen lp = false) (loops s)).
    { destruct (loops s) eqn:El; [constructor|]. rewrite <- El. apply (i_ln _ I); [rewrite Es; reflexivity|congruence]. }
    assert (Hd : doneClosed s = true) by (apply (i_done _ I); left; rewrite Es; reflexivity).
    assert (Hnl : loops s = [] -> False) by (intros Hl; destruct (i_noloops _ I Hl) as [_ [H|H]]; congruence).
    destruct (open s =? 0) eqn:E0; injection Hstep as <-.
    + assert (Hall : Forall (fun r => pc r = CClosed) (conns s) /\ Forall (fun lp => lrunning lp = false) (loops s)).
      { pose proof (i_ro _ I Es) as Hs0. rewrite (i_serving _ I) in Hs0.
        assert (Hrun : Forall (fun lp => lrunning lp = false) (loops s)).
        { apply Forall_forall. intros lp Hin.
          pose proof (sumf_zero_all (fun lp => b2z (lrunning lp)) (loops s) (fun x => proj1 (b2z_range (lrunning x))) Hs0 lp Hin) as H.
          cbn in H. destruct (lrunning lp); [discriminate H|reflexivity]. }
        split; [|exact Hrun].
        assert (Ho : sumf cnt_open (conns s) = 0) by (rewrite <- (i_open _ I); lia).
        apply Forall_forall. intros r Hin.
        pose proof (sumf_zero_all cnt_open (conns s) cnt_open_nonneg Ho r Hin) as Hc.
        unfold cnt_open in Hc. destruct (pc r) eqn:Ep; try discriminate Hc; [|reflexivity]. exfalso.
        pose proof (i_loopid _ I) as Hf. rewrite Forall_forall in Hf. specialize (Hf _ Hin).
        destruct (nth_error (loops s) (loopid r)) as [lp|] eqn:El; [|apply nth_error_None in El; lia].
        destruct (i_acc _ I _ _ El) as [Ha Hb].
        assert (Hge : 1 <= sumf (acc_at (loopid r)) (conns s)).
        { pose proof (sumf_pos_in (acc_at (loopid r)) (conns s) r (acc_at_nonneg (loopid r)) Hin) as H.
          unfold acc_at at 1 in H. rewrite Ep, Nat.eqb_refl in H. exact H. }
        rewrite Ha in Hge. destruct (lbusy lp) eqn:Eb; [|cbn in Hge; lia].
        specialize (Hb eq_refl). rewrite Forall_forall in Hrun. rewrite (Hrun lp) in Hb by (eapply nth_error_In; eauto). discriminate. }
      apply inv_sd; [exact I|intros _; exact Hln|discriminate|intros _; exact Hall|intros _; exact Hd|reflexivity|intros Hl; destruct (Hnl Hl)].
    + unfold set_sd. rewrite Hst. apply inv_sd; auto; try discriminate. intros Hl; destruct (Hnl Hl).
  - (* LTicker *)
    destruct (sd s) eqn:Es; try discriminate Hstep. injection Hstep as <-. unfold set_sd.
    pose proof (i_stop _ I) as Hst. rewrite Es in Hst. cbn in Hst. rewrite Hst.
    apply inv_sd; auto; try discriminate.
    + intros _. destruct (loops s) eqn:El; [constructor|]. rewrite <- El. apply (i_ln _ I); [rewrite Es; reflexivity|congruence].
    + intros _. apply (i_done _ I). left. rewrite Es. reflexivity.
    + intros Hl. destruct (i_noloops _ I Hl) as [_ [H|H]]; congruence.
  - (* LCtxExpire *)
    destruct (sd s) eqn:Es; try discriminate Hstep. injection Hstep as <-.
    apply inv_sd; auto; try discriminate.
    + intros _. destruct (loops s) eqn:El; [constructor|]. rewrite <- El. apply (i_ln _ I); [rewrite Es; reflexivity|congruence].
    + intros _. apply (i_done _ I). left. rewrite Es. reflexivity.
    + intros Hl. destruct (i_noloops _ I Hl) as [_ [H|H]]; congruence.
  - (* LSend *)
    conn_case I Hstep c. destruct cc; try discriminate Hstep. injection Hstep as <-. fin I Hn.
  - (* LClientClose *)
    conn_case I Hstep c. injection Hstep as <-. fin I Hn.
  - (* LTick *)
    destruct (d <? 0); [discriminate|]. injection Hstep as <-. rewrite (i_stop _ I).
    apply inv_sd; [exact I| |apply (i_ro _ I)|apply (i_ret _ I)|apply (i_done _ I)|reflexivity|].
    + intros Hp. destruct (loops s) eqn:El; [constructor|]. rewrite <- El. apply (i_ln _ I); [exact Hp|congruence].
    + intros Hl. destruct (i_noloops _ I Hl) as [_ H]. exact H.
Qed.

Lemma inv_reach cf s : reach cf s -> inv s.
Proof. induction 1 as [|s l s' _ IH Hs]; [apply inv_init|exact (inv_step _ _ _ _ IH Hs)]. Qed.

Lemma run_reach cf tr : forall s0 s, reach cf s0 -> run cf s0 tr = Some s -> reach cf s.
Proof.
  induction tr as [|l tr IH]; intros s0 s R H; cbn in H; [injection H as <-; exact R|].
  destruct (step cf s0 l) as [s1|] eqn:E; [|discriminate]. eapply IH; [|exact H]. eapply reach_step; eauto.
Qed.
