(* Proofs for C15 over the LTS of Model/Shutdown.v: counting invariants for s.open / s.serving, what holds when Shutdown
   returns nil, what happened to started handlers. *)
From Coq Require Import List ZArith Bool Arith Lia ZifyBool ZifyNat.
From FH Require Import Model.Shutdown.
Import ListNotations.
Open Scope Z_scope.

(* ---- lists -------------------------------------------------------------------------------------------------- *)
Lemma sumf_app {A} (f : A -> Z) l1 l2 : sumf f (l1 ++ l2) = sumf f l1 + sumf f l2.
Proof. induction l1 as [|x l1 IH]; cbn [sumf app]; lia. Qed.

Lemma sumf_upd {A} (f : A -> Z) l c r r' :
  nth_error l c = Some r -> sumf f (upd l c r') = sumf f l - f r + f r'.
Proof.
  revert c; induction l as [|x l IH]; intros [|c] H; cbn in H; try discriminate.
  - injection H as ->. cbn [upd sumf]. lia.
  - cbn [upd sumf]. rewrite (IH _ H). lia.
Qed.

Lemma sumf_map {A} (f : A -> Z) (g : A -> A) l : (forall x, f (g x) = f x) -> sumf f (map g l) = sumf f l.
Proof. intros H. induction l as [|x l IH]; cbn [sumf map]; [reflexivity|]. rewrite H, IH. reflexivity. Qed.

Lemma sumf_nonneg {A} (f : A -> Z) l : (forall x, 0 <= f x) -> 0 <= sumf f l.
Proof. intros H; induction l as [|x l IH]; cbn [sumf]; [lia|]. specialize (H x). lia. Qed.

Lemma sumf_zero_all {A} (f : A -> Z) l : (forall x, 0 <= f x) -> sumf f l = 0 -> forall x, In x l -> f x = 0.
Proof.
  intros H. induction l as [|y l IH]; cbn [sumf]; intros Hs x Hin; [destruct Hin|].
  pose proof (sumf_nonneg f l H). pose proof (H y). destruct Hin as [->|Hin]; [lia|]. apply IH; [lia|exact Hin].
Qed.

Lemma sumf_pos_in {A} (f : A -> Z) l x : (forall y, 0 <= f y) -> In x l -> f x <= sumf f l.
Proof.
  intros H. induction l as [|y l IH]; cbn [sumf]; intros Hin; [destruct Hin|].
  pose proof (sumf_nonneg f l H). pose proof (H y). destruct Hin as [->|Hin]; [lia|]. specialize (IH Hin). lia.
Qed.

Lemma nth_error_upd_same {A} (l : list A) c x r : nth_error l c = Some r -> nth_error (upd l c x) c = Some x.
Proof. revert c; induction l as [|y l IH]; intros [|c] H; cbn in *; try discriminate; auto. Qed.

Lemma nth_error_upd_other {A} (l : list A) c c' x : c <> c' -> nth_error (upd l c x) c' = nth_error l c'.
Proof. revert c c'; induction l as [|y l IH]; intros [|c] [|c'] H; cbn; auto; try congruence. Qed.

Lemma length_upd {A} (l : list A) c x : length (upd l c x) = length l.
Proof. revert c; induction l as [|y l IH]; intros [|c]; cbn; auto. Qed.

Lemma Forall_upd {A} (P : A -> Prop) l c x : Forall P l -> P x -> Forall P (upd l c x).
Proof. intros H; revert c; induction H as [|y l Hy Hl IH]; intros [|c] Hx; cbn; constructor; auto. Qed.

Lemma Forall_nth {A} (P : A -> Prop) l c r : Forall P l -> nth_error l c = Some r -> P r.
Proof. intros H Hn. rewrite Forall_forall in H. apply H. eapply nth_error_In; eauto. Qed.

Lemma In_upd {A} (l : list A) c x y : In y (upd l c x) -> y = x \/ In y l.
Proof. revert c; induction l as [|z l IH]; intros [|c] H; cbn in *; auto; destruct H as [H|H]; auto. destruct (IH _ H); auto. Qed.

Lemma loops_upd_lookup (ls : list loop) k lp' k' lp0 :
  nth_error (upd ls k lp') k' = Some lp0 ->
  (k' = k /\ lp0 = lp' /\ exists lp, nth_error ls k = Some lp) \/ (k' <> k /\ nth_error ls k' = Some lp0).
Proof.
  intros H. destruct (Nat.eq_dec k k') as [->|Hne].
  - left. destruct (nth_error ls k') as [lp|] eqn:E.
    + rewrite (nth_error_upd_same _ _ _ _ E) in H. injection H as <-. eauto.
    + exfalso. assert (Hl : (length (upd ls k' lp') <= k')%nat) by (rewrite length_upd; now apply nth_error_None).
      apply nth_error_None in Hl. congruence.
  - right. rewrite nth_error_upd_other in H by exact Hne. auto.
Qed.

Lemma nth_error_app_last {A} (l : list A) x k y : nth_error (l ++ [x]) k = Some y ->
  (nth_error l k = Some y) \/ (k = length l /\ y = x).
Proof.
  intros H. destruct (Nat.lt_ge_cases k (length l)) as [Hlt|Hge].
  - left. now rewrite nth_error_app1 in H.
  - right. rewrite nth_error_app2 in H by lia. destruct (k - length l)%nat as [|j] eqn:E.
    + cbn in H. injection H as <-. split; [lia|reflexivity].
    + cbn in H. destruct j; discriminate.
Qed.

(* ---- what is counted ---------------------------------------------------------------------------------------------- *)
Definition cnt_open (r : conn) : Z :=
  match pc r with CAccepted | CClosed => 0 | _ => 1 end.

Definition acc_at (k : nat) (r : conn) : Z :=
  match pc r with CAccepted => if Nat.eqb (loopid r) k then 1 else 0 | _ => 0 end.

Definition inprog (r : conn) : Z := match pc r with CHandler | CWrite => 1 | _ => 0 end.

(* per connection: the ghost accounting of started handlers *)
Definition cwf (r : conn) : Prop :=
  started r = delivered r + lost r + lostc r + unflushed r + inprog r /\
  0 <= delivered r /\ 0 <= lost r /\ 0 <= lostc r /\ 0 <= unflushed r /\ 0 <= buffered r /\ 0 <= inflight r.

Definition sd_active (p : spc) : bool :=
  match p with SStopSet | SLnClosed | SLoop | SReadServing | SReadOpen | SWait => true | _ => false end.

(* ShutdownWithContext is past closeListenersLocked and still running *)
Definition post_ln (p : spc) : bool :=
  match p with SLnClosed | SLoop | SReadServing | SReadOpen | SWait => true | _ => false end.

Lemma sd_running_active s : sd_running s = sd_active (sd s).
Proof. reflexivity. Qed.

(* ---- the counting invariant (any number of Serve / Shutdown cycles) --------------------------------------------------- *)
Record inv (s : st) : Prop := mkInv {
  i_open : open s = sumf cnt_open (conns s);
  i_serving : serving s = sumf (fun lp => b2z (lrunning lp)) (loops s);
  i_loopid : Forall (fun r => (loopid r < length (loops s))%nat) (conns s);
  i_acc : forall k lp, nth_error (loops s) k = Some lp ->
            sumf (acc_at k) (conns s) = b2z (lbusy lp) /\ (lbusy lp = true -> lrunning lp = true);
  i_ln : post_ln (sd s) = true -> Forall (fun lp => lnopen lp = false /\ inln lp = false) (loops s);
  i_ro : sd s = SReadOpen -> serving s = 0;
  i_stop : stop s = sd_active (sd s);
  i_wf : Forall cwf (conns s)
}.

Lemma inv_init : inv init.
Proof. constructor; cbn; auto; try discriminate. intros [|k] lp H; discriminate. Qed.

Lemma b2z_range b : 0 <= b2z b <= 1.
Proof. destruct b; cbn; lia. Qed.

Lemma acc_at_nonneg k r : 0 <= acc_at k r.
Proof. unfold acc_at. destruct (pc r); try lia. destruct (Nat.eqb (loopid r) k); lia. Qed.

Lemma cnt_open_nonneg r : 0 <= cnt_open r.
Proof. unfold cnt_open. destruct (pc r); lia. Qed.

Lemma sumf_zero_all_conv {A} (f : A -> Z) l : (forall x, In x l -> f x = 0) -> sumf f l = 0.
Proof. induction l as [|y l IH]; cbn [sumf]; intros H; [reflexivity|]. rewrite (H y (or_introl eq_refl)), IH; [reflexivity|]. intros x Hx. apply H. now right. Qed.

(* no Serve call running and nothing counted in s.open: every connection is finished *)
Lemma rest_from_counters s : inv s -> serving s = 0 -> open s = 0 ->
  Forall (fun r => pc r = CClosed) (conns s) /\ Forall (fun lp => lrunning lp = false) (loops s).
Proof.
  intros I Hs0 Ho0. rewrite (i_serving _ I) in Hs0.
  assert (Hrun : Forall (fun lp => lrunning lp = false) (loops s)).
  { apply Forall_forall. intros lp Hin.
    pose proof (sumf_zero_all (fun lp => b2z (lrunning lp)) (loops s) (fun x => proj1 (b2z_range (lrunning x))) Hs0 lp Hin) as H.
    cbn in H. destruct (lrunning lp); [discriminate H|reflexivity]. }
  split; [|exact Hrun].
  assert (Ho : sumf cnt_open (conns s) = 0) by (rewrite <- (i_open _ I); lia).
  apply Forall_forall. intros r Hin.
  pose proof (sumf_zero_all cnt_open (conns s) cnt_open_nonneg Ho r Hin) as Hc.
  unfold cnt_open in Hc. destruct (pc r) eqn:Ep; try discriminate Hc; [|reflexivity]. exfalso.
  pose proof (i_loopid _ I) as Hf. rewrite Forall_forall in Hf. specialize (Hf _ Hin).
  destruct (nth_error (loops s) (loopid r)) as [lp|] eqn:El; [|apply nth_error_None in El; lia].
  destruct (i_acc _ I _ _ El) as [Ha Hb].
  assert (Hge : 1 <= sumf (acc_at (loopid r)) (conns s)).
  { pose proof (sumf_pos_in (acc_at (loopid r)) (conns s) r (acc_at_nonneg (loopid r)) Hin) as H.
    unfold acc_at at 1 in H. rewrite Ep, Nat.eqb_refl in H. exact H. }
  rewrite Ha in Hge. destruct (lbusy lp) eqn:Eb; [|cbn in Hge; lia].
  specialize (Hb eq_refl). rewrite Forall_forall in Hrun. rewrite (Hrun lp) in Hb by (eapply nth_error_In; eauto). discriminate.
Qed.

(* a step of connection thread c that is not the acceptor's *)
Lemma inv_conn s c r r' oo :
  inv s -> nth_error (conns s) c = Some r -> loopid r' = loopid r ->
  (forall k, acc_at k r' = acc_at k r) ->
  oo = open s - cnt_open r + cnt_open r' -> cwf r' ->
  inv (mkSt (stop s) (dn s) (serving s) oo (now s) (sd s) (upd (conns s) c r') (loops s)).
Proof.
  intros I Hn Hl Hp Ho Hw. constructor; cbn [stop dn serving open now sd conns loops].
  - rewrite (sumf_upd _ _ _ _ _ Hn). rewrite <- (i_open _ I). exact Ho.
  - apply (i_serving _ I).
  - apply Forall_upd; [apply (i_loopid _ I)|]. rewrite Hl. exact (Forall_nth _ _ _ _ (i_loopid _ I) Hn).
  - intros k lp Hk. rewrite (sumf_upd _ _ _ _ _ Hn). destruct (i_acc _ I _ _ Hk) as [H1 H2]. split; [|exact H2]. rewrite Hp. lia.
  - apply (i_ln _ I).
  - apply (i_ro _ I).
  - apply (i_stop _ I).
  - apply Forall_upd; [apply (i_wf _ I)|exact Hw].
Qed.

(* a step of the Shutdown thread or of the clock that leaves connections, loops and counters alone *)
Lemma inv_sd s st' d p :
  inv s ->
  (post_ln p = true -> Forall (fun lp => lnopen lp = false /\ inln lp = false) (loops s)) ->
  (p = SReadOpen -> serving s = 0) ->
  st' = sd_active p ->
  forall t, inv (mkSt st' d (serving s) (open s) t p (conns s) (loops s)).
Proof. intros I H1 H2 H3 t. constructor; cbn [stop dn serving open now sd conns loops]; auto; apply I. Qed.

(* ---- preservation --------------------------------------------------------------------------------------------------- *)
Ltac conn_case I Hstep c :=
  let r := fresh "r" in let Hn := fresh "Hn" in
  destruct (nth_error (conns _) c) as [r|] eqn:Hn; [|discriminate Hstep];
  let Hwf := fresh "Hwf" in
  pose proof (Forall_nth _ _ _ _ (i_wf _ I) Hn) as Hwf;
  unfold cwf in Hwf;
  destruct r as [p lid im iv ts sc cc infl buf unf hjk stt del lst lsc abn cdn];
  unfold set_pc, flush_exit, exit_loop in Hstep;
  cbn [pc loopid inmap ival tstart srvClosed cliClosed inflight buffered unflushed hijack started delivered lost lostc abandoned cdone] in Hstep, Hwf.

Ltac brk_h H := repeat match type of H with
   | context[if ?b then _ else _] => destruct b eqn:?
   end.

Ltac fin I Hn := unfold set_conns; eapply inv_conn; [exact I|exact Hn|reflexivity|(let k := fresh in intros k; unfold acc_at; cbn; reflexivity)|unfold cnt_open; cbn; try lia; try (match goal with |- context[match ?q with _ => _ end] => destruct q end; lia)|
   unfold cwf, inprog in *; cbn in *; repeat match goal with |- context[if ?b then _ else _] => destruct b end; lia].

Lemma inv_step cf s l s' : inv s -> step cf s l = Some s' -> inv s'.
Proof.
  intros I Hstep. destruct l; cbn [step] in Hstep.
  - (* LServeStart *)
    destruct (sd_running s) eqn:Eb; [discriminate|]. injection Hstep as <-. rewrite sd_running_active in Eb.
    constructor; cbn [stop dn serving open now sd conns loops].
    + apply (i_open _ I).
    + rewrite sumf_app. cbn. rewrite (i_serving _ I). lia.
    + eapply Forall_impl; [|exact (i_loopid _ I)]. intros r Hr. cbn beta in Hr. rewrite app_length. cbn [length]. lia.
    + intros k lp Hk. apply nth_error_app_last in Hk as [Hk|[-> ->]]; [exact (i_acc _ I _ _ Hk)|].
      cbn. split; [|discriminate]. apply sumf_zero_all_conv. intros r Hin. unfold acc_at.
      pose proof (i_loopid _ I) as Hf. rewrite Forall_forall in Hf. specialize (Hf _ Hin).
      destruct (pc r); try reflexivity. destruct (Nat.eqb (loopid r) (length (loops s))) eqn:E; [apply Nat.eqb_eq in E; lia|reflexivity].
    + intros Hp. destruct (sd s); discriminate.
    + intros Hp. rewrite Hp in Eb. discriminate.
    + apply (i_stop _ I).
    + apply (i_wf _ I).
  - (* LAccept *)
    destruct (nth_error (loops s) k) as [lp|] eqn:Hk; [|discriminate].
    destruct (lrunning lp && negb (lbusy lp) && lnopen lp) eqn:E; [|discriminate]. injection Hstep as <-.
    apply andb_true_iff in E as [E E3]. apply andb_true_iff in E as [E1 E2]. apply negb_true_iff in E2.
    constructor; cbn [stop dn serving open now sd conns loops].
    + rewrite sumf_app. cbn. rewrite (i_open _ I). lia.
    + rewrite (sumf_upd _ _ _ _ _ Hk). cbn. rewrite E1. rewrite (i_serving _ I). cbn. lia.
    + rewrite length_upd. apply Forall_app. split; [apply (i_loopid _ I)|]. constructor; [|constructor]. cbn. apply nth_error_Some. congruence.
    + intros k' lp' Hk'. rewrite sumf_app. cbn [sumf]. unfold acc_at at 2. cbn [pc loopid].
      apply loops_upd_lookup in Hk' as [(-> & -> & _)|(Hne & Hk')].
      * rewrite Nat.eqb_refl. destruct (i_acc _ I _ _ Hk) as [Ha _]. rewrite Ha, E2. cbn. split; [lia|reflexivity].
      * destruct (Nat.eqb k k') eqn:E; [apply Nat.eqb_eq in E; congruence|]. destruct (i_acc _ I _ _ Hk') as [Ha Hb]. split; [lia|exact Hb].
    + intros Hp. exfalso. pose proof (i_ln _ I Hp) as Hf. rewrite Forall_forall in Hf. destruct (Hf lp (nth_error_In _ _ Hk)) as [H _]. congruence.
    + apply (i_ro _ I).
    + apply (i_stop _ I).
    + apply Forall_app. split; [apply (i_wf _ I)|]. constructor; [|constructor]. unfold cwf, inprog. cbn. lia.
  - (* LOpenInc *)
    conn_case I Hstep c. destruct p; try discriminate Hstep.
    destruct (nth_error (loops s) lid) as [lp|] eqn:Hk; [|discriminate]. injection Hstep as <-.
    destruct (i_acc _ I _ _ Hk) as [Ha Hb].
    assert (Hin : In (mkConn CAccepted lid im iv ts sc cc infl buf unf hjk stt del lst lsc abn cdn) (conns s)) by (eapply nth_error_In; eauto).
    assert (Hbusy : lbusy lp = true).
    { pose proof (sumf_pos_in (acc_at lid) (conns s) _ (acc_at_nonneg lid) Hin) as H. unfold acc_at at 1 in H. cbn in H. rewrite Nat.eqb_refl in H.
      rewrite Ha in H. destruct (lbusy lp); [reflexivity|cbn in H; lia]. }
    constructor; cbn [stop dn serving open now sd conns loops].
    + rewrite (sumf_upd _ _ _ _ _ Hn). rewrite (i_open _ I). unfold cnt_open. cbn. lia.
    + rewrite (sumf_upd _ _ _ _ _ Hk). cbn. rewrite (i_serving _ I). lia.
    + rewrite length_upd. apply Forall_upd; [apply (i_loopid _ I)|]. cbn. exact (Forall_nth _ _ _ _ (i_loopid _ I) Hn).
    + intros k' lp' Hk'. rewrite (sumf_upd _ _ _ _ _ Hn). unfold acc_at at 2 3. cbn [pc loopid].
      apply loops_upd_lookup in Hk' as [(-> & -> & _)|(Hne & Hk')].
      * rewrite Nat.eqb_refl. rewrite Ha, Hbusy. cbn. split; [lia|discriminate].
      * destruct (Nat.eqb lid k') eqn:E; [apply Nat.eqb_eq in E; congruence|]. destruct (i_acc _ I _ _ Hk') as [Ha' Hb']. split; [lia|exact Hb'].
    + intros Hp. pose proof (i_ln _ I Hp) as Hf. apply Forall_upd; [exact Hf|]. cbn. rewrite Forall_forall in Hf. apply Hf. eapply nth_error_In; eauto.
    + apply (i_ro _ I).
    + apply (i_stop _ I).
    + apply Forall_upd; [apply (i_wf _ I)|]. unfold cwf, inprog in *. cbn in *. exact Hwf.
  - (* LAcceptFail *)
    destruct (nth_error (loops s) k) as [lp|] eqn:Hk; [|discriminate].
    destruct (lrunning lp && negb (lbusy lp) && negb (lnopen lp)) eqn:E; [|discriminate]. injection Hstep as <-.
    apply andb_true_iff in E as [E E3]. apply andb_true_iff in E as [E1 E2]. apply negb_true_iff in E2. apply negb_true_iff in E3.
    constructor; cbn [stop dn serving open now sd conns loops].
    + apply (i_open _ I).
    + rewrite (sumf_upd _ _ _ _ _ Hk). cbn. rewrite E1. rewrite (i_serving _ I). cbn. lia.
    + rewrite length_upd. apply (i_loopid _ I).
    + intros k' lp' Hk'. apply loops_upd_lookup in Hk' as [(-> & -> & _)|(Hne & Hk')]; [|exact (i_acc _ I _ _ Hk')].
      destruct (i_acc _ I _ _ Hk) as [Ha _]. rewrite Ha, E2. cbn. split; [reflexivity|discriminate].
    + intros Hp. pose proof (i_ln _ I Hp) as Hf. apply Forall_upd; [exact Hf|]. cbn. split; [reflexivity|].
      rewrite Forall_forall in Hf. apply (Hf lp). eapply nth_error_In; eauto.
    + intros Hs. pose proof (i_ro _ I Hs) as H0. rewrite (i_serving _ I) in H0.
      pose proof (sumf_zero_all (fun lp => b2z (lrunning lp)) (loops s) (fun x => proj1 (b2z_range (lrunning x))) H0 lp (nth_error_In _ _ Hk)) as H.
      cbn in H. rewrite E1 in H. discriminate.
    + apply (i_stop _ I).
    + apply (i_wf _ I).
  - (* LRegIdle *) conn_case I Hstep c. destruct p; try discriminate Hstep. injection Hstep as <-. fin I Hn.
  - (* LSetDeadline *) conn_case I Hstep c. destruct p; try discriminate Hstep. brk_h Hstep; injection Hstep as <-; fin I Hn.
  - (* LPeekOk *) conn_case I Hstep c. destruct p; try discriminate Hstep. brk_h Hstep; try discriminate Hstep; injection Hstep as <-; fin I Hn.
  - (* LPeekFail *) conn_case I Hstep c. destruct p; try discriminate Hstep. brk_h Hstep; try discriminate Hstep; injection Hstep as <-; fin I Hn.
  - (* LStore0 *) conn_case I Hstep c. destruct p; try discriminate Hstep. injection Hstep as <-. fin I Hn.
  - (* LLoadStop *) conn_case I Hstep c. destruct p; try discriminate Hstep. destruct (stop s) eqn:Est; injection Hstep as <-; fin I Hn.
  - (* LLookup *) conn_case I Hstep c. destruct p; try discriminate Hstep. destruct im; injection Hstep as <-; fin I Hn.
  - (* LReadReq *) conn_case I Hstep c. destruct p; try discriminate Hstep. brk_h Hstep; try discriminate Hstep; injection Hstep as <-; fin I Hn.
  - (* LHandlerEnd *) conn_case I Hstep c. destruct p; try discriminate Hstep. injection Hstep as <-. fin I Hn.
  - (* LAbandon *) conn_case I Hstep c. destruct p; try discriminate Hstep. injection Hstep as <-. fin I Hn.
  - (* LHijack *) conn_case I Hstep c. destruct p; try discriminate Hstep. injection Hstep as <-. fin I Hn.
  - (* LWrite *) conn_case I Hstep c. destruct p; try discriminate Hstep. brk_h Hstep; try discriminate Hstep; injection Hstep as <-; fin I Hn.
  - (* LStoreT *) conn_case I Hstep c. destruct p; try discriminate Hstep. injection Hstep as <-. fin I Hn.
  - (* LCheckStop *) conn_case I Hstep c. destruct p; try discriminate Hstep. brk_h Hstep; injection Hstep as <-; fin I Hn.
  - (* LUnregIdle *) conn_case I Hstep c. destruct p; try discriminate Hstep. injection Hstep as <-. fin I Hn.
  - (* LOpenDec *) conn_case I Hstep c. destruct p; try discriminate Hstep. injection Hstep as <-. fin I Hn.
  - (* LSetStop *)
    destruct (sd_running s) eqn:Er; [discriminate|]. rewrite sd_running_active in Er.
    pose proof (i_stop _ I) as Hst. rewrite Er in Hst.
    destruct (existsb inln (loops s)); injection Hstep as <-.
    + apply inv_sd; auto; discriminate.
    + unfold set_sd. rewrite Hst. apply inv_sd; auto; discriminate.
  - (* LCloseListeners *)
    destruct (sd s) eqn:Es; try discriminate Hstep. injection Hstep as <-.
    pose proof (i_stop _ I) as Hst. rewrite Es in Hst. cbn in Hst.
    constructor; cbn [stop dn serving open now sd conns loops].
    + apply (i_open _ I).
    + rewrite (i_serving _ I). clear. induction (loops s) as [|x l IH]; cbn [sumf map]; [reflexivity|]. cbn [lrunning]. lia.
    + rewrite map_length. apply (i_loopid _ I).
    + intros k lp Hk. rewrite nth_error_map in Hk. destruct (nth_error (loops s) k) as [lp0|] eqn:E; [|discriminate].
      cbn in Hk. injection Hk as <-. cbn. exact (i_acc _ I _ _ E).
    + intros _. apply Forall_forall. intros lp Hin. apply in_map_iff in Hin as (x & <- & _). split; reflexivity.
    + discriminate.
    + exact Hst.
    + apply (i_wf _ I).
  - (* LCloseDone *)
    destruct (sd s) eqn:Es; try discriminate Hstep. injection Hstep as <-.
    pose proof (i_stop _ I) as Hst. rewrite Es in Hst. cbn in Hst. rewrite Hst.
    apply inv_sd; auto; try discriminate. intros _. apply (i_ln _ I). rewrite Es. reflexivity.
  - (* LCloseIdle *)
    destruct (sd s) eqn:Es; try discriminate Hstep. injection Hstep as <-.
    assert (Hpc : forall t r, pc (close_if_idle t r) = pc r) by (intros t r; unfold close_if_idle; destruct (_ && _); reflexivity).
    assert (Hlid : forall t r, loopid (close_if_idle t r) = loopid r) by (intros t r; unfold close_if_idle; destruct (_ && _); reflexivity).
    constructor; cbn [stop dn serving open now sd conns loops].
    + rewrite sumf_map; [apply (i_open _ I)|]. intros r. unfold cnt_open. now rewrite Hpc.
    + apply (i_serving _ I).
    + apply Forall_forall. intros r Hin. apply in_map_iff in Hin as (x & <- & Hx). rewrite Hlid.
      pose proof (i_loopid _ I) as Hf. rewrite Forall_forall in Hf. auto.
    + intros k lp Hk. rewrite sumf_map; [exact (i_acc _ I _ _ Hk)|]. intros r. unfold acc_at. now rewrite Hpc, Hlid.
    + intros _. apply (i_ln _ I). rewrite Es. reflexivity.
    + discriminate.
    + pose proof (i_stop _ I) as Hst. rewrite Es in Hst. exact Hst.
    + apply Forall_forall. intros r Hin. apply in_map_iff in Hin as (x & <- & Hx).
      pose proof (i_wf _ I) as Hf. rewrite Forall_forall in Hf. specialize (Hf _ Hx).
      unfold close_if_idle. destruct (_ && _); [|exact Hf]. unfold cwf, inprog in *. cbn. exact Hf.
  - (* LReadServing *)
    destruct (sd s) eqn:Es; try discriminate Hstep. injection Hstep as <-. unfold set_sd.
    pose proof (i_stop _ I) as Hst. rewrite Es in Hst. cbn in Hst. rewrite Hst.
    assert (Hln : Forall (fun lp => lnopen lp = false /\ inln lp = false) (loops s)) by (apply (i_ln _ I); rewrite Es; reflexivity).
    destruct (serving s =? 0) eqn:E0; apply inv_sd; auto; try discriminate. lia.
  - (* LReadOpen *)
    destruct (sd s) eqn:Es; try discriminate Hstep.
    pose proof (i_stop _ I) as Hst. rewrite Es in Hst. cbn in Hst.
    assert (Hln : Forall (fun lp => lnopen lp = false /\ inln lp = false) (loops s)) by (apply (i_ln _ I); rewrite Es; reflexivity).
    destruct (open s =? 0) eqn:E0; injection Hstep as <-.
    + apply inv_sd; auto; discriminate.
    + unfold set_sd. rewrite Hst. apply inv_sd; auto; discriminate.
  - (* LTicker *)
    destruct (sd s) eqn:Es; try discriminate Hstep. injection Hstep as <-. unfold set_sd.
    pose proof (i_stop _ I) as Hst. rewrite Es in Hst. cbn in Hst. rewrite Hst.
    apply inv_sd; auto; try discriminate. intros _. apply (i_ln _ I). rewrite Es. reflexivity.
  - (* LCtxExpire *)
    destruct (sd s) eqn:Es; try discriminate Hstep. injection Hstep as <-. apply inv_sd; auto; discriminate.
  - (* LSend *)
    conn_case I Hstep c. destruct cc; try discriminate Hstep. injection Hstep as <-. fin I Hn.
  - (* LClientClose *)
    conn_case I Hstep c. injection Hstep as <-. fin I Hn.
  - (* LTick *)
    destruct (d <? 0); [discriminate|]. injection Hstep as <-. rewrite (i_stop _ I).
    apply inv_sd; [exact I|apply (i_ln _ I)|apply (i_ro _ I)|reflexivity].
Qed.

Lemma inv_reach cf s : reach cf s -> inv s.
Proof. induction 1 as [|s l s' _ IH Hs]; [apply inv_init|exact (inv_step _ _ _ _ IH Hs)]. Qed.

Lemma run_reach cf tr : forall s0 s, reach cf s0 -> run cf s0 tr = Some s -> reach cf s.
Proof.
  induction tr as [|l tr IH]; intros s0 s R H; cbn in H; [injection H as <-; exact R|].
  destruct (step cf s0 l) as [s1|] eqn:E; [|discriminate]. eapply IH; [|exact H]. eapply reach_step; eauto.
Qed.
